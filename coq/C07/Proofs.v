(* C07 — proofs, part 1: structural invariant, strict two-phase locking, isolation, no deadlock. *)
From PGV Require Import C07.Model.
From Coq Require Import Lia.

(* ------------------------------------------------------------------ small facts *)

Lemma upd_same : forall A (f : nat -> A) k x, upd f k x k = x.
Proof. intros. unfold upd. now rewrite Nat.eqb_refl. Qed.

Lemma upd_other : forall A (f : nat -> A) k x n, n <> k -> upd f k x n = f n.
Proof. intros A f k x n Hn. unfold upd. destruct (Nat.eqb n k) eqn:E; [apply Nat.eqb_eq in E; contradiction|reflexivity]. Qed.

Ltac upd_tac :=
  repeat match goal with
  | |- context [upd _ ?k _ ?k] => rewrite upd_same
  | H : context [upd _ ?k _ ?k] |- _ => rewrite upd_same in H
  | Hn : ?n <> ?k |- context [upd _ ?k _ ?n] => rewrite (upd_other _ _ k _ n Hn)
  | Hn : ?n <> ?k, H : context [upd _ ?k _ ?n] |- _ => rewrite (upd_other _ _ k _ n Hn) in H
  | Hn : ?k <> ?n |- context [upd _ ?k _ ?n] => rewrite (upd_other _ _ k _ n (not_eq_sym Hn))
  | Hn : ?k <> ?n, H : context [upd _ ?k _ ?n] |- _ => rewrite (upd_other _ _ k _ n (not_eq_sym Hn)) in H
  end.

Lemma mem_In : forall v l, mem v l = true <-> In v l.
Proof.
  induction l as [|x l IH]; simpl; [split; [discriminate|tauto]|].
  rewrite orb_true_iff, IH, Nat.eqb_eq. split; intros [H|H]; auto.
Qed.

Lemma add_In : forall x v l, In x (add v l) <-> x = v \/ In x l.
Proof.
  intros x v l. unfold add. destruct (mem v l) eqn:E.
  - apply mem_In in E. split; [auto|intros [->|H]; auto].
  - rewrite in_app_iff. simpl. split.
    + intros [H|[H|[]]]; auto.
    + intros [H|H]; auto.
Qed.

Lemma add_NoDup : forall v l, NoDup l -> NoDup (add v l).
Proof.
  intros v l H. unfold add. destruct (mem v l) eqn:E; [exact H|].
  assert (Hn : ~ In v l) by (intro Hi; apply mem_In in Hi; congruence).
  clear E. induction H as [|x l Hx Hl IH]; simpl; [constructor; [tauto|constructor]|].
  constructor.
  - rewrite in_app_iff. simpl. intros [Hi|[Hi|[]]]; [tauto|subst; apply Hn; now left].
  - apply IH. intro Hi. apply Hn. now right.
Qed.

Lemma remove_In : forall x v l, In x (remove v l) <-> x <> v /\ In x l.
Proof.
  induction l as [|y l IH]; simpl; [tauto|].
  destruct (Nat.eqb v y) eqn:E.
  - apply Nat.eqb_eq in E. subst y. rewrite IH. split; [tauto|intros [Hn [H|H]]; [congruence|tauto]].
  - apply Nat.eqb_neq in E. simpl. rewrite IH. split.
    + intros [H|H]; [subst; split; [congruence|auto]|tauto].
    + tauto.
Qed.

Lemma remove_NoDup : forall v l, NoDup l -> NoDup (remove v l).
Proof.
  induction 1 as [|x l Hx Hl IH]; simpl; [constructor|].
  destruct (Nat.eqb v x); [exact IH|]. constructor; [|exact IH].
  rewrite remove_In. tauto.
Qed.

Lemma remove_notin : forall v l, ~ In v l -> remove v l = l.
Proof.
  induction l as [|x l IH]; simpl; intros H; [reflexivity|].
  destruct (Nat.eqb v x) eqn:E; [apply Nat.eqb_eq in E; subst; tauto|].
  f_equal. apply IH. tauto.
Qed.

Lemma kvs_eqb_eq : forall a b, kvs_eqb a b = true -> a = b.
Proof.
  induction a as [|[k x] a IH]; destruct b as [|[k' x'] b]; simpl; intros H; try discriminate; [reflexivity|].
  apply andb_true_iff in H as [H H3]. apply andb_true_iff in H as [H1 H2].
  apply Z.eqb_eq in H1, H2. subst. f_equal. now apply IH.
Qed.

Lemma kvs_eqb_refl : forall a, kvs_eqb a a = true.
Proof. induction a as [|[k x] a IH]; simpl; [reflexivity|]. now rewrite !Z.eqb_refl, IH. Qed.

Lemma val_eqb_eq : forall a b, val_eqb a b = true -> a = b.
Proof.
  destruct a, b; simpl; intros H; try discriminate.
  - apply Z.eqb_eq in H. now subst.
  - apply kvs_eqb_eq in H. now subst.
Qed.

Lemma val_eqb_refl : forall a, val_eqb a a = true.
Proof. destruct a; simpl; [apply Z.eqb_refl|apply kvs_eqb_refl]. Qed.

Lemma oval_eqb_eq : forall a b, oval_eqb a b = true -> a = b.
Proof. destruct a, b; simpl; intros H; try discriminate; [apply val_eqb_eq in H; now subst|reflexivity]. Qed.

Lemma oval_eqb_refl : forall a, oval_eqb a a = true.
Proof. destruct a; simpl; [apply val_eqb_refl|reflexivity]. Qed.

(* ------------------------------------------------------------------ accessors *)

Definition has (st : state) (i v : nat) : bool := s_has (shs st i) v.
Definition ph (st : state) (i : nat) : phase := s_phase (shs st i).
Definition dirty (st : state) (i : nat) : list nat := s_dirty (shs st i).
Definition locked (st : state) (v : nat) : bool := m_locked (mgrs st v).
Definition value (st : state) (v : nat) : val := m_value (mgrs st v).
Definition old (st : state) (v : nat) : val := m_old (mgrs st v).

(* ------------------------------------------------------------------ runs *)

Lemma run_app : forall evs1 evs2 st st1 o1,
  run st evs1 = Some (st1, o1) ->
  run st (evs1 ++ evs2) = match run st1 evs2 with Some (st2, o2) => Some (st2, o1 ++ o2) | None => None end.
Proof.
  induction evs1 as [|e evs1 IH]; simpl; intros evs2 st st1 o1 H.
  - inversion H; subst. destruct (run st1 evs2) as [[? ?]|]; reflexivity.
  - destruct (step st e) as [[st' out]|]; [|discriminate].
    destruct (run st' evs1) as [[st'' outs]|] eqn:E; [|discriminate].
    inversion H; subst. rewrite (IH evs2 _ _ _ E).
    destruct (run st1 evs2) as [[? ?]|]; reflexivity.
Qed.

Lemma run_app_inv : forall evs1 evs2 st st2 o,
  run st (evs1 ++ evs2) = Some (st2, o) ->
  exists st1 o1 o2, run st evs1 = Some (st1, o1) /\ run st1 evs2 = Some (st2, o2) /\ o = o1 ++ o2.
Proof.
  induction evs1 as [|e evs1 IH]; simpl; intros evs2 st st2 o H.
  - exists st, [], o. auto.
  - destruct (step st e) as [[st' out]|]; [|discriminate].
    destruct (run st' (evs1 ++ evs2)) as [[st'' outs]|] eqn:E; [|discriminate].
    inversion H; subst. destruct (IH _ _ _ _ E) as (st1 & o1 & o2 & H1 & H2 & ->).
    exists st1, (out :: o1), o2. rewrite H1. auto.
Qed.

Definition reachable (init : nat -> val) (st : state) : Prop :=
  exists evs outs, run (init_state init) evs = Some (st, outs).

Lemma reachable_step : forall init st e st' out,
  reachable init st -> step st e = Some (st', out) -> reachable init st'.
Proof.
  intros init st e st' out (evs & outs & H) Hs. exists (evs ++ [e]), (outs ++ [out]).
  rewrite (run_app _ _ _ _ _ H). simpl. now rewrite Hs.
Qed.

Lemma reachable_run : forall init st evs st' outs,
  reachable init st -> run st evs = Some (st', outs) -> reachable init st'.
Proof.
  intros init st evs st' outs (evs0 & outs0 & H) Hr. exists (evs0 ++ evs), (outs0 ++ outs).
  rewrite (run_app _ _ _ _ _ H). now rewrite Hr.
Qed.

(* ------------------------------------------------------------------ structural invariant *)

Record SInv (st : state) : Prop := {
  si_excl : forall i j v, has st i v = true -> has st j v = true -> i = j;
  si_haslock : forall i v, has st i v = true -> locked st v = true;
  si_hasdirty : forall i v, has st i v = true -> In v (dirty st i);
  si_idle : forall i, ph st i = Idle -> dirty st i = [];
  si_nodup : forall i, NoDup (dirty st i);
  si_clean : forall v, locked st v = false -> value st v = old st v
}.

Lemma sinv_init : forall init, SInv (init_state init).
Proof.
  intro init. constructor; unfold has, locked, dirty, ph, value, old; simpl; intros; try discriminate; auto.
  constructor.
Qed.

(* inversion of one step: every case, with the facts the code path establishes *)
Ltac step_inv H :=
  match type of H with
  | step ?st ?e = Some _ =>
      tryif is_var e then destruct e else idtac; cbn [step] in H;
      repeat match type of H with
      | context [match s_phase ?s with _ => _ end] => let E := fresh "Eph" in destruct (s_phase s) eqn:E; try discriminate H
      | context [match s_dirty ?s with _ => _ end] => let E := fresh "Edirty" in destruct (s_dirty s) eqn:E; try discriminate H
      | context [if ?c then _ else _] => let E := fresh "Ec" in destruct c eqn:E; try discriminate H
      | context [match exec_acc ?a ?x with _ => _ end] => let E := fresh "Eex" in destruct (exec_acc a x) as [[? ?]|] eqn:E; try discriminate H
      end;
      inversion H; subst; clear H
  end.

Ltac split_upd :=
  repeat first
  [ progress cbn [mgrs shs set_sh set_both s_has s_phase s_dirty m_locked m_value m_old] in *
  | match goal with
    | H : context [upd _ ?k _ ?n] |- _ =>
        lazymatch n with
        | k => rewrite upd_same in H
        | _ => destruct (Nat.eq_dec n k); [subst n; rewrite upd_same in H | rewrite (upd_other _ _ k _ n) in H by assumption]
        end
    | |- context [upd _ ?k _ ?n] =>
        lazymatch n with
        | k => rewrite upd_same
        | _ => destruct (Nat.eq_dec n k); [subst n; rewrite upd_same | rewrite (upd_other _ _ k _ n) by assumption]
        end
    end ].

Lemma sinv_step : forall st e st' out, SInv st -> step st e = Some (st', out) -> SInv st'.
Proof.
  intros st e st' out I H.
  destruct I as [Iex Ihl Ihd Iid Ind Icl].
  unfold has, locked, dirty, ph, value, old in *.
  step_inv H; constructor; unfold has, locked, dirty, ph, value, old; intros; split_upd;
    try discriminate; try congruence; eauto 3;
    try (apply add_In; eauto; fail);
    try (apply add_NoDup; eauto; fail);
    try (apply remove_NoDup; eauto; fail);
    try (constructor; fail).
  all: try (apply remove_In; split; [congruence|eauto]; fail).
  all: try (match goal with H : s_has (shs _ ?i) ?v = true |- In ?v [] =>
              let X := fresh in pose proof (Ihd _ _ H) as X;
              first [rewrite (Iid _ Eph) in X | rewrite Edirty in X]; exact X end).
  all: try (match goal with H : s_has (shs _ _) _ = true, H' : s_has (shs _ _) _ = true |- _ =>
              pose proof (Iex _ _ _ H H'); congruence end).
  all: try (match goal with H : s_has (shs _ _) _ = true |- _ =>
              let X := fresh in pose proof (Ihl _ _ H) as X; rewrite X in *; simpl in *; congruence end).
Qed.

Lemma sinv_run : forall evs st st' outs, SInv st -> run st evs = Some (st', outs) -> SInv st'.
Proof.
  induction evs as [|e evs IH]; simpl; intros st st' outs I H.
  - inversion H; now subst.
  - destruct (step st e) as [[st1 out]|] eqn:E; [|discriminate].
    destruct (run st1 evs) as [[st2 outs2]|] eqn:E2; [|discriminate].
    inversion H; subst. eapply IH; [|exact E2]. eapply sinv_step; eauto.
Qed.

Lemma sinv_reachable : forall init st, reachable init st -> SInv st.
Proof. intros init st (evs & outs & H). eapply sinv_run; [apply sinv_init|exact H]. Qed.

(* ------------------------------------------------------------------ frame: who acts *)

Definition actor (e : event) : nat :=
  match e with
  | EBegin i | EAccess i _ _ | ETimeout i _ | ECommitStart i | EAbortStart i
  | ECommitRelease i _ | EAbortRelease i _ | EEnd i | EGetState i _ => i
  end.

Lemma step_frame : forall st e st' out i,
  step st e = Some (st', out) -> i <> actor e -> shs st' i = shs st i.
Proof.
  intros st e st' out i H Hn. step_inv H; cbn [actor] in Hn; cbn [shs set_sh set_both]; try reflexivity;
    now rewrite upd_other by assumption.
Qed.

(* ------------------------------------------------------------------ strict two-phase locking *)

Definition releasing (p : phase) : Prop := p = Committing \/ p = Aborting.

Lemma releasing_step : forall st e st' out i,
  step st e = Some (st', out) -> releasing (ph st i) -> e <> EEnd i -> releasing (ph st' i).
Proof.
  intros st e st' out i H Hr Hne. unfold ph in *.
  destruct (Nat.eq_dec i (actor e)) as [Heq|Hn]; [|now rewrite (step_frame _ _ _ _ _ H Hn)].
  destruct e; cbn [actor] in Heq; subst i;
  step_inv H; cbn [shs set_sh set_both]; rewrite ?upd_same; cbn [s_phase];
    try (destruct Hr as [Hr|Hr]; congruence); try (now left); try (now right); try assumption.
Qed.

Lemma access_needs_active : forall st i v a st' out,
  step st (EAccess i v a) = Some (st', out) -> ph st i = Active.
Proof. intros st i v a st' out H. unfold ph. step_inv H; auto. Qed.

Lemma releasing_no_access : forall evs st st' outs i,
  run st evs = Some (st', outs) -> releasing (ph st i) ->
  forall q w a, nth_error evs q = Some (EAccess i w a) ->
  exists r, r < q /\ nth_error evs r = Some (EEnd i).
Proof.
  induction evs as [|e evs IH]; intros st st' outs i H Hr q w a Hq.
  - destruct q; discriminate.
  - simpl in H. destruct (step st e) as [[st1 out]|] eqn:E; [|discriminate].
    destruct (run st1 evs) as [[st2 outs2]|] eqn:E2; [|discriminate].
    destruct q as [|q]; simpl in Hq.
    + inversion Hq; subst. apply access_needs_active in E. destruct Hr as [Hr|Hr]; congruence.
    + assert (Hdec : e = EEnd i \/ e <> EEnd i).
      { destruct e; try (right; discriminate). destruct (Nat.eq_dec i0 i); [left; now subst|right; congruence]. }
      destruct Hdec as [->|Hne]; [exists 0; split; [lia|reflexivity]|].
      destruct (IH _ _ _ i E2 (releasing_step _ _ _ _ _ E Hr Hne) q w a Hq) as (r & Hlt & Hr').
      exists (S r). split; [lia|exact Hr'].
Qed.

Lemma release_then_releasing : forall st e st' out i v,
  step st e = Some (st', out) -> e = ECommitRelease i v \/ e = EAbortRelease i v -> releasing (ph st' i).
Proof.
  intros st e st' out i v H [-> | ->]; unfold ph; step_inv H; cbn [shs set_sh set_both]; rewrite upd_same; cbn [s_phase];
    try (now left); now right.
Qed.

Lemma strict_2pl_lemma : forall init evs st outs p q i v w a,
  run (init_state init) evs = Some (st, outs) -> p < q ->
  nth_error evs p = Some (ECommitRelease i v) \/ nth_error evs p = Some (EAbortRelease i v) ->
  nth_error evs q = Some (EAccess i w a) ->
  exists r, p < r < q /\ nth_error evs r = Some (EEnd i).
Proof.
  intros init evs st outs p q i v w a H Hpq Hp Hq.
  assert (Hp' : exists e, nth_error evs p = Some e /\ (e = ECommitRelease i v \/ e = EAbortRelease i v)).
  { destruct Hp as [Hp|Hp]; eexists; split; eauto. }
  destruct Hp' as (e & Hpe & He).
  destruct (nth_error_split _ _ Hpe) as (l1 & l2 & -> & Hlen).
  destruct (run_app_inv _ _ _ _ _ H) as (sta & o1 & o2 & H1 & H2 & _).
  simpl in H2. destruct (step sta e) as [[stb out]|] eqn:E; [|discriminate].
  destruct (run stb l2) as [[stc o3]|] eqn:E3; [|discriminate].
  rewrite nth_error_app2 in Hq by lia. rewrite Hlen in Hq.
  destruct (q - p) as [|k] eqn:Ek; [lia|]. simpl in Hq.
  destruct (releasing_no_access _ _ _ _ i E3 (release_then_releasing _ _ _ _ _ _ E He) k w a Hq) as (r & Hlt & Hr).
  exists (p + 1 + r). split; [lia|].
  rewrite nth_error_app2 by lia. rewrite Hlen. replace (p + 1 + r - p) with (S r) by lia. exact Hr.
Qed.

(* a lock is taken only from the Active phase, given back only from Committing / Aborting *)
Lemma acquire_release_phases : forall st e st' out i v,
  step st e = Some (st', out) ->
  (has st i v = false -> has st' i v = true -> ph st i = Active /\ exists a, e = EAccess i v a) /\
  (has st i v = true -> has st' i v = false -> releasing (ph st i) /\ (e = ECommitRelease i v \/ e = EAbortRelease i v)).
Proof.
  intros st e st' out i v H. unfold has, ph.
  destruct (Nat.eq_dec i (actor e)) as [Heq|Hn];
    [|rewrite (step_frame _ _ _ _ _ H Hn); split; intros; congruence].
  destruct e; cbn [actor] in Heq; subst i;
  step_inv H; cbn [shs set_sh set_both]; rewrite ?upd_same; cbn [s_has];
    split; intros Ha Hb; try congruence.
  all: match goal with
       | H : upd _ ?k _ ?n = _ |- _ =>
           destruct (Nat.eq_dec n k); [subst; rewrite upd_same in H | rewrite upd_other in H by assumption; congruence]
       end; try congruence.
  all: try (split; [auto|eexists; reflexivity]); try (eexists; reflexivity).
  all: split; [unfold releasing; auto | auto].
Qed.

(* while sharer i holds v nobody else can read, write, index or snapshot it *)
Lemma isolation_lemma : forall init st i j v a,
  reachable init st -> has st i v = true -> j <> i ->
  step st (EAccess j v a) = None /\ step st (EGetState j v) = None.
Proof.
  intros init st i j v a R Hh Hn. pose proof (sinv_reachable _ _ R) as I.
  assert (Hj : s_has (shs st j) v = false).
  { destruct (s_has (shs st j) v) eqn:E; [|reflexivity]. exfalso. apply Hn. eapply si_excl; eauto. }
  assert (Hl : m_locked (mgrs st v) = true) by (eapply si_haslock; eauto).
  cbn [step]. rewrite Hj, Hl. simpl. split; [destruct (s_phase (shs st j)); reflexivity|reflexivity].
Qed.

(* ------------------------------------------------------------------ no deadlock *)

Definition rel_ev (c : bool) (i v : nat) : event := if c then ECommitRelease i v else EAbortRelease i v.
Definition rel_ph (c : bool) : phase := if c then Committing else Aborting.

Lemma release_enabled : forall c st i v,
  ph st i = rel_ph c -> In v (dirty st i) ->
  exists st', step st (rel_ev c i v) = Some (st', None) /\ ph st' i = rel_ph c /\ dirty st' i = remove v (dirty st i).
Proof.
  intros c st i v Hp Hin. unfold ph, dirty in *. apply mem_In in Hin.
  destruct c; cbn [rel_ev rel_ph] in *; destruct (s_has (shs st i) v) eqn:Eh;
    eexists; (split; [cbn [step]; rewrite Hp, Hin, Eh; reflexivity|]); cbn [shs set_sh set_both]; rewrite upd_same; auto.
Qed.

Lemma end_enabled : forall c st i,
  ph st i = rel_ph c -> dirty st i = [] ->
  exists st', step st (EEnd i) = Some (st', None) /\ ph st' i = Idle /\ dirty st' i = [].
Proof.
  intros c st i Hp Hd. unfold ph, dirty in *.
  exists (set_sh st i (mkSharer Idle [] (s_has (shs st i)))).
  split; [cbn [step]; rewrite Hp, Hd; destruct c; reflexivity|]. cbn [shs set_sh]. rewrite upd_same. auto.
Qed.

Lemma release_all : forall c l st i,
  ph st i = rel_ph c -> dirty st i = l -> NoDup l ->
  exists st' outs, run st (map (rel_ev c i) l ++ [EEnd i]) = Some (st', outs) /\ ph st' i = Idle /\ dirty st' i = [].
Proof.
  induction l as [|v l IH]; intros st i Hp Hd Hnd.
  - destruct (end_enabled c st i Hp Hd) as (st' & Hs & Hp' & Hd'). exists st', [None]. cbn [map app run]. rewrite Hs. auto.
  - inversion Hnd as [|? ? Hv Hl]; subst.
    destruct (release_enabled c st i v Hp) as (st1 & Hs & Hp1 & Hd1); [rewrite Hd; now left|].
    rewrite Hd in Hd1. simpl in Hd1. rewrite Nat.eqb_refl in Hd1. rewrite remove_notin in Hd1 by assumption.
    destruct (IH st1 i Hp1 Hd1 Hl) as (st2 & outs & Hr & Hp2 & Hd2).
    exists st2, (None :: outs). cbn [map app run]. rewrite Hs, Hr. auto.
Qed.

Lemma no_deadlock_lemma : forall init st i v,
  reachable init st -> blocked st i v = true ->
  exists st1, step st (ETimeout i v) = Some (st1, None) /\
  exists st2 outs, run st1 (map (EAbortRelease i) (dirty st1 i) ++ [EEnd i]) = Some (st2, outs) /\
                   ph st2 i = Idle /\ forall w, has st2 i w = false.
Proof.
  intros init st i v R Hb. unfold blocked in Hb.
  apply andb_true_iff in Hb as [Hb Hl]. apply andb_true_iff in Hb as [Hp Hh].
  apply negb_true_iff in Hh.
  assert (Hph : s_phase (shs st i) = Active) by (destruct (s_phase (shs st i)); simpl in Hp; congruence).
  assert (Hs : step st (ETimeout i v) = Some (set_sh st i (mkSharer Aborting (add v (s_dirty (shs st i))) (s_has (shs st i))), None)).
  { cbn [step]. now rewrite Hph, Hh. }
  eexists. split; [exact Hs|].
  pose proof (reachable_step _ _ _ _ _ R Hs) as R1.
  set (st1 := set_sh st i _) in *.
  destruct (release_all false (dirty st1 i) st1 i) as (st2 & outs & Hr & Hp2 & Hd2).
  - unfold ph, st1. cbn [shs set_sh]. now rewrite upd_same.
  - reflexivity.
  - apply (si_nodup _ (sinv_reachable _ _ R1)).
  - exists st2, outs. split; [exact Hr|]. split; [exact Hp2|].
    intro w. pose proof (sinv_reachable _ _ (reachable_run _ _ _ _ _ R1 Hr)) as I2.
    destruct (has st2 i w) eqn:E; [|reflexivity].
    apply (si_hasdirty _ I2) in E. rewrite Hd2 in E. destruct E.
Qed.

(* any section can always be brought to its end by its own events alone, whatever the others do *)
Lemma progress_lemma : forall init st i,
  reachable init st -> ph st i <> Idle ->
  exists evs st2 outs, Forall (fun e => actor e = i) evs /\ run st evs = Some (st2, outs) /\
                       ph st2 i = Idle /\ forall w, has st2 i w = false.
Proof.
  intros init st i R Hp.
  assert (Hrel : forall c st, reachable init st -> ph st i = rel_ph c ->
            exists evs st2 outs, Forall (fun e => actor e = i) evs /\ run st evs = Some (st2, outs) /\
                       ph st2 i = Idle /\ forall w, has st2 i w = false).
  { intros c st0 R0 Hp0.
    destruct (release_all c (dirty st0 i) st0 i Hp0 eq_refl (si_nodup _ (sinv_reachable _ _ R0) i)) as (st2 & outs & Hr & Hp2 & Hd2).
    exists (map (rel_ev c i) (dirty st0 i) ++ [EEnd i]), st2, outs. split; [|split; [exact Hr|split; [exact Hp2|]]].
    - apply Forall_app. split; [|repeat constructor]. apply Forall_map. apply Forall_forall. intros x _. destruct c; reflexivity.
    - intro w. pose proof (sinv_reachable _ _ (reachable_run _ _ _ _ _ R0 Hr)) as I2.
      destruct (has st2 i w) eqn:E; [|reflexivity]. apply (si_hasdirty _ I2) in E. rewrite Hd2 in E. destruct E. }
  unfold ph in Hp. destruct (s_phase (shs st i)) eqn:E; [congruence| |apply (Hrel true st R E)|apply (Hrel false st R E)].
  assert (Hs : step st (EAbortStart i) = Some (set_sh st i (mkSharer Aborting (s_dirty (shs st i)) (s_has (shs st i))), None)).
  { cbn [step]. now rewrite E. }
  destruct (Hrel false _ (reachable_step _ _ _ _ _ R Hs)) as (evs & st2 & outs & Hf & Hr & Hp2 & Hh).
  { unfold ph. cbn [shs set_sh]. now rewrite upd_same. }
  exists (EAbortStart i :: evs), st2, (None :: outs). split; [constructor; [reflexivity|exact Hf]|].
  cbn [run]. rewrite Hs, Hr. auto.
Qed.
