(* C07 — proofs, part 2: refinement to the serial store in commit-point order. *)
From PGV Require Import C07.Model C07.Proofs.
From Coq Require Import Lia.

(* ------------------------------------------------------------------ replay / serial *)

Lemma replay_app : forall l1 l2 s,
  replay s (l1 ++ l2) = match replay s l1 with Some s1 => replay s1 l2 | None => None end.
Proof.
  induction l1 as [|r l1 IH]; intros l2 s; simpl; [reflexivity|].
  destruct (exec_acc (ar_acc r) (s (ar_var r))) as [[nv out]|]; [|reflexivity].
  destruct (oval_eqb out (ar_res r)); [apply IH|reflexivity].
Qed.

Lemma serial_app : forall l1 l2 s,
  serial s (l1 ++ l2) = match serial s l1 with Some s1 => serial s1 l2 | None => None end.
Proof.
  induction l1 as [|c l1 IH]; intros l2 s; simpl; [reflexivity|].
  destruct (replay s (sec_log c)); [apply IH|reflexivity].
Qed.

Lemma replay_frame : forall l s s', replay s l = Some s' ->
  forall v, (forall r, In r l -> ar_var r <> v) -> s' v = s v.
Proof.
  induction l as [|r l IH]; simpl; intros s s' H v Hv; [inversion H; reflexivity|].
  destruct (exec_acc (ar_acc r) (s (ar_var r))) as [[nv out]|]; [|discriminate].
  destruct (oval_eqb out (ar_res r)); [|discriminate].
  rewrite (IH _ _ H v) by (intros r' Hr'; apply Hv; now right).
  apply upd_other. intro E. apply (Hv r); [now left|now symmetry].
Qed.

Lemma replay_ext : forall l s1 s2 s1',
  (forall r, In r l -> s1 (ar_var r) = s2 (ar_var r)) -> replay s1 l = Some s1' ->
  exists s2', replay s2 l = Some s2' /\ forall v, s1 v = s2 v -> s1' v = s2' v.
Proof.
  induction l as [|r l IH]; simpl; intros s1 s2 s1' Hag H.
  - inversion H; subst. exists s2. auto.
  - rewrite <- (Hag r) by now left.
    destruct (exec_acc (ar_acc r) (s1 (ar_var r))) as [[nv out]|]; [|discriminate].
    destruct (oval_eqb out (ar_res r)); [|discriminate].
    destruct (IH (upd s1 (ar_var r) nv) (upd s2 (ar_var r) nv) s1') as (s2' & Hr & Hag'); [|exact H|].
    + intros r' Hr'. unfold upd. destruct (Nat.eqb (ar_var r') (ar_var r)); [reflexivity|apply Hag; now right].
    + exists s2'. split; [exact Hr|]. intros v Hv. apply Hag'. unfold upd. destruct (Nat.eqb v (ar_var r)); auto.
Qed.

(* ------------------------------------------------------------------ the refinement invariant *)

Record Rel (st : state) (s : store) : Prop := {
  rel_unlocked : forall v, locked st v = false -> value st v = s v /\ old st v = s v;
  rel_committing : forall i v, has st i v = true -> ph st i = Committing -> value st v = s v;
  rel_other : forall i v, has st i v = true -> ph st i <> Committing -> old st v = s v
}.

Record ActiveOK (st : state) (h : hist) (s : store) : Prop := {
  act_held : forall i r, ph st i = Active -> In r (h_log h i) -> has st i (ar_var r) = true;
  act_replay : forall i, ph st i = Active ->
      exists s', replay s (h_log h i) = Some s' /\ forall v, has st i v = true -> s' v = value st v
}.

Definition Inv (init : nat -> val) (st : state) (h : hist) : Prop :=
  SInv st /\ exists s, serial init (h_committed h) = Some s /\ Rel st s /\ ActiveOK st h s.

Lemma inv_init : forall init, Inv init (init_state init) hist0.
Proof.
  intro init. split; [apply sinv_init|]. exists init. split; [reflexivity|]. split.
  - constructor; unfold locked, value, old, has, ph; simpl; intros; try discriminate; auto.
  - constructor; unfold has, ph; simpl; intros; discriminate.
Qed.

Lemma no_has_idle : forall st i v, SInv st -> ph st i = Idle -> has st i v = false.
Proof.
  intros st i v I Hp. destruct (has st i v) eqn:E; [|reflexivity].
  apply (si_hasdirty _ I) in E. rewrite (si_idle _ I _ Hp) in E. destruct E.
Qed.

Ltac unf := unfold has, ph, dirty, locked, value, old in *.

(* how the accessors see an updated state *)
Lemma has_set_sh : forall st i sh j w, has (set_sh st i sh) j w = if Nat.eqb j i then s_has sh w else has st j w.
Proof. intros. unfold has, set_sh, upd. cbn [shs]. destruct (Nat.eqb j i); reflexivity. Qed.
Lemma ph_set_sh : forall st i sh j, ph (set_sh st i sh) j = if Nat.eqb j i then s_phase sh else ph st j.
Proof. intros. unfold ph, set_sh, upd. cbn [shs]. destruct (Nat.eqb j i); reflexivity. Qed.
Lemma has_set_both : forall st i sh v m j w, has (set_both st i sh v m) j w = if Nat.eqb j i then s_has sh w else has st j w.
Proof. intros. unfold has, set_both, upd. cbn [shs]. destruct (Nat.eqb j i); reflexivity. Qed.
Lemma ph_set_both : forall st i sh v m j, ph (set_both st i sh v m) j = if Nat.eqb j i then s_phase sh else ph st j.
Proof. intros. unfold ph, set_both, upd. cbn [shs]. destruct (Nat.eqb j i); reflexivity. Qed.
Lemma mgr_set_sh : forall st i sh w, mgrs (set_sh st i sh) w = mgrs st w.
Proof. reflexivity. Qed.
Lemma mgr_set_both : forall st i sh v m w, mgrs (set_both st i sh v m) w = if Nat.eqb w v then m else mgrs st w.
Proof. intros. unfold set_both, upd. cbn [mgrs]. reflexivity. Qed.

Ltac acc_rw :=
  unfold locked, value, old;
  rewrite ?has_set_sh, ?ph_set_sh, ?has_set_both, ?ph_set_both, ?mgr_set_sh, ?mgr_set_both.
Ltac acc_rw_in H :=
  unfold locked, value, old in H;
  rewrite ?has_set_sh, ?ph_set_sh, ?has_set_both, ?ph_set_both, ?mgr_set_sh, ?mgr_set_both in H.

Ltac eqb_case j i :=
  let E := fresh "E" in destruct (Nat.eqb j i) eqn:E; [apply Nat.eqb_eq in E; try subst j | apply Nat.eqb_neq in E].

(* a frame rule for the two invariants: if only sharer i changes its phase between two non-Committing,
   non-Active... (used for the simple events) *)

Lemma upd_if : forall A (f : nat -> A) k x n, upd f k x n = if Nat.eqb n k then x else f n.
Proof. reflexivity. Qed.

Lemma inv_access : forall init st h i v a st' out,
  Inv init st h -> step st (EAccess i v a) = Some (st', out) -> Inv init st' (hstep st h (EAccess i v a) out).
Proof.
  intros init st h i v a st' out [I (s & Hser & R & A)] H.
  split; [eapply sinv_step; eauto|].
  exists s. split; [exact Hser|].
  destruct R as [Ru Rc Ro], A as [Ah Ar].
  assert (Hact : ph st i = Active) by (eapply access_needs_active; eauto).
  destruct (Ar i Hact) as (s' & Hrep & Hs').
  (* shape of the step *)
  assert (Hshape : exists nv lk, exec_acc a (value st v) = Some (nv, out) /\
            (has st i v = true \/ locked st v = false) /\
            st' = set_both st i (mkSharer Active (add v (dirty st i)) (upd (s_has (shs st i)) v true))
                           v (mkMgr lk nv (old st v)) /\ lk = true).
  { unf. step_inv H.
    - exists v0, (m_locked (mgrs st v)). repeat split; auto. apply (si_haslock _ I i v). exact Ec0.
    - exists v0, true. repeat split; auto. right. simpl in Ec. now apply negb_true_iff in Ec. }
  destruct Hshape as (nv & lk & Hex & Hcase & -> & ->). clear H.
  (* nobody else holds v *)
  assert (P1 : forall j, j <> i -> has st j v = false).
  { intros j Hj. destruct (has st j v) eqn:E; [|reflexivity]. exfalso. destruct Hcase as [Hc|Hc].
    - apply Hj. eapply si_excl; eauto.
    - apply (si_haslock _ I) in E. congruence. }
  (* the section's own view of v is the manager's value *)
  assert (P2 : s' v = value st v).
  { destruct (has st i v) eqn:E; [now apply Hs'|]. destruct Hcase as [Hc|Hc]; [congruence|].
    rewrite (replay_frame _ _ _ Hrep v).
    - symmetry. apply (Ru v Hc).
    - intros r Hr Hv. apply (Ah i r Hact) in Hr. congruence. }
  assert (P3 : old st v = s v).
  { destruct Hcase as [Hc|Hc]; [apply (Ro i v Hc); congruence|apply (Ru v Hc)]. }
  split; constructor.
  - (* unlocked *)
    intros w Hw. acc_rw_in Hw. acc_rw. eqb_case w v; [simpl in Hw; discriminate|apply Ru; exact Hw].
  - (* committing *)
    intros j w Hh Hp. acc_rw_in Hh. acc_rw_in Hp. acc_rw. eqb_case j i; [simpl in Hp; discriminate|].
    eqb_case w v; [rewrite P1 in Hh by assumption; discriminate|]. now apply (Rc j w).
  - (* other *)
    intros j w Hh Hp. acc_rw_in Hh. acc_rw_in Hp. acc_rw.
    eqb_case w v; cbn [m_old].
    + exact P3.
    + eqb_case j i; [|now apply (Ro j w)].
      cbn [s_has] in Hh. rewrite upd_if in Hh. apply Nat.eqb_neq in E. rewrite E in Hh. apply (Ro i w Hh). congruence.
  - (* act_held *)
    intros j r Hp Hin. acc_rw_in Hp. acc_rw. cbn [hstep h_log] in Hin. rewrite upd_if in Hin. eqb_case j i.
    + cbn [s_has]. rewrite upd_if. apply in_app_iff in Hin as [Hin|[<-|[]]].
      * pose proof (Ah i r Hact Hin) as X. unfold has in X. rewrite X. destruct (Nat.eqb (ar_var r) v); reflexivity.
      * cbn [ar_var]. now rewrite Nat.eqb_refl.
    + now apply Ah.
  - (* act_replay *)
    intros j Hp. acc_rw_in Hp. cbn [hstep h_log]. rewrite upd_if. eqb_case j i.
    + rewrite replay_app, Hrep. cbn [replay ar_acc ar_var ar_res]. rewrite P2, Hex, oval_eqb_refl.
      eexists. split; [reflexivity|]. intros w Hw. acc_rw_in Hw. acc_rw. rewrite Nat.eqb_refl in Hw. cbn [s_has] in Hw.
      rewrite upd_if in Hw. rewrite upd_if. eqb_case w v; [reflexivity|]. now apply Hs'.
    + destruct (Ar j Hp) as (s'' & Hrep' & Hs''). exists s''. split; [exact Hrep'|].
      intros w Hw. acc_rw_in Hw. acc_rw. apply Nat.eqb_neq in E. rewrite E in Hw. apply Nat.eqb_neq in E.
      eqb_case w v; [rewrite P1 in Hw by assumption; discriminate|]. now apply Hs''.
Qed.

(* frame rules: events that touch neither the managers nor the hasLock bits *)
Lemma rel_frame : forall st st' s,
  Rel st s -> (forall w, mgrs st' w = mgrs st w) -> (forall j w, has st' j w = has st j w) ->
  (forall j w, has st j w = true -> (ph st' j = Committing <-> ph st j = Committing)) ->
  Rel st' s.
Proof.
  intros st st' s [Ru Rc Ro] Hm Hh Hp. constructor; unfold locked, value, old in *.
  - intros w. rewrite Hm. apply Ru.
  - intros j w Hj Hc. rewrite Hh in Hj. rewrite Hm. apply (Rc j w Hj). now apply (Hp j w Hj).
  - intros j w Hj Hc. rewrite Hh in Hj. rewrite Hm. apply (Ro j w Hj). intro X. apply Hc. now apply (Hp j w Hj).
Qed.

Lemma act_frame : forall st st' h h' s,
  ActiveOK st h s -> (forall w, mgrs st' w = mgrs st w) -> (forall j w, has st' j w = has st j w) ->
  (forall j, ph st' j = Active ->
     (ph st j = Active /\ h_log h' j = h_log h j) \/ (h_log h' j = [] /\ forall w, has st j w = false)) ->
  ActiveOK st' h' s.
Proof.
  intros st st' h h' s [Ah Ar] Hm Hh Hp. constructor.
  - intros j r Hj Hin. rewrite Hh. destruct (Hp j Hj) as [[Ha Hl]|[Hl Hn]].
    + rewrite Hl in Hin. now apply Ah.
    + rewrite Hl in Hin. destruct Hin.
  - intros j Hj. destruct (Hp j Hj) as [[Ha Hl]|[Hl Hn]].
    + destruct (Ar j Ha) as (s' & Hr & Hs). exists s'. rewrite Hl. split; [exact Hr|].
      intros w Hw. rewrite Hh in Hw. unfold value. rewrite Hm. now apply Hs.
    + exists s. rewrite Hl. split; [reflexivity|]. intros w Hw. rewrite Hh, Hn in Hw. discriminate.
Qed.

Lemma inv_commit_start : forall init st h i st' out,
  Inv init st h -> step st (ECommitStart i) = Some (st', out) -> Inv init st' (hstep st h (ECommitStart i) out).
Proof.
  intros init st h i st' out [I (s & Hser & R & A)] H.
  split; [eapply sinv_step; eauto|].
  destruct R as [Ru Rc Ro], A as [Ah Ar].
  assert (Hact : ph st i = Active) by (unf; step_inv H; auto).
  assert (Hst : st' = set_sh st i (mkSharer Committing (dirty st i) (s_has (shs st i)))) by (unf; step_inv H; reflexivity).
  subst st'. clear H.
  destruct (Ar i Hact) as (s' & Hrep & Hs').
  assert (Hfr : forall w, has st i w = false -> s' w = s w).
  { intros w Hw. apply (replay_frame _ _ _ Hrep). intros r Hr Hv. apply (Ah i r Hact) in Hr. congruence. }
  exists s'. split.
  { cbn [hstep h_committed]. rewrite serial_app, Hser. cbn [serial sec_log]. now rewrite Hrep. }
  assert (Hhas : forall j w, has (set_sh st i (mkSharer Committing (dirty st i) (s_has (shs st i)))) j w = has st j w).
  { intros j w. rewrite has_set_sh. eqb_case j i; reflexivity. }
  split; constructor.
  - intros w Hw. acc_rw_in Hw. acc_rw. rewrite Hfr; [now apply Ru|].
    destruct (has st i w) eqn:E; [|reflexivity]. apply (si_haslock _ I) in E. unfold locked in E. congruence.
  - intros j w Hh Hp. rewrite Hhas in Hh. acc_rw_in Hp. acc_rw. eqb_case j i.
    + symmetry. now apply Hs'.
    + rewrite Hfr; [now apply (Rc j w)|]. destruct (has st i w) eqn:E'; [|reflexivity]. exfalso. apply E. eapply si_excl; eauto.
  - intros j w Hh Hp. rewrite Hhas in Hh. acc_rw_in Hp. acc_rw. eqb_case j i; [cbn [s_phase] in Hp; congruence|].
    rewrite Hfr; [now apply (Ro j w)|]. destruct (has st i w) eqn:E'; [|reflexivity]. exfalso. apply E. eapply si_excl; eauto.
  - intros j r Hp Hin. rewrite Hhas. acc_rw_in Hp. cbn [hstep h_log] in Hin. rewrite upd_if in Hin.
    eqb_case j i; [cbn [s_phase] in Hp; discriminate|]. now apply Ah.
  - intros j Hp. acc_rw_in Hp. cbn [hstep h_log]. rewrite upd_if.
    eqb_case j i; [cbn [s_phase] in Hp; discriminate|].
    destruct (Ar j Hp) as (sj & Hrj & Hsj).
    assert (Hni : forall w, has st j w = true -> has st i w = false).
    { intros w Hw. destruct (has st i w) eqn:E'; [|reflexivity]. exfalso. apply E. eapply si_excl; eauto. }
    destruct (replay_ext (h_log h j) s s' sj) as (sj' & Hrj' & Hag); [|exact Hrj|].
    + intros r Hr. symmetry. apply Hfr. apply Hni. now apply (Ah j r Hp).
    + exists sj'. split; [exact Hrj'|]. intros w Hw. rewrite Hhas in Hw. acc_rw.
      rewrite <- (Hag w); [now apply Hsj|]. symmetry. apply Hfr. now apply Hni.
Qed.

Lemma inv_release : forall init st h c i v st' out,
  Inv init st h -> step st (rel_ev c i v) = Some (st', out) -> Inv init st' (hstep st h (rel_ev c i v) out).
Proof.
  intros init st h c i v st' out [I (s & Hser & R & A)] H.
  split; [eapply sinv_step; eauto|].
  exists s. split; [destruct c; exact Hser|].
  assert (Hph : ph st i = rel_ph c) by (destruct c; unf; cbn [rel_ev] in H; step_inv H; auto).
  assert (Hlog : forall j, h_log (hstep st h (rel_ev c i v) out) j = h_log h j) by (destruct c; reflexivity).
  destruct (has st i v) eqn:Ehas.
  - (* the lock is given back *)
    assert (Hst : st' = set_both st i (mkSharer (rel_ph c) (remove v (dirty st i)) (upd (s_has (shs st i)) v false))
                                 v (if c then mkMgr false (value st v) (value st v) else mkMgr false (old st v) (old st v))).
    { destruct c; unf; cbn [rel_ev] in H; step_inv H; try reflexivity; congruence. }
    subst st'. clear H. destruct R as [Ru Rc Ro], A as [Ah Ar].
    assert (P1 : forall j, j <> i -> has st j v = false).
    { intros j Hj. destruct (has st j v) eqn:E; [|reflexivity]. exfalso. apply Hj. eapply si_excl; eauto. }
    assert (Pv : (if c then value st v else old st v) = s v).
    { destruct c; [apply (Rc i v Ehas Hph)|apply (Ro i v Ehas)]. rewrite Hph. discriminate. }
    split; constructor.
    + intros w Hw. acc_rw_in Hw. acc_rw. eqb_case w v; [|now apply Ru].
      destruct c; cbn [m_value m_old]; auto.
    + intros j w Hh Hp. acc_rw_in Hh. acc_rw_in Hp. acc_rw. eqb_case j i.
      * cbn [s_has] in Hh. rewrite upd_if in Hh. eqb_case w v; [discriminate|]. cbn [s_phase] in Hp.
        apply (Rc i w Hh). now rewrite Hph.
      * eqb_case w v; [rewrite P1 in Hh by assumption; discriminate|]. now apply (Rc j w).
    + intros j w Hh Hp. acc_rw_in Hh. acc_rw_in Hp. acc_rw. eqb_case j i.
      * cbn [s_has] in Hh. rewrite upd_if in Hh. eqb_case w v; [discriminate|]. cbn [s_phase] in Hp.
        apply (Ro i w Hh). now rewrite Hph.
      * eqb_case w v; [rewrite P1 in Hh by assumption; discriminate|]. now apply (Ro j w).
    + intros j r Hp Hin. acc_rw_in Hp. rewrite Hlog in Hin. acc_rw.
      eqb_case j i; [cbn [s_phase] in Hp; destruct c; discriminate|]. now apply Ah.
    + intros j Hp. acc_rw_in Hp. rewrite Hlog.
      eqb_case j i; [cbn [s_phase] in Hp; destruct c; discriminate|].
      destruct (Ar j Hp) as (sj & Hrj & Hsj). exists sj. split; [exact Hrj|].
      intros w Hw. acc_rw_in Hw. apply Nat.eqb_neq in E. rewrite E in Hw. apply Nat.eqb_neq in E. acc_rw.
      eqb_case w v; [rewrite P1 in Hw by assumption; discriminate|]. now apply Hsj.
  - (* handle marked dirty by an access that never got the lock: nothing to give back *)
    assert (Hst : st' = set_sh st i (mkSharer (rel_ph c) (remove v (dirty st i)) (s_has (shs st i)))).
    { destruct c; unf; cbn [rel_ev] in H; step_inv H; try reflexivity; congruence. }
    subst st'. clear H.
    assert (Hhas : forall j w, has (set_sh st i (mkSharer (rel_ph c) (remove v (dirty st i)) (s_has (shs st i)))) j w = has st j w).
    { intros j w. rewrite has_set_sh. eqb_case j i; reflexivity. }
    assert (Hphs : forall j, ph (set_sh st i (mkSharer (rel_ph c) (remove v (dirty st i)) (s_has (shs st i)))) j = ph st j).
    { intros j. rewrite ph_set_sh. eqb_case j i; [cbn [s_phase]; now rewrite Hph|reflexivity]. }
    split.
    + apply (rel_frame st); auto. intros j w _. now rewrite Hphs.
    + apply (act_frame st _ h); auto. intros j Hj. left. rewrite Hphs in Hj. split; [exact Hj|apply Hlog].
Qed.

Lemma inv_simple : forall init st h e st' out,
  Inv init st h -> step st e = Some (st', out) ->
  match e with EBegin _ | ETimeout _ _ | EAbortStart _ | EEnd _ | EGetState _ _ => True | _ => False end ->
  Inv init st' (hstep st h e out).
Proof.
  intros init st h e st' out [I (s & Hser & R & A)] H He.
  split; [eapply sinv_step; eauto|].
  exists s.
  assert (Hc : h_committed (hstep st h e out) = h_committed h).
  { destruct e; try destruct He; try reflexivity. cbn [hstep]. destruct (s_phase (shs st i)); try reflexivity.
    destruct (last_cp i (h_committed h)); reflexivity. }
  rewrite Hc. split; [exact Hser|].
  assert (Hm : forall w, mgrs st' w = mgrs st w) by (destruct e; try destruct He; step_inv H; reflexivity).
  assert (Hh : forall j w, has st' j w = has st j w).
  { intros j w. destruct e; try destruct He; unf; step_inv H; cbn [shs set_sh]; try reflexivity;
      rewrite upd_if; eqb_case j i; reflexivity. }
  split.
  - apply (rel_frame st); auto. intros j w Hj.
    destruct e; try destruct He; unf; step_inv H; cbn [shs set_sh]; try tauto; rewrite upd_if; eqb_case j i; cbn [s_phase]; try tauto;
      try (split; intros; congruence).
    all: exfalso; apply (si_hasdirty _ I) in Hj; unfold dirty in Hj; rewrite Edirty in Hj; destruct Hj.
  - assert (Hlog : forall j, j <> actor e -> h_log (hstep st h e out) j = h_log h j).
    { intros j Hj. destruct e; try destruct He; cbn [hstep h_log actor] in *; try reflexivity;
        try (rewrite upd_if; apply Nat.eqb_neq in Hj; now rewrite Hj).
      destruct (s_phase (shs st i)); try reflexivity; destruct (last_cp i (h_committed h)); reflexivity. }
    apply (act_frame st _ h); auto. intros j Hj.
    destruct (Nat.eq_dec j (actor e)) as [Heq|Hne].
    + subst j. destruct e; try destruct He; cbn [actor] in *; unfold ph in *; step_inv H; cbn [shs set_sh] in Hj;
        rewrite ?upd_same in Hj; cbn [s_phase] in Hj; try discriminate.
      * right. split; [cbn [hstep h_log]; now rewrite upd_same|]. intro w. apply no_has_idle; auto.
      * left. split; [exact Hj|reflexivity].
    + left. split; [|now apply Hlog]. unfold ph in *. now rewrite (step_frame _ _ _ _ _ H Hne) in Hj.
Qed.

Lemma inv_step : forall init st h e st' out,
  Inv init st h -> step st e = Some (st', out) -> Inv init st' (hstep st h e out).
Proof.
  intros init st h e st' out HI H. destruct e.
  - eapply inv_simple; eauto.
  - eapply inv_access; eauto.
  - eapply inv_simple; eauto.
  - eapply inv_commit_start; eauto.
  - eapply inv_simple; eauto.
  - apply (inv_release init st h true i v); auto.
  - apply (inv_release init st h false i v); auto.
  - eapply inv_simple; eauto.
  - eapply inv_simple; eauto.
Qed.

(* ------------------------------------------------------------------ runs with history *)

Lemma xrun_app : forall evs1 evs2 x,
  xrun x (evs1 ++ evs2) = match xrun x evs1 with Some x1 => xrun x1 evs2 | None => None end.
Proof.
  induction evs1 as [|e evs1 IH]; intros evs2 x; simpl; [reflexivity|].
  destruct (xstep x e); [apply IH|reflexivity].
Qed.

Lemma xrun_run : forall evs st h st' h', xrun (st, h) evs = Some (st', h') -> exists outs, run st evs = Some (st', outs).
Proof.
  induction evs as [|e evs IH]; simpl; intros st h st' h' H.
  - inversion H; subst. now exists [].
  - unfold xstep in H. cbn [fst snd] in H. destruct (step st e) as [[st1 out]|]; [|discriminate].
    destruct (IH _ _ _ _ H) as (outs & Hr). exists (out :: outs). now rewrite Hr.
Qed.

Lemma run_xrun : forall evs st h st' outs, run st evs = Some (st', outs) -> exists h', xrun (st, h) evs = Some (st', h').
Proof.
  induction evs as [|e evs IH]; simpl; intros st h st' outs H.
  - inversion H; subst. now exists h.
  - unfold xstep. cbn [fst snd]. destruct (step st e) as [[st1 out]|]; [|discriminate].
    destruct (run st1 evs) as [[st2 outs2]|] eqn:E; [|discriminate]. inversion H; subst.
    apply (IH _ (hstep st h e out)) in E. exact E.
Qed.

Lemma xrun_reachable : forall init evs st h, xrun (init_state init, hist0) evs = Some (st, h) -> reachable init st.
Proof. intros init evs st h H. destruct (xrun_run _ _ _ _ _ H) as (outs & Hr). now exists evs, outs. Qed.

Lemma inv_xrun : forall init evs st h st' h', Inv init st h -> xrun (st, h) evs = Some (st', h') -> Inv init st' h'.
Proof.
  induction evs as [|e evs IH]; simpl; intros st h st' h' HI H.
  - inversion H; now subst.
  - unfold xstep in H. cbn [fst snd] in H. destruct (step st e) as [[st1 out]|] eqn:E; [|discriminate].
    eapply IH; [|exact H]. eapply inv_step; eauto.
Qed.

Lemma serializable_lemma : forall init evs st h,
  xrun (init_state init, hist0) evs = Some (st, h) ->
  exists s, serial init (h_committed h) = Some s /\
    forall v, (locked st v = false -> value st v = s v /\ old st v = s v) /\
              (forall i, has st i v = true -> ph st i = Committing -> value st v = s v) /\
              (forall i, has st i v = true -> ph st i <> Committing -> old st v = s v).
Proof.
  intros init evs st h H. destruct (inv_xrun _ _ _ _ _ _ (inv_init init) H) as [_ (s & Hs & [Ru Rc Ro] & _)].
  exists s. split; [exact Hs|]. intro v. repeat split; auto; intros; eauto; now apply Ru.
Qed.

Lemma locked_has_holder : forall init evs st h,
  xrun (init_state init, hist0) evs = Some (st, h) -> forall v, locked st v = true -> exists i, has st i v = true.
Proof.
  intros init evs. induction evs as [|e evs IH] using rev_ind; intros st h H v Hl.
  - inversion H; subst. discriminate.
  - rewrite xrun_app in H. destruct (xrun (init_state init, hist0) evs) as [[st0 h0]|] eqn:E0; [|discriminate].
    simpl in H. unfold xstep in H. cbn [fst snd] in H. destruct (step st0 e) as [[st1 out]|] eqn:Es; [|discriminate].
    inversion H; subst. clear H. specialize (IH st0 h0 eq_refl).
    unfold locked, has in *. step_inv Es; cbn [mgrs shs set_sh set_both] in *;
      repeat match goal with
      | H : context [upd _ ?k _ ?n] |- _ => rewrite upd_if in H
      end;
      try (destruct (IH v Hl) as (j & Hj); exists j; rewrite upd_if; eqb_case j i; cbn [s_has]; exact Hj);
      try (eqb_case v v0;
           [ try discriminate; exists i; rewrite upd_same; cbn [s_has]; now rewrite upd_same
           | destruct (IH v Hl) as (j & Hj); exists j; rewrite upd_if; eqb_case j i; cbn [s_has]; try exact Hj;
             rewrite upd_if; apply Nat.eqb_neq in E; rewrite E; exact Hj ]).
    all: try (destruct (IH v Hl) as (j & Hj); exists j; exact Hj).
Qed.

(* when nobody is in a section, every lock is free and the store is exactly the serial one *)
Lemma quiescent_lemma : forall init evs st h,
  xrun (init_state init, hist0) evs = Some (st, h) -> (forall i, ph st i = Idle) ->
  exists s, serial init (h_committed h) = Some s /\
            forall v, locked st v = false /\ value st v = s v /\ old st v = s v.
Proof.
  intros init evs st h H Hidle. destruct (inv_xrun _ _ _ _ _ _ (inv_init init) H) as [I (s & Hs & [Ru Rc Ro] & _)].
  exists s. split; [exact Hs|]. intros v.
  assert (E : locked st v = false).
  { destruct (locked st v) eqn:E; [|reflexivity]. destruct (locked_has_holder _ _ _ _ H v E) as (i & Hi).
    rewrite (no_has_idle st i v I (Hidle i)) in Hi. discriminate. }
  split; [exact E|now apply Ru].
Qed.
