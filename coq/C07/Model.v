(* C07 — executable model of the shared-variable manager.
   Model only (Definitions / Fixpoints, no proofs).

   Transcribed from
     distsys/resources/localshared.go   LocalSharedManager{res, lockCh, timeout}, localShared{sharedRes, hasLock}
                                        tryEnsureLock / acquireWithTimeout / Commit / Abort / GetState
     distsys/archetyperesource.go       LocalArchetypeResource{value, oldValue}: Read/Write/Index/Commit/Abort
     distsys/archetypeinterface.go      Read/Write: ensureCriticalSectionWith(handle) *before* the access
     distsys/mpcalctx.go                commit(): for h := range dirtyResourceHandles { Commit }  (map order),
                                        abort():  for h := range dirtyResourceHandles { Abort }   (map order),
                                        Run(): ErrCriticalSectionAborted -> abort() -> next attempt
     distsys/resources/persistent.go    Persistent.Commit runs wrapped.Commit in its own goroutine: the
                                        per-variable releases of one commit happen in any order.

   There are infinitely many managers (variables) and sharers (archetype contexts), indexed by nat,
   all initially unlocked / idle: an event list mentions finitely many of them, so this is "every M, every N".

   Time is abstracted: the `ETimeout` event (acquireWithTimeout returning false) may fire whenever the
   sharer does not hold the lock; `EAccess` by a non-holder is enabled only when the lock is free
   (the moment `sv.lockCh <- struct{}{}` succeeds). *)
From Coq Require Export List ZArith Bool Arith.
Export ListNotations.

(* ---- values: numbers and finite functions number -> number (enough for Index) ---- *)
Inductive val := VInt (z : Z) | VMap (kvs : list (Z * Z)).

Fixpoint kvs_eqb (a b : list (Z * Z)) : bool :=
  match a, b with
  | [], [] => true
  | (k1, x1) :: a', (k2, x2) :: b' => Z.eqb k1 k2 && Z.eqb x1 x2 && kvs_eqb a' b'
  | _, _ => false
  end.

Definition val_eqb (a b : val) : bool :=
  match a, b with
  | VInt x, VInt y => Z.eqb x y
  | VMap m1, VMap m2 => kvs_eqb m1 m2
  | _, _ => false
  end.

Definition oval_eqb (a b : option val) : bool :=
  match a, b with
  | None, None => true
  | Some x, Some y => val_eqb x y
  | _, _ => false
  end.

Fixpoint kv_get (k : Z) (m : list (Z * Z)) : option Z :=
  match m with
  | [] => None
  | (k', x) :: m' => if Z.eqb k k' then Some x else kv_get k m'
  end.

(* FunctionSubstitution: `require(keyOk, "invalid key during function substitution")` *)
Fixpoint kv_set (k x : Z) (m : list (Z * Z)) : option (list (Z * Z)) :=
  match m with
  | [] => None
  | (k', y) :: m' =>
      if Z.eqb k k' then Some ((k', x) :: m')
      else match kv_set k x m' with Some m'' => Some ((k', y) :: m'') | None => None end
  end.

(* what one Read/Write call of the generated code does to a shared variable:
   ReadValue, WriteValue, Index(k) then ReadValue / WriteValue on the sub-resource *)
Inductive acc := ARead | AWrite (x : val) | AIdxRead (k : Z) | AIdxWrite (k x : Z).

(* exec_acc a cur = Some (new value, value returned to the section) ; None = the Go code panics
   (ApplyFunction / FunctionSubstitution on a non-function or outside the domain): the process dies,
   no further event exists. *)
Definition exec_acc (a : acc) (cur : val) : option (val * option val) :=
  match a with
  | ARead => Some (cur, Some cur)
  | AWrite x => Some (x, None)
  | AIdxRead k =>
      match cur with
      | VMap m => match kv_get k m with Some x => Some (cur, Some (VInt x)) | None => None end
      | VInt _ => None
      end
  | AIdxWrite k x =>
      match cur with
      | VMap m => match kv_set k x m with Some m' => Some (VMap m', None) | None => None end
      | VInt _ => None
      end
  end.

(* ---- state ---- *)
Record mgr := mkMgr { m_locked : bool;   (* len(lockCh) = 1 *)
                      m_value : val;     (* res.value *)
                      m_old : val }.     (* res.oldValue *)

Inductive phase := Idle | Active | Committing | Aborting.

Record sharer := mkSharer { s_phase : phase;
                            s_dirty : list nat;      (* ctx.dirtyResourceHandles (shared ones) *)
                            s_has : nat -> bool }.   (* localShared.hasLock of this sharer's handle on variable v *)

Record state := mkState { mgrs : nat -> mgr; shs : nat -> sharer }.

Definition upd {A} (f : nat -> A) (k : nat) (x : A) : nat -> A :=
  fun n => if Nat.eqb n k then x else f n.

Definition init_state (init : nat -> val) : state :=
  mkState (fun v => mkMgr false (init v) (init v))
          (fun _ => mkSharer Idle [] (fun _ => false)).

Fixpoint mem (v : nat) (l : list nat) : bool :=
  match l with [] => false | x :: l' => Nat.eqb v x || mem v l' end.

Definition add (v : nat) (l : list nat) : list nat := if mem v l then l else l ++ [v].

Fixpoint remove (v : nat) (l : list nat) : list nat :=
  match l with [] => [] | x :: l' => if Nat.eqb v x then remove v l' else x :: remove v l' end.

Inductive event :=
| EBegin (i : nat)                    (* Run: BeginEvent, a new attempt starts *)
| EAccess (i v : nat) (a : acc)       (* iface.Read/Write on a localShared handle succeeds (acquiring if needed) *)
| ETimeout (i v : nat)                (* acquireWithTimeout gives up: ErrCriticalSectionAborted, Run calls abort() *)
| ECommitStart (i : nat)              (* body returned nil, PreCommits done: commit() starts its Commit loop = commit point *)
| EAbortStart (i : nat)               (* body returned ErrCriticalSectionAborted for any other reason: abort() starts *)
| ECommitRelease (i v : nat)          (* localShared.Commit on one dirty handle *)
| EAbortRelease (i v : nat)           (* localShared.Abort on one dirty handle *)
| EEnd (i : nat)                      (* dirty set cleared, attempt over *)
| EGetState (i v : nat).              (* localShared.GetState (used by Persistent.Commit and by observers) *)

Definition phase_eqb (p q : phase) : bool :=
  match p, q with
  | Idle, Idle | Active, Active | Committing, Committing | Aborting, Aborting => true
  | _, _ => false
  end.

Definition set_sh (st : state) (i : nat) (s : sharer) : state := mkState (mgrs st) (upd (shs st) i s).
Definition set_both (st : state) (i : nat) (s : sharer) (v : nat) (m : mgr) : state :=
  mkState (upd (mgrs st) v m) (upd (shs st) i s).

Definition step (st : state) (e : event) : option (state * option val) :=
  match e with
  | EBegin i =>
      let s := shs st i in
      match s_phase s with
      | Idle => Some (set_sh st i (mkSharer Active [] (s_has s)), None)
      | _ => None
      end
  | EAccess i v a =>
      let s := shs st i in
      let m := mgrs st v in
      match s_phase s with
      | Active =>
          (* ensureCriticalSectionWith(handle); tryEnsureLock *)
          if s_has s v || negb (m_locked m) then
            match exec_acc a (m_value m) with
            | Some (nv, out) =>
                Some (set_both st i (mkSharer Active (add v (s_dirty s)) (upd (s_has s) v true))
                               v (mkMgr (if s_has s v then m_locked m else true) nv (m_old m)), out)
            | None => None
            end
          else None  (* blocked in acquireWithTimeout: not an event yet *)
      | _ => None
      end
  | ETimeout i v =>
      let s := shs st i in
      match s_phase s with
      | Active =>
          if s_has s v then None
          else Some (set_sh st i (mkSharer Aborting (add v (s_dirty s)) (s_has s)), None)
      | _ => None
      end
  | ECommitStart i =>
      let s := shs st i in
      match s_phase s with
      | Active => Some (set_sh st i (mkSharer Committing (s_dirty s) (s_has s)), None)
      | _ => None
      end
  | EAbortStart i =>
      let s := shs st i in
      match s_phase s with
      | Active => Some (set_sh st i (mkSharer Aborting (s_dirty s) (s_has s)), None)
      | _ => None
      end
  | ECommitRelease i v =>
      let s := shs st i in
      let m := mgrs st v in
      match s_phase s with
      | Committing =>
          if mem v (s_dirty s) then
            if s_has s v
            then Some (set_both st i (mkSharer Committing (remove v (s_dirty s)) (upd (s_has s) v false))
                                v (mkMgr false (m_value m) (m_value m)), None)
            else Some (set_sh st i (mkSharer Committing (remove v (s_dirty s)) (s_has s)), None)
          else None
      | _ => None
      end
  | EAbortRelease i v =>
      let s := shs st i in
      let m := mgrs st v in
      match s_phase s with
      | Aborting =>
          if mem v (s_dirty s) then
            if s_has s v
            then Some (set_both st i (mkSharer Aborting (remove v (s_dirty s)) (upd (s_has s) v false))
                                v (mkMgr false (m_old m) (m_old m)), None)
            else Some (set_sh st i (mkSharer Aborting (remove v (s_dirty s)) (s_has s)), None)
          else None
      | _ => None
      end
  | EEnd i =>
      let s := shs st i in
      match s_phase s, s_dirty s with
      | Committing, [] | Aborting, [] => Some (set_sh st i (mkSharer Idle [] (s_has s)), None)
      | _, _ => None
      end
  | EGetState i v =>
      let s := shs st i in
      let m := mgrs st v in
      if s_has s v || negb (m_locked m) then Some (st, Some (m_value m)) else None  (* else: blocks in acquire() *)
  end.

(* an access by a non-holder on a held lock sits in acquireWithTimeout *)
Definition blocked (st : state) (i v : nat) : bool :=
  phase_eqb (s_phase (shs st i)) Active && negb (s_has (shs st i) v) && m_locked (mgrs st v).

Fixpoint run (st : state) (evs : list event) : option (state * list (option val)) :=
  match evs with
  | [] => Some (st, [])
  | e :: rest =>
      match step st e with
      | Some (st', out) =>
          match run st' rest with
          | Some (st'', outs) => Some (st'', out :: outs)
          | None => None
          end
      | None => None
      end
  end.

(* ---- ghost history: what each section did, which sections committed and when ---- *)
Record arec := mkArec { ar_var : nat; ar_acc : acc; ar_res : option val }.

Record section := mkSec { sec_sharer : nat;
                          sec_begin : nat;     (* index of its EBegin in the event list *)
                          sec_cp : nat;        (* index of its ECommitStart / of the event that made it abort *)
                          sec_log : list arec }.

Record hist := mkHist { h_now : nat;                       (* number of events so far *)
                        h_begin : nat -> nat;              (* per sharer: index of the EBegin of the current section *)
                        h_log : nat -> list arec;          (* per sharer: successful accesses of the current section *)
                        h_committed : list section;        (* in commit-point order *)
                        h_aborted : list section;
                        h_ends : list (nat * nat * nat) }. (* (sharer, commit point, index of EEnd) of ended committed sections *)

Definition hist0 : hist := mkHist 0 (fun _ => 0) (fun _ => []) [] [] [].

(* the commit point of sharer i's section that is now releasing *)
Fixpoint last_cp (i : nat) (l : list section) : option nat :=
  match l with
  | [] => None
  | s :: l' => match last_cp i l' with
               | Some c => Some c
               | None => if Nat.eqb (sec_sharer s) i then Some (sec_cp s) else None
               end
  end.

Definition hstep (st : state) (h : hist) (e : event) (out : option val) : hist :=
  let t := h_now h in
  match e with
  | EBegin i => mkHist (S t) (upd (h_begin h) i t) (upd (h_log h) i []) (h_committed h) (h_aborted h) (h_ends h)
  | EAccess i v a =>
      mkHist (S t) (h_begin h) (upd (h_log h) i (h_log h i ++ [mkArec v a out])) (h_committed h) (h_aborted h) (h_ends h)
  | ECommitStart i =>
      mkHist (S t) (h_begin h) (upd (h_log h) i [])
             (h_committed h ++ [mkSec i (h_begin h i) t (h_log h i)]) (h_aborted h) (h_ends h)
  | ETimeout i _ | EAbortStart i =>
      mkHist (S t) (h_begin h) (upd (h_log h) i [])
             (h_committed h) (h_aborted h ++ [mkSec i (h_begin h i) t (h_log h i)]) (h_ends h)
  | EEnd i =>
      match s_phase (shs st i), last_cp i (h_committed h) with
      | Committing, Some c => mkHist (S t) (h_begin h) (h_log h) (h_committed h) (h_aborted h) (h_ends h ++ [(i, c, t)])
      | _, _ => mkHist (S t) (h_begin h) (h_log h) (h_committed h) (h_aborted h) (h_ends h)
      end
  | _ => mkHist (S t) (h_begin h) (h_log h) (h_committed h) (h_aborted h) (h_ends h)
  end.

Definition xstep (x : state * hist) (e : event) : option (state * hist) :=
  match step (fst x) e with
  | Some (st', out) => Some (st', hstep (fst x) (snd x) e out)
  | None => None
  end.

Fixpoint xrun (x : state * hist) (evs : list event) : option (state * hist) :=
  match evs with
  | [] => Some x
  | e :: rest => match xstep x e with Some x' => xrun x' rest | None => None end
  end.

(* ---- the serial specification ---- *)
Definition store := nat -> val.

(* run one section's accesses, one after the other, alone; None if some access returns something
   different from what the section observed *)
Fixpoint replay (s : store) (log : list arec) : option store :=
  match log with
  | [] => Some s
  | r :: rest =>
      match exec_acc (ar_acc r) (s (ar_var r)) with
      | Some (nv, out) => if oval_eqb out (ar_res r) then replay (upd s (ar_var r) nv) rest else None
      | None => None
      end
  end.

Fixpoint serial (s : store) (secs : list section) : option store :=
  match secs with
  | [] => Some s
  | c :: rest => match replay s (sec_log c) with Some s' => serial s' rest | None => None end
  end.

(* ---- correspondence: the harness' observations, checked step by step ----
   each item: the event and what the implementation returned; an access that succeeded must be enabled; with
   `strict` (lock timeout of a millisecond or more, single driver thread: nobody can release meanwhile) a timeout
   observed on the implementation must be a blocked access in the model.  With a timeout of 0 or 1 ns `select` may
   find the timer and the free lock ready together, so there the model's own latitude (ETimeout enabled whenever
   the caller does not hold the lock) is all that is demanded. *)
Fixpoint check_run (strict : bool) (st : state) (l : list (event * option val)) : bool :=
  match l with
  | [] => true
  | (e, expd) :: rest =>
      (match e with ETimeout i v => negb strict || blocked st i v | _ => true end) &&
      match step st e with
      | Some (st', out) => oval_eqb out expd && check_run strict st' rest
      | None => false
      end
  end.

Fixpoint init_of (l : list val) (n : nat) : val :=
  match l, n with
  | [], _ => VInt 0
  | x :: _, O => x
  | _ :: l', S n' => init_of l' n'
  end.

Fixpoint mismatches_from (i : nat) (cases : list (bool * list val * list (event * option val))) : list nat :=
  match cases with
  | [] => []
  | (strict, ini, l) :: rest =>
      let m := mismatches_from (S i) rest in
      if check_run strict (init_state (init_of ini)) l then m else i :: m
  end.

(* for replay output: the model's outputs, stopping at the first event that is not enabled *)
Fixpoint run_outs (st : state) (evs : list event) : list (option (option val)) :=
  match evs with
  | [] => []
  | e :: rest => match step st e with
                 | Some (st', out) => Some out :: run_outs st' rest
                 | None => [None]
                 end
  end.
