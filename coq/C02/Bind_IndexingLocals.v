(* C02 — IndexingLocals: instance bindings of pgo/test/files/general/IndexingLocals.tla (fair process (node \\in NodeSet) == instance ANode(); no parameters) *)
From PGV Require Import C02.Lang C02.Sem.
Open Scope string_scope.
Open Scope list_scope.
Open Scope Z_scope.

Definition IndexingLocals_instances : list (string * instance) :=
  [ ("node", mkInst "ANode" [] []) ].

(* TLA+-only temporaries projected away (none in this spec) *)
Definition IndexingLocals_scratch : list string := [].
