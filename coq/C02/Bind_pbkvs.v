(* C02 — pbkvs: mapping macros and instance bindings of systems/pbkvs/pbkvs.tla

     mapping macro ReliableFIFOLink {
         read  { assert $variable.enabled;
                 await Len($variable.queue) > 0;
                 with (readMsg = Head($variable.queue)) {
                     $variable := [queue |-> Tail($variable.queue), enabled |-> $variable.enabled];
                     yield readMsg; }; }
         write { await $variable.enabled;
                 yield [queue |-> Append($variable.queue, $value), enabled |-> $variable.enabled]; } }
     mapping macro NetworkToggle { read { yield $variable.enabled; }
                                   write { yield [queue |-> $variable.queue, enabled |-> $value]; } }
     mapping macro PerfectFD   { read { yield $variable; }  write { yield $value; } }
     mapping macro FileSystem  { read { yield $variable; }  write { yield $value; } }
     mapping macro LeaderElection {
         read  { if (Cardinality($variable) > 0) { yield CHOOSE x \in $variable: \A r \in $variable: x =< r; }
                 else { yield NULL; } }
         write { yield $variable \ {$value}; } }
     mapping macro NetworkBufferLength { read { yield Len($variable.queue); }
                                         write { assert FALSE; yield $value; } }
     mapping macro Channel {
         read  { await Len($variable) > 0;
                 with (res = Head($variable)) { $variable := Tail($variable); yield res; }; }
         write { yield Append($variable, $value); } }

     fair process (Replica \in REPLICA_SET) == instance AReplica(ref network[_], ref fs[_][_], ref fd[_], ref network[_], ref primary, ref network[_])
         mapping @1[_] via ReliableFIFOLink  mapping @2[_][_] via FileSystem  mapping @3[_] via PerfectFD
         mapping @4[_] via NetworkToggle  mapping @5 via LeaderElection  mapping @6[_] via NetworkBufferLength;
     fair process (Client \in CLIENT_SET) == instance AClient(ref network[_], ref fd[_], ref primary, ref network[_], ref clientInput, ref clientOutput)
         mapping @1[_] via ReliableFIFOLink  mapping @2[_] via PerfectFD  mapping @3 via LeaderElection
         mapping @4[_] via NetworkBufferLength  mapping @5 via Channel;
     archetype AReplica(ref net[_], ref fs[_][_], ref fd[_], ref netEnabled[_], ref primary, ref netLen[_])
     archetype AClient(ref net[_], ref fd[_], ref primary, ref netLen[_], ref input, ref output)
     Client process variables renamed by the PlusCal generator: req0 resp0 msg replica0 idx0                *)
From PGV Require Import C02.Lang C02.Sem.
Open Scope string_scope.
Open Scope list_scope.
Open Scope Z_scope.

Definition dot (e : expr) (f : string) : expr := EApp e (EStr f).
Definition Var := EVar "$variable".
Definition Val := EVar "$value".

Definition ReliableFIFOLink : macro := mkMacro
  [ MAssert (dot Var "enabled");
    MAwait (EOp B_gt [EOp B_Len [dot Var "queue"]; ENum 0]);
    MWithVal "readMsg" (EOp B_Head [dot Var "queue"]);
    MAssign (ERecord [("queue", EOp B_Tail [dot Var "queue"]); ("enabled", dot Var "enabled")]);
    MYield (EVar "readMsg") ]
  [ MAwait (dot Var "enabled");
    MYield (ERecord [("queue", EOp B_Append [dot Var "queue"; Val]); ("enabled", dot Var "enabled")]) ].

Definition NetworkToggle : macro := mkMacro
  [ MYield (dot Var "enabled") ]
  [ MYield (ERecord [("queue", dot Var "queue"); ("enabled", Val)]) ].

Definition PerfectFD : macro := mkMacro [ MYield Var ] [ MYield Val ].
Definition FileSystem : macro := mkMacro [ MYield Var ] [ MYield Val ].

Definition LeaderElection : macro := mkMacro
  [ MIf (EOp B_gt [EOp B_Cardinality [Var]; ENum 0])
        [ MYield (EChoose (PVar "x") Var (EForall [(PVar "r", Var)] (EOp B_le [EVar "x"; EVar "r"]))) ]
        [ MYield (ECall "NULL" []) ] ]
  [ MYield (EOp B_setminus [Var; ESetEnum [Val]]) ].

Definition NetworkBufferLength : macro := mkMacro
  [ MYield (EOp B_Len [dot Var "queue"]) ]
  [ MAssert (EBool false); MYield Val ].

Definition Channel : macro := mkMacro
  [ MAwait (EOp B_gt [EOp B_Len [Var]; ENum 0]);
    MWithVal "res" (EOp B_Head [Var]);
    MAssign (EOp B_Tail [Var]);
    MYield (EVar "res") ]
  [ MYield (EOp B_Append [Var; Val]) ].

Definition pbkvs_instances : list (string * instance) :=
  [ ("Replica", mkInst "AReplica"
        [("AReplica.net", mkBind (TgtGlobal "network") (Some ReliableFIFOLink));
         ("AReplica.fs", mkBind (TgtGlobal "fs") (Some FileSystem));
         ("AReplica.fd", mkBind (TgtGlobal "fd") (Some PerfectFD));
         ("AReplica.netEnabled", mkBind (TgtGlobal "network") (Some NetworkToggle));
         ("AReplica.primary", mkBind (TgtGlobal "primary") (Some LeaderElection));
         ("AReplica.netLen", mkBind (TgtGlobal "network") (Some NetworkBufferLength))] []);
    ("Client", mkInst "AClient"
        [("AClient.net", mkBind (TgtGlobal "network") (Some ReliableFIFOLink));
         ("AClient.fd", mkBind (TgtGlobal "fd") (Some PerfectFD));
         ("AClient.primary", mkBind (TgtGlobal "primary") (Some LeaderElection));
         ("AClient.netLen", mkBind (TgtGlobal "network") (Some NetworkBufferLength));
         ("AClient.input", mkBind (TgtGlobal "clientInput") (Some Channel));
         ("AClient.output", mkBind (TgtGlobal "clientOutput") None);
         ("AClient.req", mkBind (TgtLocal "req0") None);
         ("AClient.resp", mkBind (TgtLocal "resp0") None);
         ("AClient.replica", mkBind (TgtLocal "replica0") None);
         ("AClient.idx", mkBind (TgtLocal "idx0") None)] []) ].

Definition pbkvs_scratch : list string := [].
