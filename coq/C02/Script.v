(* C02 — scenario scripts (search oracle only): a list of intended steps (process.label, self, substrings that must
   occur in the printed outcome); for each step the first choice vector in {0..3}^4 whose TLA+ step commits and shows
   all the substrings is taken. The result is an ordinary schedule of committed attempts from Init, stored in
   corpus/C02 like the schedules of generated seeds. *)
From PGV Require Import C02.Lang C02.Sem C02.Show C02.Walk.
Open Scope list_scope.
Open Scope string_scope.

Fixpoint prefix_of (p s : string) : bool :=
  match p, s with
  | EmptyString, _ => true
  | String a p', String b s' => if Ascii.eqb a b then prefix_of p' s' else false
  | _, _ => false
  end.
Fixpoint contains (needle hay : string) : bool :=
  if prefix_of needle hay then true
  else match hay with EmptyString => false | String _ r => contains needle r end.

Definition vectors4 : list (list nat) :=
  let r := seq 0 4 in
  flat_map (fun a => flat_map (fun b => flat_map (fun c => map (fun d => [a; b; c; d]) r) r) r) r.

Definition tree_of (W : wsys) (key : string) : option dtree :=
  fold_left (fun acc pe => match acc with
                           | Some _ => acc
                           | None => fold_left (fun a row => match a with Some _ => a | None =>
                                                  if String.eqb (fst pe ++ "." ++ fst row) key then Some (snd (snd row)) else None end)
                                               (snd (snd pe)) None
                           end) (w_procs W) None.

Fixpoint script (cands : list (list nat)) (W : wsys) (st : gstate) (steps : list (string * value * list string)) (k : nat) (sched : list string) {struct steps} : string :=
  match steps with
  | [] => "#@#SCRIPTOK " ++ sep "," (rev sched) ++ " #@#STATE " ++ coq_gstate st ++ " #@#END"
  | (key, self, needles) :: more =>
      match tree_of W key with
      | None => "#@#SCRIPTFAIL step " ++ nat_str k ++ ": no such label " ++ key ++ " #@#END"
      | Some t =>
          let r := env_of W st self in
          let pcnow := show_value (e_loc r "pc") in
          let hit := fold_left (fun acc ks =>
                                  match acc with
                                  | Some _ => acc
                                  | None => match run (w_dtla W) EVAL_FUEL t r ks with
                                            | OCommit g l p =>
                                                let txt := show_outcome (OCommit g l p) in
                                                if forallb (fun n => contains n txt) needles then Some (ks, apply_commit st self g l) else None
                                            | _ => None
                                            end
                                  end) cands None in
          match hit with
          | Some (ks, st') => script cands W st' more (S k) ((key ++ "/" ++ show_value self ++ "/" ++ sep "." (map nat_str ks)) :: sched)
          | None => "#@#SCRIPTFAIL step " ++ nat_str k ++ " " ++ key ++ "/" ++ show_value self ++ " pc=" ++ pcnow ++
                    " ; outcome for choices 0: " ++ show_outcome (run (w_dtla W) EVAL_FUEL t r [0;0;0;0]%nat) ++
                    " ; for 1: " ++ show_outcome (run (w_dtla W) EVAL_FUEL t r [1;1;1;1]%nat) ++
                    " #@#SCHED " ++ sep "," (rev sched) ++ " #@#END"
          end
      end
  end.
