(* C02 — replicatedkv: mapping macros and instance bindings of systems/replicatedkv/replicated_kv.tla

     mapping macro FIFOChannel {
         read  { await Len($variable) > 0;
                 with (msg = Head($variable)) { $variable := Tail($variable); yield msg; }; }
         write { await Len($variable) < BUFFER_SIZE; yield Append($variable, $value); } }
     mapping macro GetClientId        { read { yield self - (NUM_CLIENTS * GET_ORDER); }        write { assert(FALSE); yield $value; } }
     mapping macro PutClientId        { read { yield self - (NUM_CLIENTS * PUT_ORDER); }        write { assert(FALSE); yield $value; } }
     mapping macro DisconnectClientId { read { yield self - (NUM_CLIENTS * DISCONNECT_ORDER); } write { assert(FALSE); yield $value; } }
     mapping macro NullClientId       { read { yield self - (NUM_CLIENTS * NULL_ORDER); }       write { assert(FALSE); yield $value; } }
     mapping macro Identity           { read { yield $variable; }  write { yield $value; } }

     fair process (Replica \in ReplicaSet) == instance AReplica(ref clientMailboxes[_], ref replicasNetwork[_], [k \in KeySpace |-> NULL])
         mapping @1[_] via FIFOChannel  mapping @2[_] via FIFOChannel  mapping @3[_] via Identity;
     fair process (GetClient \in GetSet) == instance Get(ref cid, ref replicasNetwork[_], ref clientMailboxes[_], GET_KEY, ref clocks[_], TRUE, ref out)
         mapping cid via GetClientId  mapping replicasNetwork[_] via FIFOChannel  mapping clientMailboxes[_] via FIFOChannel;
     fair process (PutClient \in PutSet) == instance Put(ref cid, ref replicasNetwork[_], ref clientMailboxes[_], PUT_KEY, PUT_VALUE, ref clocks[_], TRUE, ref out)
         mapping cid via PutClientId  mapping replicasNetwork[_] via FIFOChannel  mapping clientMailboxes[_] via FIFOChannel;
     fair process (DisconnectClient \in DisconnectSet) == instance Disconnect(ref cid, ref replicasNetwork[_], ref clocks[_])
         mapping cid via DisconnectClientId  mapping replicasNetwork[_] via FIFOChannel;
     fair process (ClockUpdateClient \in NullSet) == instance ClockUpdate(ref cid, ref replicasNetwork[_], ref clocks[_], TRUE)
         mapping cid via NullClientId  mapping replicasNetwork[_] via FIFOChannel;

     archetype AReplica(ref clients[_], ref replicas[_], ref kv[_])
     archetype Get(ref clientId, ref replicas[_], ref clients[_], key, ref clock[_], spin, ref outside)
     archetype Put(ref clientId, ref replicas[_], ref clients[_], key, value, ref clock[_], spin, ref outside)
     archetype Disconnect(ref clientId, ref replicas[_], ref clock[_])
     archetype ClockUpdate(ref clientId, ref replicas[_], ref clock[_], spin)

   The checked-in TLA+ translation was produced by an old PGo (header: "Process variable i of process Replica ... changed to i_"
   etc.): the expression arguments GET_KEY / PUT_KEY / PUT_VALUE are inlined, [k \in KeySpace |-> NULL] and TRUE became the
   per-process variables kvLocal and spinLocal/spinLocal0/spinLocal1, and every mapped access goes through a global
   temporary (see replicatedkv_scratch). *)
From PGV Require Import C02.Lang C02.Sem.
Open Scope string_scope.
Open Scope list_scope.
Open Scope Z_scope.

Definition Var := EVar "$variable".
Definition Val := EVar "$value".

Definition FIFOChannel : macro := mkMacro
  [ MAwait (EOp B_gt [EOp B_Len [Var]; ENum 0]);
    MWithVal "msg" (EOp B_Head [Var]);
    MAssign (EOp B_Tail [Var]);
    MYield (EVar "msg") ]
  [ MAwait (EOp B_lt [EOp B_Len [Var]; EConst "BUFFER_SIZE" []]);
    MYield (EOp B_Append [Var; Val]) ].

Definition client_id (order : string) : macro := mkMacro
  [ MYield (EOp B_minus [ESelf; EOp B_times [EConst "NUM_CLIENTS" []; ECall order []]]) ]
  [ MAssert (EBool false); MYield Val ].
Definition GetClientId := client_id "GET_ORDER".
Definition PutClientId := client_id "PUT_ORDER".
Definition DisconnectClientId := client_id "DISCONNECT_ORDER".
Definition NullClientId := client_id "NULL_ORDER".

Definition Identity : macro := mkMacro [ MYield Var ] [ MYield Val ].

Definition g (p v : string) (m : option macro) : string * binding := (p, mkBind (TgtGlobal v) m).
Definition l (p v : string) (m : option macro) : string * binding := (p, mkBind (TgtLocal v) m).

Definition replicatedkv_instances : list (string * instance) :=
  [ ("Replica", mkInst "AReplica"
        [ g "AReplica.clients" "clientMailboxes" (Some FIFOChannel);
          g "AReplica.replicas" "replicasNetwork" (Some FIFOChannel);
          l "AReplica.kv" "kvLocal" (Some Identity);
          l "AReplica.i" "i_" None; l "AReplica.continue" "continue_" None; l "AReplica.msg" "msg_" None ] []);
    ("GetClient", mkInst "Get"
        [ g "Get.clientId" "cid" (Some GetClientId);
          g "Get.replicas" "replicasNetwork" (Some FIFOChannel);
          g "Get.clients" "clientMailboxes" (Some FIFOChannel);
          ("Get.key", mkBind (TgtExpr (EConst "GET_KEY" [])) None);
          g "Get.clock" "clocks" None;
          l "Get.spin" "spinLocal" None;
          g "Get.outside" "out" None;
          l "Get.continue" "continue_G" None ] []);
    ("PutClient", mkInst "Put"
        [ g "Put.clientId" "cid" (Some PutClientId);
          g "Put.replicas" "replicasNetwork" (Some FIFOChannel);
          g "Put.clients" "clientMailboxes" (Some FIFOChannel);
          ("Put.key", mkBind (TgtExpr (EConst "PUT_KEY" [])) None);
          ("Put.value", mkBind (TgtExpr (EConst "PUT_VALUE" [])) None);
          g "Put.clock" "clocks" None;
          l "Put.spin" "spinLocal0" None;
          g "Put.outside" "out" None;
          l "Put.continue" "continue_P" None; l "Put.j" "j_" None ] []);
    ("DisconnectClient", mkInst "Disconnect"
        [ g "Disconnect.clientId" "cid" (Some DisconnectClientId);
          g "Disconnect.replicas" "replicasNetwork" (Some FIFOChannel);
          g "Disconnect.clock" "clocks" None;
          l "Disconnect.msg" "msg_D" None; l "Disconnect.j" "j_D" None ] []);
    ("ClockUpdateClient", mkInst "ClockUpdate"
        [ g "ClockUpdate.clientId" "cid" (Some NullClientId);
          g "ClockUpdate.replicas" "replicasNetwork" (Some FIFOChannel);
          g "ClockUpdate.clock" "clocks" None;
          l "ClockUpdate.spin" "spinLocal1" None ] []) ].

(* global temporaries of the old translation: assigned and read primed within one step only *)
Definition replicatedkv_scratch : list string :=
  [ 
    "replicasRead"; "replicasWrite"; "kvRead"; "clientsWrite"; "clientsWrite0"; "kvWrite"; "kvWrite0"; 
    "clientsWrite1"; "clientsWrite2"; "kvWrite1"; "replicasWrite0"; "clientsWrite3"; "kvWrite2"; "clientIdRead"; 
    "clockRead"; "clientIdRead0"; "clockRead0"; "clientIdRead1"; "clockWrite"; "keyRead"; "clientIdRead2"; 
    "clientIdRead3"; "clockRead1"; "replicasWrite1"; "clientsRead"; "clientsWrite4"; "outsideWrite"; 
    "clientsWrite5"; "outsideWrite0"; "clockWrite0"; "replicasWrite2"; "clientsWrite6"; "outsideWrite1"; 
    "spinRead"; "clockWrite1"; "replicasWrite3"; "clientsWrite7"; "outsideWrite2"; "clientIdRead4"; "clockRead2"; 
    "clientIdRead5"; "clockRead3"; "clientIdRead6"; "clockWrite2"; "keyRead0"; "valueRead"; "clientIdRead7"; 
    "clientIdRead8"; "clockRead4"; "replicasWrite4"; "replicasWrite5"; "clientsRead0"; "clientsWrite8"; 
    "clientsWrite9"; "clientsWrite10"; "outsideWrite3"; "clockWrite3"; "replicasWrite6"; "clientsWrite11"; 
    "outsideWrite4"; "spinRead0"; "clockWrite4"; "replicasWrite7"; "clientsWrite12"; "outsideWrite5"; 
    "clientIdRead9"; "clientIdRead10"; "clockWrite5"; "replicasWrite8"; "replicasWrite9"; "clientIdRead11"; 
    "clockRead5"; "clientIdRead12"; "clockRead6"; "clientIdRead13"; "clockWrite6"; "clientIdRead14"; 
    "clientIdRead15"; "clockRead7"; "replicasWrite10"; "replicasWrite11"; "clockWrite7"; "replicasWrite12"; 
    "spinRead1"; "clockWrite8"; "replicasWrite13"; 
    "pc(*definestatement*)NUM_NODES==(NUM_REPLICAS)+(NUM_CLIENTS)"; 
    "" ].
