(* C02 — shopcart: mapping macros and instance bindings of systems/shopcart/shopcart.tla

     mapping macro AWORSet {
         read  { yield Query($variable); }
         write {
             if ($value.cmd = AddCmd) {
                 if ($variable.addMap[$value.elem] # Null) {
                     $variable.addMap[$value.elem][self] := $variable.addMap[$value.elem][self] + 1;
                     $variable.remMap[$value.elem]       := Null;
                 } else if ($variable.remMap[$value.elem] # Null) {
                     $variable.addMap[$value.elem][self] := $variable.remMap[$value.elem][self] + 1;
                     $variable.remMap[$value.elem]       := Null;
                 } else {
                     $variable.addMap[$value.elem][self] := 1;
                 };
             } else if ($value.cmd = RemoveCmd) {
                 if ($variable.remMap[$value.elem] # Null) {
                     $variable.remMap[$value.elem][self] := $variable.remMap[$value.elem][self] + 1;
                     $variable.addMap[$value.elem]       := Null;
                 } else if ($variable.addMap[$value.elem] # Null) {
                     $variable.remMap[$value.elem][self] := $variable.addMap[$value.elem][self] + 1;
                     $variable.addMap[$value.elem]       := Null;
                 } else {
                     $variable.remMap[$value.elem][self] := 1;
                 };
             }; } }

     fair process (Node \in NodeSet) == instance ANodeBench(ref crdt[_], ref out, ref c[_])
         mapping crdt[_] via AWORSet;
     fair process (UpdateCRDT = 0) { ... }     plain PlusCal (the CRDT merge): no generated Go
     (archetype ANode and mapping macro InputQueue are not instantiated: commented out in the spec) *)
From PGV Require Import C02.Lang C02.Sem.
Open Scope string_scope.
Open Scope list_scope.
Open Scope Z_scope.

Definition dot (e : expr) (f : string) : expr := EApp e (EStr f).
Definition Var := EVar "$variable".
Definition Val := EVar "$value".
Definition Null := ECall "Null" [].
Definition elem := dot Val "elem".
Definition am := EApp (dot Var "addMap") elem.     (* $variable.addMap[$value.elem] *)
Definition rm := EApp (dot Var "remMap") elem.     (* $variable.remMap[$value.elem] *)

Definition AWORSet : macro := mkMacro
  [ MYield (ECall "Query" [Var]) ]
  [ MIf (EOp B_eq [dot Val "cmd"; ECall "AddCmd" []])
      [ MIf (EOp B_neq [am; Null])
          [ MAssignPath [EStr "addMap"; elem; ESelf] (EOp B_plus [EApp am ESelf; ENum 1]);
            MAssignPath [EStr "remMap"; elem] Null ]
          [ MIf (EOp B_neq [rm; Null])
              [ MAssignPath [EStr "addMap"; elem; ESelf] (EOp B_plus [EApp rm ESelf; ENum 1]);
                MAssignPath [EStr "remMap"; elem] Null ]
              [ MAssignPath [EStr "addMap"; elem; ESelf] (ENum 1) ] ] ]
      [ MIf (EOp B_eq [dot Val "cmd"; ECall "RemoveCmd" []])
          [ MIf (EOp B_neq [rm; Null])
              [ MAssignPath [EStr "remMap"; elem; ESelf] (EOp B_plus [EApp rm ESelf; ENum 1]);
                MAssignPath [EStr "addMap"; elem] Null ]
              [ MIf (EOp B_neq [am; Null])
                  [ MAssignPath [EStr "remMap"; elem; ESelf] (EOp B_plus [EApp am ESelf; ENum 1]);
                    MAssignPath [EStr "addMap"; elem] Null ]
                  [ MAssignPath [EStr "remMap"; elem; ESelf] (ENum 1) ] ] ]
          [ ] ] ].

Definition shopcart_instances : list (string * instance) :=
  [ ("Node", mkInst "ANodeBench"
        [("ANodeBench.crdt", mkBind (TgtGlobal "crdt") (Some AWORSet));
         ("ANodeBench.out", mkBind (TgtGlobal "out") None);
         ("ANodeBench.c", mkBind (TgtGlobal "c") None)] []) ].

Definition shopcart_scratch : list string := [].
