(* C02 — shcounter: instance bindings of systems/shcounter/shcounter.tla (no mapping macro)
     fair process (Node \in NODE_SET) == instance ANode(ref cntr);                           *)
From PGV Require Import C02.Lang C02.Sem.
Open Scope string_scope.
Open Scope list_scope.
Open Scope Z_scope.

Definition shcounter_instances : list (string * instance) :=
  [ ("Node", mkInst "ANode" [("ANode.cntr", mkBind (TgtGlobal "cntr") None)] []) ].

Definition shcounter_scratch : list string := [].
