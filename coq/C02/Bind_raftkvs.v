(* C02 — raftkvs: mapping macros and instance bindings of systems/raftkvs/raftkvs.tla (lines 173-286, 864-990)

     mapping macro ReliableFIFOLink {
         read  { assert $variable.enabled;
                 await BagCardinality($variable.queue) > 0;
                 with (readMsg \in BagToSet($variable.queue)) {
                     $variable := [queue |-> $variable.queue (-) SetToBag({readMsg}), enabled |-> $variable.enabled];
                     yield readMsg; }; }
         write { await $variable.enabled;
                 await BagCardinality($variable.queue) < BufferSize;
                 yield [queue |-> $variable.queue (+) SetToBag({$value}), enabled |-> $variable.enabled]; } }
     mapping macro NetworkToggle { read { yield $variable.enabled; } write { yield [queue |-> $variable.queue, enabled |-> $value]; } }
     mapping macro UnreliableFD  { read { either { yield FALSE; } or { yield TRUE; }; } write { yield $value; } }
     mapping macro ClientTimeout { read { either { yield TRUE; } or { yield FALSE; }} write { assert FALSE; } }
     mapping macro NetworkBufferLength { read { with(len \in 0..BagCardinality($variable.queue)) { yield len; } }
                                         write { assert FALSE; yield $value; } }
     mapping macro Channel {
         read  { either { await Len($variable) > 0;
                          with (res = Head($variable)) { $variable := Tail($variable); yield res; }; }
                 or     { await $variable = <<>>; yield TRUE; }; }
         write { yield Append($variable, $value); } }
     mapping macro RequestsChannel { read { with(req \in AllReqs) { yield req; } } write { assert FALSE; } }
     mapping macro PersistentLog {
         read  { yield $variable; }
         write { if ($value.cmd = LogConcat) { yield $variable \o $value.entries; }
                 else if ($value.cmd = LogPop) { yield SubSeq($variable, 1, Len($variable) - $value.cnt); }; } }
     mapping macro LeaderTimeout { read { either { yield TRUE; } or { yield FALSE; }; } write { yield $value; } }

   Every server archetype A in {AServer, AServerRequestVote, AServerAppendEntries, AServerAdvanceCommitIndex,
   AServerBecomeLeader} is instantiated as
       instance A(<srvId expr>, ref network[_], ref network[_], ref network[_], ref fd[_], ref state[_], ref currentTerm[_],
                  ref log[_], ref plog[_], ref commitIndex[_], ref nextIndex[_], ref matchIndex[_], ref votedFor[_],
                  ref votesResponded[_], ref votesGranted[_], ref leader[_], ref sm[_], ref smDomain[_], ref leaderTimeout,
                  ref appendEntriesCh[_], ref becomeLeaderCh[_])
         mapping @2[_] via ReliableFIFOLink  @3[_] via NetworkBufferLength  @4[_] via NetworkToggle  @5[_] via UnreliableFD
                 @9[_] via PersistentLog  @20[_] via Channel  @21[_] via Channel  leaderTimeout via LeaderTimeout;
   with parameters (srvId, net, netLen, netEnabled, fd, state, currentTerm, log, plog, commitIndex, nextIndex, matchIndex,
   votedFor, votesResponded, votesGranted, leader, sm, smDomain, leaderTimeout, appendEntriesCh, becomeLeaderCh).
       fair process (client \in ClientSet) == instance AClient(ref network[_], ref network[_], ref fd[_], ref reqCh, ref respCh, FALSE)
         mapping @1[_] via ReliableFIFOLink @2[_] via NetworkBufferLength @3[_] via UnreliableFD @4 via RequestsChannel @6 via ClientTimeout;
       fair process (crasher \in ServerCrasherSet) == instance AServerCrasher(crasherSrvId[crasher], ref network[_], ref fd[_])
         mapping @2[_] via NetworkToggle  @3[_] via UnreliableFD;
   Process variables as renamed by the PlusCal generator:
       s0: idx m srvId | s1: idx0 srvId0 | s2: idx1 srvId1 | s3: newCommitIndex srvId2 | s4: srvId3
       client: leader0 req resp reqIdx timeout | crasher: srvId4                                                        *)
From PGV Require Import C02.Lang C02.Sem.
Open Scope string_scope.
Open Scope list_scope.
Open Scope Z_scope.

Definition dot (e : expr) (f : string) : expr := EApp e (EStr f).
Definition Var := EVar "$variable".
Definition Val := EVar "$value".

Definition ReliableFIFOLink : macro := mkMacro
  [ MAssert (dot Var "enabled");
    MAwait (EOp B_gt [EOp B_BagCardinality [dot Var "queue"]; ENum 0]);
    MWithSet "readMsg" (EOp B_BagToSet [dot Var "queue"]);
    MAssign (ERecord [("queue", EOp B_bagminus [dot Var "queue"; EOp B_SetToBag [ESetEnum [EVar "readMsg"]]]);
                      ("enabled", dot Var "enabled")]);
    MYield (EVar "readMsg") ]
  [ MAwait (dot Var "enabled");
    MAwait (EOp B_lt [EOp B_BagCardinality [dot Var "queue"]; EConst "BufferSize" []]);
    MYield (ERecord [("queue", EOp B_bagplus [dot Var "queue"; EOp B_SetToBag [ESetEnum [Val]]]);
                     ("enabled", dot Var "enabled")]) ].

Definition NetworkToggle : macro := mkMacro
  [ MYield (dot Var "enabled") ]
  [ MYield (ERecord [("queue", dot Var "queue"); ("enabled", Val)]) ].

Definition UnreliableFD : macro := mkMacro
  [ MEither [[MYield (EBool false)]; [MYield (EBool true)]] ]
  [ MYield Val ].

Definition ClientTimeout : macro := mkMacro
  [ MEither [[MYield (EBool true)]; [MYield (EBool false)]] ]
  [ MAssert (EBool false) ].

Definition NetworkBufferLength : macro := mkMacro
  [ MWithSet "len" (EOp B_dotdot [ENum 0; EOp B_BagCardinality [dot Var "queue"]]);
    MYield (EVar "len") ]
  [ MAssert (EBool false); MYield Val ].

Definition Channel : macro := mkMacro
  [ MEither [ [ MAwait (EOp B_gt [EOp B_Len [Var]; ENum 0]);
                MWithVal "res" (EOp B_Head [Var]);
                MAssign (EOp B_Tail [Var]);
                MYield (EVar "res") ];
              [ MAwait (EOp B_eq [Var; ETuple []]);
                MYield (EBool true) ] ] ]
  [ MYield (EOp B_Append [Var; Val]) ].

Definition RequestsChannel : macro := mkMacro
  [ MWithSet "req" (ECall "AllReqs" []); MYield (EVar "req") ]
  [ MAssert (EBool false) ].

Definition PersistentLog : macro := mkMacro
  [ MYield Var ]
  [ MIf (EOp B_eq [dot Val "cmd"; EConst "LogConcat" []])
        [ MYield (EOp B_concat [Var; dot Val "entries"]) ]
        [ MIf (EOp B_eq [dot Val "cmd"; EConst "LogPop" []])
              [ MYield (EOp B_SubSeq [Var; ENum 1; EOp B_minus [EOp B_Len [Var]; dot Val "cnt"]]) ]
              [ ] ] ].

Definition LeaderTimeout : macro := mkMacro
  [ MEither [[MYield (EBool true)]; [MYield (EBool false)]] ]
  [ MYield Val ].

Definition g (a p : string) (v : string) (m : option macro) : string * binding :=
  ((a ++ "." ++ p)%string, mkBind (TgtGlobal v) m).
Definition l (a p : string) (v : string) (m : option macro) : string * binding :=
  ((a ++ "." ++ p)%string, mkBind (TgtLocal v) m).

Definition server_binds (a : string) : list (string * binding) :=
  [ g a "net" "network" (Some ReliableFIFOLink);
    g a "netLen" "network" (Some NetworkBufferLength);
    g a "netEnabled" "network" (Some NetworkToggle);
    g a "fd" "fd" (Some UnreliableFD);
    g a "state" "state" None;
    g a "currentTerm" "currentTerm" None;
    g a "log" "log" None;
    g a "plog" "plog" (Some PersistentLog);
    g a "commitIndex" "commitIndex" None;
    g a "nextIndex" "nextIndex" None;
    g a "matchIndex" "matchIndex" None;
    g a "votedFor" "votedFor" None;
    g a "votesResponded" "votesResponded" None;
    g a "votesGranted" "votesGranted" None;
    g a "leader" "leader" None;
    g a "sm" "sm" None;
    g a "smDomain" "smDomain" None;
    g a "leaderTimeout" "leaderTimeout" (Some LeaderTimeout);
    g a "appendEntriesCh" "appendEntriesCh" (Some Channel);
    g a "becomeLeaderCh" "becomeLeaderCh" (Some Channel) ].

Definition raftkvs_instances : list (string * instance) :=
  [ ("s0", mkInst "AServer" (server_binds "AServer") []);
    ("s1", mkInst "AServerRequestVote"
        (server_binds "AServerRequestVote" ++
         [l "AServerRequestVote" "idx" "idx0" None; l "AServerRequestVote" "srvId" "srvId0" None]) []);
    ("s2", mkInst "AServerAppendEntries"
        (server_binds "AServerAppendEntries" ++
         [l "AServerAppendEntries" "idx" "idx1" None; l "AServerAppendEntries" "srvId" "srvId1" None]) []);
    ("s3", mkInst "AServerAdvanceCommitIndex"
        (server_binds "AServerAdvanceCommitIndex" ++ [l "AServerAdvanceCommitIndex" "srvId" "srvId2" None]) []);
    ("s4", mkInst "AServerBecomeLeader"
        (server_binds "AServerBecomeLeader" ++ [l "AServerBecomeLeader" "srvId" "srvId3" None]) []);
    ("client", mkInst "AClient"
        [ g "AClient" "net" "network" (Some ReliableFIFOLink);
          g "AClient" "netLen" "network" (Some NetworkBufferLength);
          g "AClient" "fd" "fd" (Some UnreliableFD);
          g "AClient" "reqCh" "reqCh" (Some RequestsChannel);
          g "AClient" "respCh" "respCh" None;
          l "AClient" "timeout" "timeout" (Some ClientTimeout);
          l "AClient" "leader" "leader0" None ] []);
    ("crasher", mkInst "AServerCrasher"
        [ g "AServerCrasher" "netEnabled" "network" (Some NetworkToggle);
          g "AServerCrasher" "fd" "fd" (Some UnreliableFD);
          l "AServerCrasher" "srvId" "srvId4" None ] []) ].

Definition raftkvs_scratch : list string := [].
