(* C02 — the substitution lemma for `subst` (Sem.v) on the binder-free fragment `bf`:
   expressions without binders (LET, function constructors, quantifiers, set comprehensions, CHOOSE), without EXCEPT/@,
   without TState/TPrime, and without `x \in T` whose right operand is a bare temporary.
   On this fragment `subst m` is the plain replacement of the named temporaries by the expressions of m, and
       eval f (r with the temporaries bound to values) e = Ok v  ->  eval (f + K) (r without temporaries) (subst m e) = Ok v
   whenever every temporary's expression evaluates (with fuel K) to the temporary's value: the symbolic execution's
   lazy inlining of temporaries agrees with the direct interpreter's eager binding. Uses fuel monotonicity (Mono.v). *)
From PGV Require Import C02.Lang C02.Sem C02.Mono.
Open Scope list_scope.


(* the binder-free, EXCEPT-free, state-free fragment on which `subst` is a plain replacement of named temporaries *)
Fixpoint bf (e : expr) : bool :=
  match e with
  | Nd t cs =>
    (match t with
     | TLit _ | TVar _ | TBound _ | TGlobal _ | TLocal _ | TSelf | TConst _ | TTuple | TSetEnum | TRecord _ | TRecordSet _
     | TIf | TCase _ | TFuncSet | TConj | TDisj | TCross | TCall _ | TApp => true
     | TOp o => match o, cs with B_in, [_; Nd (TVar _) _] => false | _, _ => true end
     | _ => false end) && forallb bf cs
  end.

Definition op_special (o : bop) : bool := match o with B_and | B_or | B_implies | B_in => true | _ => false end.
Definition in_special (b : expr) : bool :=
  match b with
  | Nd (TOp B_Nat) [] | Nd (TOp B_Int) [] | Nd (TOp B_STRING) [] | Nd (TOp B_Seq) [_] => true
  | _ => false
  end.

Lemma eval_op_generic D f r o cs : op_special o = false ->
  eval D (S f) r (Nd (TOp o) cs) = (do vs <- mapM (eval D f r) cs; apply_op o vs).
Proof. destruct o; intros H; try discriminate H; reflexivity. Qed.

Lemma eval_in_generic D f r cs :
  match cs with [_; b] => in_special b | _ => false end = false ->
  eval D (S f) r (Nd (TOp B_in) cs) = (do vs <- mapM (eval D f r) cs; apply_op B_in vs).
Proof.
  destruct cs as [|a [|b [|c cs]]]; intros H; try reflexivity.
  all: destruct b as [tb csb]; destruct tb; try reflexivity.
  all: destruct o; try reflexivity; destruct csb as [|s [|s2 csb]]; try reflexivity; discriminate H.
Qed.

Section SubstBF.
  Variable D : list opdef.
  Variables (locals : list string) (selfe : option expr) (scratch : list string) (S0 : sstate).
  Variable m : list (string * expr).
  Variable r : env.
  Definition noenv (r : env) : env := mkEnv (e_glob r) (e_loc r) (e_self r) (e_const r) (e_bound r) [] [] (e_at r).
  Let r' := noenv r.
  Variable K : nat.
  Hypothesis Hld : e_ldefs r = [].
  Hypothesis Hm : forall x v, lookup x (e_vars r) = Some v -> exists e', lookup x m = Some e' /\ eval D K r' e' = Ok v.
  Hypothesis Hcall : forall f e', lookup f m = Some e' -> forall g, e' <> Nd (TVar g) [].
  Let sb := subst locals selfe scratch S0 m.

  Section Step.
  Variable f : nat.
  Hypothesis IH : forall e v, bf e = true -> eval D f r e = Ok v -> eval D (f + K) r' (sb e) = Ok v.

  Lemma bf_children t cs : bf (Nd t cs) = true -> forallb bf cs = true.
  Proof. simpl. intros H. apply andb_prop in H. tauto. Qed.

  Lemma mapM_sim cs vs :
    forallb bf cs = true -> mapM (eval D f r) cs = Ok vs -> mapM (eval D (f + K) r') (map sb cs) = Ok vs.
  Proof.
    revert vs. induction cs as [|c cs IHc]; simpl; intros vs Hb Hv; [exact Hv|].
    apply andb_prop in Hb. destruct Hb as [Hc Hcs].
    unfold bind in *. destruct (eval D f r c) eqn:E; [|discriminate].
    rewrite (IH _ _ Hc E). destruct (mapM (eval D f r) cs) eqn:E2; [|discriminate].
    rewrite (IHc _ Hcs eq_refl). exact Hv.
  Qed.

  (* sb on a node whose tag is not treated specially by subst *)
  Lemma sb_generic t cs : bf (Nd t cs) = true ->
    match t with TVar _ | TCall _ | TApp => false | _ => true end = true ->
    sb (Nd t cs) = Nd t (map sb cs).
  Proof.
    intros Hb Ht. destruct t; try discriminate Ht; try discriminate Hb; try reflexivity.
  Qed.

  Lemma sb_call g cs : sb (Nd (TCall g) cs) = Nd (TCall g) (map sb cs).
  Proof.
    unfold sb. simpl. destruct (lookup g m) as [e'|] eqn:E; [|reflexivity].
    destruct e' as [t' cs']. destruct t'; try reflexivity. destruct cs'; try reflexivity.
    exfalso. eapply Hcall; eauto.
  Qed.

  Lemma sb_app a b : bf (Nd TApp [a; b]) = true -> sb (Nd TApp [a; b]) = Nd TApp [sb a; sb b].
  Proof.
    intros Hb. destruct a as [ta csa]. destruct ta; try reflexivity.
    all: simpl in Hb; discriminate Hb.
  Qed.

  Lemma step_mapM t cs v :
    bf (Nd t cs) = true ->
    match t with TVar _ | TCall _ | TApp => false | _ => true end = true ->
    forall k k' : list value -> res value,
      (forall vs, k vs = Ok v -> k' vs = Ok v) ->
      eval D (S f) r (Nd t cs) = (do vs <- mapM (eval D f r) cs; k vs) ->
      eval D (S (f + K)) r' (Nd t (map sb cs)) = (do vs <- mapM (eval D (f + K) r') (map sb cs); k' vs) ->
      eval D (S f) r (Nd t cs) = Ok v -> eval D (S f + K) r' (sb (Nd t cs)) = Ok v.
  Proof.
    intros Hb Ht k k' Hk E1 E2 Hv. rewrite (sb_generic _ _ Hb Ht). change (S f + K)%nat with (S (f + K)).
    rewrite E2. rewrite E1 in Hv. unfold bind in *.
    destruct (mapM (eval D f r) cs) eqn:E; [|discriminate].
    rewrite (mapM_sim _ _ (bf_children _ _ Hb) E). apply Hk. exact Hv.
  Qed.

  Ltac leaf cs Hv := destruct cs; [ simpl in Hv |- *; exact Hv | simpl in Hv; discriminate Hv ].
  Ltac viamapM Hb Hv :=
    eapply step_mapM; [ exact Hb | reflexivity | | reflexivity | reflexivity | exact Hv ]; intros vs Hk; exact Hk.

  Lemma up K' e v : (K' <= S f + K)%nat -> eval D K' r' e = Ok v -> eval D (S f + K) r' e = Ok v.
  Proof. intros. eapply eval_fuel_mono; eauto. Qed.

  Ltac bfs Hb := let H := fresh "Hcs" in pose proof (bf_children _ _ Hb) as H; simpl in H;
                 repeat match goal with H : _ && _ = true |- _ => apply andb_prop in H; destruct H end.
  (* consume one `do x <- eval D f r c; ...` of Hv, transporting it to the goal *)
  Ltac ev1 Hv :=
    match type of Hv with
    | context [eval D f r ?c] =>
        let E := fresh "E" in
        destruct (eval D f r c) eqn:E; [ | simpl in Hv; discriminate Hv ];
        match goal with Hc : bf c = true |- _ => rewrite (IH _ _ Hc E) end; simpl in Hv |- *
    end.



  Lemma c_var x cs v : bf (Nd (TVar x) cs) = true -> eval D (S f) r (Nd (TVar x) cs) = Ok v -> eval D (S f + K) r' (sb (Nd (TVar x) cs)) = Ok v.
  Proof. intros Hb Hv.
      destruct cs; [|simpl in Hv; discriminate Hv]. simpl in Hv.
      destruct (lookup x (e_vars r)) eqn:E; [|discriminate]. injection Hv as ->.
      destruct (Hm _ _ E) as [e' [He' Hev]]. change (sb (Nd (TVar x) [])) with (match lookup x m with Some e'' => e'' | None => Nd (TVar x) [] end). rewrite He'.
      eapply up; [|exact Hev]. apply PeanoNat.Nat.le_trans with (f + K)%nat; [apply PeanoNat.Nat.le_add_l | simpl; apply PeanoNat.Nat.le_succ_diag_r].
  Qed.
  Lemma eval_call n (q : env) g cs : eval D (S n) q (Nd (TCall g) cs) =
    (do vs <- mapM (eval D n q) cs;
     match lookup g (e_ldefs q) with
     | Some (ps, body) => if Nat.eqb (List.length ps) (List.length vs) then eval D n (with_vars q (rev (combine ps vs))) body
                          else Err ("arity of local operator " ++ g)%string
     | None => match lookup g D with
               | Some (ps, body) => if Nat.eqb (List.length ps) (List.length vs)
                                    then eval D n (mkEnv (e_glob q) (e_loc q) (e_self q) (e_const q) (e_bound q) (rev (combine ps vs)) [] None) body
                                    else Err ("arity of operator " ++ g)%string
               | None => Err ("unknown operator " ++ g)%string end
     end).
  Proof. reflexivity. Qed.
  Lemma c_call g cs v : bf (Nd (TCall g) cs) = true -> eval D (S f) r (Nd (TCall g) cs) = Ok v -> eval D (S f + K) r' (sb (Nd (TCall g) cs)) = Ok v.
  Proof. intros Hb Hv.
      rewrite sb_call. change (S f + K)%nat with (S (f + K)). rewrite eval_call in Hv |- *. unfold bind in *.
      destruct (mapM (eval D f r) cs) eqn:E; [|discriminate].
      rewrite (mapM_sim _ _ (bf_children _ _ Hb) E). rewrite Hld in Hv.
      change (e_ldefs r') with (@nil (string * (list string * expr))).
      change (lookup g []) with (@None (list string * expr)) in Hv |- *. cbv beta iota in Hv |- *.
      destruct (lookup g D) as [[ps body]|]; [|exact Hv].
      destruct (Nat.eqb _ _); [|exact Hv].
      eapply eval_fuel_mono; [|exact Hv]. apply PeanoNat.Nat.le_add_r.
  Qed.

  Lemma c_and cs v : bf (Nd (TOp B_and) cs) = true -> eval D (S f) r (Nd (TOp B_and) cs) = Ok v -> eval D (S f + K) r' (sb (Nd (TOp B_and) cs)) = Ok v.
  Proof. intros Hb Hv.
    destruct cs as [|a [|b [|c cs]]].
    4: {     eapply step_mapM; [ exact Hb | reflexivity | | reflexivity | reflexivity | exact Hv ]; intros vs Hk; exact Hk. }
    1: {     eapply step_mapM; [ exact Hb | reflexivity | | reflexivity | reflexivity | exact Hv ]; intros vs Hk; exact Hk. }
    1: {     eapply step_mapM; [ exact Hb | reflexivity | | reflexivity | reflexivity | exact Hv ]; intros vs Hk; exact Hk. }
    rewrite sb_generic by (exact Hb || reflexivity). change (S f + K)%nat with (S (f + K)). bfs Hb.
    simpl in Hv |- *. unfold bind in *. ev1 Hv. destruct (as_bool _); [|discriminate].
    destruct a1; [|exact Hv]. ev1 Hv. exact Hv.
  Qed.
  Lemma c_or cs v : bf (Nd (TOp B_or) cs) = true -> eval D (S f) r (Nd (TOp B_or) cs) = Ok v -> eval D (S f + K) r' (sb (Nd (TOp B_or) cs)) = Ok v.
  Proof. intros Hb Hv.
    destruct cs as [|a [|b [|c cs]]].
    4: {     eapply step_mapM; [ exact Hb | reflexivity | | reflexivity | reflexivity | exact Hv ]; intros vs Hk; exact Hk. }
    1: {     eapply step_mapM; [ exact Hb | reflexivity | | reflexivity | reflexivity | exact Hv ]; intros vs Hk; exact Hk. }
    1: {     eapply step_mapM; [ exact Hb | reflexivity | | reflexivity | reflexivity | exact Hv ]; intros vs Hk; exact Hk. }
    rewrite sb_generic by (exact Hb || reflexivity). change (S f + K)%nat with (S (f + K)). bfs Hb.
    simpl in Hv |- *. unfold bind in *. ev1 Hv. destruct (as_bool _); [|discriminate].
    destruct a1; [exact Hv|]. ev1 Hv. exact Hv.
  Qed.
  Lemma c_imp cs v : bf (Nd (TOp B_implies) cs) = true -> eval D (S f) r (Nd (TOp B_implies) cs) = Ok v -> eval D (S f + K) r' (sb (Nd (TOp B_implies) cs)) = Ok v.
  Proof. intros Hb Hv.
    destruct cs as [|a [|b [|c cs]]].
    4: {     eapply step_mapM; [ exact Hb | reflexivity | | reflexivity | reflexivity | exact Hv ]; intros vs Hk; exact Hk. }
    1: {     eapply step_mapM; [ exact Hb | reflexivity | | reflexivity | reflexivity | exact Hv ]; intros vs Hk; exact Hk. }
    1: {     eapply step_mapM; [ exact Hb | reflexivity | | reflexivity | reflexivity | exact Hv ]; intros vs Hk; exact Hk. }
    rewrite sb_generic by (exact Hb || reflexivity). change (S f + K)%nat with (S (f + K)). bfs Hb.
    simpl in Hv |- *. unfold bind in *. ev1 Hv. destruct (as_bool _); [|discriminate].
    destruct a1; [|exact Hv]. ev1 Hv. exact Hv.
  Qed.


  Lemma c_app cs v : bf (Nd TApp cs) = true -> eval D (S f) r (Nd TApp cs) = Ok v -> eval D (S f + K) r' (sb (Nd TApp cs)) = Ok v.
  Proof. intros Hb Hv.
    destruct cs as [|a [|b [|c cs]]]; try (simpl in Hv; discriminate Hv).
    rewrite (sb_app _ _ Hb). change (S f + K)%nat with (S (f + K)). bfs Hb.
    simpl in Hv |- *. unfold bind in *. ev1 Hv. ev1 Hv. exact Hv.
  Qed.
  Lemma c_if cs v : bf (Nd (TIf) cs) = true -> eval D (S f) r (Nd (TIf) cs) = Ok v -> eval D (S f + K) r' (sb (Nd (TIf) cs)) = Ok v.
  Proof. intros Hb Hv.
    destruct cs as [|c [|a [|b [|d cs]]]]; try (simpl in Hv; discriminate Hv).
    rewrite sb_generic by (exact Hb || reflexivity). change (S f + K)%nat with (S (f + K)). bfs Hb.
    simpl in Hv |- *. unfold bind in *. ev1 Hv. destruct (as_bool _); [|discriminate]. destruct a1; ev1 Hv; exact Hv.
  Qed.
  Lemma c_funcset cs v : bf (Nd (TFuncSet) cs) = true -> eval D (S f) r (Nd (TFuncSet) cs) = Ok v -> eval D (S f + K) r' (sb (Nd (TFuncSet) cs)) = Ok v.
  Proof. intros Hb Hv.
    destruct cs as [|a [|b [|c cs]]]; try (simpl in Hv; discriminate Hv).
    rewrite sb_generic by (exact Hb || reflexivity). change (S f + K)%nat with (S (f + K)). bfs Hb.
    simpl in Hv |- *. unfold bind in *. ev1 Hv. ev1 Hv. exact Hv.
  Qed.

  Lemma c_conj cs v : bf (Nd (TConj) cs) = true -> eval D (S f) r (Nd (TConj) cs) = Ok v -> eval D (S f + K) r' (sb (Nd (TConj) cs)) = Ok v.
  Proof. intros Hb Hv.
    rewrite sb_generic by (exact Hb || reflexivity). change (S f + K)%nat with (S (f + K)).
    pose proof (bf_children _ _ Hb) as Hcs. clear Hb. simpl in Hv |- *.
    revert Hv. induction cs as [|a more IHm]; intros Hv; [exact Hv|].
    simpl in Hcs. apply andb_prop in Hcs. destruct Hcs as [Ha Hmore].
    simpl in Hv |- *. unfold bind in *. ev1 Hv. destruct (as_bool _); [|discriminate]. destruct a1; [|exact Hv].
    apply IHm; assumption.
  Qed.
  Lemma c_disj cs v : bf (Nd (TDisj) cs) = true -> eval D (S f) r (Nd (TDisj) cs) = Ok v -> eval D (S f + K) r' (sb (Nd (TDisj) cs)) = Ok v.
  Proof. intros Hb Hv.
    rewrite sb_generic by (exact Hb || reflexivity). change (S f + K)%nat with (S (f + K)).
    pose proof (bf_children _ _ Hb) as Hcs. clear Hb. simpl in Hv |- *.
    revert Hv. induction cs as [|a more IHm]; intros Hv; [exact Hv|].
    simpl in Hcs. apply andb_prop in Hcs. destruct Hcs as [Ha Hmore].
    simpl in Hv |- *. unfold bind in *. ev1 Hv. destruct (as_bool _); [|discriminate]. destruct a1; [exact Hv|].
    apply IHm; assumption.
  Qed.
  Lemma c_case ho cs v : bf (Nd (TCase ho) cs) = true -> eval D (S f) r (Nd (TCase ho) cs) = Ok v -> eval D (S f + K) r' (sb (Nd (TCase ho) cs)) = Ok v.
  Proof. intros Hb Hv.
    rewrite sb_generic by (exact Hb || reflexivity). change (S f + K)%nat with (S (f + K)).
    pose proof (bf_children _ _ Hb) as Hcs. clear Hb. simpl in Hv |- *.
    revert Hcs Hv. induction cs as [|o|c a rest IHm] using list_ind2; intros Hcs Hv.
    - exact Hv.
    - simpl in Hcs. apply andb_prop in Hcs. destruct Hcs as [Ho _]. simpl in Hv |- *. destruct ho; [|exact Hv]. apply IH; assumption.
    - simpl in Hcs. apply andb_prop in Hcs. destruct Hcs as [Hc Hcs]. apply andb_prop in Hcs. destruct Hcs as [Ha Hrest].
      simpl in Hv |- *. unfold bind in *. ev1 Hv. destruct (as_bool _); [|discriminate]. destruct a1; [ev1 Hv; exact Hv|].
      apply IHm; assumption.
  Qed.

  Lemma in_special_sb b : bf b = true -> match b with Nd (TVar _) _ => false | _ => true end = true -> in_special (sb b) = in_special b.
  Proof.
    intros Hb Hnv. destruct b as [tb csb]. destruct tb; try discriminate Hb; try discriminate Hnv; try reflexivity.
    - rewrite sb_call. reflexivity.
    - rewrite sb_generic by (exact Hb || reflexivity). destruct o; try reflexivity; destruct csb as [|s [|s2 csb]]; reflexivity.
    - destruct csb as [|[ta csa] [|b [|c csb]]]; try reflexivity; destruct ta; try reflexivity; simpl in Hb; try discriminate Hb.
  Qed.

  Lemma c_in cs v : bf (Nd (TOp B_in) cs) = true -> eval D (S f) r (Nd (TOp B_in) cs) = Ok v -> eval D (S f + K) r' (sb (Nd (TOp B_in) cs)) = Ok v.
  Proof. intros Hb Hv.
    destruct (match cs with [_; b] => in_special b | _ => false end) eqn:Esp.
    - destruct cs as [|a [|b [|c cs]]]; try discriminate Esp.
      rewrite sb_generic by (exact Hb || reflexivity). change (S f + K)%nat with (S (f + K)). bfs Hb.
      destruct b as [tb csb]. destruct tb; try discriminate Esp. destruct o; try discriminate Esp.
      + (* Seq *) destruct csb as [|s [|s2 csb]]; try discriminate Esp.
        assert (Hs : bf s = true) by (clear -Hb; simpl in Hb; repeat rewrite Bool.andb_true_iff in Hb; tauto).
        simpl map. rewrite (sb_generic (TOp B_Seq)) by (assumption || reflexivity). simpl map.
        simpl in Hv |- *. unfold bind in *. ev1 Hv. ev1 Hv. exact Hv.
      + destruct csb; try discriminate Esp. simpl map. rewrite (sb_generic (TOp _) []) by (assumption || reflexivity). simpl map. simpl in Hv |- *. unfold bind in *. ev1 Hv. exact Hv.
      + destruct csb; try discriminate Esp. simpl map. rewrite (sb_generic (TOp _) []) by (assumption || reflexivity). simpl map. simpl in Hv |- *. unfold bind in *. ev1 Hv. exact Hv.
      + destruct csb; try discriminate Esp. simpl map. rewrite (sb_generic (TOp _) []) by (assumption || reflexivity). simpl map. simpl in Hv |- *. unfold bind in *. ev1 Hv. exact Hv.
    - eapply step_mapM; [ exact Hb | reflexivity | | apply eval_in_generic; exact Esp | apply eval_in_generic | exact Hv ].
      + intros vs Hk; exact Hk.
      + destruct cs as [|a [|b [|c cs]]]; try reflexivity. change (in_special (sb b) = false). rewrite in_special_sb; [exact Esp | |].
        * pose proof (bf_children _ _ Hb) as Hcs. simpl in Hcs. apply andb_prop in Hcs. destruct Hcs as [_ Hcs]. apply andb_prop in Hcs. tauto.
        * simpl in Hb. destruct b as [tb csb]. destruct tb; try reflexivity. discriminate Hb.
  Qed.

  Lemma step : forall e v, bf e = true -> eval D (S f) r e = Ok v -> eval D (S f + K) r' (sb e) = Ok v.
  Proof.
    intros e v Hb Hv. destruct e as [t cs]. destruct t; try discriminate Hb.
    - unfold sb. leaf cs Hv.
    - apply c_var; assumption.
    - unfold sb. leaf cs Hv.
    - unfold sb. leaf cs Hv.
    - unfold sb. leaf cs Hv.
    - unfold sb. leaf cs Hv.
    - viamapM Hb Hv.
    - apply c_call; assumption.
    - destruct (op_special o) eqn:Eo.
      + destruct o; try discriminate Eo; [apply c_and | apply c_or | apply c_imp | apply c_in]; assumption.
      + eapply step_mapM; [ exact Hb | reflexivity | | apply eval_op_generic; exact Eo | apply eval_op_generic; exact Eo | exact Hv ].
        intros vs Hk; exact Hk.
    - viamapM Hb Hv.
    - viamapM Hb Hv.
    - viamapM Hb Hv.
    - viamapM Hb Hv.
    - apply c_app; assumption.
    - apply c_if; assumption.
    - apply c_case; assumption.
    - apply c_funcset; assumption.
    - viamapM Hb Hv.
    - apply c_conj; assumption.
    - apply c_disj; assumption.
  Qed.
  End Step.

  Theorem subst_bf : forall f e v, bf e = true -> eval D f r e = Ok v -> eval D (f + K) r' (sb e) = Ok v.
  Proof.
    induction f as [|f IHf]; intros e v Hb Hv.
    - destruct e as [t cs]. destruct t; try discriminate Hv. destruct cs; try discriminate Hv.
      unfold sb. simpl in Hv |- *. destruct K; exact Hv.
    - apply step; assumption.
  Qed.
End SubstBF.
