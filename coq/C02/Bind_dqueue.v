(* C02 — dqueue: mapping macros and instance bindings of systems/dqueue/dqueue.tla

     mapping macro TCPChannel {
         read  { await Len($variable) > 0;
                 with (msg = Head($variable)) { $variable := Tail($variable); yield msg; }; }
         write { await Len($variable) < BUFFER_SIZE; yield Append($variable, $value); } }
     mapping macro CyclicReads {
         read  { $variable := ($variable + 1) % BUFFER_SIZE; yield $variable; }
         write { yield $variable } }

     fair process (Consumer \in 1..NUM_CONSUMERS) == instance AConsumer(ref network[_], ref processor)
         mapping network[_] via TCPChannel;
     fair process (Producer \in {PRODUCER}) == instance AProducer(ref network[_], ref stream)
         mapping network[_] via TCPChannel  mapping stream via CyclicReads;                        *)
From PGV Require Import C02.Lang C02.Sem.
Open Scope string_scope.
Open Scope list_scope.
Open Scope Z_scope.

Definition TCPChannel : macro := mkMacro
  [ MAwait (EOp B_gt [EOp B_Len [EVar "$variable"]; ENum 0]);
    MWithVal "msg" (EOp B_Head [EVar "$variable"]);
    MAssign (EOp B_Tail [EVar "$variable"]);
    MYield (EVar "msg") ]
  [ MAwait (EOp B_lt [EOp B_Len [EVar "$variable"]; EConst "BUFFER_SIZE" []]);
    MYield (EOp B_Append [EVar "$variable"; EVar "$value"]) ].

Definition CyclicReads : macro := mkMacro
  [ MAssign (EOp B_mod [EOp B_plus [EVar "$variable"; ENum 1]; EConst "BUFFER_SIZE" []]);
    MYield (EVar "$variable") ]
  [ MYield (EVar "$variable") ].

Definition dqueue_instances : list (string * instance) :=
  [ ("Consumer", mkInst "AConsumer"
        [("AConsumer.net", mkBind (TgtGlobal "network") (Some TCPChannel));
         ("AConsumer.proc", mkBind (TgtGlobal "processor") None)] []);
    ("Producer", mkInst "AProducer"
        [("AProducer.net", mkBind (TgtGlobal "network") (Some TCPChannel));
         ("AProducer.s", mkBind (TgtGlobal "stream") (Some CyclicReads))] []) ].

(* TLA+-only temporaries projected away (none in this spec) *)
Definition dqueue_scratch : list string := [].
