(* C02 — seed generation walk with adaptive scheduling (search oracle only): a process type is chosen with probability
   proportional to (commits + 1) / (attempts + 2) of its attempts so far in this walk, so that blocked service loops
   (await on an empty channel) stop eating the attempt budget. Otherwise identical to Walk.cwalk. *)
From PGV Require Import C02.Lang C02.Sem C02.Show C02.Walk.
From Coq Require Import NArith PArith FSets.FSetPositive.
Open Scope list_scope.
Open Scope string_scope.

Definition stat := (string * (nat * nat))%type.   (* process, (commits, attempts) *)

Definition weight (s : list stat) (p : string) : nat :=
  match lookup p s with
  | Some (c, a) => Nat.div (Nat.mul 100 (S c)) (S (S a))
  | None => 50
  end.

Fixpoint pick_weighted {A} (ws : list (nat * A)) (k : nat) : option A :=
  match ws with
  | [] => None
  | (w, a) :: r => if Nat.ltb k w then Some a else match r with [] => Some a | _ => pick_weighted r (Nat.sub k w) end
  end.

Definition bump (s : list stat) (p : string) (committed : bool) : list stat :=
  let '(c, a) := match lookup p s with Some ca => ca | None => (O, O) end in
  let s' := filter (fun x => negb (String.eqb (fst x) p)) s in
  (p, ((if committed then S c else c), S a)) :: s'.

Fixpoint cwalk2 (n : nat) (W : wsys) (labels : list string) (known : PositiveSet.t) (st : gstate) (rnd : list nat)
         (stats : list stat) (trace : list string) (out : list string) {struct n} : PositiveSet.t * list string * list string * gstate :=
  match n with
  | O => (known, rev out, rev trace, st)
  | S n' =>
      let '(rp, rnd1) := next_choice rnd in
      let '(rs, rnd2) := next_choice rnd1 in
      let '(ks, rnd3) := take 4 rnd2 in
      let ws := map (fun pe => (weight stats (fst pe), pe)) (w_procs W) in
      let total := fold_left (fun acc w => Nat.add acc (fst w)) ws O in
      match pick_weighted ws (N.to_nat (N.modulo (N.mul (N.of_nat rp) 7919%N) (N.of_nat (Nat.max 1 total)))) with
      | None => (known, rev out, rev trace, st)
      | Some (proc, (oset, table)) =>
          match proc_ids W st oset with
          | Err _ => (known, rev out, rev trace, st)
          | Ok ids =>
              match nth_mod ids rs with
              | None => cwalk2 n' W labels known st rnd3 stats trace out
              | Some self =>
                  let r := env_of W st self in
                  match e_loc r "pc" with
                  | VStr lbl =>
                      match lookup lbl table with
                      | None => cwalk2 n' W labels known st rnd3 (bump stats proc false) trace out
                      | Some (_, tt0) =>
                          let key := proc ++ "." ++ lbl in
                          let k0 := N.of_nat (S (index_of key labels O)) in
                          let items := cov_items (w_dtla W) tt0 r ks k0 [] in
                          let fresh := filter (fun k => negb (PositiveSet.mem (pos_of_key k) known)) items in
                          let known' := fold_left (fun s k => PositiveSet.add (pos_of_key k) s) fresh known in
                          let ent := key ++ "/" ++ show_value self ++ "/" ++ sep "." (map nat_str ks) in
                          let out' := match fresh with
                                      | [] => out
                                      | _ => ("#@#SEED label=" ++ key ++ " #@#self=" ++ show_value self ++ " #@#attempt=" ++ nat_str (List.length trace) ++
                                              " #@#keys=" ++ sep "," (map (fun k => string_of_Z (Z.of_N k)) fresh) ++
                                              " #@#state=" ++ coq_gstate st ++ " #@#END") :: out
                                      end in
                          match run (w_dtla W) EVAL_FUEL tt0 r ks with
                          | OCommit g l _ => cwalk2 n' W labels known' (apply_commit st self g l) rnd3 (bump stats proc true) (ent :: trace) out'
                          | _ => cwalk2 n' W labels known' st rnd3 (bump stats proc false) (("~" ++ ent) :: trace) out'
                          end
                      end
                  | _ => cwalk2 n' W labels known st rnd3 stats trace out
                  end
              end
          end
      end
  end.

Fixpoint cwalks2 (n : nat) (W : wsys) (labels : list string) (known : PositiveSet.t)
         (jobs : list (option gstate * list nat)) (acc : list string) : list string :=
  match jobs with
  | [] => rev acc
  | (start, rnd) :: more =>
      let '(r0, rnd') := take 8 rnd in
      let st0 := match start with
                 | Some s => Ok s
                 | None => init_state W (w_init W) [] r0
                 end in
      match st0 with
      | Err m => cwalks2 n W labels known more (("#@#WALKERROR Init: " ++ m ++ " #@#END") :: acc)
      | Ok s =>
          let '(known', out, tr, fin) := cwalk2 n W labels known s rnd' [] [] [] in
          cwalks2 n W labels known' more
                  (("#@#TRACE " ++ sep "," tr ++ " #@#FINAL " ++ coq_gstate fin ++ " #@#ENDWALK") :: rev_append out acc)
      end
  end.
