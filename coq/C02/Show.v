(* C02 — printing of expressions / trees and location of the first difference between two trees
   (diagnostics for broken per-label obligations; definitions only, nothing here is trusted) *)
From PGV Require Import C02.Lang C02.Sem.
Open Scope list_scope.
Open Scope string_scope.

Definition cat (xs : list string) : string := fold_right String.append "" xs.
Fixpoint sep (s : string) (xs : list string) : string :=
  match xs with [] => "" | [x] => x | x :: r => x ++ s ++ sep s r end%string.

Definition show_bop (o : bop) : string :=
  match o with
  | B_eq => "=" | B_neq => "#" | B_and => "/\" | B_or => "\/" | B_implies => "=>" | B_equiv => "<=>" | B_not => "~"
  | B_in => "\in" | B_notin => "\notin" | B_cup => "\cup" | B_cap => "\cap" | B_setminus => "\" | B_subseteq => "\subseteq"
  | B_SUBSET => "SUBSET" | B_UNION => "UNION" | B_DOMAIN => "DOMAIN"
  | B_plus => "+" | B_minus => "-" | B_times => "*" | B_div => "\div" | B_mod => "%" | B_exp => "^" | B_neg => "-."
  | B_lt => "<" | B_le => "<=" | B_gt => ">" | B_ge => ">=" | B_dotdot => ".."
  | B_Len => "Len" | B_Append => "Append" | B_Head => "Head" | B_Tail => "Tail" | B_concat => "\o" | B_SubSeq => "SubSeq" | B_Seq => "Seq"
  | B_Cardinality => "Cardinality" | B_IsFiniteSet => "IsFiniteSet"
  | B_mapsto1 => ":>" | B_atat => "@@" | B_ToString => "ToString" | B_Assert => "Assert" | B_PrintT => "PrintT" | B_Print => "Print"
  | B_BagCardinality => "BagCardinality" | B_BagToSet => "BagToSet" | B_SetToBag => "SetToBag" | B_bagplus => "(+)" | B_bagminus => "(-)"
  | B_BagIn => "BagIn" | B_EmptyBag => "EmptyBag" | B_CopiesIn => "CopiesIn" | B_IsABag => "IsABag"
  | B_Nat => "Nat" | B_Int => "Int" | B_BOOLEAN => "BOOLEAN" | B_STRING => "STRING" | B_default => "defaultInitValue"
  end.

Definition show_pat (p : pat) : string :=
  match p with PVar x => x | PTup xs => "<<" ++ sep "," xs ++ ">>" end.

Definition show_tag (t : tag) : string :=
  match t with
  | TLit (LNum z) => string_of_Z z
  | TLit (LStr s) => """" ++ s ++ """"
  | TLit (LBool true) => "TRUE" | TLit (LBool false) => "FALSE"
  | TVar x => x
  | TBound l => "$c" ++ nat_str l
  | TGlobal x => x
  | TLocal x => x ++ "[self]"
  | TState x => "STATE:" ++ x
  | TPrime x => x ++ "'"
  | TSelf => "self"
  | TConst x => "CONST:" ++ x
  | TCall f => f
  | TOp o => show_bop o
  | TTuple => "tuple" | TSetEnum => "set"
  | TRecord fs => "record{" ++ sep "," fs ++ "}"
  | TRecordSet fs => "recordset{" ++ sep "," fs ++ "}"
  | TApp => "apply" | TIf => "IF"
  | TLet x ps => "LET " ++ x ++ "(" ++ sep "," ps ++ ")"
  | TCase b => "CASE"
  | TFunc ps => "fn[" ++ sep "," (map show_pat ps) ++ "]"
  | TFuncSet => "funcset"
  | TExcept ar => "EXCEPT" ++ cat (map (fun n => "!" ++ nat_str n) ar)
  | TAt => "@"
  | TExists ps => "\E[" ++ sep "," (map show_pat ps) ++ "]"
  | TForall ps => "\A[" ++ sep "," (map show_pat ps) ++ "]"
  | TFilter p => "filter[" ++ show_pat p ++ "]"
  | TSetMap ps => "setmap[" ++ sep "," (map show_pat ps) ++ "]"
  | TChoose p => "CHOOSE[" ++ show_pat p ++ "]"
  | TCross => "\X" | TConj => "/\.." | TDisj => "\/.." | TUnchanged => "UNCHANGED"
  | TUnsupported w => "UNSUPPORTED(" ++ w ++ ")"
  end.

Fixpoint show_expr (e : expr) : string :=
  match e with
  | Nd t [] => show_tag t
  | Nd t cs => show_tag t ++ "(" ++ sep ", " (map show_expr cs) ++ ")"
  end.

Definition show_store (st : list (string * expr)) : string :=
  sep "; " (map (fun xe => fst xe ++ " := " ++ show_expr (snd xe)) st).

Definition show_leaf (l : leaf) : string :=
  match l with
  | LCommit g lo p => "COMMIT{globals: " ++ show_store g ++ " | locals: " ++ show_store lo ++ " | prints: " ++ sep "; " (map show_expr p) ++ "}"
  | LAbort => "ABORT" | LAssert => "ASSERTFAIL" | LDone => "DONE" | LFallthrough => "FALLTHROUGH"
  end.

Fixpoint show_tree (t : dtree) : string :=
  match t with
  | Leaf l => show_leaf l
  | Branch c a b => "if " ++ show_expr c ++ " then {" ++ show_tree a ++ "} else {" ++ show_tree b ++ "}"
  | Choice s k => "choose from " ++ show_expr s ++ " in {" ++ show_tree k ++ "}"
  | Either ts => "either{" ++ sep " | " (map show_tree ts) ++ "}"
  | Fail m => "FAIL(" ++ m ++ ")"
  end.

(* path to, and both sides of, the first difference (pre-order) *)
Fixpoint first_diff (a b : dtree) : option string :=
  match a, b with
  | Leaf x, Leaf y => if leaf_eq_dec x y then None else Some ("leaf: GO " ++ show_leaf x ++ "  ///  TLA " ++ show_leaf y)
  | Branch c a1 a2, Branch d b1 b2 =>
      if expr_eq_dec c d then
        match first_diff a1 b1 with
        | Some s => Some ("[" ++ show_expr c ++ " = TRUE] " ++ s)
        | None => match first_diff a2 b2 with
                  | Some s => Some ("[" ++ show_expr c ++ " = FALSE] " ++ s)
                  | None => None end
        end
      else Some ("condition: GO " ++ show_expr c ++ "  ///  TLA " ++ show_expr d)
  | Choice s k, Choice s' k' =>
      if expr_eq_dec s s' then match first_diff k k' with Some m => Some ("[choice] " ++ m) | None => None end
      else Some ("choice set: GO " ++ show_expr s ++ "  ///  TLA " ++ show_expr s')
  | Either ts, Either us =>
      if Nat.eqb (List.length ts) (List.length us) then
        (fix go (ts us : list dtree) (i : nat) : option string :=
           match ts, us with
           | t1 :: tr, u1 :: ur => match first_diff t1 u1 with
                                   | Some m => Some ("[either " ++ nat_str i ++ "] " ++ m)
                                   | None => go tr ur (S i) end
           | _, _ => None
           end) ts us O
      else Some "either: different number of alternatives"
  | Fail m, _ => Some ("GO side failed: " ++ m)
  | _, Fail m => Some ("TLA side failed: " ++ m)
  | _, _ => Some ("shape: GO " ++ show_tree a ++ "  ///  TLA " ++ show_tree b)
  end.

Fixpoint first_unsupported (e : expr) : option string :=
  match e with
  | Nd (TUnsupported w) _ => Some w
  | Nd _ cs => (fix go (cs : list expr) := match cs with [] => None | c :: r => match first_unsupported c with Some w => Some w | None => go r end end) cs
  end.
Definition first_unsupported_l (es : list expr) : option string :=
  (fix go (cs : list expr) := match cs with [] => None | c :: r => match first_unsupported c with Some w => Some w | None => go r end end) es.

Fixpoint first_fail (t : dtree) : option string :=
  match t with
  | Fail m => Some m
  | Leaf (LCommit g l p) => first_unsupported_l (map snd g ++ map snd l ++ p)%list
  | Leaf _ => None
  | Branch c a b => match first_unsupported c with Some m => Some m | None => match first_fail a with Some m => Some m | None => first_fail b end end
  | Choice s k => match first_unsupported s with Some m => Some m | None => first_fail k end
  | Either ts => (fix go (ts : list dtree) := match ts with [] => None | x :: r => match first_fail x with Some m => Some m | None => go r end end) ts
  end.

Definition explain (g t : dtree) : string :=
  match first_fail g, first_fail t with
  | Some m, _ => "GO side outside the grammar of the symbolic execution: " ++ m
  | _, Some m => "TLA side outside the grammar of the symbolic execution: " ++ m
  | None, None => match first_diff (norm g) (norm t) with Some s => s | None => "equal" end
  end.

Definition defs_diff (d1 d2 : list opdef) : string :=
  (fix go (a b : list opdef) : string :=
     match a, b with
     | [], [] => "equal"
     | x :: ar, y :: br =>
         if opdef_eq_dec x y then go ar br
         else "operator " ++ fst x ++ ": GO " ++ show_expr (snd (snd x)) ++ "  ///  TLA " ++ fst y ++ " " ++ show_expr (snd (snd y))
     | x :: _, [] => "operator " ++ fst x ++ " has no TLA+ counterpart"
     | [], y :: _ => "extra TLA+ operator " ++ fst y
     end) d1 d2.

(* ------------------------------------------------------------------ values, outcomes *)
Fixpoint show_value (v : value) : string :=
  match v with
  | VDefault => "defaultInitValue"
  | VBool true => "TRUE" | VBool false => "FALSE"
  | VNum z => string_of_Z z
  | VStr s => """" ++ s ++ """"
  | VSet xs => "{" ++ sep ", " (map show_value xs) ++ "}"
  | VTup xs => "<<" ++ sep ", " (map show_value xs) ++ ">>"
  | VFun kvs => "(" ++ sep " @@ " (map (fun kv => show_value (fst kv) ++ " :> " ++ show_value (snd kv)) kvs) ++ ")"
  end.

Definition show_vstore (st : list (string * value)) : string :=
  sep "; " (map (fun xv => fst xv ++ " = " ++ show_value (snd xv)) st).

Definition show_outcome (o : outcome) : string :=
  match o with
  | OCommit g l p => "COMMIT{globals: " ++ show_vstore g ++ " | locals: " ++ show_vstore l ++ " | prints: " ++ sep "; " (map show_value p) ++ "}"
  | OAbort => "ABORT" | OAssert => "ASSERTFAIL" | ODone => "DONE" | OFallthrough => "FALLTHROUGH"
  | OErr m => "ERROR(" ++ m ++ ")"
  end.
