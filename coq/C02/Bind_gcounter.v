(* C02 — gcounter: mapping macros and instance bindings of systems/gcounter/gcounter.tla

     mapping macro LocalGCntr {
         read  { yield SUM($variable, DOMAIN $variable); }
         write { assert $value > 0;
                 yield [$variable EXCEPT ![self] = $variable[self] + $value]; } }
     mapping macro CasualHistory {
         read  { yield $variable; }
         write { yield $variable \cup $value; } }

     fair process (Node \in NODE_SET) == instance ANode(ref localcntrs[_], ref c[_])
         mapping localcntrs[_] via LocalGCntr  mapping c[_] via CasualHistory;
     fair process (UpdateGCntr = 0) { ... }   plain PlusCal (the CRDT merge): no generated Go, environment
     (archetype ANodeBench is not instantiated in the spec: its Go labels have no TLA+ action)        *)
From PGV Require Import C02.Lang C02.Sem.
Open Scope string_scope.
Open Scope list_scope.
Open Scope Z_scope.

Definition Var := EVar "$variable".
Definition Val := EVar "$value".

Definition LocalGCntr : macro := mkMacro
  [ MYield (ECall "SUM" [Var; EOp B_DOMAIN [Var]]) ]
  [ MAssert (EOp B_gt [Val; ENum 0]);
    MYield (EExcept Var [([ESelf], EOp B_plus [EApp Var ESelf; Val])]) ].

Definition CasualHistory : macro := mkMacro
  [ MYield Var ]
  [ MYield (EOp B_cup [Var; Val]) ].

Definition gcounter_instances : list (string * instance) :=
  [ ("Node", mkInst "ANode"
        [("ANode.cntr", mkBind (TgtGlobal "localcntrs") (Some LocalGCntr));
         ("ANode.c", mkBind (TgtGlobal "c") (Some CasualHistory))] []) ].

Definition gcounter_scratch : list string := [].
