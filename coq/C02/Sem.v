(* C02 — the common normal form (decision trees), its single interpreter `run`, the symbolic
   execution of BOTH sides into it, and the boolean checker `equiv_check`.
   Definitions only; the soundness theorem of the checker is in C02/Proofs.v.

   The semantics of a generated Go critical section is DEFINED as  run (symex_go ...)  and the
   semantics of a TLA+ action of the PlusCal translation as  run (symex_tla ...).
   State relation built into the two symbolic executions (DESIGN §4 C02): a Go archetype-local
   resource "A.v" is the component v[self] of the TLA+ per-process variable v (ELocal v), the Go
   program counter is pc[self]; a ref parameter is the global (or local) it is bound to in the
   instance declaration, accessed through the mapping macro of the instance (Bind_<sys>.v). *)
From PGV Require Export C02.Lang.
Open Scope string_scope.
Open Scope list_scope.

(* ------------------------------------------------------------------ decision trees *)

Inductive leaf :=
| LCommit (glob loc : list (string * expr)) (prints : list expr)
| LAbort            (* await false / empty with-set: the step is disabled, nothing is committed *)
| LAssert           (* assertion failure *)
| LDone             (* Go: return distsys.ErrDone *)
| LFallthrough.     (* Go: return distsys.ErrProcedureFallthrough *)

Inductive dtree :=
| Leaf (l : leaf)
| Branch (c : expr) (t f : dtree)
| Choice (s : expr) (k : dtree)      (* k may mention EBound d, d = number of enclosing Choice nodes *)
| Either (ts : list dtree)
| Fail (msg : string).               (* symbolic execution met something outside its grammar *)

Inductive outcome :=
| OCommit (glob loc : list (string * value)) (prints : list value)
| OAbort | OAssert | ODone | OFallthrough
| OErr (msg : string).

(* ------------------------------------------------------------------ substitution into normal form *)

Definition is_binder (t : tag) : bool :=
  match t with
  | TLet _ _ | TFunc _ | TExists _ | TForall _ | TFilter _ | TSetMap _ | TChoose _ => true
  | _ => false
  end.

(* binder height: 0 when no binder occurs; a binder is named after the height of its scope, so that
   alpha-equivalent expressions get identical names whatever their context *)
Fixpoint bheight (e : expr) : nat :=
  match e with
  | Nd t cs => let m := fold_right (fun c acc => Nat.max (bheight c) acc) O cs in
              if is_binder t then S m else m
  end.

Definition nat_str (n : nat) : string := string_of_Z (Z.of_nat n).
Definition canon_name (h i : nat) : string := ("%" ++ nat_str h ++ "." ++ nat_str i)%string.

(* plain renaming of free named variables / local operator names (no binder inside binds them) *)
Fixpoint rename (m : list (string * string)) (e : expr) : expr :=
  match e with
  | Nd (TVar x) [] => match lookup x m with Some y => Nd (TVar y) [] | None => e end
  | Nd (TCall f) cs => Nd (TCall (match lookup f m with Some g => g | None => f end)) (map (rename m) cs)
  | Nd t cs => Nd t (map (rename m) cs)
  end.

Definition pat_vars (p : pat) : list string := match p with PVar x => [x] | PTup xs => xs end.
Definition pats_vars (ps : list pat) : list string := flat_map pat_vars ps.

Fixpoint number_from {A} (i : nat) (xs : list A) : list (nat * A) :=
  match xs with [] => [] | x :: r => (i, x) :: number_from (S i) r end.

Definition canon_map (h : nat) (xs : list string) : list (string * string) :=
  map (fun ix => (snd ix, canon_name h (fst ix))) (number_from O xs).

Definition rename_pat (m : list (string * string)) (p : pat) : pat :=
  let r x := match lookup x m with Some y => y | None => x end in
  match p with PVar x => PVar (r x) | PTup xs => PTup (map r xs) end.

Fixpoint remove_keys {A} (ks : list string) (m : list (string * A)) : list (string * A) :=
  match m with
  | [] => []
  | (k, a) :: r => if existsb (String.eqb k) ks then remove_keys ks r else (k, a) :: remove_keys ks r
  end.

(* symbolic state of a path through a critical section / action *)
Record sstate := mkS {
  s_env : list (string * expr);       (* source names -> closed normal-form expressions *)
  s_hnd : list (string * string);     (* Go: handle identifier -> resource name *)
  s_glob : list (string * expr);      (* updated globals, sorted by name *)
  s_loc : list (string * expr);       (* updated per-process variables (self's component), sorted by name *)
  s_prints : list expr;
  s_depth : nat                       (* number of enclosing Choice nodes *)
}.

Definition s0 : sstate := mkS [] [] [] [] [] O.

Definition set_env (S : sstate) x e := mkS ((x, e) :: s_env S) (s_hnd S) (s_glob S) (s_loc S) (s_prints S) (s_depth S).
Definition set_hnd (S : sstate) h r := mkS (s_env S) ((h, r) :: s_hnd S) (s_glob S) (s_loc S) (s_prints S) (s_depth S).
Definition add_print (S : sstate) e := mkS (s_env S) (s_hnd S) (s_glob S) (s_loc S) (s_prints S ++ [e]) (s_depth S).
Definition push_choice (S : sstate) x :=
  mkS ((x, EBound (s_depth S)) :: s_env S) (s_hnd S) (s_glob S) (s_loc S) (s_prints S) (Datatypes.S (s_depth S)).

Fixpoint store_set (x : string) (e : expr) (st : list (string * expr)) : list (string * expr) :=
  match st with
  | [] => [(x, e)]
  | (y, e') :: r => match String.compare x y with
                    | Lt => (x, e) :: st | Eq => (x, e) :: r | Gt => (y, e') :: store_set x e r end
  end.
Definition set_glob (S : sstate) x e := mkS (s_env S) (s_hnd S) (store_set x e (s_glob S)) (s_loc S) (s_prints S) (s_depth S).
Definition set_loc (S : sstate) x e := mkS (s_env S) (s_hnd S) (s_glob S) (store_set x e (s_loc S)) (s_prints S) (s_depth S).

Definition cur_glob (S : sstate) x : expr := match lookup x (s_glob S) with Some e => e | None => EGlobal x end.
Definition cur_loc (S : sstate) x : expr := match lookup x (s_loc S) with Some e => e | None => ELocal x end.

Definition mem (x : string) (l : list string) : bool := existsb (String.eqb x) l.

(* decidable syntactic equality of expressions *)
Definition lit_eq_dec (a b : lit) : {a = b} + {a <> b}.
Proof. decide equality; [apply Z.eq_dec | apply string_dec | apply bool_dec]. Defined.
Definition pat_eq_dec (a b : pat) : {a = b} + {a <> b}.
Proof. decide equality; [apply string_dec | apply (list_eq_dec string_dec)]. Defined.
Definition bop_eq_dec (a b : bop) : {a = b} + {a <> b}.
Proof. decide equality. Defined.
Definition tag_eq_dec (a b : tag) : {a = b} + {a <> b}.
Proof.
  decide equality;
    try apply string_dec; try apply Nat.eq_dec; try apply bool_dec; try apply lit_eq_dec;
    try apply bop_eq_dec; try apply pat_eq_dec;
    try apply (list_eq_dec string_dec); try apply (list_eq_dec Nat.eq_dec); try apply (list_eq_dec pat_eq_dec).
Defined.

Fixpoint expr_eq_dec (a b : expr) {struct a} : {a = b} + {a <> b}.
Proof.
  destruct a as [t cs], b as [t' cs'].
  destruct (tag_eq_dec t t') as [Ht | Ht]; [| right; congruence].
  destruct (list_eq_dec expr_eq_dec cs cs') as [Hc | Hc]; [left; congruence | right; congruence].
Defined.

(* identity assignments (x' = x, the old translations' way of saying UNCHANGED x) *)
Definition is_id_glob (xe : string * expr) : bool := if expr_eq_dec (snd xe) (EGlobal (fst xe)) then true else false.
Definition is_id_loc (xe : string * expr) : bool := if expr_eq_dec (snd xe) (ELocal (fst xe)) then true else false.
Definition clean_glob (g : list (string * expr)) := filter (fun xe => negb (is_id_glob xe)) g.
Definition clean_loc (l : list (string * expr)) := filter (fun xe => negb (is_id_loc xe)) l.

Definition eval_store (D : list opdef) (fuel : nat) (r : env) (st : list (string * expr)) : res (list (string * value)) :=
  mapM (fun xe => do v <- eval D fuel r (snd xe); Ok (fst xe, v)) st.

(* choices: a list of naturals; a Choice node over a set of n > 0 elements (in the canonical
   order of the value universe) takes element (k mod n); Either likewise; an exhausted list reads 0 *)
Definition next_choice (ks : list nat) : nat * list nat :=
  match ks with [] => (O, []) | k :: r => (k, r) end.

Definition pick {A} (f : dtree -> A) (dflt : A) : list dtree -> nat -> A :=
  fix pick (ts : list dtree) (n : nat) {struct ts} : A :=
    match ts with
    | [] => dflt
    | t1 :: more => match n with O => f t1 | S n' => pick more n' end
    end.

Fixpoint run (D : list opdef) (fuel : nat) (t : dtree) (r : env) (ks : list nat) {struct t} : outcome :=
  match t with
  | Leaf (LCommit g l p) =>
      (* an assignment x' = x is UNCHANGED x: it is not reported as an update *)
      match eval_store D fuel r (clean_glob g), eval_store D fuel r (clean_loc l), mapM (eval D fuel r) p with
      | Ok gv, Ok lv, Ok pv => OCommit gv lv pv
      | Err m, _, _ => OErr m
      | _, Err m, _ => OErr m
      | _, _, Err m => OErr m
      end
  | Leaf LAbort => OAbort
  | Leaf LAssert => OAssert
  | Leaf LDone => ODone
  | Leaf LFallthrough => OFallthrough
  | Branch c t1 t2 =>
      match eval D fuel r c with
      | Ok (VBool true) => run D fuel t1 r ks
      | Ok (VBool false) => run D fuel t2 r ks
      | Ok _ => OErr "condition is not a boolean"
      | Err m => OErr m
      end
  | Choice s k =>
      match eval D fuel r s with
      | Ok (VSet []) => OAbort
      | Ok (VSet xs) =>
          let '(c, ks') := next_choice ks in
          match nth_error xs (Nat.modulo c (List.length xs)) with
          | Some v => run D fuel k (with_bound r v) ks'
          | None => OErr "choice"
          end
      | Ok _ => OErr "choice over a non-set"
      | Err m => OErr m
      end
  | Either ts =>
      match ts with
      | [] => OAbort
      | _ =>
        let '(c, ks') := next_choice ks in
        pick (fun t1 => run D fuel t1 r ks') (OErr "either") ts (Nat.modulo c (List.length ts))
      end
  | Fail m => OErr ("symbolic execution failed: " ++ m)%string
  end.

Section Subst.
  Variable locals : list string.     (* TLA+ per-process variables (accessed as v[self]) *)
  Variable selfe : option expr.      (* single-process algorithms: the literal process id standing for self *)
  Variable scratch : list string.    (* TLA+-only temporaries of old translations: written and read primed within one
                                        step, never read unprimed (checked here), projected away at the commit *)
  Variable S : sstate.

  Definition is_self (e : expr) : bool :=
    match e with
    | Nd TSelf [] => true
    | _ => match selfe with Some s => if expr_eq_dec e s then true else false | None => false end
    end.

  (* m: source names in scope of the current symbolic state, minus the ones re-bound inside e *)
  Fixpoint subst (m : list (string * expr)) (e : expr) {struct e} : expr :=
    let under (bound : list string) (cs : list expr) : list expr :=
        (* all children but the last in the outer scope, the last one under the binder *)
        (fix go (cs : list expr) : list expr :=
           match cs with
           | [] => []
           | [b] => [subst (remove_keys bound m) b]
           | c :: r => subst m c :: go r
           end) cs in
    let finish (t : (string -> string) -> tag) (bound : list string) (cs' : list expr) : expr :=
        let h := match split_last cs' with Some (_, b) => bheight b | None => O end in
        let rn := canon_map h bound in
        match split_last cs' with
        | Some (outer, b) => Nd (t (fun x => match lookup x rn with Some y => y | None => x end)) (outer ++ [rename rn b])
        | None => Nd (t (fun x => x)) cs'
        end in
    match e with
    | Nd (TVar x) [] => match lookup x m with Some e' => e' | None => e end
    | Nd (TState x) [] => if mem x scratch then EUnsupported ("scratch variable read across steps: " ++ x)
                          else if mem x locals then e else EGlobal x
    | Nd (TPrime x) [] => if mem x locals then e else cur_glob S x
    | Nd TApp [Nd (TState x) []; a] =>
        let a' := subst m a in
        if mem x locals then
          (if is_self a' then ELocal x else Nd TApp [Nd (TState x) []; a'])
        else if mem x scratch then EUnsupported ("scratch variable read across steps: " ++ x)
        else Nd TApp [EGlobal x; a']
    | Nd TApp [Nd (TPrime x) []; a] =>
        let a' := subst m a in
        if mem x locals then
          (if is_self a' then cur_loc S x else Nd TApp [Nd (TPrime x) []; a'])
        else Nd TApp [cur_glob S x; a']
    | Nd (TCall f) cs =>
        match lookup f m with
        | Some (Nd (TVar g) []) => Nd (TCall g) (map (subst m) cs)
        | _ => Nd (TCall f) (map (subst m) cs)
        end
    | Nd (TLet x ps) [d; b] =>
        let d' := subst (remove_keys ps m) d in
        let hd := bheight d' in
        let rd := canon_map hd ps in
        let d'' := rename rd d' in
        let b' := subst (remove_keys [x] m) b in
        let hb := bheight b' in
        let xn := canon_name hb O in
        Nd (TLet xn (map (fun p => match lookup p rd with Some y => y | None => p end) ps)) [d''; rename [(x, xn)] b']
    | Nd (TFunc ps) cs =>
        let bound := pats_vars ps in
        finish (fun r => TFunc (map (fun p => match p with PVar x => PVar (r x) | PTup xs => PTup (map r xs) end) ps)) bound (under bound cs)
    | Nd (TExists ps) cs =>
        let bound := pats_vars ps in
        finish (fun r => TExists (map (fun p => match p with PVar x => PVar (r x) | PTup xs => PTup (map r xs) end) ps)) bound (under bound cs)
    | Nd (TForall ps) cs =>
        let bound := pats_vars ps in
        finish (fun r => TForall (map (fun p => match p with PVar x => PVar (r x) | PTup xs => PTup (map r xs) end) ps)) bound (under bound cs)
    | Nd (TSetMap ps) cs =>
        let bound := pats_vars ps in
        finish (fun r => TSetMap (map (fun p => match p with PVar x => PVar (r x) | PTup xs => PTup (map r xs) end) ps)) bound (under bound cs)
    | Nd (TFilter p) cs =>
        let bound := pat_vars p in
        finish (fun r => TFilter (match p with PVar x => PVar (r x) | PTup xs => PTup (map r xs) end)) bound (under bound cs)
    | Nd (TChoose p) cs =>
        let bound := pat_vars p in
        finish (fun r => TChoose (match p with PVar x => PVar (r x) | PTup xs => PTup (map r xs) end)) bound (under bound cs)
    | Nd t cs => Nd t (map (subst m) cs)
    end.
End Subst.

(* ------------------------------------------------------------------ Go side *)

Inductive gstmt :=
| GRes (h res : string)                       (* h := iface.RequireArchetypeResource("A.v") *)
| GRef (h res : string)                       (* h, err := iface.RequireArchetypeResourceRef("A.p") *)
| GRefArg (h res : string)                    (* h := iface.ReadArchetypeResourceLocal("A.p") : a ref parameter passed on to a call *)
| GRead (x h : string) (idx : list expr)      (* var x tla.Value; x, err = iface.Read(h, idx) *)
| GWrite (h : string) (idx : list expr) (e : expr)   (* err = iface.Write(h, idx, e) *)
| GIf (c : expr) (t e : list gstmt)           (* if c.AsBool() {..} else {..} *)
| GAwait (c : expr)                           (* if !c.AsBool() { return distsys.ErrCriticalSectionAborted } *)
| GAssert (c : expr)                          (* if !c.AsBool() { return fmt.Errorf("%w...", distsys.ErrAssertionFailed) } *)
| GEither (id : string) (bs : list (list gstmt))     (* switch iface.NextFairnessCounter(id, n) { case k: .. } *)
| GWithSet (x id : string) (s : expr)         (* the with-set selection idiom *)
| GVar (x : string) (e : expr)                (* var x tla.Value = e *)
| GPrint (e : expr)                           (* e.PCalPrint() *)
| GGoto (l : string)                          (* return iface.Goto("A.l") *)
| GDone                                       (* return distsys.ErrDone *)
| GFallthrough                                (* return distsys.ErrProcedureFallthrough *)
| GCall (p ret : string) (args : list expr)   (* return iface.Call(p, ret, args...) *)
| GTailCall (p : string) (args : list expr)   (* return iface.TailCall(p, args...) *)
| GReturn.                                    (* return iface.Return() *)

(* mapping macros (hand-transcribed in Bind_<sys>.v). $variable and $value are the named
   variables "$variable" / "$value" *)
Inductive mstmt :=
| MAwait (c : expr)
| MWithSet (x : string) (s : expr)            (* with (x \in s) { rest } *)
| MWithVal (x : string) (e : expr)            (* with (x = e) { rest } *)
| MAssign (e : expr)                          (* $variable := e *)
| MAssignPath (path : list expr) (e : expr)   (* $variable.f[i].. := e   (path = "f", i, ..) *)
| MYield (e : expr)
| MIf (c : expr) (t e : list mstmt)
| MEither (bs : list (list mstmt))
| MAssert (c : expr)
| MPrint (e : expr)
| MSkip.

Record macro := mkMacro { m_read : list mstmt; m_write : list mstmt }.

Inductive target :=
| TgtGlobal (g : string) | TgtLocal (v : string)
| TgtExpr (e : expr).       (* a value parameter the translation inlined: reads give e (over self/constants only), writes are refused *)
(* how an archetype resource of one instance is realised in the spec state *)
Record binding := mkBind { b_target : target; b_macro : option macro }.

(* procedures: parameters (ref ones flagged), locals with their initialisers, first label *)
Record procinfo := mkProc { p_params : list (string * bool); p_locals : list (string * expr); p_entry : string }.

Record instance := mkInst {
  i_arch : string;                           (* Go archetype name *)
  i_binds : list (string * binding);         (* "A.p" -> binding; resources not listed are per-process variables of the same name *)
  i_labels : list (string * string)          (* Go label (without the "A." prefix) -> TLA+ label, where they differ *)
}.

Definition strip_prefix (pre s : string) : string :=
  (* "A.l" -> "l" when pre = "A" *)
  let n := String.length pre in
  if String.eqb (substring 0 (Datatypes.S n) s) (pre ++ ".")%string then substring (Datatypes.S n) (String.length s) s else s.

Fixpoint apply_path (f : expr) (idx : list expr) : expr :=
  match idx with [] => f | i :: r => apply_path (EApp f i) r end.

Definition tgt_cur (S : sstate) (t : target) : expr :=
  match t with TgtGlobal g => cur_glob S g | TgtLocal v => cur_loc S v | TgtExpr e => e end.
Definition tgt_set (S : sstate) (t : target) (e : expr) : sstate :=
  match t with TgtGlobal g => set_glob S g e | TgtLocal v => set_loc S v e
  | TgtExpr _ => set_glob S "$write-to-a-value-parameter" (EUnsupported "write to an inlined value parameter") end.
Definition tgt_update (S : sstate) (t : target) (idx : list expr) (e : expr) : sstate :=
  match idx with
  | [] => tgt_set S t e
  | _ => tgt_set S t (EExcept (tgt_cur S t) [(idx, e)])
  end.

Section Symex.
  Variable locals : list string.
  Variable selfe : option expr.
  Variable scratch : list string.
  Definition sub (S : sstate) (e : expr) : expr := subst locals selfe scratch S (s_env S) e.

  (* expansion of a mapping-macro body over the resource (target t, mapping indices idx).
     $variable always denotes  cur(t)[idx]  for the CURRENT symbolic value of t: an assignment to
     $variable is an immediate update of t at idx (as in pgo's expansion into PlusCal); k receives
     the state and the yielded expression *)
  Definition with_var (S : sstate) (t : target) (idx : list expr) : sstate :=
    set_env S "$variable" (apply_path (tgt_cur S t) idx).

  Fixpoint mexp (fuel : nat) (t : target) (idx : list expr) (ms : list mstmt) (S : sstate) (yielded : option expr)
           (k : sstate -> option expr -> dtree) {struct fuel} : dtree :=
    match fuel with
    | O => Fail "out of fuel (macro)"
    | Datatypes.S fuel =>
      let ev e := sub (with_var S t idx) e in
      match ms with
      | [] => k S yielded
      | s :: rest =>
        match s with
        | MAwait c => Branch (ev c) (mexp fuel t idx rest S yielded k) (Leaf LAbort)
        | MAssert c => Branch (ev c) (mexp fuel t idx rest S yielded k) (Leaf LAssert)
        | MWithSet x e => Choice (ev e) (mexp fuel t idx rest (push_choice S x) yielded k)
        | MWithVal x e => mexp fuel t idx rest (set_env S x (ev e)) yielded k
        | MAssign e => mexp fuel t idx rest (tgt_update S t idx (ev e)) yielded k
        | MAssignPath p e => mexp fuel t idx rest (tgt_update S t (idx ++ map ev p) (ev e)) yielded k
        | MYield e => mexp fuel t idx rest S (Some (ev e)) k
        | MIf c a b => Branch (ev c) (mexp fuel t idx (a ++ rest) S yielded k) (mexp fuel t idx (b ++ rest) S yielded k)
        | MEither bs => Either (map (fun b => mexp fuel t idx (b ++ rest) S yielded k) bs)
        | MPrint e => mexp fuel t idx rest (add_print S (ev e)) yielded k
        | MSkip => mexp fuel t idx rest S yielded k
        end
      end
    end.

  (* restore the caller's names after a macro body (macro-bound names must not leak; stores and choice depth stay) *)
  Definition leave_macro (caller S : sstate) : sstate :=
    mkS (s_env caller) (s_hnd caller) (s_glob S) (s_loc S) (s_prints S) (s_depth S).

  Definition do_read (fuel : nat) (b : binding) (idx : list expr) (S : sstate) (k : sstate -> expr -> dtree) : dtree :=
    let t := b_target b in
    match b_macro b with
    | None => k S (apply_path (tgt_cur S t) idx)
    | Some m =>
        mexp fuel t idx (m_read m) S None
             (fun S' y => match y with
                          | Some r => k (leave_macro S S') r
                          | None => Fail "read macro did not yield"
                          end)
    end.

  Definition do_write (fuel : nat) (b : binding) (idx : list expr) (e : expr) (S : sstate) (k : sstate -> dtree) : dtree :=
    let t := b_target b in
    match b_macro b with
    | None => k (tgt_update S t idx e)
    | Some m =>
        mexp fuel t idx (m_write m) (set_env S "$value" e) None
             (fun S' y => match y with
                          | Some r => k (leave_macro S (tgt_update S' t idx r))
                          | None => k (leave_macro S S')       (* the macro assigned $variable itself (or left it alone) *)
                          end)
    end.

  Variable I : instance.
  Variable procs : list (string * procinfo).

  Definition resolve (S : sstate) (h : string) : option binding :=
    match lookup h (s_hnd S) with
    | None => None
    | Some r =>
        match lookup r (i_binds I) with
        | Some b => Some b
        | None => let v := strip_prefix (i_arch I) r in
                  Some (mkBind (if mem v locals then TgtLocal v else TgtGlobal v) None)
        end
    end.

  Definition tla_label (l : string) : string :=
    let s := strip_prefix (i_arch I) l in
    match lookup s (i_labels I) with Some t => t | None => s end.

  Definition commit (S : sstate) : dtree := Leaf (LCommit (s_glob S) (s_loc S) (s_prints S)).

  Fixpoint symex_go (fuel : nat) (body : list gstmt) (S : sstate) {struct fuel} : dtree :=
    match fuel with
    | O => Fail "out of fuel (go)"
    | Datatypes.S fuel =>
      match body with
      | [] => Fail "critical section ends without a jump"
      | s :: rest =>
        match s with
        | GRes h r => symex_go fuel rest (set_hnd S h r)
        | GRef h r => symex_go fuel rest (set_hnd S h r)
        | GRead x h idx =>
            match resolve S h with
            | Some b => do_read fuel b (map (sub S) idx) S (fun S' v => symex_go fuel rest (set_env S' x v))
            | None => Fail ("unknown resource handle " ++ h)
            end
        | GWrite h idx e =>
            match resolve S h with
            | Some b => do_write fuel b (map (sub S) idx) (sub S e) S (fun S' => symex_go fuel rest S')
            | None => Fail ("unknown resource handle " ++ h)
            end
        | GIf c t e => Branch (sub S c) (symex_go fuel (t ++ rest) S) (symex_go fuel (e ++ rest) S)
        | GAwait c => Branch (sub S c) (symex_go fuel rest S) (Leaf LAbort)
        | GAssert c => Branch (sub S c) (symex_go fuel rest S) (Leaf LAssert)
        | GEither _ bs => Either (map (fun b => symex_go fuel (b ++ rest) S) bs)
        | GWithSet x _ e => Choice (sub S e) (symex_go fuel rest (push_choice S x))
        | GVar x e => symex_go fuel rest (set_env S x (sub S e))
        | GPrint e => symex_go fuel rest (add_print S (sub S e))
        | GGoto l => commit (set_loc S "pc" (EStr (tla_label l)))
        | GDone => Leaf LDone
        | GFallthrough => Leaf LFallthrough
        | GRefArg _ _ | GCall _ _ _ | GTailCall _ _ | GReturn => Fail "procedure calls: not yet modelled"
        end
      end
    end.

  (* ---------------------------------------------------------------- TLA+ side *)

  Fixpoint is_action (e : expr) : bool :=
    match e with
    | Nd (TPrime _) _ => true
    | Nd TUnchanged _ => true
    | Nd (TOp B_Assert) _ => true
    | Nd (TOp B_PrintT) _ => true
    | Nd (TOp B_Print) _ => true
    | Nd _ cs => existsb is_action cs
    end.

  Fixpoint has_effect (e : expr) : bool :=
    match e with
    | Nd TUnchanged _ => true
    | Nd (TOp B_Assert) _ => true
    | Nd (TOp B_PrintT) _ => true
    | Nd (TOp B_Print) _ => true
    | Nd _ cs => existsb has_effect cs
    end.

  Fixpoint primes_assigned (S : sstate) (e : expr) : bool :=
    match e with
    | Nd (TPrime x) _ => match lookup x (s_glob S), lookup x (s_loc S) with None, None => false | _, _ => true end
    | Nd _ cs => forallb (primes_assigned S) cs
    end.

  Fixpoint has_at (e : expr) : bool :=
    match e with Nd TAt _ => true | Nd _ cs => existsb has_at cs end.

  Fixpoint symex_tla (fuel : nat) (todo : list expr) (S : sstate) {struct fuel} : dtree :=
    match fuel with
    | O => Fail "out of fuel (tla)"
    | Datatypes.S fuel =>
      match todo with
      | [] => Leaf (LCommit (filter (fun xe => negb (mem (fst xe) scratch)) (s_glob S)) (s_loc S) (s_prints S))
      | c :: rest =>
        if negb (is_action c) then Branch (sub S c) (symex_tla fuel rest S) (Leaf LAbort)
        else
          match c with
          | Nd TConj cs => symex_tla fuel (cs ++ rest) S
          | Nd (TOp B_and) [a; b] => symex_tla fuel (a :: b :: rest) S
          | Nd TDisj cs => Either (map (fun d => symex_tla fuel (d :: rest) S) cs)
          | Nd TIf [g; a; b] => Branch (sub S g) (symex_tla fuel (a :: rest) S) (symex_tla fuel (b :: rest) S)
          | Nd (TExists [PVar x]) [s; body] => Choice (sub S s) (symex_tla fuel (body :: rest) (push_choice S x))
          | Nd (TLet x []) [d; b] => symex_tla fuel (b :: rest) (set_env S x (sub S d))
          | Nd TUnchanged _ => symex_tla fuel rest S
          | Nd (TOp B_Assert) (g :: _) => Branch (sub S g) (symex_tla fuel rest S) (Leaf LAssert)
          | Nd (TOp B_PrintT) [e] => symex_tla fuel rest (add_print S (sub S e))
          | Nd (TOp B_eq) [Nd (TPrime x) []; Nd (TState y) []] =>
              (* x' = x : the stock translator's UNCHANGED for a single variable *)
              if String.eqb x y then symex_tla fuel rest S
              else if mem x locals then Fail ("unrecognised assignment to per-process variable " ++ x)
              else symex_tla fuel rest (set_glob S x (sub S (Nd (TState y) [])))
          | Nd (TOp B_eq) [Nd (TPrime x) []; e] =>
              if mem x locals then
                match e with
                | Nd (TExcept [n]) (Nd (TState y) [] :: p0 :: more) =>
                    if String.eqb x y then
                      match is_self selfe (sub S p0), split_last more with
                      | true, Some (path, v) =>
                          if has_at v then Fail ("@ in an assignment to " ++ x)
                          else match path with
                               | [] => symex_tla fuel rest (set_loc S x (sub S v))
                               | _ => symex_tla fuel rest (set_loc S x (EExcept (cur_loc S x) [(map (sub S) path, sub S v)]))
                               end
                      | _, _ => Fail ("assignment to a per-process variable not at [self]: " ++ x)
                      end
                    else Fail ("unrecognised assignment to " ++ x)
                | _ => Fail ("unrecognised assignment to per-process variable " ++ x)
                end
              else symex_tla fuel rest (set_glob S x (sub S e))
          | _ =>
              (* a condition that reads already-assigned primed variables (old translations:  Len(network[next']) < N ) *)
              if has_effect c || negb (primes_assigned S c) then Fail "unrecognised action shape"
              else Branch (sub S c) (symex_tla fuel rest S) (Leaf LAbort)
          end
      end
    end.

  (* an action  lbl(self) == /\ pc[self] = "lbl" /\ ...   (or  lbl == /\ pc[<id>] = "lbl" /\ ...  for a
     single process, where selfe = Some <id>) *)
  Definition tla_action_tree (fuel : nat) (lbl : string) (self_param : option string) (body : expr) : dtree :=
    let S := match self_param with Some p => set_env s0 p ESelf | None => s0 end in
    let conjs := match body with Nd TConj cs => cs | _ => [body] end in
    match conjs with
    | Nd (TOp B_eq) [Nd TApp [Nd (TState "pc") []; a]; Nd (TLit (LStr l)) []] :: rest =>
        if is_self selfe (sub S a) && String.eqb l lbl then symex_tla fuel rest S
        else Fail "action does not start with pc[self] = its own label"
    | _ => Fail "action does not start with pc[self] = label"
    end.

  Definition go_body_tree (fuel : nat) (body : list gstmt) : dtree := symex_go fuel body s0.
End Symex.

(* ------------------------------------------------------------------ normaliser and checker *)

(* sound simplifications applied to both trees before the syntactic comparison *)
Definition lit_bool (c : expr) : option bool :=
  match c with Nd (TLit (LBool b)) [] => Some b | _ => None end.

Fixpoint norm (t : dtree) : dtree :=
  match t with
  | Branch c t1 t2 =>
      match lit_bool c with
      | Some true => norm t1
      | Some false => norm t2
      | None => Branch c (norm t1) (norm t2)
      end
  | Choice s k => Choice s (norm k)
  | Either ts => Either (map norm ts)
  | Leaf (LCommit g l p) => Leaf (LCommit (clean_glob g) (clean_loc l) p)
  | _ => t
  end.

Fixpoint expr_unsupported (e : expr) : bool :=
  match e with
  | Nd (TUnsupported _) _ => true
  | Nd _ cs => existsb expr_unsupported cs
  end.

(* a Fail node, or an expression the translators marked as outside their fragment *)
Fixpoint has_fail (t : dtree) : bool :=
  match t with
  | Fail _ => true
  | Leaf (LCommit g l p) => existsb (fun xe => expr_unsupported (snd xe)) g || existsb (fun xe => expr_unsupported (snd xe)) l
                            || existsb expr_unsupported p
  | Leaf _ => false
  | Branch c a b => expr_unsupported c || has_fail a || has_fail b
  | Choice s k => expr_unsupported s || has_fail k
  | Either ts => existsb has_fail ts
  end.

Definition store_eq_dec (a b : list (string * expr)) : {a = b} + {a <> b}.
Proof. apply list_eq_dec. intros [x e] [y f]. destruct (string_dec x y); [| right; congruence].
  destruct (expr_eq_dec e f); [left; congruence | right; congruence]. Defined.

Definition leaf_eq_dec (a b : leaf) : {a = b} + {a <> b}.
Proof. decide equality; try apply store_eq_dec; apply (list_eq_dec expr_eq_dec). Defined.

Fixpoint dtree_eq_dec (a b : dtree) {struct a} : {a = b} + {a <> b}.
Proof.
  destruct a, b; try (right; congruence).
  - destruct (leaf_eq_dec l l0); [left; congruence | right; congruence].
  - destruct (expr_eq_dec c c0); [| right; congruence].
    destruct (dtree_eq_dec a1 b1); [| right; congruence].
    destruct (dtree_eq_dec a2 b2); [left; congruence | right; congruence].
  - destruct (expr_eq_dec s s1); [| right; congruence].
    destruct (dtree_eq_dec a b); [left; congruence | right; congruence].
  - destruct (list_eq_dec dtree_eq_dec ts ts0); [left; congruence | right; congruence].
  - destruct (string_dec msg msg0); [left; congruence | right; congruence].
Defined.

Definition equiv_check (t1 t2 : dtree) : bool :=
  negb (has_fail t1) && negb (has_fail t2) &&
  (if dtree_eq_dec (norm t1) (norm t2) then true else false).

(* canonical form of the operator definitions (parameters renamed by the same discipline) *)
Definition canon_def (d : opdef) : opdef :=
  let '(f, (ps, body)) := d in
  let b' := subst [] None [] s0 [] body in
  let h := bheight b' in
  let rn := canon_map (Datatypes.S h) ps in
  (f, (map (fun p => match lookup p rn with Some y => y | None => p end) ps, rename rn b')).
Definition canon_defs (ds : list opdef) : list opdef := map canon_def ds.

Definition opdef_eq_dec (a b : opdef) : {a = b} + {a <> b}.
Proof. destruct a as [f [ps e]], b as [g [qs e']].
  destruct (string_dec f g); [| right; congruence].
  destruct (list_eq_dec string_dec ps qs); [| right; congruence].
  destruct (expr_eq_dec e e'); [left; congruence | right; congruence]. Defined.

Definition restrict_defs (names : list string) (ds : list opdef) : list opdef :=
  flat_map (fun n => match lookup n ds with Some d => [(n, d)] | None => [] end) names.

Definition defs_check (d1 d2 : list opdef) : bool :=
  if list_eq_dec opdef_eq_dec d1 d2 then true else false.
