(* C02 — PBFail4_bug125: mapping macros and instance bindings of pgo/test/files/general/PBFail4_bug125.tla

     mapping macro TCPChannel {
         read  { await Len($variable) > 0;
                 with (msg = Head($variable)) { $variable := Tail($variable); yield msg; }; }
         write { await Len($variable) < BUFFER_SIZE; yield Append($variable, $value); } }
     mapping macro FailureDetector { read { yield $variable; } write { yield $value; } }
     mapping macro FileSystem      { read { yield $variable; } write { yield $value; } }

     fair process (Replica \in 1..NUM_REPLICAS) == instance AReplica(ref network[_], ref fs[_], ref fd[_])
         mapping network[_] via TCPChannel  mapping fs[_] via FileSystem  mapping fd[_] via FailureDetector;
     fair process (Client \in (NUM_REPLICAS+1)..(NUM_REPLICAS+NUM_CLIENTS)) == instance AClient(ref network[_], ref fd[_])
         mapping network[_] via TCPChannel  mapping fd[_] via FailureDetector;
     archetype AReplica(ref net[_], ref fs[_], ref fd[_])   archetype AClient(ref net[_], ref fd[_])  variables req, resp, idx, body
     renamed by the PlusCal generator (expectpcal): Client resp0 idx0                                         *)
From PGV Require Import C02.Lang C02.Sem.
Open Scope string_scope.
Open Scope list_scope.
Open Scope Z_scope.

Definition Var := EVar "$variable".
Definition Val := EVar "$value".

Definition TCPChannel : macro := mkMacro
  [ MAwait (EOp B_gt [EOp B_Len [Var]; ENum 0]);
    MWithVal "msg" (EOp B_Head [Var]);
    MAssign (EOp B_Tail [Var]);
    MYield (EVar "msg") ]
  [ MAwait (EOp B_lt [EOp B_Len [Var]; EConst "BUFFER_SIZE" []]);
    MYield (EOp B_Append [Var; Val]) ].
Definition FailureDetector : macro := mkMacro [ MYield Var ] [ MYield Val ].
Definition FileSystem : macro := mkMacro [ MYield Var ] [ MYield Val ].

Definition PBFail4_bug125_instances : list (string * instance) :=
  [ ("Replica", mkInst "AReplica"
        [("AReplica.net", mkBind (TgtGlobal "network") (Some TCPChannel));
         ("AReplica.fs", mkBind (TgtGlobal "fs") (Some FileSystem));
         ("AReplica.fd", mkBind (TgtGlobal "fd") (Some FailureDetector))] []);
    ("Client", mkInst "AClient"
        [("AClient.net", mkBind (TgtGlobal "network") (Some TCPChannel));
         ("AClient.fd", mkBind (TgtGlobal "fd") (Some FailureDetector));
         ("AClient.resp", mkBind (TgtLocal "resp0") None);
         ("AClient.idx", mkBind (TgtLocal "idx0") None)] []) ].

Definition PBFail4_bug125_scratch : list string := [].
