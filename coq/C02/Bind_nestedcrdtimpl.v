(* C02 — nestedcrdtimpl: mapping macros and instance bindings of systems/nestedcrdtimpl/NestedCRDTImpl.tla

     mapping macro TCPChannel {
         read  { await Len($variable) > 0;
                 with (msg = Head($variable)) { $variable := Tail($variable); yield msg; }; }
         write { await Len($variable) < BUFFER_SIZE; yield Append($variable, $value); } }
     mapping macro SingleCellChannel {
         read  { await $variable # EMPTY_CELL;
                 with(v = $variable) { $variable := EMPTY_CELL; yield v; } }
         write { await $variable = EMPTY_CELL; yield $value; } }

     fair process (CRDTResource \in RESOURCE_IDS) == instance ACRDTResource(ref in[_], ref out[_], ref network[_],
                                                                          RESOURCE_IDS \ {CRDTResource}, TRUE)
         mapping network[_] via TCPChannel  mapping in[_] via SingleCellChannel  mapping out[_] via SingleCellChannel;
     (the expression arguments become the per-process variables `peers` and `timer` of the translation)
     fair process (Node \in NODE_IDS) { ... }    plain PlusCal test driver: no generated Go
     (archetypes ATestRig and ATestBench are not instantiated by the spec)                                *)
From PGV Require Import C02.Lang C02.Sem.
Open Scope string_scope.
Open Scope list_scope.
Open Scope Z_scope.

Definition Var := EVar "$variable".
Definition Val := EVar "$value".

Definition TCPChannel : macro := mkMacro
  [ MAwait (EOp B_gt [EOp B_Len [Var]; ENum 0]);
    MWithVal "msg" (EOp B_Head [Var]);
    MAssign (EOp B_Tail [Var]);
    MYield (EVar "msg") ]
  [ MAwait (EOp B_lt [EOp B_Len [Var]; EConst "BUFFER_SIZE" []]);
    MYield (EOp B_Append [Var; Val]) ].

Definition SingleCellChannel : macro := mkMacro
  [ MAwait (EOp B_neq [Var; EConst "EMPTY_CELL" []]);
    MWithVal "v" Var;
    MAssign (EConst "EMPTY_CELL" []);
    MYield (EVar "v") ]
  [ MAwait (EOp B_eq [Var; EConst "EMPTY_CELL" []]);
    MYield Val ].

Definition nestedcrdtimpl_instances : list (string * instance) :=
  [ ("CRDTResource", mkInst "ACRDTResource"
        [("ACRDTResource.in", mkBind (TgtGlobal "in") (Some SingleCellChannel));
         ("ACRDTResource.out", mkBind (TgtGlobal "out") (Some SingleCellChannel));
         ("ACRDTResource.network", mkBind (TgtGlobal "network") (Some TCPChannel));
         ("ACRDTResource.peers", mkBind (TgtLocal "peers") None);
         ("ACRDTResource.timer", mkBind (TgtLocal "timer") None)] []) ].

Definition nestedcrdtimpl_scratch : list string := [].
