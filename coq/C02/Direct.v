(* C02 — a DIRECT, environment-passing interpreter of the generated-Go statement IR (no symbolic execution, no
   substitution, no decision tree): statements are executed in order on concrete values; temporaries are bound to
   values; reads and writes of archetype resources act on a concrete store, through the mapping macros executed
   statement by statement. Definitions only.

   Purpose: `run (symex_go ...)` (Sem.v) is what the per-label theorems talk about; this file gives the conventional
   semantics it is supposed to coincide with. The coincidence is NOT proved (see notes/C02.md: a proof needs the
   substitution lemma for `eval`, whose fuel bounds depth, so `eval f (subst m e)` and the direct evaluation at fuel f
   differ on deep terms); it is checked by evaluation on every state the differential walks visit
   (Walk-independent function `direct_agrees` below, used by props/c02.py) — except on evaluation errors of
   temporaries that are never used, where this interpreter (like the Go code) stops and the symbolic one does not. *)
From PGV Require Import C02.Lang C02.Sem.
Open Scope list_scope.
Open Scope string_scope.

Record cstate := mkC {
  c_vars : list (string * value);     (* Go temporaries, with-bound names, $variable / $value inside a macro *)
  c_hnd : list (string * string);
  c_glob : list (string * value);     (* globals written so far, sorted by name *)
  c_loc : list (string * value);      (* per-process variables (self's component) written so far, sorted by name *)
  c_prints : list value
}.

Fixpoint vstore_set (x : string) (v : value) (st : list (string * value)) : list (string * value) :=
  match st with
  | [] => [(x, v)]
  | (y, w) :: r => match String.compare x y with
                   | Lt => (x, v) :: st | Eq => (x, v) :: r | Gt => (y, w) :: vstore_set x v r end
  end.

Section Direct.
  Variable D : list opdef.
  Variable fuel : nat.              (* evaluation fuel of expressions *)
  Variable locals : list string.
  Variable I : instance.
  Variable r : env.                 (* pre-state, self, constants *)

  Definition cenv_of (C : cstate) : env :=
    mkEnv (e_glob r) (e_loc r) (e_self r) (e_const r) [] (c_vars C) [] None.
  Definition ev (C : cstate) (e : expr) : res value := eval D fuel (cenv_of C) e.

  Definition tgt_val (C : cstate) (t : target) : res value :=
    match t with
    | TgtGlobal g => Ok (match lookup g (c_glob C) with Some v => v | None => e_glob r g end)
    | TgtLocal v => Ok (match lookup v (c_loc C) with Some w => w | None => e_loc r v end)
    | TgtExpr e => ev C e
    end.

  Fixpoint vapply_path (f : value) (idx : list value) : res value :=
    match idx with [] => Ok f | i :: more => do g <- vapply f i; vapply_path g more end.

  (* [f EXCEPT ![i1]..[in] = v]  (a missing key leaves the function unchanged, as in eval) *)
  Fixpoint vupd_path (f : value) (idx : list value) (v : value) : res value :=
    match idx with
    | [] => Ok v
    | i :: more =>
        do kvs <- as_fun f;
        match fun_lookup i kvs with
        | Some old => do w <- vupd_path old more v; Ok (mkfun (fun_insert i w kvs))
        | None => Ok f
        end
    end.

  Definition tgt_write (C : cstate) (t : target) (idx : list value) (v : value) : res cstate :=
    do cur <- tgt_val C t;
    do nv <- vupd_path cur idx v;
    match t with
    | TgtGlobal g => Ok (mkC (c_vars C) (c_hnd C) (vstore_set g nv (c_glob C)) (c_loc C) (c_prints C))
    | TgtLocal x => Ok (mkC (c_vars C) (c_hnd C) (c_glob C) (vstore_set x nv (c_loc C)) (c_prints C))
    | TgtExpr _ => Err "write to an inlined value parameter"
    end.

  Definition bindv (C : cstate) (x : string) (v : value) : cstate :=
    mkC ((x, v) :: c_vars C) (c_hnd C) (c_glob C) (c_loc C) (c_prints C).
  Definition set_vars (C : cstate) (vs : list (string * value)) : cstate :=
    mkC vs (c_hnd C) (c_glob C) (c_loc C) (c_prints C).

  (* $variable = cur(t)[idx], recomputed at every use *)
  Definition with_variable (C : cstate) (t : target) (idx : list value) : cstate :=
    match (do cur <- tgt_val C t; vapply_path cur idx) with
    | Ok v => bindv C "$variable" v
    | Err _ => C
    end.

  Inductive mres := MOk (C : cstate) (yielded : option value) (ks : list nat) | MStop (o : outcome).

  Definition pick_elem (v : value) (ks : list nat) : res (option value * list nat) :=
    match v with
    | VSet [] => Ok (None, ks)
    | VSet xs => let '(c, ks') := next_choice ks in
                 match nth_error xs (Nat.modulo c (List.length xs)) with
                 | Some x => Ok (Some x, ks') | None => Err "choice" end
    | _ => Err "choice over a non-set"
    end.

  (* a mapping-macro body, statement by statement *)
  Fixpoint mrun (n : nat) (t : target) (idx : list value) (ms : list mstmt) (C : cstate) (y : option value) (ks : list nat) : mres :=
    match n with
    | O => MStop (OErr "out of fuel (macro)")
    | S n =>
      let e' e := ev (with_variable C t idx) e in
      match ms with
      | [] => MOk C y ks
      | s :: rest =>
        match s with
        | MAwait c => match e' c with
                      | Ok (VBool true) => mrun n t idx rest C y ks
                      | Ok (VBool false) => MStop OAbort
                      | Ok _ => MStop (OErr "condition is not a boolean") | Err m => MStop (OErr m) end
        | MAssert c => match e' c with
                       | Ok (VBool true) => mrun n t idx rest C y ks
                       | Ok (VBool false) => MStop OAssert
                       | Ok _ => MStop (OErr "condition is not a boolean") | Err m => MStop (OErr m) end
        | MWithSet x e => match e' e with
                          | Ok v => match pick_elem v ks with
                                    | Ok (Some el, ks') => mrun n t idx rest (bindv C x el) y ks'
                                    | Ok (None, _) => MStop OAbort
                                    | Err m => MStop (OErr m) end
                          | Err m => MStop (OErr m) end
        | MWithVal x e => match e' e with Ok v => mrun n t idx rest (bindv C x v) y ks | Err m => MStop (OErr m) end
        | MAssign e => match e' e with
                       | Ok v => match tgt_write C t idx v with Ok C' => mrun n t idx rest C' y ks | Err m => MStop (OErr m) end
                       | Err m => MStop (OErr m) end
        | MAssignPath p e =>
            match mapM e' p, e' e with
            | Ok pv, Ok v => match tgt_write C t (idx ++ pv) v with Ok C' => mrun n t idx rest C' y ks | Err m => MStop (OErr m) end
            | Err m, _ => MStop (OErr m) | _, Err m => MStop (OErr m) end
        | MYield e => match e' e with Ok v => mrun n t idx rest C (Some v) ks | Err m => MStop (OErr m) end
        | MIf c a b => match e' c with
                       | Ok (VBool true) => mrun n t idx (a ++ rest) C y ks
                       | Ok (VBool false) => mrun n t idx (b ++ rest) C y ks
                       | Ok _ => MStop (OErr "condition is not a boolean") | Err m => MStop (OErr m) end
        | MEither bs => match bs with
                        | [] => MStop OAbort
                        | _ => let '(c, ks') := next_choice ks in
                               match nth_error bs (Nat.modulo c (List.length bs)) with
                               | Some b => mrun n t idx (b ++ rest) C y ks'
                               | None => MStop (OErr "either") end
                        end
        | MPrint e => match e' e with
                      | Ok v => mrun n t idx rest (mkC (c_vars C) (c_hnd C) (c_glob C) (c_loc C) (c_prints C ++ [v])) y ks
                      | Err m => MStop (OErr m) end
        | MSkip => mrun n t idx rest C y ks
        end
      end
    end.

  Definition resolve_d (C : cstate) (h : string) : option binding :=
    match lookup h (c_hnd C) with
    | None => None
    | Some res => match lookup res (i_binds I) with
                  | Some b => Some b
                  | None => let v := strip_prefix (i_arch I) res in
                            Some (mkBind (if mem v locals then TgtLocal v else TgtGlobal v) None)
                  end
    end.

  Definition finish (C : cstate) : outcome := OCommit (c_glob C) (c_loc C) (c_prints C).

  Fixpoint exec_go (n : nat) (body : list gstmt) (C : cstate) (ks : list nat) {struct n} : outcome :=
    match n with
    | O => OErr "out of fuel (go)"
    | S n =>
      match body with
      | [] => OErr "critical section ends without a jump"
      | s :: rest =>
        match s with
        | GRes h res | GRef h res =>
            exec_go n rest (mkC (c_vars C) ((h, res) :: c_hnd C) (c_glob C) (c_loc C) (c_prints C)) ks
        | GRead x h idx =>
            match resolve_d C h, mapM (ev C) idx with
            | Some b, Ok iv =>
                match b_macro b with
                | None => match (do cur <- tgt_val C (b_target b); vapply_path cur iv) with
                          | Ok v => exec_go n rest (bindv C x v) ks
                          | Err m => OErr m end
                | Some m =>
                    match mrun n (b_target b) iv (m_read m) C None ks with
                    | MStop o => o
                    | MOk C' (Some v) ks' => exec_go n rest (bindv (set_vars C' (c_vars C)) x v) ks'
                    | MOk _ None _ => OErr "read macro did not yield"
                    end
                end
            | None, _ => OErr "unknown resource handle"
            | _, Err m => OErr m
            end
        | GWrite h idx e =>
            match resolve_d C h, mapM (ev C) idx, ev C e with
            | Some b, Ok iv, Ok v =>
                match b_macro b with
                | None => match tgt_write C (b_target b) iv v with Ok C' => exec_go n rest C' ks | Err m => OErr m end
                | Some m =>
                    match mrun n (b_target b) iv (m_write m) (bindv C "$value" v) None ks with
                    | MStop o => o
                    | MOk C' (Some w) ks' => match tgt_write (set_vars C' (c_vars C)) (b_target b) iv w with
                                             | Ok C'' => exec_go n rest C'' ks' | Err m' => OErr m' end
                    | MOk C' None ks' => exec_go n rest (set_vars C' (c_vars C)) ks'
                    end
                end
            | None, _, _ => OErr "unknown resource handle"
            | _, Err m, _ => OErr m
            | _, _, Err m => OErr m
            end
        | GIf c a b => match ev C c with
                       | Ok (VBool true) => exec_go n (a ++ rest) C ks
                       | Ok (VBool false) => exec_go n (b ++ rest) C ks
                       | Ok _ => OErr "condition is not a boolean" | Err m => OErr m end
        | GAwait c => match ev C c with
                      | Ok (VBool true) => exec_go n rest C ks
                      | Ok (VBool false) => OAbort
                      | Ok _ => OErr "condition is not a boolean" | Err m => OErr m end
        | GAssert c => match ev C c with
                       | Ok (VBool true) => exec_go n rest C ks
                       | Ok (VBool false) => OAssert
                       | Ok _ => OErr "condition is not a boolean" | Err m => OErr m end
        | GEither _ bs => match bs with
                          | [] => OAbort
                          | _ => let '(c, ks') := next_choice ks in
                                 match nth_error bs (Nat.modulo c (List.length bs)) with
                                 | Some b => exec_go n (b ++ rest) C ks'
                                 | None => OErr "either" end
                          end
        | GWithSet x _ e => match ev C e with
                            | Ok v => match pick_elem v ks with
                                      | Ok (Some el, ks') => exec_go n rest (bindv C x el) ks'
                                      | Ok (None, _) => OAbort
                                      | Err m => OErr m end
                            | Err m => OErr m end
        | GVar x e => match ev C e with Ok v => exec_go n rest (bindv C x v) ks | Err m => OErr m end
        | GPrint e => match ev C e with
                      | Ok v => exec_go n rest (mkC (c_vars C) (c_hnd C) (c_glob C) (c_loc C) (c_prints C ++ [v])) ks
                      | Err m => OErr m end
        | GGoto l => finish (mkC (c_vars C) (c_hnd C) (c_glob C) (vstore_set "pc" (VStr (tla_label I l)) (c_loc C)) (c_prints C))
        | GDone => ODone
        | GFallthrough => OFallthrough
        | GRefArg _ _ | GCall _ _ _ | GTailCall _ _ | GReturn => OErr "procedure calls: not modelled"
        end
      end
    end.

  Definition exec_body (body : list gstmt) (ks : list nat) : outcome := exec_go 6000 body (mkC [] [] [] [] []) ks.
End Direct.

(* agreement of the symbolic semantics with the direct one on one (state, choices): equal outcomes, or the direct
   interpreter stopped on an evaluation error (eager) — reported separately so that it can be counted *)
Definition vstore_eqb' (a b : list (string * value)) : bool :=
  Nat.eqb (List.length a) (List.length b) &&
  forallb (fun p => String.eqb (fst (fst p)) (fst (snd p)) && veqb (snd (fst p)) (snd (snd p))) (combine a b).
Definition outcome_eqb' (a b : outcome) : bool :=
  match a, b with
  | OCommit g l p, OCommit g' l' p' =>
      vstore_eqb' g g' && vstore_eqb' l l' && Nat.eqb (List.length p) (List.length p') &&
      forallb (fun q => veqb (fst q) (snd q)) (combine p p')
  | OAbort, OAbort | OAssert, OAssert | ODone, ODone | OFallthrough, OFallthrough => true
  | OErr _, OErr _ => true
  | _, _ => false
  end.

(* 0 = agree, 1 = agree up to an evaluation error met only by the eager interpreter, 2 = DISAGREE *)
Definition direct_agrees (D : list opdef) (fuel : nat) (locals : list string) (I : instance) (body : list gstmt)
           (gtree : dtree) (r : env) (ks : list nat) : nat :=
  let o1 := run D fuel gtree r ks in
  let o2 := exec_body D fuel locals I r body ks in
  if outcome_eqb' o1 o2 then O
  else match o2 with OErr _ => 1%nat | _ => 2%nat end.
