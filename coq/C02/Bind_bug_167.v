(* C02 — bug_167: instance bindings of pgo/test/files/gogen/bug_167.tla.
   Its mapping macros ReliableFIFOLink, NetworkToggle, PerfectFD, FileSystem, LeaderElection, NetworkBufferLength are
   textually identical to those of systems/pbkvs/pbkvs.tla (checked with diff), transcribed in Bind_pbkvs.v.

     fair process (Replica \in REPLICA_SET) == instance AReplica(ref network[_], ref fs[_][_], ref fd[_], ref network[_], ref primary, ref network[_])
         mapping @1[_] via ReliableFIFOLink  @2[_][_] via FileSystem  @3[_] via PerfectFD  @4[_] via NetworkToggle
                 @5 via LeaderElection  @6[_] via NetworkBufferLength;
     fair process (PutClient \in PUT_CLIENT_SET) == instance APutClient(ref network[_], ref fd[_], ref primary, ref network[_])
         mapping @1[_] via ReliableFIFOLink  @2[_] via PerfectFD  @3 via LeaderElection  @4[_] via NetworkBufferLength;
     fair process (GetClient \in GET_CLIENT_SET) == instance AGetClient(ref network[_], ref fd[_], ref primary, ref network[_])
         (same mappings)
     archetype AReplica(ref net[_], ref fs[_][_], ref fd[_], ref netEnabled[_], ref primary, ref netLen[_])
     archetype APutClient / AGetClient (ref net[_], ref fd[_], ref primary, ref netLen[_])  variables req, resp, body, replica
     renamed by the PlusCal generator: PutClient req0 resp0 body replica0 | GetClient req1 resp1 body0 replica1          *)
From PGV Require Import C02.Lang C02.Sem C02.Bind_pbkvs.
Open Scope string_scope.
Open Scope list_scope.
Open Scope Z_scope.

Definition client_binds (a req resp body replica : string) : list (string * binding) :=
  [ ((a ++ ".net")%string, mkBind (TgtGlobal "network") (Some ReliableFIFOLink));
    ((a ++ ".fd")%string, mkBind (TgtGlobal "fd") (Some PerfectFD));
    ((a ++ ".primary")%string, mkBind (TgtGlobal "primary") (Some LeaderElection));
    ((a ++ ".netLen")%string, mkBind (TgtGlobal "network") (Some NetworkBufferLength));
    ((a ++ ".req")%string, mkBind (TgtLocal req) None);
    ((a ++ ".resp")%string, mkBind (TgtLocal resp) None);
    ((a ++ ".body")%string, mkBind (TgtLocal body) None);
    ((a ++ ".replica")%string, mkBind (TgtLocal replica) None) ].

Definition bug_167_instances : list (string * instance) :=
  [ ("Replica", mkInst "AReplica"
        [("AReplica.net", mkBind (TgtGlobal "network") (Some ReliableFIFOLink));
         ("AReplica.fs", mkBind (TgtGlobal "fs") (Some FileSystem));
         ("AReplica.fd", mkBind (TgtGlobal "fd") (Some PerfectFD));
         ("AReplica.netEnabled", mkBind (TgtGlobal "network") (Some NetworkToggle));
         ("AReplica.primary", mkBind (TgtGlobal "primary") (Some LeaderElection));
         ("AReplica.netLen", mkBind (TgtGlobal "network") (Some NetworkBufferLength))] []);
    ("PutClient", mkInst "APutClient" (client_binds "APutClient" "req0" "resp0" "body" "replica0") []);
    ("GetClient", mkInst "AGetClient" (client_binds "AGetClient" "req1" "resp1" "body0" "replica1") []) ].

Definition bug_167_scratch : list string := [].
