(* C02 — search oracle: one-step lookahead from stored seed states. A seed standing at another label of the broken
   label's process is advanced by one step of the TLA+ model under every small choice vector; every successor that
   stands at the broken label is compared under every small choice vector. (E.g. raftkvs: a seed at serverLoop with
   k messages in the server's bag yields the k possible pre-states of handleMsg.) Nothing here is trusted. *)
From PGV Require Import C02.Lang C02.Sem C02.Show C02.Walk.
Open Scope list_scope.
Open Scope string_scope.

Definition first_some {A} (f : A -> option string) (xs : list A) : option string :=
  fold_left (fun acc x => match acc with Some _ => acc | None => f x end) xs None.

(* lbl_pred is whatever label the process instance stands at in the stored state (any label but lbl) *)
Definition scan_pred (W : wsys) (proc lbl : string) (st : gstate) (seedid : string) : string :=
  match lookup proc (w_procs W) with
  | None => ""
  | Some (oset, table) =>
      match lookup lbl table, proc_ids W st oset with
      | Some (gt, tt0), Ok ids =>
          let hit :=
              first_some (fun self =>
                let r := env_of W st self in
                match e_loc r "pc" with
                | VStr lbl_pred =>
                    match (if String.eqb lbl_pred lbl then None else lookup lbl_pred table) with
                    | Some (_, tpred) =>
                      first_some (fun ks1 =>
                        match run (w_dtla W) EVAL_FUEL tpred r ks1 with
                        | OCommit g lo _ =>
                            let st' := apply_commit st self g lo in
                            let r' := env_of W st' self in
                            match e_loc r' "pc" with
                            | VStr l' =>
                                if String.eqb l' lbl then
                                  first_some (fun ks2 =>
                                    let og := run (w_dgo W) EVAL_FUEL gt r' ks2 in
                                    let ot := run (w_dtla W) EVAL_FUEL tt0 r' ks2 in
                                    if outcome_eqb og ot then None
                                    else Some (describe O proc lbl self st' ks2 og ot ++ "#@#SEEDID " ++ seedid ++
                                               " #@#VIA " ++ proc ++ "." ++ lbl_pred ++ "/" ++ show_value self ++ "/" ++ sep "." (map nat_str ks1) ++
                                               " #@#ENDSEED"))
                                  (choice_vectors 3)
                                else None
                            | _ => None
                            end
                        | _ => None
                        end) (choice_vectors 3)
                    | None => None
                    end
                | _ => None
                end) ids in
          match hit with Some s => s | None => "" end
      | _, _ => ""
      end
  end.
