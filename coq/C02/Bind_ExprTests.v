(* C02 — ExprTests: pgo/test/files/general/ExprTests.tla. The archetype ANothing is not instantiated (the only process,
   Nothing = 0, is plain PlusCal), so there is no label to compare; what IS compared is the operator table: every
   module-level operator of the spec against the Go function generated for it (the `defs_equal` obligation). *)
From PGV Require Import C02.Lang C02.Sem.
Open Scope string_scope.
Open Scope list_scope.

Definition ExprTests_instances : list (string * instance) := [].
Definition ExprTests_scratch : list string := [].
