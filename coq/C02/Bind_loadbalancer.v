(* C02 — loadbalancer: mapping macros and instance bindings of systems/loadbalancer/load_balancer.tla

     mapping macro TCPChannel {
         read  { await Len($variable) > 0;
                 with (msg = Head($variable)) { $variable := Tail($variable); yield msg; }; }
         write { await Len($variable) < BUFFER_SIZE; yield Append($variable, $value); } }
     mapping macro WebPages {
         read  { yield WEB_PAGE; }
         write { assert(FALSE); yield $value; } }

     fair process (LoadBalancer = LoadBalancerId) == instance ALoadBalancer(ref network[_])
         mapping network[_] via TCPChannel;
     fair process (Servers \in 1..NUM_SERVERS) == instance AServer(ref network[_], ref fs[_])
         mapping network[_] via TCPChannel  mapping fs[_] via WebPages;
     fair process (Client \in (NUM_SERVERS+1)..(NUM_SERVERS+NUM_CLIENTS)) == instance AClient(ref network[_], ref in, ref out)
         mapping network[_] via TCPChannel;                                                           *)
From PGV Require Import C02.Lang C02.Sem.
Open Scope string_scope.
Open Scope list_scope.
Open Scope Z_scope.

Definition TCPChannel : macro := mkMacro
  [ MAwait (EOp B_gt [EOp B_Len [EVar "$variable"]; ENum 0]);
    MWithVal "msg" (EOp B_Head [EVar "$variable"]);
    MAssign (EOp B_Tail [EVar "$variable"]);
    MYield (EVar "msg") ]
  [ MAwait (EOp B_lt [EOp B_Len [EVar "$variable"]; EConst "BUFFER_SIZE" []]);
    MYield (EOp B_Append [EVar "$variable"; EVar "$value"]) ].

Definition WebPages : macro := mkMacro
  [ MYield (EConst "WEB_PAGE" []) ]
  [ MAssert (EBool false); MYield (EVar "$value") ].

Definition loadbalancer_instances : list (string * instance) :=
  [ ("LoadBalancer", mkInst "ALoadBalancer"
        [("ALoadBalancer.mailboxes", mkBind (TgtGlobal "network") (Some TCPChannel));
         (* "Process variable msg of process LoadBalancer ... changed to msg_" (single process: a plain variable) *)
         ("ALoadBalancer.msg", mkBind (TgtGlobal "msg_") None)] []);
    ("Servers", mkInst "AServer"
        [("AServer.mailboxes", mkBind (TgtGlobal "network") (Some TCPChannel));
         ("AServer.file_system", mkBind (TgtGlobal "fs") (Some WebPages))] []);
    ("Client", mkInst "AClient"
        [("AClient.mailboxes", mkBind (TgtGlobal "network") (Some TCPChannel));
         ("AClient.instream", mkBind (TgtGlobal "in") None);
         ("AClient.outstream", mkBind (TgtGlobal "out") None)] []) ].

(* The checked-in translation was produced by an old PGo: every mapped read/write goes through a
   global temporary (mailboxesRead, mailboxesWrite, ...) assigned and read PRIMED within one step.
   They have no counterpart in the Go code; symex_tla refuses any unprimed read of them and drops
   them from the committed store. *)
Definition loadbalancer_scratch : list string :=
  [ "mailboxesRead"; "mailboxesWrite"; "mailboxesWrite0"; "mailboxesRead0"; "mailboxesWrite1"; "file_systemRead";
    "mailboxesWrite2"; "instreamRead"; "mailboxesWrite3"; "mailboxesRead1"; "outstreamWrite"; "mailboxesWrite4";
    "outstreamWrite0" ].
