(* C02 — NonDetExploration: instance bindings of pgo/test/files/general/NonDetExploration.tla (process (Coverage = 1) == instance ACoverage(); process (Coincidence = 2) == instance ACoincidence(); process (Complex = 3) == instance AComplex(); no parameters) *)
From PGV Require Import C02.Lang C02.Sem.
Open Scope string_scope.
Open Scope list_scope.
Open Scope Z_scope.

Definition NonDetExploration_instances : list (string * instance) :=
  [ ("Coverage", mkInst "ACoverage" [] []);
    ("Coincidence", mkInst "ACoincidence" [] []);
    ("Complex", mkInst "AComplex" [] []) ].

(* TLA+-only temporaries projected away (none in this spec) *)
Definition NonDetExploration_scratch : list string := [].
