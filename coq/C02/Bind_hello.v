(* C02 — hello: instance bindings of pgo/test/files/general/hello.tla (fair process (Hello = 1) == instance AHello(ref out); no mapping macro) *)
From PGV Require Import C02.Lang C02.Sem.
Open Scope string_scope.
Open Scope list_scope.
Open Scope Z_scope.

Definition hello_instances : list (string * instance) :=
  [ ("Hello", mkInst "AHello" [("AHello.out", mkBind (TgtGlobal "out") None)] []) ].

(* TLA+-only temporaries projected away (none in this spec) *)
Definition hello_scratch : list string := [].
