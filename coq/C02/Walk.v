(* C02 — differential execution of the two regenerated models against each other on random walks
   of the TLA+ model (the search oracle of a broken per-label obligation, and the routine evidence
   for labels whose normal forms do not coincide). Definitions only; nothing here is trusted by a
   theorem. The walk is driven by a list of naturals supplied by the check (one PRNG: VERIF_SEED). *)
From PGV Require Import C02.Lang C02.Sem C02.Show.
Open Scope list_scope.
Open Scope string_scope.

Definition gstate := list (string * value).

Record wsys := mkW {
  w_dgo : list opdef;
  w_dtla : list opdef;
  w_consts : list (string * value);
  w_init : list (string * (bool * expr));
  w_procs : list (string * (option expr * list (string * (dtree * dtree))))   (* process, its id set, label -> (go tree, tla tree) *)
}.

Fixpoint set_assoc (x : string) (v : value) (st : gstate) : gstate :=
  match st with
  | [] => [(x, v)]
  | (y, w) :: r => if String.eqb x y then (x, v) :: r else (y, w) :: set_assoc x v r
  end.

Definition cenv (W : wsys) : string -> list value -> res value :=
  fun x args => match args, lookup x (w_consts W) with
                | [], Some v => Ok v
                | _, _ => Err ("constant without a value in the walk configuration: " ++ x)
                end.

Definition env_of (W : wsys) (st : gstate) (self : value) : env :=
  mkEnv (fun x => match lookup x st with Some v => v | None => VDefault end)
        (fun x => match lookup x st with
                  | Some f => match vapply f self with Ok v => v | Err _ => VDefault end
                  | None => VDefault end)
        self (cenv W) [] [] [] None.

Definition EVAL_FUEL := 400%nat.

Definition nth_mod {A} (xs : list A) (k : nat) : option A :=
  match xs with [] => None | _ => nth_error xs (Nat.modulo k (List.length xs)) end.

(* Init: conjuncts  v = e  /  v \in S  in order *)
Fixpoint init_state (W : wsys) (inits : list (string * (bool * expr))) (st : gstate) (rnd : list nat) : res gstate :=
  match inits with
  | [] => Ok st
  | (x, (is_in, e)) :: more =>
      let e' := subst [] None [] s0 [] e in
      do v <- eval (w_dtla W) EVAL_FUEL (env_of W st VDefault) e';
      let '(k, rnd') := next_choice rnd in
      if is_in then
        match v with
        | VSet xs => match nth_mod xs k with
                     | Some y => init_state W more (st ++ [(x, y)])%list rnd'
                     | None => Err ("Init: empty set for " ++ x) end
        | _ => Err ("Init: not a set for " ++ x)
        end
      else init_state W more (st ++ [(x, v)])%list rnd
  end.

Definition apply_commit (st : gstate) (self : value) (g l : list (string * value)) : gstate :=
  let st1 := fold_left (fun s xv => set_assoc (fst xv) (snd xv) s) g st in
  fold_left (fun s xv => match lookup (fst xv) s with
                         | Some f => match vupdate f self (snd xv) with Ok f' => set_assoc (fst xv) f' s | Err _ => s end
                         | None => s end) l st1.

Definition vstore_eqb (a b : list (string * value)) : bool :=
  Nat.eqb (List.length a) (List.length b) &&
  forallb (fun p => String.eqb (fst (fst p)) (fst (snd p)) && veqb (snd (fst p)) (snd (snd p))) (combine a b).

Definition outcome_eqb (a b : outcome) : bool :=
  match a, b with
  | OCommit g l p, OCommit g' l' p' =>
      vstore_eqb g g' && vstore_eqb l l' && Nat.eqb (List.length p) (List.length p') &&
      forallb (fun q => veqb (fst q) (snd q)) (combine p p')
  | OAbort, OAbort | OAssert, OAssert | ODone, ODone | OFallthrough, OFallthrough => true
  | OErr m, OErr m' => String.eqb m m'
  | _, _ => false
  end.

Definition show_nats (ks : list nat) : string := "[" ++ sep ";" (map nat_str ks) ++ "]".

Definition describe (att : nat) (proc lbl : string) (self : value) (st : gstate) (ks : list nat) (og ot : outcome) : string :=
  "#@#MISMATCH attempt=" ++ nat_str att ++ " #@#process=" ++ proc ++ " #@#label=" ++ lbl ++ " #@#self=" ++ show_value self ++ " #@#choices=" ++ show_nats ks ++
  " #@#state=" ++ show_vstore st ++ " #@#go=" ++ show_outcome og ++ " #@#tla=" ++ show_outcome ot ++ " #@#END".

Fixpoint take {A} (n : nat) (xs : list A) : list A * list A :=
  match n, xs with
  | O, _ => ([], xs)
  | S k, [] => let '(a, b) := take k [] in (a, b)
  | S k, x :: r => let '(a, b) := take k r in (x :: a, b)
  end.

Definition proc_ids (W : wsys) (st : gstate) (oset : option expr) : res (list value) :=
  match oset with
  | None => Ok [VDefault]
  | Some s => do v <- eval (w_dtla W) EVAL_FUEL (env_of W st VDefault) (subst [] None [] s0 [] s); as_set v
  end.

(* every (process entry, self) whose pc is one of the focus labels "proc.label" *)
Definition focus_candidates (W : wsys) (st : gstate) (focus : list string)
  : list ((string * (option expr * list (string * (dtree * dtree)))) * value) :=
  flat_map (fun pe =>
              match proc_ids W st (fst (snd pe)) with
              | Ok ids => flat_map (fun self => match e_loc (env_of W st self) "pc" with
                                                | VStr lbl => if mem (fst pe ++ "." ++ lbl) focus then [(pe, self)] else []
                                                | _ => [] end) ids
              | Err _ => []
              end) (w_procs W).

(* one walk of at most n attempts, following the TLA+ model's successor: (first mismatch of each label met,
   labels whose step committed in order). Every other attempt goes to a process standing at a focus label
   (the labels whose obligation broke), when there is one. *)
Fixpoint walk (n : nat) (W : wsys) (focus : list string) (st : gstate) (rnd : list nat) (trace : list string)
         (bad : list (string * string)) {struct n} : list (string * string) * list string :=
  match n with
  | O => (rev bad, rev trace)
  | S n' =>
      let '(coin, rnd0) := next_choice rnd in
      let '(rp, rnd1) := next_choice rnd0 in
      let '(rs, rnd2) := next_choice rnd1 in
      let '(ks, rnd3) := take 4 rnd2 in
      let pick :=
          match (if Nat.even coin then focus_candidates W st focus else []) with
          | c :: cs => match nth_mod (c :: cs) rs with Some (pe, self) => Ok (Some (pe, self)) | None => Ok None end
          | [] =>
            match nth_mod (w_procs W) rp with
            | None => Ok None
            | Some pe => match proc_ids W st (fst (snd pe)) with
                         | Err m => Err ("process set of " ++ fst pe ++ ": " ++ m)
                         | Ok ids => match nth_mod ids rs with Some self => Ok (Some (pe, self)) | None => Ok None end
                         end
            end
          end in
      match pick with
      | Err m => (rev (("", "#@#WALKERROR " ++ m ++ " #@#END") :: bad), rev trace)
      | Ok None => walk n' W focus st rnd3 trace bad
      | Ok (Some ((proc, (_, table)), self)) =>
          let r := env_of W st self in
          match e_loc r "pc" with
          | VStr lbl =>
              match lookup lbl table with
              | None => walk n' W focus st rnd3 trace bad     (* Done / a label of another process sharing the id *)
              | Some (gt, tt0) =>
                  let og := run (w_dgo W) EVAL_FUEL gt r ks in
                  let ot := run (w_dtla W) EVAL_FUEL tt0 r ks in
                  let key := proc ++ "." ++ lbl in
                  let ent := key ++ "/" ++ show_value self ++ "/" ++ sep "." (map nat_str ks) in
                  let bad' := if outcome_eqb og ot then bad
                              else match lookup key bad with
                                   | Some _ => bad
                                   | None => (key, describe (List.length trace) proc lbl self st ks og ot) :: bad end in
                  match ot with
                  | OCommit g l _ => walk n' W focus (apply_commit st self g l) rnd3 (ent :: trace) bad'
                  | _ => walk n' W focus st rnd3 (("~" ++ ent) :: trace) bad'
                  end
              end
          | _ => walk n' W focus st rnd3 trace bad
          end
      end
  end.

Definition one_walk (n : nat) (W : wsys) (focus : list string) (rnd : list nat) : list (string * string) * list string :=
  let '(r0, rnd') := take 8 rnd in
  match init_state W (w_init W) [] r0 with
  | Ok st => walk n W focus st rnd' [] []
  | Err m => ([("", "#@#WALKERROR Init: " ++ m ++ " #@#END")], [])
  end.

(* replay of one stored distinguishing case: both outcomes on the given state *)
Definition replay_case (W : wsys) (proc lbl : string) (self : value) (st : gstate) (ks : list nat) : string :=
  match lookup proc (w_procs W) with
  | Some (_, table) =>
      match lookup lbl table with
      | Some (gt, tt0) =>
          let r := env_of W st self in
          describe O proc lbl self st ks (run (w_dgo W) EVAL_FUEL gt r ks) (run (w_dtla W) EVAL_FUEL tt0 r ks)
      | None => "#@#WALKERROR no such label #@#END"
      end
  | None => "#@#WALKERROR no such process #@#END"
  end.

(* ------------------------------------------------------------------ validation against the real generated Go
   (harness/cmd/c02: the real critical sections under the real Run loop, stepped through the fairness-counter gate).
   One observed attempt: process/label/self, the spec state before, the dictated choices, what the real code did
   (commit | abort | error:<..> | done) and the spec state after. The Go model must predict exactly that. *)
Definition gstate_eqb (a b : gstate) : bool :=
  Nat.eqb (List.length a) (List.length b) &&
  forallb (fun xv => match lookup (fst xv) b with Some w => veqb (snd xv) w | None => false end) a.

Definition prefix (p s : string) : bool := String.eqb (substring 0 (String.length p) s) p.

Definition real_step_ok_with (use_tla : bool) (W : wsys) (proc lbl : string) (self : value) (st : gstate) (ks : list nat)
           (kind : string) (post : gstate) : string :=
  if String.eqb kind "done" || String.eqb kind "finished" then ""
  else
  match lookup proc (w_procs W) with
  | None => "no such process in the model: " ++ proc
  | Some (_, table) =>
      match lookup lbl table with
      | None => "no such label in the model: " ++ lbl
      | Some (gt, tt0) =>
          let og := if use_tla then run (w_dtla W) EVAL_FUEL tt0 (env_of W st self) ks
                    else run (w_dgo W) EVAL_FUEL gt (env_of W st self) ks in
          let bad := "#@#REAL process=" ++ proc ++ " #@#label=" ++ lbl ++ " #@#self=" ++ show_value self ++
                     " #@#choices=" ++ show_nats ks ++ " #@#state=" ++ show_vstore st ++ " #@#real=" ++ kind ++
                     " -> " ++ show_vstore post ++ " #@#gomodel=" ++ show_outcome og ++ " #@#END" in
          match og with
          | OCommit g l _ => if String.eqb kind "commit" && gstate_eqb (apply_commit st self g l) post then "" else bad
          | OAbort => if String.eqb kind "abort" then "" else bad
          | OAssert => if prefix "error:" kind then "" else bad
          | _ => bad
          end
      end
  end.

Definition real_step_ok := real_step_ok_with false.
