(* C02 — differential execution of the two regenerated models against each other on random walks
   of the TLA+ model (the search oracle of a broken per-label obligation, and the routine evidence
   for labels whose normal forms do not coincide). Definitions only; nothing here is trusted by a
   theorem. The walk is driven by a list of naturals supplied by the check (one PRNG: VERIF_SEED). *)
From PGV Require Import C02.Lang C02.Sem C02.Show.
Open Scope list_scope.
Open Scope string_scope.

Definition gstate := list (string * value).

Record wsys := mkW {
  w_dgo : list opdef;
  w_dtla : list opdef;
  w_consts : list (string * value);
  w_init : list (string * (bool * expr));
  w_procs : list (string * (option expr * list (string * (dtree * dtree))))   (* process, its id set, label -> (go tree, tla tree) *)
}.

Fixpoint set_assoc (x : string) (v : value) (st : gstate) : gstate :=
  match st with
  | [] => [(x, v)]
  | (y, w) :: r => if String.eqb x y then (x, v) :: r else (y, w) :: set_assoc x v r
  end.

Definition cenv (W : wsys) : string -> list value -> res value :=
  fun x args => match args, lookup x (w_consts W) with
                | [], Some v => Ok v
                | _ :: _, Some f => vapply f (VTup args)      (* operator-valued CONSTANT given as a finite table over <<args>> *)
                | _, _ => Err ("constant without a value in the walk configuration: " ++ x)
                end.

Definition env_of (W : wsys) (st : gstate) (self : value) : env :=
  mkEnv (fun x => match lookup x st with Some v => v | None => VDefault end)
        (fun x => match lookup x st with
                  | Some f => match vapply f self with Ok v => v | Err _ => VDefault end
                  | None => VDefault end)
        self (cenv W) [] [] [] None.

Definition EVAL_FUEL := 400%nat.

Definition nth_mod {A} (xs : list A) (k : nat) : option A :=
  match xs with [] => None | _ => nth_error xs (Nat.modulo k (List.length xs)) end.

(* Init: conjuncts  v = e  /  v \in S  in order *)
Fixpoint init_state (W : wsys) (inits : list (string * (bool * expr))) (st : gstate) (rnd : list nat) : res gstate :=
  match inits with
  | [] => Ok st
  | (x, (is_in, e)) :: more =>
      let e' := subst [] None [] s0 [] e in
      do v <- eval (w_dtla W) EVAL_FUEL (env_of W st VDefault) e';
      let '(k, rnd') := next_choice rnd in
      if is_in then
        match v with
        | VSet xs => match nth_mod xs k with
                     | Some y => init_state W more (st ++ [(x, y)])%list rnd'
                     | None => Err ("Init: empty set for " ++ x) end
        | _ => Err ("Init: not a set for " ++ x)
        end
      else init_state W more (st ++ [(x, v)])%list rnd
  end.

Definition apply_commit (st : gstate) (self : value) (g l : list (string * value)) : gstate :=
  let st1 := fold_left (fun s xv => set_assoc (fst xv) (snd xv) s) g st in
  fold_left (fun s xv => match lookup (fst xv) s with
                         | Some f => match vupdate f self (snd xv) with Ok f' => set_assoc (fst xv) f' s | Err _ => s end
                         | None => s end) l st1.

Definition vstore_eqb (a b : list (string * value)) : bool :=
  Nat.eqb (List.length a) (List.length b) &&
  forallb (fun p => String.eqb (fst (fst p)) (fst (snd p)) && veqb (snd (fst p)) (snd (snd p))) (combine a b).

Definition outcome_eqb (a b : outcome) : bool :=
  match a, b with
  | OCommit g l p, OCommit g' l' p' =>
      vstore_eqb g g' && vstore_eqb l l' && Nat.eqb (List.length p) (List.length p') &&
      forallb (fun q => veqb (fst q) (snd q)) (combine p p')
  | OAbort, OAbort | OAssert, OAssert | ODone, ODone | OFallthrough, OFallthrough => true
  | OErr m, OErr m' => String.eqb m m'
  | _, _ => false
  end.

Definition show_nats (ks : list nat) : string := "[" ++ sep ";" (map nat_str ks) ++ "]".

Definition describe (att : nat) (proc lbl : string) (self : value) (st : gstate) (ks : list nat) (og ot : outcome) : string :=
  "#@#MISMATCH attempt=" ++ nat_str att ++ " #@#process=" ++ proc ++ " #@#label=" ++ lbl ++ " #@#self=" ++ show_value self ++ " #@#choices=" ++ show_nats ks ++
  " #@#state=" ++ show_vstore st ++ " #@#go=" ++ show_outcome og ++ " #@#tla=" ++ show_outcome ot ++ " #@#END".

Fixpoint take {A} (n : nat) (xs : list A) : list A * list A :=
  match n, xs with
  | O, _ => ([], xs)
  | S k, [] => let '(a, b) := take k [] in (a, b)
  | S k, x :: r => let '(a, b) := take k r in (x :: a, b)
  end.

Definition proc_ids (W : wsys) (st : gstate) (oset : option expr) : res (list value) :=
  match oset with
  | None => Ok [VDefault]
  | Some s => do v <- eval (w_dtla W) EVAL_FUEL (env_of W st VDefault) (subst [] None [] s0 [] s); as_set v
  end.

(* every (process entry, self) whose pc is one of the focus labels "proc.label" *)
Definition focus_candidates (W : wsys) (st : gstate) (focus : list string)
  : list ((string * (option expr * list (string * (dtree * dtree)))) * value) :=
  flat_map (fun pe =>
              match proc_ids W st (fst (snd pe)) with
              | Ok ids => flat_map (fun self => match e_loc (env_of W st self) "pc" with
                                                | VStr lbl => if mem (fst pe ++ "." ++ lbl) focus then [(pe, self)] else []
                                                | _ => [] end) ids
              | Err _ => []
              end) (w_procs W).

(* one walk of at most n attempts, following the TLA+ model's successor: (first mismatch of each label met,
   labels whose step committed in order). Every other attempt goes to a process standing at a focus label
   (the labels whose obligation broke), when there is one. *)
Fixpoint walk (n : nat) (W : wsys) (focus : list string) (st : gstate) (rnd : list nat) (trace : list string)
         (bad : list (string * string)) {struct n} : list (string * string) * list string :=
  match n with
  | O => (rev bad, rev trace)
  | S n' =>
      let '(coin, rnd0) := next_choice rnd in
      let '(rp, rnd1) := next_choice rnd0 in
      let '(rs, rnd2) := next_choice rnd1 in
      let '(ks, rnd3) := take 4 rnd2 in
      let pick :=
          match (if Nat.even coin then focus_candidates W st focus else []) with
          | c :: cs => match nth_mod (c :: cs) rs with Some (pe, self) => Ok (Some (pe, self)) | None => Ok None end
          | [] =>
            match nth_mod (w_procs W) rp with
            | None => Ok None
            | Some pe => match proc_ids W st (fst (snd pe)) with
                         | Err m => Err ("process set of " ++ fst pe ++ ": " ++ m)
                         | Ok ids => match nth_mod ids rs with Some self => Ok (Some (pe, self)) | None => Ok None end
                         end
            end
          end in
      match pick with
      | Err m => (rev (("", "#@#WALKERROR " ++ m ++ " #@#END") :: bad), rev trace)
      | Ok None => walk n' W focus st rnd3 trace bad
      | Ok (Some ((proc, (_, table)), self)) =>
          let r := env_of W st self in
          match e_loc r "pc" with
          | VStr lbl =>
              match lookup lbl table with
              | None => walk n' W focus st rnd3 trace bad     (* Done / a label of another process sharing the id *)
              | Some (gt, tt0) =>
                  let og := run (w_dgo W) EVAL_FUEL gt r ks in
                  let ot := run (w_dtla W) EVAL_FUEL tt0 r ks in
                  let key := proc ++ "." ++ lbl in
                  let ent := key ++ "/" ++ show_value self ++ "/" ++ sep "." (map nat_str ks) in
                  let bad' := if outcome_eqb og ot then bad
                              else match lookup key bad with
                                   | Some _ => bad
                                   | None => (key, describe (List.length trace) proc lbl self st ks og ot) :: bad end in
                  match ot with
                  | OCommit g l _ => walk n' W focus (apply_commit st self g l) rnd3 (ent :: trace) bad'
                  | _ => walk n' W focus st rnd3 (("~" ++ ent) :: trace) bad'
                  end
              end
          | _ => walk n' W focus st rnd3 trace bad
          end
      end
  end.

Definition one_walk (n : nat) (W : wsys) (focus : list string) (rnd : list nat) : list (string * string) * list string :=
  let '(r0, rnd') := take 8 rnd in
  match init_state W (w_init W) [] r0 with
  | Ok st => walk n W focus st rnd' [] []
  | Err m => ([("", "#@#WALKERROR Init: " ++ m ++ " #@#END")], [])
  end.

(* replay of one stored distinguishing case: both outcomes on the given state *)
Definition replay_case (W : wsys) (proc lbl : string) (self : value) (st : gstate) (ks : list nat) : string :=
  match lookup proc (w_procs W) with
  | Some (_, table) =>
      match lookup lbl table with
      | Some (gt, tt0) =>
          let r := env_of W st self in
          describe O proc lbl self st ks (run (w_dgo W) EVAL_FUEL gt r ks) (run (w_dtla W) EVAL_FUEL tt0 r ks)
      | None => "#@#WALKERROR no such label #@#END"
      end
  | None => "#@#WALKERROR no such process #@#END"
  end.

(* ------------------------------------------------------------------ validation against the real generated Go
   (harness/cmd/c02: the real critical sections under the real Run loop, stepped through the fairness-counter gate).
   One observed attempt: process/label/self, the spec state before, the dictated choices, what the real code did
   (commit | abort | error:<..> | done) and the spec state after. The Go model must predict exactly that. *)
Definition gstate_eqb (a b : gstate) : bool :=
  Nat.eqb (List.length a) (List.length b) &&
  forallb (fun xv => match lookup (fst xv) b with Some w => veqb (snd xv) w | None => false end) a.

Definition prefix (p s : string) : bool := String.eqb (substring 0 (String.length p) s) p.

Definition real_step_ok_with (use_tla : bool) (W : wsys) (proc lbl : string) (self : value) (st : gstate) (ks : list nat)
           (kind : string) (post : gstate) : string :=
  if String.eqb kind "done" || String.eqb kind "finished" then ""
  else
  match lookup proc (w_procs W) with
  | None => "no such process in the model: " ++ proc
  | Some (_, table) =>
      match lookup lbl table with
      | None => "no such label in the model: " ++ lbl
      | Some (gt, tt0) =>
          let og := if use_tla then run (w_dtla W) EVAL_FUEL tt0 (env_of W st self) ks
                    else run (w_dgo W) EVAL_FUEL gt (env_of W st self) ks in
          let bad := "#@#REAL process=" ++ proc ++ " #@#label=" ++ lbl ++ " #@#self=" ++ show_value self ++
                     " #@#choices=" ++ show_nats ks ++ " #@#state=" ++ show_vstore st ++ " #@#real=" ++ kind ++
                     " -> " ++ show_vstore post ++ " #@#gomodel=" ++ show_outcome og ++ " #@#END" in
          match og with
          | OCommit g l _ => if String.eqb kind "commit" && gstate_eqb (apply_commit st self g l) post then "" else bad
          | OAbort => if String.eqb kind "abort" then "" else bad
          | OAssert => if prefix "error:" kind then "" else bad
          | _ => bad
          end
      end
  end.

Definition real_step_ok := real_step_ok_with false.

(* ------------------------------------------------------------------ coverage-guided seed states (search oracle only)
   A seed is a reachable state of the TLA+ model together with the schedule (attempts from Init) that reaches it.
   Seeds are collected off-line by walks that keep every state exercising a new *item*: a (label, decision-tree node,
   truth vector of the atoms of that node's condition) triple. When a label's obligation breaks, both trees are first
   compared on the label's seeds over all small choice vectors. *)
From Coq Require Import NArith PArith FSets.FSetPositive.

Definition coq_string (s : string) : string :=
  (* Coq string literal: double the quotes *)
  """" ++ (fix esc (s : string) : string :=
             match s with
             | EmptyString => EmptyString
             | String c r => if Ascii.eqb c """"%char then String c (String c (esc r)) else String c (esc r)
             end) s ++ """".

Fixpoint coq_value (v : value) : string :=
  match v with
  | VDefault => "VDefault"
  | VBool true => "VBool true" | VBool false => "VBool false"
  | VNum z => "VNum (" ++ string_of_Z z ++ ")"
  | VStr s => "VStr " ++ coq_string s
  | VSet xs => "VSet [" ++ sep "; " (map coq_value xs) ++ "]"
  | VTup xs => "VTup [" ++ sep "; " (map coq_value xs) ++ "]"
  | VFun kvs => "VFun [" ++ sep "; " (map (fun kv => "(" ++ coq_value (fst kv) ++ ", " ++ coq_value (snd kv) ++ ")") kvs) ++ "]"
  end.
Definition coq_gstate (st : gstate) : string :=
  "[" ++ sep "; " (map (fun xv => "(" ++ coq_string (fst xv) ++ ", " ++ coq_value (snd xv) ++ ")") st) ++ "]".

(* atoms of a condition: leaves below /\, \/, ~ *)
Fixpoint atoms (fuel : nat) (e : expr) : list expr :=
  match fuel with
  | O => [e]
  | S f =>
    match e with
    | Nd (TOp B_and) [a; b] => atoms f a ++ atoms f b
    | Nd (TOp B_or) [a; b] => atoms f a ++ atoms f b
    | Nd (TOp B_not) [a] => atoms f a
    | Nd TConj cs => flat_map (atoms f) cs
    | Nd TDisj cs => flat_map (atoms f) cs
    | _ => [e]
    end
  end%list.

Definition atom_digit (D : list opdef) (r : env) (e : expr) : N :=
  match eval D EVAL_FUEL r e with Ok (VBool true) => 1 | Ok (VBool false) => 2 | _ => 3 end%N.

(* the items met by one run of a tree: keys are numbers built from the path; returns (outcome-ish continuation not needed) *)
Fixpoint cov_items (D : list opdef) (t : dtree) (r : env) (ks : list nat) (key : N) (acc : list N) {struct t} : list N :=
  match t with
  | Leaf _ => (key * 4 + 3)%N :: acc
  | Fail _ => acc
  | Branch c t1 t2 =>
      let av := fold_left (fun k a => (k * 4 + atom_digit D r a)%N) (atoms 6 c) (key * 4)%N in
      match eval D EVAL_FUEL r c with
      | Ok (VBool true) => cov_items D t1 r ks (key * 4 + 1)%N (av :: acc)
      | Ok (VBool false) => cov_items D t2 r ks (key * 4 + 2)%N (av :: acc)
      | _ => av :: acc
      end
  | Choice s k =>
      match eval D EVAL_FUEL r s with
      | Ok (VSet (x :: xs)) =>
          let '(c, ks') := next_choice ks in
          match nth_error (x :: xs) (Nat.modulo c (List.length (x :: xs))) with
          | Some v => cov_items D k (with_bound r v) ks' (key * 4 + 1)%N acc
          | None => acc
          end
      | _ => (key * 4 + 2)%N :: acc
      end
  | Either ts =>
      match ts with
      | [] => acc
      | _ =>
        let '(c, ks') := next_choice ks in
        let i := Nat.modulo c (List.length ts) in
        pick (fun t1 => cov_items D t1 r ks' (key * 16 + N.of_nat i)%N acc) acc ts i
      end
  end.

Definition pos_of_key (k : N) : positive := match k with N0 => 1%positive | Npos p => Pos.succ p end.

Fixpoint index_of (x : string) (l : list string) (i : nat) : nat :=
  match l with [] => i | y :: r => if String.eqb x y then i else index_of x r (S i) end.

Definition all_labels (W : wsys) : list string :=
  flat_map (fun pe => map (fun row => fst pe ++ "." ++ fst row) (snd (snd pe))) (w_procs W).

(* coverage walk: like `walk` without comparison; every attempt's items are looked up in `known`; a state that
   exercises a new item is reported as  #@#SEED label=.. #@#attempt=.. #@#key=.. #@#state=<coq term> #@#END  *)
Fixpoint cwalk (n : nat) (W : wsys) (labels : list string) (known : PositiveSet.t) (st : gstate) (rnd : list nat)
         (trace : list string) (out : list string) {struct n} : PositiveSet.t * list string * list string * gstate :=
  match n with
  | O => (known, rev out, rev trace, st)
  | S n' =>
      let '(rp, rnd1) := next_choice rnd in
      let '(rs, rnd2) := next_choice rnd1 in
      let '(ks, rnd3) := take 4 rnd2 in
      match nth_mod (w_procs W) rp with
      | None => (known, rev out, rev trace, st)
      | Some (proc, (oset, table)) =>
          match proc_ids W st oset with
          | Err _ => (known, rev out, rev trace, st)
          | Ok ids =>
              match nth_mod ids rs with
              | None => cwalk n' W labels known st rnd3 trace out
              | Some self =>
                  let r := env_of W st self in
                  match e_loc r "pc" with
                  | VStr lbl =>
                      match lookup lbl table with
                      | None => cwalk n' W labels known st rnd3 trace out
                      | Some (_, tt0) =>
                          let key := proc ++ "." ++ lbl in
                          let k0 := N.of_nat (S (index_of key labels O)) in
                          let items := cov_items (w_dtla W) tt0 r ks k0 [] in
                          let fresh := filter (fun k => negb (PositiveSet.mem (pos_of_key k) known)) items in
                          let known' := fold_left (fun s k => PositiveSet.add (pos_of_key k) s) fresh known in
                          let ent := key ++ "/" ++ show_value self ++ "/" ++ sep "." (map nat_str ks) in
                          let out' := match fresh with
                                      | [] => out
                                      | _ => ("#@#SEED label=" ++ key ++ " #@#self=" ++ show_value self ++ " #@#attempt=" ++ nat_str (List.length trace) ++
                                              " #@#keys=" ++ sep "," (map (fun k => string_of_Z (Z.of_N k)) fresh) ++
                                              " #@#state=" ++ coq_gstate st ++ " #@#END") :: out
                                      end in
                          match run (w_dtla W) EVAL_FUEL tt0 r ks with
                          | OCommit g l _ => cwalk n' W labels known' (apply_commit st self g l) rnd3 (ent :: trace) out'
                          | _ => cwalk n' W labels known' st rnd3 (("~" ++ ent) :: trace) out'
                          end
                      end
                  | _ => cwalk n' W labels known st rnd3 trace out
                  end
              end
          end
      end
  end.

(* several walks in sequence sharing the known set; each from its own start state (None = Init) *)
Fixpoint cwalks (n : nat) (W : wsys) (labels : list string) (known : PositiveSet.t)
         (jobs : list (option gstate * list nat)) (acc : list string) : list string :=
  match jobs with
  | [] => rev acc
  | (start, rnd) :: more =>
      let '(r0, rnd') := take 8 rnd in
      let st0 := match start with
                 | Some s => Ok s
                 | None => init_state W (w_init W) [] r0
                 end in
      match st0 with
      | Err m => cwalks n W labels known more (("#@#WALKERROR Init: " ++ m ++ " #@#END") :: acc)
      | Ok s =>
          let '(known', out, tr, fin) := cwalk n W labels known s rnd' [] [] in
          cwalks n W labels known' more
                 (("#@#TRACE " ++ sep "," tr ++ " #@#FINAL " ++ coq_gstate fin ++ " #@#ENDWALK") :: rev_append out acc)
      end
  end.

(* all choice vectors of length 3 over 0..b-1 *)
Definition choice_vectors (b : nat) : list (list nat) :=
  let r := seq 0 b in
  flat_map (fun a => flat_map (fun c => map (fun d => [a; c; d]) r) r) r.

(* compare both trees of a label on a stored state for every self standing at that label and every small choice vector *)
Definition scan_seed (W : wsys) (proc lbl : string) (st : gstate) (seedid : string) : string :=
  match lookup proc (w_procs W) with
  | None => ""
  | Some (oset, table) =>
      match lookup lbl table, proc_ids W st oset with
      | Some (gt, tt0), Ok ids =>
          let hits :=
              flat_map (fun self =>
                          let r := env_of W st self in
                          match e_loc r "pc" with
                          | VStr l => if String.eqb l lbl then
                                        flat_map (fun ks =>
                                                    let og := run (w_dgo W) EVAL_FUEL gt r ks in
                                                    let ot := run (w_dtla W) EVAL_FUEL tt0 r ks in
                                                    if outcome_eqb og ot then [] else
                                                      [describe O proc lbl self st ks og ot ++ "#@#SEEDID " ++ seedid ++ " #@#ENDSEED"])
                                                 (choice_vectors 3)
                                      else []
                          | _ => []
                          end) ids in
          match hits with [] => "" | h :: _ => h end
      | _, _ => ""
      end
  end.

(* the state reached from Init by a stored schedule of attempts (process, self, choices), following the TLA+ model *)
Fixpoint replay_sched (W : wsys) (st : gstate) (sched : list (string * value * list nat)) : gstate :=
  match sched with
  | [] => st
  | (key, self, ks) :: more =>
      let st' :=
          match fold_left (fun acc pe =>
                             match acc with
                             | Some _ => acc
                             | None => fold_left (fun a row => match a with Some _ => a | None =>
                                                     if String.eqb (fst pe ++ "." ++ fst row) key then Some (snd (snd row)) else None end)
                                                 (snd (snd pe)) None
                             end) (w_procs W) None with
          | Some tt0 => match run (w_dtla W) EVAL_FUEL tt0 (env_of W st self) ks with
                        | OCommit g l _ => apply_commit st self g l
                        | _ => st
                        end
          | None => st
          end in
      replay_sched W st' more
  end.

(* ------------------------------------------------------------------ real generated Go observed through harness/steplib
   (harness/cmd/c02s, harness/cmd/c16): the observation gives the spec's global variables and the stepping archetype's
   local resources; they are laid over the model's initial state (only the stepping process's own per-process components
   are read by its trees). Choices: the real code's element order is not the model's, so the model must reproduce the
   observed attempt for SOME choice vector within the observed ceilings. *)
Definition tla_local_target (locals : list string) (I : instance) (res : string) : string * bool :=
  (* TLA+ variable holding the Go local resource, and whether it is a per-process variable *)
  match lookup res (i_binds I) with
  | Some (mkBind (TgtLocal v) _) => (v, true)
  | Some (mkBind (TgtGlobal v) _) => (v, false)
  | Some (mkBind (TgtExpr _) _) => ("", false)      (* a value parameter the instance fixes: no TLA+ variable *)
  | _ => let v := strip_prefix (i_arch I) res in (v, mem v locals)
  end.

Definition set_comp (x : string) (self v : value) (st : gstate) : gstate :=
  match lookup x st with
  | Some f => match vupdate f self v with Ok f' => set_assoc x f' st | Err _ => st end
  | None => st
  end.

Definition obs_state (locals : list string) (I : instance) (self : value) (base : gstate)
           (globals : list (string * value)) (locs : list (string * value)) : gstate :=
  let st1 := fold_left (fun s xv => set_assoc (fst xv) (snd xv) s) globals base in
  fold_left (fun s rv =>
               let '(res, v) := rv in
               if String.eqb res ".pc" then
                 match v with VStr l => set_comp "pc" self (VStr (tla_label I l)) s | _ => s end
               else if String.eqb res ".stack" then s
               else let '(x, per) := tla_local_target locals I res in
                    if String.eqb x "" then s
                    else if per then set_comp x self v s else set_assoc x v s) locs st1.

Definition real_obs_ok (W : wsys) (locals : list string) (I : instance) (proc lbl : string) (self : value) (base : gstate)
           (gpre : list (string * value)) (lpre : list (string * value)) (cands : list (list nat)) (kind : string)
           (gpost : list (string * value)) (lpost : list (string * value)) : string :=
  let pre := obs_state locals I self base gpre lpre in
  let post := obs_state locals I self base gpost lpost in
  if existsb (fun ks => String.eqb (real_step_ok W proc lbl self pre ks kind post) "") cands then ""
  else real_step_ok W proc lbl self pre (hd [] cands) kind post.
