(* C02 — validation of the TLA+-side translator (tools/tla2coq + Lang.v eval + Sem.v symex_tla) against TLC.
   TLC explores the shipped spec (state graph dumped with -dump dot,actionlabels, or simulation traces); props/c02.py
   parses the states and asks, by vm_compute, whether the regenerated TLA+ model has exactly TLC's successors.
   `succ_all` enumerates EVERY resolution of the choices of a decision tree (no choice list). Checking code only. *)
From PGV Require Import C02.Lang C02.Sem C02.Show C02.Walk.
Open Scope list_scope.
Open Scope string_scope.

(* all outcomes of a tree over every resolution of its Choice / Either nodes *)
Fixpoint run_all (D : list opdef) (fuel : nat) (t : dtree) (r : env) {struct t} : list outcome :=
  match t with
  | Leaf l => [run D fuel (Leaf l) r []]
  | Fail m => [OErr ("symbolic execution failed: " ++ m)]
  | Branch c a b =>
      match eval D fuel r c with
      | Ok (VBool true) => run_all D fuel a r
      | Ok (VBool false) => run_all D fuel b r
      | Ok _ => [OErr "condition is not a boolean"]
      | Err m => [OErr m]
      end
  | Choice s k =>
      match eval D fuel r s with
      | Ok (VSet xs) => flat_map (fun v => run_all D fuel k (with_bound r v)) xs
      | Ok _ => [OErr "choice over a non-set"]
      | Err m => [OErr m]
      end
  | Either ts => flat_map (fun t1 => run_all D fuel t1 r) ts
  end.

Fixpoint gmem (s : gstate) (l : list gstate) : bool :=
  match l with [] => false | x :: r => if gstate_eqb s x then true else gmem s r end.
Fixpoint gdedup (l : list gstate) : list gstate :=
  match l with [] => [] | x :: r => if gmem x r then gdedup r else x :: gdedup r end.

(* (successor states, diagnostics: assertion failures and evaluation errors met) of one process instance at st *)
Definition succ_of (W : wsys) (st : gstate) (proc : string) (table : list (string * (dtree * dtree))) (self : value)
  : list (string * gstate) * list string :=
  let r := env_of W st self in
  match e_loc r "pc" with
  | VStr lbl =>
      match lookup lbl table with
      | None => ([], [])
      | Some (_, tt0) =>
          let outs := run_all (w_dtla W) EVAL_FUEL tt0 r in
          let tag := proc ++ "." ++ lbl ++ "(" ++ show_value self ++ ")" in
          (flat_map (fun o => match o with OCommit g l _ => [(tag, apply_commit st self g l)] | _ => [] end) outs,
           flat_map (fun o => match o with
                              | OAssert => [tag ++ ": assertion fails"]
                              | OErr m => [tag ++ ": " ++ m]
                              | _ => [] end) outs)
      end
  | _ => ([], [])
  end.

Definition succ_all (W : wsys) (st : gstate) : list (string * gstate) * list string :=
  fold_left (fun acc pe =>
               let '(proc, (oset, table)) := pe in
               match proc_ids W st oset with
               | Ok ids => fold_left (fun a self => let '(s, d) := succ_of W st proc table self in ((fst a ++ s)%list, (snd a ++ d)%list)) ids acc
               | Err m => (fst acc, app (snd acc) [("process set of " ++ proc ++ ": " ++ m)%string])
               end) (w_procs W) ([], []).

(* TLC's successors of st (self loops removed on both sides: TLC's Terminating stuttering) against the model's *)
Definition check_state (W : wsys) (id : string) (st : gstate) (tlc : list gstate) : string :=
  let '(ms, diag) := succ_all W st in
  let mine := filter (fun x => negb (gstate_eqb (snd x) st)) ms in
  let theirs := filter (fun x => negb (gstate_eqb x st)) tlc in
  let extra := filter (fun x => negb (gmem (snd x) theirs)) mine in          (* model steps TLC's next-state relation rejects *)
  let missing := filter (fun x => negb (gmem x (map snd mine))) theirs in    (* TLC steps the model does not have *)
  match extra, missing, diag with
  | [], [], [] => ""
  | _, _, _ =>
      "#@#TLCDIFF state=" ++ id ++
      match extra with (tag, s) :: _ => " #@#model_only=" ++ tag ++ " -> " ++ show_vstore s | [] => "" end ++
      match missing with s :: _ => " #@#tlc_only=" ++ show_vstore s | [] => "" end ++
      match diag with d :: _ => " #@#model_error=" ++ d | [] => "" end ++
      " #@#counts=" ++ nat_str (List.length extra) ++ "/" ++ nat_str (List.length missing) ++ "/" ++ nat_str (List.length diag) ++ " #@#END"
  end.

(* one step of a TLC trace: s' must be among the model's successors of s (or equal to s: stuttering) *)
Definition check_step (W : wsys) (id : string) (st st' : gstate) : string :=
  if gstate_eqb st st' then ""
  else let '(ms, _) := succ_all W st in
       if gmem st' (map snd ms) then ""
       else "#@#TLCDIFF step=" ++ id ++ " #@#tlc_only=" ++ show_vstore st' ++ " #@#from=" ++ show_vstore st ++ " #@#END".

(* initial states: all resolutions of the `\in` conjuncts of Init *)
Fixpoint init_all (W : wsys) (inits : list (string * (bool * expr))) (st : gstate) : list gstate :=
  match inits with
  | [] => [st]
  | (x, (is_in, e)) :: more =>
      match eval (w_dtla W) EVAL_FUEL (env_of W st VDefault) (subst [] None [] s0 [] e) with
      | Ok v => if is_in then match v with
                              | VSet xs => flat_map (fun y => init_all W more (st ++ [(x, y)])%list) xs
                              | _ => [] end
                else init_all W more (st ++ [(x, v)])%list
      | Err _ => []
      end
  end.
Definition check_init (W : wsys) (tlc : list gstate) : string :=
  let mine := init_all W (w_init W) [] in
  if Nat.eqb (List.length (gdedup mine)) (List.length (gdedup tlc)) && forallb (fun s => gmem s tlc) mine && forallb (fun s => gmem s mine) tlc
  then "" else "#@#TLCDIFF initial states differ: model " ++ nat_str (List.length mine) ++ " tlc " ++ nat_str (List.length tlc) ++
               match mine with s :: _ => " #@#model_init=" ++ show_vstore s | [] => "" end ++ " #@#END".
(* the first state of a TLC simulation trace must be one of the model's initial states *)
Definition check_init_mem (W : wsys) (id : string) (st : gstate) : string :=
  if gmem st (init_all W (w_init W) []) then ""
  else "#@#TLCDIFF trace " ++ id ++ " starts outside the model's initial states #@#tlc_only=" ++ show_vstore st ++ " #@#END".
