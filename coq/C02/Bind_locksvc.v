(* C02 — locksvc: hand transcription of the mapping macros of systems/locksvc/locksvc.tla and of the
   `instance` declarations (which archetype parameter is which spec variable, through which macro).

     mapping macro ReliableLink {
         read  { await BagCardinality($variable) > 0;
                 with (readMsg \in BagToSet($variable)) {
                     $variable := $variable (-) SetToBag({readMsg});
                     yield readMsg; }; }
         write { yield $variable (+) SetToBag({$value}); } }

     fair process (Server \in ServerSet) == instance AServer(ref network[_])
         mapping network[_] via ReliableLink;
     fair process (client \in ClientSet) == instance AClient(ref network[_], ref hasLock[_])
         mapping network[_] via ReliableLink;                                                   *)
From PGV Require Import C02.Lang C02.Sem.
Open Scope string_scope.
Open Scope list_scope.
Open Scope Z_scope.

Definition ReliableLink : macro := mkMacro
  [ MAwait (EOp B_gt [EOp B_BagCardinality [EVar "$variable"]; ENum 0]);
    MWithSet "readMsg" (EOp B_BagToSet [EVar "$variable"]);
    MAssign (EOp B_bagminus [EVar "$variable"; EOp B_SetToBag [ESetEnum [EVar "readMsg"]]]);
    MYield (EVar "readMsg") ]
  [ MYield (EOp B_bagplus [EVar "$variable"; EOp B_SetToBag [ESetEnum [EVar "$value"]]]) ].

(* TLA+ process name -> instance *)
Definition locksvc_instances : list (string * instance) :=
  [ ("Server", mkInst "AServer"
        [("AServer.network", mkBind (TgtGlobal "network") (Some ReliableLink))] []);
    ("client", mkInst "AClient"
        [("AClient.network", mkBind (TgtGlobal "network") (Some ReliableLink));
         ("AClient.hasLock", mkBind (TgtGlobal "hasLock") None)] []) ].

(* TLA+-only temporaries projected away (none in this spec) *)
Definition locksvc_scratch : list string := [].
