(* C02 — value universe, expression AST and evaluator shared by BOTH regenerated models
   (Gen/<sys>_go.v written by tools/go2coq, Gen/<sys>_tla.v written by tools/tla2coq).
   Definitions only (no proofs): this file must still evaluate when a proof breaks.

   The per-label obligations compare decision trees syntactically, so no law about the
   operators below is used by any theorem; their definitions matter for the differential
   execution (search oracle, validation against the real Go / TLC). *)
From Coq Require Export List ZArith String Bool Ascii.
Export ListNotations.
Open Scope string_scope.
Open Scope list_scope.
Open Scope Z_scope.

(* ------------------------------------------------------------------ values *)

(* canonical forms: VSet strictly sorted by vcmp; VFun keys strictly sorted; a function whose
   domain is 1..n (n >= 0) is ALWAYS represented as VTup (TLA+: <<a,b>> = (1:>a @@ 2:>b)) *)
Inductive value :=
| VDefault                      (* defaultInitValue *)
| VBool (b : bool)
| VNum (z : Z)
| VStr (s : string)
| VSet (xs : list value)
| VTup (xs : list value)
| VFun (kvs : list (value * value)).

Inductive res (A : Type) := Ok (a : A) | Err (msg : string).
Arguments Ok {A} a.
Arguments Err {A} msg.

Definition bind {A B} (r : res A) (f : A -> res B) : res B :=
  match r with Ok a => f a | Err m => Err m end.
Notation "'do' x <- r ; k" := (bind r (fun x => k)) (at level 200, x name, r at level 100, k at level 200).

Fixpoint mapM {A B} (f : A -> res B) (xs : list A) : res (list B) :=
  match xs with
  | [] => Ok []
  | x :: r => do y <- f x; do ys <- mapM f r; Ok (y :: ys)
  end.

Definition rank (v : value) : nat :=
  match v with VDefault => 0 | VBool _ => 1 | VNum _ => 2 | VStr _ => 3 | VSet _ => 4 | VTup _ => 5 | VFun _ => 6 end%nat.

Fixpoint vcmp (a b : value) {struct a} : comparison :=
  match a, b with
  | VDefault, VDefault => Eq
  | VBool x, VBool y => match x, y with false, true => Lt | true, false => Gt | _, _ => Eq end
  | VNum x, VNum y => Z.compare x y
  | VStr x, VStr y => String.compare x y
  | VSet xs, VSet ys =>
      (fix go (xs ys : list value) {struct xs} : comparison :=
         match xs, ys with
         | [], [] => Eq | [], _ :: _ => Lt | _ :: _, [] => Gt
         | x :: xs', y :: ys' => match vcmp x y with Eq => go xs' ys' | c => c end
         end) xs ys
  | VTup xs, VTup ys =>
      (fix go (xs ys : list value) {struct xs} : comparison :=
         match xs, ys with
         | [], [] => Eq | [], _ :: _ => Lt | _ :: _, [] => Gt
         | x :: xs', y :: ys' => match vcmp x y with Eq => go xs' ys' | c => c end
         end) xs ys
  | VFun xs, VFun ys =>
      (fix go (xs ys : list (value * value)) {struct xs} : comparison :=
         match xs, ys with
         | [], [] => Eq | [], _ :: _ => Lt | _ :: _, [] => Gt
         | (k1, v1) :: xs', (k2, v2) :: ys' =>
             match vcmp k1 k2 with
             | Eq => match vcmp v1 v2 with Eq => go xs' ys' | c => c end
             | c => c end
         end) xs ys
  | _, _ => Nat.compare (rank a) (rank b)
  end.

Definition veqb (a b : value) : bool := match vcmp a b with Eq => true | _ => false end.

(* sorted duplicate-free lists as sets *)
Fixpoint set_insert (v : value) (xs : list value) : list value :=
  match xs with
  | [] => [v]
  | x :: r => match vcmp v x with Lt => v :: xs | Eq => xs | Gt => x :: set_insert v r end
  end.
Definition set_of_list (xs : list value) : list value := fold_right set_insert [] xs.
Fixpoint set_mem (v : value) (xs : list value) : bool :=
  match xs with [] => false | x :: r => match vcmp v x with Eq => true | Lt => false | Gt => set_mem v r end end.
Definition set_union (a b : list value) := fold_right set_insert b a.
Definition set_diff (a b : list value) := filter (fun x => negb (set_mem x b)) a.
Definition set_inter (a b : list value) := filter (fun x => set_mem x b) a.
Definition set_subseteq (a b : list value) := forallb (fun x => set_mem x b) a.

(* finite functions: association lists sorted by key, later binding of an equal key wins *)
Fixpoint fun_insert (k v : value) (kvs : list (value * value)) : list (value * value) :=
  match kvs with
  | [] => [(k, v)]
  | (k', v') :: r => match vcmp k k' with Lt => (k, v) :: kvs | Eq => (k, v) :: r | Gt => (k', v') :: fun_insert k v r end
  end.
Fixpoint fun_lookup (k : value) (kvs : list (value * value)) : option value :=
  match kvs with [] => None | (k', v) :: r => if veqb k k' then Some v else fun_lookup k r end.

(* keys exactly 1..n in order? *)
Fixpoint is_seq_from (i : Z) (kvs : list (value * value)) : bool :=
  match kvs with
  | [] => true
  | (VNum k, _) :: r => (k =? i) && is_seq_from (i + 1) r
  | _ => false
  end.
(* the canonical value of a function given as any association list (first binding of a key wins) *)
Definition mkfun (kvs : list (value * value)) : value :=
  let s := fold_right (fun kv acc => fun_insert (fst kv) (snd kv) acc) [] kvs in
  if is_seq_from 1 s then VTup (map snd s) else VFun s.

Fixpoint index_from (i : Z) (xs : list value) : list (value * value) :=
  match xs with [] => [] | x :: r => (VNum i, x) :: index_from (i + 1) r end.
(* view of any function-like value as a sorted association list *)
Definition as_fun (v : value) : res (list (value * value)) :=
  match v with
  | VTup xs => Ok (index_from 1 xs)
  | VFun kvs => Ok kvs
  | _ => Err "not a function"
  end.
Definition as_set (v : value) : res (list value) :=
  match v with VSet xs => Ok xs | _ => Err "not a set" end.
Definition as_bool (v : value) : res bool :=
  match v with VBool b => Ok b | _ => Err "not a boolean" end.
Definition as_num (v : value) : res Z :=
  match v with VNum z => Ok z | _ => Err "not a number" end.
Definition as_tup (v : value) : res (list value) :=
  match v with VTup xs => Ok xs | _ => Err "not a sequence" end.

Definition vapply (f a : value) : res value :=
  match f with
  | VTup xs => match a with
               | VNum i => if (1 <=? i) && (i <=? Z.of_nat (List.length xs))
                           then match nth_error xs (Z.to_nat (i - 1)) with Some v => Ok v | None => Err "apply: index" end
                           else Err "apply: index out of the domain of a sequence"
               | _ => Err "apply: sequence applied to a non-number"
               end
  | VFun kvs => match fun_lookup a kvs with Some v => Ok v | None => Err "apply: argument not in the domain" end
  | _ => Err "apply: not a function"
  end.

Definition vdomain (f : value) : res value :=
  match f with
  | VTup xs => Ok (VSet (map fst (index_from 1 xs)))
  | VFun kvs => Ok (VSet (map fst kvs))
  | _ => Err "DOMAIN of a non-function"
  end.

(* [f EXCEPT ![a] = v]; a outside the domain leaves f unchanged (TLC) *)
Definition vupdate (f a v : value) : res value :=
  do kvs <- as_fun f;
  match fun_lookup a kvs with
  | Some _ => Ok (mkfun (fun_insert a v kvs))
  | None => Ok f
  end.

Fixpoint zrange (lo : Z) (n : nat) : list value :=
  match n with O => [] | S k => VNum lo :: zrange (lo + 1) k end.

(* cartesian product of a list of lists *)
Fixpoint cart (xss : list (list value)) : list (list value) :=
  match xss with
  | [] => [[]]
  | xs :: r => let rest := cart r in flat_map (fun x => map (fun t => x :: t) rest) xs
  end.

Fixpoint powerset (xs : list value) : list (list value) :=
  match xs with
  | [] => [[]]
  | x :: r => let p := powerset r in p ++ map (fun s => x :: s) p
  end.

Fixpoint string_of_pos_fuel (n : nat) (z : Z) (acc : string) : string :=
  match n with
  | O => acc
  | S k => let d := Z.modulo z 10 in
           let c := ascii_of_nat (48 + Z.to_nat d) in
           if z <? 10 then String c acc else string_of_pos_fuel k (Z.div z 10) (String c acc)
  end.
Definition string_of_Z (z : Z) : string :=
  if z <? 0 then String "-" (string_of_pos_fuel 40 (- z) "") else string_of_pos_fuel 40 z "".

(* ------------------------------------------------------------------ builtin operators *)

Inductive bop :=
| B_eq | B_neq | B_and | B_or | B_implies | B_equiv | B_not
| B_in | B_notin | B_cup | B_cap | B_setminus | B_subseteq | B_SUBSET | B_UNION | B_DOMAIN
| B_plus | B_minus | B_times | B_div | B_mod | B_exp | B_neg | B_lt | B_le | B_gt | B_ge | B_dotdot
| B_Len | B_Append | B_Head | B_Tail | B_concat | B_SubSeq | B_Seq
| B_Cardinality | B_IsFiniteSet
| B_mapsto1 (* :> *) | B_atat (* @@ *) | B_ToString | B_Assert | B_PrintT | B_Print
| B_BagCardinality | B_BagToSet | B_SetToBag | B_bagplus | B_bagminus | B_BagIn | B_EmptyBag | B_CopiesIn | B_IsABag
| B_Nat | B_Int | B_BOOLEAN | B_STRING
| B_default (* defaultInitValue *).

Definition vb (b : bool) := Ok (VBool b).

Definition bag_add (a b : list (value * value)) : res (list (value * value)) :=
  (* a (+) b *)
  let fix go (b : list (value * value)) (acc : list (value * value)) : res (list (value * value)) :=
    match b with
    | [] => Ok acc
    | (k, VNum n) :: r =>
        match fun_lookup k acc with
        | Some (VNum m) => go r (fun_insert k (VNum (m + n)) acc)
        | Some _ => Err "bag: count is not a number"
        | None => go r (fun_insert k (VNum n) acc)
        end
    | _ => Err "bag: count is not a number"
    end in go b a.

Definition bag_sub (a b : list (value * value)) : res (list (value * value)) :=
  (* a (-) b : counts subtracted, entries with count <= 0 dropped *)
  mapM (fun kv => match kv with
                  | (k, VNum m) => match fun_lookup k b with
                                   | Some (VNum n) => Ok (k, VNum (m - n))
                                   | Some _ => Err "bag: count is not a number"
                                   | None => Ok (k, VNum m) end
                  | _ => Err "bag: count is not a number" end) a.

Definition pos_entries (kvs : list (value * value)) :=
  filter (fun kv => match snd kv with VNum n => 0 <? n | _ => true end) kvs.

Definition apply_op (o : bop) (args : list value) : res value :=
  match o, args with
  | B_eq, [a; b] => vb (veqb a b)
  | B_neq, [a; b] => vb (negb (veqb a b))
  | B_equiv, [VBool a; VBool b] => vb (Bool.eqb a b)
  | B_not, [VBool a] => vb (negb a)
  | B_in, [a; VSet s] => vb (set_mem a s)
  | B_notin, [a; VSet s] => vb (negb (set_mem a s))
  | B_cup, [VSet a; VSet b] => Ok (VSet (set_union a b))
  | B_cap, [VSet a; VSet b] => Ok (VSet (set_inter a b))
  | B_setminus, [VSet a; VSet b] => Ok (VSet (set_diff a b))
  | B_subseteq, [VSet a; VSet b] => vb (set_subseteq a b)
  | B_SUBSET, [VSet a] => Ok (VSet (set_of_list (map VSet (powerset a))))
  | B_UNION, [VSet a] =>
      do ss <- mapM as_set a; Ok (VSet (fold_right set_union [] ss))
  | B_DOMAIN, [f] => vdomain f
  | B_plus, [VNum a; VNum b] => Ok (VNum (a + b))
  | B_minus, [VNum a; VNum b] => Ok (VNum (a - b))
  | B_times, [VNum a; VNum b] => Ok (VNum (a * b))
  | B_div, [VNum a; VNum b] => if b =? 0 then Err "division by zero" else Ok (VNum (Z.div a b))
  | B_mod, [VNum a; VNum b] => if b <=? 0 then Err "modulus not positive" else Ok (VNum (Z.modulo a b))
  | B_exp, [VNum a; VNum b] => if b <? 0 then Err "negative exponent" else Ok (VNum (Z.pow a b))
  | B_neg, [VNum a] => Ok (VNum (- a))
  | B_lt, [VNum a; VNum b] => vb (a <? b)
  | B_le, [VNum a; VNum b] => vb (a <=? b)
  | B_gt, [VNum a; VNum b] => vb (b <? a)
  | B_ge, [VNum a; VNum b] => vb (b <=? a)
  | B_dotdot, [VNum a; VNum b] => Ok (VSet (zrange a (Z.to_nat (b - a + 1))))
  | B_Len, [VTup xs] => Ok (VNum (Z.of_nat (List.length xs)))
  | B_Len, [VStr s] => Ok (VNum (Z.of_nat (String.length s)))
  | B_Append, [VTup xs; v] => Ok (VTup (xs ++ [v]))
  | B_Head, [VTup (x :: _)] => Ok x
  | B_Tail, [VTup (_ :: r)] => Ok (VTup r)
  | B_concat, [VTup a; VTup b] => Ok (VTup (a ++ b))
  | B_concat, [VStr a; VStr b] => Ok (VStr (a ++ b)%string)
  | B_SubSeq, [VTup xs; VNum m; VNum n] =>
      if n <? m then Ok (VTup [])
      else if (m <? 1) || (Z.of_nat (List.length xs) <? n) then Err "SubSeq out of range"
      else Ok (VTup (firstn (Z.to_nat (n - m + 1)) (skipn (Z.to_nat (m - 1)) xs)))
  | B_Cardinality, [VSet a] => Ok (VNum (Z.of_nat (List.length a)))
  | B_IsFiniteSet, [VSet _] => vb true
  | B_mapsto1, [k; v] => Ok (mkfun [(k, v)])
  | B_atat, [f; g] =>
      do a <- as_fun f; do b <- as_fun g; Ok (mkfun (a ++ b))
  | B_ToString, [VNum z] => Ok (VStr (string_of_Z z))
  | B_ToString, [VStr s] => Ok (VStr s)
  | B_BagCardinality, [b] =>
      do kvs <- as_fun b;
      do ns <- mapM (fun kv => as_num (snd kv)) kvs; Ok (VNum (fold_right Z.add 0 ns))
  | B_BagToSet, [b] => vdomain b
  | B_SetToBag, [VSet s] => Ok (mkfun (map (fun x => (x, VNum 1)) s))
  | B_bagplus, [a; b] => do x <- as_fun a; do y <- as_fun b; do r <- bag_add x y; Ok (mkfun r)
  | B_bagminus, [a; b] => do x <- as_fun a; do y <- as_fun b; do r <- bag_sub x y; Ok (mkfun (pos_entries r))
  | B_BagIn, [e; b] => do kvs <- as_fun b; vb (match fun_lookup e kvs with Some _ => true | None => false end)
  | B_CopiesIn, [e; b] => do kvs <- as_fun b; Ok (match fun_lookup e kvs with Some n => n | None => VNum 0 end)
  | B_EmptyBag, [] => Ok (VTup [])
  | B_IsABag, [b] => do kvs <- as_fun b; vb (forallb (fun kv => match snd kv with VNum n => 0 <? n | _ => false end) kvs)
  | B_BOOLEAN, [] => Ok (VSet [VBool false; VBool true])
  | B_default, [] => Ok VDefault
  | _, _ => Err "operator applied to arguments outside its domain"
  end.

(* ------------------------------------------------------------------ expressions *)

(* binding pattern of a quantifier bound: x \in S  or  <<a,b>> \in S *)
Inductive pat := PVar (x : string) | PTup (xs : list string).

(* Rose tree: a tag (all non-recursive data) and the list of sub-expressions. *)
Inductive lit := LNum (z : Z) | LStr (s : string) | LBool (b : bool).
Definition lit_value (l : lit) : value :=
  match l with LNum z => VNum z | LStr s => VStr s | LBool b => VBool b end.

Inductive tag :=
| TLit (l : lit)                   (* literal *)
| TVar (x : string)                (* named variable: Go temporary / closure parameter; TLA+ bound identifier *)
| TBound (lvl : nat)               (* value taken at the lvl-th enclosing Choice node of the decision tree *)
| TGlobal (x : string)             (* global variable, pre-state *)
| TLocal (x : string)              (* component of a per-process variable belonging to self, pre-state *)
| TState (x : string)              (* TLA+ side before symbolic execution: unprimed VARIABLE *)
| TPrime (x : string)              (* TLA+ side before symbolic execution: primed VARIABLE *)
| TSelf
| TConst (x : string)              (* CONSTANT x applied to the children (none for arity 0) *)
| TCall (f : string)               (* user operator applied to the children *)
| TOp (o : bop)                    (* builtin applied to the children *)
| TTuple | TSetEnum
| TRecord (fields : list string)   (* children = field values *)
| TRecordSet (fields : list string)
| TApp                             (* [f; a] *)
| TIf                              (* [c; t; e] *)
| TLet (x : string) (params : list string)   (* [definition body; scope] *)
| TCase (has_other : bool)         (* [c1; e1; c2; e2; ...; other?] *)
| TFunc (ps : list pat)            (* sets ++ [body]   [x \in S, <<a,b>> \in T |-> body] *)
| TFuncSet                         (* [A; B]   [A -> B] *)
| TExcept (arities : list nat)     (* f :: for each substitution: its path (arity many) then its value; @ = TAt *)
| TAt
| TExists (ps : list pat) | TForall (ps : list pat)    (* sets ++ [body] *)
| TFilter (p : pat)                (* [S; pred]   {x \in S : pred} *)
| TSetMap (ps : list pat)          (* sets ++ [body]   {body : x \in S, ...} *)
| TChoose (p : pat)                (* [S; pred] *)
| TCross                           (* S1 \X S2 ... *)
| TConj | TDisj                    (* bulleted /\ and \/ lists (TLA+ side) *)
| TUnchanged                       (* UNCHANGED <<...>> (TLA+ side, actions only) *)
| TUnsupported (what : string).    (* Go: func() { panic("unsupported operator") }() *)

Inductive expr := Nd (t : tag) (cs : list expr).

(* smart constructors used by the translators *)
Definition ENum (z : Z) := Nd (TLit (LNum z)) [].
Definition EStr (s : string) := Nd (TLit (LStr s)) [].
Definition EBool (b : bool) := Nd (TLit (LBool b)) [].
Definition EVar x := Nd (TVar x) [].
Definition EBound l := Nd (TBound l) [].
Definition EGlobal x := Nd (TGlobal x) [].
Definition ELocal x := Nd (TLocal x) [].
Definition EState x := Nd (TState x) [].
Definition EPrime x := Nd (TPrime x) [].
Definition ESelf := Nd TSelf [].
Definition EConst x args := Nd (TConst x) args.
Definition ECall f args := Nd (TCall f) args.
Definition EOp o args := Nd (TOp o) args.
Definition ETuple es := Nd TTuple es.
Definition ESetEnum es := Nd TSetEnum es.
Definition ERecord (fs : list (string * expr)) := Nd (TRecord (map fst fs)) (map snd fs).
Definition ERecordSet (fs : list (string * expr)) := Nd (TRecordSet (map fst fs)) (map snd fs).
Definition EApp f a := Nd TApp [f; a].
Definition EIf c t e := Nd TIf [c; t; e].
Definition ELet x ps d b := Nd (TLet x ps) [d; b].
Definition ECase (arms : list (expr * expr)) (other : option expr) :=
  Nd (TCase (match other with Some _ => true | None => false end))
    (flat_map (fun a => [fst a; snd a]) arms ++ match other with Some o => [o] | None => [] end).
Definition EFunc (bs : list (pat * expr)) body := Nd (TFunc (map fst bs)) (map snd bs ++ [body]).
Definition EFuncSet a b := Nd TFuncSet [a; b].
Definition EExcept f (subs : list (list expr * expr)) :=
  Nd (TExcept (map (fun s => List.length (fst s)) subs)) (f :: flat_map (fun s => fst s ++ [snd s]) subs).
Definition EAt := Nd TAt [].
Definition EExists (bs : list (pat * expr)) body := Nd (TExists (map fst bs)) (map snd bs ++ [body]).
Definition EForall (bs : list (pat * expr)) body := Nd (TForall (map fst bs)) (map snd bs ++ [body]).
Definition EFilter p s body := Nd (TFilter p) [s; body].
Definition ESetMap body (bs : list (pat * expr)) := Nd (TSetMap (map fst bs)) (map snd bs ++ [body]).
Definition EChoose p s body := Nd (TChoose p) [s; body].
Definition ECross es := Nd TCross es.
Definition EConj es := Nd TConj es.
Definition EDisj es := Nd TDisj es.
Definition EUnchanged es := Nd TUnchanged es.
Definition EUnsupported w := Nd (TUnsupported w) [].

(* ------------------------------------------------------------------ evaluation *)

Definition opdef := (string * (list string * expr))%type.

Record env := mkEnv {
  e_glob : string -> value;                       (* global variables (pre-state) *)
  e_loc : string -> value;                        (* self's component of per-process variables (pre-state) *)
  e_self : value;
  e_const : string -> list value -> res value;    (* CONSTANTs, any arity *)
  e_bound : list value;                           (* values chosen at the enclosing Choice nodes, outermost first *)
  e_vars : list (string * value);                 (* named variables, innermost first *)
  e_ldefs : list opdef;                           (* LET-defined operators with parameters, innermost first *)
  e_at : option value                             (* @ *)
}.

Definition with_vars (r : env) (vs : list (string * value)) : env :=
  mkEnv (e_glob r) (e_loc r) (e_self r) (e_const r) (e_bound r) (vs ++ e_vars r) (e_ldefs r) (e_at r).
Definition with_ldef (r : env) (d : opdef) : env :=
  mkEnv (e_glob r) (e_loc r) (e_self r) (e_const r) (e_bound r) (e_vars r) (d :: e_ldefs r) (e_at r).
Definition with_at (r : env) (v : value) : env :=
  mkEnv (e_glob r) (e_loc r) (e_self r) (e_const r) (e_bound r) (e_vars r) (e_ldefs r) (Some v).
Definition with_bound (r : env) (v : value) : env :=
  mkEnv (e_glob r) (e_loc r) (e_self r) (e_const r) (e_bound r ++ [v]) (e_vars r) (e_ldefs r) (e_at r).

Fixpoint lookup {A} (x : string) (l : list (string * A)) : option A :=
  match l with [] => None | (y, a) :: r => if String.eqb x y then Some a else lookup x r end.

(* bind a pattern to an element *)
Definition bind_pat (p : pat) (v : value) : res (list (string * value)) :=
  match p with
  | PVar x => Ok [(x, v)]
  | PTup xs => match v with
               | VTup vs => if Nat.eqb (List.length xs) (List.length vs) then Ok (rev (combine xs vs))
                            else Err "tuple pattern: wrong length"
               | _ => Err "tuple pattern: not a tuple"
               end
  end.
Fixpoint bind_pats (ps : list pat) (vs : list value) : res (list (string * value)) :=
  match ps, vs with
  | [], [] => Ok []
  | p :: pr, v :: vr => do a <- bind_pat p v; do b <- bind_pats pr vr; Ok (b ++ a)
  | _, _ => Err "bounds: arity"
  end.

Fixpoint split_last {A} (xs : list A) : option (list A * A) :=
  match xs with
  | [] => None
  | [x] => Some ([], x)
  | x :: r => match split_last r with Some (i, l) => Some (x :: i, l) | None => None end
  end.

(* split the children of an EXCEPT after the function: [(path, value)] *)
Fixpoint split_subs (ar : list nat) (cs : list expr) : option (list (list expr * expr)) :=
  match ar with
  | [] => match cs with [] => Some [] | _ => None end
  | n :: r => match skipn n cs with
              | v :: rest => match split_subs r rest with
                             | Some l => Some ((firstn n cs, v) :: l) | None => None end
              | [] => None
              end
  end.

Section Eval.
  Variable D : list opdef.   (* module-level operator definitions *)

  (* fuel bounds the DEPTH of the recursion; out of fuel is a distinct error *)
  Fixpoint eval (fuel : nat) (r : env) (e : expr) {struct fuel} : res value :=
    match e with
    | Nd (TLit l) [] => Ok (lit_value l)       (* literals need no fuel *)
    | _ =>
    match fuel with
    | O => Err "out of fuel"
    | S fuel =>
      let ev := eval fuel in
      (* nested EXCEPT path: [f EXCEPT ![a1][a2].. = v] *)
      let fix upd_path (n : nat) (f : value) (path : list value) (rhs : expr) (r : env) {struct n} : res value :=
          match n with
          | O => Err "except: path too deep"
          | S n =>
            match path with
            | [] => Err "except: empty path"
            | [a] => do kvs <- as_fun f;
                     match fun_lookup a kvs with
                     | Some old => do v <- ev (with_at r old) rhs; Ok (mkfun (fun_insert a v kvs))
                     | None => Ok f
                     end
            | a :: rest => do kvs <- as_fun f;
                           match fun_lookup a kvs with
                           | Some old => do v <- upd_path n old rest rhs r; Ok (mkfun (fun_insert a v kvs))
                           | None => Ok f
                           end
            end
          end in
      let all_bindings (ps : list pat) (sets : list expr) : res (list (list (string * value))) :=
          do svs <- mapM (ev r) sets;
          do ss <- mapM as_set svs;
          mapM (bind_pats ps) (cart ss) in
      match e with
      | Nd t cs =>
        match t, cs with
        | TLit l, [] => Ok (lit_value l)
        | TVar x, [] => match lookup x (e_vars r) with Some v => Ok v | None => Err ("unbound variable " ++ x)%string end
        | TBound l, [] => match nth_error (e_bound r) l with Some v => Ok v | None => Err "unbound choice" end
        | TGlobal x, [] => Ok (e_glob r x)
        | TLocal x, [] => Ok (e_loc r x)
        | TState x, [] => Err ("state variable outside symbolic execution: " ++ x)%string
        | TPrime x, [] => Err ("primed variable outside symbolic execution: " ++ x)%string
        | TSelf, [] => Ok (e_self r)
        | TConst x, args => do vs <- mapM (ev r) args; e_const r x vs
        | TCall f, args =>
            do vs <- mapM (ev r) args;
            match lookup f (e_ldefs r) with
            | Some (ps, body) =>
                if Nat.eqb (List.length ps) (List.length vs) then ev (with_vars r (rev (combine ps vs))) body
                else Err ("arity of local operator " ++ f)%string
            | None =>
              match lookup f D with
              | Some (ps, body) =>
                  if Nat.eqb (List.length ps) (List.length vs)
                  then ev (mkEnv (e_glob r) (e_loc r) (e_self r) (e_const r) (e_bound r) (rev (combine ps vs)) [] None) body
                  else Err ("arity of operator " ++ f)%string
              | None => Err ("unknown operator " ++ f)%string
              end
            end
        | TOp B_and, [a; b] => do x <- ev r a; do p <- as_bool x; if p then (do y <- ev r b; do q <- as_bool y; vb q) else vb false
        | TOp B_or, [a; b] => do x <- ev r a; do p <- as_bool x; if p then vb true else (do y <- ev r b; do q <- as_bool y; vb q)
        | TOp B_implies, [a; b] => do x <- ev r a; do p <- as_bool x; if p then (do y <- ev r b; do q <- as_bool y; vb q) else vb true
        | TOp B_in, [a; Nd (TOp B_Nat) []] => do x <- ev r a; vb (match x with VNum z => 0 <=? z | _ => false end)
        | TOp B_in, [a; Nd (TOp B_Int) []] => do x <- ev r a; vb (match x with VNum z => true | _ => false end)
        | TOp B_in, [a; Nd (TOp B_STRING) []] => do x <- ev r a; vb (match x with VStr _ => true | _ => false end)
        | TOp B_in, [a; Nd (TOp B_Seq) [s]] =>
            do x <- ev r a; do sv <- ev r s; do ss <- as_set sv;
            match x with VTup xs => vb (forallb (fun y => set_mem y ss) xs) | _ => vb false end
        | TOp o, args => do vs <- mapM (ev r) args; apply_op o vs
        | TTuple, es => do vs <- mapM (ev r) es; Ok (VTup vs)
        | TSetEnum, es => do vs <- mapM (ev r) es; Ok (VSet (set_of_list vs))
        | TRecord fs, es =>
            do vs <- mapM (ev r) es;
            if Nat.eqb (List.length fs) (List.length vs) then Ok (mkfun (combine (map VStr fs) vs)) else Err "record: arity"
        | TRecordSet fs, es =>
            do vs <- mapM (ev r) es; do ss <- mapM as_set vs;
            if Nat.eqb (List.length fs) (List.length ss)
            then Ok (VSet (set_of_list (map (fun t => mkfun (combine (map VStr fs) t)) (cart ss))))
            else Err "record set: arity"
        | TApp, [f; a] => do fv <- ev r f; do av <- ev r a; vapply fv av
        | TIf, [c; a; b] => do cv <- ev r c; do p <- as_bool cv; if p then ev r a else ev r b
        | TLet x [], [d; b] => do dv <- ev r d; ev (with_vars r [(x, dv)]) b
        | TLet x ps, [d; b] => ev (with_ldef r (x, (ps, d))) b
        | TCase has_other, cs =>
            (fix arms (cs : list expr) : res value :=
               match cs with
               | [] => Err "CASE: no arm matched"
               | [o] => if has_other then ev r o else Err "CASE: malformed"
               | c :: a :: rest => do cv <- ev r c; do p <- as_bool cv; if p then ev r a else arms rest
               end) cs
        | TFunc ps, cs =>
            match split_last cs with
            | Some (sets, body) =>
                do svs <- mapM (ev r) sets;
                do ss <- mapM as_set svs;
                do kvs <- mapM (fun tup => do b <- bind_pats ps tup;
                                            do v <- ev (with_vars r b) body;
                                            Ok (match tup with [k] => k | _ => VTup tup end, v)) (cart ss);
                Ok (mkfun kvs)
            | None => Err "function constructor: malformed"
            end
        | TFuncSet, [a; b] =>
            do av <- ev r a; do bv <- ev r b; do dom <- as_set av; do rng <- as_set bv;
            Ok (VSet (set_of_list (map (fun vals => mkfun (combine dom vals)) (cart (map (fun _ => rng) dom)))))
        | TExcept ar, f :: rest =>
            match split_subs ar rest with
            | Some subs =>
                do fv <- ev r f;
                (fix go (subs : list (list expr * expr)) (fv : value) : res value :=
                   match subs with
                   | [] => Ok fv
                   | (path, rhs) :: more =>
                       do pv <- mapM (ev r) path;
                       do fv' <- upd_path (S (List.length pv)) fv pv rhs r;
                       go more fv'
                   end) subs fv
            | None => Err "except: malformed"
            end
        | TAt, [] => match e_at r with Some v => Ok v | None => Err "@ outside EXCEPT" end
        | TExists ps, cs =>
            match split_last cs with
            | Some (sets, body) =>
                do bs <- all_bindings ps sets;
                (fix go (bs : list (list (string * value))) : res value :=
                   match bs with
                   | [] => vb false
                   | b :: more => do v <- ev (with_vars r b) body; do p <- as_bool v; if p then vb true else go more
                   end) bs
            | None => Err "exists: malformed"
            end
        | TForall ps, cs =>
            match split_last cs with
            | Some (sets, body) =>
                do bs <- all_bindings ps sets;
                (fix go (bs : list (list (string * value))) : res value :=
                   match bs with
                   | [] => vb true
                   | b :: more => do v <- ev (with_vars r b) body; do p <- as_bool v; if p then go more else vb false
                   end) bs
            | None => Err "forall: malformed"
            end
        | TFilter p, [s; body] =>
            do sv <- ev r s; do xs <- as_set sv;
            do keep <- mapM (fun x => do b <- bind_pat p x; do v <- ev (with_vars r b) body; as_bool v) xs;
            Ok (VSet (map fst (filter snd (combine xs keep))))
        | TSetMap ps, cs =>
            match split_last cs with
            | Some (sets, body) =>
                do bs <- all_bindings ps sets;
                do vs <- mapM (fun b => ev (with_vars r b) body) bs;
                Ok (VSet (set_of_list vs))
            | None => Err "set map: malformed"
            end
        | TChoose p, [s; body] =>
            do sv <- ev r s; do xs <- as_set sv;
            (fix go (xs : list value) : res value :=
               match xs with
               | [] => Err "CHOOSE: no element satisfies the predicate"
               | x :: more => do b <- bind_pat p x; do v <- ev (with_vars r b) body; do q <- as_bool v;
                              if q then Ok x else go more
               end) xs
        | TConj, es =>
            (fix go (es : list expr) : res value :=
               match es with
               | [] => vb true
               | a :: more => do x <- ev r a; do p <- as_bool x; if p then go more else vb false
               end) es
        | TDisj, es =>
            (fix go (es : list expr) : res value :=
               match es with
               | [] => vb false
               | a :: more => do x <- ev r a; do p <- as_bool x; if p then vb true else go more
               end) es
        | TCross, es =>
            do vs <- mapM (ev r) es; do ss <- mapM as_set vs;
            Ok (VSet (set_of_list (map VTup (cart ss))))
        | TUnsupported w, _ => Err ("unsupported operator " ++ w)%string
        | _, _ => Err "malformed expression"
        end
      end
    end
    end.
End Eval.
