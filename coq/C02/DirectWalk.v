(* C02 — walks of the TLA+ model on which, at every attempt, the symbolic semantics of the Go body (run o symex_go) is
   compared with the direct interpreter of C02/Direct.v. Search/validation code only. *)
From PGV Require Import C02.Lang C02.Sem C02.Show C02.Walk C02.Direct.
Open Scope list_scope.
Open Scope string_scope.

(* process -> (instance, label -> Go body) *)
Definition btable := list (string * (instance * list (string * list gstmt))).

Fixpoint dwalk (n : nat) (W : wsys) (locals : list string) (B : btable) (st : gstate) (rnd : list nat)
         (agree lazy : nat) (bad : list string) {struct n} : nat * nat * list string :=
  match n with
  | O => (agree, lazy, rev bad)
  | S n' =>
      let '(rp, rnd1) := next_choice rnd in
      let '(rs, rnd2) := next_choice rnd1 in
      let '(ks, rnd3) := take 4 rnd2 in
      match nth_mod (w_procs W) rp with
      | None => (agree, lazy, rev bad)
      | Some (proc, (oset, table)) =>
          match proc_ids W st oset with
          | Err _ => (agree, lazy, rev bad)
          | Ok ids =>
              match nth_mod ids rs with
              | None => dwalk n' W locals B st rnd3 agree lazy bad
              | Some self =>
                  let r := env_of W st self in
                  match e_loc r "pc" with
                  | VStr lbl =>
                      match lookup lbl table with
                      | None => dwalk n' W locals B st rnd3 agree lazy bad
                      | Some (gt, tt0) =>
                          let '(agree', lazy', bad') :=
                              match lookup proc B with
                              | Some (ins, bodies) =>
                                  match lookup lbl bodies with
                                  | Some body =>
                                      match direct_agrees (w_dgo W) EVAL_FUEL locals ins body gt r ks with
                                      | O => (S agree, lazy, bad)
                                      | S O => (agree, S lazy, bad)
                                      | _ => (agree, lazy,
                                              ("#@#DIRECT process=" ++ proc ++ " #@#label=" ++ lbl ++ " #@#self=" ++ show_value self ++
                                               " #@#choices=" ++ show_nats ks ++ " #@#state=" ++ show_vstore st ++
                                               " #@#symbolic=" ++ show_outcome (run (w_dgo W) EVAL_FUEL gt r ks) ++
                                               " #@#direct=" ++ show_outcome (exec_body (w_dgo W) EVAL_FUEL locals ins r body ks) ++ " #@#END") :: bad)
                                      end
                                  | None => (agree, lazy, bad)
                                  end
                              | None => (agree, lazy, bad)
                              end in
                          match run (w_dtla W) EVAL_FUEL tt0 r ks with
                          | OCommit g l _ => dwalk n' W locals B (apply_commit st self g l) rnd3 agree' lazy' bad'
                          | _ => dwalk n' W locals B st rnd3 agree' lazy' bad'
                          end
                      end
                  | _ => dwalk n' W locals B st rnd3 agree lazy bad
                  end
              end
          end
      end
  end.

Definition one_dwalk (n : nat) (W : wsys) (locals : list string) (B : btable) (rnd : list nat) : string :=
  let '(r0, rnd') := take 8 rnd in
  match init_state W (w_init W) [] r0 with
  | Ok st => let '(a, l, bad) := dwalk n W locals B st rnd' O O [] in
             "#@#COUNTS " ++ nat_str a ++ " " ++ nat_str l ++ " " ++ cat (firstn 2 bad) ++ "#@#ENDDW"
  | Err m => "#@#COUNTS 0 0 #@#ENDDW"
  end.
