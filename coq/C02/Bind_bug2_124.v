(* C02 — bug2_124: mapping macro and instance binding of pgo/test/files/general/bug2_124.tla (module bug2)

     mapping macro TCPChannel {
         read  { await Len($variable) > 0;
                 with (msg = Head($variable)) { $variable := Tail($variable); yield msg; }; }
         write { await Len($variable) < BUFFER_SIZE; yield Append($variable, $value); } }
     fair process (EchoServer \in 1..NUM_NODES) == instance AEchoServer(ref network[_])
         mapping network[_] via TCPChannel;                                                     *)
From PGV Require Import C02.Lang C02.Sem.
Open Scope string_scope.
Open Scope list_scope.
Open Scope Z_scope.

Definition Var := EVar "$variable".
Definition Val := EVar "$value".

Definition TCPChannel : macro := mkMacro
  [ MAwait (EOp B_gt [EOp B_Len [Var]; ENum 0]);
    MWithVal "msg" (EOp B_Head [Var]);
    MAssign (EOp B_Tail [Var]);
    MYield (EVar "msg") ]
  [ MAwait (EOp B_lt [EOp B_Len [Var]; EConst "BUFFER_SIZE" []]);
    MYield (EOp B_Append [Var; Val]) ].

Definition bug2_124_instances : list (string * instance) :=
  [ ("EchoServer", mkInst "AEchoServer"
        [("AEchoServer.net", mkBind (TgtGlobal "network") (Some TCPChannel))] []) ].

Definition bug2_124_scratch : list string := [].
