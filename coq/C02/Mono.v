(* C02 — fuel monotonicity of `eval` (coq/C02/Lang.v): fuel bounds the DEPTH of the evaluation, so an evaluation that succeeds
   keeps its value with any larger fuel. First ingredient of a substitution lemma for symex (dtree_sound_go/tla are not proved).
   `le a b` : b succeeds with a's value whenever a succeeds. One-step lemma `step_mono`: eval (S f) is a monotone functional of
   eval f (every combinator of the body — bind, mapM, the inner fixpoints of CASE / EXCEPT / quantifiers / CHOOSE / conjunction
   lists — is monotone); the ~100 cases are discharged by one tactic. *)
From PGV Require Import C02.Lang C02.Sem.
Open Scope list_scope.

Definition le {A} (a b : res A) : Prop := forall v, a = Ok v -> b = Ok v.

Lemma le_refl {A} (a : res A) : le a a.
Proof. intros v H; exact H. Qed.

Lemma le_err {A} m (b : res A) : le (Err m) b.
Proof. intros v H; discriminate. Qed.

Lemma le_bind {A B} (a1 a2 : res A) (k1 k2 : A -> res B) :
  le a1 a2 -> (forall x, le (k1 x) (k2 x)) -> le (bind a1 k1) (bind a2 k2).
Proof.
  intros Ha Hk v. unfold bind. destruct a1 as [x|m]; [|discriminate].
  rewrite (Ha x eq_refl). apply Hk.
Qed.

Lemma le_mapM {A B} (g1 g2 : A -> res B) (l : list A) :
  (forall x, le (g1 x) (g2 x)) -> le (mapM g1 l) (mapM g2 l).
Proof.
  intros Hg. induction l as [|x l IH]; simpl.
  - apply le_refl.
  - apply le_bind; [apply Hg|]. intros y. apply le_bind; [apply IH|]. intros ys. apply le_refl.
Qed.


Lemma list_ind2 {A} (P : list A -> Prop) :
  P [] -> (forall x, P [x]) -> (forall x y l, P l -> P (x :: y :: l)) -> forall l, P l.
Proof.
  intros H0 H1 H2. fix IH 1. intros [|x [|y l]]; [exact H0|apply H1|apply H2, IH].
Qed.

Section Mono.
  Variable D : list opdef.

  Ltac step H :=
    first
      [ apply le_refl
      | apply le_err
      | assumption
      | apply H
      | apply le_mapM; intros
      | apply le_bind; [ | intros ]
      | match goal with
        | |- le (match ?x with _ => _ end) (match ?x with _ => _ end) => destruct x
        | |- le (if ?x then _ else _) (if ?x then _ else _) => destruct x
        end
      | match goal with Hx : _ |- _ => apply Hx end ].

  Ltac listfix H :=
    match goal with
    | |- le (?F1 ?l) (?F2 ?l) => is_var l; induction l; simpl; repeat step H
    | |- le (?F1 ?l ?a) (?F2 ?l ?a) => is_var l; revert a; induction l; intros; simpl; repeat step H
    end.

  Lemma step_mono f1 f2 :
    (forall r e, le (eval D f1 r e) (eval D f2 r e)) ->
    forall r e, le (eval D (S f1) r e) (eval D (S f2) r e).
  Proof.
    intros H r e. destruct e as [t cs]. destruct t; simpl.
    all: try solve [repeat step H].
    - (* TCase *) induction cs using list_ind2; repeat step H.
    - (* TExcept *) repeat step H. 
      match goal with |- le (?F1 ?l ?a) (?F2 ?l ?a) => revert a; induction l; intros; simpl end.
      + repeat step H.
      + repeat step H.
        match goal with |- le (?U1 ?nn ?ff ?pp ?rh ?rr) (?U2 ?nn ?ff ?pp ?rh ?rr) =>
          let HU := fresh "HU" in
          assert (HU : forall n0 f0 p0 r0, le (U1 n0 f0 p0 rh r0) (U2 n0 f0 p0 rh r0));
          [ intro n0; induction n0; intros; simpl; repeat step H | apply HU ] end.
    - (* TExists *) repeat step H. listfix H.
    - (* TForall *) repeat step H. listfix H.
    - (* TChoose *) repeat step H. listfix H.
    - (* TConj *) listfix H.
    - (* TDisj *) listfix H.
  Qed.

  Lemma eval_mono_S : forall f r e, le (eval D f r e) (eval D (S f) r e).
  Proof.
    induction f as [|f IH]; intros r e.
    - destruct e as [t cs]. destruct t; try apply le_err. destruct cs; [apply le_refl | apply le_err].
    - apply step_mono. exact IH.
  Qed.

  Theorem eval_fuel_mono : forall f f' r e v, (f <= f')%nat -> eval D f r e = Ok v -> eval D f' r e = Ok v.
  Proof.
    intros f f' r e v Hle. induction Hle; intros Hv; [exact Hv|]. apply eval_mono_S. auto.
  Qed.
End Mono.


(* the same for the single interpreter of decision trees: an outcome that is not an error is stable under more fuel
   (the per-label theorems quantify over every fuel; this says the quantification is not about different behaviours) *)

Definition not_err (o : outcome) : Prop := match o with OErr _ => False | _ => True end.

Section RunMono.
  Variable D : list opdef.

  Lemma eval_store_mono f f' r st vs : (f <= f')%nat ->
    eval_store D f r st = Ok vs -> eval_store D f' r st = Ok vs.
  Proof.
    intros Hle. unfold eval_store. apply le_mapM. intros xe. apply le_bind; [|intros; apply le_refl].
    intros v Hv. eapply eval_fuel_mono; eauto.
  Qed.

  Lemma mapM_eval_mono f f' r es vs : (f <= f')%nat ->
    mapM (eval D f r) es = Ok vs -> mapM (eval D f' r) es = Ok vs.
  Proof.
    intros Hle. apply le_mapM. intros e v Hv. eapply eval_fuel_mono; eauto.
  Qed.

  Theorem run_fuel_mono : forall t f f' r ks, (f <= f')%nat ->
    not_err (run D f t r ks) -> run D f' t r ks = run D f t r ks.
  Proof.
    fix IH 1. intros t f f' r ks Hle.
    destruct t as [l | c t1 t2 | s k | ts | m]; simpl.
    - destruct l as [g l p | | | | ]; try reflexivity.
      destruct (eval_store D f r (clean_glob g)) as [gv|] eqn:Eg; [|intros []].
      destruct (eval_store D f r (clean_loc l)) as [lv|] eqn:El; [|intros []].
      destruct (mapM (eval D f r) p) as [pv|] eqn:Ep; [|intros []].
      intros _. rewrite (eval_store_mono _ _ _ _ _ Hle Eg), (eval_store_mono _ _ _ _ _ Hle El), (mapM_eval_mono _ _ _ _ _ Hle Ep).
      reflexivity.
    - destruct (eval D f r c) as [v|] eqn:Ec; [|intros []].
      rewrite (eval_fuel_mono D _ _ _ _ _ Hle Ec).
      destruct v; try (intros []). destruct b; apply IH; assumption.
    - destruct (eval D f r s) as [v|] eqn:Es; [|intros []].
      rewrite (eval_fuel_mono D _ _ _ _ _ Hle Es).
      destruct v; try (intros []). destruct xs as [|x xs]; [reflexivity|].
      destruct (next_choice ks) as [c ks']. destruct (nth_error _ _); [apply IH; assumption | intros []].
    - destruct ts as [|t0 ts]; [reflexivity|].
      destruct (next_choice ks) as [c ks'].
      generalize (Nat.modulo c (List.length (t0 :: ts))) as n.
      generalize (t0 :: ts) as l. clear t0 ts.
      fix IHl 1. intros l n. destruct l as [|t1 more]; simpl; [intros []|].
      destruct n; [apply IH; assumption | apply IHl].
    - intros [].
  Qed.
End RunMono.
