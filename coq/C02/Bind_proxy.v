(* C02 — proxy: mapping macros and instance bindings of systems/proxy/proxy.tla

     mapping macro ReliableFIFOLink {
         read  { assert $variable.enabled;
                 await Len($variable.queue) > 0;
                 with (readMsg = Head($variable.queue)) {
                     $variable := [queue |-> Tail($variable.queue), enabled |-> $variable.enabled];
                     yield readMsg; }; }
         write { await $variable.enabled;
                 yield [queue |-> Append($variable.queue, $value), enabled |-> $variable.enabled]; } }
     mapping macro NetworkToggle {
         read  { yield $variable.enabled; }
         write { yield [queue |-> $variable.queue, enabled |-> $value]; } }
     mapping macro PracticalFD {
         read  { if ($variable = FALSE) { either { yield TRUE; } or { yield FALSE; }; } else { yield $variable; }; }
         write { yield $value; } }
     mapping macro Requests {
         read  { with(value = $variable) { $variable := $variable + 1; yield value; } }
         write { assert(FALSE); yield $value; } }

     fair process (Proxy = ProxyID) == instance AProxy(ref network[_], ref fd[_])
         mapping network[_] via ReliableFIFOLink  mapping fd[_] via PracticalFD;
     fair process (Server \in SERVER_SET) == instance AServer(ref network[_], ref network[_], ref fd[_])
         mapping @1[_] via ReliableFIFOLink  mapping @2[_] via NetworkToggle  mapping @3[_] via PracticalFD;
     fair process (Client \in CLIENT_SET) == instance AClient(ref network[_], 0, ref output)
         mapping network[_] via ReliableFIFOLink  mapping @2 via Requests;
   (the expression argument 0 becomes the per-process variable `input` of the PlusCal translation) *)
From PGV Require Import C02.Lang C02.Sem.
Open Scope string_scope.
Open Scope list_scope.
Open Scope Z_scope.

Definition dot (e : expr) (f : string) : expr := EApp e (EStr f).
Definition Var := EVar "$variable".
Definition Val := EVar "$value".

Definition ReliableFIFOLink : macro := mkMacro
  [ MAssert (dot Var "enabled");
    MAwait (EOp B_gt [EOp B_Len [dot Var "queue"]; ENum 0]);
    MWithVal "readMsg" (EOp B_Head [dot Var "queue"]);
    MAssign (ERecord [("queue", EOp B_Tail [dot Var "queue"]); ("enabled", dot Var "enabled")]);
    MYield (EVar "readMsg") ]
  [ MAwait (dot Var "enabled");
    MYield (ERecord [("queue", EOp B_Append [dot Var "queue"; Val]); ("enabled", dot Var "enabled")]) ].

Definition NetworkToggle : macro := mkMacro
  [ MYield (dot Var "enabled") ]
  [ MYield (ERecord [("queue", dot Var "queue"); ("enabled", Val)]) ].

Definition PracticalFD : macro := mkMacro
  [ MIf (EOp B_eq [Var; EBool false])
        [ MEither [[MYield (EBool true)]; [MYield (EBool false)]] ]
        [ MYield Var ] ]
  [ MYield Val ].

Definition Requests : macro := mkMacro
  [ MWithVal "value" Var; MAssign (EOp B_plus [Var; ENum 1]); MYield (EVar "value") ]
  [ MAssert (EBool false); MYield Val ].

Definition proxy_instances : list (string * instance) :=
  [ ("Proxy", mkInst "AProxy"
        [("AProxy.net", mkBind (TgtGlobal "network") (Some ReliableFIFOLink));
         ("AProxy.fd", mkBind (TgtGlobal "fd") (Some PracticalFD))] []);
    ("Server", mkInst "AServer"
        [("AServer.net", mkBind (TgtGlobal "network") (Some ReliableFIFOLink));
         ("AServer.netEnabled", mkBind (TgtGlobal "network") (Some NetworkToggle));
         ("AServer.fd", mkBind (TgtGlobal "fd") (Some PracticalFD));
         (* process variables renamed by the PlusCal generator *)
         ("AServer.msg", mkBind (TgtLocal "msg0") None);
         ("AServer.resp", mkBind (TgtLocal "resp0") None)] []);
    ("Client", mkInst "AClient"
        [("AClient.net", mkBind (TgtGlobal "network") (Some ReliableFIFOLink));
         ("AClient.input", mkBind (TgtLocal "input") (Some Requests));
         ("AClient.output", mkBind (TgtGlobal "output") None);
         ("AClient.resp", mkBind (TgtLocal "resp1") None)] []) ].

Definition proxy_scratch : list string := [].
