(* C02 — soundness of the checker: equal normal forms give equal behaviour, for every operator
   table, every fuel, every environment (state, self, constants) and every choice list. *)
From PGV Require Import C02.Lang C02.Sem.

Section DtreeInd.
  Context (P : dtree -> Prop).
  Context (HL : forall l, P (Leaf l)).
  Context (HB : forall c t f, P t -> P f -> P (Branch c t f)).
  Context (HC : forall s k, P k -> P (Choice s k)).
  Context (HE : forall ts, Forall P ts -> P (Either ts)).
  Context (HF : forall m, P (Fail m)).

  Fixpoint dtree_ind' (t : dtree) : P t :=
    match t with
    | Leaf l => HL l
    | Branch c a b => HB c a b (dtree_ind' a) (dtree_ind' b)
    | Choice s k => HC s k (dtree_ind' k)
    | Either ts =>
        HE ts ((fix go (ts : list dtree) : Forall P ts :=
                  match ts with
                  | [] => Forall_nil P
                  | x :: r => Forall_cons x (dtree_ind' x) (go r)
                  end) ts)
    | Fail m => HF m
    end.
End DtreeInd.

Lemma lit_bool_eval : forall D fuel r c b, lit_bool c = Some b -> eval D fuel r c = Ok (VBool b).
Proof.
  intros D fuel r [t cs] b H. destruct t; try discriminate. destruct l; try discriminate.
  destruct cs; try discriminate. inversion H; subst. destruct fuel; reflexivity.
Qed.

Lemma pick_map_ext : forall (A : Type) (f : dtree -> A) (g : dtree -> dtree) (d : A) (ts : list dtree),
  Forall (fun t => f (g t) = f t) ts -> forall n, pick f d (map g ts) n = pick f d ts n.
Proof.
  intros A f g d ts H. induction H as [| t ts Ht Hts IH]; intros n; simpl.
  - reflexivity.
  - destruct n; [exact Ht | apply IH].
Qed.

Lemma filter_idem : forall (A : Type) (f : A -> bool) (l : list A), filter f (filter f l) = filter f l.
Proof.
  intros A f l. induction l as [| a l IH]; simpl; [reflexivity |].
  destruct (f a) eqn:E; simpl; [rewrite E, IH |]; auto.
Qed.

Lemma norm_sound : forall D fuel t r ks, run D fuel (norm t) r ks = run D fuel t r ks.
Proof.
  intros D fuel t. induction t as [l | c t1 t2 IH1 IH2 | s k IHk | ts IH | m] using dtree_ind'; intros r ks.
  - destruct l as [g lo p | | | |]; try reflexivity.
    cbn [norm run]. unfold clean_glob, clean_loc. rewrite !filter_idem. reflexivity.
  - cbn [norm]. destruct (lit_bool c) as [[|]|] eqn:Hc.
    + rewrite IH1. cbn [run]. rewrite (lit_bool_eval D fuel r c true Hc). reflexivity.
    + rewrite IH2. cbn [run]. rewrite (lit_bool_eval D fuel r c false Hc). reflexivity.
    + cbn [run]. destruct (eval D fuel r c) as [[| [|] | | | | |] | msg]; auto.
  - cbn [norm run]. destruct (eval D fuel r s) as [[| | | | [| x xs] | |] | msg]; auto.
    destruct (next_choice ks) as [c ks']. destruct (nth_error (x :: xs) _); auto.
  - cbn [norm run]. destruct ts as [| t0 ts']; [reflexivity |].
    change (map norm (t0 :: ts')) with (norm t0 :: map norm ts').
    cbv iota. destruct (next_choice ks) as [c ks'].
    change (norm t0 :: map norm ts') with (map norm (t0 :: ts')).
    rewrite map_length.
    apply pick_map_ext.
    eapply Forall_impl; [| exact IH]. intros a Ha. apply Ha.
  - reflexivity.
Qed.

Lemma equiv_sound_lemma : forall t1 t2, equiv_check t1 t2 = true ->
  forall D fuel r ks, run D fuel t1 r ks = run D fuel t2 r ks.
Proof.
  intros t1 t2 H D fuel r ks. unfold equiv_check in H.
  apply andb_prop in H as [_ H].
  destruct (dtree_eq_dec (norm t1) (norm t2)) as [E | E]; [| discriminate].
  rewrite <- (norm_sound D fuel t1), <- (norm_sound D fuel t2), E. reflexivity.
Qed.

Lemma defs_check_sound_lemma : forall d1 d2, defs_check d1 d2 = true -> d1 = d2.
Proof.
  intros d1 d2 H. unfold defs_check in H. destruct (list_eq_dec opdef_eq_dec d1 d2); [assumption | discriminate].
Qed.

(* a tree on which the checker says "equivalent" contains no Fail node (the checker refuses to
   equate two translations that both fell outside the grammar) *)
Lemma equiv_check_no_fail : forall t1 t2, equiv_check t1 t2 = true -> has_fail t1 = false /\ has_fail t2 = false.
Proof.
  intros t1 t2 H. unfold equiv_check in H.
  apply andb_prop in H as [H _]. apply andb_prop in H as [H1 H2].
  split; [destruct (has_fail t1) | destruct (has_fail t2)]; auto; discriminate.
Qed.
