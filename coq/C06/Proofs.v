(* C06 — proofs, part 1: the receiver's sequence is the concatenation of the published batches (invariant A),
   per sender the published batches are its committed sections (invariant B); receiver-side theorems. *)
From PGV Require Import C06.Model.
From Coq Require Import Lia.

Lemma upd_same : forall A (f : nat -> A) k x, upd f k x k = x.
Proof. intros. unfold upd. now rewrite Nat.eqb_refl. Qed.

Lemma upd_other : forall A (f : nat -> A) k x n, n <> k -> upd f k x n = f n.
Proof. intros A f k x n Hn. unfold upd. destruct (Nat.eqb n k) eqn:E; [apply Nat.eqb_eq in E; contradiction|reflexivity]. Qed.

Lemma upd_if : forall A (f : nat -> A) k x n, upd f k x n = if Nat.eqb n k then x else f n.
Proof. reflexivity. Qed.

Ltac eqb_case j i :=
  let E := fresh "E" in destruct (Nat.eqb j i) eqn:E; [apply Nat.eqb_eq in E; try subst j | apply Nat.eqb_neq in E].

(* ------------------------------------------------------------------ lists *)

Definition batches_of (s : nat) (l : list (nat * list msg)) : list (list msg) :=
  map snd (filter (fun b => Nat.eqb (fst b) s) l).

Definition remaining (x : sender) : list msg := match s_phase x with SPushing => s_cur x | _ => [] end.

Lemma of_sender_app : forall s l1 l2, of_sender s (l1 ++ l2) = of_sender s l1 ++ of_sender s l2.
Proof. intros. unfold of_sender. now rewrite filter_app, map_app. Qed.

Lemma of_sender_tag : forall s s' ms, of_sender s (map (pair s') ms) = if Nat.eqb s' s then ms else [].
Proof.
  intros s s' ms. unfold of_sender. induction ms as [|m ms IH]; simpl; [destruct (Nat.eqb s' s); reflexivity|].
  destruct (Nat.eqb s' s) eqn:E; simpl; [now f_equal|exact IH].
Qed.

Lemma of_sender_flat : forall s l, of_sender s (flat_map tag_batch l) = concat (batches_of s l).
Proof.
  intros s l. induction l as [|[s' ms] l IH]; simpl; [reflexivity|].
  rewrite of_sender_app, IH. unfold tag_batch, batches_of. simpl. rewrite of_sender_tag.
  destruct (Nat.eqb s' s); reflexivity.
Qed.

Lemma batches_of_app : forall s l1 l2, batches_of s (l1 ++ l2) = batches_of s l1 ++ batches_of s l2.
Proof. intros. unfold batches_of. now rewrite filter_app, map_app. Qed.

Lemma batches_of_one : forall s s' b, batches_of s [(s', b)] = if Nat.eqb s' s then [b] else [].
Proof. intros. unfold batches_of. simpl. destruct (Nat.eqb s' s); reflexivity. Qed.

Lemma tagged_tag : forall e, tagged e = tag_batch (e_sender e, e_batch e).
Proof. reflexivity. Qed.

(* ------------------------------------------------------------------ runs *)

Lemma run_app : forall evs1 evs2 st st1 o1,
  run st evs1 = Some (st1, o1) ->
  run st (evs1 ++ evs2) = match run st1 evs2 with Some (st2, o2) => Some (st2, o1 ++ o2) | None => None end.
Proof.
  induction evs1 as [|e evs1 IH]; simpl; intros evs2 st st1 o1 H.
  - inversion H; subst. destruct (run st1 evs2) as [[? ?]|]; reflexivity.
  - destruct (step st e) as [[st' o]|]; [|discriminate].
    destruct (run st' evs1) as [[st'' os]|] eqn:E; [|discriminate].
    inversion H; subst. rewrite (IH evs2 _ _ _ E). destruct (run st1 evs2) as [[? ?]|]; reflexivity.
Qed.

Lemma run_app_none : forall evs l st, run st evs = None -> run st (evs ++ l) = None.
Proof.
  induction evs as [|e evs IH]; simpl; intros l st H; [discriminate|].
  destruct (step st e) as [[st' o]|]; [|reflexivity].
  destruct (run st' evs) as [[? ?]|] eqn:E; [discriminate|]. now rewrite (IH l _ E).
Qed.

Definition reachable (k : nat -> skind) (cap : nat) (st : state) : Prop :=
  exists evs outs, run (init_state k cap) evs = Some (st, outs).

Lemma reachable_ind : forall k cap (P : state -> Prop),
  P (init_state k cap) ->
  (forall st e st' o, P st -> step st e = Some (st', o) -> P st') ->
  forall st, reachable k cap st -> P st.
Proof.
  intros k cap P H0 Hstep st (evs & outs & H). revert st outs H.
  induction evs as [|e evs IH] using rev_ind; intros st outs H.
  - simpl in H. inversion H; subst. exact H0.
  - destruct (run (init_state k cap) evs) as [[st1 o1]|] eqn:E.
    + rewrite (run_app _ _ _ _ _ E) in H. simpl in H.
      destruct (step st1 e) as [[st2 o2]|] eqn:E2; [|discriminate]. inversion H; subst.
      eapply Hstep; [|exact E2]. eapply IH; eauto.
    + rewrite (run_app_none _ [e] _ E) in H. discriminate.
Qed.

(* ------------------------------------------------------------------ step inversion *)

Ltac step_inv H :=
  match type of H with
  | step ?st ?e = Some _ =>
      tryif is_var e then destruct e else idtac; cbn [step] in H;
      repeat match type of H with
      | context [match s_phase ?x with _ => _ end] => let E := fresh "Eph" in destruct (s_phase x) eqn:E; try discriminate H
      | context [match s_cur ?x with _ => _ end] => let E := fresh "Ecur" in destruct (s_cur x) eqn:E; try discriminate H
      | context [match r_backlog ?x with _ => _ end] => let E := fresh "Ebl" in destruct (r_backlog x) eqn:E; try discriminate H
      | context [match r_queue ?x with _ => _ end] => let E := fresh "Eq" in destruct (r_queue x) eqn:E; try discriminate H
      | context [match e_batch ?x with _ => _ end] => let E := fresh "Eb" in destruct (e_batch x) eqn:E; try discriminate H
      | context [match deliver ?a ?b ?c with _ => _ end] => let E := fresh "Edel" in destruct (deliver a b c) eqn:E; try discriminate H
      | context [if ?c then _ else _] => let E := fresh "Ec" in destruct c eqn:E; try discriminate H
      end;
      inversion H; subst; clear H
  end.

Ltac deliver_inv H :=
  match type of H with
  | deliver ?st ?s ?k = Some _ =>
      unfold deliver in H;
      repeat match type of H with
      | context [match kind ?a ?b with _ => _ end] => let E := fresh "Ek" in destruct (kind a b) eqn:E; try discriminate H
      | context [match c_stream ?x with _ => _ end] => let E := fresh "Estr" in destruct (c_stream x) eqn:E; try discriminate H
      | context [match c_buf ?x with _ => _ end] => let E := fresh "Ebuf" in destruct (c_buf x) eqn:E; try discriminate H
      | context [match ?r with RBegin => _ | _ => _ end] => destruct r; try discriminate H
      | context [if ?c then _ else _] => let E := fresh "Ec" in destruct c eqn:E; try discriminate H
      end;
      inversion H; subst; clear H
  end.

(* ------------------------------------------------------------------ invariant A *)

Definition InvA (st : state) : Prop := rseq (rcv st) = flat_map tag_batch (g_arrived (rcv st)).

Lemma rseq_publish : forall r s k b, rseq (publish r s k b) = rseq r ++ map (pair s) b.
Proof.
  intros. unfold rseq, publish. cbn [g_committed r_inprog r_backlog r_queue].
  rewrite flat_map_app. simpl. rewrite app_nil_r. unfold tagged. cbn [e_sender e_batch]. now rewrite !app_assoc.
Qed.

Lemma arrived_publish : forall r s k b,
  flat_map tag_batch (g_arrived (publish r s k b)) = flat_map tag_batch (g_arrived r) ++ map (pair s) b.
Proof. intros. unfold publish. cbn [g_arrived]. rewrite flat_map_app. simpl. now rewrite app_nil_r. Qed.

Lemma invA_publish : forall st s k b x,
  InvA st -> InvA (mkState (kind st) x (publish (rcv st) s k b)).
Proof. intros st s k b x H. unfold InvA in *. cbn [rcv]. now rewrite rseq_publish, arrived_publish, H. Qed.

Lemma deliver_rcv : forall st s k st',
  deliver st s k = Some st' ->
  rcv st' = rcv st \/ exists b, b <> [] /\ rcv st' = publish (rcv st) s k b.
Proof.
  intros st s k st' H. deliver_inv H; cbn [rcv set_snd]; auto; right; eexists; (split; [|reflexivity]); discriminate.
Qed.

Lemma invA_step : forall st e st' o, InvA st -> step st e = Some (st', o) -> InvA st'.
Proof.
  intros st e st' o HA H. unfold InvA in *.
  destruct e; try (step_inv H; cbn [rcv set_snd set_rcv]; try exact HA; fail).
  - (* Deliver *)
    step_inv H. destruct (deliver_rcv _ _ _ _ Edel) as [Hr|(b & _ & Hr)]; rewrite Hr; [exact HA|].
    now rewrite rseq_publish, arrived_publish, HA.
  - (* OPush *) step_inv H. cbn [rcv]. now rewrite rseq_publish, arrived_publish, HA.
  - (* PPush *) step_inv H. cbn [rcv]. now rewrite rseq_publish, arrived_publish, HA.
  - (* RRead *)
    step_inv H; cbn [rcv set_rcv]; unfold rseq in *; cbn [g_committed r_inprog r_backlog r_queue g_arrived] in *; rewrite <- HA.
    + rewrite Ebl, Eq. cbn [flat_map]. change (tagged e) with (map (pair (e_sender e)) (e_batch e)). rewrite Eb. cbn [map app]. rewrite <- !app_assoc. reflexivity.
    + rewrite Ebl. rewrite <- !app_assoc. reflexivity.
  - (* RReadTimeout *)
    step_inv H; cbn [rcv set_rcv]; unfold rseq in *; cbn [g_committed r_inprog r_backlog r_queue g_arrived] in *; rewrite <- HA;
      rewrite ?Ebl; cbn [app]; rewrite <- ?app_assoc; reflexivity.
  - (* RCommitE *)
    step_inv H; cbn [rcv set_rcv]; unfold rseq in *; cbn [g_committed r_inprog r_backlog r_queue g_arrived] in *; rewrite <- HA.
    rewrite <- !app_assoc. reflexivity.
  - (* RAbort *)
    step_inv H; cbn [rcv set_rcv]; unfold rseq in *; cbn [g_committed r_inprog r_backlog r_queue g_arrived] in *; rewrite <- HA;
      rewrite ?Ebl; cbn [app]; rewrite <- ?app_assoc; reflexivity.
  - (* RLen *)
    step_inv H; try exact HA; cbn [rcv set_rcv]; unfold rseq in *; cbn [g_committed r_inprog r_backlog r_queue g_arrived] in *; rewrite <- HA.
    rewrite Ebl, Eq. cbn [flat_map app]. reflexivity.
Qed.
