(* C06 — proofs, part 2: invariant B (per sender: published batches = committed sections) and the FIFO theorems. *)
From PGV Require Import C06.Model C06.Proofs.
From Coq Require Import Lia.

Lemma kind_step : forall st e st' o, step st e = Some (st', o) -> kind st' = kind st.
Proof.
  intros st e st' o H. destruct e; try (step_inv H; reflexivity).
  step_inv H. deliver_inv Edel; reflexivity.
Qed.

Definition InvB (st : state) : Prop :=
  forall s, let x := snd_of st s in
    match kind st s with
    | KOut => concat (batches_of s (g_arrived (rcv st))) ++ remaining x = concat (g_sections x)
    | _ => batches_of s (g_arrived (rcv st)) = g_sections x
    end.

Lemma invB_init : forall k cap, InvB (init_state k cap).
Proof. intros k cap s. simpl. destruct (k s); reflexivity. Qed.

Lemma kind_eqb_eq : forall a b, kind_eqb a b = true -> a = b.
Proof. destruct a, b; simpl; congruence. Qed.

(* a sender-only step: the receiver is untouched, and only sender s changes *)
Lemma invB_sender_only : forall st s x',
  InvB st ->
  g_sections x' = g_sections (snd_of st s) ->
  (kind st s = KOut -> remaining x' = remaining (snd_of st s)) ->
  InvB (set_snd st s x').
Proof.
  intros st s x' HB Hg Hr. unfold InvB in *. intros s0. specialize (HB s0). cbn [set_snd kind snd_of rcv]. rewrite upd_if.
  eqb_case s0 s; [|exact HB]. cbn zeta in *. destruct (kind st s) eqn:Ek; rewrite ?Hg; try exact HB.
  rewrite Hr by reflexivity. exact HB.
Qed.

Lemma invB_publish : forall st s k b x',
  InvB st -> b <> [] \/ True ->
  (kind st s <> KOut -> g_sections x' = g_sections (snd_of st s) ++ [b]) ->
  (kind st s = KOut -> concat (g_sections x') = concat (g_sections (snd_of st s)) /\ remaining (snd_of st s) = b ++ remaining x') ->
  InvB (mkState (kind st) (upd (snd_of st) s x') (publish (rcv st) s k b)).
Proof.
  intros st s k b x' HB _ Hn Ho. unfold InvB in *. intros s0. specialize (HB s0). cbn [kind snd_of rcv publish g_arrived]. cbn zeta in *.
  rewrite batches_of_app, batches_of_one, upd_if.
  eqb_case s0 s.
  - rewrite Nat.eqb_refl. destruct (kind st s) eqn:Ek.
    + rewrite Hn by discriminate. now rewrite HB.
    + rewrite Hn by discriminate. now rewrite HB.
    + destruct (Ho eq_refl) as [Hc Hr]. rewrite Hc, <- HB, Hr, concat_app. simpl. now rewrite app_nil_r, <- app_assoc.
    + rewrite Hn by discriminate. now rewrite HB.
  - assert (Hne : Nat.eqb s s0 = false) by (apply Nat.eqb_neq; congruence). rewrite Hne, app_nil_r. exact HB.
Qed.

Ltac solve_gs :=
  unfold set_phase, send_rec, set_conn, take_ack, close_conn, set_sections, ensure;
  repeat match goal with |- context [if ?c then _ else _] => destruct c end; reflexivity.

Lemma invB_step : forall st e st' o, InvB st -> step st e = Some (st', o) -> InvB st'.
Proof.
  intros st e st' o HB H.
  destruct e.
  - (* SWrite *) step_inv H; (apply invB_sender_only; [exact HB|solve_gs|intro Hk; apply kind_eqb_eq in Ec; congruence]).
  - (* SAbort *) step_inv H; (apply invB_sender_only; [exact HB|solve_gs|intro Hk; apply kind_eqb_eq in Ec; congruence]).
  - (* SDrop *) step_inv H; (apply invB_sender_only; [exact HB|solve_gs|intro Hk; apply kind_eqb_eq in Ec; congruence]).
  - (* SPreCommit *) step_inv H; (apply invB_sender_only; [exact HB|solve_gs|intro Hk; apply kind_eqb_eq in Ec; congruence]).
  - (* SPreAck *) step_inv H. apply andb_true_iff in Ec as [Ec _]. apply invB_sender_only; [exact HB|solve_gs|intro Hk; apply kind_eqb_eq in Ec; congruence].
  - (* SCommit *) step_inv H. apply andb_true_iff in Ec as [Ec _]. apply invB_sender_only; [exact HB|solve_gs|intro Hk; apply kind_eqb_eq in Ec; congruence].
  - (* SComAck *) step_inv H. apply andb_true_iff in Ec as [Ec _]. apply invB_sender_only; [exact HB|solve_gs|intro Hk; apply kind_eqb_eq in Ec; congruence].
  - (* Deliver *)
    step_inv H. deliver_inv Edel;
      try (apply invB_sender_only; [exact HB|solve_gs|intro Hk; congruence]);
      try (apply invB_publish; [exact HB|auto|intros _; reflexivity | intro Hk; congruence]).
  - (* XWrite *) step_inv H. apply invB_sender_only; [exact HB|solve_gs|intro Hk; apply kind_eqb_eq in Ec; congruence].
  - (* XDrop *) step_inv H. apply invB_sender_only; [exact HB|solve_gs|intro Hk; apply kind_eqb_eq in Ec; congruence].
  - (* OWrite *) step_inv H; (apply invB_sender_only; [exact HB|solve_gs|intros _; unfold remaining; cbn [set_phase s_phase]; now rewrite Eph]).
  - (* OAbort *) step_inv H; (apply invB_sender_only; [exact HB|solve_gs|intros _; unfold remaining; cbn [set_phase s_phase]; now rewrite Eph]).
  - (* OCommit *)
    step_inv H. apply kind_eqb_eq in Ec. unfold InvB in *. intro s0. specialize (HB s0). cbn [set_snd kind snd_of rcv]. cbn zeta in *. rewrite upd_if.
    eqb_case s0 s; [|exact HB]. rewrite Ec in *. unfold remaining in *. cbn [set_sections set_phase s_phase s_cur g_sections]. rewrite Eph in HB.
    rewrite app_nil_r in HB. rewrite HB, concat_app. simpl. now rewrite app_nil_r.
  - (* OPush *)
    step_inv H. apply orb_false_iff in Ec as [Ec _]. apply negb_false_iff in Ec. apply kind_eqb_eq in Ec.
    apply invB_publish; [exact HB|auto| |].
    + intro Hk. congruence.
    + intros _. split; [reflexivity|]. unfold remaining. cbn [set_phase s_phase s_cur]. now rewrite Eph, Ecur.
  - (* ODone *)
    step_inv H. apply invB_sender_only; [exact HB|solve_gs|]. intros _. unfold remaining. cbn [set_phase s_phase]. now rewrite Eph, Ecur.
  - (* PPush *)
    step_inv H. apply kind_eqb_eq in Ec. apply invB_publish; [exact HB|auto|intros _; reflexivity | intro Hk; congruence].
  - (* RRead *) step_inv H; exact HB.
  - step_inv H; exact HB.
  - step_inv H; exact HB.
  - step_inv H; exact HB.
  - step_inv H; exact HB.
  - step_inv H; exact HB.
Qed.

(* the pushing phase belongs to OutputChan senders *)
Definition InvP (st : state) : Prop := forall s, s_phase (snd_of st s) = SPushing -> kind st s = KOut.

Lemma invP_step : forall st e st' o, InvP st -> step st e = Some (st', o) -> InvP st'.
Proof.
  intros st e st' o HP H. unfold InvP in *.
  destruct e; try (step_inv H; exact HP);
    try (step_inv H; intros s0; cbn [set_snd kind snd_of]; rewrite upd_if; eqb_case s0 s; auto;
         unfold set_phase, send_rec, set_conn, take_ack, close_conn, set_sections, ensure; cbn [s_phase];
         repeat match goal with |- context [if ?c then _ else _] => destruct c end; cbn [s_phase];
         try discriminate; try (intros _; now apply kind_eqb_eq); auto; fail).
  - (* Deliver *)
    step_inv H. deliver_inv Edel; intros s0; cbn [set_snd kind snd_of]; rewrite upd_if; eqb_case s0 s; auto;
      unfold set_sections, set_conn; cbn [s_phase]; intro Hp; apply HP in Hp; congruence.
Qed.

Lemma inv_reachable : forall k cap st, reachable k cap st -> InvA st /\ InvB st /\ InvP st.
Proof.
  intros k cap. apply reachable_ind.
  - split; [reflexivity|]. split; [apply invB_init|]. intros s H. discriminate.
  - intros st e st' o (HA & HB & HP) H. split; [eapply invA_step; eauto|]. split; [eapply invB_step; eauto|eapply invP_step; eauto].
Qed.

(* ---- FIFO, exactly once *)
Lemma fifo_lemma : forall k cap st s,
  reachable k cap st ->
  of_sender s (g_committed (rcv st)) ++ of_sender s (pending (rcv st)) ++ remaining (snd_of st s)
  = concat (g_sections (snd_of st s)).
Proof.
  intros k cap st s R. destruct (inv_reachable _ _ _ R) as (HA & HB & HP).
  rewrite app_assoc, <- of_sender_app.
  assert (Hseq : g_committed (rcv st) ++ pending (rcv st) = rseq (rcv st)) by reflexivity.
  rewrite Hseq, HA, of_sender_flat. specialize (HB s). cbn zeta in HB.
  destruct (kind st s) eqn:Ek; try exact HB.
  all: assert (Hr : remaining (snd_of st s) = []) by
         (unfold remaining; destruct (s_phase (snd_of st s)) eqn:Ep; try reflexivity; apply HP in Ep; congruence).
  all: rewrite Hr, app_nil_r, HB; reflexivity.
Qed.

(* ---- all or nothing, contiguous *)
Lemma batch_contiguous_lemma : forall k cap st,
  reachable k cap st ->
  rseq (rcv st) = flat_map tag_batch (g_arrived (rcv st)) /\
  forall s, kind st s <> KOut -> batches_of s (g_arrived (rcv st)) = g_sections (snd_of st s).
Proof.
  intros k cap st R. destruct (inv_reachable _ _ _ R) as (HA & HB & HP). split; [exact HA|].
  intros s Hk. specialize (HB s). cbn zeta in HB. destruct (kind st s); try exact HB. congruence.
Qed.

(* ---- nothing invented, nothing from an aborted section *)
Lemma of_sender_In : forall s m l, In (s, m) l -> In m (of_sender s l).
Proof.
  intros s m l H. unfold of_sender. apply in_map_iff. exists (s, m). split; [reflexivity|].
  apply filter_In. split; [exact H|]. simpl. apply Nat.eqb_refl.
Qed.

Lemma only_committed_lemma : forall k cap st s m,
  reachable k cap st -> In (s, m) (rseq (rcv st)) -> In m (concat (g_sections (snd_of st s))).
Proof.
  intros k cap st s m R Hin. rewrite <- (fifo_lemma _ _ _ s R).
  apply of_sender_In in Hin. unfold rseq in Hin. fold (pending (rcv st)) in Hin. rewrite of_sender_app in Hin.
  rewrite app_assoc. apply in_app_iff. left. rewrite <- of_sender_app. unfold of_sender in *. now rewrite filter_app, map_app in *.
Qed.

(* ---- an aborted read is redelivered first, in order *)
Lemma reads_from_backlog : forall l st rest,
  r_backlog (rcv st) = l ++ rest ->
  exists st', run st (repeat RRead (List.length l)) = Some (st', map (fun p => OMsg (snd p)) l) /\
              r_backlog (rcv st') = rest /\ r_inprog (rcv st') = r_inprog (rcv st) ++ l /\
              r_queue (rcv st') = r_queue (rcv st) /\ g_committed (rcv st') = g_committed (rcv st).
Proof.
  induction l as [|p l IH]; intros st rest Hb.
  - exists st. simpl. rewrite app_nil_r. auto.
  - simpl in Hb. cbn [List.length repeat run step]. rewrite Hb.
    match goal with |- context [run ?st1 _] => destruct (IH st1 rest) as (st' & Hr & H1 & H2 & H3 & H4) end; [reflexivity|].
    exists st'. rewrite Hr. cbn [rcv set_rcv r_inprog r_queue g_committed] in *. repeat split; auto.
    rewrite H2, <- app_assoc. reflexivity.
Qed.

Lemma redelivery_lemma : forall st e st' o,
  (e = RAbort \/ e = RReadTimeout) -> step st e = Some (st', o) ->
  r_backlog (rcv st') = r_inprog (rcv st) ++ r_backlog (rcv st) /\ r_inprog (rcv st') = [] /\
  exists st'', run st' (repeat RRead (List.length (r_inprog (rcv st)))) =
                 Some (st'', map (fun p => OMsg (snd p)) (r_inprog (rcv st))) /\
               r_backlog (rcv st'') = r_backlog (rcv st) /\ r_inprog (rcv st'') = r_inprog (rcv st).
Proof.
  intros st e st' o He H.
  assert (Hb : r_backlog (rcv st') = r_inprog (rcv st) ++ r_backlog (rcv st) /\ r_inprog (rcv st') = []).
  { destruct He as [-> | ->]; step_inv H; cbn [rcv set_rcv r_backlog r_inprog]; rewrite ?Ebl; auto. }
  destruct Hb as [Hb Hi]. split; [exact Hb|]. split; [exact Hi|].
  destruct (reads_from_backlog _ _ _ Hb) as (st'' & Hr & H1 & H2 & _). exists st''. rewrite Hi in H2. auto.
Qed.

(* nobody but the receiver touches the backlog and the reads in progress *)
Lemma receiver_frame : forall st e st' o,
  step st e = Some (st', o) ->
  match e with RRead | RReadTimeout | RCommitE | RAbort | RLen | RTick => True | _ => False end \/
  (r_backlog (rcv st') = r_backlog (rcv st) /\ r_inprog (rcv st') = r_inprog (rcv st) /\ g_committed (rcv st') = g_committed (rcv st)).
Proof.
  intros st e st' o H. destruct e; auto; right; step_inv H; cbn [rcv set_snd]; auto.
  destruct (deliver_rcv _ _ _ _ Edel) as [-> | (b & _ & ->)]; auto.
Qed.

(* ---- the reported length *)
Lemma len_lemma : forall st st' n,
  step st RLen = Some (st', ONum n) ->
  n <= List.length (r_backlog (rcv st) ++ flat_map tagged (r_queue (rcv st))) /\
  n = List.length (r_backlog (rcv st')) /\ rseq (rcv st') = rseq (rcv st).
Proof.
  intros st st' n H. step_inv H; cbn [rcv set_rcv r_backlog]; unfold rseq; cbn [g_committed r_inprog r_backlog r_queue];
    rewrite ?Ebl, ?Eq; cbn [flat_map app List.length]; repeat split; try lia.
  - unfold tagged. rewrite app_length, map_length. lia.
  - unfold tagged. now rewrite map_length.
  - rewrite app_length. lia.
Qed.

(* ---- time-outs only abort *)
Lemma read_timeout_is_abort : forall st st' o,
  step st RReadTimeout = Some (st', o) -> step st RAbort = Some (st', o).
Proof. intros st st' o H. step_inv H; cbn [step]; rewrite ?Ebl; reflexivity. Qed.

Lemma sender_timeout_lemma : forall st e s st' o,
  (e = SDrop s \/ e = XDrop s) -> step st e = Some (st', o) ->
  rcv st' = rcv st /\
  (forall s', g_sections (snd_of st' s') = g_sections (snd_of st s')) /\
  (forall s', s' <> s -> snd_of st' s' = snd_of st s') /\
  s_phase (snd_of st' s) = SIdle /\ s_cur (snd_of st' s) = [] /\ s_open (snd_of st' s) = false /\
  (forall k, s_conn (snd_of st' s) k = s_conn (snd_of st s) k).
Proof.
  intros st e s st' o He H. destruct He as [-> | ->]; step_inv H; cbn [rcv set_snd snd_of]; rewrite upd_same;
    (repeat split; auto; [intros s'; rewrite upd_if; eqb_case s' s; reflexivity | intros s' Hs; now rewrite upd_other]).
Qed.

Lemma tick_lemma : forall st st' o, step st RTick = Some (st', o) -> st' = st /\ o = OTick.
Proof. intros st st' o H. step_inv H. auto. Qed.
