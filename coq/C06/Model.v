(* C06 — executable model of the message links of the runtime.  Model only (no proofs).

   One receiver (a local mailbox / an InputChan) and any number of senders, indexed by nat.  Receivers do not
   share state with each other (each index of a Mailboxes IncMap is its own tcpMailboxesLocal / ...Remote object), so
   a system with many receivers is the product of independent copies of this one.

   Transcribed from
     distsys/resources/tcpmailboxes.go      tcpMailboxesRemote (inCriticalSection, conn, WriteValue / PreCommit / Commit / Abort),
                                            handleConn (hasBegun, localBuffer, tags begin | value | precommit | commit, ack before enqueue),
                                            tcpMailboxesLocal (msgChannel, readBacklog, readsInProgress, ReadValue / Commit / Abort / length)
     distsys/resources/relaxedmailboxes.go  relaxedMailboxesRemote.WriteValue (value straight into the connection), handleConn (value -> msgChannel),
                                            relaxedMailboxesLocal = the same receiver over single values
     distsys/resources/channels.go          InputChan (channel, buffer = backlog, backlogBuffer = reads in progress), OutputChan (buffer, pushed at Commit)
     systems/raftkvs/customch.go            CustomInChan = InputChan whose read time-out yields TRUE (a tick) instead of aborting

   Every sender has one kind.  KTcp / KRelaxed senders own a list of connections (oldest first): a time-out or error
   closes the current one (`res.conn = nil`) and the next write dials a new one, while the handler of the old
   connection keeps consuming what was already written.  KOut = an OutputChan feeding the Go channel an InputChan reads;
   KProd = any other Go code writing to that channel.

   The receive queue is one list of entries: the first r_cap of them are in the Go channel (msgChannel), the rest are
   blocked senders in the order they blocked (Go serves blocked senders first-come-first-served; handleConn performs
   "write ack ; msgChannel <- batch" and the two are one step here).  A handler (or OutputChan.Commit goroutine) whose
   entry is beyond r_cap is blocked.

   Time is abstracted: time-out events are enabled whenever the awaited thing has not happened.
   Connection failure is outside the property ("absent connection failure"): the resend path of
   tcpMailboxesRemote.Commit is not an event of this model. *)
From Coq Require Export List ZArith Bool Arith.
Export ListNotations.

Definition msg := Z.

Inductive skind := KTcp | KRelaxed | KOut | KProd.

Inductive rec := RBegin | RValue (m : msg) | RPreCommit | RCommit | RPlain (m : msg).

Record conn := mkConn { c_stream : list rec;   (* written by the sender, not yet consumed by handleConn *)
                        c_begun : bool;        (* hasBegun *)
                        c_buf : list msg;      (* localBuffer *)
                        c_ack : bool }.        (* an acknowledgement written by the handler, not yet read by the sender *)

Definition conn0 : conn := mkConn [] false [] false.

Inductive sphase :=
| SIdle        (* not inCriticalSection *)
| SWriting     (* inCriticalSection, values written *)
| SPreWait     (* PreCommit record written, waiting for the ack *)
| SPreOk       (* PreCommit acknowledged *)
| SComWait     (* Commit record written, waiting for the ack *)
| SPushing.    (* OutputChan.Commit goroutine pushing the buffered values *)

Record sender := mkSender {
  s_phase : sphase;
  s_cur : list msg;               (* values of the section in flight (OutputChan: buffer still to push) *)
  s_conn : nat -> conn;           (* every connection this sender ever dialled, by dial number *)
  s_cid : nat;                    (* the current connection (meaningful iff s_open) *)
  s_next : nat;                   (* number of dials so far *)
  s_open : bool;                  (* res.conn != nil *)
  g_sections : list (list msg);   (* ghost: the committed sections' messages, in commit order *)
  g_written : list msg            (* ghost (relaxed): values for which WriteValue returned nil *)
}.

Definition sender0 : sender := mkSender SIdle [] (fun _ => conn0) 0 0 false [] [].

Record entry := mkEntry { e_sender : nat; e_conn : nat; e_batch : list msg }.

Record receiver := mkRecv {
  r_cap : nat;                         (* cap(msgChannel) *)
  r_queue : list entry;                (* msgChannel contents, then blocked senders *)
  r_backlog : list (nat * msg);        (* readBacklog (ghost sender tag, message) *)
  r_inprog : list (nat * msg);         (* readsInProgress *)
  g_committed : list (nat * msg);      (* ghost: what the receiver's committed sections obtained, in order *)
  g_arrived : list (nat * list msg)    (* ghost: published batches in publication order *)
}.

Record state := mkState { kind : nat -> skind; snd_of : nat -> sender; rcv : receiver }.

Definition init_state (k : nat -> skind) (cap : nat) : state :=
  mkState k (fun _ => sender0) (mkRecv cap [] [] [] [] []).

Definition upd {A} (f : nat -> A) (k : nat) (x : A) : nat -> A :=
  fun n => if Nat.eqb n k then x else f n.

Definition tagged (e : entry) : list (nat * msg) := map (pair (e_sender e)) (e_batch e).
Definition tag_batch (b : nat * list msg) : list (nat * msg) := map (pair (fst b)) (snd b).

(* everything the receiver has got or will get, in order *)
Definition rseq (r : receiver) : list (nat * msg) :=
  g_committed r ++ r_inprog r ++ r_backlog r ++ flat_map tagged (r_queue r).

Definition pending (r : receiver) : list (nat * msg) := r_inprog r ++ r_backlog r ++ flat_map tagged (r_queue r).

Definition of_sender (s : nat) (l : list (nat * msg)) : list msg :=
  map snd (filter (fun p => Nat.eqb (fst p) s) l).

Definition is_owner (s k : nat) (e : entry) : bool := Nat.eqb (e_sender e) s && Nat.eqb (e_conn e) k.

(* the goroutine (s, k) sits in `msgChannel <- ...` *)
Definition blocked (st : state) (s k : nat) : bool :=
  existsb (is_owner s k) (skipn (r_cap (rcv st)) (r_queue (rcv st))).

Definition chan_len (r : receiver) : nat := Nat.min (r_cap r) (List.length (r_queue r)).

Definition push_rec (r : rec) (c : conn) : conn := mkConn (c_stream c ++ [r]) (c_begun c) (c_buf c) (c_ack c).

(* ensureConnection: dial if there is no connection *)
Definition ensure (x : sender) : sender :=
  if s_open x then x
  else mkSender (s_phase x) (s_cur x) (upd (s_conn x) (s_next x) conn0) (s_next x) (S (s_next x)) true (g_sections x) (g_written x).

Definition set_conn (x : sender) (k : nat) (c : conn) : sender :=
  mkSender (s_phase x) (s_cur x) (upd (s_conn x) k c) (s_cid x) (s_next x) (s_open x) (g_sections x) (g_written x).

Definition send_rec (r : rec) (x : sender) : sender := set_conn x (s_cid x) (push_rec r (s_conn x (s_cid x))).

Definition cur_ack (x : sender) : bool := s_open x && c_ack (s_conn x (s_cid x)).

Definition take_ack (x : sender) : sender :=
  let c := s_conn x (s_cid x) in set_conn x (s_cid x) (mkConn (c_stream c) (c_begun c) (c_buf c) false).

Definition set_phase (p : sphase) (cur : list msg) (x : sender) : sender :=
  mkSender p cur (s_conn x) (s_cid x) (s_next x) (s_open x) (g_sections x) (g_written x).

Definition set_sections (l : list (list msg)) (x : sender) : sender :=
  mkSender (s_phase x) (s_cur x) (s_conn x) (s_cid x) (s_next x) (s_open x) l (g_written x).

Definition close_conn (x : sender) : sender :=
  mkSender SIdle [] (s_conn x) (s_cid x) (s_next x) false (g_sections x) (g_written x).

Inductive event :=
(* tcpMailboxesRemote *)
| SWrite (s : nat) (m : msg)     (* WriteValue returns nil *)
| SAbort (s : nat)               (* Abort; the connection stays *)
| SDrop (s : nat)                (* dial / write / pre-commit time-out or error: connection closed, ErrCriticalSectionAborted, then Abort *)
| SPreCommit (s : nat)           (* PreCommit writes its record *)
| SPreAck (s : nat)              (* ... and reads the ack *)
| SCommit (s : nat)              (* Commit writes its record *)
| SComAck (s : nat)              (* ... and reads the ack: inCriticalSection = false *)
(* handleConn of connection k of sender s consumes one record *)
| Deliver (s k : nat)
(* relaxedMailboxesRemote *)
| XWrite (s : nat) (m : msg)     (* WriteValue returns nil *)
| XDrop (s : nat)                (* WriteValue fails: connection closed, section aborts (it has sent nothing) *)
(* OutputChan *)
| OWrite (s : nat) (m : msg)
| OAbort (s : nat)
| OCommit (s : nat)              (* Commit starts its goroutine: the section is committed *)
| OPush (s : nat)                (* res.channel <- next buffered value *)
| ODone (s : nat)
(* other writer of the Go channel an InputChan reads *)
| PPush (s : nat) (m : msg)
(* receiver: tcpMailboxesLocal / relaxedMailboxesLocal / InputChan / CustomInChan *)
| RRead | RReadTimeout | RCommitE | RAbort | RLen | RTick.

Inductive out := ONone | OMsg (m : msg) | ONum (n : nat) | OTick.

Definition set_snd (st : state) (s : nat) (x : sender) : state := mkState (kind st) (upd (snd_of st) s x) (rcv st).
Definition set_rcv (st : state) (r : receiver) : state := mkState (kind st) (snd_of st) r.

Definition publish (r : receiver) (s k : nat) (b : list msg) : receiver :=
  mkRecv (r_cap r) (r_queue r ++ [mkEntry s k b]) (r_backlog r) (r_inprog r) (g_committed r) (g_arrived r ++ [(s, b)]).

Definition kind_eqb (a b : skind) : bool :=
  match a, b with KTcp, KTcp | KRelaxed, KRelaxed | KOut, KOut | KProd, KProd => true | _, _ => false end.

(* one record through handleConn *)
Definition deliver (st : state) (s k : nat) : option state :=
  let x := snd_of st s in
  match kind st s with
  | KTcp | KRelaxed =>
    if blocked st s k then None else
      let c := s_conn x k in
      match c_stream c with
      | [] => None
      | r :: rest =>
        match r with
        | RBegin => Some (set_snd st s (set_conn x k (mkConn rest true [] (c_ack c))))
        | RValue m => if c_begun c then Some (set_snd st s (set_conn x k (mkConn rest true (c_buf c ++ [m]) (c_ack c)))) else None
        | RPreCommit => if c_begun c then Some (set_snd st s (set_conn x k (mkConn rest true (c_buf c) true))) else None
        | RCommit =>
            if c_begun c then
              match c_buf c with
              | [] => Some (set_snd st s (set_conn x k (mkConn rest false [] true)))
              | _ => Some (mkState (kind st)
                             (upd (snd_of st) s (set_sections (g_sections x ++ [c_buf c]) (set_conn x k (mkConn rest false [] true))))
                             (publish (rcv st) s k (c_buf c)))
              end
            else None
        | RPlain m => Some (mkState (kind st)
                              (upd (snd_of st) s (set_sections (g_sections x ++ [[m]]) (set_conn x k (mkConn rest (c_begun c) (c_buf c) (c_ack c)))))
                              (publish (rcv st) s k [m]))
        end
      end
  | _ => None
  end.

Definition step (st : state) (e : event) : option (state * out) :=
  let r := rcv st in
  match e with
  | SWrite s m =>
      let x := snd_of st s in
      if kind_eqb (kind st s) KTcp then
        match s_phase x with
        | SIdle => Some (set_snd st s (set_phase SWriting [m] (send_rec (RValue m) (send_rec RBegin (ensure x)))), ONone)
        | SWriting => Some (set_snd st s (set_phase SWriting (s_cur x ++ [m]) (send_rec (RValue m) (ensure x))), ONone)
        | _ => None
        end
      else None
  | SAbort s =>
      let x := snd_of st s in
      if kind_eqb (kind st s) KTcp then
        match s_phase x with
        | SWriting | SPreOk => Some (set_snd st s (set_phase SIdle [] x), ONone)
        | _ => None
        end
      else None
  | SDrop s =>
      let x := snd_of st s in
      if kind_eqb (kind st s) KTcp then
        match s_phase x with
        | SIdle | SWriting | SPreWait => Some (set_snd st s (close_conn x), ONone)
        | _ => None
        end
      else None
  | SPreCommit s =>
      let x := snd_of st s in
      if kind_eqb (kind st s) KTcp then
        match s_phase x with
        | SWriting => if s_open x then Some (set_snd st s (set_phase SPreWait (s_cur x) (send_rec RPreCommit x)), ONone) else None
        | _ => None
        end
      else None
  | SPreAck s =>
      let x := snd_of st s in
      match s_phase x with
      | SPreWait => if kind_eqb (kind st s) KTcp && cur_ack x then Some (set_snd st s (set_phase SPreOk (s_cur x) (take_ack x)), ONone) else None
      | _ => None
      end
  | SCommit s =>
      let x := snd_of st s in
      match s_phase x with
      | SPreOk => if kind_eqb (kind st s) KTcp && s_open x then Some (set_snd st s (set_phase SComWait (s_cur x) (send_rec RCommit x)), ONone) else None
      | _ => None
      end
  | SComAck s =>
      let x := snd_of st s in
      match s_phase x with
      | SComWait => if kind_eqb (kind st s) KTcp && cur_ack x then Some (set_snd st s (set_phase SIdle [] (take_ack x)), ONone) else None
      | _ => None
      end
  | Deliver s k => match deliver st s k with Some st' => Some (st', ONone) | None => None end
  | XWrite s m =>
      let x := snd_of st s in
      if kind_eqb (kind st s) KRelaxed then
        let y := send_rec (RPlain m) (ensure x) in
        Some (set_snd st s (mkSender (s_phase y) (s_cur y) (s_conn y) (s_cid y) (s_next y) (s_open y) (g_sections y) (g_written y ++ [m])), ONone)
      else None
  | XDrop s =>
      let x := snd_of st s in
      if kind_eqb (kind st s) KRelaxed then Some (set_snd st s (close_conn x), ONone) else None
  | OWrite s m =>
      let x := snd_of st s in
      if kind_eqb (kind st s) KOut then
        match s_phase x with
        | SIdle | SWriting => Some (set_snd st s (set_phase SWriting (s_cur x ++ [m]) x), ONone)
        | _ => None
        end
      else None
  | OAbort s =>
      let x := snd_of st s in
      if kind_eqb (kind st s) KOut then
        match s_phase x with
        | SWriting => Some (set_snd st s (set_phase SIdle [] x), ONone)
        | _ => None
        end
      else None
  | OCommit s =>
      let x := snd_of st s in
      if kind_eqb (kind st s) KOut then
        match s_phase x with
        | SWriting => Some (set_snd st s (set_sections (g_sections x ++ [s_cur x]) (set_phase SPushing (s_cur x) x)), ONone)
        | _ => None
        end
      else None
  | OPush s =>
      let x := snd_of st s in
      match s_phase x, s_cur x with
      | SPushing, m :: rest =>
          if negb (kind_eqb (kind st s) KOut) || blocked st s 0 then None
          else Some (mkState (kind st) (upd (snd_of st) s (set_phase SPushing rest x)) (publish r s 0 [m]), ONone)
      | _, _ => None
      end
  | ODone s =>
      let x := snd_of st s in
      match s_phase x, s_cur x with
      | SPushing, [] => if negb (kind_eqb (kind st s) KOut) || blocked st s 0 then None else Some (set_snd st s (set_phase SIdle [] x), ONone)
      | _, _ => None
      end
  | PPush s m =>
      let x := snd_of st s in
      if kind_eqb (kind st s) KProd then
        if blocked st s 0 then None
        else Some (mkState (kind st) (upd (snd_of st) s (set_sections (g_sections x ++ [[m]]) x)) (publish r s 0 [m]), ONone)
      else None
  | RRead =>
      match r_backlog r with
      | p :: b => Some (set_rcv st (mkRecv (r_cap r) (r_queue r) b (r_inprog r ++ [p]) (g_committed r) (g_arrived r)), OMsg (snd p))
      | [] =>
          match r_queue r with
          | e :: q =>
              match e_batch e with
              | m :: ms => Some (set_rcv st (mkRecv (r_cap r) q (map (pair (e_sender e)) ms) (r_inprog r ++ [(e_sender e, m)])
                                                    (g_committed r) (g_arrived r)), OMsg m)
              | [] => None
              end
          | [] => None    (* waits; RReadTimeout / RTick if nothing comes *)
          end
      end
  | RReadTimeout | RAbort =>
      match e, r_backlog r with
      | RReadTimeout, _ :: _ => None
      | _, _ => Some (set_rcv st (mkRecv (r_cap r) (r_queue r) (r_inprog r ++ r_backlog r) [] (g_committed r) (g_arrived r)), ONone)
      end
  | RCommitE => Some (set_rcv st (mkRecv (r_cap r) (r_queue r) (r_backlog r) [] (g_committed r ++ r_inprog r) (g_arrived r)), ONone)
  | RLen =>
      match r_backlog r, r_queue r with
      | [], e :: q =>
          if Nat.ltb 0 (chan_len r)
          then Some (set_rcv st (mkRecv (r_cap r) q (tagged e) (r_inprog r) (g_committed r) (g_arrived r)), ONum (List.length (e_batch e)))
          else Some (st, ONum 0)
      | b, _ => Some (st, ONum (List.length b))
      end
  | RTick => match r_backlog r with [] => Some (st, OTick) | _ => None end
  end.

Fixpoint run (st : state) (evs : list event) : option (state * list out) :=
  match evs with
  | [] => Some (st, [])
  | e :: rest =>
      match step st e with
      | Some (st', o) => match run st' rest with Some (st'', os) => Some (st'', o :: os) | None => None end
      | None => None
      end
  end.

(* ---- correspondence ---- *)
(* the handlers of sender s consume all they can (they are goroutines that run as soon as there is something to read) *)
Fixpoint drain_conn (fuel : nat) (st : state) (s k : nat) : state :=
  match fuel with
  | O => st
  | S f => match deliver st s k with Some st' => drain_conn f st' s k | None => st end
  end.

Fixpoint drain_conns (fuel : nat) (st : state) (s : nat) (ks : list nat) : state :=
  match ks with [] => st | k :: ks' => drain_conns fuel (drain_conn fuel st s k) s ks' end.

Definition drain_sender (st : state) (s : nat) : state :=
  drain_conns 1000 st s (seq 0 (s_next (snd_of st s))).

Fixpoint drain_all (st : state) (ss : list nat) : state :=
  match ss with [] => st | s :: ss' => drain_all (drain_sender st s) ss' end.

(* OutputChan commit goroutines push all they can *)
Fixpoint push_all (fuel : nat) (st : state) (s : nat) : state :=
  match fuel with
  | O => st
  | S f => match step st (OPush s) with
           | Some (st', _) => push_all f st' s
           | None => match step st (ODone s) with Some (st', _) => st' | None => st end
           end
  end.

Fixpoint settle_outs (st : state) (ss : list nat) : state :=
  match ss with [] => st | s :: ss' => settle_outs (push_all 1000 st s) ss' end.

(* all asynchronous parties run to quiescence, in sender order, twice (a read may unblock a handler) *)
Definition settle (st : state) (ss : list nat) : state :=
  drain_all (settle_outs (drain_all (settle_outs st ss) ss) ss) ss.

Definition out_eqb (a b : out) : bool :=
  match a, b with
  | ONone, ONone | OTick, OTick => true
  | OMsg x, OMsg y => Z.eqb x y
  | ONum x, ONum y => Nat.eqb x y
  | _, _ => false
  end.

(* the harness' steps: an event with the implementation's output, settled afterwards;
   `must_block` : the step was observed to time out because the peer did not answer, which in a single-driver
   run happens only if the handler is blocked on the full receive queue *)
Inductive item := IEv (e : event) (o : out) | IBlockedDrop (s : nat).

Fixpoint check_run (ss : list nat) (st : state) (l : list item) : bool :=
  match l with
  | [] => true
  | IEv e o :: rest =>
      match step st e with
      | Some (st', o') => out_eqb o o' && check_run ss (settle st' ss) rest
      | None => false
      end
  | IBlockedDrop s :: rest =>
      (* the ack did not come: the current handler must be blocked *)
      blocked st s (s_cid (snd_of st s)) &&
      match step st (SDrop s) with
      | Some (st', _) => check_run ss (settle st' ss) rest
      | None => false
      end
  end.

Definition kind_of (ks : list skind) (n : nat) : skind := nth n ks KProd.

Fixpoint mismatches_from (i : nat) (cases : list (list skind * nat * list item)) : list nat :=
  match cases with
  | [] => []
  | (ks, cap, l) :: rest =>
      let m := mismatches_from (S i) rest in
      if check_run (seq 0 (List.length ks)) (init_state (kind_of ks) cap) l then m else i :: m
  end.
