(* C06 — proofs, part 4: the acknowledgement of a commit record never waits for the receive queue. *)
From PGV Require Import C06.Model C06.Proofs C06.Proofs2 C06.Proofs3.
From Coq Require Import Lia.

(* the sender is past its pre-commit and the handler of its current connection has not yet consumed the commit record
   (or the commit record is not written yet) *)
Definition awaiting (x : sender) : Prop :=
  s_open x = true /\
  (s_phase x = SPreOk \/
   (s_phase x = SPreWait /\ c_ack (s_conn x (s_cid x)) = true) \/
   (s_phase x = SComWait /\ In RCommit (c_stream (s_conn x (s_cid x))))).

Definition InvE (st : state) : Prop :=
  forall s, kind st s = KTcp -> awaiting (snd_of st s) -> blocked st s (s_cid (snd_of st s)) = false.

Lemma existsb_skipn_tl : forall A (P : A -> bool) n q, existsb P (skipn n (tl q)) = true -> existsb P (skipn n q) = true.
Proof.
  intros A P n q. revert n. induction q as [|a q IH]; intros n H; [destruct n; exact H|].
  destruct n as [|n]; simpl in *.
  - rewrite H. apply orb_true_r.
  - destruct q as [|b q]; [destruct n; discriminate|]. apply (IH n). simpl. exact H.
Qed.

Lemma existsb_skipn_snoc : forall A (P : A -> bool) n q e, P e = false -> existsb P (skipn n (q ++ [e])) = existsb P (skipn n q).
Proof.
  intros A P n q e He. revert n. induction q as [|a q IH]; intros n; simpl.
  - destruct n as [|[|n]]; simpl; rewrite ?He; reflexivity.
  - destruct n as [|n]; simpl; [|apply IH]. rewrite existsb_app. simpl. rewrite He. now rewrite !orb_false_r.
Qed.

Lemma blocked_publish_other : forall st x r s k s' k' b,
  (s', k') <> (s, k) ->
  blocked (mkState (kind st) x (publish r s' k' b)) s k = blocked (mkState (kind st) x r) s k.
Proof.
  intros st x r s k s' k' b Hne. unfold blocked, publish. cbn [rcv r_cap r_queue].
  apply existsb_skipn_snoc. unfold is_owner. cbn [e_sender e_conn].
  destruct (Nat.eqb s' s) eqn:E1; [|reflexivity]. destruct (Nat.eqb k' k) eqn:E2; [|reflexivity].
  apply Nat.eqb_eq in E1, E2. subst. congruence.
Qed.

Lemma blocked_queue : forall st st' s k,
  r_cap (rcv st') = r_cap (rcv st) ->
  (r_queue (rcv st') = r_queue (rcv st) \/ r_queue (rcv st') = tl (r_queue (rcv st))) ->
  blocked st s k = false -> blocked st' s k = false.
Proof.
  intros st st' s k Hc Hq Hb. unfold blocked in *. rewrite Hc. destruct Hq as [-> | ->]; [exact Hb|].
  destruct (existsb (is_owner s k) (skipn (r_cap (rcv st)) (tl (r_queue (rcv st))))) eqn:E; [|reflexivity].
  apply existsb_skipn_tl in E. congruence.
Qed.

Lemma invE_init : forall k cap, InvE (init_state k cap).
Proof. intros k cap s _ _. unfold blocked. simpl. now destruct cap. Qed.

(* receiver events only shorten the queue from the front *)
Lemma recv_queue : forall st e st' o,
  step st e = Some (st', o) ->
  match e with RRead | RReadTimeout | RCommitE | RAbort | RLen | RTick => True | _ => False end ->
  snd_of st' = snd_of st /\ kind st' = kind st /\ r_cap (rcv st') = r_cap (rcv st) /\
  (r_queue (rcv st') = r_queue (rcv st) \/ r_queue (rcv st') = tl (r_queue (rcv st))).
Proof.
  intros st e st' o H He. destruct e; try destruct He; step_inv H; cbn [rcv set_rcv snd_of kind r_cap r_queue]; rewrite ?Eq; simpl; auto.
Qed.

Lemma deliver_sender : forall st s k st',
  deliver st s k = Some st' ->
  s_cid (snd_of st' s) = s_cid (snd_of st s) /\ s_open (snd_of st' s) = s_open (snd_of st s) /\
  s_phase (snd_of st' s) = s_phase (snd_of st s) /\
  (forall k', k' <> k -> s_conn (snd_of st' s) k' = s_conn (snd_of st s) k') /\
  (forall s', s' <> s -> snd_of st' s' = snd_of st s') /\ kind st' = kind st.
Proof.
  intros st s k st' H. deliver_inv H; cbn [set_snd snd_of kind]; rewrite upd_same; unfold set_sections, set_conn;
    cbn [s_cid s_open s_phase s_conn]; (repeat split; auto; [intros k' Hk'; now rewrite upd_other | intros s' Hs'; now rewrite upd_other]).
Qed.

Lemma blocked_rcv : forall st1 st2 s k, rcv st1 = rcv st2 -> blocked st1 s k = blocked st2 s k.
Proof. intros st1 st2 s k H. unfold blocked. now rewrite H. Qed.

Lemma invE_step : forall st e st' o, InvC st -> InvN st -> InvE st -> step st e = Some (st', o) -> InvE st'.
Proof.
  intros st e st' o HC HN HE H.
  assert (Hrecv : match e with RRead | RReadTimeout | RCommitE | RAbort | RLen | RTick => True | _ => False end -> InvE st').
  { intro He. destruct (recv_queue _ _ _ _ H He) as (Hs & Hk & Hc & Hq). intros s Hks Haw. rewrite Hs, Hk in *.
    eapply blocked_queue; eauto. }
  (* a step that leaves the receiver alone and touches only sender s0, which is not awaiting afterwards or was awaiting before *)
  assert (Hsnd : forall s0 x', st' = set_snd st s0 x' ->
            (kind st s0 = KTcp -> awaiting x' -> awaiting (snd_of st s0) /\ s_cid x' = s_cid (snd_of st s0)) -> InvE st').
  { intros s0 x' -> Hx s Hks Haw. cbn [set_snd kind snd_of] in *. unfold blocked in *. cbn [rcv set_snd].
    rewrite upd_if in *. eqb_case s s0.
    - destruct (Hx Hks Haw) as [Ha Hc]. rewrite Hc. now apply HE.
    - now apply HE. }
  destruct e; try (apply Hrecv; exact I).
  - (* SWrite *) step_inv H; eapply Hsnd; try reflexivity; intros _ (_ & [Hp|[[Hp _]|[Hp _]]]); discriminate.
  - step_inv H; eapply Hsnd; try reflexivity; intros _ (_ & [Hp|[[Hp _]|[Hp _]]]); discriminate.
  - step_inv H; eapply Hsnd; try reflexivity; intros _ (Ho & _); discriminate.
  - (* SPreCommit *)
    step_inv H. eapply Hsnd; try reflexivity. intros Hk (_ & [Hp|[[_ Ha]|[Hp _]]]); try discriminate.
    exfalso. destruct (HC s Hk) as (_ & H2 & _). specialize (H2 Ec0). rewrite Eph in H2. destruct H2 as (_ & _ & Hack & _).
    revert Ha. unfold send_rec, set_conn, set_phase, push_rec. cbn [s_conn s_cid c_ack]. rewrite upd_same. cbn [c_ack]. congruence.
  - (* SPreAck *)
    step_inv H. apply andb_true_iff in Ec as [_ Ea]. unfold cur_ack in Ea. apply andb_true_iff in Ea as [Eo Ea].
    eapply Hsnd; try reflexivity. intros _ _. split; [|reflexivity]. split; [exact Eo|]. right. left. auto.
  - (* SCommit *)
    step_inv H. apply andb_true_iff in Ec as [_ Eo].
    eapply Hsnd; try reflexivity. intros _ _. split; [|reflexivity]. split; [exact Eo|]. left. exact Eph.
  - (* SComAck *) step_inv H. eapply Hsnd; try reflexivity; intros _ (_ & [Hp|[[Hp _]|[Hp _]]]); discriminate.
  - (* Deliver *)
    step_inv H. rename s into s0.
    assert (Hnb : blocked st s0 k = false) by (deliver_inv Edel; first [assumption|reflexivity]).
    intros s Hks Haw.
    (* generic facts about the step *)
    assert (Hkind : kind st' = kind st) by (deliver_inv Edel; reflexivity).
    rewrite Hkind in Hks.
    destruct (Nat.eq_dec s s0) as [->|Hne].
    + (* the sender whose handler moved *)
      pose proof (HC s0 Hks) as Hx.
      destruct (deliver_sender _ _ _ _ Edel) as (Hcid & Hop & Hph & Hconn & _ & _).
      rewrite Hcid.
      destruct (Nat.eq_dec k (s_cid (snd_of st s0))) as [->|Hck].
      * (* current connection *)
        destruct (deliver_rcv _ _ _ _ Edel) as [Hr|(b & Hb & Hr)].
        -- rewrite (blocked_rcv st' st) by exact Hr. exact Hnb.
        -- (* something was published: the record was the commit record, after which nothing is awaited *)
           exfalso. destruct Haw as (Ho & Haw). rewrite Hcid, Hph in Haw. rewrite Hop in Ho.
           destruct Hx as (_ & H2 & _). specialize (H2 Ho).
           pose proof (HN s0 (s_cid (snd_of st s0)) Hks) as Hnp.
           deliver_inv Edel; cbn [rcv set_snd snd_of] in *; rewrite ?upd_same in *;
             unfold set_sections, set_conn in Haw; cbn [s_conn] in Haw; rewrite ?upd_same in Haw; cbn [c_ack c_stream] in Haw;
             try (symmetry in Hr; unfold publish in Hr; apply (f_equal r_queue) in Hr; cbn [r_queue] in Hr;
                  apply (f_equal (@List.length entry)) in Hr; rewrite app_length in Hr; simpl in Hr; lia);
             try (rewrite ?Estr in Hnp; apply noplain_tail in Hnp as [_ Hpl]; discriminate).
           all: unfold CurOK in H2; rewrite Estr in H2; destruct Haw as [Hp|[[Hp _]|[Hp Hin]]]; rewrite Hp in H2.
           all: try (destruct H2 as (Hn & _); rewrite ncommit_cons in Hn; simpl in Hn; lia).
           all: destruct H2 as (_ & [(pre & Hs & Hn & _)|Hn]); [|rewrite ncommit_cons in Hn; simpl in Hn; lia].
           all: destruct pre as [|r0 pre]; simpl in Hs; inversion Hs; subst; [destruct Hin|rewrite ncommit_cons in Hn; simpl in Hn; lia].
      * (* an old connection of the same sender *)
        assert (Haw0 : awaiting (snd_of st s0)).
        { destruct Haw as (Ho & Haw). rewrite Hcid, Hph, (Hconn _ (not_eq_sym Hck)) in Haw. rewrite Hop in Ho. split; assumption. }
        specialize (HE s0 Hks Haw0).
        destruct (deliver_rcv _ _ _ _ Edel) as [Hr|(b & Hb & Hr)].
        -- rewrite (blocked_rcv st' st) by exact Hr. exact HE.
        -- unfold blocked in *. rewrite Hr. unfold publish. cbn [r_cap r_queue].
           rewrite existsb_skipn_snoc; [exact HE|]. unfold is_owner. cbn [e_sender e_conn].
           rewrite Nat.eqb_refl. simpl. apply Nat.eqb_neq. exact Hck.
    + (* another sender: the queue only grows at the end, by somebody else's entry *)
      assert (Hs : snd_of st' s = snd_of st s) by (deliver_inv Edel; cbn [set_snd snd_of]; now rewrite upd_other).
      rewrite Hs in *.
      destruct (deliver_rcv _ _ _ _ Edel) as [Hr|(b & _ & Hr)].
      * unfold blocked in *. rewrite Hr. now apply HE.
      * specialize (HE s Hks Haw). unfold blocked in *. rewrite Hr. unfold publish. cbn [r_cap r_queue].
        rewrite existsb_skipn_snoc; [exact HE|]. unfold is_owner. cbn [e_sender e_conn].
        destruct (Nat.eqb s0 s) eqn:E; [apply Nat.eqb_eq in E; congruence|reflexivity].
  - (* XWrite *) step_inv H. apply kind_eqb_eq in Ec. eapply Hsnd; try reflexivity. intros Hk; congruence.
  - step_inv H. apply kind_eqb_eq in Ec. eapply Hsnd; try reflexivity. intros Hk; congruence.
  - step_inv H; apply kind_eqb_eq in Ec; (eapply Hsnd; try reflexivity); intros Hk; congruence.
  - step_inv H; apply kind_eqb_eq in Ec; (eapply Hsnd; try reflexivity); intros Hk; congruence.
  - step_inv H; apply kind_eqb_eq in Ec; (eapply Hsnd; try reflexivity); intros Hk; congruence.
  - (* OPush *)
    step_inv H. apply orb_false_iff in Ec as [Ec _]. apply negb_false_iff in Ec. apply kind_eqb_eq in Ec.
    intros s0 Hks Haw. cbn [kind snd_of] in *. rewrite upd_if in *. eqb_case s0 s; [congruence|].
    rewrite blocked_publish_other by congruence. now apply HE.
  - step_inv H. apply orb_false_iff in Ec as [Ec _]. apply negb_false_iff in Ec. apply kind_eqb_eq in Ec.
    eapply Hsnd; try reflexivity. intros Hk; congruence.
  - (* PPush *)
    step_inv H. apply kind_eqb_eq in Ec.
    intros s0 Hks Haw. cbn [kind snd_of] in *. rewrite upd_if in *. eqb_case s0 s; [congruence|].
    rewrite blocked_publish_other by congruence. now apply HE.
Qed.

Lemma invE_reachable : forall k cap st, reachable k cap st -> InvC st /\ InvN st /\ InvE st.
Proof.
  intros k cap. apply reachable_ind.
  - split; [apply invC_init|]. split; [intros s c _; reflexivity|apply invE_init].
  - intros st e st' o (HC & HN & HE) H. split; [eapply invC_step; eauto|]. split; [eapply invN_step; eauto|eapply invE_step; eauto].
Qed.

(* whenever a TCP sender is past its pre-commit and the commit record has not been consumed yet (written or not), the
   handler that has to consume it and write the acknowledgement is not blocked on the receive queue: a slow or stopped
   receiver cannot delay a commit acknowledgement *)
Lemma commit_ack_lemma : forall k cap st s,
  reachable k cap st -> kind st s = KTcp -> awaiting (snd_of st s) -> blocked st s (s_cid (snd_of st s)) = false.
Proof. intros k cap st s R Hk Ha. destruct (invE_reachable _ _ _ R) as (_ & _ & HE). now apply HE. Qed.
