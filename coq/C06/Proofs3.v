(* C06 — proofs, part 3: what the handler publishes at a commit record is exactly the sender's section
   (invariant C); relaxed mailboxes on one connection; the relaxed-mailbox reordering witness. *)
From PGV Require Import C06.Model C06.Proofs C06.Proofs2.
From Coq Require Import Lia.

(* the handler state after it will have consumed the whole stream *)
Fixpoint virt (b : bool) (buf : list msg) (l : list rec) : bool * list msg :=
  match l with
  | [] => (b, buf)
  | RBegin :: l' => virt true [] l'
  | RValue m :: l' => virt b (buf ++ [m]) l'
  | RPreCommit :: l' => virt b buf l'
  | RCommit :: l' => virt false [] l'
  | RPlain _ :: l' => virt b buf l'
  end.

Definition is_commit (r : rec) : bool := match r with RCommit => true | _ => false end.
Definition is_pre (r : rec) : bool := match r with RPreCommit => true | _ => false end.
Definition ncommit (l : list rec) : nat := List.length (filter is_commit l).
Definition npre (l : list rec) : nat := List.length (filter is_pre l).

Lemma virt_app : forall l1 l2 b buf, virt b buf (l1 ++ l2) = virt (fst (virt b buf l1)) (snd (virt b buf l1)) l2.
Proof. induction l1 as [|r l1 IH]; intros l2 b buf; [reflexivity|]. destruct r; simpl; apply IH. Qed.

Lemma ncommit_app : forall l1 l2, ncommit (l1 ++ l2) = ncommit l1 + ncommit l2.
Proof. intros. unfold ncommit. now rewrite filter_app, app_length. Qed.

Lemma npre_app : forall l1 l2, npre (l1 ++ l2) = npre l1 + npre l2.
Proof. intros. unfold npre. now rewrite filter_app, app_length. Qed.

Definition CurOK (p : sphase) (cur : list msg) (c : conn) : Prop :=
  let str := c_stream c in
  let v := virt (c_begun c) (c_buf c) str in
  match p with
  | SIdle => ncommit str = 0 /\ npre str = 0 /\ c_ack c = false
  | SWriting | SPreOk => ncommit str = 0 /\ npre str = 0 /\ c_ack c = false /\ v = (true, cur)
  | SPreWait => ncommit str = 0 /\ v = (true, cur) /\ ((c_ack c = false /\ npre str = 1) \/ (c_ack c = true /\ npre str = 0))
  | SComWait => npre str = 0 /\
                ((exists pre, str = pre ++ [RCommit] /\ ncommit pre = 0 /\ virt (c_begun c) (c_buf c) pre = (true, cur) /\ c_ack c = false)
                 \/ ncommit str = 0)
  | SPushing => False
  end.

Definition SenderOK (x : sender) : Prop :=
  (forall k, s_open x = false \/ k <> s_cid x -> ncommit (c_stream (s_conn x k)) = 0) /\
  (s_open x = true -> CurOK (s_phase x) (s_cur x) (s_conn x (s_cid x))) /\
  (s_open x = false -> s_phase x = SIdle).

Definition InvC (st : state) : Prop := forall s, kind st s = KTcp -> SenderOK (snd_of st s).

Lemma invC_init : forall k cap, InvC (init_state k cap).
Proof. intros k cap s _. split; [reflexivity|]. split; [discriminate|reflexivity]. Qed.

Lemma invC_update : forall st s x', InvC st -> (kind st s = KTcp -> SenderOK x') -> InvC (set_snd st s x').
Proof.
  intros st s x' HC Hx s0 Hk. cbn [set_snd kind snd_of] in *. rewrite upd_if. eqb_case s0 s; auto.
Qed.

Lemma senderok_open : forall x,
  s_open x = true ->
  (forall k, k <> s_cid x -> ncommit (c_stream (s_conn x k)) = 0) ->
  CurOK (s_phase x) (s_cur x) (s_conn x (s_cid x)) -> SenderOK x.
Proof. intros x Ho H1 H2. split; [intros k [Hk|Hk]; [congruence|auto]|]. split; [auto|congruence]. Qed.

Ltac sc := unfold send_rec, take_ack; cbn zeta; unfold send_rec, set_conn, set_phase, close_conn, set_sections, push_rec;
           cbn [s_conn s_cid s_open s_phase s_cur s_next c_stream c_begun c_buf c_ack]; rewrite ?upd_same;
           cbn [s_conn s_cid s_open s_phase s_cur s_next c_stream c_begun c_buf c_ack].

Lemma ncommit_cons : forall r l, ncommit (r :: l) = (if is_commit r then 1 else 0) + ncommit l.
Proof. intros. unfold ncommit. simpl. destruct (is_commit r); reflexivity. Qed.
Lemma npre_cons : forall r l, npre (r :: l) = (if is_pre r then 1 else 0) + npre l.
Proof. intros. unfold npre. simpl. destruct (is_pre r); reflexivity. Qed.

(* sender-side events of a TCP sender *)
Lemma senderok_swrite_idle : forall x m,
  SenderOK x -> s_phase x = SIdle ->
  SenderOK (set_phase SWriting [m] (send_rec (RValue m) (send_rec RBegin (ensure x)))).
Proof.
  intros x m (H1 & H2 & H3) Hp. unfold ensure. destruct (s_open x) eqn:Eo.
  - apply senderok_open; sc; [first [reflexivity|assumption] | | ].
    + intros k Hk. rewrite ?upd_other by assumption. apply H1. now right.
    + specialize (H2 eq_refl). rewrite Hp in H2. destruct H2 as (Hn & Hq & Ha). unfold CurOK. cbn [c_stream c_begun c_buf c_ack].
      rewrite !ncommit_app, !npre_app, Hn, Hq, Ha, !virt_app. simpl. auto.
  - apply senderok_open; sc; [first [reflexivity|assumption] | | ].
    + intros k Hk. rewrite ?upd_other by assumption. apply H1. now left.
    + unfold CurOK. simpl. auto.
Qed.

Lemma senderok_swrite_more : forall x m,
  SenderOK x -> s_phase x = SWriting ->
  SenderOK (set_phase SWriting (s_cur x ++ [m]) (send_rec (RValue m) (ensure x))).
Proof.
  intros x m (H1 & H2 & H3) Hp. unfold ensure. destruct (s_open x) eqn:Eo; [|rewrite H3 in Hp by reflexivity; discriminate].
  apply senderok_open; sc; [first [reflexivity|assumption] | | ].
  - intros k Hk. rewrite ?upd_other by assumption. apply H1. now right.
  - specialize (H2 eq_refl). rewrite Hp in H2. destruct H2 as (Hn & Hq & Ha & Hv). unfold CurOK. cbn [c_stream c_begun c_buf c_ack].
    rewrite !ncommit_app, !npre_app, Hn, Hq, Ha, !virt_app, Hv. simpl. auto.
Qed.

Lemma senderok_sabort : forall x,
  SenderOK x -> s_phase x = SWriting \/ s_phase x = SPreOk -> SenderOK (set_phase SIdle [] x).
Proof.
  intros x (H1 & H2 & H3) Hp. destruct (s_open x) eqn:Eo.
  - apply senderok_open; sc; [first [reflexivity|assumption] | intros k Hk; apply H1; now right | ].
    specialize (H2 eq_refl). destruct Hp as [Hp|Hp]; rewrite Hp in H2; destruct H2 as (Hn & Hq & Ha & _); unfold CurOK; auto.
  - destruct Hp as [Hp|Hp]; rewrite H3 in Hp by reflexivity; discriminate.
Qed.

Lemma senderok_sdrop : forall x,
  SenderOK x -> s_phase x = SIdle \/ s_phase x = SWriting \/ s_phase x = SPreWait -> SenderOK (close_conn x).
Proof.
  intros x (H1 & H2 & H3) Hp. unfold SenderOK, close_conn. cbn [s_open s_conn s_cid s_phase s_cur].
  split; [|split; [discriminate|reflexivity]]. intros k _.
  destruct (s_open x) eqn:Eo; [|apply H1; now left].
  destruct (Nat.eq_dec k (s_cid x)) as [->|Hk]; [|apply H1; now right].
  specialize (H2 eq_refl). destruct Hp as [Hp|[Hp|Hp]]; rewrite Hp in H2; unfold CurOK in H2; tauto.
Qed.

Lemma senderok_sprecommit : forall x,
  SenderOK x -> s_phase x = SWriting -> s_open x = true -> SenderOK (set_phase SPreWait (s_cur x) (send_rec RPreCommit x)).
Proof.
  intros x (H1 & H2 & H3) Hp Eo. apply senderok_open; sc; [first [reflexivity|assumption] | | ].
  - intros k Hk. rewrite ?upd_other by assumption. apply H1. now right.
  - specialize (H2 Eo). rewrite Hp in H2. destruct H2 as (Hn & Hq & Ha & Hv). unfold CurOK. cbn [c_stream c_begun c_buf c_ack].
    rewrite !ncommit_app, !npre_app, Hn, Hq, Ha, !virt_app, Hv. simpl. auto.
Qed.

Lemma senderok_spreack : forall x,
  SenderOK x -> s_phase x = SPreWait -> cur_ack x = true -> SenderOK (set_phase SPreOk (s_cur x) (take_ack x)).
Proof.
  intros x (H1 & H2 & H3) Hp Ha. unfold cur_ack in Ha. apply andb_true_iff in Ha as [Eo Ha].
  apply senderok_open; sc; [first [reflexivity|assumption] | | ].
  - intros k Hk. rewrite ?upd_other by assumption. apply H1. now right.
  - specialize (H2 Eo). rewrite Hp in H2. destruct H2 as (Hn & Hv & [[Hf _]|[_ Hq]]); [congruence|].
    unfold CurOK. cbn [c_stream c_begun c_buf c_ack]. auto.
Qed.

Lemma senderok_scommit : forall x,
  SenderOK x -> s_phase x = SPreOk -> s_open x = true -> SenderOK (set_phase SComWait (s_cur x) (send_rec RCommit x)).
Proof.
  intros x (H1 & H2 & H3) Hp Eo. apply senderok_open; sc; [first [reflexivity|assumption] | | ].
  - intros k Hk. rewrite ?upd_other by assumption. apply H1. now right.
  - specialize (H2 Eo). rewrite Hp in H2. destruct H2 as (Hn & Hq & Ha & Hv). unfold CurOK. cbn [c_stream c_begun c_buf c_ack].
    rewrite npre_app, Hq. split; [reflexivity|]. left. exists (c_stream (s_conn x (s_cid x))). auto.
Qed.

Lemma senderok_scomack : forall x,
  SenderOK x -> s_phase x = SComWait -> cur_ack x = true -> SenderOK (set_phase SIdle [] (take_ack x)).
Proof.
  intros x (H1 & H2 & H3) Hp Ha. unfold cur_ack in Ha. apply andb_true_iff in Ha as [Eo Ha].
  apply senderok_open; sc; [first [reflexivity|assumption] | | ].
  - intros k Hk. rewrite ?upd_other by assumption. apply H1. now right.
  - specialize (H2 Eo). rewrite Hp in H2. destruct H2 as (Hq & [(pre & _ & _ & _ & Hf)|Hn]); [congruence|].
    unfold CurOK. cbn [c_stream c_begun c_buf c_ack]. auto.
Qed.

(* the handler consumes one record of connection k *)
Lemma senderok_deliver : forall x k r rest c',
  SenderOK x -> c_stream (s_conn x k) = r :: rest ->
  let c := s_conn x k in
  c_stream c' = rest ->
  (* the handler's step *)
  (c_begun c', c_buf c') = match r with
                           | RBegin => (true, [])
                           | RValue m => (true, c_buf c ++ [m])
                           | RPreCommit => (true, c_buf c)
                           | RCommit => (false, [])
                           | RPlain _ => (c_begun c, c_buf c)
                           end ->
  (match r with RValue _ | RPreCommit | RCommit => c_begun c = true | _ => True end) ->
  c_ack c' = (if is_pre r || is_commit r then true else c_ack c) ->
  forall sections,
  SenderOK (set_sections sections (set_conn x k c')) /\
  (r = RCommit -> s_open x = true /\ k = s_cid x /\ s_phase x = SComWait /\ c_buf c = s_cur x).
Proof.
  intros x k r rest c' (H1 & H2 & H3) Hstr c Hrest Hstep Hguard Hack sections.
  assert (Hvirt : forall l, virt (c_begun c') (c_buf c') l = virt (c_begun c) (c_buf c) (r :: l)).
  { intro l. destruct r; simpl; inversion Hstep as [[Hb1 Hb2]]; rewrite ?Hb1, ?Hb2; try reflexivity; simpl in Hguard; rewrite Hguard; reflexivity. }
  assert (Hstr' : c_stream c = r :: rest) by exact Hstr.
  assert (Hnc : ncommit (c_stream c) = (if is_commit r then 1 else 0) + ncommit rest) by (unfold c; rewrite Hstr; apply ncommit_cons).
  assert (Hnp : npre (c_stream c) = (if is_pre r then 1 else 0) + npre rest) by (unfold c; rewrite Hstr; apply npre_cons).
  destruct (s_open x) eqn:Eo.
  2:{ (* closed: an old connection *)
      assert (H0 : ncommit (c_stream c) = 0) by (apply H1; now left).
      split; [|intros ->; simpl in Hnc; lia].
      unfold SenderOK, set_sections, set_conn. cbn [s_open s_conn s_cid s_phase s_cur]. rewrite Eo.
      split; [|split; [discriminate|auto]]. intros k' _. rewrite upd_if. eqb_case k' k; [rewrite Hrest; lia|apply H1; now left]. }
  destruct (Nat.eq_dec k (s_cid x)) as [->|Hk].
  2:{ assert (H0 : ncommit (c_stream c) = 0) by (apply H1; now right).
      split; [|intros ->; simpl in Hnc; lia].
      apply senderok_open; unfold set_sections, set_conn; cbn [s_open s_conn s_cid s_phase s_cur]; auto.
      - intros k' Hk'. rewrite upd_if. eqb_case k' k; [rewrite Hrest; lia|apply H1; now right].
      - rewrite upd_other by congruence. now apply H2. }
  (* the current connection *)
  specialize (H2 eq_refl). fold c in H2.
  assert (Hgoal : CurOK (s_phase x) (s_cur x) c' /\ (r = RCommit -> s_phase x = SComWait /\ c_buf c = s_cur x)).
  { unfold CurOK in *. rewrite Hrest. cbn zeta in *.
    destruct (s_phase x) eqn:Ep.
    - destruct H2 as (Hn & Hq & Ha). rewrite Hn in Hnc. rewrite Hq in Hnp.
      destruct r; simpl in *; try lia; (split; [rewrite Hack; repeat split; auto; lia|discriminate]).
    - destruct H2 as (Hn & Hq & Ha & Hv). rewrite Hn in Hnc. rewrite Hq in Hnp. rewrite Hstr' in Hv.
      destruct r; simpl in Hnc, Hnp; try lia; (split; [rewrite Hack; simpl; repeat split; auto; try lia; rewrite Hvirt; exact Hv|discriminate]).
    - destruct H2 as (Hn & Hv & Hd). rewrite Hn in Hnc. rewrite Hstr' in Hv.
      destruct r; simpl in Hnc, Hnp; try lia; (split; [|discriminate]); (split; [lia|]); (split; [rewrite Hvirt; exact Hv|]);
        rewrite Hack; simpl; try (destruct Hd as [[Ha Hq]|[Ha Hq]]; [left|right]; split; auto; lia).
      destruct Hd as [[Ha Hq]|[Ha Hq]]; [right; split; auto; lia|lia].
    - destruct H2 as (Hn & Hq & Ha & Hv). rewrite Hn in Hnc. rewrite Hq in Hnp. rewrite Hstr' in Hv.
      destruct r; simpl in Hnc, Hnp; try lia; (split; [rewrite Hack; simpl; repeat split; auto; try lia; rewrite Hvirt; exact Hv|discriminate]).
    - destruct H2 as (Hq & Hd). rewrite Hq in Hnp.
      destruct Hd as [(pre & Hs & Hn & Hv & Ha)|Hn].
      + rewrite Hstr' in Hs. destruct pre as [|r0 pre].
        * simpl in Hs. inversion Hs; subst r rest. simpl in Hv. inversion Hv. split; [|auto].
          split; [reflexivity|]. right. reflexivity.
        * simpl in Hs. inversion Hs as [[Hr0 Hrest']]. subst r0. rewrite ncommit_cons in Hn.
          assert (Hr : is_commit r = false /\ is_pre r = false) by (destruct r; simpl in *; split; auto; lia).
          destruct Hr as [Hr1 Hr2]. split; [|intros ->; discriminate].
          rewrite Hr2 in Hnp. rewrite <- Hrest'. split; [simpl in Hnp; lia|]. left. exists pre.
          rewrite Hvirt, Hack, Hr1, Hr2. simpl. rewrite Hr1 in Hn. simpl in Hn. auto.
      + rewrite Hn in Hnc. destruct r; simpl in Hnc, Hnp; try lia; (split; [split; [lia|right; lia]|discriminate]).
    - destruct H2. }
  destruct Hgoal as [Hc Hcommit].
  split; [|intros Hr; destruct (Hcommit Hr); auto].
  apply senderok_open; unfold set_sections, set_conn; cbn [s_open s_conn s_cid s_phase s_cur]; auto.
  - intros k' Hk'. rewrite upd_other by assumption. apply H1. now right.
  - now rewrite upd_same.
Qed.

Lemma invC_frame : forall st st',
  InvC st -> kind st' = kind st -> (forall s, kind st s = KTcp -> snd_of st' s = snd_of st s) -> InvC st'.
Proof. intros st st' HC Hk Hs s Hks. rewrite Hk in Hks. rewrite (Hs s Hks). now apply HC. Qed.

Lemma invC_step : forall st e st' o, InvC st -> step st e = Some (st', o) -> InvC st'.
Proof.
  intros st e st' o HC H.
  destruct e.
  - step_inv H; apply invC_update; auto; intro Hk; [apply senderok_swrite_idle|apply senderok_swrite_more]; auto.
  - step_inv H; apply invC_update; auto; intro Hk; apply senderok_sabort; auto.
  - step_inv H; apply invC_update; auto; intro Hk; apply senderok_sdrop; auto.
  - step_inv H; apply invC_update; auto; intro Hk; apply senderok_sprecommit; auto.
  - step_inv H. apply andb_true_iff in Ec as [Ek Ea]. apply invC_update; auto; intro Hk; apply senderok_spreack; auto.
  - step_inv H. apply andb_true_iff in Ec as [Ek Eo]. apply invC_update; auto; intro Hk; apply senderok_scommit; auto.
  - step_inv H. apply andb_true_iff in Ec as [Ek Ea]. apply invC_update; auto; intro Hk; apply senderok_scomack; auto.
  - (* Deliver *)
    step_inv H. deliver_inv Edel.
    all: try (intros s0 Hk0; cbn [set_snd kind snd_of] in *; rewrite upd_if; eqb_case s0 s; [|now apply HC]; congruence).
    all: intros s0 Hk0; cbn [set_snd kind snd_of] in *; rewrite upd_if; eqb_case s0 s; [|now apply HC].
    all: pose proof (HC s Hk0) as Hx.
    all: match goal with
         | |- SenderOK (set_sections ?sec (set_conn ?x ?k ?c')) =>
             refine (proj1 (senderok_deliver x k _ _ c' Hx Estr _ _ _ _ sec)); cbn; rewrite ?Ebuf; auto
         | |- SenderOK (set_conn ?x ?k ?c') =>
             refine (proj1 (senderok_deliver x k _ _ c' Hx Estr _ _ _ _ (g_sections x))); cbn; rewrite ?Ebuf; auto
         end.
  - (* XWrite *) step_inv H. apply kind_eqb_eq in Ec. apply (invC_frame st); auto. intros s0 Hk. cbn [set_snd snd_of]. rewrite upd_other; congruence.
  - step_inv H. apply kind_eqb_eq in Ec. apply (invC_frame st); auto. intros s0 Hk. cbn [set_snd snd_of]. rewrite upd_other; congruence.
  - step_inv H; apply kind_eqb_eq in Ec; apply (invC_frame st); auto; intros s0 Hk; cbn [set_snd snd_of]; rewrite upd_other; congruence.
  - step_inv H; apply kind_eqb_eq in Ec; apply (invC_frame st); auto; intros s0 Hk; cbn [set_snd snd_of]; rewrite upd_other; congruence.
  - step_inv H; apply kind_eqb_eq in Ec; apply (invC_frame st); auto; intros s0 Hk; cbn [set_snd snd_of]; rewrite upd_other; congruence.
  - step_inv H. apply orb_false_iff in Ec as [Ec _]. apply negb_false_iff in Ec. apply kind_eqb_eq in Ec.
    apply (invC_frame st); auto. intros s0 Hk. cbn [snd_of]. rewrite upd_other; congruence.
  - step_inv H. apply orb_false_iff in Ec as [Ec _]. apply negb_false_iff in Ec. apply kind_eqb_eq in Ec.
    apply (invC_frame st); auto. intros s0 Hk. cbn [set_snd snd_of]. rewrite upd_other; congruence.
  - step_inv H. apply kind_eqb_eq in Ec. apply (invC_frame st); auto. intros s0 Hk. cbn [snd_of]. rewrite upd_other; congruence.
  - step_inv H; (eapply invC_frame; [exact HC|reflexivity|reflexivity]).
  - step_inv H; (eapply invC_frame; [exact HC|reflexivity|reflexivity]).
  - step_inv H; (eapply invC_frame; [exact HC|reflexivity|reflexivity]).
  - step_inv H; (eapply invC_frame; [exact HC|reflexivity|reflexivity]).
  - step_inv H; (eapply invC_frame; [exact HC|reflexivity|reflexivity]).
  - step_inv H; (eapply invC_frame; [exact HC|reflexivity|reflexivity]).
Qed.

(* a TCP sender's connections never carry relaxed-mailbox records *)
Definition is_plain (r : rec) : bool := match r with RPlain _ => true | _ => false end.
Definition noplain (l : list rec) : Prop := forallb (fun r => negb (is_plain r)) l = true.
Definition InvN (st : state) : Prop := forall s k, kind st s = KTcp -> noplain (c_stream (s_conn (snd_of st s) k)).

Lemma noplain_app : forall l r, noplain l -> is_plain r = false -> noplain (l ++ [r]).
Proof. intros l r H Hr. unfold noplain in *. rewrite forallb_app, H. simpl. now rewrite Hr. Qed.

Lemma noplain_tail : forall r l, noplain (r :: l) -> noplain l /\ is_plain r = false.
Proof. intros r l H. unfold noplain in H. simpl in H. apply andb_true_iff in H as [H1 H2]. split; [exact H2|now apply negb_true_iff]. Qed.

Definition allnp (x : sender) : Prop := forall k, noplain (c_stream (s_conn x k)).

Lemma np_ensure : forall x, allnp x -> allnp (ensure x).
Proof.
  intros x H k. unfold ensure. destruct (s_open x); [apply H|]. cbn [s_conn]. rewrite upd_if.
  destruct (Nat.eqb k (s_next x)); [reflexivity|apply H].
Qed.

Lemma np_send : forall r x, is_plain r = false -> allnp x -> allnp (send_rec r x).
Proof.
  intros r x Hr H k. unfold send_rec, set_conn. cbn [s_conn]. rewrite upd_if.
  destruct (Nat.eqb k (s_cid x)); [|apply H]. unfold push_rec. cbn [c_stream]. apply noplain_app; auto.
Qed.

Lemma np_take_ack : forall x, allnp x -> allnp (take_ack x).
Proof.
  intros x H k. unfold take_ack, set_conn. cbn [s_conn]. rewrite upd_if.
  destruct (Nat.eqb k (s_cid x)) eqn:E; [|apply H]. cbn [c_stream]. apply H.
Qed.

Lemma np_set_phase : forall p cur x, allnp x -> allnp (set_phase p cur x).
Proof. intros p cur x H k. apply H. Qed.

Lemma np_close : forall x, allnp x -> allnp (close_conn x).
Proof. intros x H k. apply H. Qed.

Lemma invN_update : forall st s x', InvN st -> (kind st s = KTcp -> allnp x') -> InvN (set_snd st s x').
Proof.
  intros st s x' HN Hx s0 k0 Hk. cbn [set_snd kind snd_of] in *. rewrite upd_if. eqb_case s0 s; [now apply Hx|now apply HN].
Qed.

Lemma invN_step : forall st e st' o, InvN st -> step st e = Some (st', o) -> InvN st'.
Proof.
  intros st e st' o HN H.
  assert (Hall : forall s, kind st s = KTcp -> allnp (snd_of st s)) by (intros s Hk k; now apply HN).
  destruct e; try (step_inv H; exact HN).
  - step_inv H; apply invN_update; auto; intro Hk; apply np_set_phase; repeat (apply np_send; [reflexivity|]); apply np_ensure; auto.
  - step_inv H; apply invN_update; auto; intro Hk; apply np_set_phase; auto.
  - step_inv H; apply invN_update; auto; intro Hk; apply np_close; auto.
  - step_inv H; apply invN_update; auto; intro Hk; apply np_set_phase; apply np_send; auto.
  - step_inv H; apply invN_update; auto; intro Hk; apply np_set_phase; apply np_take_ack; auto.
  - step_inv H; apply invN_update; auto; intro Hk; apply np_set_phase; apply np_send; auto.
  - step_inv H; apply invN_update; auto; intro Hk; apply np_set_phase; apply np_take_ack; auto.
  - (* Deliver *)
    step_inv H. deliver_inv Edel; intros s0 k0 Hk0; cbn [set_snd kind snd_of] in *; rewrite upd_if; eqb_case s0 s; try (now apply HN);
      unfold set_sections, set_conn; cbn [s_conn]; rewrite upd_if; eqb_case k0 k; try (now apply HN); cbn [c_stream];
      pose proof (HN s k Hk0) as Hold; rewrite Estr in Hold; apply noplain_tail in Hold; tauto.
  - step_inv H. apply kind_eqb_eq in Ec. apply invN_update; auto; intro Hk; congruence.
  - step_inv H. apply kind_eqb_eq in Ec. apply invN_update; auto; intro Hk; congruence.
  - step_inv H; apply kind_eqb_eq in Ec; apply invN_update; auto; intro Hk; congruence.
  - step_inv H; apply kind_eqb_eq in Ec; apply invN_update; auto; intro Hk; congruence.
  - step_inv H; apply kind_eqb_eq in Ec; apply invN_update; auto; intro Hk; congruence.
  - (* OPush *)
    step_inv H. apply orb_false_iff in Ec as [Ec _]. apply negb_false_iff in Ec. apply kind_eqb_eq in Ec.
    intros s0 k0 Hk0. cbn [kind snd_of] in *. rewrite upd_if. eqb_case s0 s; [congruence|now apply HN].
  - step_inv H. apply orb_false_iff in Ec as [Ec _]. apply negb_false_iff in Ec. apply kind_eqb_eq in Ec.
    apply invN_update; auto; intro Hk; congruence.
  - (* PPush *)
    step_inv H. apply kind_eqb_eq in Ec.
    intros s0 k0 Hk0. cbn [kind snd_of] in *. rewrite upd_if. eqb_case s0 s; [congruence|now apply HN].
Qed.

Lemma invCN_reachable : forall k cap st, reachable k cap st -> InvC st /\ InvN st.
Proof.
  intros k cap. apply reachable_ind.
  - split; [apply invC_init|]. intros s c _. reflexivity.
  - intros st e st' o [HC HN] H. split; [eapply invC_step; eauto|eapply invN_step; eauto].
Qed.

(* ---- what a TCP mailbox publishes is exactly one committed sender section, whole *)
Lemma published_is_section_lemma : forall k cap st s c st' o,
  reachable k cap st -> kind st s = KTcp -> step st (Deliver s c) = Some (st', o) ->
  g_arrived (rcv st') = g_arrived (rcv st) /\ g_sections (snd_of st' s) = g_sections (snd_of st s) /\ r_queue (rcv st') = r_queue (rcv st)
  \/
  let x := snd_of st s in
  s_open x = true /\ c = s_cid x /\ s_phase x = SComWait /\ s_cur x <> [] /\
  g_arrived (rcv st') = g_arrived (rcv st) ++ [(s, s_cur x)] /\
  g_sections (snd_of st' s) = g_sections x ++ [s_cur x] /\
  r_queue (rcv st') = r_queue (rcv st) ++ [mkEntry s c (s_cur x)].
Proof.
  intros k cap st s c st' o R Hk H. destruct (invCN_reachable _ _ _ R) as [HC HN].
  pose proof (HC s Hk) as Hx. pose proof (HN s c Hk) as Hnp.
  step_inv H. deliver_inv Edel; try congruence.
  all: try (left; cbn [rcv set_snd snd_of]; rewrite upd_same; auto; fail).
  all: try (exfalso; rewrite ?Estr in Hnp; apply noplain_tail in Hnp as [_ Hp]; discriminate).
  (* RCommit with a non-empty buffer *)
  right. cbn zeta.
  match goal with Hbg : c_begun _ = true |- _ =>
    destruct (senderok_deliver (snd_of st s) c RCommit l (mkConn l false [] true) Hx Estr eq_refl eq_refl Hbg eq_refl []) as [_ Hcm] end.
  destruct (Hcm eq_refl) as (Ho & Hc & Hp & Hb). rewrite Ebuf in Hb.
  cbn [rcv snd_of publish g_arrived r_queue]. rewrite upd_same. cbn [set_sections g_sections]. rewrite <- Hb.
  repeat split; auto. discriminate.
Qed.

(* ------------------------------------------------------------------ relaxed mailboxes *)

Definition plains (l : list rec) : list msg := flat_map (fun r => match r with RPlain m => [m] | _ => [] end) l.
Definition onlyplain (l : list rec) : Prop := forallb is_plain l = true.

Definition RelaxedOK (x : sender) : Prop :=
  (forall k, onlyplain (c_stream (s_conn x k))) /\
  (forall k, s_next x <= k -> c_stream (s_conn x k) = []) /\
  (s_open x = true -> s_cid x < s_next x) /\
  (s_next x <= 1 -> g_written x = concat (g_sections x) ++ plains (c_stream (s_conn x 0))).

Definition InvD (st : state) : Prop := forall s, kind st s = KRelaxed -> RelaxedOK (snd_of st s).

Lemma plains_app : forall l1 l2, plains (l1 ++ l2) = plains l1 ++ plains l2.
Proof. intros. unfold plains. now rewrite flat_map_app. Qed.

Lemma invD_frame : forall st st',
  InvD st -> kind st' = kind st -> (forall s, kind st s = KRelaxed -> snd_of st' s = snd_of st s) -> InvD st'.
Proof. intros st st' HD Hk Hs s Hks. rewrite Hk in Hks. rewrite (Hs s Hks). now apply HD. Qed.

Lemma invD_update : forall st s x', InvD st -> (kind st s = KRelaxed -> RelaxedOK x') -> InvD (set_snd st s x').
Proof. intros st s x' HD Hx s0 Hk. cbn [set_snd kind snd_of] in *. rewrite upd_if. eqb_case s0 s; auto. Qed.

Lemma invD_step : forall st e st' o, InvD st -> step st e = Some (st', o) -> InvD st'.
Proof.
  intros st e st' o HD H.
  destruct e;
    try (step_inv H; try (apply andb_true_iff in Ec as [Ec ?]); apply kind_eqb_eq in Ec;
         (eapply invD_frame; [exact HD|reflexivity|]); intros s0 Hk; cbn [set_snd snd_of]; rewrite upd_other; congruence);
    try (step_inv H; (eapply invD_frame; [exact HD|reflexivity|reflexivity])).
  - (* Deliver *)
    step_inv H. deliver_inv Edel.
    all: try (intros s0 Hk0; cbn [set_snd kind snd_of] in *; rewrite upd_if; eqb_case s0 s; [|now apply HD]; congruence).
    all: intros s0 Hk0; cbn [set_snd kind snd_of] in *; rewrite upd_if; eqb_case s0 s; [|now apply HD].
    all: destruct (HD s Hk0) as (H1 & H2 & H3 & H4).
    all: try (exfalso; pose proof (H1 k) as Ho; rewrite Estr in Ho; unfold onlyplain in Ho; simpl in Ho; discriminate).
    all: unfold RelaxedOK, set_sections, set_conn; cbn [s_conn s_next s_open s_cid g_written g_sections].
    all: (split; [|split; [|split]]).
    all: try (intros k0; rewrite upd_if; eqb_case k0 k; [cbn [c_stream]; pose proof (H1 k) as Ho; rewrite Estr in Ho; unfold onlyplain in *; simpl in Ho; exact Ho|apply H1]).
    all: try (intros k0 Hk1; rewrite upd_if; eqb_case k0 k; [cbn [c_stream]; pose proof (H2 k Hk1) as Ho; rewrite Estr in Ho; discriminate|now apply H2]).
    all: try exact H3.
    all: intros Hn; rewrite (H4 Hn), upd_if; eqb_case 0 k;
         [ subst k; rewrite Estr; cbn [c_stream plains flat_map]; rewrite concat_app; simpl; rewrite <- !app_assoc; reflexivity
         | exfalso; assert (Hge : s_next (snd_of st s) <= k) by lia; rewrite (H2 k Hge) in Estr; discriminate ].
  - (* XWrite *)
    step_inv H. apply invD_update; auto. intro Hk. destruct (HD s Hk) as (H1 & H2 & H3 & H4).
    unfold ensure. destruct (s_open (snd_of st s)) eqn:Eo; unfold send_rec, set_conn, push_rec, RelaxedOK;
      cbn [s_conn s_next s_open s_cid g_written g_sections c_stream].
    + split; [|split; [|split]].
      * intros k0. rewrite upd_if. eqb_case k0 (s_cid (snd_of st s)); [|apply H1]. cbn [c_stream]. unfold onlyplain. rewrite forallb_app. rewrite (H1 _). reflexivity.
      * intros k0 Hk0. rewrite upd_other; [now apply H2|]. specialize (H3 eq_refl). lia.
      * auto.
      * intros Hn. specialize (H3 eq_refl). assert (Hc : s_cid (snd_of st s) = 0) by lia. rewrite Hc, upd_same. cbn [c_stream].
        rewrite plains_app, (H4 Hn). simpl. now rewrite <- app_assoc.
    + rewrite !upd_same. cbn [c_stream conn0 app]. split; [|split; [|split]].
      * intros k0. rewrite !upd_if. eqb_case k0 (s_next (snd_of st s)); [reflexivity|apply H1].
      * intros k0 Hk0. rewrite !upd_other by lia. apply H2. lia.
      * intros _. lia.
      * intros Hn. assert (Hz : s_next (snd_of st s) = 0) by lia. rewrite Hz, !upd_same. cbn [c_stream].
        rewrite (H4 ltac:(lia)). rewrite (H2 0) by lia. simpl. now rewrite !app_nil_r.
  - (* XDrop *)
    step_inv H. apply invD_update; auto. intro Hk. destruct (HD s Hk) as (H1 & H2 & H3 & H4).
    unfold RelaxedOK, close_conn. cbn [s_conn s_next s_open s_cid g_written g_sections]. repeat split; auto. discriminate.
  - step_inv H; try (apply orb_false_iff in Ec as [Ec _]; apply negb_false_iff in Ec); apply kind_eqb_eq in Ec;
      (eapply invD_frame; [exact HD|reflexivity|]); intros s0 Hk; cbn [set_snd snd_of]; rewrite upd_other; congruence.
  - step_inv H; try (apply orb_false_iff in Ec as [Ec _]; apply negb_false_iff in Ec); apply kind_eqb_eq in Ec;
      (eapply invD_frame; [exact HD|reflexivity|]); intros s0 Hk; cbn [set_snd snd_of]; rewrite upd_other; congruence.
Qed.

Lemma invD_reachable : forall k cap st, reachable k cap st -> InvD st.
Proof.
  intros k cap. apply reachable_ind.
  - intros s _. repeat split; auto; intros; try reflexivity; discriminate.
  - intros st e st' o HD H. eapply invD_step; eauto.
Qed.

(* relaxed mailboxes, as long as the sender never had to reconnect: written = received ++ pending ++ in flight *)
Lemma relaxed_single_connection_lemma : forall k cap st s,
  reachable k cap st -> kind st s = KRelaxed -> s_next (snd_of st s) <= 1 ->
  g_written (snd_of st s) =
  of_sender s (g_committed (rcv st)) ++ of_sender s (pending (rcv st)) ++ plains (c_stream (s_conn (snd_of st s) 0)).
Proof.
  intros k cap st s R Hk Hn. destruct (invD_reachable _ _ _ R s Hk) as (_ & _ & _ & H4).
  rewrite (H4 Hn), <- (fifo_lemma _ _ _ s R).
  destruct (inv_reachable _ _ _ R) as (_ & _ & HP).
  assert (Hr : remaining (snd_of st s) = []).
  { unfold remaining. destruct (s_phase (snd_of st s)) eqn:Ep; try reflexivity. apply HP in Ep. congruence. }
  rewrite Hr, app_nil_r, <- app_assoc. reflexivity.
Qed.

(* the full FIFO statement for relaxed mailboxes: once every connection is drained, what the receiver has got and
   still holds from s is what s wrote, in order *)
Definition relaxed_fifo_statement : Prop :=
  forall k cap st s, reachable k cap st -> kind st s = KRelaxed ->
    (forall c, c_stream (s_conn (snd_of st s) c) = []) ->
    of_sender s (rseq (rcv st)) = g_written (snd_of st s).

(* It is false: a receive queue of size 1 that is not being read, three writes on the first connection (two consumed by
   the handler, which then blocks), a write time-out (the section aborts before sending, the connection is closed),
   the retry dials a second connection whose handler queues its value behind the first handler's blocked one but in
   front of the value still unread in the first connection. *)
Definition relaxed_witness : list event :=
  [XWrite 0 10; XWrite 0 11; XWrite 0 12; Deliver 0 0; Deliver 0 0; XDrop 0; XWrite 0 13; Deliver 0 1;
   RRead; RCommitE; RRead; RCommitE; Deliver 0 0; RRead; RCommitE; RRead; RCommitE]%Z.

Definition final_of (o : option (state * list out)) (d : state) : state := match o with Some (st, _) => st | None => d end.

Definition wst : state :=
  final_of (run (init_state (fun _ => KRelaxed) 1) relaxed_witness) (init_state (fun _ => KRelaxed) 1).
Lemma w_kind : kind wst 0 = KRelaxed. Proof. vm_compute. reflexivity. Qed.
Lemma w_recv : of_sender 0 (rseq (rcv wst)) = [10; 11; 13; 12]%Z. Proof. vm_compute. reflexivity. Qed.
Lemma w_sent : g_written (snd_of wst 0) = [10; 11; 12; 13]%Z. Proof. vm_compute. reflexivity. Qed.
Lemma w_drained : forall c, c_stream (s_conn (snd_of wst 0) c) = []. Proof. intros [|[|c]]; vm_compute; reflexivity. Qed.
Lemma w_reach : reachable (fun _ => KRelaxed) 1 wst.
Proof.
  unfold wst. destruct (run (init_state (fun _ : nat => KRelaxed) 1) relaxed_witness) as [[st outs]|] eqn:E.
  - exists relaxed_witness, outs. exact E.
  - vm_compute in E. discriminate.
Qed.

Lemma relaxed_fifo_refuted_lemma : ~ relaxed_fifo_statement.
Proof.
  intro Hs. pose proof (Hs _ _ wst 0 w_reach w_kind w_drained) as H. rewrite w_recv, w_sent in H. discriminate.
Qed.

(* a sender-side abort changes nothing the receiver can ever see *)
Lemma sender_abort_lemma : forall st e s st' o,
  (e = SAbort s \/ e = OAbort s) -> step st e = Some (st', o) ->
  rcv st' = rcv st /\ (forall s', g_sections (snd_of st' s') = g_sections (snd_of st s')) /\
  (forall s', s' <> s -> snd_of st' s' = snd_of st s') /\
  s_phase (snd_of st' s) = SIdle /\ s_cur (snd_of st' s) = [] /\
  (forall k, s_conn (snd_of st' s) k = s_conn (snd_of st s) k).
Proof.
  intros st e s st' o He H. destruct He as [-> | ->]; step_inv H; cbn [rcv set_snd snd_of]; rewrite upd_same;
    (repeat split; auto; [intros s'; rewrite upd_if; eqb_case s' s; reflexivity | intros s' Hs; now rewrite upd_other]).
Qed.
