(* C13 — invariants of the CRDT resource model, for every interleaving of events and for any
   payload type that is a join-semilattice with inflationary writes.

   The semilattice is given order-theoretically: a preorder `le` on the well-formed elements (`ok`),
   `merge` is a least upper bound, `init` is least, a write moves a state up. (For GCounter these are
   proved in C13/ProofsGC.v from the laws of C12.) *)
From PGV Require Import C13.Model C12.ProofsSys.
From Coq Require Import Lia.

Section Res.
  Variables (T A : Type).
  Variable init : T.
  Variable write : Z -> A -> T -> T.
  Variable merge : T -> T -> T.
  Variable peers : Z -> list Z.

  Variable ok : T -> Prop.
  Variable le : T -> T -> Prop.
  Variable wpre : Z -> A -> T -> Prop.

  Hypothesis ok_init : ok init.
  Hypothesis le_refl : forall x, ok x -> le x x.
  Hypothesis le_trans : forall x y z, le x y -> le y z -> le x z.
  Hypothesis init_least : forall x, ok x -> le init x.
  Hypothesis merge_ok : forall x y, ok x -> ok y -> ok (merge x y).
  Hypothesis merge_ub_l : forall x y, ok x -> ok y -> le x (merge x y).
  Hypothesis merge_ub_r : forall x y, ok x -> ok y -> le y (merge x y).
  Hypothesis merge_lub : forall x y z, ok x -> ok y -> ok z -> le x z -> le y z -> le (merge x y) z.
  Hypothesis write_ok : forall i a x, ok x -> wpre i a x -> ok (write i a x).
  Hypothesis write_infl : forall i a x, ok x -> wpre i a x -> le x (write i a x).

  Notation node := (node T).
  Notation state := (state T).
  Notation event := (event T A).
  Notation ghost := (ghost T).
  Notation step := (step T A write merge peers).
  Notation gstep := (gstep T A).
  Notation xstep := (xstep T A write merge peers).
  Notation xrun := (xrun T A init write merge peers).
  Notation xrun_from := (xrun_from T A write merge peers).
  Notation others := (others peers).

  (* ---------------------------------------------------------------- valid schedules *)
  (* every write is performed in a state where its precondition holds; external values are well-formed *)
  Definition ev_ok (st : state) (e : event) : Prop :=
    match e with
    | EWrite i a => wpre i a (n_value (st i))
    | ERecv _ v => ok v
    | _ => True
    end.

  Fixpoint valid_from (st : state) (evs : list event) : Prop :=
    match evs with
    | [] => True
    | e :: rest => ev_ok st e /\ valid_from (step st e) rest
    end.

  Definition valid (evs : list event) : Prop := valid_from (state_init T init) evs.

  Lemma xrun_from_app : forall x a b, xrun_from x (a ++ b) = xrun_from (xrun_from x a) b.
  Proof. intros. unfold Model.xrun_from. apply fold_left_app. Qed.

  Lemma xrun_from_fst : forall evs x, fst (xrun_from x evs) = run_from T A write merge peers (fst x) evs.
  Proof.
    unfold Model.xrun_from, Model.run_from. induction evs as [|e evs IH]; intros x; cbn [fold_left]; [reflexivity|].
    rewrite IH. reflexivity.
  Qed.

  Lemma valid_from_app : forall a st b, valid_from st (a ++ b) <->
    valid_from st a /\ valid_from (run_from T A write merge peers st a) b.
  Proof.
    unfold Model.run_from. induction a as [|e a IH]; intros st b; cbn [app valid_from fold_left]; [tauto|].
    rewrite IH. tauto.
  Qed.

  (* ---------------------------------------------------------------- the invariant *)
  Definition known (g : ghost) : list T := g_committed g ++ g_injected g.
  (* y is an upper bound of everything committed or injected *)
  Definition ubK (g : ghost) (y : T) : Prop := ok y /\ forall c, In c (known g) -> le c y.
  (* x carries nothing beyond committed / injected information *)
  Definition below (g : ghost) (x : T) : Prop := forall y, ubK g y -> le x y.
  (* y covers base and everything queued *)
  Definition covers (base : T) (q : list T) (y : T) : Prop := ok y /\ le base y /\ forall v, In v q -> le v y.

  Record inv (st : state) (g : ghost) : Prop := mkInv {
    i_ok : forall i, ok (n_value (st i)) /\ ok (n_old (st i)) /\ Forall ok (n_queue (st i)) /\
                     Forall ok (g_recvd g i) /\ ok (g_lastc g i);
    i_okK : Forall ok (known g);
    i_stable : forall i, below g (stable (st i));
    i_queue : forall i v, In v (n_queue (st i)) -> below g v;
    i_recvd : forall i v, In v (g_recvd g i) ->
                (forall y, covers (n_value (st i)) (n_queue (st i)) y -> le v y) /\
                (n_hasold (st i) = true -> forall y, covers (n_old (st i)) (n_queue (st i)) y -> le v y);
    i_oldle : forall i, n_hasold (st i) = true -> le (n_old (st i)) (n_value (st i));
    i_lastc : forall i, le (g_lastc g i) (stable (st i));
    i_chain : forall c, In c (g_committed g) -> exists i, le c (g_lastc g i);
  }.

  Lemma stable_ok : forall st g i, inv st g -> ok (stable (st i)).
  Proof. intros st g i H. destruct (i_ok _ _ H i) as (H1 & H2 & _). unfold stable. destruct (n_hasold (st i)); assumption. Qed.

  Lemma below_mono : forall g g' x, (forall c, In c (known g) -> In c (known g')) -> below g x -> below g' x.
  Proof. intros g g' x Hs Hb y [Hy Hu]. apply Hb. split; [exact Hy|]. intros c Hc. apply Hu, Hs, Hc. Qed.

  Lemma inv_init : inv (state_init T init) (ghost_init T init).
  Proof.
    constructor; cbn; intros.
    - repeat split; auto.
    - constructor.
    - intros y [Hy _]. now apply init_least.
    - contradiction.
    - contradiction.
    - discriminate.
    - now apply le_refl.
    - contradiction.
  Qed.

  Ltac node_cases i j :=
    destruct (Z.eq_dec j i) as [->|?]; [rewrite ?fupd_same in *|rewrite ?fupd_other in * by assumption].

  Lemma covers_weaken : forall b b' q q' y, covers b' q' y -> ok b -> le b b' ->
    (forall v, In v q -> In v q') -> covers b q y.
  Proof.
    intros b b' q q' y (Hy & Hb & Hq) Hbo Hle Hsub. split; [exact Hy|]. split; [eapply le_trans; eauto|]. auto.
  Qed.

  (* ---- the RPCs of one broadcast round *)
  Lemma rpc_values : forall p i st j k,
    n_value (rpc T p i st j k) = n_value (st k) /\ n_old (rpc T p i st j k) = n_old (st k) /\
    n_hasold (rpc T p i st j k) = n_hasold (st k) /\
    (k <> i -> n_need (rpc T p i st j k) = n_need (st k)).
  Proof.
    intros p i st j k. unfold rpc.
    destruct (Z.eq_dec k i) as [->|Hki].
    - rewrite fupd_same. cbn. destruct (Z.eq_dec i j) as [->|Hij].
      + rewrite fupd_same. cbn. repeat split; auto. congruence.
      + rewrite fupd_other by assumption. repeat split; auto. congruence.
    - rewrite fupd_other by assumption. destruct (Z.eq_dec k j) as [->|Hkj].
      + rewrite fupd_same. cbn. repeat split; auto.
      + rewrite fupd_other by assumption. repeat split; auto.
  Qed.

  Lemma rpc_stable : forall p i st j k, stable (rpc T p i st j k) = stable (st k).
  Proof. intros. unfold stable. destruct (rpc_values p i st j k) as (-> & -> & -> & _). reflexivity. Qed.

  (* after one RPC: queues and received lists only grow, by the payload and the reply *)
  Lemma rpc_queue : forall p i st j k v,
    In v (n_queue (rpc T p i st j k)) -> In v (n_queue (st k)) \/ v = p \/ v = stable (st j).
  Proof.
    intros p i st j k v. unfold rpc.
    destruct (Z.eq_dec k i) as [->|Hki].
    - rewrite fupd_same. cbn. rewrite in_app_iff. cbn. intros [H|[<-|[]]]; [|tauto].
      destruct (Z.eq_dec i j) as [->|Hij].
      + rewrite fupd_same in H. cbn in H. rewrite in_app_iff in H. cbn in H. intuition.
      + rewrite fupd_other in H by assumption. tauto.
    - rewrite fupd_other by assumption. destruct (Z.eq_dec k j) as [->|Hkj].
      + rewrite fupd_same. cbn. rewrite in_app_iff. cbn. intuition.
      + rewrite fupd_other by assumption. tauto.
  Qed.

  Lemma rpc_queue_incl : forall p i st j k v, In v (n_queue (st k)) -> In v (n_queue (rpc T p i st j k)).
  Proof.
    intros p i st j k v H. unfold rpc.
    destruct (Z.eq_dec k i) as [->|Hki].
    - rewrite fupd_same. cbn. apply in_or_app. left.
      destruct (Z.eq_dec i j) as [->|Hij]; [rewrite fupd_same; cbn; apply in_or_app; now left|now rewrite fupd_other].
    - rewrite fupd_other by assumption. destruct (Z.eq_dec k j) as [->|Hkj].
      + rewrite fupd_same. cbn. apply in_or_app. now left.
      + now rewrite fupd_other.
  Qed.

  Lemma grpc_recvd : forall p i st rv j k v,
    In v (grpc T p i st rv j k) <->
    In v (rv k) \/ (k = j /\ v = p) \/ (k = i /\ v = stable (st j)).
  Proof.
    intros p i st rv j k v. unfold grpc.
    destruct (Z.eq_dec k i) as [->|Hki].
    - rewrite fupd_same. rewrite in_app_iff. cbn.
      destruct (Z.eq_dec i j) as [->|Hij].
      + rewrite fupd_same. rewrite in_app_iff. cbn. intuition.
      + rewrite fupd_other by assumption. intuition.
    - rewrite fupd_other by assumption. destruct (Z.eq_dec k j) as [->|Hkj].
      + rewrite fupd_same. rewrite in_app_iff. cbn. intuition.
      + rewrite fupd_other by assumption. intuition.
  Qed.

  (* everything received through the RPC is now queued at the receiver *)
  Lemma rpc_recv_queued : forall p i st j,
    In p (n_queue (rpc T p i st j j)) /\ In (stable (st j)) (n_queue (rpc T p i st j i)).
  Proof.
    intros p i st j. unfold rpc. split.
    - destruct (Z.eq_dec j i) as [->|Hji].
      + rewrite !fupd_same. cbn. apply in_or_app. left. apply in_or_app. right. now left.
      + rewrite fupd_other by assumption. rewrite fupd_same. cbn. apply in_or_app. right. now left.
    - rewrite fupd_same. cbn. apply in_or_app. right. now left.
  Qed.

  (* the part of the invariant that one RPC must preserve, for a fixed ghost frame *)
  Record rinv (g : ghost) (st : state) (rv : Z -> list T) : Prop := mkRinv {
    r_ok : forall i, ok (n_value (st i)) /\ ok (n_old (st i)) /\ Forall ok (n_queue (st i)) /\ Forall ok (rv i);
    r_queue : forall i v, In v (n_queue (st i)) -> below g v;
    r_recvd : forall i v, In v (rv i) ->
                (forall y, covers (n_value (st i)) (n_queue (st i)) y -> le v y) /\
                (n_hasold (st i) = true -> forall y, covers (n_old (st i)) (n_queue (st i)) y -> le v y);
  }.

  Lemma rpc_rinv : forall g p i st rv j, ok p -> below g p ->
    (forall k, below g (stable (st k))) -> (forall k, ok (stable (st k))) ->
    rinv g st rv -> rinv g (rpc T p i st j) (grpc T p i st rv j).
  Proof.
    intros g p i st rv j Hp Hbp Hst Hsok [Ro Rq Rr]. constructor.
    - intros k. destruct (rpc_values p i st j k) as (-> & -> & _). destruct (Ro k) as (H1 & H2 & H3 & H4).
      repeat split; auto.
      + apply Forall_forall. intros v Hv. apply rpc_queue in Hv as [Hv|[->| ->]]; auto.
        rewrite Forall_forall in H3. auto.
      + apply Forall_forall. intros v Hv. apply grpc_recvd in Hv as [Hv|[[_ ->]|[_ ->]]]; auto.
        rewrite Forall_forall in H4. auto.
    - intros k v Hv. apply rpc_queue in Hv as [Hv|[->| ->]]; eauto.
    - intros k v Hv. destruct (rpc_values p i st j k) as (-> & -> & -> & _).
      apply grpc_recvd in Hv as [Hv|[[-> ->]|[-> ->]]].
      + destruct (Rr k v Hv) as [R1 R2]. destruct (Ro k) as (H1 & H2 & _). split.
        * intros y Hy. apply R1. eapply covers_weaken; eauto. intros w Hw. now apply rpc_queue_incl.
        * intros Hh y Hy. apply R2; auto. eapply covers_weaken; eauto. intros w Hw. now apply rpc_queue_incl.
      + destruct (rpc_recv_queued p i st j) as [Hq _]. split.
        * intros y (_ & _ & Hy). now apply Hy.
        * intros _ y (_ & _ & Hy). now apply Hy.
      + destruct (rpc_recv_queued p i st j) as [_ Hq]. split.
        * intros y (_ & _ & Hy). now apply Hy.
        * intros _ y (_ & _ & Hy). now apply Hy.
  Qed.

  Lemma tick_fold : forall g p i rs st rv, ok p -> below g p ->
    (forall k, below g (stable (st k))) -> (forall k, ok (stable (st k))) -> rinv g st rv ->
    let st' := fold_left (rpc T p i) rs st in
    let rv' := fold_left (grpc T p i st) rs rv in
    rinv g st' rv' /\
    (forall k, n_value (st' k) = n_value (st k) /\ n_old (st' k) = n_old (st k) /\ n_hasold (st' k) = n_hasold (st k) /\
               (k <> i -> n_need (st' k) = n_need (st k))) /\
    (forall k v, In v (rv k) -> In v (rv' k)) /\
    (forall j, In j rs -> In p (rv' j)).
  Proof.
    intros g p i rs. induction rs as [|j rs IH]; intros st rv Hp Hbp Hst Hsok HR; cbn zeta; cbn [fold_left].
    - split; [exact HR|]. split; [intros k; repeat split; reflexivity|]. split; [auto|intros j []].
    - (* grpc uses the stable values of the state at the start of the round; they never change *)
      assert (Hgr : forall (l : list Z) rv0, fold_left (grpc T p i st) l rv0 = fold_left (grpc T p i (rpc T p i st j)) l rv0).
      { intros l. induction l as [|x l IHl]; intros rv0; cbn; [reflexivity|].
        rewrite IHl. f_equal. unfold grpc. now rewrite rpc_stable. }
      rewrite Hgr.
      specialize (IH (rpc T p i st j) (grpc T p i st rv j) Hp Hbp).
      destruct IH as (R' & Hv & Hmono & Hin).
      + intros k. rewrite rpc_stable. apply Hst.
      + intros k. rewrite rpc_stable. apply Hsok.
      + now apply rpc_rinv.
      + cbn zeta in *. split; [exact R'|]. split; [|split].
        * intros k. destruct (Hv k) as (-> & -> & -> & Hn). destruct (rpc_values p i st j k) as (-> & -> & -> & Hn').
          repeat split; auto. intros Hk. rewrite Hn by assumption. now apply Hn'.
        * intros k v Hkv. apply Hmono. apply grpc_recvd. now left.
        * intros j' [<-|Hj'].
          -- apply Hmono. apply grpc_recvd. right. left. now split.
          -- now apply Hin.
  Qed.

  (* ---------------------------------------------------------------- the invariant is preserved *)
  Lemma inv_rinv : forall st g, inv st g -> rinv g st (g_recvd g).
  Proof.
    intros st g H. constructor.
    - intros i. destruct (i_ok _ _ H i) as (H1 & H2 & H3 & H4 & _). auto.
    - apply (i_queue _ _ H).
    - apply (i_recvd _ _ H).
  Qed.

  Lemma le_merge_mono : forall a b v, ok a -> ok b -> ok v -> le a b -> le (merge a v) (merge b v).
  Proof.
    intros a b v Ha Hb Hv Hab. apply merge_lub; [assumption|assumption|now apply merge_ok| |].
    - eapply le_trans; [exact Hab|]. now apply merge_ub_l.
    - now apply merge_ub_r.
  Qed.

  Lemma inv_step : forall st g e, inv st g -> ev_ok st e -> inv (step st e) (gstep st g e).
  Proof.
    intros st g e H He. destruct e as [i a|i|i|i rs|i v|i]; cbn [Model.step Model.gstep ev_ok] in *.
    - (* write *)
      destruct (i_ok _ _ H i) as (Hv & Ho & Hq & Hr & Hl).
      constructor.
      + intros j. node_cases i j; cbn; [|apply (i_ok _ _ H)].
        repeat split; auto. destruct (n_hasold (st i)); assumption.
      + apply (i_okK _ _ H).
      + intros j. node_cases i j; [|apply (i_stable _ _ H)].
        pose proof (i_stable _ _ H i) as Hs. unfold stable in *. cbn. exact Hs.
      + intros j v. node_cases i j; cbn; apply (i_queue _ _ H).
      + intros j v Hjv. node_cases i j; cbn; [|now apply (i_recvd _ _ H)].
        destruct (i_recvd _ _ H i v Hjv) as [R1 R2]. split.
        * intros y Hy. apply R1. eapply covers_weaken; eauto.
        * intros _ y Hy. destruct (n_hasold (st i)) eqn:Hh; [now apply R2|now apply R1].
      + intros j. node_cases i j; cbn; [|apply (i_oldle _ _ H)]. intros _.
        destruct (n_hasold (st i)) eqn:Hh.
        * eapply le_trans; [now apply (i_oldle _ _ H)|now apply write_infl].
        * now apply write_infl.
      + intros j. node_cases i j; [|apply (i_lastc _ _ H)].
        pose proof (i_lastc _ _ H i) as Hs. unfold stable in *. cbn. exact Hs.
      + apply (i_chain _ _ H).
    - (* commit *)
      destruct (i_ok _ _ H i) as (Hv & Ho & Hq & Hr & Hl).
      destruct (n_hasold (st i)) eqn:Hh.
      + assert (Hsub : forall c, In c (known g) -> In c (known (mkGhost T (g_committed g ++ [n_value (st i)]) (g_injected g) (g_recvd g) (fupd (g_lastc g) i (n_value (st i)))))).
        { intros c Hc. unfold known in *. cbn. rewrite !in_app_iff in *. tauto. }
        constructor.
        * intros j. cbn [g_recvd g_lastc]. node_cases i j; cbn; [repeat split; auto|apply (i_ok _ _ H)].
        * unfold known. cbn. apply Forall_app. split; [apply Forall_app; split|].
          -- pose proof (i_okK _ _ H) as HK. unfold known in HK. apply Forall_app in HK. tauto.
          -- constructor; [assumption|constructor].
          -- pose proof (i_okK _ _ H) as HK. unfold known in HK. apply Forall_app in HK. tauto.
        * intros j. node_cases i j.
          -- unfold stable. cbn. intros y [Hy Hu]. apply Hu. unfold known. cbn. rewrite !in_app_iff. cbn. tauto.
          -- eapply below_mono; [exact Hsub|apply (i_stable _ _ H)].
        * intros j v Hjv. eapply below_mono; [exact Hsub|]. node_cases i j; cbn in Hjv; eapply (i_queue _ _ H); eassumption.
        * intros j v Hjv. cbn [g_recvd] in Hjv. node_cases i j; cbn; [|now apply (i_recvd _ _ H)].
          destruct (i_recvd _ _ H i v Hjv) as [R1 R2]. split; [exact R1|discriminate].
        * intros j. node_cases i j; cbn; [discriminate|apply (i_oldle _ _ H)].
        * intros j. cbn [g_lastc]. node_cases i j.
          -- unfold stable. cbn. now apply le_refl.
          -- apply (i_lastc _ _ H).
        * intros c Hc. cbn [g_committed g_lastc] in *. apply in_app_or in Hc as [Hc|[<-|[]]].
          -- destruct (i_chain _ _ H c Hc) as [j Hj]. destruct (Z.eq_dec j i) as [->|Hne].
             ++ exists i. rewrite fupd_same. eapply le_trans; [exact Hj|].
                eapply le_trans; [apply (i_lastc _ _ H i)|]. unfold stable. rewrite Hh. now apply (i_oldle _ _ H).
             ++ exists j. now rewrite fupd_other.
          -- exists i. rewrite fupd_same. now apply le_refl.
      + (* no write in the section: nothing changes but the flag (already false) *)
        constructor.
        * intros j. node_cases i j; cbn; [repeat split; auto|apply (i_ok _ _ H)].
        * apply (i_okK _ _ H).
        * intros j. node_cases i j; [|apply (i_stable _ _ H)].
          pose proof (i_stable _ _ H i) as Hs. unfold stable in *. rewrite Hh in Hs. cbn. exact Hs.
        * intros j v. node_cases i j; cbn; apply (i_queue _ _ H).
        * intros j v Hjv. node_cases i j; cbn; [|now apply (i_recvd _ _ H)].
          destruct (i_recvd _ _ H i v Hjv) as [R1 R2]. split; [exact R1|discriminate].
        * intros j. node_cases i j; cbn; [discriminate|apply (i_oldle _ _ H)].
        * intros j. node_cases i j; [|apply (i_lastc _ _ H)].
          pose proof (i_lastc _ _ H i) as Hs. unfold stable in *. rewrite Hh in Hs. cbn. exact Hs.
        * apply (i_chain _ _ H).
    - (* abort *)
      destruct (i_ok _ _ H i) as (Hv & Ho & Hq & Hr & Hl).
      constructor.
      + intros j. node_cases i j; cbn; [|apply (i_ok _ _ H)].
        repeat split; auto. destruct (n_hasold (st i)); assumption.
      + apply (i_okK _ _ H).
      + intros j. node_cases i j; [|apply (i_stable _ _ H)].
        pose proof (i_stable _ _ H i) as Hs. unfold stable in *. cbn. exact Hs.
      + intros j v. node_cases i j; cbn; apply (i_queue _ _ H).
      + intros j v Hjv. node_cases i j; cbn; [|now apply (i_recvd _ _ H)].
        destruct (i_recvd _ _ H i v Hjv) as [R1 R2]. split; [|discriminate].
        destruct (n_hasold (st i)) eqn:Hh; [now apply R2|exact R1].
      + intros j. node_cases i j; cbn; [discriminate|apply (i_oldle _ _ H)].
      + intros j. node_cases i j; [|apply (i_lastc _ _ H)].
        pose proof (i_lastc _ _ H i) as Hs. unfold stable in *. cbn. exact Hs.
      + apply (i_chain _ _ H).
    - (* tick *)
      destruct (n_need (st i)) as [|k] eqn:Hn; [exact H|].
      pose proof (tick_fold g (stable (st i)) i rs st (g_recvd g) (stable_ok _ _ i H) (i_stable _ _ H i)
                            (i_stable _ _ H) (fun k => stable_ok _ _ k H) (inv_rinv _ _ H)) as (R' & Hv & Hmono & _).
      cbn zeta in *. destruct R' as [Ro Rq Rr].
      set (st' := fold_left (rpc T (stable (st i)) i) rs st) in *.
      assert (Hstab : forall k, stable (st' k) = stable (st k)).
      { intros k0. unfold stable. destruct (Hv k0) as (-> & -> & -> & _). reflexivity. }
      constructor; cbn [g_recvd g_lastc g_committed g_injected].
      + intros j. destruct (Ro j) as (H1 & H2 & H3 & H4). destruct (i_ok _ _ H j) as (_ & _ & _ & _ & H5). auto.
      + apply (i_okK _ _ H).
      + intros j. rewrite Hstab. apply (i_stable _ _ H).
      + exact Rq.
      + exact Rr.
      + intros j. destruct (Hv j) as (-> & -> & -> & _). apply (i_oldle _ _ H).
      + intros j. rewrite Hstab. apply (i_lastc _ _ H).
      + apply (i_chain _ _ H).
    - (* external ReceiveValue *)
      assert (Hsub : forall c, In c (known g) -> In c (known (mkGhost T (g_committed g) (g_injected g ++ [v]) (fupd (g_recvd g) i (g_recvd g i ++ [v])) (g_lastc g)))).
      { intros c Hc. unfold known in *. cbn. rewrite !in_app_iff in *. tauto. }
      destruct (i_ok _ _ H i) as (Hv & Ho & Hq & Hr & Hl).
      constructor; cbn [g_recvd g_lastc g_committed].
      + intros j. node_cases i j; cbn; [|apply (i_ok _ _ H)].
        repeat split; auto; apply Forall_app; split; auto.
      + unfold known. cbn. pose proof (i_okK _ _ H) as HK. unfold known in HK. apply Forall_app in HK as [K1 K2].
        apply Forall_app. split; [exact K1|]. apply Forall_app. split; auto.
      + intros j. eapply below_mono; [exact Hsub|]. node_cases i j; [|apply (i_stable _ _ H)].
        pose proof (i_stable _ _ H i) as Hs. unfold stable in *. cbn. exact Hs.
      + intros j w Hw. node_cases i j; cbn in Hw.
        * apply in_app_or in Hw as [Hw|[<-|[]]].
          -- eapply below_mono; [exact Hsub|]. now apply (i_queue _ _ H i).
          -- intros y [Hy Hu]. apply Hu. unfold known. cbn. rewrite !in_app_iff. cbn. tauto.
        * eapply below_mono; [exact Hsub|]. eapply (i_queue _ _ H); eassumption.
      + intros j w Hw. node_cases i j; cbn; [|now apply (i_recvd _ _ H)].
        apply in_app_or in Hw as [Hw|[<-|[]]].
        * destruct (i_recvd _ _ H i w Hw) as [R1 R2]. split.
          -- intros y Hy. apply R1. eapply covers_weaken; eauto. intros x Hx. apply in_or_app. now left.
          -- intros Hh y Hy. apply R2; auto. eapply covers_weaken; eauto. intros x Hx. apply in_or_app. now left.
        * split.
          -- intros y (_ & _ & Hy). apply Hy. apply in_or_app. right. now left.
          -- intros _ y (_ & _ & Hy). apply Hy. apply in_or_app. right. now left.
      + intros j. node_cases i j; cbn; apply (i_oldle _ _ H).
      + intros j. node_cases i j; [|apply (i_lastc _ _ H)].
        pose proof (i_lastc _ _ H i) as Hs. unfold stable in *. cbn. exact Hs.
      + apply (i_chain _ _ H).
    - (* merge step *)
      destruct (n_queue (st i)) as [|v q] eqn:Hq; [exact H|].
      destruct (i_ok _ _ H i) as (Hv & Ho & Hqo & Hr & Hl). rewrite Hq in Hqo.
      inversion Hqo as [|? ? Hvo Hqo']; subst.
      assert (Hbv : below g v) by (apply (i_queue _ _ H i); rewrite Hq; now left).
      constructor.
      + intros j. node_cases i j; cbn; [|apply (i_ok _ _ H)].
        repeat split; auto. destruct (n_hasold (st i)); auto.
      + apply (i_okK _ _ H).
      + intros j. node_cases i j; [|apply (i_stable _ _ H)].
        pose proof (i_stable _ _ H i) as Hs. unfold stable in *. cbn.
        destruct (n_hasold (st i)); intros y Hy; (apply merge_lub; [assumption|assumption|apply Hy|now apply Hs|now apply Hbv]).
      + intros j w Hw. node_cases i j; cbn in Hw; [|eapply (i_queue _ _ H); eassumption].
        apply (i_queue _ _ H i). rewrite Hq. now right.
      + intros j w Hw. node_cases i j; cbn; [|now apply (i_recvd _ _ H)].
        destruct (i_recvd _ _ H i w Hw) as [R1 R2]. rewrite Hq in R1, R2. split.
        * intros y (Hy & Hb & Hy'). apply R1. split; [exact Hy|]. split.
          -- eapply le_trans; [|exact Hb]. now apply merge_ub_l.
          -- intros x [<-|Hx]; [|now apply Hy']. eapply le_trans; [|exact Hb]. now apply merge_ub_r.
        * intros Hh y (Hy & Hb & Hy'). rewrite Hh in Hb. apply R2; [exact Hh|]. split; [exact Hy|]. split.
          -- eapply le_trans; [|exact Hb]. now apply merge_ub_l.
          -- intros x [<-|Hx]; [|now apply Hy']. eapply le_trans; [|exact Hb]. now apply merge_ub_r.
      + intros j. node_cases i j; cbn; [|apply (i_oldle _ _ H)]. intros Hh. rewrite Hh.
        apply le_merge_mono; auto. now apply (i_oldle _ _ H).
      + intros j. node_cases i j; [|apply (i_lastc _ _ H)].
        pose proof (i_lastc _ _ H i) as Hs. unfold stable in *. cbn.
        destruct (n_hasold (st i)); (eapply le_trans; [exact Hs|now apply merge_ub_l]).
      + apply (i_chain _ _ H).
  Qed.

  Theorem inv_run_from : forall evs st g, inv st g -> valid_from st evs ->
    inv (fst (xrun_from (st, g) evs)) (snd (xrun_from (st, g) evs)).
  Proof.
    induction evs as [|e evs IH]; intros st g H Hv; [exact H|].
    destruct Hv as [He Hv]. cbn [Model.xrun_from fold_left]. unfold Model.xstep at 2. cbn [fst snd].
    apply IH; [now apply inv_step|exact Hv].
  Qed.

  Theorem inv_run : forall evs, valid evs -> inv (fst (xrun evs)) (snd (xrun evs)).
  Proof. intros evs Hv. apply inv_run_from; [apply inv_init|exact Hv]. Qed.

  (* ================================================================ consequences, every valid schedule *)

  (* whatever leaves a node (payload of a broadcast round, reply to ReceiveValue) carries nothing
     beyond committed and externally injected states: no update of a section in flight or aborted *)
  Theorem sent_below : forall evs e p, valid (evs ++ [e]) ->
    In p (sent T A (fst (xrun evs)) e) -> ok p /\ below (snd (xrun evs)) p.
  Proof.
    intros evs e p Hv Hp. unfold valid in Hv. apply valid_from_app in Hv as [Hv _].
    pose proof (inv_run evs Hv) as H. set (st := fst (xrun evs)) in *. set (g := snd (xrun evs)) in *.
    destruct e as [i a|i|i|i rs|i v|i]; cbn in Hp; try contradiction.
    - destruct (n_need (st i)); [contradiction|]. destruct Hp as [<-|Hp].
      + split; [now apply (stable_ok st g)|apply (i_stable _ _ H)].
      + apply in_map_iff in Hp as (j & <- & _). split; [now apply (stable_ok st g)|apply (i_stable _ _ H)].
    - destruct Hp as [<-|[]]. split; [now apply (stable_ok st g)|apply (i_stable _ _ H)].
  Qed.

  (* no trace of an aborted (or still open) section outside the node's working value: with no section
     in flight the value itself is below the committed/injected states, and so is every queued message *)
  Theorem nothing_uncommitted_survives : forall evs i, valid evs ->
    let st := fst (xrun evs) in let g := snd (xrun evs) in
    (n_hasold (st i) = false -> below g (n_value (st i))) /\
    (forall v, In v (n_queue (st i)) -> below g v) /\ below g (stable (st i)).
  Proof.
    intros evs i Hv. cbn zeta. pose proof (inv_run evs Hv) as H. split; [|split].
    - intros Hh. pose proof (i_stable _ _ H i) as Hs. unfold stable in Hs. now rewrite Hh in Hs.
    - apply (i_queue _ _ H).
    - apply (i_stable _ _ H).
  Qed.

  (* an abort restores exactly the state a broadcast would have sent just before it *)
  Theorem abort_restores_stable : forall st i,
    n_value (step st (EAbort i) i) = stable (st i) /\ n_hasold (step st (EAbort i) i) = false.
  Proof. intros st i. cbn. rewrite fupd_same. cbn. split; reflexivity. Qed.

  (* everything a node ever received is covered by its value and its queue, at all times (also right
     after an abort) *)
  Theorem received_never_lost : forall evs i v, valid evs ->
    let st := fst (xrun evs) in let g := snd (xrun evs) in
    In v (g_recvd g i) -> forall y, covers (n_value (st i)) (n_queue (st i)) y -> le v y.
  Proof. intros evs i v Hv. cbn zeta. intros Hin. apply (i_recvd _ _ (inv_run evs Hv) i v Hin). Qed.

  (* ================================================================ schedules whose broadcasts reach every other peer *)
  Definition full_ev (e : event) : Prop :=
    match e with ETick i rs => rs = others i | _ => True end.

  (* every other peer has received a state above node i's last committed one (trivial while node i
     has committed nothing) *)
  Definition delivered (g : ghost) (i : Z) : Prop :=
    forall j, In j (others i) -> le (g_lastc g i) init \/ exists v, In v (g_recvd g j) /\ le (g_lastc g i) v.

  (* either a broadcast is still owed, or every other peer has received the last committed state *)
  Definition owed (st : state) (g : ghost) : Prop := forall i, (0 < n_need (st i))%nat \/ delivered g i.

  Lemma gstep_recvd_mono : forall st g e k v, In v (g_recvd g k) -> In v (g_recvd (gstep st g e) k).
  Proof.
    intros st g e k v H. destruct e as [i a|i|i|i rs|i w|i]; cbn; auto.
    - destruct (n_hasold (st i)); auto.
    - destruct (n_need (st i)); auto. cbn.
      revert H. generalize (g_recvd g). induction rs as [|j rs IH]; intros rv H; cbn; [exact H|].
      apply IH. apply grpc_recvd. now left.
    - destruct (Z.eq_dec k i) as [->|Hne]; [rewrite fupd_same; apply in_or_app; now left|now rewrite fupd_other].
  Qed.

  Lemma gstep_lastc : forall st g e k, (forall i, e <> ECommit i) -> g_lastc (gstep st g e) k = g_lastc g k.
  Proof.
    intros st g e k Hne. destruct e as [i a|i|i|i rs|i w|i]; cbn; auto.
    - exfalso. now apply (Hne i).
    - destruct (n_need (st i)); reflexivity.
  Qed.

  Lemma delivered_step : forall st g e i, (forall k, e <> ECommit k) -> delivered g i -> delivered (gstep st g e) i.
  Proof.
    intros st g e i Hne Hd j Hj. rewrite gstep_lastc by assumption.
    destruct (Hd j Hj) as [Hi|(v & Hv & Hle)]; [now left|right]. exists v. split; [|exact Hle].
    now apply gstep_recvd_mono.
  Qed.

  Lemma tick_delivers : forall st g i, inv st g -> owed st g -> delivered (gstep st g (ETick i (others i))) i.
  Proof.
    intros st g i H Ho. cbn. destruct (n_need (st i)) as [|k] eqn:Hn.
    - destruct (Ho i) as [Hlt|Hd]; [lia|exact Hd].
    - pose proof (tick_fold g (stable (st i)) i (others i) st (g_recvd g) (stable_ok _ _ i H) (i_stable _ _ H i)
                            (i_stable _ _ H) (fun k => stable_ok _ _ k H) (inv_rinv _ _ H)) as (_ & _ & _ & Hin).
      cbn zeta in Hin. intros j Hj. right. exists (stable (st i)). split; [now apply Hin|]. cbn. apply (i_lastc _ _ H).
  Qed.

  Lemma owed_step : forall st g e, inv st g -> full_ev e -> owed st g -> owed (step st e) (gstep st g e).
  Proof.
    intros st g e H Hf Ho k. destruct e as [i a|i|i|i rs|i w|i].
    - (* write *) destruct (Ho k) as [Hlt|Hd]; [left|right; apply delivered_step; [discriminate|exact Hd]].
      cbn. node_cases i k; cbn; exact Hlt.
    - (* commit *)
      cbn [Model.step Model.gstep]. destruct (n_hasold (st i)) eqn:Hh.
      + destruct (Z.eq_dec k i) as [->|Hne].
        * rewrite fupd_same. cbn. destruct (peers i) as [|p ps] eqn:Hp; [right|left; cbn; lia].
          intros j Hj. unfold Model.others in Hj. rewrite Hp in Hj. destruct Hj.
        * rewrite fupd_other by assumption. destruct (Ho k) as [Hlt|Hd]; [now left|right].
          intros j Hj. cbn [g_lastc g_recvd]. rewrite fupd_other by assumption. apply (Hd j Hj).
      + destruct (Ho k) as [Hlt|Hd]; [left|now right]. node_cases i k; cbn; exact Hlt.
    - (* abort *) destruct (Ho k) as [Hlt|Hd]; [left|right; apply delivered_step; [discriminate|exact Hd]].
      cbn. node_cases i k; cbn; exact Hlt.
    - (* tick *) cbn in Hf. subst rs.
      destruct (Z.eq_dec k i) as [->|Hne]; [right; now apply tick_delivers|].
      destruct (Ho k) as [Hlt|Hd]; [left|right; apply delivered_step; [discriminate|exact Hd]].
      cbn. destruct (n_need (st i)) eqn:Hn; [exact Hlt|].
      pose proof (tick_fold g (stable (st i)) i (others i) st (g_recvd g) (stable_ok _ _ i H) (i_stable _ _ H i)
                            (i_stable _ _ H) (fun k => stable_ok _ _ k H) (inv_rinv _ _ H)) as (_ & Hv & _).
      cbn zeta in Hv. destruct (Hv k) as (_ & _ & _ & Hneed). now rewrite Hneed.
    - (* receive *) destruct (Ho k) as [Hlt|Hd]; [left|right; apply delivered_step; [discriminate|exact Hd]].
      cbn. node_cases i k; cbn; exact Hlt.
    - (* merge *) destruct (Ho k) as [Hlt|Hd]; [left|right; apply delivered_step; [discriminate|exact Hd]].
      cbn. destruct (n_queue (st i)); [exact Hlt|]. node_cases i k; cbn; exact Hlt.
  Qed.

  Lemma owed_init : owed (state_init T init) (ghost_init T init).
  Proof. intros i. right. intros j Hj. left. cbn. now apply le_refl. Qed.

  Definition full (evs : list event) : Prop := Forall full_ev evs.

  Theorem owed_run_from : forall evs st g, inv st g -> owed st g -> valid_from st evs -> full evs ->
    owed (fst (xrun_from (st, g) evs)) (snd (xrun_from (st, g) evs)).
  Proof.
    induction evs as [|e evs IH]; intros st g H Ho Hv Hf; [exact Ho|].
    destruct Hv as [He Hv]. inversion Hf; subst. cbn [Model.xrun_from fold_left]. unfold Model.xstep at 2. cbn [fst snd].
    apply IH; auto using inv_step, owed_step.
  Qed.

  (* owed_after_commit: when every broadcast round reaches every other peer, a node's owed count can
     only be 0 if every other peer has received a state above its last committed one; and a writing
     commit sets the count to the number of peers *)
  Theorem owed_after_commit : forall evs, valid evs -> full evs ->
    owed (fst (xrun evs)) (snd (xrun evs)).
  Proof. intros evs Hv Hf. apply owed_run_from; auto using inv_init, owed_init. Qed.

  Theorem commit_sets_owed : forall st i, n_hasold (st i) = true ->
    n_need (step st (ECommit i) i) = List.length (peers i).
  Proof. intros st i Hh. cbn. rewrite fupd_same. cbn. now rewrite Hh. Qed.


  (* ================================================================ eventual delivery, as bounded-round quiescent convergence *)
  (* the nodes of a full mesh: every node's peer list names every other node *)
  Variable N : list Z.
  Hypothesis mesh : forall i j, In i N -> In j N -> i <> j -> In j (others i).

  Definition node_of (e : event) : Z :=
    match e with EWrite i _ | ECommit i | EAbort i | ETick i _ | ERecv i _ | EMerge i => i end.

  (* schedules of the mesh itself: events of mesh nodes, broadcasts reach every other peer, no value
     is injected from outside the mesh *)
  Definition internal_ev (e : event) : Prop :=
    In (node_of e) N /\ full_ev e /\ match e with ERecv _ _ => False | _ => True end.
  Definition internal (evs : list event) : Prop := Forall internal_ev evs.

  Definition iinv (g : ghost) : Prop := g_injected g = [] /\ forall i, ~ In i N -> g_lastc g i = init.

  Lemma iinv_step : forall st g e, internal_ev e -> iinv g -> iinv (gstep st g e).
  Proof.
    intros st g e (Hn & _ & Hr) [Hi Hl]. destruct e as [i a|i|i|i rs|i w|i]; cbn in *; try (split; assumption).
    - destruct (n_hasold (st i)); [|split; assumption]. split; [exact Hi|]. cbn. intros k Hk.
      rewrite fupd_other; [now apply Hl|]. intros ->. contradiction.
    - destruct (n_need (st i)); split; assumption.
    - contradiction.
  Qed.

  Lemma iinv_run_from : forall evs st g, internal evs -> iinv g -> iinv (snd (xrun_from (st, g) evs)).
  Proof.
    induction evs as [|e evs IH]; intros st g Hi Hg; [exact Hg|]. inversion Hi; subst.
    cbn [Model.xrun_from fold_left]. unfold Model.xstep at 2. cbn [fst snd]. apply IH; [assumption|now apply iinv_step].
  Qed.

  Lemma internal_full : forall evs, internal evs -> full evs.
  Proof. intros evs H. eapply Forall_impl; [|exact H]. intros e (_ & Hf & _). exact Hf. Qed.

  (* the settling continuation: every node runs one broadcast round, then every node's merger drains its queue *)
  Definition ticks : list event := map (fun i => ETick i (others i)) N.
  Definition merges (st : state) : list event :=
    flat_map (fun i => repeat (EMerge i) (List.length (n_queue (st i)))) N.

  Definition quiet_ev (e : event) : Prop := match e with ETick i rs => rs = others i /\ In i N | EMerge i => In i N | _ => False end.

  Lemma quiet_valid : forall evs st, Forall quiet_ev evs -> valid_from st evs.
  Proof.
    induction evs as [|e evs IH]; intros st H; [exact I|]. inversion H; subst. split; [|now apply IH].
    destruct e; cbn in *; tauto.
  Qed.

  Lemma quiet_internal : forall evs, Forall quiet_ev evs -> internal evs.
  Proof.
    intros evs H. eapply Forall_impl; [|exact H]. intros e He. destruct e; cbn in *; try contradiction.
    - destruct He as [-> Hi]. repeat split; auto.
    - repeat split; auto.
  Qed.

  Lemma rpc_fold_hasold : forall p i rs st k,
    n_hasold (fold_left (rpc T p i) rs st k) = n_hasold (st k) /\ n_value (fold_left (rpc T p i) rs st k) = n_value (st k).
  Proof.
    intros p i rs. induction rs as [|j rs IH]; intros st k; cbn; [split; reflexivity|].
    destruct (IH (rpc T p i st j) k) as [-> ->]. destruct (rpc_values p i st j k) as (-> & _ & -> & _). split; reflexivity.
  Qed.

  Lemma quiet_step_hasold : forall st e k, quiet_ev e -> n_hasold (step st e k) = n_hasold (st k).
  Proof.
    intros st e k He. destruct e as [i a|i|i|i rs|i w|i]; cbn in He; try contradiction; cbn.
    - destruct (n_need (st i)); [reflexivity|]. apply rpc_fold_hasold.
    - destruct (n_queue (st i)); [reflexivity|]. node_cases i k; reflexivity.
  Qed.

  Lemma quiet_run_hasold : forall evs st k, Forall quiet_ev evs ->
    n_hasold (run_from T A write merge peers st evs k) = n_hasold (st k).
  Proof.
    unfold Model.run_from. induction evs as [|e evs IH]; intros st k H; [reflexivity|]. inversion H; subst.
    cbn [fold_left]. rewrite IH by assumption. now apply quiet_step_hasold.
  Qed.

  Lemma quiet_no_commit : forall e, quiet_ev e -> forall k, e <> ECommit k.
  Proof. intros e He k ->. exact He. Qed.

  Lemma delivered_quiet_run : forall evs st g i, Forall quiet_ev evs -> delivered g i ->
    delivered (snd (xrun_from (st, g) evs)) i.
  Proof.
    induction evs as [|e evs IH]; intros st g i H Hd; [exact Hd|]. inversion H; subst.
    cbn [Model.xrun_from fold_left]. unfold Model.xstep at 2. cbn [fst snd].
    apply IH; [assumption|]. apply delivered_step; [now apply quiet_no_commit|exact Hd].
  Qed.

  (* after one broadcast round per node, every node's last committed state has been delivered to every other node *)
  Lemma ticks_deliver : forall L st g, (forall i, In i L -> In i N) -> inv st g -> owed st g ->
    let x := xrun_from (st, g) (map (fun i => ETick i (others i)) L) in
    forall i, In i L -> delivered (snd x) i.
  Proof.
    induction L as [|i0 L IH]; intros st g HL H Ho; cbn zeta; [intros i []|].
    assert (Hq : Forall quiet_ev (map (fun i => ETick i (others i)) L)).
    { apply Forall_forall. intros e He. apply in_map_iff in He as (k & <- & Hk). split; [reflexivity|]. apply HL. now right. }
    cbn [map Model.xrun_from fold_left]. unfold Model.xstep at 2. cbn [fst snd].
    intros i [<-|Hi].
    - apply delivered_quiet_run; [exact Hq|]. now apply tick_delivers.
    - apply IH; auto.
      + intros k Hk. apply HL. now right.
      + apply inv_step; [exact H|exact I].
      + apply owed_step; [exact H|reflexivity|exact Ho].
  Qed.

  (* draining: EMerge k touches only node k; as many merge steps as queued entries empty the queue *)
  Lemma merge_step_queue : forall st i k,
    n_queue (step st (EMerge i) k) = if k =? i then tl (n_queue (st k)) else n_queue (st k).
  Proof.
    intros st i k. cbn. destruct (Z.eq_dec k i) as [->|Hne].
    - rewrite Z.eqb_refl. destruct (n_queue (st i)) eqn:Hq; [now rewrite Hq|]. rewrite fupd_same. reflexivity.
    - destruct (k =? i)%Z eqn:E; [lia|]. destruct (n_queue (st i)); [reflexivity|]. now rewrite fupd_other.
  Qed.

  Lemma repeat_merge_queue : forall n st i k,
    n_queue (run_from T A write merge peers st (repeat (EMerge i) n) k) =
    if k =? i then skipn n (n_queue (st k)) else n_queue (st k).
  Proof.
    unfold Model.run_from. induction n as [|n IH]; intros st i k; cbn [repeat fold_left].
    - destruct (k =? i)%Z; reflexivity.
    - rewrite IH. rewrite merge_step_queue. destruct (k =? i)%Z; [|reflexivity].
      destruct (n_queue (st k)); [now rewrite skipn_nil|reflexivity].
  Qed.

  Lemma drain : forall L (c : Z -> nat) st, (forall i, In i L -> (List.length (n_queue (st i)) <= c i)%nat) ->
    forall i, In i L -> n_queue (run_from T A write merge peers st (flat_map (fun i => repeat (EMerge i) (c i)) L) i) = [].
  Proof.
    induction L as [|i0 L IH]; intros c st Hc i Hi; [destruct Hi|].
    cbn [flat_map]. unfold Model.run_from. rewrite fold_left_app.
    fold (run_from T A write merge peers st (repeat (EMerge i0) (c i0))).
    set (st' := run_from T A write merge peers st (repeat (EMerge i0) (c i0))).
    fold (run_from T A write merge peers st' (flat_map (fun i1 => repeat (EMerge i1) (c i1)) L)).
    assert (Hq : forall k, n_queue (st' k) = if (k =? i0)%Z then skipn (c i0) (n_queue (st k)) else n_queue (st k))
      by (intros k; apply repeat_merge_queue).
    destruct (in_dec Z.eq_dec i L) as [HiL|HiL].
    - apply IH; [|exact HiL]. intros k Hk. rewrite Hq. destruct (k =? i0)%Z eqn:E.
      + rewrite skipn_length. specialize (Hc k (or_intror Hk)). lia.
      + apply Hc. now right.
    - destruct Hi as [<-|Hi]; [|contradiction].
      (* later merges concern other nodes only *)
      assert (Hrest : forall L' st0, ~ In i0 L' ->
                n_queue (run_from T A write merge peers st0 (flat_map (fun i1 => repeat (EMerge i1) (c i1)) L') i0) = n_queue (st0 i0)).
      { induction L' as [|j L' IHL']; intros st0 Hn; [reflexivity|]. cbn [flat_map]. unfold Model.run_from. rewrite fold_left_app.
        fold (run_from T A write merge peers st0 (repeat (EMerge j) (c j))).
        fold (run_from T A write merge peers (run_from T A write merge peers st0 (repeat (EMerge j) (c j))) (flat_map (fun i1 => repeat (EMerge i1) (c i1)) L')).
        rewrite IHL' by (intros Hx; apply Hn; now right). rewrite repeat_merge_queue.
        destruct (i0 =? j)%Z eqn:E; [exfalso; apply Hn; left; lia|reflexivity]. }
      rewrite Hrest by assumption. rewrite Hq, Z.eqb_refl. apply skipn_all2. apply Hc. now left.
  Qed.

  Lemma merges_quiet : forall st, Forall quiet_ev (merges st).
  Proof.
    intros st. apply Forall_forall. intros e He. unfold merges in He. apply in_flat_map in He as (i & Hi & He).
    apply repeat_spec in He. subst. exact Hi.
  Qed.

  Lemma ticks_quiet : Forall quiet_ev ticks.
  Proof. apply Forall_forall. intros e He. apply in_map_iff in He as (i & <- & Hi). now split. Qed.

  (* eventual_delivery: from any state reached by a schedule of the mesh in which no section is in
     flight, if no further update happens, one broadcast round per node followed by draining the merge
     queues makes all replicas equal (each is below each other) *)
  Lemma pair_eta_run : forall (x : state * ghost) evs, xrun_from x evs = xrun_from (fst x, snd x) evs.
  Proof. intros [st g] evs. reflexivity. Qed.

  Theorem eventual_delivery : forall evs, valid evs -> internal evs ->
    (forall i, In i N -> n_hasold (fst (xrun evs) i) = false) ->
    let st1 := fst (xrun (evs ++ ticks)) in
    let st2 := fst (xrun (evs ++ ticks ++ merges st1)) in
    forall i j, In i N -> In j N -> le (n_value (st2 i)) (n_value (st2 j)).
  Proof.
    intros evs Hv Hint Hclosed. cbn zeta.
    set (x0 := xrun evs). unfold Model.xrun. rewrite !xrun_from_app. fold (xrun evs). fold x0.
    set (x1 := xrun_from x0 ticks). set (x2 := xrun_from x1 (merges (fst x1))).
    pose proof (inv_run evs Hv) as H0. pose proof (owed_after_commit evs Hv (internal_full _ Hint)) as O0. fold x0 in H0, O0.
    assert (G0 : iinv (snd x0)).
    { unfold x0, Model.xrun. apply iinv_run_from; [exact Hint|]. split; [reflexivity|]. intros; reflexivity. }
    (* after the ticks *)
    assert (H1 : inv (fst x1) (snd x1)).
    { unfold x1. rewrite (pair_eta_run x0). apply inv_run_from; [exact H0|]. apply quiet_valid. apply ticks_quiet. }
    assert (D1 : forall i, In i N -> delivered (snd x1) i).
    { unfold x1. rewrite (pair_eta_run x0). apply (ticks_deliver N (fst x0) (snd x0)); auto. }
    assert (G1 : iinv (snd x1)).
    { unfold x1. rewrite (pair_eta_run x0). apply iinv_run_from; [apply quiet_internal, ticks_quiet|exact G0]. }
    assert (C1 : forall i, In i N -> n_hasold (fst x1 i) = false).
    { intros i Hi. unfold x1. rewrite xrun_from_fst. rewrite quiet_run_hasold by apply ticks_quiet. now apply Hclosed. }
    (* after the merges *)
    assert (H2 : inv (fst x2) (snd x2)).
    { unfold x2. rewrite (pair_eta_run x1). apply inv_run_from; [exact H1|]. apply quiet_valid. apply merges_quiet. }
    assert (D2 : forall i, In i N -> delivered (snd x2) i).
    { intros i Hi. unfold x2. rewrite (pair_eta_run x1). apply delivered_quiet_run; [apply merges_quiet|now apply D1]. }
    assert (G2 : iinv (snd x2)).
    { unfold x2. rewrite (pair_eta_run x1). apply iinv_run_from; [apply quiet_internal, merges_quiet|exact G1]. }
    assert (C2 : forall i, In i N -> n_hasold (fst x2 i) = false).
    { intros i Hi. unfold x2. rewrite xrun_from_fst. rewrite quiet_run_hasold by apply merges_quiet. now apply C1. }
    assert (Q2 : forall i, In i N -> n_queue (fst x2 i) = []).
    { intros i Hi. unfold x2. rewrite xrun_from_fst. unfold merges. apply drain; [|exact Hi]. intros k _. lia. }
    (* every node's value is above every node's last committed state *)
    assert (Hval : forall i, ok (n_value (fst x2 i))) by (intros i; apply (i_ok _ _ H2 i)).
    assert (Hcov : forall i j, In i N -> In j N -> le (g_lastc (snd x2) i) (n_value (fst x2 j))).
    { intros i j Hi Hj. destruct (Z.eq_dec i j) as [->|Hne].
      - pose proof (i_lastc _ _ H2 j) as Hl. unfold stable in Hl. now rewrite (C2 j Hj) in Hl.
      - destruct (D2 i Hi j (mesh i j Hi Hj Hne)) as [Hinit|(v & Hv' & Hle)].
        + eapply le_trans; [exact Hinit|]. now apply init_least.
        + eapply le_trans; [exact Hle|]. apply (proj1 (i_recvd _ _ H2 j v Hv')).
          split; [apply Hval|]. split; [now apply le_refl|]. rewrite (Q2 j Hj). intros w []. }
    intros i j Hi Hj.
    pose proof (i_stable _ _ H2 i) as Hb. unfold stable in Hb. rewrite (C2 i Hi) in Hb.
    apply Hb. split; [apply Hval|]. intros c Hc. unfold known in Hc. destruct G2 as [Ginj Gl]. rewrite Ginj, app_nil_r in Hc.
    destruct (i_chain _ _ H2 c Hc) as [k Hk]. destruct (in_dec Z.eq_dec k N) as [HkN|HkN].
    - eapply le_trans; [exact Hk|]. now apply Hcov.
    - rewrite (Gl k HkN) in Hk. eapply le_trans; [exact Hk|]. now apply init_least.
  Qed.
End Res.
