(* C13 — executable model of the CRDT resource distsys/resources/crdt.go (after the two repairs:
   the merger also merges into oldValue while a section is in flight; the owed broadcast count is set
   at Commit). Model only: no proofs here.

   The CRDT data type is abstract (any T with write / merge); the correspondence check instantiates
   it with GCounter from C12/Model.v.  Per node: value, oldValue, hasOldValue, needBroadcastCount and
   the queue mergeValues.  Events (one per schedulable step of the real code):
     EWrite i a     WriteValue: open a section if none is open (oldValue := value), value := Write(id, a)
     ECommit i      Commit: hasOldValue := false; if the section wrote, needBroadcastCount := len(peerIds)
     EAbort i       Abort: if hasOldValue { value := oldValue }; hasOldValue := false
     ETick i rs     one broadcast(): if needBroadcastCount > 0, the stable value (getStableValue) is sent
                    to the peers rs (those whose RPC succeeds: an oracle); each enqueues it and replies
                    with its own stable value; per reply the count is decremented (not below 0) and the
                    reply is enqueued
     ERecv i v      ReceiveValue called on node i with v from outside: enqueue v, reply the stable value
     EMerge i       the merger goroutine takes the head of the queue and merges it into value (and into
                    oldValue while a section is in flight)
   Theorems quantify over all event lists: every interleaving. *)
From PGV Require Export C12.Model.
Open Scope Z_scope.

Section CRDTRes.
  Variables (T A : Type).
  Variable init : T.
  Variable write : Z -> A -> T -> T.
  Variable merge : T -> T -> T.
  Variable peers : Z -> list Z.        (* peerIds of each node (may or may not contain the node itself) *)

  Record node := mkNode { n_value : T; n_old : T; n_hasold : bool; n_need : nat; n_queue : list T }.

  Definition node_init : node := mkNode init init false 0 [].

  (* getStableValue *)
  Definition stable (nd : node) : T := if n_hasold nd then n_old nd else n_value nd.

  Inductive event :=
  | EWrite (i : Z) (a : A) | ECommit (i : Z) | EAbort (i : Z)
  | ETick (i : Z) (rs : list Z) | ERecv (i : Z) (v : T) | EMerge (i : Z).

  Definition state := Z -> node.
  Definition state_init : state := fun _ => node_init.

  (* prepMerge *)
  Definition enqueue (v : T) (nd : node) : node :=
    mkNode (n_value nd) (n_old nd) (n_hasold nd) (n_need nd) (n_queue nd ++ [v]).

  (* one successful RPC of a broadcast round of node i with payload p to peer j *)
  Definition rpc (p : T) (i : Z) (st : state) (j : Z) : state :=
    let reply := stable (st j) in
    let st1 := fupd st j (enqueue p (st j)) in
    let ndi := st1 i in
    fupd st1 i (mkNode (n_value ndi) (n_old ndi) (n_hasold ndi) (Nat.pred (n_need ndi)) (n_queue ndi ++ [reply])).

  Definition step (st : state) (e : event) : state :=
    match e with
    | EWrite i a =>
        let nd := st i in
        fupd st i (mkNode (write i a (n_value nd)) (if n_hasold nd then n_old nd else n_value nd) true
                          (n_need nd) (n_queue nd))
    | ECommit i =>
        let nd := st i in
        fupd st i (mkNode (n_value nd) (n_old nd) false
                          (if n_hasold nd then List.length (peers i) else n_need nd) (n_queue nd))
    | EAbort i =>
        let nd := st i in
        fupd st i (mkNode (if n_hasold nd then n_old nd else n_value nd) (n_old nd) false (n_need nd) (n_queue nd))
    | ETick i rs =>
        match n_need (st i) with
        | O => st
        | S _ => fold_left (rpc (stable (st i)) i) rs st
        end
    | ERecv i v => fupd st i (enqueue v (st i))
    | EMerge i =>
        let nd := st i in
        match n_queue nd with
        | [] => st
        | v :: q =>
            fupd st i (mkNode (merge (n_value nd) v) (if n_hasold nd then merge (n_old nd) v else n_old nd)
                              (n_hasold nd) (n_need nd) q)
        end
    end.

  Definition run_from (st : state) (evs : list event) : state := fold_left step evs st.
  Definition run (evs : list event) : state := run_from state_init evs.

  (* what leaves a node: the payload of a broadcast round and every reply to a ReceiveValue *)
  Definition sent (st : state) (e : event) : list T :=
    match e with
    | ETick i rs =>
        match n_need (st i) with
        | O => []
        | S _ => stable (st i) :: map (fun j => stable (st j)) rs
        end
    | ERecv i _ => [stable (st i)]
    | _ => []
    end.

  (* Bookkeeping used to state the theorems (no influence on the states):
       g_committed   the values committed by sections that wrote
       g_injected    the values handed to ReceiveValue from outside
       g_recvd i     every value node i has received (from broadcasts, replies, outside)
       g_lastc i     the value of node i at its last writing commit (init before) *)
  Record ghost := mkGhost { g_committed : list T; g_injected : list T; g_recvd : Z -> list T; g_lastc : Z -> T }.

  Definition ghost_init : ghost := mkGhost [] [] (fun _ => []) (fun _ => init).

  Definition grpc (p : T) (i : Z) (st : state) (rv : Z -> list T) (j : Z) : Z -> list T :=
    let rv1 := fupd rv j (rv j ++ [p]) in fupd rv1 i (rv1 i ++ [stable (st j)]).

  Definition gstep (st : state) (g : ghost) (e : event) : ghost :=
    match e with
    | ECommit i =>
        if n_hasold (st i)
        then mkGhost (g_committed g ++ [n_value (st i)]) (g_injected g) (g_recvd g) (fupd (g_lastc g) i (n_value (st i)))
        else g
    | ETick i rs =>
        match n_need (st i) with
        | O => g
        | S _ => mkGhost (g_committed g) (g_injected g)
                         (fold_left (grpc (stable (st i)) i st) rs (g_recvd g)) (g_lastc g)
        end
    | ERecv i v => mkGhost (g_committed g) (g_injected g ++ [v]) (fupd (g_recvd g) i (g_recvd g i ++ [v])) (g_lastc g)
    | _ => g
    end.

  Definition xstep (x : state * ghost) (e : event) : state * ghost := (step (fst x) e, gstep (fst x) (snd x) e).
  Definition xrun_from (x : state * ghost) (evs : list event) : state * ghost := fold_left xstep evs x.
  Definition xrun (evs : list event) : state * ghost := xrun_from (state_init, ghost_init) evs.

  (* the peers a full broadcast round reaches: every peer but the node itself (tryConnectPeers) *)
  Definition others (i : Z) : list Z := filter (fun j => negb (j =? i)) (peers i).
End CRDTRes.

Arguments n_value {T}.
Arguments n_old {T}.
Arguments n_hasold {T}.
Arguments n_need {T}.
Arguments n_queue {T}.
Arguments stable {T}.
Arguments EWrite {T A}.
Arguments ECommit {T A}.
Arguments EAbort {T A}.
Arguments ETick {T A}.
Arguments ERecv {T A}.
Arguments EMerge {T A}.
Arguments g_committed {T}.
Arguments g_injected {T}.
Arguments g_recvd {T}.
Arguments g_lastc {T}.

(* ---------------------------------------------------------------- instance: GCounter payload *)
Definition gcr_event := event gc Z.

(* n nodes 0 .. n-1, full mesh; `self`: the peer list of a node contains the node itself (shopcart) or not (gcounter) *)
Definition mesh_peers (n : nat) (self dead : bool) (i : Z) : list Z :=
  filter (fun j => self || negb (j =? i)) (map Z.of_nat (seq 0 n)) ++ (if dead then [Z.of_nat n] else []).
(* dead: the peer list also names a peer that is never reachable (no listener at its address) *)

Definition gcr_run (n : nat) (self dead : bool) := run gc Z gc_init gc_write gc_merge (mesh_peers n self dead).

(* observation of one node: (Read of value, Read of the stable value, hasOldValue, needBroadcastCount);
   a read is a list: [number] for GCounter, the sorted elements for the sets *)
Definition obs := (list Z * list Z * bool * nat)%type.

Definition obs_eqb (a b : obs) : bool :=
  let '(v1, s1, h1, k1) := a in let '(v2, s2, h2, k2) := b in
  zlist_eqb v1 v2 && zlist_eqb s1 s2 && Bool.eqb h1 h2 && Nat.eqb k1 k2.

Fixpoint obs_list_eqb (a b : list obs) : bool :=
  match a, b with
  | [], [] => true
  | x :: a', y :: b' => obs_eqb x y && obs_list_eqb a' b'
  | _, _ => false
  end.

Section ResCheck.
  Variables (T A : Type) (init : T) (write : Z -> A -> T -> T) (merge : T -> T -> T) (rd : T -> list Z).

  Definition node_obs (nd : node T) : obs := (rd (n_value nd), rd (stable nd), n_hasold nd, n_need nd).

  (* the schedule with, after each event, either nothing to compare (None: the harness did not stop
     there) or the observations of nodes 0 .. n-1 *)
  Fixpoint res_check_from (n : nat) (self dead : bool) (st : state T) (evs : list (event T A * option (list obs))) : bool :=
    match evs with
    | [] => true
    | (e, o) :: rest =>
        let st' := step T A write merge (mesh_peers n self dead) st e in
        (match o with
         | None => true
         | Some l => obs_list_eqb (map (fun i => node_obs (st' (Z.of_nat i))) (seq 0 n)) l
         end) && res_check_from n self dead st' rest
    end.

  Definition res_check (n : nat) (self dead : bool) (evs : list (event T A * option (list obs))) : bool :=
    res_check_from n self dead (state_init T init) evs.
End ResCheck.

Definition gcr_check := res_check gc Z gc_init gc_write gc_merge (fun c => [gc_read c]).
Definition awr_check := res_check aw (Z * Z) aw_init aw_write aw_merge (fun s => zsort (aw_read s)).
Definition lwwr_check := res_check lww (Z * Z * Z) lww_init lww_write lww_merge (fun s => zsort (lww_read s)).
