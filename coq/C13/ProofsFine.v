(* C13 — the theorems of C13/Proofs.v proved directly for the finer-grained model C13/ModelFine.v
   (broadcast round = begin / per-peer serve / drop / per-reply handling; merger = take / apply), for every
   interleaving and any join-semilattice payload; plus the generation-counter facts. *)
From PGV Require Import C13.Model C13.ModelFine C13.Proofs C12.ProofsSys.
From Coq Require Import Lia.

Section FineRes.
  Variables (T A : Type).
  Variable init : T.
  Variable write : Z -> A -> T -> T.
  Variable merge : T -> T -> T.
  Variable peers : Z -> list Z.

  Variable ok : T -> Prop.
  Variable le : T -> T -> Prop.
  Variable wpre : Z -> A -> T -> Prop.

  Hypothesis ok_init : ok init.
  Hypothesis le_refl : forall x, ok x -> le x x.
  Hypothesis le_trans : forall x y z, le x y -> le y z -> le x z.
  Hypothesis init_least : forall x, ok x -> le init x.
  Hypothesis merge_ok : forall x y, ok x -> ok y -> ok (merge x y).
  Hypothesis merge_ub_l : forall x y, ok x -> ok y -> le x (merge x y).
  Hypothesis merge_ub_r : forall x y, ok x -> ok y -> le y (merge x y).
  Hypothesis merge_lub : forall x y z, ok x -> ok y -> ok z -> le x z -> le y z -> le (merge x y) z.
  Hypothesis write_ok : forall i a x, ok x -> wpre i a x -> ok (write i a x).
  Hypothesis write_infl : forall i a x, ok x -> wpre i a x -> le x (write i a x).

  Notation fnode := (fnode T).
  Notation fstate := (fstate T).
  Notation fevent := (fevent T A).
  Notation fghost := (fghost T).
  Notation fstep := (fstep T A write merge peers).
  Notation fgstep := (fgstep T A).
  Notation fxrun := (fxrun T A init write merge peers).
  Notation fxrun_from := (fxrun_from T A write merge peers).
  Notation others := (others peers).

  (* ---------------------------------------------------------------- valid schedules *)
  Definition fev_ok (st : fstate) (e : fevent) : Prop :=
    match e with
    | FWrite i a => wpre i a (f_value (st i))
    | FRecv _ v => ok v
    | _ => True
    end.

  Fixpoint fvalid_from (st : fstate) (evs : list fevent) : Prop :=
    match evs with
    | [] => True
    | e :: rest => fev_ok st e /\ fvalid_from (fstep st e) rest
    end.

  Definition fvalid (evs : list fevent) : Prop := fvalid_from (fstate_init T init) evs.

  Lemma fvalid_from_app : forall a st b, fvalid_from st (a ++ b) <->
    fvalid_from st a /\ fvalid_from (frun_from T A write merge peers st a) b.
  Proof.
    unfold frun_from. induction a as [|e a IH]; intros st b; cbn [app fvalid_from fold_left]; [tauto|].
    rewrite IH. tauto.
  Qed.

  Lemma fxrun_from_fst : forall evs x, fst (fxrun_from x evs) = frun_from T A write merge peers (fst x) evs.
  Proof.
    unfold ModelFine.fxrun_from, frun_from. induction evs as [|e evs IH]; intros x; cbn [fold_left]; [reflexivity|].
    rewrite IH. reflexivity.
  Qed.

  (* ---------------------------------------------------------------- the safety invariant *)
  Definition fknown (g : fghost) : list T := h_committed g ++ h_injected g.
  Definition fubK (g : fghost) (y : T) : Prop := ok y /\ forall c, In c (fknown g) -> le c y.
  Definition fbelow (g : fghost) (x : T) : Prop := forall y, fubK g y -> le x y.

  (* received states waiting to be merged: the queue and what the merger holds *)
  Definition pend (nd : fnode) : list T :=
    match f_taken nd with Some v => v :: f_queue nd | None => f_queue nd end.

  Definition fcovers (base : T) (q : list T) (y : T) : Prop := ok y /\ le base y /\ forall v, In v q -> le v y.

  Definition round_vals (nd : fnode) : list T :=
    match f_round nd with Some r => r_payload r :: r_arrived r | None => [] end.

  Record finv (st : fstate) (g : fghost) : Prop := mkFinv {
    fi_ok : forall i, ok (f_value (st i)) /\ ok (f_old (st i)) /\ Forall ok (pend (st i)) /\
                      Forall ok (round_vals (st i)) /\ Forall ok (h_recvd g i) /\ ok (h_lastc g i);
    fi_okK : Forall ok (fknown g);
    fi_stable : forall i, fbelow g (fstable (st i));
    fi_pend : forall i v, In v (pend (st i)) -> fbelow g v;
    fi_round : forall i v, In v (round_vals (st i)) -> fbelow g v;
    fi_recvd : forall i v, In v (h_recvd g i) ->
                 (forall y, fcovers (f_value (st i)) (pend (st i)) y -> le v y) /\
                 (f_hasold (st i) = true -> forall y, fcovers (f_old (st i)) (pend (st i)) y -> le v y);
    fi_oldle : forall i, f_hasold (st i) = true -> le (f_old (st i)) (f_value (st i));
    fi_lastc : forall i, le (h_lastc g i) (fstable (st i));
    fi_chain : forall c, In c (h_committed g) -> exists i, le c (h_lastc g i);
    fi_gen : forall i r, f_round (st i) = Some r -> (r_gen r <= f_gen (st i))%nat;
  }.

  Lemma fstable_ok : forall st g i, finv st g -> ok (fstable (st i)).
  Proof. intros st g i H. destruct (fi_ok _ _ H i) as (H1 & H2 & _). unfold fstable. destruct (f_hasold (st i)); assumption. Qed.

  Lemma fbelow_mono : forall g g' x, (forall c, In c (fknown g) -> In c (fknown g')) -> fbelow g x -> fbelow g' x.
  Proof. intros g g' x Hs Hb y [Hy Hu]. apply Hb. split; [exact Hy|]. intros c Hc. apply Hu, Hs, Hc. Qed.

  Lemma fcovers_weaken : forall b b' q q' y, fcovers b' q' y -> ok b -> le b b' ->
    (forall v, In v q -> In v q') -> fcovers b q y.
  Proof.
    intros b b' q q' y (Hy & Hb & Hq) Hbo Hle Hsub. split; [exact Hy|]. split; [eapply le_trans; eauto|]. auto.
  Qed.

  Lemma finv_init : finv (fstate_init T init) (fghost_init T init).
  Proof.
    constructor; cbn; intros.
    - repeat split; auto.
    - constructor.
    - intros y [Hy _]. now apply init_least.
    - contradiction.
    - contradiction.
    - contradiction.
    - discriminate.
    - now apply le_refl.
    - contradiction.
    - discriminate.
  Qed.

  Ltac ncase i j :=
    destruct (Z.eq_dec j i) as [->|?]; [rewrite ?fupd_same in *|rewrite ?fupd_other in * by assumption].

  (* a step that leaves node k's record untouched *)
  Lemma le_merge_mono' : forall a b v, ok a -> ok b -> ok v -> le a b -> le (merge a v) (merge b v).
  Proof.
    intros a b v Ha Hb Hv Hab. apply merge_lub; [assumption|assumption|now apply merge_ok| |].
    - eapply le_trans; [exact Hab|]. now apply merge_ub_l.
    - now apply merge_ub_r.
  Qed.

  (* generic preservation: the ghost's known set only grows, recvd grows only as stated *)
  Lemma close_round_vals : forall (r : round T) v,
    In v (match close_round T r with Some r' => r_payload r' :: r_arrived r' | None => [] end) ->
    In v (r_payload r :: r_arrived r).
  Proof. intros r v. unfold close_round. destruct (r_todo r) eqn:E1, (r_arrived r) eqn:E2; cbn; rewrite ?E2; cbn; tauto. Qed.

  Lemma close_round_gen : forall (r r' : round T), close_round T r = Some r' -> r' = r.
  Proof. intros r r'. unfold close_round. destruct (r_todo r), (r_arrived r); congruence. Qed.

  Lemma finv_step : forall st g e, finv st g -> fev_ok st e -> finv (fstep st e) (fgstep st g e).
  Proof.
    intros st g e H He.
    destruct e as [i a|i|i|i v|i rs|i j|i j|i|i|i]; cbn [ModelFine.fstep ModelFine.fgstep fev_ok] in *.
    - (* write *)
      destruct (fi_ok _ _ H i) as (Hv & Ho & Hq & Hrv & Hr & Hl).
      constructor.
      + intros k. ncase i k; cbn; [|apply (fi_ok _ _ H)].
        unfold pend, round_vals in *. cbn. repeat split; auto. destruct (f_hasold (st i)); assumption.
      + apply (fi_okK _ _ H).
      + intros k. ncase i k; [|apply (fi_stable _ _ H)].
        pose proof (fi_stable _ _ H i) as Hs. unfold fstable in *. cbn. exact Hs.
      + intros k v. ncase i k; [|apply (fi_pend _ _ H)]. unfold pend. cbn. apply (fi_pend _ _ H i).
      + intros k v. ncase i k; [|apply (fi_round _ _ H)]. unfold round_vals. cbn. apply (fi_round _ _ H i).
      + intros k v Hkv. ncase i k; [|now apply (fi_recvd _ _ H)].
        destruct (fi_recvd _ _ H i v Hkv) as [R1 R2]. unfold pend in *. cbn. split.
        * intros y Hy. apply R1. eapply fcovers_weaken; eauto.
        * intros _ y Hy. destruct (f_hasold (st i)) eqn:Hh; [now apply R2|now apply R1].
      + intros k. ncase i k; cbn; [|apply (fi_oldle _ _ H)]. intros _.
        destruct (f_hasold (st i)) eqn:Hh.
        * eapply le_trans; [now apply (fi_oldle _ _ H)|now apply write_infl].
        * now apply write_infl.
      + intros k. ncase i k; [|apply (fi_lastc _ _ H)].
        pose proof (fi_lastc _ _ H i) as Hs. unfold fstable in *. cbn. exact Hs.
      + apply (fi_chain _ _ H).
      + intros k r. ncase i k; cbn; apply (fi_gen _ _ H).
    - (* commit *)
      destruct (fi_ok _ _ H i) as (Hv & Ho & Hq & Hrv & Hr & Hl).
      destruct (f_hasold (st i)) eqn:Hh.
      + set (g' := mkFghost T (h_committed g ++ [f_value (st i)]) (h_injected g) (h_recvd g)
                            (fupd (h_lastc g) i (f_value (st i))) (fupd (h_served g) i [])).
        assert (Hsub : forall c, In c (fknown g) -> In c (fknown g')).
        { intros c Hc. unfold fknown in *. cbn. rewrite !in_app_iff in *. tauto. }
        constructor.
        * intros k. cbn [h_recvd h_lastc g']. ncase i k; cbn; [unfold pend, round_vals in *; cbn; repeat split; auto|apply (fi_ok _ _ H)].
        * unfold fknown. cbn. apply Forall_app. split; [apply Forall_app; split|].
          -- pose proof (fi_okK _ _ H) as HK. unfold fknown in HK. apply Forall_app in HK. tauto.
          -- constructor; [assumption|constructor].
          -- pose proof (fi_okK _ _ H) as HK. unfold fknown in HK. apply Forall_app in HK. tauto.
        * intros k. ncase i k.
          -- unfold fstable. cbn. intros y [Hy Hu]. apply Hu. unfold fknown. cbn. rewrite !in_app_iff. cbn. tauto.
          -- eapply fbelow_mono; [exact Hsub|apply (fi_stable _ _ H)].
        * intros k v Hkv. eapply fbelow_mono; [exact Hsub|]. ncase i k; [unfold pend in *; cbn in Hkv|]; eapply (fi_pend _ _ H); eassumption.
        * intros k v Hkv. eapply fbelow_mono; [exact Hsub|]. ncase i k; [unfold round_vals in *; cbn in Hkv|]; eapply (fi_round _ _ H); eassumption.
        * intros k v Hkv. cbn [h_recvd g'] in Hkv. ncase i k; [|now apply (fi_recvd _ _ H)].
          destruct (fi_recvd _ _ H i v Hkv) as [R1 R2]. unfold pend in *. cbn. split; [exact R1|discriminate].
        * intros k. ncase i k; cbn; [discriminate|apply (fi_oldle _ _ H)].
        * intros k. cbn [h_lastc g']. ncase i k.
          -- unfold fstable. cbn. now apply le_refl.
          -- apply (fi_lastc _ _ H).
        * intros c Hc. cbn [h_committed h_lastc g'] in *. apply in_app_or in Hc as [Hc|[<-|[]]].
          -- destruct (fi_chain _ _ H c Hc) as [k Hk]. destruct (Z.eq_dec k i) as [->|Hne].
             ++ exists i. rewrite fupd_same. eapply le_trans; [exact Hk|].
                eapply le_trans; [apply (fi_lastc _ _ H i)|]. unfold fstable. rewrite Hh. now apply (fi_oldle _ _ H).
             ++ exists k. now rewrite fupd_other.
          -- exists i. rewrite fupd_same. now apply le_refl.
        * intros k r. ncase i k; cbn; [|apply (fi_gen _ _ H)]. intros Hr'. pose proof (fi_gen _ _ H i r Hr'). lia.
      + constructor.
        * intros k. ncase i k; cbn; [unfold pend, round_vals in *; cbn; repeat split; auto|apply (fi_ok _ _ H)].
        * apply (fi_okK _ _ H).
        * intros k. ncase i k; [|apply (fi_stable _ _ H)].
          pose proof (fi_stable _ _ H i) as Hs. unfold fstable in *. rewrite Hh in Hs. cbn. exact Hs.
        * intros k v. ncase i k; [|apply (fi_pend _ _ H)]. unfold pend. cbn. apply (fi_pend _ _ H i).
        * intros k v. ncase i k; [|apply (fi_round _ _ H)]. unfold round_vals. cbn. apply (fi_round _ _ H i).
        * intros k v Hkv. ncase i k; [|now apply (fi_recvd _ _ H)].
          destruct (fi_recvd _ _ H i v Hkv) as [R1 R2]. unfold pend in *. cbn. split; [exact R1|discriminate].
        * intros k. ncase i k; cbn; [discriminate|apply (fi_oldle _ _ H)].
        * intros k. ncase i k; [|apply (fi_lastc _ _ H)].
          pose proof (fi_lastc _ _ H i) as Hs. unfold fstable in *. rewrite Hh in Hs. cbn. exact Hs.
        * apply (fi_chain _ _ H).
        * intros k r. ncase i k; cbn; apply (fi_gen _ _ H).
    - (* abort *)
      destruct (fi_ok _ _ H i) as (Hv & Ho & Hq & Hrv & Hr & Hl).
      constructor.
      + intros k. ncase i k; cbn; [|apply (fi_ok _ _ H)].
        unfold pend, round_vals in *. cbn. repeat split; auto. destruct (f_hasold (st i)); assumption.
      + apply (fi_okK _ _ H).
      + intros k. ncase i k; [|apply (fi_stable _ _ H)].
        pose proof (fi_stable _ _ H i) as Hs. unfold fstable in *. cbn. exact Hs.
      + intros k v. ncase i k; [|apply (fi_pend _ _ H)]. unfold pend. cbn. apply (fi_pend _ _ H i).
      + intros k v. ncase i k; [|apply (fi_round _ _ H)]. unfold round_vals. cbn. apply (fi_round _ _ H i).
      + intros k v Hkv. ncase i k; [|now apply (fi_recvd _ _ H)].
        destruct (fi_recvd _ _ H i v Hkv) as [R1 R2]. unfold pend in *. cbn. split; [|discriminate].
        destruct (f_hasold (st i)) eqn:Hh; [now apply R2|exact R1].
      + intros k. ncase i k; cbn; [discriminate|apply (fi_oldle _ _ H)].
      + intros k. ncase i k; [|apply (fi_lastc _ _ H)].
        pose proof (fi_lastc _ _ H i) as Hs. unfold fstable in *. cbn. exact Hs.
      + apply (fi_chain _ _ H).
      + intros k r. ncase i k; cbn; apply (fi_gen _ _ H).
    - (* external ReceiveValue *)
      set (g' := mkFghost T (h_committed g) (h_injected g ++ [v]) (fupd (h_recvd g) i (h_recvd g i ++ [v])) (h_lastc g) (h_served g)).
      assert (Hsub : forall c, In c (fknown g) -> In c (fknown g')).
      { intros c Hc. unfold fknown in *. cbn. rewrite !in_app_iff in *. tauto. }
      destruct (fi_ok _ _ H i) as (Hv & Ho & Hq & Hrv & Hr & Hl).
      assert (Hpend : forall w, In w (pend (set_queue T (st i) (f_queue (st i) ++ [v]))) <-> In w (pend (st i)) \/ w = v).
      { intros w. unfold pend, set_queue. cbn. destruct (f_taken (st i)); cbn; rewrite in_app_iff; cbn; intuition. }
      constructor; cbn [h_recvd h_lastc h_committed g'].
      + intros k. ncase i k; [|apply (fi_ok _ _ H)].
        cbn [f_value f_old set_queue]. repeat split; auto.
        * apply Forall_forall. intros w Hw. apply Hpend in Hw as [Hw| ->]; [|assumption]. rewrite Forall_forall in Hq. auto.
        * apply Forall_app. split; auto.
      + unfold fknown. cbn. pose proof (fi_okK _ _ H) as HK. unfold fknown in HK. apply Forall_app in HK as [K1 K2].
        apply Forall_app. split; [exact K1|]. apply Forall_app. split; auto.
      + intros k. eapply fbelow_mono; [exact Hsub|]. ncase i k; [|apply (fi_stable _ _ H)].
        pose proof (fi_stable _ _ H i) as Hs. unfold fstable in *. cbn. exact Hs.
      + intros k w Hw. ncase i k.
        * apply Hpend in Hw as [Hw| ->].
          -- eapply fbelow_mono; [exact Hsub|]. now apply (fi_pend _ _ H i).
          -- intros y [Hy Hu]. apply Hu. unfold fknown. cbn. rewrite !in_app_iff. cbn. tauto.
        * eapply fbelow_mono; [exact Hsub|]. eapply (fi_pend _ _ H); eassumption.
      + intros k w Hw. eapply fbelow_mono; [exact Hsub|]. ncase i k; [unfold round_vals in *; cbn in Hw|]; eapply (fi_round _ _ H); eassumption.
      + intros k w Hw. ncase i k; [|now apply (fi_recvd _ _ H)].
        cbn [f_value f_old f_hasold set_queue].
        apply in_app_or in Hw as [Hw|[<-|[]]].
        * destruct (fi_recvd _ _ H i w Hw) as [R1 R2]. split.
          -- intros y Hy. apply R1. eapply fcovers_weaken; eauto. intros x Hx. apply Hpend. now left.
          -- intros Hh y Hy. apply R2; auto. eapply fcovers_weaken; eauto. intros x Hx. apply Hpend. now left.
        * split.
          -- intros y (_ & _ & Hy). apply Hy. apply Hpend. now right.
          -- intros _ y (_ & _ & Hy). apply Hy. apply Hpend. now right.
      + intros k. ncase i k; cbn; apply (fi_oldle _ _ H).
      + intros k. ncase i k; [|apply (fi_lastc _ _ H)].
        pose proof (fi_lastc _ _ H i) as Hs. unfold fstable in *. cbn. exact Hs.
      + apply (fi_chain _ _ H).
      + intros k r. ncase i k; cbn; apply (fi_gen _ _ H).
    - (* begin of a round *)
      destruct (f_round (st i)) as [r0|] eqn:Hr0; [exact H|]. destruct (f_need (st i)) as [|n] eqn:Hn; [exact H|].
      destruct (fi_ok _ _ H i) as (Hv & Ho & Hq & Hrv & Hr & Hl).
      constructor.
      + intros k. ncase i k; [|apply (fi_ok _ _ H)]. unfold pend, round_vals in *. cbn. repeat split; auto.
        unfold close_round. cbn. destruct rs; [constructor|]. cbn. constructor; [|constructor]. now apply (fstable_ok st g).
      + apply (fi_okK _ _ H).
      + intros k. ncase i k; [|apply (fi_stable _ _ H)].
        pose proof (fi_stable _ _ H i) as Hs. unfold fstable in *. cbn. exact Hs.
      + intros k v. ncase i k; [|apply (fi_pend _ _ H)]. unfold pend. cbn. apply (fi_pend _ _ H i).
      + intros k v. ncase i k; [|apply (fi_round _ _ H)]. unfold round_vals. cbn. intros Hv'.
        apply close_round_vals in Hv'. cbn in Hv'. destruct Hv' as [<-|[]]. apply (fi_stable _ _ H).
      + intros k v Hkv. ncase i k; [|now apply (fi_recvd _ _ H)]. unfold pend. cbn. apply (fi_recvd _ _ H i v Hkv).
      + intros k. ncase i k; cbn; apply (fi_oldle _ _ H).
      + intros k. ncase i k; [|apply (fi_lastc _ _ H)].
        pose proof (fi_lastc _ _ H i) as Hs. unfold fstable in *. cbn. exact Hs.
      + apply (fi_chain _ _ H).
      + intros k r. ncase i k; cbn; [|apply (fi_gen _ _ H)]. intros Hc. apply close_round_gen in Hc. subst r. cbn. lia.
    - (* a peer serves a call *)
      destruct (f_round (st i)) as [r|] eqn:Hr; [|exact H].
      destruct (existsb (Z.eqb j) (r_todo r)) eqn:Hex; [|exact H].
      assert (Hpay_ok : ok (r_payload r)).
      { destruct (fi_ok _ _ H i) as (_ & _ & _ & Hrv & _). unfold round_vals in Hrv. rewrite Hr in Hrv. now inversion Hrv. }
      assert (Hpay_b : fbelow g (r_payload r)).
      { apply (fi_round _ _ H i). unfold round_vals. rewrite Hr. now left. }
      set (st1 := fupd st j (set_queue T (st j) (f_queue (st j) ++ [r_payload r]))).
      set (r' := mkRound T (r_payload r) (r_gen r) (remove Z.eq_dec j (r_todo r)) (r_arrived r ++ [fstable (st j)])).
      (* node-wise description of the new state *)
      assert (Hnode : forall k,
                f_value (fupd st1 i (set_round T (st1 i) (Some r')) k) = f_value (st k) /\
                f_old (fupd st1 i (set_round T (st1 i) (Some r')) k) = f_old (st k) /\
                f_hasold (fupd st1 i (set_round T (st1 i) (Some r')) k) = f_hasold (st k) /\
                f_gen (fupd st1 i (set_round T (st1 i) (Some r')) k) = f_gen (st k) /\
                (forall w, In w (pend (fupd st1 i (set_round T (st1 i) (Some r')) k)) <->
                           In w (pend (st k)) \/ (k = j /\ w = r_payload r)) /\
                f_round (fupd st1 i (set_round T (st1 i) (Some r')) k) = (if Z.eq_dec k i then Some r' else f_round (st k))).
      { intros k. unfold st1. destruct (Z.eq_dec k i) as [->|Hki].
        - rewrite fupd_same. destruct (Z.eq_dec i j) as [->|Hij].
          + rewrite fupd_same. cbn. repeat split; auto.
            * unfold pend. cbn. destruct (f_taken (st j)); cbn; rewrite in_app_iff; cbn; intuition.
            * unfold pend. cbn. destruct (f_taken (st j)); cbn; rewrite in_app_iff; cbn; intuition.
          + rewrite fupd_other by assumption. cbn. repeat split; auto; unfold pend in *; cbn in *; intuition; congruence.
        - rewrite fupd_other by assumption. destruct (Z.eq_dec k j) as [->|Hkj].
          + rewrite fupd_same. cbn. repeat split; auto.
            * unfold pend. cbn. destruct (f_taken (st j)); cbn; rewrite in_app_iff; cbn; intuition.
            * unfold pend. cbn. destruct (f_taken (st j)); cbn; rewrite in_app_iff; cbn; intuition.
          + rewrite fupd_other by assumption. repeat split; auto; intuition. }
      set (st' := fupd st1 i (set_round T (st1 i) (Some r'))) in *.
      assert (Hstab : forall k, fstable (st' k) = fstable (st k)).
      { intros k. unfold fstable. destruct (Hnode k) as (-> & -> & -> & _). reflexivity. }
      set (g' := mkFghost T (h_committed g) (h_injected g) (fupd (h_recvd g) j (h_recvd g j ++ [r_payload r])) (h_lastc g)
                          (if Nat.eqb (r_gen r) (f_gen (st i)) then fupd (h_served g) i (j :: h_served g i) else h_served g)).
      constructor; cbn [h_recvd h_lastc h_committed g'].
      + intros k. destruct (Hnode k) as (E1 & E2 & E3 & E4 & E5 & E6). rewrite E1, E2.
        destruct (fi_ok _ _ H k) as (Hv & Ho & Hq & Hrv & Hrc & Hl). repeat split; auto.
        * apply Forall_forall. intros w Hw. apply E5 in Hw as [Hw|[_ ->]]; [|assumption]. rewrite Forall_forall in Hq. auto.
        * unfold round_vals. rewrite E6. destruct (Z.eq_dec k i) as [->|Hki]; [|exact Hrv].
          unfold r'. cbn. unfold round_vals in Hrv. rewrite Hr in Hrv. inversion Hrv; subst.
          constructor; [assumption|]. apply Forall_app. split; [assumption|]. constructor; [|constructor]. now apply (fstable_ok st g).
        * destruct (Z.eq_dec k j) as [->|Hkj]; [rewrite fupd_same; apply Forall_app; split; auto|now rewrite fupd_other].
      + apply (fi_okK _ _ H).
      + intros k. rewrite Hstab. apply (fi_stable _ _ H).
      + intros k w Hw. destruct (Hnode k) as (_ & _ & _ & _ & E5 & _). apply E5 in Hw as [Hw|[_ ->]]; [|exact Hpay_b].
        eapply (fi_pend _ _ H); eassumption.
      + intros k w Hw. destruct (Hnode k) as (_ & _ & _ & _ & _ & E6). unfold round_vals in Hw. rewrite E6 in Hw.
        destruct (Z.eq_dec k i) as [->|Hki].
        * unfold r' in Hw. cbn in Hw. destruct Hw as [<-|Hw]; [exact Hpay_b|].
          apply in_app_or in Hw as [Hw|[<-|[]]]; [|apply (fi_stable _ _ H)].
          apply (fi_round _ _ H i). unfold round_vals. rewrite Hr. now right.
        * apply (fi_round _ _ H k). exact Hw.
      + intros k w Hw. destruct (Hnode k) as (E1 & E2 & E3 & _ & E5 & _). rewrite E1, E2, E3.
        assert (Hsubp : forall x, In x (pend (st k)) -> In x (pend (st' k))) by (intros x Hx; apply E5; now left).
        destruct (fi_ok _ _ H k) as (Hv & Ho & _).
        destruct (Z.eq_dec k j) as [->|Hkj].
        * rewrite fupd_same in Hw. apply in_app_or in Hw as [Hw|[<-|[]]].
          -- destruct (fi_recvd _ _ H j w Hw) as [R1 R2]. split.
             ++ intros y Hy. apply R1. eapply fcovers_weaken; eauto.
             ++ intros Hh y Hy. apply R2; auto. eapply fcovers_weaken; eauto.
          -- split.
             ++ intros y (_ & _ & Hy). apply Hy. apply E5. right. now split.
             ++ intros _ y (_ & _ & Hy). apply Hy. apply E5. right. now split.
        * rewrite fupd_other in Hw by assumption. destruct (fi_recvd _ _ H k w Hw) as [R1 R2]. split.
          -- intros y Hy. apply R1. eapply fcovers_weaken; eauto.
          -- intros Hh y Hy. apply R2; auto. eapply fcovers_weaken; eauto.
      + intros k. destruct (Hnode k) as (-> & -> & -> & _). apply (fi_oldle _ _ H).
      + intros k. rewrite Hstab. apply (fi_lastc _ _ H).
      + apply (fi_chain _ _ H).
      + intros k r1. destruct (Hnode k) as (_ & _ & _ & E4 & _ & E6). rewrite E4, E6.
        destruct (Z.eq_dec k i) as [->|Hki]; [|apply (fi_gen _ _ H)].
        intros Hc. inversion Hc; subst r1. cbn. now apply (fi_gen _ _ H i r).
    - (* a call is dropped *)
      destruct (f_round (st i)) as [r|] eqn:Hr; [|exact H].
      destruct (existsb (Z.eqb j) (r_todo r)) eqn:Hex; [|exact H].
      set (r' := mkRound T (r_payload r) (r_gen r) (remove Z.eq_dec j (r_todo r)) (r_arrived r)).
      destruct (fi_ok _ _ H i) as (Hv & Ho & Hq & Hrv & Hrc & Hl).
      constructor.
      + intros k. ncase i k; [|apply (fi_ok _ _ H)]. unfold pend, round_vals in *. cbn. repeat split; auto.
        rewrite Hr in Hrv. apply Forall_forall. intros w Hw. apply close_round_vals in Hw. cbn in Hw.
        rewrite Forall_forall in Hrv. apply Hrv. exact Hw.
      + apply (fi_okK _ _ H).
      + intros k. ncase i k; [|apply (fi_stable _ _ H)].
        pose proof (fi_stable _ _ H i) as Hs. unfold fstable in *. cbn. exact Hs.
      + intros k v. ncase i k; [|apply (fi_pend _ _ H)]. unfold pend. cbn. apply (fi_pend _ _ H i).
      + intros k v. ncase i k; [|apply (fi_round _ _ H)]. unfold round_vals. cbn. intros Hw.
        apply close_round_vals in Hw. cbn in Hw. apply (fi_round _ _ H i). unfold round_vals. now rewrite Hr.
      + intros k v Hkv. ncase i k; [|now apply (fi_recvd _ _ H)]. unfold pend. cbn. apply (fi_recvd _ _ H i v Hkv).
      + intros k. ncase i k; cbn; apply (fi_oldle _ _ H).
      + intros k. ncase i k; [|apply (fi_lastc _ _ H)].
        pose proof (fi_lastc _ _ H i) as Hs. unfold fstable in *. cbn. exact Hs.
      + apply (fi_chain _ _ H).
      + intros k r1. ncase i k; cbn; [|apply (fi_gen _ _ H)]. intros Hc. apply close_round_gen in Hc. subst r1. cbn.
        now apply (fi_gen _ _ H i r).
    - (* a reply is handled *)
      destruct (f_round (st i)) as [r|] eqn:Hr; [|exact H].
      destruct (r_arrived r) as [|v rest] eqn:Har; [exact H|].
      destruct (fi_ok _ _ H i) as (Hv & Ho & Hq & Hrv & Hrc & Hl).
      assert (Hvok : ok v /\ fbelow g v).
      { split.
        - unfold round_vals in Hrv. rewrite Hr, Har in Hrv. inversion Hrv as [|? ? _ Hrest]; subst. now inversion Hrest.
        - apply (fi_round _ _ H i). unfold round_vals. rewrite Hr, Har. right. now left. }
      destruct Hvok as [Hvok Hvb].
      set (nd' := mkFnode T (f_value (st i)) (f_old (st i)) (f_hasold (st i))
                          (if Nat.eqb (r_gen r) (f_gen (st i)) then Nat.pred (f_need (st i)) else f_need (st i))
                          (f_gen (st i)) (f_queue (st i) ++ [v]) (f_taken (st i))
                          (close_round T (mkRound T (r_payload r) (r_gen r) (r_todo r) rest))).
      assert (Hpend : forall w, In w (pend nd') <-> In w (pend (st i)) \/ w = v).
      { intros w. unfold pend, nd'. cbn. destruct (f_taken (st i)); cbn; rewrite in_app_iff; cbn; intuition. }
      constructor; cbn [h_recvd h_lastc h_committed].
      + intros k. ncase i k; [|apply (fi_ok _ _ H)]. fold nd'. cbn [f_value f_old nd']. repeat split; auto.
        * apply Forall_forall. intros w Hw. apply Hpend in Hw as [Hw| ->]; [|assumption]. rewrite Forall_forall in Hq. auto.
        * unfold round_vals, nd'. cbn [f_round]. apply Forall_forall. intros w Hw. apply close_round_vals in Hw. cbn in Hw.
          unfold round_vals in Hrv. rewrite Hr, Har in Hrv. rewrite Forall_forall in Hrv. apply Hrv. cbn. tauto.
        * apply Forall_app. split; auto.
      + apply (fi_okK _ _ H).
      + intros k. ncase i k; [|apply (fi_stable _ _ H)].
        pose proof (fi_stable _ _ H i) as Hs. unfold fstable in *. cbn. exact Hs.
      + intros k w Hw. ncase i k; [|eapply (fi_pend _ _ H); eassumption]. fold nd' in Hw.
        apply Hpend in Hw as [Hw| ->]; [now apply (fi_pend _ _ H i)|exact Hvb].
      + intros k w Hw. ncase i k; [|eapply (fi_round _ _ H); eassumption]. unfold round_vals in Hw. cbn [f_round] in Hw.
        apply close_round_vals in Hw. cbn in Hw. apply (fi_round _ _ H i). unfold round_vals. rewrite Hr, Har. cbn. tauto.
      + intros k w Hw. ncase i k; [|now apply (fi_recvd _ _ H)]. fold nd'. cbn [f_value f_old f_hasold nd'].
        apply in_app_or in Hw as [Hw|[<-|[]]].
        * destruct (fi_recvd _ _ H i w Hw) as [R1 R2]. split.
          -- intros y Hy. apply R1. eapply fcovers_weaken; eauto. intros x Hx. apply Hpend. now left.
          -- intros Hh y Hy. apply R2; auto. eapply fcovers_weaken; eauto. intros x Hx. apply Hpend. now left.
        * split.
          -- intros y (_ & _ & Hy). apply Hy. apply Hpend. now right.
          -- intros _ y (_ & _ & Hy). apply Hy. apply Hpend. now right.
      + intros k. ncase i k; cbn; apply (fi_oldle _ _ H).
      + intros k. ncase i k; [|apply (fi_lastc _ _ H)].
        pose proof (fi_lastc _ _ H i) as Hs. unfold fstable in *. cbn. exact Hs.
      + apply (fi_chain _ _ H).
      + intros k r1. ncase i k; cbn; [|apply (fi_gen _ _ H)]. intros Hc. apply close_round_gen in Hc. subst r1. cbn.
        now apply (fi_gen _ _ H i r).
    - (* the merger takes the head of the queue *)
      destruct (f_taken (st i)) as [t|] eqn:Ht; [exact H|]. destruct (f_queue (st i)) as [|v q] eqn:Hq; [exact H|].
      assert (Hpend : forall w, In w (pend (mkFnode T (f_value (st i)) (f_old (st i)) (f_hasold (st i)) (f_need (st i)) (f_gen (st i)) q (Some v) (f_round (st i))))
                               <-> In w (pend (st i))).
      { intros w. unfold pend. cbn. rewrite Ht, Hq. reflexivity. }
      destruct (fi_ok _ _ H i) as (Hv & Ho & Hqo & Hrv & Hrc & Hl).
      constructor.
      + intros k. ncase i k; [|apply (fi_ok _ _ H)]. cbn [f_value f_old]. repeat split; auto.
        apply Forall_forall. intros w Hw. apply Hpend in Hw. rewrite Forall_forall in Hqo. auto.
      + apply (fi_okK _ _ H).
      + intros k. ncase i k; [|apply (fi_stable _ _ H)].
        pose proof (fi_stable _ _ H i) as Hs. unfold fstable in *. cbn. exact Hs.
      + intros k w Hw. ncase i k; [|eapply (fi_pend _ _ H); eassumption]. apply Hpend in Hw. now apply (fi_pend _ _ H i).
      + intros k w. ncase i k; [|apply (fi_round _ _ H)]. unfold round_vals. cbn. apply (fi_round _ _ H i).
      + intros k w Hw. ncase i k; [|now apply (fi_recvd _ _ H)]. cbn [f_value f_old f_hasold].
        destruct (fi_recvd _ _ H i w Hw) as [R1 R2]. split.
        * intros y Hy. apply R1. eapply fcovers_weaken; eauto. intros x Hx. now apply Hpend.
        * intros Hh y Hy. apply R2; auto. eapply fcovers_weaken; eauto. intros x Hx. now apply Hpend.
      + intros k. ncase i k; cbn; apply (fi_oldle _ _ H).
      + intros k. ncase i k; [|apply (fi_lastc _ _ H)].
        pose proof (fi_lastc _ _ H i) as Hs. unfold fstable in *. cbn. exact Hs.
      + apply (fi_chain _ _ H).
      + intros k r. ncase i k; cbn; apply (fi_gen _ _ H).
    - (* the merger merges what it holds, under the lock *)
      destruct (f_taken (st i)) as [v|] eqn:Ht; [|exact H].
      destruct (fi_ok _ _ H i) as (Hv & Ho & Hqo & Hrv & Hrc & Hl).
      assert (Hvin : In v (pend (st i))) by (unfold pend; rewrite Ht; now left).
      assert (Hvo : ok v) by (rewrite Forall_forall in Hqo; auto).
      assert (Hbv : fbelow g v) by now apply (fi_pend _ _ H i).
      assert (Hpend : forall nd', f_taken nd' = None -> f_queue nd' = f_queue (st i) ->
                        forall w, In w (pend (st i)) <-> w = v \/ In w (pend nd')).
      { intros nd' E1 E2 w. unfold pend. rewrite Ht, E1, E2. cbn. intuition. }
      constructor.
      + intros k. ncase i k; [|apply (fi_ok _ _ H)]. cbn [f_value f_old]. repeat split; auto.
        * destruct (f_hasold (st i)); auto.
        * unfold pend in *. cbn. rewrite Ht in Hqo. now inversion Hqo.
      + apply (fi_okK _ _ H).
      + intros k. ncase i k; [|apply (fi_stable _ _ H)].
        pose proof (fi_stable _ _ H i) as Hs. unfold fstable in *. cbn.
        destruct (f_hasold (st i)); intros y Hy; (apply merge_lub; [assumption|assumption|apply Hy|now apply Hs|now apply Hbv]).
      + intros k w Hw. ncase i k; [|eapply (fi_pend _ _ H); eassumption].
        apply (fi_pend _ _ H i). unfold pend in *. cbn in Hw. rewrite Ht. now right.
      + intros k w. ncase i k; [|apply (fi_round _ _ H)]. unfold round_vals. cbn. apply (fi_round _ _ H i).
      + intros k w Hw. ncase i k; [|now apply (fi_recvd _ _ H)]. cbn [f_value f_old f_hasold].
        destruct (fi_recvd _ _ H i w Hw) as [R1 R2]. split.
        * intros y (Hy & Hb & Hy'). apply R1. split; [exact Hy|]. split.
          -- eapply le_trans; [|exact Hb]. now apply merge_ub_l.
          -- intros x Hx. unfold pend in Hx. rewrite Ht in Hx. destruct Hx as [<-|Hx].
             ++ eapply le_trans; [|exact Hb]. now apply merge_ub_r.
             ++ apply Hy'. unfold pend. cbn. exact Hx.
        * intros Hh y (Hy & Hb & Hy'). rewrite Hh in Hb. apply R2; [exact Hh|]. split; [exact Hy|]. split.
          -- eapply le_trans; [|exact Hb]. now apply merge_ub_l.
          -- intros x Hx. unfold pend in Hx. rewrite Ht in Hx. destruct Hx as [<-|Hx].
             ++ eapply le_trans; [|exact Hb]. now apply merge_ub_r.
             ++ apply Hy'. unfold pend. cbn. exact Hx.
      + intros k. ncase i k; cbn; [|apply (fi_oldle _ _ H)]. intros Hh. rewrite Hh.
        apply le_merge_mono'; auto. now apply (fi_oldle _ _ H).
      + intros k. ncase i k; [|apply (fi_lastc _ _ H)].
        pose proof (fi_lastc _ _ H i) as Hs. unfold fstable in *. cbn.
        destruct (f_hasold (st i)); (eapply le_trans; [exact Hs|now apply merge_ub_l]).
      + apply (fi_chain _ _ H).
      + intros k r. ncase i k; cbn; apply (fi_gen _ _ H).
  Qed.

  Theorem finv_run_from : forall evs st g, finv st g -> fvalid_from st evs ->
    finv (fst (fxrun_from (st, g) evs)) (snd (fxrun_from (st, g) evs)).
  Proof.
    induction evs as [|e evs IH]; intros st g H Hv; [exact H|].
    destruct Hv as [He Hv]. cbn [ModelFine.fxrun_from fold_left]. unfold ModelFine.fxstep at 2. cbn [fst snd].
    apply IH; [now apply finv_step|exact Hv].
  Qed.

  Theorem finv_run : forall evs, fvalid evs -> finv (fst (fxrun evs)) (snd (fxrun evs)).
  Proof. intros evs Hv. apply finv_run_from; [apply finv_init|exact Hv]. Qed.

  (* ================================================================ consequences, every valid schedule *)
  Theorem fine_sent_below : forall evs e p, fvalid (evs ++ [e]) ->
    In p (fsent T A (fst (fxrun evs)) e) -> ok p /\ fbelow (snd (fxrun evs)) p.
  Proof.
    intros evs e p Hv Hp. unfold fvalid in Hv. apply fvalid_from_app in Hv as [Hv _].
    pose proof (finv_run evs Hv) as H. set (st := fst (fxrun evs)) in *. set (g := snd (fxrun evs)) in *.
    destruct e as [i a|i|i|i v|i rs|i j|i j|i|i|i]; cbn in Hp; try contradiction.
    - destruct Hp as [<-|[]]. split; [now apply (fstable_ok st g)|apply (fi_stable _ _ H)].
    - destruct (f_round (st i)); [contradiction|]. destruct (f_need (st i)); [contradiction|].
      destruct Hp as [<-|[]]. split; [now apply (fstable_ok st g)|apply (fi_stable _ _ H)].
    - destruct (f_round (st i)) as [r|]; [|contradiction]. destruct (existsb (Z.eqb j) (r_todo r)); [|contradiction].
      destruct Hp as [<-|[]]. split; [now apply (fstable_ok st g)|apply (fi_stable _ _ H)].
  Qed.

  (* the payload of a round in flight and the replies on their way are below the committed/injected states
     too, although sections may have been written, committed or aborted since the round started *)
  Theorem fine_nothing_uncommitted_survives : forall evs i, fvalid evs ->
    let st := fst (fxrun evs) in let g := snd (fxrun evs) in
    (f_hasold (st i) = false -> fbelow g (f_value (st i))) /\
    (forall v, In v (pend (st i)) -> fbelow g v) /\ (forall v, In v (round_vals (st i)) -> fbelow g v) /\
    fbelow g (fstable (st i)).
  Proof.
    intros evs i Hv. cbn zeta. pose proof (finv_run evs Hv) as H. split; [|split; [|split]].
    - intros Hh. pose proof (fi_stable _ _ H i) as Hs. unfold fstable in Hs. now rewrite Hh in Hs.
    - apply (fi_pend _ _ H).
    - apply (fi_round _ _ H).
    - apply (fi_stable _ _ H).
  Qed.

  Theorem fine_received_never_lost : forall evs i v, fvalid evs ->
    let st := fst (fxrun evs) in let g := snd (fxrun evs) in
    In v (h_recvd g i) -> forall y, fcovers (f_value (st i)) (pend (st i)) y -> le v y.
  Proof. intros evs i v Hv. cbn zeta. intros Hin. apply (fi_recvd _ _ (finv_run evs Hv) i v Hin). Qed.

  (* ================================================================ the generation counter *)
  (* after a writing commit the owed count stays len(peerIds), whatever happens — in particular the
     replies of a round that was in flight at the commit do not consume it — until node i itself
     begins a new round *)
  Definition not_begin (i : Z) (e : fevent) : Prop := match e with FBegin k _ => k <> i | _ => True end.

  Definition owes_all (st : fstate) (i : Z) : Prop :=
    f_need (st i) = List.length (peers i) /\
    forall r, f_round (st i) = Some r -> (r_gen r < f_gen (st i))%nat.

  Lemma owes_all_step : forall st i e, owes_all st i -> not_begin i e -> owes_all (fstep st e) i.
  Proof.
    intros st i e [Hn Hr] He. unfold owes_all.
    destruct e as [k a|k|k|k v|k rs|k j|k j|k|k|k]; cbn [ModelFine.fstep].
    - ncase k i; cbn; [split; auto|split; auto].
    - ncase k i; cbn; [|split; auto]. destruct (f_hasold (st k)); split; auto.
      intros r Hr'. specialize (Hr r Hr'). lia.
    - ncase k i; cbn; split; auto.
    - ncase k i; cbn; split; auto.
    - cbn in He. destruct (f_round (st k)); [split; auto|]. destruct (f_need (st k)); [split; auto|].
      rewrite fupd_other by (intros E; apply He; now symmetry). split; auto.
    - destruct (f_round (st k)) as [r|] eqn:Hk; [|split; auto]. destruct (existsb (Z.eqb j) (r_todo r)); [|split; auto].
      destruct (Z.eq_dec i k) as [->|Hik].
      + rewrite fupd_same. destruct (Z.eq_dec k j) as [->|Hkj]; [rewrite fupd_same|rewrite fupd_other by assumption]; cbn.
        * split; [exact Hn|]. intros r' E. inversion E; subst. cbn. now apply Hr.
        * split; [exact Hn|]. intros r' E. inversion E; subst. cbn. now apply Hr.
      + rewrite fupd_other by assumption. destruct (Z.eq_dec i j) as [->|Hij]; [rewrite fupd_same|rewrite fupd_other by assumption]; cbn; split; auto.
    - destruct (f_round (st k)) as [r|] eqn:Hk; [|split; auto]. destruct (existsb (Z.eqb j) (r_todo r)); [|split; auto].
      ncase k i; cbn; [|split; auto]. split; [exact Hn|]. intros r' E. apply close_round_gen in E. subst r'. cbn. now apply Hr.
    - destruct (f_round (st k)) as [r|] eqn:Hk; [|split; auto]. destruct (r_arrived r) as [|v rest]; [split; auto|].
      ncase k i; cbn; [|split; auto]. specialize (Hr r Hk).
      destruct (Nat.eqb (r_gen r) (f_gen (st k))) eqn:E; [apply Nat.eqb_eq in E; lia|].
      split; [exact Hn|]. intros r' E'. apply close_round_gen in E'. subst r'. cbn. exact Hr.
    - destruct (f_taken (st k)); [split; auto|]. destruct (f_queue (st k)); [split; auto|]. ncase k i; cbn; split; auto.
    - destruct (f_taken (st k)); [|split; auto]. ncase k i; cbn; split; auto.
  Qed.

  Theorem commit_during_round_still_owed : forall evs i evs', fvalid evs ->
    f_hasold (fst (fxrun evs) i) = true -> Forall (not_begin i) evs' ->
    f_need (frun T A init write merge peers (evs ++ [FCommit i] ++ evs') i) = List.length (peers i).
  Proof.
    intros evs i evs' Hv Hh Hnb. pose proof (finv_run evs Hv) as H.
    unfold frun, frun_from. rewrite !fold_left_app. cbn [fold_left].
    assert (Hst : fold_left fstep evs (fstate_init T init) = fst (fxrun evs)).
    { unfold ModelFine.fxrun. rewrite fxrun_from_fst. reflexivity. }
    rewrite Hst. set (st := fst (fxrun evs)) in *.
    assert (H0 : owes_all (fstep st (FCommit i)) i).
    { unfold owes_all. cbn [ModelFine.fstep]. rewrite fupd_same. cbn. rewrite Hh. split; [reflexivity|]. intros r Hr. pose proof (fi_gen _ _ H i r Hr). lia. }
    clear Hst. revert H0. generalize (fstep st (FCommit i)). induction evs' as [|e evs' IH]; intros s0 H0; cbn [fold_left].
    - apply H0.
    - inversion Hnb; subst. apply IH; [assumption|]. now apply owes_all_step.
  Qed.

  (* ================================================================ rounds that reach every other peer *)
  Hypothesis peers_nodup : forall i, NoDup (peers i).

  Definition ffull_ev (e : fevent) : Prop :=
    match e with FBegin i rs => rs = others i | FDrop _ _ => False | _ => True end.
  Definition ffull (evs : list fevent) : Prop := Forall ffull_ev evs.

  Definition memb (j : Z) (l : list Z) : bool := existsb (Z.eqb j) l.

  Lemma memb_in : forall j l, memb j l = true <-> In j l.
  Proof.
    intros j l. unfold memb. rewrite existsb_exists. split.
    - intros (x & Hx & E). apply Z.eqb_eq in E. now subst.
    - intros H. exists j. split; [exact H|apply Z.eqb_refl].
  Qed.

  (* the other peers not yet served, since node i's last owing commit, by a round started after it *)
  Definition unserved (g : fghost) (i : Z) : list Z := filter (fun j => negb (memb j (h_served g i))) (others i).

  Definition fdelivered (g : fghost) (i j : Z) : Prop :=
    le (h_lastc g i) init \/ exists v, In v (h_recvd g j) /\ le (h_lastc g i) v.

  Definition cur_arrived (nd : fnode) : nat :=
    match f_round nd with Some r => if Nat.eqb (r_gen r) (f_gen nd) then List.length (r_arrived r) else 0%nat | None => 0%nat end.

  Definition shape (nd : fnode) (sv : list Z) (i : Z) : Prop :=
    match f_round nd with
    | Some r => if Nat.eqb (r_gen r) (f_gen nd)
                then forall j, In j (others i) -> (In j sv <-> ~ In j (r_todo r))
                else sv = []
    | None => sv = []
    end.

  (* nothing to deliver (node i never committed a write), or everybody served, or ... *)
  Definition settled (g : fghost) (i : Z) : Prop := le (h_lastc g i) init \/ unserved g i = [].

  Record onode (st : fstate) (g : fghost) (i : Z) : Prop := mkOnode {
    o_payload : forall r, f_round (st i) = Some r -> r_gen r = f_gen (st i) -> le (h_lastc g i) (r_payload r);
    o_served : forall j, In j (h_served g i) -> In j (others i) /\ fdelivered g i j;
    o_todo : forall r, f_round (st i) = Some r -> NoDup (r_todo r) /\ incl (r_todo r) (others i);
    o_shape : settled g i \/ shape (st i) (h_served g i) i;
    o_count : settled g i \/ (List.length (unserved g i) + cur_arrived (st i) <= f_need (st i))%nat;
  }.

  Definition oinv (st : fstate) (g : fghost) : Prop := forall i, onode st g i.

  Lemma filter_len_le : forall {X} (f : X -> bool) l, (List.length (filter f l) <= List.length l)%nat.
  Proof. intros X f l. induction l as [|x l IH]; cbn; [lia|]. destruct (f x); cbn; lia. Qed.

  Lemma others_nodup : forall i, NoDup (others i).
  Proof. intros i. unfold Model.others. apply NoDup_filter. apply peers_nodup. Qed.

  Lemma others_len : forall i, (List.length (others i) <= List.length (peers i))%nat.
  Proof. intros i. unfold Model.others. apply filter_len_le. Qed.

  Lemma unserved_nil_iff : forall g i, unserved g i = [] <-> forall j, In j (others i) -> In j (h_served g i).
  Proof.
    intros g i. unfold unserved. split.
    - intros E j Hj. destruct (memb j (h_served g i)) eqn:M; [now apply memb_in|].
      assert (Hin : In j (filter (fun j0 => negb (memb j0 (h_served g i))) (others i))) by (apply filter_In; split; [exact Hj|now rewrite M]).
      rewrite E in Hin. destruct Hin.
    - intros Hall. destruct (filter _ (others i)) as [|x l] eqn:E; [reflexivity|].
      assert (Hx : In x (filter (fun j0 => negb (memb j0 (h_served g i))) (others i))) by (rewrite E; now left).
      apply filter_In in Hx as [Hx1 Hx2]. apply Hall, memb_in in Hx1. rewrite Hx1 in Hx2. discriminate.
  Qed.

  Lemma filter_serve : forall (sv : list Z) (l : list Z) j, NoDup l -> In j l -> ~ In j sv ->
    S (List.length (filter (fun x => negb (memb x (j :: sv))) l)) = List.length (filter (fun x => negb (memb x sv)) l).
  Proof.
    intros sv l j. induction l as [|x l IH]; intros Hnd Hin Hns; [destruct Hin|].
    inversion Hnd as [|? ? Hx Hnd']; subst. cbn [filter].
    assert (Hmm : forall y, memb y (j :: sv) = ((y =? j)%Z || memb y sv)%bool) by reflexivity.
    rewrite Hmm. destruct Hin as [->|Hin].
    - rewrite Z.eqb_refl. cbn [orb negb].
      assert (Hm : memb j sv = false).
      { destruct (memb j sv) eqn:M; [apply memb_in in M; contradiction|reflexivity]. }
      rewrite Hm. cbn [negb List.length]. f_equal. f_equal.
      apply filter_ext_in. intros y Hy. rewrite Hmm.
      destruct (y =? j)%Z eqn:E; [apply Z.eqb_eq in E; subst; contradiction|reflexivity].
    - assert (x <> j) by (intros ->; contradiction).
      destruct (x =? j)%Z eqn:E; [apply Z.eqb_eq in E; contradiction|]. cbn [orb].
      destruct (negb (memb x sv)); cbn [List.length]; rewrite <- (IH Hnd' Hin Hns); reflexivity.
  Qed.

  Lemma fdelivered_mono : forall g g' i j, h_lastc g' i = h_lastc g i ->
    (forall v, In v (h_recvd g j) -> In v (h_recvd g' j)) -> fdelivered g i j -> fdelivered g' i j.
  Proof.
    intros g g' i j El Hr [Hi|(v & Hv & Hle)]; [left; now rewrite El|right]. exists v. split; [now apply Hr|now rewrite El].
  Qed.

  Lemma oinv_init : oinv (fstate_init T init) (fghost_init T init).
  Proof.
    intros i. constructor; cbn; intros.
    - discriminate.
    - contradiction.
    - discriminate.
    - left. left. cbn. now apply le_refl.
    - left. left. cbn. now apply le_refl.
  Qed.

  (* node i's part of the invariant only depends on its round, generation, count, served list, last commit *)
  Lemma onode_frame : forall st g st' g' i, onode st g i ->
    f_round (st' i) = f_round (st i) -> f_gen (st' i) = f_gen (st i) -> f_need (st' i) = f_need (st i) ->
    h_served g' i = h_served g i -> h_lastc g' i = h_lastc g i ->
    (forall j v, In v (h_recvd g j) -> In v (h_recvd g' j)) -> onode st' g' i.
  Proof.
    intros st g st' g' i [P OS D Hs C] Er Eg En Es El Hrc.
    assert (EU : unserved g' i = unserved g i) by (unfold unserved; now rewrite Es).
    assert (Eset : settled g i -> settled g' i) by (unfold settled; rewrite EU, El; tauto).
    constructor.
    - intros r Hr Hgen. rewrite El. rewrite Er in Hr. rewrite Eg in Hgen. now apply P.
    - intros j Hj. rewrite Es in Hj. destruct (OS j Hj) as [S1 S2]. split; [exact S1|].
      eapply fdelivered_mono; eauto.
    - intros r Hr. rewrite Er in Hr. now apply D.
    - destruct Hs as [Hs|Hs]; [left; auto|right]. unfold shape in *. rewrite Er, Eg, Es. exact Hs.
    - destruct C as [C|C]; [left; auto|right]. unfold cur_arrived in *. rewrite EU, Er, Eg, En. exact C.
  Qed.

  Lemma remove_nodup : forall (l : list Z) x, NoDup l -> NoDup (remove Z.eq_dec x l).
  Proof.
    induction l as [|y l IH]; intros x H; cbn; [constructor|]. inversion H; subst.
    destruct (Z.eq_dec x y); [auto|]. constructor; [|auto]. intros Hin. apply in_remove in Hin as [Hin _]. contradiction.
  Qed.

  Lemma existsb_todo : forall j (l : list Z), existsb (Z.eqb j) l = true -> In j l.
  Proof. intros j l H. now apply memb_in. Qed.

  Ltac frame k i :=
    try (destruct (Z.eq_dec k i) as [->|?]; [rewrite fupd_same|rewrite fupd_other by assumption]; reflexivity).

  Lemma oinv_step : forall st g e, finv st g -> oinv st g -> ffull_ev e -> oinv (fstep st e) (fgstep st g e).
  Proof.
    intros st g e HF HO Hfull k.
    assert (Hmono0 : forall j v, In v (h_recvd g j) -> In v (h_recvd g j)) by auto.
    destruct e as [i a|i|i|i v|i rs|i j|i j|i|i|i]; cbn [ModelFine.fstep ModelFine.fgstep].
    - (* write *) apply (onode_frame st g); auto; frame k i.
    - (* commit *)
      destruct (f_hasold (st i)) eqn:Hh.
      + destruct (Z.eq_dec k i) as [->|Hki].
        * (* the committing node: everything is owed again *)
          destruct (HO i) as [P OS D Hs C]. constructor; cbn [h_lastc h_served h_recvd]; rewrite ?fupd_same; cbn.
          -- intros r Hr Hgen. pose proof (fi_gen _ _ HF i r Hr). lia.
          -- intros j [].
          -- exact D.
          -- right. unfold shape. rewrite ?fupd_same. cbn. destruct (f_round (st i)) as [r|] eqn:Hr; [|reflexivity].
             pose proof (fi_gen _ _ HF i r Hr). destruct (Nat.eqb (r_gen r) (S (f_gen (st i)))) eqn:E; [apply Nat.eqb_eq in E; lia|reflexivity].
          -- right. unfold unserved, cur_arrived. cbn [h_served]. rewrite ?fupd_same. cbn.
             assert (Ha : match f_round (st i) with Some r => if Nat.eqb (r_gen r) (S (f_gen (st i))) then List.length (r_arrived r) else 0%nat | None => 0%nat end = 0%nat).
             { destruct (f_round (st i)) as [r|] eqn:Hr; [|reflexivity]. pose proof (fi_gen _ _ HF i r Hr).
               destruct (Nat.eqb (r_gen r) (S (f_gen (st i)))) eqn:E; [apply Nat.eqb_eq in E; lia|reflexivity]. }
             rewrite Ha. pose proof (filter_len_le (fun _ : Z => true) (others i)). pose proof (others_len i). lia.
        * apply (onode_frame st g); auto; cbn [h_lastc h_served h_recvd]; rewrite ?fupd_other by assumption; reflexivity.
      + apply (onode_frame st g); auto; frame k i.
    - (* abort *) apply (onode_frame st g); auto; frame k i.
    - (* external value *)
      apply (onode_frame st g); auto; frame k i.
      intros j w Hw. cbn. destruct (Z.eq_dec j i) as [->|?]; [rewrite fupd_same; apply in_or_app; now left|now rewrite fupd_other].
    - (* begin *)
      cbn in Hfull. subst rs.
      destruct (f_round (st i)) as [r0|] eqn:Hr0; [apply HO|]. destruct (f_need (st i)) as [|n] eqn:Hn; [apply HO|].
      destruct (Z.eq_dec k i) as [->|Hki]; [|apply (onode_frame st g); auto; rewrite fupd_other by assumption; reflexivity].
      destruct (HO i) as [P OS D Hs C].
      constructor; rewrite ?fupd_same; cbn [f_round f_gen f_need set_round].
      -- intros r Hr Hgen. apply close_round_gen in Hr. subst r. cbn. apply (fi_lastc _ _ HF i).
      -- exact OS.
      -- intros r Hr. apply close_round_gen in Hr. subst r. cbn. split; [apply others_nodup|apply incl_refl].
      -- destruct Hs as [Hs|Hs]; [now left|right]. unfold shape in *. rewrite Hr0 in Hs. cbn [f_round f_gen set_round].
         unfold close_round. cbn. destruct (others i) as [|x l] eqn:Eo; [exact Hs|]. cbn. rewrite Nat.eqb_refl.
         intros j Hj. rewrite Hs. split; [intros []|]. intros Hn'. exfalso. apply Hn'. rewrite <- Eo in *. exact Hj.
      -- destruct C as [C|C]; [now left|right]. unfold cur_arrived in *. rewrite Hr0 in C. cbn [f_round f_gen f_need set_round].
         unfold close_round. cbn. destruct (others i); cbn; [lia|]. rewrite Nat.eqb_refl. cbn. lia.
    - (* serve *)
      destruct (f_round (st i)) as [r|] eqn:Hr; [|apply HO].
      destruct (existsb (Z.eqb j) (r_todo r)) eqn:Hex; [|apply HO].
      apply existsb_todo in Hex.
      set (st1 := fupd st j (set_queue T (st j) (f_queue (st j) ++ [r_payload r]))).
      assert (Hrc : forall x w, In w (h_recvd g x) -> In w (fupd (h_recvd g) j (h_recvd g j ++ [r_payload r]) x)).
      { intros x w Hw. destruct (Z.eq_dec x j) as [->|?]; [rewrite fupd_same; apply in_or_app; now left|now rewrite fupd_other]. }
      destruct (Z.eq_dec k i) as [->|Hki].
      + destruct (HO i) as [P OS D Hs C]. destruct (D r Hr) as [Dn Di].
        assert (Hst1 : f_gen (st1 i) = f_gen (st i) /\ f_need (st1 i) = f_need (st i)).
        { unfold st1. destruct (Z.eq_dec i j) as [->|?]; [rewrite fupd_same|rewrite fupd_other by assumption]; split; reflexivity. }
        destruct Hst1 as [Eg En].
        destruct (Nat.eqb (r_gen r) (f_gen (st i))) eqn:Egen.
        * apply Nat.eqb_eq in Egen.
          assert (Hdel : fdelivered (mkFghost T (h_committed g) (h_injected g) (fupd (h_recvd g) j (h_recvd g j ++ [r_payload r])) (h_lastc g) (fupd (h_served g) i (j :: h_served g i))) i j).
          { right. exists (r_payload r). cbn. rewrite fupd_same. split; [apply in_or_app; right; now left|now apply P]. }
          constructor; rewrite ?fupd_same; cbn [h_lastc h_served h_recvd f_round f_gen f_need set_round]; rewrite ?fupd_same, ?Eg, ?En.
          -- intros r' E _. inversion E; subst r'. cbn. now apply P.
          -- intros x [<-|Hx]; [split; [now apply Di|exact Hdel]|].
             destruct (OS x Hx) as [S1 S2]. split; [exact S1|]. apply (fdelivered_mono g _ i x); [reflexivity| |exact S2]. cbn. apply Hrc.
          -- intros r' E. inversion E; subst r'. cbn. split; [now apply remove_nodup|].
             intros x Hx. apply in_remove in Hx as [Hx _]. now apply Di.
          -- destruct Hs as [[Hq|Hu]|Hs].
             ++ left. left. exact Hq.
             ++ left. right. apply unserved_nil_iff. cbn. rewrite fupd_same. intros x Hx. right.
                now apply (proj1 (unserved_nil_iff g i) Hu).
             ++ right. unfold shape in *. rewrite Hr, Egen, Nat.eqb_refl in Hs. cbn [f_round f_gen set_round]. rewrite Eg, Egen, Nat.eqb_refl. cbn.
                intros x Hx. destruct (Z.eq_dec x j) as [->|Hxj].
                ** split; [intros _ Hin; apply in_remove in Hin as [_ Hne]; now apply Hne|intros _; now left].
                ** split.
                   --- intros [E|Hin] Hrm; [congruence|]. apply in_remove in Hrm as [Hrm _]. now apply (proj1 (Hs x Hx) Hin).
                   --- intros Hnr. right. apply (Hs x Hx). intros Hin. apply Hnr. now apply in_in_remove.
          -- assert (Hset : settled g i -> settled (mkFghost T (h_committed g) (h_injected g) (fupd (h_recvd g) j (h_recvd g j ++ [r_payload r])) (h_lastc g) (fupd (h_served g) i (j :: h_served g i))) i).
             { intros [Hq|Hu]; [now left|right]. apply unserved_nil_iff. cbn. rewrite fupd_same. intros x Hx. right.
               now apply (proj1 (unserved_nil_iff g i) Hu). }
             destruct Hs as [Hs|Hs]; [left; now apply Hset|]. destruct C as [C|C]; [left; now apply Hset|right].
             unfold shape in Hs. rewrite Hr, Egen, Nat.eqb_refl in Hs.
             assert (Hns : ~ In j (h_served g i)) by (intros Hin; apply (proj1 (Hs j (Di j Hex)) Hin); exact Hex).
             unfold unserved, cur_arrived in *. rewrite Hr, Egen, Nat.eqb_refl in C. cbn [h_served f_round f_gen set_round]. rewrite fupd_same, Eg, Egen, Nat.eqb_refl. cbn [r_arrived].
             rewrite app_length. cbn [List.length].
             pose proof (filter_serve (h_served g i) (others i) j (others_nodup i) (Di j Hex) Hns). lia.
        * (* a round that started before the last owing commit: nothing counts *)
          constructor; rewrite ?fupd_same; cbn [h_lastc h_served h_recvd f_round f_gen f_need set_round]; rewrite ?fupd_same, ?Eg, ?En.
          -- intros r' E Hg'. inversion E; subst r'. cbn in Hg'. apply Nat.eqb_neq in Egen. congruence.
          -- intros x Hx. destruct (OS x Hx) as [S1 S2]. split; [exact S1|]. apply (fdelivered_mono g _ i x); [reflexivity| |exact S2]. cbn. apply Hrc.
          -- intros r' E. inversion E; subst r'. cbn. split; [now apply remove_nodup|].
             intros x Hx. apply in_remove in Hx as [Hx _]. now apply Di.
          -- destruct Hs as [Hs|Hs]; [left; exact Hs|right]. unfold shape in *. rewrite Hr, Egen in Hs. cbn [f_round f_gen set_round]. rewrite Eg. cbn. now rewrite Egen.
          -- destruct C as [C|C]; [left; exact C|right]. unfold unserved, cur_arrived in *. rewrite Hr, Egen in C. cbn [h_served f_round f_gen set_round]. rewrite Eg. cbn. now rewrite Egen.
      + (* another node: at most its queue grew *)
        assert (Hk : f_round (fupd st1 i (set_round T (st1 i) (Some (mkRound T (r_payload r) (r_gen r) (remove Z.eq_dec j (r_todo r)) (r_arrived r ++ [fstable (st j)])))) k) = f_round (st k) /\
                     f_gen (fupd st1 i (set_round T (st1 i) (Some (mkRound T (r_payload r) (r_gen r) (remove Z.eq_dec j (r_todo r)) (r_arrived r ++ [fstable (st j)])))) k) = f_gen (st k) /\
                     f_need (fupd st1 i (set_round T (st1 i) (Some (mkRound T (r_payload r) (r_gen r) (remove Z.eq_dec j (r_todo r)) (r_arrived r ++ [fstable (st j)])))) k) = f_need (st k)).
        { rewrite fupd_other by assumption. unfold st1. destruct (Z.eq_dec k j) as [->|?]; [rewrite fupd_same|rewrite fupd_other by assumption]; repeat split; reflexivity. }
        destruct Hk as (E1 & E2 & E3).
        apply (onode_frame st g); auto;
          try (destruct (Nat.eqb (r_gen r) (f_gen (st i))); cbn; rewrite ?fupd_other by assumption; reflexivity);
          try (intros x w Hw; destruct (Nat.eqb (r_gen r) (f_gen (st i))); cbn; now apply Hrc).
    - (* drop: excluded *) destruct Hfull.
    - (* reply *)
      destruct (f_round (st i)) as [r|] eqn:Hr; [|apply HO].
      destruct (r_arrived r) as [|v rest] eqn:Har; [apply HO|].
      assert (Hrc : forall x w, In w (h_recvd g x) -> In w (fupd (h_recvd g) i (h_recvd g i ++ [v]) x)).
      { intros x w Hw. destruct (Z.eq_dec x i) as [->|?]; [rewrite fupd_same; apply in_or_app; now left|now rewrite fupd_other]. }
      destruct (Z.eq_dec k i) as [->|Hki]; [|apply (onode_frame st g); auto; rewrite fupd_other by assumption; reflexivity].
      destruct (HO i) as [P OS D Hs C]. destruct (D r Hr) as [Dn Di].
      constructor; rewrite ?fupd_same; cbn [h_lastc h_served h_recvd f_round f_gen f_need].
      + intros r1 E Hg1. apply close_round_gen in E. subst r1. cbn in *. now apply P.
      + intros x Hx. destruct (OS x Hx) as [S1 S2]. split; [exact S1|]. apply (fdelivered_mono g _ i x); [reflexivity| |exact S2]. cbn. apply Hrc.
      + intros r1 E. apply close_round_gen in E. subst r1. cbn. now split.
      + assert (Hset : settled g i -> settled (mkFghost T (h_committed g) (h_injected g) (fupd (h_recvd g) i (h_recvd g i ++ [v])) (h_lastc g) (h_served g)) i) by (unfold settled, unserved; cbn; tauto).
        destruct Hs as [Hs|Hs]; [left; now apply Hset|]. unfold shape in Hs. rewrite Hr in Hs.
        unfold close_round. cbn [r_todo r_arrived].
        destruct (r_todo r) as [|t0 tl] eqn:Et; [destruct rest as [|v2 rest2]|].
        * (* the round is over *)
          destruct (Nat.eqb (r_gen r) (f_gen (st i))) eqn:Egen.
          -- left. right. apply unserved_nil_iff. cbn. intros x Hx. apply (Hs x Hx). intros [].
          -- right. unfold shape. cbn. exact Hs.
        * right. unfold shape. cbn. exact Hs.
        * right. unfold shape. cbn. exact Hs.
      + assert (Hset : settled g i -> settled (mkFghost T (h_committed g) (h_injected g) (fupd (h_recvd g) i (h_recvd g i ++ [v])) (h_lastc g) (h_served g)) i) by (unfold settled, unserved; cbn; tauto).
        destruct C as [C|C]; [left; now apply Hset|right]. unfold unserved, cur_arrived in *. rewrite Hr, Har in C. cbn [h_served f_round f_gen f_need].
        destruct (Nat.eqb (r_gen r) (f_gen (st i))) eqn:Egen.
        * cbn [List.length] in C. unfold close_round. cbn [r_todo r_arrived].
          destruct (r_todo r); [destruct rest|]; cbn [f_round r_gen r_arrived List.length] in *; rewrite ?Egen; cbn [List.length]; lia.
        * unfold close_round. cbn [r_todo r_arrived].
          destruct (r_todo r); [destruct rest|]; cbn [f_round r_gen r_arrived]; rewrite ?Egen; lia.
    - (* take *)
      destruct (f_taken (st i)); [apply HO|]. destruct (f_queue (st i)); [apply HO|].
      apply (onode_frame st g); auto; frame k i.
    - (* apply *)
      destruct (f_taken (st i)); [|apply HO].
      apply (onode_frame st g); auto; frame k i.
  Qed.

  Theorem oinv_run_from : forall evs st g, finv st g -> oinv st g -> fvalid_from st evs -> ffull evs ->
    oinv (fst (fxrun_from (st, g) evs)) (snd (fxrun_from (st, g) evs)).
  Proof.
    induction evs as [|e evs IH]; intros st g HF HO Hv Hf; [exact HO|].
    destruct Hv as [He Hv]. inversion Hf; subst. cbn [ModelFine.fxrun_from fold_left]. unfold ModelFine.fxstep at 2. cbn [fst snd].
    apply IH; auto using finv_step, oinv_step.
  Qed.

  Theorem oinv_run : forall evs, fvalid evs -> ffull evs -> oinv (fst (fxrun evs)) (snd (fxrun evs)).
  Proof. intros evs Hv Hf. apply oinv_run_from; auto using finv_init, oinv_init. Qed.

  Lemma settled_delivered : forall st g i, onode st g i -> settled g i -> forall j, In j (others i) -> fdelivered g i j.
  Proof.
    intros st g i HO [Hq|Hu] j Hj; [now left|].
    apply (o_served _ _ _ HO). now apply (proj1 (unserved_nil_iff g i) Hu).
  Qed.

  (* owed_after_commit for the fine model: when rounds reach every other peer, the owed count of a node can
     be 0 only if every other peer has received a state above the node's last committed state — although
     replies of older rounds, serves, commits and merges interleave freely *)
  Theorem fine_owed_after_commit : forall evs i, fvalid evs -> ffull evs ->
    f_need (fst (fxrun evs) i) = 0%nat -> forall j, In j (others i) -> fdelivered (snd (fxrun evs)) i j.
  Proof.
    intros evs i Hv Hf Hn. pose proof (oinv_run evs Hv Hf i) as HO.
    apply (settled_delivered _ _ _ HO). destruct (o_count _ _ _ HO) as [Hs|Hc]; [exact Hs|].
    right. rewrite Hn in Hc. destruct (unserved (snd (fxrun evs)) i); [reflexivity|cbn in Hc; lia].
  Qed.

  (* ================================================================ quiescent convergence *)
  Variable N : list Z.
  Hypothesis mesh : forall i j, In i N -> In j N -> i <> j -> In j (others i).

  Definition fnode_of (e : fevent) : Z :=
    match e with
    | FWrite i _ | FCommit i | FAbort i | FRecv i _ | FBegin i _ | FServe i _ | FDrop i _ | FReply i | FTake i | FApply i => i
    end.

  Definition finternal_ev (e : fevent) : Prop :=
    In (fnode_of e) N /\ ffull_ev e /\ match e with FRecv _ _ => False | _ => True end.
  Definition finternal (evs : list fevent) : Prop := Forall finternal_ev evs.

  Definition fiinv (g : fghost) : Prop := h_injected g = [] /\ forall i, ~ In i N -> h_lastc g i = init.

  Lemma fiinv_step : forall st g e, finternal_ev e -> fiinv g -> fiinv (fgstep st g e).
  Proof.
    intros st g e (Hn & _ & Hr) [Hi Hl]. destruct e as [i a|i|i|i v|i rs|i j|i j|i|i|i]; cbn in *; try (split; assumption).
    - destruct (f_hasold (st i)); [|split; assumption]. split; [exact Hi|]. cbn. intros k Hk.
      rewrite fupd_other; [now apply Hl|]. intros ->. contradiction.
    - contradiction.
    - destruct (f_round (st i)) as [r|]; [|split; assumption]. destruct (existsb (Z.eqb j) (r_todo r)); split; assumption.
    - destruct (f_round (st i)) as [r|]; [|split; assumption]. destruct (r_arrived r); split; assumption.
  Qed.

  Lemma fiinv_run : forall evs, finternal evs -> fiinv (snd (fxrun evs)).
  Proof.
    intros evs. unfold ModelFine.fxrun. generalize (fstate_init T init).
    assert (H0 : fiinv (fghost_init T init)) by (split; [reflexivity|intros; reflexivity]).
    revert H0. generalize (fghost_init T init). induction evs as [|e evs IH]; intros g Hg st Hi; [exact Hg|].
    inversion Hi; subst. cbn [ModelFine.fxrun_from fold_left]. unfold ModelFine.fxstep at 2. cbn [fst snd].
    apply IH; [now apply fiinv_step|assumption].
  Qed.

  Lemma finternal_full : forall evs, finternal evs -> ffull evs.
  Proof. intros evs H. eapply Forall_impl; [|exact H]. intros e (_ & Hf & _). exact Hf. Qed.

  (* in a full mesh, after any fine-grained schedule of the mesh: if no section is in flight, nothing is
     waiting to be merged, and every node either owes nothing or has completed a round since its last
     writing commit, then all replicas are equal *)
  Theorem fine_quiescent_converged : forall evs, fvalid evs -> finternal evs ->
    let st := fst (fxrun evs) in let g := snd (fxrun evs) in
    (forall i, In i N -> f_hasold (st i) = false /\ pend (st i) = [] /\ (f_need (st i) = 0%nat \/ unserved g i = [])) ->
    forall i j, In i N -> In j N -> le (f_value (st i)) (f_value (st j)).
  Proof.
    intros evs Hv Hint. cbn zeta. intros Hq.
    pose proof (finv_run evs Hv) as HF. pose proof (finternal_full _ Hint) as Hfull.
    pose proof (oinv_run evs Hv Hfull) as HO. pose proof (fiinv_run evs Hint) as [Ginj Gl].
    set (st := fst (fxrun evs)) in *. set (g := snd (fxrun evs)) in *.
    assert (Hval : forall i, ok (f_value (st i))) by (intros i; apply (fi_ok _ _ HF i)).
    assert (Hdel : forall i, In i N -> forall j, In j (others i) -> fdelivered g i j).
    { intros i Hi. destruct (Hq i Hi) as (_ & _ & [Hn|Hu]).
      - now apply (fine_owed_after_commit evs i Hv Hfull Hn).
      - apply (settled_delivered _ _ _ (HO i)). now right. }
    assert (Hcov : forall i j, In i N -> In j N -> le (h_lastc g i) (f_value (st j))).
    { intros i j Hi Hj. destruct (Z.eq_dec i j) as [->|Hne].
      - pose proof (fi_lastc _ _ HF j) as Hl. unfold fstable in Hl. destruct (Hq j Hj) as (Hh & _). now rewrite Hh in Hl.
      - destruct (Hdel i Hi j (mesh i j Hi Hj Hne)) as [Hinit|(v & Hv' & Hle)].
        + eapply le_trans; [exact Hinit|]. now apply init_least.
        + eapply le_trans; [exact Hle|]. apply (proj1 (fi_recvd _ _ HF j v Hv')).
          destruct (Hq j Hj) as (_ & Hp & _). split; [apply Hval|]. split; [now apply le_refl|]. rewrite Hp. intros w []. }
    intros i j Hi Hj.
    pose proof (fi_stable _ _ HF i) as Hb. unfold fstable in Hb. destruct (Hq i Hi) as (Hh & _). rewrite Hh in Hb.
    apply Hb. split; [apply Hval|]. intros c Hc. unfold fknown in Hc. rewrite Ginj, app_nil_r in Hc.
    destruct (fi_chain _ _ HF c Hc) as [k Hk]. destruct (in_dec Z.eq_dec k N) as [HkN|HkN].
    - eapply le_trans; [exact Hk|]. now apply Hcov.
    - rewrite (Gl k HkN) in Hk. eapply le_trans; [exact Hk|]. now apply init_least.
  Qed.
End FineRes.
