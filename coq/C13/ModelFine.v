(* C13 — a finer-grained executable model of crdt.go (after fix 0c26be54: needBroadcastGen).
   Model only: no proofs here.

   Compared with C13/Model.v a broadcast round is no longer one event:
     FBegin i rs    broadcast() of node i starts: nothing happens unless the owed count is > 0 (and no round
                    of i is in flight: runBroadcasts is one goroutine); it reads the generation and the stable
                    payload, and sends to the peers rs (those whose call will not fail at connection level)
     FServe i j     peer j handles the ReceiveValue call of i's round: it enqueues the payload and its reply,
                    the stable value of j at that moment, travels back
     FDrop i j      the call to j times out or fails: no reply
     FReply i       node i handles the next reply that arrived: the owed count is decremented (not below 0) only
                    if no owing Commit happened since the round started (generation unchanged); the reply is
                    enqueued. The round ends when every call was served or dropped and every reply handled.
   and the merger goroutine is two steps:
     FTake i        the merger receives the head of mergeValues (it is no longer in the queue, not yet merged)
     FApply i       under the state lock: value := value.Merge(v) (and oldValue while a section is in flight)
   FWrite / FCommit / FAbort / FRecv are as in Model.v; an owing Commit also increments the generation.
   All these events interleave freely: theorems quantify over all event lists. *)
From PGV Require Export C13.Model.
Open Scope Z_scope.

Section Fine.
  Variables (T A : Type).
  Variable init : T.
  Variable write : Z -> A -> T -> T.
  Variable merge : T -> T -> T.
  Variable peers : Z -> list Z.

  Record round := mkRound { r_payload : T; r_gen : nat; r_todo : list Z; r_arrived : list T }.

  Record fnode := mkFnode {
    f_value : T; f_old : T; f_hasold : bool; f_need : nat; f_gen : nat;
    f_queue : list T; f_taken : option T; f_round : option round }.

  Definition fnode_init : fnode := mkFnode init init false 0 0 [] None None.

  Definition fstable (nd : fnode) : T := if f_hasold nd then f_old nd else f_value nd.

  Inductive fevent :=
  | FWrite (i : Z) (a : A) | FCommit (i : Z) | FAbort (i : Z) | FRecv (i : Z) (v : T)
  | FBegin (i : Z) (rs : list Z) | FServe (i j : Z) | FDrop (i j : Z) | FReply (i : Z)
  | FTake (i : Z) | FApply (i : Z).

  Definition fstate := Z -> fnode.
  Definition fstate_init : fstate := fun _ => fnode_init.

  Definition set_queue (nd : fnode) (q : list T) : fnode :=
    mkFnode (f_value nd) (f_old nd) (f_hasold nd) (f_need nd) (f_gen nd) q (f_taken nd) (f_round nd).
  Definition set_round (nd : fnode) (r : option round) : fnode :=
    mkFnode (f_value nd) (f_old nd) (f_hasold nd) (f_need nd) (f_gen nd) (f_queue nd) (f_taken nd) r.

  (* a round with nothing left to do is over *)
  Definition close_round (r : round) : option round :=
    match r_todo r, r_arrived r with [], [] => None | _, _ => Some r end.

  Definition fstep (st : fstate) (e : fevent) : fstate :=
    match e with
    | FWrite i a =>
        let nd := st i in
        fupd st i (mkFnode (write i a (f_value nd)) (if f_hasold nd then f_old nd else f_value nd) true
                           (f_need nd) (f_gen nd) (f_queue nd) (f_taken nd) (f_round nd))
    | FCommit i =>
        let nd := st i in
        fupd st i (mkFnode (f_value nd) (f_old nd) false
                           (if f_hasold nd then List.length (peers i) else f_need nd)
                           (if f_hasold nd then S (f_gen nd) else f_gen nd)
                           (f_queue nd) (f_taken nd) (f_round nd))
    | FAbort i =>
        let nd := st i in
        fupd st i (mkFnode (if f_hasold nd then f_old nd else f_value nd) (f_old nd) false (f_need nd) (f_gen nd)
                           (f_queue nd) (f_taken nd) (f_round nd))
    | FRecv i v => fupd st i (set_queue (st i) (f_queue (st i) ++ [v]))
    | FBegin i rs =>
        let nd := st i in
        match f_round nd, f_need nd with
        | None, S _ => fupd st i (set_round nd (close_round (mkRound (fstable nd) (f_gen nd) rs [])))
        | _, _ => st
        end
    | FServe i j =>
        match f_round (st i) with
        | Some r =>
            if existsb (Z.eqb j) (r_todo r) then
              let reply := fstable (st j) in
              let st1 := fupd st j (set_queue (st j) (f_queue (st j) ++ [r_payload r])) in
              fupd st1 i (set_round (st1 i)
                            (Some (mkRound (r_payload r) (r_gen r) (remove Z.eq_dec j (r_todo r)) (r_arrived r ++ [reply]))))
            else st
        | None => st
        end
    | FDrop i j =>
        match f_round (st i) with
        | Some r =>
            if existsb (Z.eqb j) (r_todo r) then
              fupd st i (set_round (st i)
                           (close_round (mkRound (r_payload r) (r_gen r) (remove Z.eq_dec j (r_todo r)) (r_arrived r))))
            else st
        | None => st
        end
    | FReply i =>
        let nd := st i in
        match f_round nd with
        | Some r =>
            match r_arrived r with
            | v :: rest =>
                fupd st i (mkFnode (f_value nd) (f_old nd) (f_hasold nd)
                                   (if Nat.eqb (r_gen r) (f_gen nd) then Nat.pred (f_need nd) else f_need nd)
                                   (f_gen nd) (f_queue nd ++ [v]) (f_taken nd)
                                   (close_round (mkRound (r_payload r) (r_gen r) (r_todo r) rest)))
            | [] => st
            end
        | None => st
        end
    | FTake i =>
        let nd := st i in
        match f_taken nd, f_queue nd with
        | None, v :: q =>
            fupd st i (mkFnode (f_value nd) (f_old nd) (f_hasold nd) (f_need nd) (f_gen nd) q (Some v) (f_round nd))
        | _, _ => st
        end
    | FApply i =>
        let nd := st i in
        match f_taken nd with
        | Some v =>
            fupd st i (mkFnode (merge (f_value nd) v) (if f_hasold nd then merge (f_old nd) v else f_old nd)
                               (f_hasold nd) (f_need nd) (f_gen nd) (f_queue nd) None (f_round nd))
        | None => st
        end
    end.

  Definition frun_from (st : fstate) (evs : list fevent) : fstate := fold_left fstep evs st.
  Definition frun (evs : list fevent) : fstate := frun_from fstate_init evs.

  (* what leaves a node *)
  Definition fsent (st : fstate) (e : fevent) : list T :=
    match e with
    | FBegin i _ => match f_round (st i), f_need (st i) with None, S _ => [fstable (st i)] | _, _ => [] end
    | FServe i j => match f_round (st i) with
                    | Some r => if existsb (Z.eqb j) (r_todo r) then [fstable (st j)] else []
                    | None => [] end
    | FRecv i _ => [fstable (st i)]
    | _ => []
    end.

  (* bookkeeping for the statements, as in Model.v, plus
       h_served i   the peers served, since node i's last owing commit, by a round that started after it *)
  Record fghost := mkFghost { h_committed : list T; h_injected : list T; h_recvd : Z -> list T;
                              h_lastc : Z -> T; h_served : Z -> list Z }.

  Definition fghost_init : fghost := mkFghost [] [] (fun _ => []) (fun _ => init) (fun _ => []).

  Definition fgstep (st : fstate) (g : fghost) (e : fevent) : fghost :=
    match e with
    | FCommit i =>
        if f_hasold (st i)
        then mkFghost (h_committed g ++ [f_value (st i)]) (h_injected g) (h_recvd g)
                      (fupd (h_lastc g) i (f_value (st i))) (fupd (h_served g) i [])
        else g
    | FRecv i v => mkFghost (h_committed g) (h_injected g ++ [v]) (fupd (h_recvd g) i (h_recvd g i ++ [v]))
                            (h_lastc g) (h_served g)
    | FServe i j =>
        match f_round (st i) with
        | Some r =>
            if existsb (Z.eqb j) (r_todo r) then
              mkFghost (h_committed g) (h_injected g) (fupd (h_recvd g) j (h_recvd g j ++ [r_payload r])) (h_lastc g)
                       (if Nat.eqb (r_gen r) (f_gen (st i)) then fupd (h_served g) i (j :: h_served g i) else h_served g)
            else g
        | None => g
        end
    | FReply i =>
        match f_round (st i) with
        | Some r => match r_arrived r with
                    | v :: _ => mkFghost (h_committed g) (h_injected g) (fupd (h_recvd g) i (h_recvd g i ++ [v]))
                                         (h_lastc g) (h_served g)
                    | [] => g end
        | None => g
        end
    | _ => g
    end.

  Definition fxstep (x : fstate * fghost) (e : fevent) : fstate * fghost :=
    (fstep (fst x) e, fgstep (fst x) (snd x) e).
  Definition fxrun_from (x : fstate * fghost) (evs : list fevent) : fstate * fghost := fold_left fxstep evs x.
  Definition fxrun (evs : list fevent) : fstate * fghost := fxrun_from (fstate_init, fghost_init) evs.
End Fine.

Arguments f_value {T}.
Arguments f_old {T}.
Arguments f_hasold {T}.
Arguments f_need {T}.
Arguments f_gen {T}.
Arguments f_queue {T}.
Arguments f_taken {T}.
Arguments f_round {T}.
Arguments fstable {T}.
Arguments r_payload {T}.
Arguments r_gen {T}.
Arguments r_todo {T}.
Arguments r_arrived {T}.
Arguments FWrite {T A}.
Arguments FCommit {T A}.
Arguments FAbort {T A}.
Arguments FRecv {T A}.
Arguments FBegin {T A}.
Arguments FServe {T A}.
Arguments FDrop {T A}.
Arguments FReply {T A}.
Arguments FTake {T A}.
Arguments FApply {T A}.
Arguments h_committed {T}.
Arguments h_injected {T}.
Arguments h_recvd {T}.
Arguments h_lastc {T}.
Arguments h_served {T}.

(* ---------------------------------------------------------------- correspondence evaluation (as res_check) *)
Section FineCheck.
  Variables (T A : Type) (init : T) (write : Z -> A -> T -> T) (merge : T -> T -> T) (rd : T -> list Z).

  Definition fnode_obs (nd : fnode T) : obs := (rd (f_value nd), rd (fstable nd), f_hasold nd, f_need nd).

  Fixpoint fres_check_from (n : nat) (self dead : bool) (st : fstate T) (evs : list (fevent T A * option (list obs))) : bool :=
    match evs with
    | [] => true
    | (e, o) :: rest =>
        let st' := fstep T A write merge (mesh_peers n self dead) st e in
        (match o with
         | None => true
         | Some l => obs_list_eqb (map (fun i => fnode_obs (st' (Z.of_nat i))) (seq 0 n)) l
         end) && fres_check_from n self dead st' rest
    end.

  Definition fres_check (n : nat) (self dead : bool) (evs : list (fevent T A * option (list obs))) : bool :=
    fres_check_from n self dead (fstate_init T init) evs.
End FineCheck.

Definition fgcr_check := fres_check gc Z gc_init gc_write gc_merge (fun c => [gc_read c]).
Definition fawr_check := fres_check aw (Z * Z) aw_init aw_write aw_merge (fun s => zsort (aw_read s)).
Definition flwwr_check := fres_check lww (Z * Z * Z) lww_init lww_write lww_merge (fun s => zsort (lww_read s)).
