(* C13 — the GCounter of C12 is a join-semilattice in the order-theoretic form used by C13/Proofs.v. *)
From PGV Require Import C12.Model C12.ProofsAL C12.ProofsGC.
From Coq Require Import Lia.
Open Scope Z_scope.

Definition gc_le (a b : gc) : Prop := forall k, gc_getd k a <= gc_getd k b.

Lemma gc_le_refl : forall x, gc_wf x -> gc_le x x.
Proof. intros x _ k. lia. Qed.

Lemma gc_le_trans : forall x y z, gc_le x y -> gc_le y z -> gc_le x z.
Proof. intros x y z H1 H2 k. specialize (H1 k). specialize (H2 k). lia. Qed.

Lemma gc_init_least : forall x, gc_wf x -> gc_le gc_init x.
Proof. intros x [_ Hnn] k. specialize (Hnn k). cbn. exact Hnn. Qed.

Lemma gc_merge_ub_l : forall x y, gc_wf x -> gc_wf y -> gc_le x (gc_merge x y).
Proof. intros x y Hx Hy k. rewrite gc_merge_getd by (try apply Hx; assumption). lia. Qed.

Lemma gc_merge_ub_r : forall x y, gc_wf x -> gc_wf y -> gc_le y (gc_merge x y).
Proof. intros x y Hx Hy k. rewrite gc_merge_getd by (try apply Hx; assumption). lia. Qed.

Lemma gc_merge_lub : forall x y z, gc_wf x -> gc_wf y -> gc_wf z -> gc_le x z -> gc_le y z -> gc_le (gc_merge x y) z.
Proof.
  intros x y z Hx Hy _ H1 H2 k. rewrite gc_merge_getd by (try apply Hx; assumption).
  specialize (H1 k). specialize (H2 k). lia.
Qed.

Lemma gc_write_infl_le : forall i a x, gc_wf x -> gc_wpre i a x -> gc_le x (gc_write i a x).
Proof.
  intros i a x Hx Hpre k. rewrite gc_write_getd_pre by (try apply Hx; assumption).
  destruct Hpre as [Ha _]. destruct (k =? i) eqn:E; [|lia]. assert (k = i) by lia. subst. lia.
Qed.

(* the order is the one induced by the merge of C12: a <= b iff a ⊔ b = b *)
Lemma gc_le_merge : forall a b, gc_wf a -> gc_wf b -> (gc_le a b <-> gc_eqv (gc_merge a b) b).
Proof.
  intros a b Ha Hb. split.
  - intros H k. rewrite gc_merge_getd by (try apply Ha; assumption). specialize (H k). lia.
  - intros H k. specialize (H k). rewrite gc_merge_getd in H by (try apply Ha; assumption). lia.
Qed.

(* mutual <= is the state equivalence of C12, hence equal reads *)
Lemma gc_le_antisym : forall a b, gc_wf a -> gc_wf b -> gc_le a b -> gc_le b a -> gc_eqv a b /\ gc_read a = gc_read b.
Proof.
  intros a b Ha Hb H1 H2. assert (E : gc_eqv a b) by (intros k; specialize (H1 k); specialize (H2 k); lia).
  split; [exact E|now apply gc_read_eqv].
Qed.
