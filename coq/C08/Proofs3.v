(* C08 — log matching. Ghost: gl t = the leader elected in term t (0 = none yet), tl t = the log of that leader (as far as it
   has grown). Every log in the system is a path in the tree formed by the tl's. No assumption on message order is needed. *)
From PGV Require Import C08.Model C08.Proofs1 C08.Proofs2.
From Coq Require Import Lia.

(* ---------- how a server label changes role, term and log ---------- *)
Lemma core_log_cases cfg i sv f l sv' out ltr :
  server_core cfg i sv f l = HR sv' out ltr ->
  s_log sv' = s_log sv \/
  (s_role sv = Leader /\ s_role sv' = Leader /\ s_term sv' = s_term sv /\
   exists c j, s_log sv' = s_log sv ++ [mkEntry (s_term sv) c j]) \/
  (exists mt prev prevT es mc j d,
     s_m sv = Some (APQ mt prev prevT es mc j d) /\ s_role sv' = Follower /\ s_term sv' = mt /\
     (prev = 0 \/ (0 < prev /\ term_at (s_log sv) prev = Some prevT)) /\
     s_log sv' = firstn prev (s_log sv) ++ es).
Proof.
  intros H. destruct l; core_cases H; ut_cases; cbn in *; auto.
  all: try (right; left; bprop; destruct (s_role sv); try discriminate; repeat split; auto; eexists _, _; reflexivity).
  all: right; right; eexists _, _, _, _, _, _, _; split; [reflexivity|]; bprop; subst; cbn in *;
       repeat split; auto; try lia.
  all: try (destruct (s_role sv); cbn in *; try discriminate; reflexivity).
  all: try (right; split; [lia|]; destruct (term_at (s_log sv) mprevLogIndex); try discriminate; bprop; congruence).
Qed.

Lemma core_leader_cases cfg i sv f l sv' out ltr :
  server_core cfg i sv f l = HR sv' out ltr -> s_role sv' = Leader ->
  (s_role sv = Leader /\ s_term sv' = s_term sv) \/
  (s_role sv = Candidate /\ s_term sv' = s_term sv /\ is_quorum cfg (s_vgrant sv) = true /\
   s_log sv' = s_log sv /\ s_vgrant sv' = s_vgrant sv).
Proof.
  intros H Hl. destruct l; core_cases H; ut_cases; cbn in *; try discriminate; auto.
  all: bprop; try discriminate.
  all: destruct (s_role sv) eqn:Er; cbn in *; try discriminate; auto.
  all: right; repeat split; auto.
Qed.

Lemma core_leader_stays cfg i sv f l sv' out ltr :
  server_core cfg i sv f l = HR sv' out ltr -> s_role sv = Leader -> s_term sv' = s_term sv -> s_role sv' = Leader.
Proof.
  intros H Hl Ht. destruct l; core_cases H; ut_cases; cbn in *; try lia; auto.
  all: bprop; try lia; try discriminate; try (rewrite Hl in *; cbn in *; discriminate).
Qed.

Lemma core_apq_out cfg i sv f l sv' md d t prev prevT es c src dst ltr :
  server_core cfg i sv f l = HR sv' (Some (md, d, APQ t prev prevT es c src dst)) ltr ->
  s_role sv = Leader /\ t = s_term sv /\ s_log sv' = s_log sv /\ s_term sv' = s_term sv /\ s_role sv' = Leader /\
  es = skipn prev (s_log sv) /\ (prev = 0 \/ (0 < prev /\ term_at (s_log sv) prev = Some prevT)) /\ src = i.
Proof.
  intros H. destruct l; unfold_core H; repeat (destr_in H; try discriminate H); inversion H; subst; clear H.
  all: bprop; destruct (s_role sv) eqn:Er; try discriminate; cbn; repeat split; auto.
  all: try (left; lia); try (right; split; [lia|auto]).
Qed.

(* ---------- ghost state ---------- *)
Record ghost := mkGhost { gv : votes; gl : nat -> nat; tl : nat -> list entry }.
Definition ghost0 : ghost := mkGhost (fun _ _ => 0) (fun _ => 0) (fun _ => []).

Definition is_leader_in (s : state) (t j : nat) : bool :=
  role_eqb (s_role (srv s j)) Leader && (s_term (srv s j) =? t).
Definition leader_of (cfg : config) (s : state) (t : nat) : option nat := find (is_leader_in s t) (servers cfg).

Definition observe (cfg : config) (g : ghost) (s : state) : ghost :=
  mkGhost (observe_votes (gv g) s)
          (fun t => match leader_of cfg s t with Some j => j | None => gl g t end)
          (fun t => match leader_of cfg s t with Some j => s_log (srv s j) | None => tl g t end).

Inductive greach (cfg : config) : state -> ghost -> Prop :=
| gr_init : greach cfg (init cfg) ghost0
| gr_step s g ev s' : greach cfg s g -> step cfg s ev = Commit s' -> greach cfg s' (observe cfg g s').

Lemma greach_vreach cfg s g : greach cfg s g -> vreach cfg s (gv g).
Proof. induction 1; [constructor | cbn; econstructor; eauto]. Qed.
Lemma reachable_greach cfg s : reachable cfg s -> exists g, greach cfg s g.
Proof. induction 1 as [|s ev s' _ [g Hg] Hs]; [eexists; constructor | eexists; econstructor; eauto]. Qed.
Lemma greach_reachable cfg s g : greach cfg s g -> reachable cfg s.
Proof. intros H. eapply vreach_reachable, greach_vreach; eauto. Qed.

Lemma role_eqb_eq a b : role_eqb a b = true <-> a = b.
Proof. destruct a, b; cbn; split; congruence. Qed.

Lemma is_leader_in_spec s t j : is_leader_in s t j = true <-> s_role (srv s j) = Leader /\ s_term (srv s j) = t.
Proof.
  unfold is_leader_in. rewrite andb_true_iff, role_eqb_eq, Nat.eqb_eq. tauto.
Qed.

Lemma in_servers cfg j : In j (servers cfg) <-> is_server cfg j = true.
Proof.
  unfold servers, is_server. rewrite in_seq, andb_true_iff, !Nat.leb_le. lia.
Qed.

(* ---------- prefixes and the tree of leader logs ---------- *)
Definition tree_ok (tlf : nat -> list entry) (l : list entry) : Prop :=
  forall p e, nth_error l p = Some e -> firstn (S p) l = firstn (S p) (tlf (e_term e)).

Lemma is_prefix_refl {A} (l : list A) : is_prefix l l.
Proof. exists []. now rewrite app_nil_r. Qed.
Lemma is_prefix_app {A} (l r : list A) : is_prefix l (l ++ r).
Proof. now exists r. Qed.
Lemma is_prefix_trans {A} (a b c : list A) : is_prefix a b -> is_prefix b c -> is_prefix a c.
Proof. intros [x ->] [y ->]. exists (x ++ y). now rewrite app_assoc. Qed.
Lemma is_prefix_nth {A} (a b : list A) p x : is_prefix a b -> nth_error a p = Some x -> nth_error b p = Some x.
Proof. intros [r ->] H. rewrite nth_error_app1; auto. apply nth_error_Some. congruence. Qed.
Lemma is_prefix_firstn {A} (a b : list A) n : is_prefix a b -> n <= List.length a -> firstn n a = firstn n b.
Proof. intros [r ->] H. rewrite firstn_app. replace (n - List.length a) with 0 by lia. cbn. now rewrite app_nil_r. Qed.
Lemma is_prefix_length {A} (a b : list A) : is_prefix a b -> List.length a <= List.length b.
Proof. intros [r ->]. rewrite app_length. lia. Qed.
Lemma firstn_is_prefix {A} n (l : list A) : is_prefix (firstn n l) l.
Proof. exists (skipn n l). now rewrite firstn_skipn. Qed.

Lemma nth_error_lt {A} (l : list A) p x : nth_error l p = Some x -> p < List.length l.
Proof. intros H. apply nth_error_Some. congruence. Qed.

Lemma firstn_eq_length {A} n (a b : list A) : n <= List.length a -> firstn n a = firstn n b -> n <= List.length b.
Proof.
  intros Ha H. assert (E : List.length (firstn n a) = List.length (firstn n b)) by now rewrite H.
  rewrite !firstn_length in E. lia.
Qed.

(* a prefix of a path of the tree is a path of the tree *)
Lemma tree_ok_prefix tlf a b : is_prefix a b -> tree_ok tlf b -> tree_ok tlf a.
Proof.
  intros P T p e H. pose proof (nth_error_lt _ _ _ H) as Hp.
  rewrite (is_prefix_firstn a b (S p) P) by lia. apply T. eapply is_prefix_nth; eauto.
Qed.

Lemma term_at_nth l k t : term_at l k = Some t <-> exists e, 0 < k /\ nth_error l (k - 1) = Some e /\ e_term e = t.
Proof.
  unfold term_at, log_at. destruct k; cbn.
  - split; [discriminate | intros (e & H & _); lia].
  - rewrite Nat.sub_0_r. destruct (nth_error l k) as [e|]; cbn; split.
    + intros [= <-]. exists e. repeat split; auto. lia.
    + intros (e' & _ & [= <-] & <-). reflexivity.
    + discriminate.
    + intros (e' & _ & H & _). discriminate.
Qed.
