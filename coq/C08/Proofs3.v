(* C08 — log matching. Ghost: gl t = the leader elected in term t (0 = none yet), tl t = the log of that leader (as far as it
   has grown). Every log in the system is a path in the tree formed by the tl's. No assumption on message order is needed. *)
From PGV Require Import C08.Model C08.Proofs1 C08.Proofs2.
From Coq Require Import Lia.

(* ---------- how a server label changes role, term and log ---------- *)
Lemma core_log_cases cfg i sv f l sv' out ltr :
  server_core cfg i sv f l = HR sv' out ltr ->
  s_log sv' = s_log sv \/
  (s_role sv = Leader /\ s_role sv' = Leader /\ s_term sv' = s_term sv /\
   exists c j, s_log sv' = s_log sv ++ [mkEntry (s_term sv) c j]) \/
  (exists mt prev prevT es mc j d,
     s_m sv = Some (APQ mt prev prevT es mc j d) /\ s_role sv' = Follower /\ s_term sv' = mt /\
     (prev = 0 \/ (0 < prev /\ term_at (s_log sv) prev = Some prevT)) /\
     s_log sv' = firstn prev (s_log sv) ++ es).
Proof.
  intros H. destruct l; core_cases H; ut_cases; cbn in *; auto.
  all: try (right; left; bprop; destruct (s_role sv); try discriminate; repeat split; auto; eexists _, _; reflexivity).
  all: right; right; eexists _, _, _, _, _, _, _; split; [reflexivity|]; bprop; subst; cbn in *;
       repeat split; auto; try lia.
  all: try (destruct (s_role sv); cbn in *; try discriminate; reflexivity).
  all: try (right; split; [lia|]; destruct (term_at (s_log sv) mprevLogIndex); try discriminate; bprop; congruence).
Qed.

Lemma core_leader_cases cfg i sv f l sv' out ltr :
  server_core cfg i sv f l = HR sv' out ltr -> s_role sv' = Leader ->
  (s_role sv = Leader /\ s_term sv' = s_term sv) \/
  (s_role sv = Candidate /\ s_term sv' = s_term sv /\ is_quorum cfg (s_vgrant sv) = true /\
   s_log sv' = s_log sv /\ s_vgrant sv' = s_vgrant sv).
Proof.
  intros H Hl. destruct l; core_cases H; ut_cases; cbn in *; try discriminate; auto.
  all: bprop; try discriminate.
  all: destruct (s_role sv) eqn:Er; cbn in *; try discriminate; auto.
  all: right; repeat split; auto.
Qed.

Lemma core_leader_stays cfg i sv f l sv' out ltr :
  server_core cfg i sv f l = HR sv' out ltr -> s_role sv = Leader -> s_term sv' = s_term sv -> s_role sv' = Leader.
Proof.
  intros H Hl Ht. destruct l; core_cases H; ut_cases; cbn in *; try lia; auto.
  all: bprop; try lia; try discriminate; try (rewrite Hl in *; cbn in *; discriminate).
Qed.

Lemma core_apq_out cfg i sv f l sv' md d t prev prevT es c src dst ltr :
  server_core cfg i sv f l = HR sv' (Some (md, d, APQ t prev prevT es c src dst)) ltr ->
  s_role sv = Leader /\ t = s_term sv /\ s_log sv' = s_log sv /\ s_term sv' = s_term sv /\ s_role sv' = Leader /\
  es = skipn prev (s_log sv) /\ (prev = 0 \/ (0 < prev /\ term_at (s_log sv) prev = Some prevT)) /\ src = i.
Proof.
  intros H. destruct l; unfold_core H; repeat (destr_in H; try discriminate H); inversion H; subst; clear H.
  all: bprop; destruct (s_role sv) eqn:Er; try discriminate; cbn; repeat split; auto.
  all: try (left; lia); try (right; split; [lia|auto]).
Qed.

(* ---------- ghost state ---------- *)
Record ghost := mkGhost { gv : votes; gl : nat -> nat; tl : nat -> list entry }.
Definition ghost0 : ghost := mkGhost (fun _ _ => 0) (fun _ => 0) (fun _ => []).

Definition is_leader_in (s : state) (t j : nat) : bool :=
  role_eqb (s_role (srv s j)) Leader && (s_term (srv s j) =? t).
Definition leader_of (cfg : config) (s : state) (t : nat) : option nat := find (is_leader_in s t) (servers cfg).

Definition observe (cfg : config) (g : ghost) (s : state) : ghost :=
  mkGhost (observe_votes (gv g) s)
          (fun t => match leader_of cfg s t with Some j => j | None => gl g t end)
          (fun t => match leader_of cfg s t with Some j => s_log (srv s j) | None => tl g t end).

Inductive greach (cfg : config) : state -> ghost -> Prop :=
| gr_init : greach cfg (init cfg) ghost0
| gr_step s g ev s' : greach cfg s g -> step cfg s ev = Commit s' -> greach cfg s' (observe cfg g s').

Lemma greach_vreach cfg s g : greach cfg s g -> vreach cfg s (gv g).
Proof. induction 1; [constructor | cbn; econstructor; eauto]. Qed.
Lemma reachable_greach cfg s : reachable cfg s -> exists g, greach cfg s g.
Proof. induction 1 as [|s ev s' _ [g Hg] Hs]; [eexists; constructor | eexists; econstructor; eauto]. Qed.
Lemma greach_reachable cfg s g : greach cfg s g -> reachable cfg s.
Proof. intros H. eapply vreach_reachable, greach_vreach; eauto. Qed.

Lemma role_eqb_eq a b : role_eqb a b = true <-> a = b.
Proof. destruct a, b; cbn; split; congruence. Qed.

Lemma is_leader_in_spec s t j : is_leader_in s t j = true <-> s_role (srv s j) = Leader /\ s_term (srv s j) = t.
Proof.
  unfold is_leader_in. rewrite andb_true_iff, role_eqb_eq, Nat.eqb_eq. tauto.
Qed.

Lemma in_servers cfg j : In j (servers cfg) <-> is_server cfg j = true.
Proof.
  unfold servers, is_server. rewrite in_seq, andb_true_iff, !Nat.leb_le. lia.
Qed.

(* ---------- prefixes and the tree of leader logs ---------- *)
Definition tree_ok (tlf : nat -> list entry) (l : list entry) : Prop :=
  forall p e, nth_error l p = Some e -> firstn (S p) l = firstn (S p) (tlf (e_term e)).

Lemma is_prefix_refl {A} (l : list A) : is_prefix l l.
Proof. exists []. now rewrite app_nil_r. Qed.
Lemma is_prefix_app {A} (l r : list A) : is_prefix l (l ++ r).
Proof. now exists r. Qed.
Lemma is_prefix_trans {A} (a b c : list A) : is_prefix a b -> is_prefix b c -> is_prefix a c.
Proof. intros [x ->] [y ->]. exists (x ++ y). now rewrite app_assoc. Qed.
Lemma is_prefix_nth {A} (a b : list A) p x : is_prefix a b -> nth_error a p = Some x -> nth_error b p = Some x.
Proof. intros [r ->] H. rewrite nth_error_app1; auto. apply nth_error_Some. congruence. Qed.
Lemma is_prefix_firstn {A} (a b : list A) n : is_prefix a b -> n <= List.length a -> firstn n a = firstn n b.
Proof. intros [r ->] H. rewrite firstn_app. replace (n - List.length a) with 0 by lia. cbn. now rewrite app_nil_r. Qed.
Lemma is_prefix_length {A} (a b : list A) : is_prefix a b -> List.length a <= List.length b.
Proof. intros [r ->]. rewrite app_length. lia. Qed.
Lemma firstn_is_prefix {A} n (l : list A) : is_prefix (firstn n l) l.
Proof. exists (skipn n l). now rewrite firstn_skipn. Qed.

Lemma nth_error_lt {A} (l : list A) p x : nth_error l p = Some x -> p < List.length l.
Proof. intros H. apply nth_error_Some. congruence. Qed.

Lemma firstn_eq_length {A} n (a b : list A) : n <= List.length a -> firstn n a = firstn n b -> n <= List.length b.
Proof.
  intros Ha H. assert (E : List.length (firstn n a) = List.length (firstn n b)) by now rewrite H.
  rewrite !firstn_length in E. lia.
Qed.

(* a prefix of a path of the tree is a path of the tree *)
Lemma tree_ok_prefix tlf a b : is_prefix a b -> tree_ok tlf b -> tree_ok tlf a.
Proof.
  intros P T p e H. pose proof (nth_error_lt _ _ _ H) as Hp.
  rewrite (is_prefix_firstn a b (S p) P) by lia. apply T. eapply is_prefix_nth; eauto.
Qed.

Lemma term_at_nth l k t : term_at l k = Some t <-> exists e, 0 < k /\ nth_error l (k - 1) = Some e /\ e_term e = t.
Proof.
  unfold term_at, log_at. destruct k; cbn.
  - split; [discriminate | intros (e & H & _); lia].
  - rewrite Nat.sub_0_r. destruct (nth_error l k) as [e|]; cbn; split.
    + intros [= <-]. exists e. repeat split; auto. lia.
    + intros (e' & _ & [= <-] & <-). reflexivity.
    + discriminate.
    + intros (e' & _ & H & _). discriminate.
Qed.

(* ---------- the invariant ---------- *)
Definition apq_ok (g : ghost) (m : msg) : Prop :=
  match m with
  | APQ t prev prevT es _ _ _ =>
      gl g t <> 0 /\ is_prefix (firstn prev (tl g t) ++ es) (tl g t) /\ (prev = 0 \/ term_at (tl g t) prev = Some prevT)
  | _ => True
  end.

Record linv (cfg : config) (s : state) (g : ghost) : Prop := {
  G1 : forall t, gl g t <> 0 -> is_server cfg (gl g t) = true /\
         ((s_term (srv s (gl g t)) = t /\ s_role (srv s (gl g t)) = Leader) \/ t < s_term (srv s (gl g t)));
  G2 : forall j, is_server cfg j = true -> s_role (srv s j) = Leader -> gl g (s_term (srv s j)) = j;
  G6 : forall t, gl g t <> 0 -> exists Q, NoDup Q /\ incl Q (seq 1 (cfg_n cfg)) /\ cfg_n cfg < List.length Q * 2 /\
         forall v, In v Q -> gv g v t = gl g t;
  T0 : forall j, is_server cfg j = true -> s_role (srv s j) = Leader -> s_log (srv s j) = tl g (s_term (srv s j));
  T1 : forall t, tree_ok (tl g) (tl g t);
  T2 : forall i, tree_ok (tl g) (s_log (srv s i));
  T3n : forall d m, In m (net s d) -> apq_ok g m;
  T3m : forall i m, s_m (srv s i) = Some m -> apq_ok g m;
  T5 : forall t, gl g t = 0 -> tl g t = []
}.

Lemma role_term_log_cases cfg s ev s' i : step cfg s ev = Commit s' ->
  (s_role (srv s' i) = s_role (srv s i) /\ s_term (srv s' i) = s_term (srv s i) /\ s_log (srv s' i) = s_log (srv s i) /\
   s_vgrant (srv s' i) = s_vgrant (srv s i) /\ s_m (srv s' i) = s_m (srv s i) ) \/
  (exists m, s_role (srv s' i) = s_role (srv s i) /\ s_term (srv s' i) = s_term (srv s i) /\ s_log (srv s' i) = s_log (srv s i) /\
   s_vgrant (srv s' i) = s_vgrant (srv s i) /\ s_m (srv s' i) = Some m /\ In m (net s i)) \/
  (exists l out ltr, is_server cfg i = true /\ server_core cfg i (srv s i) (check_fail cfg s i) l = HR (srv s' i) out ltr).
Proof.
  intros H. destruct (step_shape_of _ _ _ _ H).
  - rewrite Hsrv. destruct (Nat.eq_dec i i0) as [->|Hn].
    + rewrite upd_same. right. right. eauto.
    + rewrite upd_other by auto. left. auto.
  - rewrite Hsrv. destruct (Nat.eq_dec i i0) as [->|Hn].
    + rewrite upd_same. right. left. exists m. cbn. repeat split; auto. eapply nth_error_In; eauto.
    + rewrite upd_other by auto. left. auto.
  - rewrite Hsrv. left. auto.
  - rewrite Hsrv. left. auto.
Qed.

Lemma ghost_step cfg s g ev s' :
  einv cfg s (gv g) -> linv cfg s g -> step cfg s ev = Commit s' ->
  forall t,
    (leader_of cfg s' t = None /\ gl (observe cfg g s') t = gl g t /\ tl (observe cfg g s') t = tl g t) \/
    (exists i, leader_of cfg s' t = Some i /\ is_server cfg i = true /\
       s_role (srv s' i) = Leader /\ s_term (srv s' i) = t /\
       gl (observe cfg g s') t = i /\ tl (observe cfg g s') t = s_log (srv s' i) /\
       ((gl g t = i /\ s_role (srv s i) = Leader /\ s_term (srv s i) = t /\ tl g t = s_log (srv s i)) \/
        (gl g t = 0 /\ s_role (srv s i) = Candidate /\ s_term (srv s i) = t /\ s_log (srv s' i) = s_log (srv s i) /\
         is_quorum cfg (s_vgrant (srv s i)) = true))).
Proof.
  intros IE I H t. cbn. destruct (leader_of cfg s' t) as [i|] eqn:E; [right|left; auto].
  unfold leader_of in E. apply find_some in E as [Hin Hl]. apply in_servers in Hin. apply is_leader_in_spec in Hl as [Hr Ht].
  exists i. repeat split; auto.
  destruct (role_term_log_cases _ _ _ _ i H) as [(A & B & C & _)|[(m & A & B & C & _)|(l & out & ltr & _ & Hc)]].
  - left. rewrite A in Hr. rewrite B in Ht. repeat split; auto.
    + rewrite <- Ht. apply (G2 _ _ _ I); auto.
    + rewrite <- Ht. symmetry. apply (T0 _ _ _ I); auto.
  - left. rewrite A in Hr. rewrite B in Ht. repeat split; auto.
    + rewrite <- Ht. apply (G2 _ _ _ I); auto.
    + rewrite <- Ht. symmetry. apply (T0 _ _ _ I); auto.
  - destruct (core_leader_cases _ _ _ _ _ _ _ _ Hc Hr) as [[A B]|(A & B & Q & C & D)].
    + left. rewrite B in Ht. repeat split; auto.
      * rewrite <- Ht. apply (G2 _ _ _ I); auto.
      * rewrite <- Ht. symmetry. apply (T0 _ _ _ I); auto.
    + right. rewrite B in Ht. repeat split; auto.
      destruct (Nat.eq_dec (gl g t) 0) as [|Hne]; auto. exfalso.
      destruct (G1 _ _ _ I t Hne) as [Hs Hcase].
      destruct (G6 _ _ _ I t Hne) as (Qj & N & Inc & Hq & Hv).
      assert (Rc : s_role (srv s i) <> Follower) by congruence.
      unfold is_quorum in Q. apply Nat.ltb_lt in Q.
      destruct (quorum_intersect (cfg_n cfg) (s_vgrant (srv s i)) Qj) as (v & V1 & V2); auto.
      * apply ssorted_NoDup, (E7 _ _ _ IE).
      * intros v Hv'. apply is_server_in_seq. eapply (E4 _ _ _ IE i Hin Rc v Hv').
      * destruct (E4 _ _ _ IE i Hin Rc v V1) as [Ea _]. rewrite Ht in Ea. rewrite (Hv v V2) in Ea.
        rewrite Ea in Hcase. destruct Hcase as [[_ X]|X]; [congruence|lia].
Qed.

Lemma log_prefix_leader cfg s ev s' i : step cfg s ev = Commit s' ->
  s_role (srv s i) = Leader -> s_role (srv s' i) = Leader -> is_prefix (s_log (srv s i)) (s_log (srv s' i)).
Proof.
  intros H A B. destruct (role_term_log_cases _ _ _ _ i H) as [(_ & _ & C & _)|[(m & _ & _ & C & _)|(l & out & ltr & _ & Hc)]].
  - rewrite C. apply is_prefix_refl.
  - rewrite C. apply is_prefix_refl.
  - destruct (core_log_cases _ _ _ _ _ _ _ _ Hc) as [C|[(_ & _ & _ & c & j & C)|(mt & prev & prevT & es & mc & j & d & _ & R & _)]].
    + rewrite C. apply is_prefix_refl.
    + rewrite C. apply is_prefix_app.
    + congruence.
Qed.

Section GhostStep.
  Variables (cfg : config) (s : state) (g : ghost) (ev : event) (s' : state).
  Hypothesis IE : einv cfg s (gv g).
  Hypothesis I : linv cfg s g.
  Hypothesis H : step cfg s ev = Commit s'.
  Let g' := observe cfg g s'.

  Lemma tl_grows t : is_prefix (tl g t) (tl g' t).
  Proof.
    destruct (ghost_step _ _ _ _ _ IE I H t) as [(_ & _ & E)|(i & _ & Hi & Hr & Ht & _ & E & [(A & B & C & D)|(A & _)])];
      fold g' in E; rewrite E.
    - apply is_prefix_refl.
    - rewrite D. eapply log_prefix_leader; eauto.
    - rewrite (T5 _ _ _ I t A). exists (s_log (srv s' i)). reflexivity.
  Qed.

  Lemma gl_persist t : gl g t <> 0 -> gl g' t = gl g t.
  Proof.
    intros Hne.
    destruct (ghost_step _ _ _ _ _ IE I H t) as [(_ & E & _)|(i & _ & Hi & Hr & Ht & E & _ & [(A & _)|(A & _)])];
      fold g' in E; rewrite E; congruence.
  Qed.

  Lemma gv_extends : extends (gv g) (gv g').
  Proof. unfold g'. cbn. eapply observe_extends; eauto. Qed.
End GhostStep.

Lemma tree_ok_grow (tl1 tl2 : nat -> list entry) X :
  (forall t, is_prefix (tl1 t) (tl2 t)) -> tree_ok tl1 X -> tree_ok tl2 X.
Proof.
  intros P T p e Hn. rewrite (T p e Hn). apply is_prefix_firstn; auto.
  eapply firstn_eq_length; [|apply (T p e Hn)]. pose proof (nth_error_lt _ _ _ Hn). lia.
Qed.

Lemma prefix_firstn_grow {A} n (a b es : list A) :
  is_prefix (firstn n a ++ es) a -> is_prefix a b -> is_prefix (firstn n b ++ es) b.
Proof.
  intros P Q. destruct (Nat.le_gt_cases n (List.length a)) as [Hle|Hgt].
  - rewrite <- (is_prefix_firstn a b n Q Hle). eapply is_prefix_trans; eauto.
  - rewrite firstn_all2 in P by lia.
    assert (es = []).
    { apply is_prefix_length in P. rewrite app_length in P. destruct es; auto. cbn in P. lia. }
    subst. rewrite app_nil_r. apply firstn_is_prefix.
Qed.

Lemma term_at_prefix a b k t : is_prefix a b -> term_at a k = Some t -> term_at b k = Some t.
Proof.
  intros P. rewrite !term_at_nth. intros (e & A & B & C). exists e. repeat split; auto. eapply is_prefix_nth; eauto.
Qed.

Lemma apq_ok_grow (g g' : ghost) m :
  (forall t, is_prefix (tl g t) (tl g' t)) -> (forall t, gl g t <> 0 -> gl g' t = gl g t) -> apq_ok g m -> apq_ok g' m.
Proof.
  intros P Q. destruct m; cbn; auto. intros (A & B & C). repeat split.
  - rewrite Q; auto.
  - eapply prefix_firstn_grow; eauto.
  - destruct C as [C|C]; auto. right. eapply term_at_prefix; eauto.
Qed.

Lemma accept_log cfg s g i mt prev prevT es mc j d :
  linv cfg s g -> s_m (srv s i) = Some (APQ mt prev prevT es mc j d) ->
  (prev = 0 \/ (0 < prev /\ term_at (s_log (srv s i)) prev = Some prevT)) ->
  firstn prev (s_log (srv s i)) = firstn prev (tl g mt) /\ is_prefix (firstn prev (s_log (srv s i)) ++ es) (tl g mt).
Proof.
  intros I Hm Hok. pose proof (T3m _ _ _ I _ _ Hm) as (A & B & C). cbn in *.
  assert (E : firstn prev (s_log (srv s i)) = firstn prev (tl g mt)).
  { destruct Hok as [->|[Hp Ht]]; [reflexivity|].
    destruct C as [->|C]; [lia|].
    apply term_at_nth in Ht as (e1 & _ & N1 & T1'). apply term_at_nth in C as (e2 & _ & N2 & T2').
    pose proof (T2 _ _ _ I i _ _ N1) as X1. pose proof (T1 _ _ _ I mt _ _ N2) as X2.
    replace (S (prev - 1)) with prev in * by lia. rewrite X1, X2. congruence. }
  split; auto. rewrite E. exact B.
Qed.

Section LinvStep.
  Variables (cfg : config) (s : state) (g : ghost) (ev : event) (s' : state).
  Hypothesis IE : einv cfg s (gv g).
  Hypothesis I : linv cfg s g.
  Hypothesis H : step cfg s ev = Commit s'.
  Hypothesis R' : reachable cfg s'.
  Let g' := observe cfg g s'.

  Lemma leader_unique i j : is_server cfg i = true -> is_server cfg j = true ->
    s_role (srv s' i) = Leader -> s_role (srv s' j) = Leader -> s_term (srv s' i) = s_term (srv s' j) -> i = j.
  Proof.
    intros Hi Hj Li Lj Ht. destruct (Nat.eq_dec i j); auto. exfalso.
    apply (election_safety_lemma _ _ R'). exists i, j. repeat split; auto.
  Qed.

  Lemma leader_tl i : is_server cfg i = true -> s_role (srv s' i) = Leader ->
    gl g' (s_term (srv s' i)) = i /\ tl g' (s_term (srv s' i)) = s_log (srv s' i).
  Proof.
    intros Hi Li.
    destruct (ghost_step _ _ _ _ _ IE I H (s_term (srv s' i))) as [(E & _)|(j & _ & Hj & Lj & Tj & A & B & _)].
    - exfalso. unfold leader_of in E. eapply find_none in E; [|apply in_servers; eauto].
      assert (is_leader_in s' (s_term (srv s' i)) i = true) by (apply is_leader_in_spec; auto). congruence.
    - fold g' in A, B. assert (Eji : j = i) by (apply leader_unique; auto). rewrite Eji in *. auto.
  Qed.

  Lemma T2_step i : tree_ok (tl g') (s_log (srv s' i)).
  Proof.
    pose proof (tl_grows _ _ _ _ _ IE I H) as Grow. fold g' in Grow.
    destruct (role_term_log_cases _ _ _ _ i H) as [(_ & _ & C & _)|[(m & _ & _ & C & _)|(l & out & ltr & Hi & Hc)]].
    - rewrite C. eapply tree_ok_grow; eauto. apply (T2 _ _ _ I).
    - rewrite C. eapply tree_ok_grow; eauto. apply (T2 _ _ _ I).
    - destruct (core_log_cases _ _ _ _ _ _ _ _ Hc) as [C|[(Rl & Rl' & Tt & c & j & C)|(mt & prev & prevT & es & mc & j & d & Hm & Rf & Tm & Hok & C)]].
      + rewrite C. eapply tree_ok_grow; eauto. apply (T2 _ _ _ I).
      + (* the leader appends an entry of its own term *)
        destruct (leader_tl i Hi Rl') as [_ Etl]. intros p e Hn.
        destruct (Nat.lt_ge_cases p (List.length (s_log (srv s i)))) as [Hlt|Hge].
        * assert (Hn0 : nth_error (s_log (srv s i)) p = Some e).
          { rewrite C in Hn. rewrite nth_error_app1 in Hn; auto. }
          rewrite <- (is_prefix_firstn (s_log (srv s i)) (s_log (srv s' i)) (S p)); [|rewrite C; apply is_prefix_app|lia].
          eapply (tree_ok_grow (tl g) (tl g')); eauto. apply (T2 _ _ _ I).
        * rewrite C in Hn. rewrite nth_error_app2 in Hn by lia.
          destruct (p - List.length (s_log (srv s i))) as [|q] eqn:Eq; cbn in Hn; [|destruct q; discriminate].
          injection Hn as <-. cbn [e_term]. rewrite <- Tt, Etl. reflexivity.
      + (* a follower accepts AppendEntries *)
        destruct (accept_log _ _ _ _ _ _ _ _ _ _ _ I Hm Hok) as [_ P]. rewrite C.
        eapply tree_ok_grow; eauto. eapply tree_ok_prefix; eauto. apply (T1 _ _ _ I).
  Qed.

  Lemma T1_step t : tree_ok (tl g') (tl g' t).
  Proof.
    destruct (ghost_step _ _ _ _ _ IE I H t) as [(_ & _ & E)|(i & _ & Hi & Hr & Ht & _ & E & _)]; fold g' in E; rewrite E.
    - eapply tree_ok_grow; [apply (tl_grows _ _ _ _ _ IE I H)|]. apply (T1 _ _ _ I).
    - apply T2_step.
  Qed.

  Lemma apq_ok_keep m : apq_ok g m -> apq_ok g' m.
  Proof.
    apply apq_ok_grow; [apply (tl_grows _ _ _ _ _ IE I H) | apply (gl_persist _ _ _ _ _ IE I H)].
  Qed.

  Lemma out_apq_ok i l out ltr md d m :
    is_server cfg i = true ->
    server_core cfg i (srv s i) (check_fail cfg s i) l = HR (srv s' i) out ltr -> out = Some (md, d, m) -> apq_ok g' m.
  Proof.
    intros Hi Hc ->. destruct m; try exact Logic.I. unfold apq_ok.
    destruct (core_apq_out _ _ _ _ _ _ _ _ _ _ _ _ _ _ _ _ Hc) as (Rl & -> & El & Et & Rl' & -> & Hp & ->).
    destruct (leader_tl i Hi Rl') as [Eg Etl]. rewrite Et in Eg, Etl. rewrite Eg, Etl, El.
    repeat split.
    - apply (is_server_pos _ _ Hi).
    - rewrite firstn_skipn. apply is_prefix_refl.
    - destruct Hp as [Hp|[_ Hp]]; auto.
  Qed.

  Lemma T3n_step d m : In m (net s' d) -> apq_ok g' m.
  Proof.
    intros Hin. destruct (step_shape_of _ _ _ _ H).
    - destruct Hnet as [Hn|(md & d0 & m0 & -> & Hn & _)]; rewrite Hn in Hin.
      + apply apq_ok_keep. eapply T3n; eauto.
      + unfold upd in Hin. destruct (d =? d0).
        * apply in_app_iff in Hin as [Hin|[<-|[]]].
          -- apply apq_ok_keep. eapply T3n; eauto.
          -- eapply (out_apq_ok i l); eauto. rewrite Hsrv, upd_same. exact Hcore.
        * apply apq_ok_keep. eapply T3n; eauto.
    - rewrite Hnet in Hin. unfold upd in Hin. apply apq_ok_keep. destruct (d =? i) eqn:Ed.
      + apply In_remove_nth in Hin. apply Nat.eqb_eq in Ed. subst. eapply T3n; eauto.
      + eapply T3n; eauto.
    - destruct Hnet as [Hn|[(d0 & m0 & Hn & _ & _ & (cm & ->))|(k & Hn)]]; rewrite Hn in Hin.
      + apply apq_ok_keep. eapply T3n; eauto.
      + unfold upd in Hin. destruct (d =? d0).
        * apply in_app_iff in Hin as [Hin|[<-|[]]]; [|exact Logic.I]. apply apq_ok_keep. eapply T3n; eauto.
        * apply apq_ok_keep. eapply T3n; eauto.
      + unfold upd in Hin. apply apq_ok_keep. destruct (d =? c) eqn:Ed.
        * apply In_remove_nth in Hin. apply Nat.eqb_eq in Ed. subst. eapply T3n; eauto.
        * eapply T3n; eauto.
    - rewrite Hnet in Hin. apply apq_ok_keep. eapply T3n; eauto.
  Qed.

  Lemma T3m_step i m : s_m (srv s' i) = Some m -> apq_ok g' m.
  Proof.
    intros Hm. destruct (role_term_log_cases _ _ _ _ i H) as [(_ & _ & _ & _ & C)|[(m0 & _ & _ & _ & _ & C & Hin)|(l & out & ltr & Hi & Hc)]].
    - rewrite C in Hm. apply apq_ok_keep. eapply T3m; eauto.
    - rewrite C in Hm. injection Hm as <-. apply apq_ok_keep. eapply T3n; eauto.
    - rewrite (core_m_stable _ _ _ _ _ _ _ _ Hc) in Hm. apply apq_ok_keep. eapply T3m; eauto.
  Qed.

  Lemma linv_step : linv cfg s' g'.
  Proof.
    constructor.
    - (* G1 *)
      intros t Hne.
      destruct (ghost_step _ _ _ _ _ IE I H t) as [(En & E & _)|(i & _ & Hi & Hr & Ht & E & _)]; fold g' in E; rewrite E in *.
      + destruct (G1 _ _ _ I t Hne) as [Hs [[A B]|A]]; split; auto.
        * set (j := gl g t) in *. pose proof (term_monotone_step _ _ _ _ j H) as Hm.
          destruct (Nat.eq_dec (s_term (srv s' j)) t) as [Et|]; [|right; lia].
          exfalso. assert (Lj : s_role (srv s' j) = Leader).
          { destruct (step_srv_cases _ _ _ _ H j) as [Es|[(l & out & ltr & _ & Ec)|(m & Es)]].
            - now rewrite Es.
            - eapply core_leader_stays; eauto. lia.
            - rewrite Es. exact B. }
          unfold leader_of in En. eapply find_none in En; [|apply in_servers; eauto].
          assert (is_leader_in s' t j = true) by (apply is_leader_in_spec; auto). congruence.
        * right. pose proof (term_monotone_step _ _ _ _ (gl g t) H). lia.
      + split; auto.
    - (* G2 *) intros j Hj Lj. apply leader_tl; auto.
    - (* G6 *)
      intros t Hne.
      destruct (ghost_step _ _ _ _ _ IE I H t) as [(_ & E & _)|(i & _ & Hi & Hr & Ht & E & _ & [(A & _)|(A & B & C & _ & Q)])];
        fold g' in E; rewrite E in *.
      + destruct (G6 _ _ _ I t Hne) as (Q & N & Inc & Hq & Hv). exists Q. repeat split; auto.
        intros v Hv'. rewrite (gv_extends _ _ _ _ _ IE H); auto. rewrite Hv; auto.
      + assert (Hne' : gl g t <> 0) by (rewrite A; apply (is_server_pos _ _ Hi)).
        destruct (G6 _ _ _ I t Hne') as (Q & N & Inc & Hq & Hv). exists Q. repeat split; auto.
        intros v Hv'. rewrite (gv_extends _ _ _ _ _ IE H); rewrite Hv; auto.
      + assert (Rc : s_role (srv s i) <> Follower) by congruence.
        exists (s_vgrant (srv s i)). repeat split.
        * apply ssorted_NoDup, (E7 _ _ _ IE).
        * intros v Hv'. apply is_server_in_seq. eapply (E4 _ _ _ IE i Hi Rc v Hv').
        * unfold is_quorum in Q. now apply Nat.ltb_lt in Q.
        * intros v Hv'. destruct (E4 _ _ _ IE i Hi Rc v Hv') as [Ea _]. rewrite C in Ea.
          rewrite (gv_extends _ _ _ _ _ IE H); auto. rewrite Ea. apply (is_server_pos _ _ Hi).
    - (* T0 *) intros j Hj Lj. symmetry. apply leader_tl; auto.
    - apply T1_step.
    - apply T2_step.
    - apply T3n_step.
    - apply T3m_step.
    - (* T5 *)
      intros t Hz.
      destruct (ghost_step _ _ _ _ _ IE I H t) as [(_ & E & E2)|(i & _ & Hi & Hr & Ht & E & _)]; fold g' in E; rewrite E in *.
      + fold g' in E2. rewrite E2. apply (T5 _ _ _ I); auto.
      + exfalso. apply (is_server_pos _ _ Hi). auto.
  Qed.
End LinvStep.

Lemma linv_init cfg : linv cfg (init cfg) ghost0.
Proof.
  constructor; cbn; try congruence; try tauto; try discriminate.
  all: intros ? p e Hn; destruct p; discriminate.
Qed.

Lemma greach_linv cfg s g : greach cfg s g -> linv cfg s g.
Proof.
  induction 1; [apply linv_init|].
  eapply linv_step; eauto.
  - eapply vreach_einv, greach_vreach; eauto.
  - eapply reach_step; [eapply greach_reachable; eauto | eauto].
Qed.

(* LogMatching == \A i, j \in ServerSet: \A k \in 1..Min({Len(log[i]), Len(log[j])}):
                    log[i][k].term = log[j][k].term => SubSeq(log[i], 1, k) = SubSeq(log[j], 1, k) *)
Theorem log_matching_lemma cfg s :
  reachable cfg s ->
  forall i j k, is_server cfg i = true -> is_server cfg j = true ->
    1 <= k -> k <= Nat.min (List.length (s_log (srv s i))) (List.length (s_log (srv s j))) ->
    term_at (s_log (srv s i)) k = term_at (s_log (srv s j)) k ->
    firstn k (s_log (srv s i)) = firstn k (s_log (srv s j)).
Proof.
  intros Hr i j k _ _ Hk1 Hk2 Ht.
  destruct (reachable_greach _ _ Hr) as [g Hg]. pose proof (greach_linv _ _ _ Hg) as I.
  destruct (nth_error (s_log (srv s i)) (k - 1)) as [e1|] eqn:N1; [|apply nth_error_None in N1; lia].
  destruct (nth_error (s_log (srv s j)) (k - 1)) as [e2|] eqn:N2; [|apply nth_error_None in N2; lia].
  assert (T1' : term_at (s_log (srv s i)) k = Some (e_term e1)) by (apply term_at_nth; exists e1; repeat split; auto; lia).
  assert (T2' : term_at (s_log (srv s j)) k = Some (e_term e2)) by (apply term_at_nth; exists e2; repeat split; auto; lia).
  pose proof (T2 _ _ _ I i _ _ N1) as X1. pose proof (T2 _ _ _ I j _ _ N2) as X2.
  replace (S (k - 1)) with k in * by lia. rewrite X1, X2. congruence.
Qed.
