(* C08 — towards leader completeness (per-link FIFO delivery). Part A: acknowledgements, ordering of AppendEntries in flight,
   sortedness of terms, matchIndex. Ghost: ack v t = the longest prefix of the log of the leader of term t that v has
   acknowledged in term t (largest mmatchIndex of a successful AppendEntriesResponse of v ever in the network, or the length of
   its own log while v is the leader of t). *)
From PGV Require Import C08.Model C08.Proofs1 C08.Proofs2 C08.Proofs3.
From Coq Require Import Lia.

(* ---------- more per-label facts ---------- *)
Lemma core_app_out cfg i sv f l sv' md d t n src dst ltr :
  server_core cfg i sv f l = HR sv' (Some (md, d, APP t true n src dst)) ltr ->
  exists prev prevT es mc j dd,
    s_m sv = Some (APQ t prev prevT es mc j dd) /\ s_role sv' = Follower /\ s_term sv' = t /\
    (prev = 0 \/ (0 < prev /\ term_at (s_log sv) prev = Some prevT)) /\
    s_log sv' = firstn prev (s_log sv) ++ es /\ n = prev + List.length es /\ src = i /\ d = j /\ dst = j /\
    mc <= List.length (s_log sv') /\ s_commit sv' = Nat.max (s_commit sv) mc /\ s_term sv <= t.
Proof.
  intros H. destruct l; unfold_core H; repeat (destr_in H; try discriminate H); inversion H; subst; clear H.
  all: ut_cases; cbn in *; bprop; subst; cbn in *; try discriminate; try lia.
  all: eexists _, _, _, _, _, _; split; [reflexivity|]; repeat split; auto; try lia.
  all: try (destruct (s_role sv); cbn in *; try discriminate; reflexivity).
  all: try (right; split; [lia|]; destruct (term_at (s_log sv) mprevLogIndex); try discriminate; bprop; congruence).
Qed.

Lemma core_apq_dst cfg i sv f l sv' md d t prev prevT es c src dst ltr :
  server_core cfg i sv f l = HR sv' (Some (md, d, APQ t prev prevT es c src dst)) ltr ->
  d = dst /\ dst <> src /\ c = s_commit sv /\ prev <= List.length (s_log sv).
Proof.
  intros H. destruct l; unfold_core H; repeat (destr_in H; try discriminate H); inversion H; subst; clear H.
  all: bprop; repeat split; auto.
  all: destruct (0 <? s_next sv (s_idx2 sv) - 1) eqn:E; bprop; try lia.
  all: match goal with H : term_at _ _ = Some _ |- _ => apply term_at_nth in H as (e & _ & Hn & _); apply nth_error_lt in Hn; lia end.
Qed.

Lemma core_match_cases cfg i sv f l sv' out ltr :
  server_core cfg i sv f l = HR sv' out ltr -> s_role sv' = Leader ->
  (s_match sv' = s_match sv /\ s_role sv = Leader /\ s_term sv' = s_term sv) \/
  (s_role sv = Candidate /\ forall v, s_match sv' v = 0) \/
  (exists mi j d, s_m sv = Some (APP (s_term sv') true mi j d) /\ s_role sv = Leader /\ s_term sv' = s_term sv /\
                  s_match sv' = upd (s_match sv) j mi).
Proof.
  intros H Hl. destruct l; core_cases H; ut_cases; cbn in *; try discriminate; auto.
  all: bprop; subst; try discriminate; try lia.
  all: destruct (s_role sv) eqn:Er; cbn in *; try discriminate; auto.
  all: try (right; right; eexists _, _, _; repeat split; eauto; fail).
Qed.

(* ---------- ghost: acknowledgements ---------- *)
Definition acks := nat -> nat -> nat.

Definition app_ack (v t : nat) (m : msg) : nat :=
  match m with
  | APP t' true n v' _ => if (t' =? t) && (v' =? v) then n else 0
  | _ => 0
  end.
Definition list_max_by {A} (f : A -> nat) (l : list A) : nat := fold_right (fun x acc => Nat.max (f x) acc) 0 l.
Definition net_ack (cfg : config) (s : state) (v t : nat) : nat :=
  list_max_by (fun d => list_max_by (app_ack v t) (net s d)) (servers cfg).
Definition lead_ack (s : state) (v t : nat) : nat :=
  if is_leader_in s t v then List.length (s_log (srv s v)) else 0.
(* v handled an AppendEntriesRequest of term t in this step and accepted it (seen from the states before and after) *)
Fixpoint entries_eqb (l1 l2 : list entry) : bool :=
  match l1, l2 with
  | [], [] => true
  | x :: r1, y :: r2 => entry_eqb x y && entries_eqb r1 r2
  | _, _ => false
  end.
Definition apq_accepted (sv sv' : server) (t : nat) : nat :=
  match s_m sv with
  | Some (APQ mt prev prevT es _ _ _) =>
      if s_pc0 sv && negb (s_pc0 sv') && (mt =? t) && (s_term sv' =? t) && role_eqb (s_role sv') Follower
         && ((prev =? 0) || ((0 <? prev) && match term_at (s_log sv) prev with Some x => prevT =? x | None => false end))
         && entries_eqb (s_log sv') (firstn prev (s_log sv) ++ es)
      then prev + List.length es else 0
  | _ => 0
  end.
Definition observe_ack (cfg : config) (a : acks) (s s' : state) : acks :=
  fun v t => Nat.max (a v t) (Nat.max (net_ack cfg s' v t) (Nat.max (lead_ack s' v t) (apq_accepted (srv s v) (srv s' v) t))).

Inductive areach (cfg : config) : state -> ghost -> acks -> Prop :=
| ar_init : areach cfg (init cfg) ghost0 (fun _ _ => 0)
| ar_step s g a ev s' : areach cfg s g a -> step cfg s ev = Commit s' ->
                        areach cfg s' (observe cfg g s') (observe_ack cfg a s s').

Lemma areach_greach cfg s g a : areach cfg s g a -> greach cfg s g.
Proof. induction 1; [constructor | econstructor; eauto]. Qed.
Lemma reachable_areach cfg s : reachable cfg s -> exists g a, areach cfg s g a.
Proof. induction 1 as [|s ev s' _ (g & a & Hg) Hs]; [eexists _, _; constructor | eexists _, _; econstructor; eauto]. Qed.

Lemma entry_eqb_eq x y : entry_eqb x y = true -> x = y.
Proof.
  destruct x as [t1 [i1 ty1 k1 v1] c1], y as [t2 [i2 ty2 k2 v2] c2]. unfold entry_eqb, cmd_eqb. cbn. intros H.
  repeat match goal with H : (_ && _) = true |- _ => apply andb_prop in H as [? ?] end.
  repeat match goal with H : (_ =? _) = true |- _ => apply Nat.eqb_eq in H end.
  assert (ty1 = ty2) by (destruct ty1, ty2; cbn in *; congruence). congruence.
Qed.
Lemma entries_eqb_eq l1 l2 : entries_eqb l1 l2 = true -> l1 = l2.
Proof.
  revert l2; induction l1 as [|x r IH]; destruct l2 as [|y r2]; cbn; try discriminate; auto.
  intros H. apply andb_prop in H as [H1 H2]. f_equal; [now apply entry_eqb_eq | now apply IH].
Qed.

Lemma accepted_facts sv sv' t k : 1 <= k -> k <= apq_accepted sv sv' t ->
  exists prev prevT es mc j dd,
    s_m sv = Some (APQ t prev prevT es mc j dd) /\ s_pc0 sv = true /\ s_pc0 sv' = false /\
    s_role sv' = Follower /\ s_term sv' = t /\
    (prev = 0 \/ (0 < prev /\ term_at (s_log sv) prev = Some prevT)) /\
    s_log sv' = firstn prev (s_log sv) ++ es /\ k <= prev + List.length es.
Proof.
  intros Hk1 Hk. unfold apq_accepted in Hk. destruct (s_m sv) as [m|]; [|lia]. destruct m; try lia.
  match type of Hk with context [if ?c then _ else _] => destruct c eqn:E end; [|lia].
  repeat match goal with H : (_ && _) = true |- _ => apply andb_prop in H as [? ?] end.
  exists mprevLogIndex, mprevLogTerm, mentries, mcommitIndex, msource, mdest.
  repeat match goal with H : (_ =? _) = true |- _ => apply Nat.eqb_eq in H end.
  subst. apply negb_true_iff in H5. apply role_eqb_eq in H2. apply entries_eqb_eq in H0.
  repeat split; auto.
  apply orb_prop in H1 as [H1|H1]; [left; now apply Nat.eqb_eq in H1|right].
  apply andb_prop in H1 as [A B]. apply Nat.ltb_lt in A. split; auto.
  destruct (term_at (s_log sv) mprevLogIndex); [|discriminate]. apply Nat.eqb_eq in B. congruence.
Qed.

Lemma max_ge_l a b c : c <= a -> c <= Nat.max a b. Proof. lia. Qed.
Lemma max_ge_r a b c : c <= b -> c <= Nat.max a b. Proof. lia. Qed.
Lemma max_le a b c : a <= c -> b <= c -> Nat.max a b <= c. Proof. lia. Qed.

Lemma list_max_by_ge {A} (f : A -> nat) l x : In x l -> f x <= list_max_by f l.
Proof.
  induction l as [|y r IH]; cbn [In list_max_by fold_right]; [tauto|].
  intros [->|H]; [apply max_ge_l; lia | apply max_ge_r; apply IH; exact H].
Qed.
Lemma list_max_by_le {A} (f : A -> nat) l b : (forall x, In x l -> f x <= b) -> list_max_by f l <= b.
Proof.
  induction l as [|y r IH]; cbn [In list_max_by fold_right]; intros H; [lia|].
  apply max_le; [apply H; now left | apply IH; intros x Hx; apply H; now right].
Qed.

Lemma observe_ack_mono cfg a s0 s v t : a v t <= observe_ack cfg a s0 s v t.
Proof. unfold observe_ack. lia. Qed.
Lemma observe_ack_net cfg a s0 s d m v t :
  is_server cfg d = true -> In m (net s d) -> app_ack v t m <= observe_ack cfg a s0 s v t.
Proof.
  intros Hd Hin. unfold observe_ack, net_ack.
  pose proof (list_max_by_ge (app_ack v t) (net s d) m Hin).
  pose proof (list_max_by_ge (fun d => list_max_by (app_ack v t) (net s d)) (servers cfg) d (proj2 (in_servers cfg d) Hd)).
  cbn beta in *. lia.
Qed.
Lemma observe_ack_lead cfg a s0 s v : s_role (srv s v) = Leader ->
  List.length (s_log (srv s v)) <= observe_ack cfg a s0 s v (s_term (srv s v)).
Proof.
  intros Hl. unfold observe_ack, lead_ack.
  assert (is_leader_in s (s_term (srv s v)) v = true) as -> by (apply is_leader_in_spec; auto). lia.
Qed.
Lemma observe_ack_le cfg a s0 s v t b :
  a v t <= b ->
  (forall d m, is_server cfg d = true -> In m (net s d) -> app_ack v t m <= b) ->
  (s_role (srv s v) = Leader -> s_term (srv s v) = t -> List.length (s_log (srv s v)) <= b) ->
  apq_accepted (srv s0 v) (srv s v) t <= b ->
  observe_ack cfg a s0 s v t <= b.
Proof.
  intros Ha Hn Hl Hacc. unfold observe_ack, net_ack, lead_ack.
  assert (list_max_by (fun d => list_max_by (app_ack v t) (net s d)) (servers cfg) <= b).
  { apply list_max_by_le. intros d Hd. apply list_max_by_le. intros m Hm. apply (Hn d m); auto. now apply in_servers. }
  destruct (is_leader_in s t v) eqn:E.
  - apply is_leader_in_spec in E as [E1 E2]. specialize (Hl E1 E2). lia.
  - lia.
Qed.

(* ---------- how the leader logs change in one step ---------- *)
Lemma tl_step_cases cfg s g ev s' :
  einv cfg s (gv g) -> linv cfg s g -> step cfg s ev = Commit s' ->
  forall t,
    (tl (observe cfg g s') t = tl g t /\ gl (observe cfg g s') t = gl g t) \/
    (exists e, tl (observe cfg g s') t = tl g t ++ [e] /\ e_term e = t /\ gl g t <> 0 /\ gl (observe cfg g s') t = gl g t /\
               s_role (srv s (gl g t)) = Leader /\ s_term (srv s (gl g t)) = t) \/
    (gl g t = 0 /\ tl g t = [] /\
     exists i, is_server cfg i = true /\ gl (observe cfg g s') t = i /\ s_role (srv s i) = Candidate /\ s_term (srv s i) = t /\
               tl (observe cfg g s') t = s_log (srv s i) /\ s_log (srv s' i) = s_log (srv s i) /\
               s_role (srv s' i) = Leader /\ s_term (srv s' i) = t /\ is_quorum cfg (s_vgrant (srv s i)) = true).
Proof.
  intros IE I H t.
  destruct (ghost_step _ _ _ _ _ IE I H t) as [(_ & A & B)|(i & _ & Hi & Hr & Ht & A & B & [(C & D & E & F)|(C & D & E & F & Q)])].
  - left. auto.
  - rewrite A, B. rewrite C in *. rewrite F.
    destruct (role_term_log_cases _ _ _ _ i H) as [(_ & _ & X & _)|[(m & _ & _ & X & _)|(l & out & ltr & _ & Hc)]].
    + left. rewrite X. auto.
    + left. rewrite X. auto.
    + destruct (core_log_cases _ _ _ _ _ _ _ _ Hc) as [X|[(_ & _ & _ & c & j & X)|(mt & prev & prevT & es & mc & j & d & _ & R & _)]].
      * left. rewrite X. auto.
      * right. left. eexists. rewrite X. split; [reflexivity|]. split; [exact E|].
        split; [apply (is_server_pos _ _ Hi)|]. auto.
      * congruence.
  - right. right. repeat split; auto. apply (T5 _ _ _ I); auto.
    exists i. repeat split; auto. rewrite B. exact F.
Qed.

(* ---------- how one queue changes in one step ---------- *)
Definition sent_by_server (cfg : config) (s s' : state) (d : nat) (m : msg) : Prop :=
  exists i l md ltr, is_server cfg i = true /\
    server_core cfg i (srv s i) (check_fail cfg s i) l = HR (srv s' i) (Some (md, d, m)) ltr /\
    (forall j, j <> i -> srv s' j = srv s j).

Lemma net_shape cfg s ev s' : step cfg s ev = Commit s' ->
  forall d,
    net s' d = net s d \/
    (exists m, net s' d = net s d ++ [m] /\ (sent_by_server cfg s s' d m \/ exists c cm, m = CRQ cm c d)) \/
    (exists k m, net s' d = remove_nth k (net s d) /\ nth_error (net s d) k = Some m /\
                 (is_client cfg d = true \/
                  (is_server cfg d = true /\ deliverable cfg (net s d) k = true /\ s_pc0 (srv s d) = false /\
                   srv s' d = set_pc0 true (set_m (Some m) (srv s d))))).
Proof.
  intros H d. destruct (step_shape_of _ _ _ _ H).
  - destruct Hnet as [Hn|(md & d0 & m0 & -> & Hn & _)]; rewrite Hn; auto.
    unfold upd. destruct (d =? d0) eqn:E; auto. apply Nat.eqb_eq in E. subst d0.
    right. left. exists m0. split; auto. left. exists i, l, md, ltr. split; auto.
    rewrite Hsrv, upd_same. split; [exact Hcore|]. intros j Hj. now rewrite upd_other.
  - rewrite Hnet. unfold upd. destruct (d =? i) eqn:E; auto. apply Nat.eqb_eq in E. subst d.
    right. right. exists k, m. repeat split; auto. right. repeat split; auto.
    rewrite Hsrv, upd_same. reflexivity.
  - destruct Hnet as [Hn|[(d0 & m0 & Hn & _ & _ & (cm & ->))|(k & Hn)]]; rewrite Hn; auto.
    + unfold upd. destruct (d =? d0) eqn:E; auto. apply Nat.eqb_eq in E. subst d0.
      right. left. eexists. split; eauto.
    + unfold upd. destruct (d =? c) eqn:E; auto. apply Nat.eqb_eq in E. subst d.
      destruct (nth_error (net s c) k) as [m|] eqn:En.
      * right. right. exists k, m. auto.
      * left. clear -En. revert k En. induction (net s c) as [|x r IH]; intros k En; destruct k; cbn in *; auto; try discriminate.
        f_equal. apply IH; auto.
  - rewrite Hnet. auto.
Qed.

Lemma nth_error_remove_nth {A} k (l : list A) p :
  nth_error (remove_nth k l) p = if p <? k then nth_error l p else nth_error l (S p).
Proof.
  revert k p; induction l as [|x r IH]; intros k p.
  - destruct k, p; cbn; destruct (_ <? _); reflexivity.
  - destruct k; cbn.
    + reflexivity.
    + destruct p; cbn; auto. rewrite IH. unfold Nat.ltb. cbn. reflexivity.
Qed.

Lemma nth_error_firstn_lt {A} n (l : list A) p : p < n -> nth_error (firstn n l) p = nth_error l p.
Proof.
  revert n p; induction l as [|x r IH]; intros n p Hp; destruct n; try lia.
  - destruct p; reflexivity.
  - destruct p; cbn; auto. apply IH. lia.
Qed.

Definition sorted_terms (l : list entry) : Prop :=
  forall p q e1 e2, p <= q -> nth_error l p = Some e1 -> nth_error l q = Some e2 -> e_term e1 <= e_term e2.

Lemma path_sorted tlf l : tree_ok tlf l -> (forall t, sorted_terms (tlf t)) -> sorted_terms l.
Proof.
  intros T Srt p q e1 e2 Hpq H1 H2. pose proof (T q e2 H2) as E.
  assert (A1 : nth_error (tlf (e_term e2)) p = Some e1).
  { rewrite <- (nth_error_firstn_lt (S q)) by lia. rewrite <- E. rewrite nth_error_firstn_lt by lia. exact H1. }
  assert (A2 : nth_error (tlf (e_term e2)) q = Some e2).
  { rewrite <- (nth_error_firstn_lt (S q)) by lia. rewrite <- E. rewrite nth_error_firstn_lt by lia. exact H2. }
  exact (Srt _ p q e1 e2 Hpq A1 A2).
Qed.

Lemma sorted_terms_prefix a b : is_prefix a b -> sorted_terms b -> sorted_terms a.
Proof. intros P Srt p q e1 e2 Hpq H1 H2. eapply Srt; eauto; eapply is_prefix_nth; eauto. Qed.

(* ---------- invariant, part A ---------- *)
Definition apq_len (m : msg) : nat := match m with APQ _ prev _ es _ _ _ => prev + List.length es | _ => 0 end.
Definition is_apq_of (t : nat) (m : msg) : bool := match m with APQ t' _ _ _ _ _ _ => t' =? t | _ => false end.

Definition apq_inv (cfg : config) (g : ghost) (m : msg) : Prop :=
  match m with
  | APQ t prev _ es _ src dst =>
      gl g t = src /\ is_server cfg src = true /\ src <> dst /\
      (forall p e, prev + List.length es <= p -> nth_error (tl g t) p = Some e -> e_term e = t)
  | _ => True
  end.
Definition app_inv (cfg : config) (a : acks) (m : msg) : Prop :=
  match m with APP t true n v _ => n <= a v t /\ is_server cfg v = true | _ => True end.

Record ainv (cfg : config) (s : state) (g : ghost) (a : acks) : Prop := {
  S1a : forall t, sorted_terms (tl g t);
  S1b : forall t e, In e (tl g t) -> e_term e <= t;
  S2 : forall i e, In e (s_log (srv s i)) -> e_term e <= s_term (srv s i);
  Ls : forall v, s_role (srv s v) = Leader -> is_server cfg v = true;
  Qn : forall d m, In m (net s d) -> apq_inv cfg g m /\ app_inv cfg a m /\ msg_dest m = d;
  Qm : forall i m, s_m (srv s i) = Some m -> apq_inv cfg g m /\ app_inv cfg a m;
  A1 : forall v t, a v t <= List.length (tl g t);
  A1b : forall v t, 0 < a v t -> t <= s_term (srv s v);
  A3 : forall v, is_server cfg v = true -> s_role (srv s v) = Leader -> List.length (s_log (srv s v)) <= a v (s_term (srv s v));
  Mi : forall L v, is_server cfg L = true -> s_role (srv s L) = Leader -> s_match (srv s L) v <= a v (s_term (srv s L));
  F2 : forall d p q m1 m2 t, p < q -> nth_error (net s d) p = Some m1 -> nth_error (net s d) q = Some m2 ->
         is_apq_of t m1 = true -> is_apq_of t m2 = true -> apq_len m1 <= apq_len m2;
  Fq : forall v t m, In m (net s v) -> is_apq_of t m = true -> a v t <= apq_len m;
  Fp : forall v t m, s_pc0 (srv s v) = true -> s_m (srv s v) = Some m -> is_apq_of t m = true ->
         a v t <= apq_len m /\ forall m', In m' (net s v) -> is_apq_of t m' = true -> apq_len m <= apq_len m'
}.

Lemma app_ack_le_inv cfg a m v t : app_inv cfg a m -> app_ack v t m <= a v t.
Proof.
  destruct m; cbn; try lia. destruct msuccess; try lia.
  destruct ((mterm =? t) && (msource =? v)) eqn:E; try lia.
  apply andb_prop in E as [E1 E2]. apply Nat.eqb_eq in E1, E2. subst. tauto.
Qed.

Lemma apq_len_le g m t : apq_ok g m -> is_apq_of t m = true -> apq_len m <= List.length (tl g t).
Proof.
  destruct m; cbn; try discriminate. intros (_ & P & C) E. apply Nat.eqb_eq in E. subst.
  apply is_prefix_length in P. rewrite app_length, firstn_length in P.
  assert (mprevLogIndex <= List.length (tl g t)).
  { destruct C as [->|C]; [lia|]. apply term_at_nth in C as (e & _ & Hn & _). apply nth_error_lt in Hn. lia. }
  lia.
Qed.

Lemma list_max_by_witness {A} (f : A -> nat) l k : 1 <= k -> k <= list_max_by f l -> exists x, In x l /\ k <= f x.
Proof.
  induction l as [|y r IH]; cbn [list_max_by fold_right In]; intros H1 H2; [lia|].
  destruct (Nat.le_gt_cases k (f y)) as [Hle|Hgt]; [exists y; auto|].
  destruct IH as (x & Hx & Hk); auto.
  - fold (list_max_by f r) in *. destruct (Nat.max_spec (f y) (list_max_by f r)) as [[_ E]|[_ E]]; rewrite E in H2; lia.
  - exists x; auto.
Qed.

Lemma core_out_dest cfg i sv f l sv' md d m ltr :
  server_core cfg i sv f l = HR sv' (Some (md, d, m)) ltr ->
  (forall m0, s_m sv = Some m0 -> msg_dest m0 = i) -> msg_dest m = d.
Proof.
  intros H Hm. destruct l; unfold_core H; repeat (destr_in H; try discriminate H); inversion H; subst; clear H; cbn; auto.
Qed.

Lemma core_app_pc0 cfg i sv f l sv' md d t n src dst ltr :
  server_core cfg i sv f l = HR sv' (Some (md, d, APP t true n src dst)) ltr -> s_pc0 sv' = false /\ s_pc0 sv = true.
Proof.
  intros H. destruct l; unfold_core H; repeat (destr_in H; try discriminate H); inversion H; subst; clear H; cbn; bprop; auto.
Qed.

Lemma sorted_terms_snoc l e t :
  sorted_terms l -> (forall x, In x l -> e_term x <= t) -> e_term e = t -> sorted_terms (l ++ [e]).
Proof.
  intros Srt B E p q e1 e2 Hpq H1 H2.
  destruct (Nat.lt_ge_cases q (List.length l)) as [Hq|Hq].
  - rewrite nth_error_app1 in H1, H2 by lia. exact (Srt p q e1 e2 Hpq H1 H2).
  - rewrite nth_error_app2 in H2 by lia.
    destruct (q - List.length l) as [|x]; [|destruct x; discriminate]. injection H2 as <-.
    destruct (Nat.lt_ge_cases p (List.length l)) as [Hp|Hp].
    + rewrite nth_error_app1 in H1 by lia. apply nth_error_In in H1. rewrite E. auto.
    + rewrite nth_error_app2 in H1 by lia.
      destruct (p - List.length l) as [|x]; [|destruct x; discriminate]. injection H1 as <-. lia.
Qed.

Lemma core_pc0_true cfg i sv f l sv' out ltr :
  server_core cfg i sv f l = HR sv' out ltr -> s_pc0 sv' = true -> s_pc0 sv = true.
Proof.
  intros Hc Hp. destruct l; core_cases Hc; ut_cases; cbn in *; auto; try discriminate.
Qed.

Section AinvStep.
  Variables (cfg : config) (s : state) (g : ghost) (a : acks) (ev : event) (s' : state).
  Hypothesis IE : einv cfg s (gv g).
  Hypothesis I : linv cfg s g.
  Hypothesis IA : ainv cfg s g a.
  Hypothesis H : step cfg s ev = Commit s'.
  Hypothesis Hfifo : cfg_fifo cfg = true.
  Let g' := observe cfg g s'.
  Let a' := observe_ack cfg a s s'.
  Hypothesis I' : linv cfg s' g'.

  Lemma S1_step t : sorted_terms (tl g' t) /\ (forall e, In e (tl g' t) -> e_term e <= t).
  Proof.
    destruct (tl_step_cases _ _ _ _ _ IE I H t) as [(E & _)|[(e & E & Et & _)|(_ & _ & i & Hi & _ & Rc & Tc & E & _)]];
      fold g' in E; rewrite E.
    - split; [apply (S1a _ _ _ _ IA) | apply (S1b _ _ _ _ IA)].
    - split.
      + eapply sorted_terms_snoc; eauto; [apply (S1a _ _ _ _ IA) | apply (S1b _ _ _ _ IA)].
      + intros x Hx. apply in_app_iff in Hx as [Hx|[<-|[]]]; [apply (S1b _ _ _ _ IA); auto | lia].
    - split.
      + eapply path_sorted; [apply (T2 _ _ _ I) | apply (S1a _ _ _ _ IA)].
      + intros x Hx. rewrite <- Tc. apply (S2 _ _ _ _ IA); auto.
  Qed.

  Lemma S2_step i e : In e (s_log (srv s' i)) -> e_term e <= s_term (srv s' i).
  Proof.
    intros Hin. pose proof (term_monotone_step _ _ _ _ i H) as Hm.
    destruct (role_term_log_cases _ _ _ _ i H) as [(_ & _ & C & _)|[(m & _ & _ & C & _)|(l & out & ltr & Hi & Hc)]].
    - rewrite C in Hin. pose proof (S2 _ _ _ _ IA i e Hin). lia.
    - rewrite C in Hin. pose proof (S2 _ _ _ _ IA i e Hin). lia.
    - destruct (core_log_cases _ _ _ _ _ _ _ _ Hc) as [C|[(_ & _ & Tt & c & j & C)|(mt & prev & prevT & es & mc & j & d & Hm' & Rf & Tm & Hok & C)]].
      + rewrite C in Hin. pose proof (S2 _ _ _ _ IA i e Hin). lia.
      + rewrite C in Hin. apply in_app_iff in Hin as [Hin|[<-|[]]].
        * pose proof (S2 _ _ _ _ IA i e Hin). lia.
        * cbn. lia.
      + destruct (accept_log _ _ _ _ _ _ _ _ _ _ _ I Hm' Hok) as [_ [r P]]. rewrite C in Hin.
        rewrite Tm. apply (S1b _ _ _ _ IA). rewrite P. apply in_or_app. now left.
  Qed.

  Lemma apq_inv_keep m : apq_inv cfg g m -> apq_inv cfg g' m.
  Proof.
    destruct m; try (intros; exact Logic.I). unfold apq_inv. intros (A & B & C & D).
    assert (Hne : gl g mterm <> 0) by (rewrite A; apply (is_server_pos _ _ B)).
    destruct (tl_step_cases _ _ _ _ _ IE I H mterm) as [(E1 & E2)|[(e & E1 & Et & _ & E2 & _)|(Z & _)]];
      try congruence; fold g' in E1, E2; rewrite E1, E2; repeat split; auto.
    intros p x Hp Hn. destruct (Nat.lt_ge_cases p (List.length (tl g mterm))) as [Hlt|Hge].
    - rewrite nth_error_app1 in Hn by lia. eauto.
    - rewrite nth_error_app2 in Hn by lia.
      destruct (p - List.length (tl g mterm)) as [|y]; [|destruct y; discriminate]. injection Hn as <-. exact Et.
  Qed.

  Lemma app_inv_keep m : app_inv cfg a m -> app_inv cfg a' m.
  Proof.
    destruct m; try (intros; exact Logic.I). destruct msuccess; try (intros; exact Logic.I).
    unfold app_inv. intros [A B]. split; auto.
    pose proof (observe_ack_mono cfg a s s' msource mterm) as Hmono. fold a' in Hmono. lia.
  Qed.

  (* the message sent by the acting server *)
  Lemma sent_msg_inv i l md d m ltr :
    is_server cfg i = true ->
    server_core cfg i (srv s i) (check_fail cfg s i) l = HR (srv s' i) (Some (md, d, m)) ltr ->
    In m (net s' d) ->
    apq_inv cfg g' m /\ app_inv cfg a' m /\ msg_dest m = d.
  Proof.
    intros Hi Hc Hin.
    assert (Hd : msg_dest m = d).
    { eapply core_out_dest; eauto. intros m0 Hm0. apply (E3m _ _ _ IE _ _ Hm0). }
    repeat split; auto.
    - destruct m; try exact Logic.I. unfold apq_inv.
      destruct (core_apq_out _ _ _ _ _ _ _ _ _ _ _ _ _ _ _ _ Hc) as (Rl & -> & El & Et & Rl' & -> & Hp & ->).
      destruct (core_apq_dst _ _ _ _ _ _ _ _ _ _ _ _ _ _ _ _ Hc) as (_ & Hne & _ & Hle).
      pose proof (G2 _ _ _ I' i Hi Rl') as Eg. pose proof (T0 _ _ _ I' i Hi Rl') as Etl.
      fold g' in Eg, Etl. rewrite Et in Eg, Etl. repeat split; auto.
      intros p e Hp' Hn. rewrite <- Etl, El in Hn. apply nth_error_lt in Hn. rewrite skipn_length in Hp'. lia.
    - destruct m; try exact Logic.I. destruct msuccess; try exact Logic.I. unfold app_inv.
      destruct (core_app_out _ _ _ _ _ _ _ _ _ _ _ _ _ Hc) as (prev & prevT & es & mc & j & dd & Hm & _ & _ & _ & _ & _ & -> & -> & _).
      split; auto.
      destruct (Qm _ _ _ _ IA _ _ Hm) as [(_ & Hj & _) _].
      pose proof (observe_ack_net cfg a s s' j _ i mterm Hj Hin) as Hb. fold a' in Hb.
      cbn in Hb. rewrite !Nat.eqb_refl in Hb. exact Hb.
  Qed.

  Lemma Qn_step d m : In m (net s' d) -> apq_inv cfg g' m /\ app_inv cfg a' m /\ msg_dest m = d.
  Proof.
    intros Hin.
    assert (Hold : In m (net s d) -> apq_inv cfg g' m /\ app_inv cfg a' m /\ msg_dest m = d).
    { intros Ho. destruct (Qn _ _ _ _ IA _ _ Ho) as (A & B & C). auto using apq_inv_keep, app_inv_keep. }
    destruct (step_shape_of _ _ _ _ H).
    - destruct Hnet as [Hn|(md & d0 & m0 & -> & Hn & _)].
      + rewrite Hn in Hin. auto.
      + assert (Hc : server_core cfg i (srv s i) (check_fail cfg s i) l = HR (srv s' i) (Some (md, d0, m0)) ltr).
        { rewrite Hsrv, upd_same. exact Hcore. }
        pose proof Hin as Hin'. rewrite Hn in Hin. unfold upd in Hin. destruct (d =? d0) eqn:Ed; auto.
        apply Nat.eqb_eq in Ed. subst d0.
        apply in_app_iff in Hin as [Hin|[<-|[]]]; auto.
        eapply sent_msg_inv; eauto.
    - rewrite Hnet in Hin. unfold upd in Hin. destruct (d =? i) eqn:Ed; auto.
      apply In_remove_nth in Hin. apply Nat.eqb_eq in Ed. subst. auto.
    - destruct Hnet as [Hn|[(d0 & m0 & Hn & _ & Hd0 & (cm & ->))|(k & Hn)]]; rewrite Hn in Hin; auto.
      + unfold upd in Hin. destruct (d =? d0) eqn:Ed; auto. apply Nat.eqb_eq in Ed. subst d0.
        apply in_app_iff in Hin as [Hin|[<-|[]]]; auto. cbn. auto.
      + unfold upd in Hin. destruct (d =? c) eqn:Ed; auto.
        apply In_remove_nth in Hin. apply Nat.eqb_eq in Ed. subst. auto.
    - rewrite Hnet in Hin. auto.
  Qed.

  Lemma Qm_step i m : s_m (srv s' i) = Some m -> apq_inv cfg g' m /\ app_inv cfg a' m.
  Proof.
    intros Hm. destruct (role_term_log_cases _ _ _ _ i H) as [(_ & _ & _ & _ & C)|[(m0 & _ & _ & _ & _ & C & Hin)|(l & out & ltr & Hi & Hc)]].
    - rewrite C in Hm. destruct (Qm _ _ _ _ IA _ _ Hm). auto using apq_inv_keep, app_inv_keep.
    - rewrite C in Hm. injection Hm as <-. destruct (Qn _ _ _ _ IA _ _ Hin) as (A & B & _). auto using apq_inv_keep, app_inv_keep.
    - rewrite (core_m_stable _ _ _ _ _ _ _ _ Hc) in Hm. destruct (Qm _ _ _ _ IA _ _ Hm). auto using apq_inv_keep, app_inv_keep.
  Qed.

  Lemma Ls_step v : s_role (srv s' v) = Leader -> is_server cfg v = true.
  Proof.
    intros Hl. destruct (role_term_log_cases _ _ _ _ v H) as [(A & _)|[(m & A & _)|(l & out & ltr & Hi & _)]]; auto.
    - rewrite A in Hl. apply (Ls _ _ _ _ IA); auto.
    - rewrite A in Hl. apply (Ls _ _ _ _ IA); auto.
  Qed.

  Lemma accept_len i prev prevT es mc j d t :
    s_m (srv s i) = Some (APQ t prev prevT es mc j d) ->
    (prev = 0 \/ (0 < prev /\ term_at (s_log (srv s i)) prev = Some prevT)) ->
    List.length (firstn prev (s_log (srv s i)) ++ es) = prev + List.length es /\
    prev + List.length es <= List.length (tl g t) /\
    is_prefix (firstn prev (s_log (srv s i)) ++ es) (tl g t).
  Proof.
    intros Hm Hok. destruct (accept_log _ _ _ _ _ _ _ _ _ _ _ I Hm Hok) as [_ P].
    assert (Hp : prev <= List.length (s_log (srv s i))).
    { destruct Hok as [->|[_ Ht]]; [lia|]. apply term_at_nth in Ht as (e & _ & Hn & _). apply nth_error_lt in Hn. lia. }
    assert (E : List.length (firstn prev (s_log (srv s i)) ++ es) = prev + List.length es).
    { rewrite app_length, firstn_length. lia. }
    repeat split; auto. apply is_prefix_length in P. lia.
  Qed.

  Lemma sent_app_bound i l md d m ltr v t :
    server_core cfg i (srv s i) (check_fail cfg s i) l = HR (srv s' i) (Some (md, d, m)) ltr ->
    app_ack v t m <= List.length (tl g t).
  Proof.
    intros Hc. destruct m; cbn; try lia. destruct msuccess; try lia.
    destruct ((mterm =? t) && (msource =? v)) eqn:E; try lia.
    apply andb_prop in E as [E1 E2]. apply Nat.eqb_eq in E1, E2. subst.
    destruct (core_app_out _ _ _ _ _ _ _ _ _ _ _ _ _ Hc) as (prev & prevT & es & mc & j & dd & Hm & _ & _ & Hok & _ & -> & _).
    apply (accept_len _ _ _ _ _ _ _ _ Hm Hok).
  Qed.

  Lemma A1_step v t : a' v t <= List.length (tl g' t).
  Proof.
    pose proof (is_prefix_length _ _ (tl_grows _ _ _ _ _ IE I H t)) as Hg. fold g' in Hg.
    unfold a'. apply observe_ack_le.
    - pose proof (A1 _ _ _ _ IA v t). lia.
    - intros d m Hd Hin.
      assert (Hold : In m (net s d) -> app_ack v t m <= List.length (tl g' t)).
      { intros Ho. destruct (Qn _ _ _ _ IA _ _ Ho) as (_ & B & _).
        pose proof (app_ack_le_inv _ _ _ v t B). pose proof (A1 _ _ _ _ IA v t). lia. }
      destruct (step_shape_of _ _ _ _ H).
      + destruct Hnet as [Hn|(md & d0 & m0 & -> & Hn & _)].
        * rewrite Hn in Hin. auto.
        * rewrite Hn in Hin. unfold upd in Hin. destruct (d =? d0) eqn:Ed; auto.
          apply Nat.eqb_eq in Ed. subst d0.
          apply in_app_iff in Hin as [Hin|[<-|[]]]; auto.
          assert (Hc : server_core cfg i (srv s i) (check_fail cfg s i) l = HR (srv s' i) (Some (md, d, m0)) ltr).
          { rewrite Hsrv, upd_same. exact Hcore. }
          pose proof (sent_app_bound _ _ _ _ _ _ v t Hc). lia.
      + rewrite Hnet in Hin. unfold upd in Hin. destruct (d =? i) eqn:Ed; auto.
        apply In_remove_nth in Hin. apply Nat.eqb_eq in Ed. subst. auto.
      + destruct Hnet as [Hn|[(d0 & m0 & Hn & _ & Hd0 & (cm & ->))|(k & Hn)]]; rewrite Hn in Hin; auto.
        * unfold upd in Hin. destruct (d =? d0) eqn:Ed; auto. apply Nat.eqb_eq in Ed. subst d0.
          apply in_app_iff in Hin as [Hin|[<-|[]]]; auto. cbn. lia.
        * unfold upd in Hin. destruct (d =? c) eqn:Ed; auto.
          apply In_remove_nth in Hin. apply Nat.eqb_eq in Ed. subst. auto.
      + rewrite Hnet in Hin. auto.
    - intros Hl Ht. pose proof (Ls_step v Hl) as Hv.
      rewrite (T0 _ _ _ I' v Hv Hl). fold g'. rewrite Ht. lia.
    - destruct (Nat.eq_dec (apq_accepted (srv s v) (srv s' v) t) 0) as [->|Hnz]; [lia|].
      destruct (accepted_facts (srv s v) (srv s' v) t _ (proj1 (Nat.neq_0_lt_0 _) Hnz) (le_n _))
        as (prev & prevT & es & mc & j & dd & Hm & _ & _ & _ & _ & Hok & _ & Hle).
      destruct (accept_len _ _ _ _ _ _ _ _ Hm Hok) as (_ & Hb & _). lia.
  Qed.

  (* where a new acknowledgement can come from *)
  Lemma ack_cases v t k : 1 <= k -> k <= a' v t ->
    k <= a v t \/
    (exists prev prevT es mc j dd,
        is_server cfg v = true /\ s_m (srv s v) = Some (APQ t prev prevT es mc j dd) /\ s_pc0 (srv s v) = true /\
        s_role (srv s' v) = Follower /\ s_term (srv s' v) = t /\
        (prev = 0 \/ (0 < prev /\ term_at (s_log (srv s v)) prev = Some prevT)) /\
        s_log (srv s' v) = firstn prev (s_log (srv s v)) ++ es /\ k <= prev + List.length es /\ s_term (srv s v) <= t /\
        s_pc0 (srv s' v) = false) \/
    (s_role (srv s' v) = Leader /\ s_term (srv s' v) = t /\ k <= List.length (s_log (srv s' v))).
  Proof.
    intros Hk1 Hk. unfold a', observe_ack in Hk.
    destruct (Nat.le_gt_cases k (a v t)) as [|Hgt]; auto. right.
    destruct (Nat.le_gt_cases k (apq_accepted (srv s v) (srv s' v) t)) as [Hacc|Hacc].
    { left. destruct (accepted_facts _ _ _ _ Hk1 Hacc) as (prev & prevT & es & mc & j & dd & Hm & Hp & Hp' & Rf & Tm & Hok & El & Hle).
      exists prev, prevT, es, mc, j, dd. pose proof (term_monotone_step _ _ _ _ v H) as Hmono.
      assert (Hv : is_server cfg v = true).
      { destruct (step_srv_cases _ _ _ _ H v) as [E|[(l & out & ltr & Hv & _)|(m & E)]]; auto.
        - rewrite E in Hp'. congruence.
        - rewrite E in Hp'. cbn in Hp'. discriminate. }
      repeat split; auto. lia. }
    destruct (Nat.le_gt_cases k (lead_ack s' v t)) as [Hl|Hl].
    - right. unfold lead_ack in Hl. destruct (is_leader_in s' t v) eqn:E; [|lia].
      apply is_leader_in_spec in E as [E1 E2]. auto.
    - left. assert (Hn : k <= net_ack cfg s' v t) by lia. unfold net_ack in Hn.
      apply list_max_by_witness in Hn as (d & Hd & Hn); auto. apply list_max_by_witness in Hn as (m & Hin & Hm); auto.
      apply in_servers in Hd.
      assert (Hold : ~ In m (net s d)).
      { intros Ho. destruct (Qn _ _ _ _ IA _ _ Ho) as (_ & B & _). pose proof (app_ack_le_inv _ _ _ v t B). lia. }
      destruct (step_shape_of _ _ _ _ H).
      + destruct Hnet as [Hn|(md & d0 & m0 & -> & Hn & _)]; rewrite Hn in Hin; [contradiction|].
        unfold upd in Hin. destruct (d =? d0) eqn:Ed; [|contradiction]. apply Nat.eqb_eq in Ed. subst d0.
        apply in_app_iff in Hin as [Hin|[<-|[]]]; [contradiction|].
        destruct m0; cbn in Hm; try lia. destruct msuccess; try lia.
        destruct ((mterm =? t) && (msource =? v)) eqn:E; try lia.
        apply andb_prop in E as [E1 E2]. apply Nat.eqb_eq in E1, E2. subst.
        destruct (core_app_out _ _ _ _ _ _ _ _ _ _ _ _ _ Hcore) as (prev & prevT & es & mc & j & dd & Hsm & Rf & Tm & Hok & El & -> & -> & _ & _ & _ & _ & Hle).
        destruct (core_app_pc0 _ _ _ _ _ _ _ _ _ _ _ _ _ Hcore) as [Hpc' Hpc].
        exists prev, prevT, es, mc, j, dd. rewrite Hsrv, upd_same. repeat split; auto.
      + rewrite Hnet in Hin. unfold upd in Hin. destruct (d =? i) eqn:Ed; [|contradiction].
        apply In_remove_nth in Hin. apply Nat.eqb_eq in Ed. subst. contradiction.
      + destruct Hnet as [Hn|[(d0 & m0 & Hn & _ & Hd0 & (cm & ->))|(k0 & Hn)]]; rewrite Hn in Hin; try contradiction.
        * unfold upd in Hin. destruct (d =? d0) eqn:Ed; [|contradiction]. apply Nat.eqb_eq in Ed. subst d0.
          apply in_app_iff in Hin as [Hin|[<-|[]]]; [contradiction|]. cbn in Hm. lia.
        * unfold upd in Hin. destruct (d =? c) eqn:Ed; [|contradiction].
          apply In_remove_nth in Hin. apply Nat.eqb_eq in Ed. subst. contradiction.
      + rewrite Hnet in Hin. contradiction.
  Qed.

  Lemma A1b_step v t : 0 < a' v t -> t <= s_term (srv s' v).
  Proof.
    intros Hp. pose proof (term_monotone_step _ _ _ _ v H) as Hm.
    destruct (ack_cases v t 1 (le_n 1) Hp) as [Hk|[(prev & prevT & es & mc & j & dd & _ & _ & _ & _ & Tm & _)|(_ & Tm & _)]]; try lia.
    pose proof (A1b _ _ _ _ IA v t Hk). lia.
  Qed.

  Lemma A3_step v : is_server cfg v = true -> s_role (srv s' v) = Leader ->
    List.length (s_log (srv s' v)) <= a' v (s_term (srv s' v)).
  Proof. intros _ Hl. unfold a'. now apply observe_ack_lead. Qed.

  Lemma Mi_step L v : is_server cfg L = true -> s_role (srv s' L) = Leader ->
    s_match (srv s' L) v <= a' v (s_term (srv s' L)).
  Proof.
    intros HL Hl.
    assert (Hmono : forall t, a v t <= a' v t) by (intros t; apply observe_ack_mono).
    assert (Hsame : s_role (srv s' L) = s_role (srv s L) -> s_term (srv s' L) = s_term (srv s L) ->
                    s_match (srv s' L) = s_match (srv s L) -> s_match (srv s' L) v <= a' v (s_term (srv s' L))).
    { intros A B C. rewrite A in Hl. rewrite B, C. pose proof (Mi _ _ _ _ IA L v HL Hl). specialize (Hmono (s_term (srv s L))). lia. }
    destruct (step_srv_cases _ _ _ _ H L) as [E|[(l & out & ltr & _ & Hc)|(m & E)]].
    - apply Hsame; now rewrite E.
    - destruct (core_match_cases _ _ _ _ _ _ _ _ Hc Hl) as [(A & B & C)|[(_ & A)|(mi & j & d & Hm & B & C & D)]].
      + apply Hsame; auto. congruence.
      + rewrite A. lia.
      + rewrite D. unfold upd. destruct (v =? j) eqn:Ev.
        * apply Nat.eqb_eq in Ev. subst j. destruct (Qm _ _ _ _ IA _ _ Hm) as [_ [Hb _]].
          specialize (Hmono (s_term (srv s' L))). lia.
        * pose proof (Mi _ _ _ _ IA L v HL B). rewrite C. specialize (Hmono (s_term (srv s L))). lia.
    - apply Hsame; rewrite E; reflexivity.
  Qed.

  Lemma new_apq_len i l md d m ltr t :
    is_server cfg i = true ->
    server_core cfg i (srv s i) (check_fail cfg s i) l = HR (srv s' i) (Some (md, d, m)) ltr ->
    is_apq_of t m = true -> apq_len m = List.length (tl g t).
  Proof.
    intros Hi Hc Ha. destruct m; cbn in Ha; try discriminate. apply Nat.eqb_eq in Ha. subst.
    destruct (core_apq_out _ _ _ _ _ _ _ _ _ _ _ _ _ _ _ _ Hc) as (Rl & -> & _ & _ & _ & -> & _ & _).
    destruct (core_apq_dst _ _ _ _ _ _ _ _ _ _ _ _ _ _ _ _ Hc) as (_ & _ & _ & Hle).
    cbn. rewrite skipn_length. rewrite <- (T0 _ _ _ I i Hi Rl). lia.
  Qed.

  Lemma F2_step d p q m1 m2 t : p < q -> nth_error (net s' d) p = Some m1 -> nth_error (net s' d) q = Some m2 ->
    is_apq_of t m1 = true -> is_apq_of t m2 = true -> apq_len m1 <= apq_len m2.
  Proof.
    intros Hpq H1 H2 A1' A2'.
    assert (Hsame : net s' d = net s d -> apq_len m1 <= apq_len m2).
    { intros E. rewrite E in H1, H2. exact (F2 _ _ _ _ IA d p q m1 m2 t Hpq H1 H2 A1' A2'). }
    assert (Hrem : forall k, net s' d = remove_nth k (net s d) -> apq_len m1 <= apq_len m2).
    { intros k E. rewrite E in H1, H2. rewrite nth_error_remove_nth in H1, H2.
      eapply (F2 _ _ _ _ IA d (if p <? k then p else S p) (if q <? k then q else S q)); eauto.
      - destruct (p <? k) eqn:E1, (q <? k) eqn:E2; bprop; lia.
      - destruct (p <? k); exact H1.
      - destruct (q <? k); exact H2. }
    destruct (step_shape_of _ _ _ _ H).
    - destruct Hnet as [Hn|(md & d0 & m0 & -> & Hn & _)]; [apply Hsame; now rewrite Hn|].
      rewrite Hn in H1, H2. unfold upd in H1, H2. destruct (d =? d0) eqn:Ed; [|exact (F2 _ _ _ _ IA d p q m1 m2 t Hpq H1 H2 A1' A2')].
      apply Nat.eqb_eq in Ed. subst d0.
      destruct (Nat.lt_ge_cases q (List.length (net s d))) as [Hq|Hq].
      + rewrite nth_error_app1 in H1, H2 by lia. exact (F2 _ _ _ _ IA d p q m1 m2 t Hpq H1 H2 A1' A2').
      + rewrite nth_error_app2 in H2 by lia.
        destruct (q - List.length (net s d)) as [|x] eqn:Eq; [|destruct x; discriminate]. injection H2 as <-.
        assert (Hc : server_core cfg i (srv s i) (check_fail cfg s i) l = HR (srv s' i) (Some (md, d, m0)) ltr).
        { rewrite Hsrv, upd_same. exact Hcore. }
        rewrite (new_apq_len _ _ _ _ _ _ t Hi Hc A2').
        rewrite nth_error_app1 in H1 by lia. apply nth_error_In in H1.
        apply apq_len_le; auto. eapply T3n; eauto.
    - destruct (d =? i) eqn:Ed.
      + apply Nat.eqb_eq in Ed. subst d. apply (Hrem k). rewrite Hnet. apply upd_same.
      + apply Hsame. rewrite Hnet. apply upd_other. now apply Nat.eqb_neq.
    - destruct Hnet as [Hn|[(d0 & m0 & Hn & _ & Hd0 & (cm & ->))|(k & Hn)]]; [apply Hsame; now rewrite Hn| |].
      + rewrite Hn in H1, H2. unfold upd in H1, H2. destruct (d =? d0) eqn:Ed; [|exact (F2 _ _ _ _ IA d p q m1 m2 t Hpq H1 H2 A1' A2')].
        destruct (Nat.lt_ge_cases q (List.length (net s d0))) as [Hq|Hq].
        * apply Nat.eqb_eq in Ed. subst d0. rewrite nth_error_app1 in H1, H2 by lia. exact (F2 _ _ _ _ IA d p q m1 m2 t Hpq H1 H2 A1' A2').
        * rewrite nth_error_app2 in H2 by lia.
          destruct (q - List.length (net s d0)) as [|x] eqn:Eq; [|destruct x; discriminate]. injection H2 as <-.
          cbn in A2'. discriminate.
      + destruct (d =? c) eqn:Ed.
        * apply Nat.eqb_eq in Ed. subst d. apply (Hrem k). rewrite Hn. apply upd_same.
        * apply Hsame. rewrite Hn. apply upd_other. now apply Nat.eqb_neq.
    - apply Hsame. now rewrite Hnet.
  Qed.

  Lemma net_in_cases d m : In m (net s' d) ->
    In m (net s d) \/ sent_by_server cfg s s' d m \/ (exists c cm, m = CRQ cm c d).
  Proof.
    intros Hin. destruct (net_shape _ _ _ _ H d) as [E|[(m0 & E & Hs)|(k & m0 & E & _)]]; rewrite E in Hin; auto.
    - apply in_app_iff in Hin as [Hin|[<-|[]]]; auto.
    - left. eapply In_remove_nth; eauto.
  Qed.

  Lemma no_leader_with_apq v t m : apq_inv cfg g' m -> msg_dest m = v -> is_apq_of t m = true ->
    s_role (srv s' v) = Leader -> s_term (srv s' v) = t -> False.
  Proof.
    intros A D E Hl Ht. destruct m; cbn in E; try discriminate. apply Nat.eqb_eq in E. cbn in D.
    destruct A as (A & _ & Hne & _).
    pose proof (G2 _ _ _ I' v (Ls_step v Hl) Hl) as Eg. fold g' in Eg. rewrite Ht in Eg. congruence.
  Qed.

  Lemma sent_apq_leader d m t : sent_by_server cfg s s' d m -> is_apq_of t m = true ->
    exists i, is_server cfg i = true /\ s_role (srv s' i) = Leader /\ s_role (srv s i) = Leader /\ i <> d /\
              apq_len m = List.length (tl g t).
  Proof.
    intros (i & l & md & ltr & Hi & Hc & _) E. exists i.
    pose proof (new_apq_len _ _ _ _ _ _ t Hi Hc E) as El.
    destruct m; cbn in E; try discriminate.
    destruct (core_apq_out _ _ _ _ _ _ _ _ _ _ _ _ _ _ _ _ Hc) as (Rl & _ & _ & _ & Rl' & _ & _ & ->).
    destruct (core_apq_dst _ _ _ _ _ _ _ _ _ _ _ _ _ _ _ _ Hc) as (-> & Hne & _).
    repeat split; auto.
  Qed.

  Lemma Fq_step v t m : In m (net s' v) -> is_apq_of t m = true -> a' v t <= apq_len m.
  Proof.
    intros Hin Ha. destruct (Nat.eq_dec (a' v t) 0) as [|Hnz]; [lia|].
    destruct (Qn_step _ _ Hin) as (Ainv & _ & Hd).
    destruct (ack_cases v t (a' v t)) as [Hk|[(prev & prevT & es & mc & j & dd & Hv & Hm & Hpc & Rf & Tm & Hok & El & Hk & _ & Hpc')|(Rl & Tl & _)]]; try lia.
    - (* no new acknowledgement *)
      destruct (net_in_cases _ _ Hin) as [Ho|[Hs|(c & cm & ->)]].
      + pose proof (Fq _ _ _ _ IA v t m Ho Ha). lia.
      + destruct (sent_apq_leader _ _ _ Hs Ha) as (i & _ & _ & _ & _ & El). rewrite El. pose proof (A1 _ _ _ _ IA v t). lia.
      + discriminate.
    - (* v has just accepted the pending AppendEntries *)
      destruct (Fp _ _ _ _ IA v t _ Hpc Hm) as [_ Hall]; [cbn; apply Nat.eqb_refl|]. cbn in Hall.
      destruct (net_in_cases _ _ Hin) as [Ho|[Hs|(c & cm & ->)]].
      + specialize (Hall m Ho Ha). lia.
      + exfalso. destruct Hs as (i & l & md & ltr & Hi & Hc & Hoth).
        destruct m; cbn in Ha; try discriminate.
        destruct (core_apq_out _ _ _ _ _ _ _ _ _ _ _ _ _ _ _ _ Hc) as (Rl & _ & _ & _ & Rl' & _ & _ & ->).
        destruct (Nat.eq_dec v i) as [->|Hne]; [congruence|].
        rewrite (Hoth v Hne) in Hpc'. congruence.
      + discriminate.
    - exfalso. eapply no_leader_with_apq; eauto.
  Qed.

  Lemma Fp_step v t m0 : s_pc0 (srv s' v) = true -> s_m (srv s' v) = Some m0 -> is_apq_of t m0 = true ->
    a' v t <= apq_len m0 /\ forall m', In m' (net s' v) -> is_apq_of t m' = true -> apq_len m0 <= apq_len m'.
  Proof.
    intros Hpc' Hm' Ha.
    destruct (Qm_step _ _ Hm') as [Ainv' _].
    (* how the pending message got there *)
    assert (Hcase :
      (s_pc0 (srv s v) = true /\ s_m (srv s v) = Some m0) \/
      (exists k, s_pc0 (srv s v) = false /\ nth_error (net s v) k = Some m0 /\ deliverable cfg (net s v) k = true /\
                 net s' v = remove_nth k (net s v) /\ msg_dest m0 = v)).
    { destruct (step_shape_of _ _ _ _ H).
      - rewrite Hsrv in Hpc', Hm'. destruct (Nat.eq_dec v i) as [->|Hne].
        + rewrite upd_same in Hpc', Hm'. left. split.
          * eapply core_pc0_true; eauto.
          * rewrite <- (core_m_stable _ _ _ _ _ _ _ _ Hcore). exact Hm'.
        + rewrite upd_other in Hpc', Hm' by auto. left. auto.
      - rewrite Hsrv in Hpc', Hm'. destruct (Nat.eq_dec v i) as [->|Hne].
        + rewrite upd_same in Hm'. cbn in Hm'. injection Hm' as <-. right. exists k. repeat split; auto.
          rewrite Hnet. apply upd_same.
        + rewrite upd_other in Hpc', Hm' by auto. left. auto.
      - rewrite Hsrv in Hpc', Hm'. left. auto.
      - rewrite Hsrv in Hpc', Hm'. left. auto. }
    assert (Hdst : msg_dest m0 = v).
    { destruct Hcase as [[_ Hm]|(k & _ & _ & _ & _ & Hd)]; auto. apply (E3m _ _ _ IE _ _ Hm). }
    assert (Hold : a v t <= apq_len m0).
    { destruct Hcase as [[Hp Hm]|(k & _ & Hn & _)].
      - apply (Fp _ _ _ _ IA v t m0 Hp Hm Ha).
      - apply (Fq _ _ _ _ IA v t m0); auto. eapply nth_error_In; eauto. }
    assert (Hok : apq_ok g m0).
    { destruct Hcase as [[Hp Hm]|(k & _ & Hn & _)]; [eapply T3m; eauto | eapply T3n; eauto; eapply nth_error_In; eauto]. }
    split.
    - destruct (Nat.eq_dec (a' v t) 0) as [|Hnz]; [lia|].
      destruct (ack_cases v t (a' v t)) as [Hk|[(prev & prevT & es & mc & j & dd & _ & _ & _ & _ & _ & _ & _ & _ & _ & Hf)|(Rl & Tl & _)]];
        try lia; try congruence.
      exfalso. eapply no_leader_with_apq; eauto.
    - intros m1 Hin Ha1.
      destruct Hcase as [[Hp Hm]|(k & Hp & Hn & Hdel & Hnet & _)].
      + destruct (net_in_cases _ _ Hin) as [Ho|[Hs|(c & cm & ->)]]; [| |discriminate].
        * apply (Fp _ _ _ _ IA v t m0 Hp Hm Ha); auto.
        * destruct (sent_apq_leader _ _ _ Hs Ha1) as (i & _ & _ & _ & _ & El). rewrite El. apply apq_len_le; auto.
      + rewrite Hnet in Hin. apply In_nth_error in Hin as [q Hq]. rewrite nth_error_remove_nth in Hq.
        destruct (q <? k) eqn:Eq; bprop.
        * (* an earlier message of the same link would have blocked the delivery *)
          exfalso. unfold deliverable in Hdel. rewrite Hn, Hfifo in Hdel. apply negb_true_iff in Hdel.
          assert (existsb (same_link m0) (firstn k (net s v)) = true); [|congruence].
          apply existsb_exists. exists m1. split.
          -- rewrite <- (nth_error_firstn_lt k) in Hq by lia. eapply nth_error_In; eauto.
          -- destruct (Qn _ _ _ _ IA v m0 (nth_error_In _ _ Hn)) as (B0 & _).
             destruct (Qn _ _ _ _ IA v m1 (nth_error_In _ _ Hq)) as (B1 & _).
             destruct m0; cbn in Ha; try discriminate. destruct m1; cbn in Ha1; try discriminate.
             apply Nat.eqb_eq in Ha, Ha1. subst. destruct B0 as (B0 & _). destruct B1 as (B1 & _).
             unfold same_link. cbn. rewrite <- B0, <- B1, Nat.eqb_refl. reflexivity.
        * eapply (F2 _ _ _ _ IA v k (S q)); eauto. lia.
  Qed.

  Lemma ainv_step : ainv cfg s' g' a'.
  Proof.
    constructor.
    - intros t. apply S1_step.
    - intros t. apply S1_step.
    - apply S2_step.
    - apply Ls_step.
    - apply Qn_step.
    - apply Qm_step.
    - apply A1_step.
    - apply A1b_step.
    - apply A3_step.
    - apply Mi_step.
    - apply F2_step.
    - apply Fq_step.
    - apply Fp_step.
  Qed.
End AinvStep.

Lemma ainv_init cfg : ainv cfg (init cfg) ghost0 (fun _ _ => 0).
Proof.
  constructor; cbn; try congruence; try tauto; try discriminate; try lia.
  all: try (intros; lia).
  - intros t p q e1 e2 _ Hn. destruct p; discriminate.
  - intros d p q m1 m2 t _ Hn. destruct p; discriminate.
Qed.

Lemma areach_ainv cfg s g a : cfg_fifo cfg = true -> areach cfg s g a -> ainv cfg s g a.
Proof.
  intros Hf. induction 1; [apply ainv_init|].
  pose proof (areach_greach _ _ _ _ H) as Hg.
  eapply ainv_step; eauto.
  - eapply vreach_einv, greach_vreach; eauto.
  - eapply greach_linv; eauto.
  - eapply greach_linv. econstructor; eauto.
Qed.
