(* C08 — election safety: votes are unique per (voter, term) + quorum intersection.
   Ghost: the vote of v in term t, observed from the states of the execution (it never influences a step). *)
From PGV Require Import C08.Model C08.Proofs1.
From Coq Require Import Lia.

Definition votes := nat -> nat -> nat.      (* voter -> term -> candidate, 0 = no vote seen *)

Definition observe_votes (g : votes) (s : state) : votes :=
  fun v t => if (t =? s_term (srv s v)) && negb (s_voted (srv s v) =? 0) then s_voted (srv s v) else g v t.

Inductive vreach (cfg : config) : state -> votes -> Prop :=
| vr_init : vreach cfg (init cfg) (fun _ _ => 0)
| vr_step s g ev s' : vreach cfg s g -> step cfg s ev = Commit s' -> vreach cfg s' (observe_votes g s').

Lemma vreach_reachable cfg s g : vreach cfg s g -> reachable cfg s.
Proof. induction 1; [constructor | econstructor; eauto]. Qed.
Lemma reachable_vreach cfg s : reachable cfg s -> exists g, vreach cfg s g.
Proof. induction 1 as [|s ev s' _ [g Hg] Hs]; [eexists; constructor | eexists; econstructor; eauto]. Qed.

(* ---------- sorted sets ---------- *)
Fixpoint ssorted (l : list nat) : Prop :=
  match l with [] => True | x :: r => (forall y, In y r -> x < y) /\ ssorted r end.

Lemma In_ins x y l : In y (ins x l) <-> y = x \/ In y l.
Proof.
  induction l as [|z r IH]; cbn [ins In].
  - intuition congruence.
  - destruct (x <? z) eqn:E1; cbn [In]; [intuition congruence|].
    destruct (x =? z) eqn:E2; cbn [In].
    + apply Nat.eqb_eq in E2. subst. intuition congruence.
    + rewrite IH. intuition congruence.
Qed.

Lemma ins_sorted x l : ssorted l -> ssorted (ins x l).
Proof.
  induction l as [|z r IH]; cbn [ins ssorted]; intros H.
  - split; [intros y []|exact I].
  - destruct H as [Hz Hr]. destruct (x <? z) eqn:E1.
    + apply Nat.ltb_lt in E1. cbn [ssorted]. split; [|split; auto].
      intros y [<-|Hy]; [lia|]. specialize (Hz y Hy). lia.
    + destruct (x =? z) eqn:E2; [cbn [ssorted]; auto|].
      apply Nat.ltb_ge in E1. apply Nat.eqb_neq in E2. cbn [ssorted]. split; [|auto].
      intros y Hy. apply In_ins in Hy as [->|Hy]; [lia|auto].
Qed.

Lemma ins_length_ge x l : List.length l <= List.length (ins x l).
Proof.
  induction l as [|z r IH]; cbn [ins List.length]; [lia|].
  destruct (x <? z); cbn [List.length]; [lia|]. destruct (x =? z); cbn [List.length]; lia.
Qed.

Lemma ssorted_NoDup l : ssorted l -> NoDup l.
Proof.
  induction l as [|x r IH]; cbn; intros H; constructor.
  - intros Hin. destruct H as [H _]. specialize (H x Hin). lia.
  - apply IH, H.
Qed.

Lemma nodup_app (l1 l2 : list nat) :
  NoDup l1 -> NoDup l2 -> (forall x, In x l1 -> ~ In x l2) -> NoDup (l1 ++ l2).
Proof.
  induction l1 as [|x r IH]; cbn; intros H1 H2 Hd; auto.
  inversion H1; subst. constructor.
  - rewrite in_app_iff. intros [Hi|Hi]; [auto | eapply Hd; eauto].
  - apply IH; auto.
Qed.

Lemma quorum_intersect n (l1 l2 : list nat) :
  NoDup l1 -> NoDup l2 -> incl l1 (seq 1 n) -> incl l2 (seq 1 n) ->
  n < List.length l1 * 2 -> n < List.length l2 * 2 -> exists x, In x l1 /\ In x l2.
Proof.
  intros N1 N2 I1 I2 Q1 Q2.
  destruct (existsb (fun x => mem x l2) l1) eqn:E.
  - apply existsb_exists in E as (x & Hx & Hm). exists x. split; auto.
    unfold mem in Hm. apply existsb_exists in Hm as (y & Hy & Hxy). apply Nat.eqb_eq in Hxy. now subst.
  - exfalso.
    assert (Hd : forall x, In x l1 -> ~ In x l2).
    { intros x Hx Hx2. assert (existsb (fun x => mem x l2) l1 = true); [|congruence].
      apply existsb_exists. exists x. split; auto. unfold mem. apply existsb_exists. exists x. split; auto.
      apply Nat.eqb_refl. }
    pose proof (nodup_app _ _ N1 N2 Hd) as Hn.
    assert (Hl : List.length (l1 ++ l2) <= List.length (seq 1 n)).
    { apply NoDup_incl_length; auto. intros x Hx. apply in_app_iff in Hx as [Hx|Hx]; auto. }
    rewrite app_length, seq_length in Hl. lia.
Qed.

Lemma is_server_in_seq cfg v : is_server cfg v = true -> In v (seq 1 (cfg_n cfg)).
Proof.
  unfold is_server. intros H. apply andb_prop in H as [H1 H2].
  apply Nat.leb_le in H1, H2. apply in_seq. lia.
Qed.
Lemma is_server_pos cfg v : is_server cfg v = true -> v <> 0.
Proof. unfold is_server. intros H. apply andb_prop in H as [H1 _]. apply Nat.leb_le in H1. lia. Qed.

(* ---------- invariant ---------- *)
Definition msg_ok (cfg : config) (g : votes) (m : msg) : Prop :=
  match m with
  | RVP t true v d => g v t = d /\ is_server cfg v = true /\ d <> 0
  | RVQ _ _ _ s _ => is_server cfg s = true
  | _ => True
  end.

Record einv (cfg : config) (s : state) (g : votes) : Prop := {
  E1 : forall v t, g v t <> 0 -> t <= s_term (srv s v) /\ (t = s_term (srv s v) -> s_voted (srv s v) = g v t);
  E3n : forall d m, In m (net s d) -> msg_ok cfg g m;
  E3m : forall i m, s_m (srv s i) = Some m -> msg_ok cfg g m /\ msg_dest m = i;
  E4 : forall i, is_server cfg i = true -> s_role (srv s i) <> Follower ->
       forall v, In v (s_vgrant (srv s i)) -> g v (s_term (srv s i)) = i /\ is_server cfg v = true;
  E5 : forall i, s_role (srv s i) = Leader -> is_quorum cfg (s_vgrant (srv s i)) = true;
  E7 : forall i, ssorted (s_vgrant (srv s i))
}.

(* ---------- per-server facts ---------- *)
Lemma core_voted_stable cfg i sv f l sv' out ltr :
  server_core cfg i sv f l = HR sv' out ltr ->
  s_term sv' = s_term sv -> s_voted sv <> 0 -> s_voted sv' = s_voted sv.
Proof.
  intros H Ht Hv. destruct l; core_cases H; ut_cases; cbn in *; try lia; try reflexivity;
    bprop; cbn in *; try lia; try congruence.
Qed.

Lemma core_m_stable cfg i sv f l sv' out ltr :
  server_core cfg i sv f l = HR sv' out ltr -> s_m sv' = s_m sv.
Proof.
  intros H. destruct l; core_cases H; ut_cases; cbn; congruence.
Qed.

Lemma core_vgrant_sorted cfg i sv f l sv' out ltr :
  server_core cfg i sv f l = HR sv' out ltr -> ssorted (s_vgrant sv) -> ssorted (s_vgrant sv').
Proof.
  intros H Hs. destruct l; core_cases H; ut_cases; cbn; auto using ins_sorted.
  all: cbn; split; [intros y []|exact I].
Qed.

Lemma is_quorum_ins cfg j l : is_quorum cfg l = true -> is_quorum cfg (ins j l) = true.
Proof.
  unfold is_quorum. intros H. apply Nat.ltb_lt in H. apply Nat.ltb_lt.
  pose proof (ins_length_ge j l). lia.
Qed.

Lemma core_quorum cfg i sv f l sv' out ltr :
  server_core cfg i sv f l = HR sv' out ltr ->
  (s_role sv = Leader -> is_quorum cfg (s_vgrant sv) = true) ->
  s_role sv' = Leader -> is_quorum cfg (s_vgrant sv') = true.
Proof.
  intros H Hq Hl. destruct l; core_cases H; ut_cases; cbn in *; try discriminate; auto using is_quorum_ins.
  all: bprop; try discriminate; try (destruct (s_role sv); cbn in *; discriminate); auto.
Qed.

(* votes recorded in g stay; g' has seen the server's current vote *)
Definition extends (g g' : votes) : Prop := forall v t, g v t <> 0 -> g' v t = g v t.

Lemma core_E4 cfg i sv f l sv' out ltr (g g' : votes) :
  server_core cfg i sv f l = HR sv' out ltr ->
  is_server cfg i = true ->
  (forall m, s_m sv = Some m -> msg_ok cfg g m /\ msg_dest m = i) ->
  (s_role sv <> Follower -> forall v, In v (s_vgrant sv) -> g v (s_term sv) = i /\ is_server cfg v = true) ->
  extends g g' ->
  (s_voted sv' <> 0 -> g' i (s_term sv') = s_voted sv') ->
  s_role sv' <> Follower -> forall v, In v (s_vgrant sv') -> g' v (s_term sv') = i /\ is_server cfg v = true.
Proof.
  intros H Hi Hm H4 Hext Hobs Hr v Hv. pose proof (is_server_pos _ _ Hi) as Hi0.
  assert (Hkeep : s_role sv <> Follower -> In v (s_vgrant sv) -> g' v (s_term sv) = i /\ is_server cfg v = true).
  { intros A B. destruct (H4 A v B) as [C D]. split; auto. rewrite Hext; auto. congruence. }
  destruct l; core_cases H; ut_cases; cbn in *; try congruence; auto.
  all: bprop; subst; cbn in *; try congruence; auto.
  all: try (destruct (s_role sv); cbn in *; try discriminate; try congruence; apply Hkeep; auto; discriminate).
  1-4: apply In_ins in Hv as [->|Hv]; [|apply Hkeep; auto];
       destruct (Hm _ eq_refl) as [(A & B & C) D]; cbn in D; subst; split; auto; rewrite Hext; auto; congruence.
  destruct Hv as [<-|[]]. split; auto.
Qed.

Lemma core_out_ok cfg i sv f l sv' md d m ltr (g g' : votes) :
  server_core cfg i sv f l = HR sv' (Some (md, d, m)) ltr ->
  is_server cfg i = true ->
  (forall m, s_m sv = Some m -> msg_ok cfg g m /\ msg_dest m = i) ->
  (s_voted sv' <> 0 -> g' i (s_term sv') = s_voted sv') ->
  msg_ok cfg g' m.
Proof.
  intros H Hi Hm Hobs.
  destruct l; unfold_core H; repeat (destr_in H; try discriminate H);
    inversion H; subst; clear H; ut_cases; cbn in *; auto.
  all: try (destruct (Hm _ eq_refl) as [A B]; cbn in A, B; pose proof (is_server_pos _ _ A)).
  all: repeat split; auto.
  all: try (apply Hobs; auto).
Qed.

Lemma msg_ok_extends cfg g g' m : extends g g' -> msg_ok cfg g m -> msg_ok cfg g' m.
Proof.
  intros He H. destruct m; cbn in *; auto. destruct mvoteGranted; auto.
  destruct H as (A & B & C). repeat split; auto. rewrite He; auto. congruence.
Qed.

Lemma In_remove_nth {A} k (l : list A) x : In x (remove_nth k l) -> In x l.
Proof.
  revert k; induction l as [|y r IH]; intros k; destruct k; cbn; auto.
  intros [->|H]; eauto.
Qed.

Lemma observe_extends cfg s g ev s' :
  einv cfg s g -> step cfg s ev = Commit s' -> extends g (observe_votes g s').
Proof.
  intros I H v t Hg. unfold observe_votes.
  destruct ((t =? s_term (srv s' v)) && negb (s_voted (srv s' v) =? 0)) eqn:E; auto.
  apply andb_prop in E as [Ea Eb]. apply Nat.eqb_eq in Ea. apply negb_true_iff, Nat.eqb_neq in Eb.
  destruct (E1 _ _ _ I v t Hg) as [Hle Heq].
  pose proof (term_monotone_step _ _ _ _ v H) as Hm.
  assert (Ht : s_term (srv s v) = t) by lia.
  rewrite <- (Heq (eq_sym Ht)).
  destruct (step_srv_cases _ _ _ _ H v) as [Es|[(l & out & ltr & _ & Ec)|(m & Es)]].
  - now rewrite Es.
  - eapply core_voted_stable; eauto; [lia | rewrite (Heq (eq_sym Ht)); auto].
  - rewrite Es. reflexivity.
Qed.

Lemma observe_sees g s v : s_voted (srv s v) <> 0 -> observe_votes g s v (s_term (srv s v)) = s_voted (srv s v).
Proof.
  intros H. unfold observe_votes. rewrite Nat.eqb_refl. apply Nat.eqb_neq in H. now rewrite H.
Qed.

Lemma einv_init cfg : einv cfg (init cfg) (fun _ _ => 0).
Proof.
  constructor; cbn; try congruence; try tauto; try discriminate.
Qed.

Lemma einv_step cfg s g ev s' :
  einv cfg s g -> step cfg s ev = Commit s' -> einv cfg s' (observe_votes g s').
Proof.
  intros I H. pose proof (observe_extends _ _ _ _ _ I H) as Hext.
  set (g' := observe_votes g s') in *.
  assert (HE1 : forall v t, g' v t <> 0 ->
            t <= s_term (srv s' v) /\ (t = s_term (srv s' v) -> s_voted (srv s' v) = g' v t)).
  { intros v t Hg. unfold g', observe_votes in *.
    destruct ((t =? s_term (srv s' v)) && negb (s_voted (srv s' v) =? 0)) eqn:E.
    - apply andb_prop in E as [Ea Eb]. apply Nat.eqb_eq in Ea. split; [lia|auto].
    - destruct (E1 _ _ _ I v t Hg) as [Hle Heq].
      pose proof (term_monotone_step _ _ _ _ v H) as Hm. split; [lia|].
      intros ->. assert (Ht : s_term (srv s' v) = s_term (srv s v)) by lia.
      rewrite Ht in *. specialize (Heq eq_refl).
      apply andb_false_iff in E as [E|E]; [rewrite Nat.eqb_refl in E; discriminate|].
      apply negb_false_iff, Nat.eqb_eq in E.
      (* the vote was set and is now 0: impossible *)
      exfalso. destruct (step_srv_cases _ _ _ _ H v) as [Es|[(l & out & ltr & _ & Ec)|(m & Es)]].
      + rewrite Es in E. congruence.
      + pose proof (core_voted_stable _ _ _ _ _ _ _ _ Ec Ht). rewrite Heq in H0. specialize (H0 Hg). congruence.
      + rewrite Es in E. cbn in E. congruence. }
  destruct (step_shape_of _ _ _ _ H).
  - (* a server label *)
    assert (Hobs : s_voted sv' <> 0 -> g' i (s_term sv') = s_voted sv').
    { intros Hv. unfold g'. pose proof (observe_sees g s' i) as Ho. rewrite Hsrv, upd_same in Ho. auto. }
    constructor; auto.
    + intros d m Hin. destruct Hnet as [Hn|(md & d0 & m0 & -> & Hn & _)].
      * rewrite Hn in Hin. eapply msg_ok_extends; eauto. eapply E3n; eauto.
      * rewrite Hn in Hin. unfold upd in Hin. destruct (d =? d0).
        -- apply in_app_iff in Hin as [Hin|[<-|[]]].
           ++ eapply msg_ok_extends; eauto. eapply E3n; eauto.
           ++ eapply core_out_ok; eauto. intros m Hm. eapply E3m; eauto.
        -- eapply msg_ok_extends; eauto. eapply E3n; eauto.
    + intros j m. rewrite Hsrv. unfold upd. destruct (j =? i) eqn:Ej.
      * apply Nat.eqb_eq in Ej. subst j. rewrite (core_m_stable _ _ _ _ _ _ _ _ Hcore). intros Hm.
        destruct (E3m _ _ _ I _ _ Hm). split; auto. eapply msg_ok_extends; eauto.
      * intros Hm. destruct (E3m _ _ _ I _ _ Hm). split; auto. eapply msg_ok_extends; eauto.
    + intros j Hj. rewrite Hsrv. unfold upd. destruct (j =? i) eqn:Ej.
      * apply Nat.eqb_eq in Ej. subst j. eapply core_E4; eauto.
        -- intros m Hm. eapply E3m; eauto.
        -- eapply E4; eauto.
      * intros Hr v Hv. destruct (E4 _ _ _ I j Hj Hr v Hv) as [A B]. split; auto.
        rewrite Hext; auto. pose proof (is_server_pos _ _ Hj). congruence.
    + intros j. rewrite Hsrv. unfold upd. destruct (j =? i) eqn:Ej.
      * eapply core_quorum; eauto. eapply E5; eauto.
      * eapply E5; eauto.
    + intros j. rewrite Hsrv. unfold upd. destruct (j =? i) eqn:Ej.
      * eapply core_vgrant_sorted; eauto. eapply E7; eauto.
      * eapply E7; eauto.
  - (* serverLoop *)
    constructor; auto.
    + intros d m0 Hin. rewrite Hnet in Hin. unfold upd in Hin. eapply msg_ok_extends; eauto.
      destruct (d =? i) eqn:Ed.
      * apply In_remove_nth in Hin. apply Nat.eqb_eq in Ed. subst. eapply E3n; eauto.
      * eapply E3n; eauto.
    + intros j m0. rewrite Hsrv. unfold upd. destruct (j =? i) eqn:Ej.
      * apply Nat.eqb_eq in Ej. subst j. cbn. intros [= <-]. split; auto.
        eapply msg_ok_extends; eauto. eapply E3n; eauto. eapply nth_error_In; eauto.
      * intros Hm. destruct (E3m _ _ _ I _ _ Hm). split; auto. eapply msg_ok_extends; eauto.
    + intros j Hj. rewrite Hsrv. unfold upd. destruct (j =? i) eqn:Ej; cbn.
      * apply Nat.eqb_eq in Ej. subst j. intros Hr v Hv. destruct (E4 _ _ _ I i Hj Hr v Hv) as [A B]. split; auto.
        rewrite Hext; auto. pose proof (is_server_pos _ _ Hj). congruence.
      * intros Hr v Hv. destruct (E4 _ _ _ I j Hj Hr v Hv) as [A B]. split; auto.
        rewrite Hext; auto. pose proof (is_server_pos _ _ Hj). congruence.
    + intros j. rewrite Hsrv. unfold upd. destruct (j =? i) eqn:Ej; cbn; [apply Nat.eqb_eq in Ej; subst|]; eapply E5; eauto.
    + intros j. rewrite Hsrv. unfold upd. destruct (j =? i) eqn:Ej; cbn; [apply Nat.eqb_eq in Ej; subst|]; eapply E7; eauto.
  - (* a client label *)
    constructor; auto.
    + intros d m Hin. destruct Hnet as [Hn|[(d0 & m0 & Hn & _ & _ & (cm & ->))|(k & Hn)]]; rewrite Hn in Hin.
      * eapply msg_ok_extends; eauto. eapply E3n; eauto.
      * unfold upd in Hin. destruct (d =? d0).
        -- apply in_app_iff in Hin as [Hin|[<-|[]]]; [|exact Logic.I]. eapply msg_ok_extends; eauto. eapply E3n; eauto.
        -- eapply msg_ok_extends; eauto. eapply E3n; eauto.
      * unfold upd in Hin. eapply msg_ok_extends; eauto. destruct (d =? c) eqn:Ed.
        -- apply In_remove_nth in Hin. apply Nat.eqb_eq in Ed. subst. eapply E3n; eauto.
        -- eapply E3n; eauto.
    + intros j m. rewrite Hsrv. intros Hm. destruct (E3m _ _ _ I _ _ Hm). split; auto. eapply msg_ok_extends; eauto.
    + intros j Hj. rewrite Hsrv. intros Hr v Hv. destruct (E4 _ _ _ I j Hj Hr v Hv) as [A B]. split; auto.
      rewrite Hext; auto. pose proof (is_server_pos _ _ Hj). congruence.
    + intros j. rewrite Hsrv. eapply E5; eauto.
    + intros j. rewrite Hsrv. eapply E7; eauto.
  - (* crasher *)
    constructor; auto.
    + intros d m Hin. rewrite Hnet in Hin. eapply msg_ok_extends; eauto. eapply E3n; eauto.
    + intros j m. rewrite Hsrv. intros Hm. destruct (E3m _ _ _ I _ _ Hm). split; auto. eapply msg_ok_extends; eauto.
    + intros j Hj. rewrite Hsrv. intros Hr v Hv. destruct (E4 _ _ _ I j Hj Hr v Hv) as [A B]. split; auto.
      rewrite Hext; auto. pose proof (is_server_pos _ _ Hj). congruence.
    + intros j. rewrite Hsrv. eapply E5; eauto.
    + intros j. rewrite Hsrv. eapply E7; eauto.
Qed.

Lemma vreach_einv cfg s g : vreach cfg s g -> einv cfg s g.
Proof. induction 1; [apply einv_init | eapply einv_step; eauto]. Qed.

(* ElectionSafety == \lnot (\E i, j \in ServerSet: i /= j /\ currentTerm[i] = currentTerm[j]
                                                    /\ state[i] = Leader /\ state[j] = Leader) *)
Theorem election_safety_lemma cfg s :
  reachable cfg s ->
  ~ (exists i j, is_server cfg i = true /\ is_server cfg j = true /\ i <> j /\
                 s_term (srv s i) = s_term (srv s j) /\
                 s_role (srv s i) = Leader /\ s_role (srv s j) = Leader).
Proof.
  intros Hr (i & j & Hi & Hj & Hne & Ht & Li & Lj).
  destruct (reachable_vreach _ _ Hr) as [g Hg]. pose proof (vreach_einv _ _ _ Hg) as I.
  pose proof (E5 _ _ _ I i Li) as Qi. pose proof (E5 _ _ _ I j Lj) as Qj.
  unfold is_quorum in Qi, Qj. apply Nat.ltb_lt in Qi, Qj.
  assert (Ri : s_role (srv s i) <> Follower) by congruence.
  assert (Rj : s_role (srv s j) <> Follower) by congruence.
  destruct (quorum_intersect (cfg_n cfg) (s_vgrant (srv s i)) (s_vgrant (srv s j))) as (v & Vi & Vj); auto.
  - apply ssorted_NoDup, (E7 _ _ _ I).
  - apply ssorted_NoDup, (E7 _ _ _ I).
  - intros v Hv. apply is_server_in_seq. eapply (E4 _ _ _ I i Hi Ri v Hv).
  - intros v Hv. apply is_server_in_seq. eapply (E4 _ _ _ I j Hj Rj v Hv).
  - destruct (E4 _ _ _ I i Hi Ri v Vi) as [A _]. destruct (E4 _ _ _ I j Hj Rj v Vj) as [B _].
    rewrite Ht in A. congruence.
Qed.
