(* C08 — structure of committed steps; monotonicity of terms and commit indices; leaders only append. *)
From PGV Require Import C08.Model.
From Coq Require Import Lia.

Arguments Nat.ltb : simpl never.
Arguments Nat.leb : simpl never.
Arguments is_quorum : simpl never.
Arguments find_max_agree : simpl never.
Arguments apply_log : simpl never.

Ltac destr_in H :=
  match type of H with
  | context [if ?c then _ else _] => destruct c eqn:?
  | context [match ?x with _ => _ end] => destruct x eqn:?
  end.
Ltac destr_goal :=
  match goal with
  | |- context [if ?c then _ else _] => destruct c eqn:?
  | |- context [match ?x with _ => _ end] => destruct x eqn:?
  end.

Lemma upd_same {A} (f : nat -> A) i v : upd f i v i = v.
Proof. unfold upd. now rewrite Nat.eqb_refl. Qed.
Lemma upd_other {A} (f : nat -> A) i j v : j <> i -> upd f i v j = f j.
Proof. unfold upd. intros H. apply Nat.eqb_neq in H. now rewrite H. Qed.

(* ---------- what a committed step does to the global state ---------- *)
Inductive step_shape (cfg : config) (s s' : state) : Prop :=
| SS_server (i : nat) (l : slabel) (sv' : server) (out : option (sendmode * nat * msg)) (ltr : bool)
    (Hi : is_server cfg i = true)
    (Hcore : server_core cfg i (srv s i) (check_fail cfg s i) l = HR sv' out ltr)
    (Hsrv : srv s' = upd (srv s) i sv')
    (Hnet : net s' = net s \/
            exists md d m, out = Some (md, d, m) /\ net s' = upd (net s) d (net s d ++ [m]) /\ enabled s d = true)
    (Hen : enabled s' = enabled s) (Hcli : cli s' = cli s) (Hhist : hist s' = hist s) (Hcr : crasher s' = crasher s)
| SS_recv (i k : nat) (m : msg)
    (Hi : is_server cfg i = true)
    (Hpc : s_pc0 (srv s i) = false)
    (Hnth : nth_error (net s i) k = Some m)
    (Hdel : deliverable cfg (net s i) k = true)
    (Hdst : msg_dest m = i)
    (Hsrv : srv s' = upd (srv s) i (set_pc0 true (set_m (Some m) (srv s i))))
    (Hnet : net s' = upd (net s) i (remove_nth k (net s i)))
    (Hen : enabled s' = enabled s) (Hcli : cli s' = cli s) (Hhist : hist s' = hist s) (Hcr : crasher s' = crasher s)
| SS_client (c : nat)
    (Hc : is_client cfg c = true)
    (Hsrv : srv s' = srv s)
    (Hnet : net s' = net s \/
            (exists d m, net s' = upd (net s) d (net s d ++ [m]) /\ msg_src m = c /\ msg_dest m = d /\
                         (exists cm, m = CRQ cm c d)) \/
            (exists k, net s' = upd (net s) c (remove_nth k (net s c))))
    (Hen : enabled s' = enabled s) (Hcr : crasher s' = crasher s)
| SS_crash (i : nat)
    (Hsrv : srv s' = srv s) (Hnet : net s' = net s) (Hcli : cli s' = cli s) (Hhist : hist s' = hist s).

Lemma finish_shape cfg s i l br fdv s' :
  is_server cfg i = true ->
  finish cfg s i (server_core cfg i (srv s i) (check_fail cfg s i) l) br fdv = Commit s' ->
  step_shape cfg s s'.
Proof.
  intros Hi H. destruct (server_core cfg i (srv s i) (check_fail cfg s i) l) as [sv' out ltr| | | |] eqn:Hc;
    cbn in H; try discriminate.
  destruct out as [[[md d] m]|].
  - destruct md; unfold send, net_write in H; cbn in H.
    + destruct br as [|[|br]]; try discriminate.
      * destruct (_ && _) eqn:E in H; try discriminate. injection H as <-.
        apply andb_prop in E as [E1 E2].
        eapply SS_server with (l := l); eauto; cbn; try (destruct ltr; reflexivity).
        right. exists ViaSend, d, m. destruct ltr; cbn in *; auto.
      * destruct fdv; try discriminate. injection H as <-.
        eapply SS_server with (l := l); eauto; cbn; try (destruct ltr; reflexivity). left. destruct ltr; reflexivity.
    + destruct (_ && _) eqn:E in H; try discriminate. injection H as <-.
      apply andb_prop in E as [E1 E2].
      eapply SS_server with (l := l); eauto; cbn; try (destruct ltr; reflexivity).
      right. exists Direct, d, m. destruct ltr; cbn in *; auto.
  - injection H as <-. eapply SS_server with (l := l); eauto; cbn; try (destruct ltr; reflexivity).
    left. destruct ltr; reflexivity.
Qed.

Lemma step_shape_of cfg s ev s' : step cfg s ev = Commit s' -> step_shape cfg s s'.
Proof.
  intros H. destruct ev; cbn [step] in H;
    try (destruct (is_server cfg i) eqn:Hi; [|discriminate]);
    try (destruct (is_client cfg c) eqn:Hc; [|discriminate]).
  - (* serverLoop *)
    unfold server_loop in H.
    destruct (s_pc0 (srv s i)) eqn:Hpc; [discriminate|].
    destruct (check_fail cfg s i); [discriminate|].
    destruct (negb (enabled s i)); [discriminate|].
    destruct (nth_error (net s i) k) as [m|] eqn:Hn; [|destruct (net s i); discriminate].
    destruct (negb (deliverable cfg (net s i) k)) eqn:Hd; [discriminate|].
    destruct (negb (msg_dest m =? i)) eqn:Hm; [discriminate|].
    injection H as <-. apply negb_false_iff in Hd, Hm. apply Nat.eqb_eq in Hm.
    eapply SS_recv; eauto.
  - eapply finish_shape; eauto.
  - unfold server_step in H. destr_in H; try discriminate. eapply finish_shape; eauto.
  - eapply finish_shape; eauto.
  - eapply finish_shape; eauto.
  - eapply finish_shape; eauto.
  - eapply finish_shape; eauto.
  - eapply finish_shape; eauto.
  - eapply finish_shape; eauto.
  - (* clientLoop *)
    unfold client_loop in H. destr_in H; try discriminate. injection H as <-.
    eapply SS_client; eauto.
  - (* sndReq *)
    unfold client_snd in H. repeat (destr_in H; try discriminate);
      unfold send, net_write in H; (destruct br as [|[|br]]; try discriminate);
      first [ solve [ destruct fdv; try discriminate; injection H as <-; eapply SS_client; eauto ]
            | destr_in H; try discriminate; injection H as <-; eapply SS_client; eauto; right; left;
              eexists _, _; (split; [reflexivity|]); cbn; repeat split; eauto ].
  - (* rcvResp *)
    unfold client_rcv in H.
    destruct (cl_pc (cli s c)); try discriminate. destruct (cl_req (cli s c)); try discriminate.
    destruct (negb (enabled s c)); try discriminate.
    destruct (nth_error (net s c) k) as [m|] eqn:Hn; [|destruct (net s c); discriminate].
    repeat (destr_in H; try discriminate); injection H as <-;
      eapply SS_client; eauto; right; right; exists k; reflexivity.
  - unfold client_timeout in H. repeat (destr_in H; try discriminate). injection H as <-. eapply SS_client; eauto.
  - unfold crash in H. destr_in H; try discriminate. injection H as <-. eapply SS_crash; eauto.
  - unfold fd_update in H. destr_in H; try discriminate. injection H as <-. eapply SS_crash; eauto.
Qed.

(* ---------- inversion of the per-server functions ---------- *)
Ltac unfold_core H :=
  unfold server_core, handle_msg, handle_rvq, handle_rvp, handle_apq, handle_app, handle_crq,
         rv_timeout, rv_send, ae_loop, ae_send, advance, apply_step, become_leader, chan_read, back_to_loop in H;
  cbv zeta in H.
Ltac core_cases H :=
  unfold_core H; repeat (destr_in H; try discriminate H); injection H as <- <- <-.

Lemma update_term_term mt sv : s_term (update_term mt sv) = Nat.max (s_term sv) mt.
Proof. unfold update_term. destruct (s_term sv <? mt) eqn:E; cbn.
  - apply Nat.ltb_lt in E. lia.
  - apply Nat.ltb_ge in E. lia. Qed.
Lemma update_term_log mt sv : s_log (update_term mt sv) = s_log sv.
Proof. unfold update_term. destruct (s_term sv <? mt); reflexivity. Qed.
Lemma update_term_commit mt sv : s_commit (update_term mt sv) = s_commit sv.
Proof. unfold update_term. destruct (s_term sv <? mt); reflexivity. Qed.
Lemma update_term_role mt sv :
  s_role (update_term mt sv) = if s_term sv <? mt then Follower else s_role sv.
Proof. unfold update_term. destruct (s_term sv <? mt); reflexivity. Qed.

Lemma update_term_cases mt sv :
  (s_term sv < mt /\ update_term mt sv = set_leader 0 (set_voted 0 (set_role Follower (set_term mt sv)))) \/
  (mt <= s_term sv /\ update_term mt sv = sv).
Proof.
  unfold update_term. destruct (s_term sv <? mt) eqn:E.
  - apply Nat.ltb_lt in E. auto.
  - apply Nat.ltb_ge in E. auto.
Qed.
(* case split on every UpdateTerm in sight *)
Ltac ut_cases :=
  repeat match goal with
  | |- context [update_term ?a ?b] =>
      let E := fresh "Eut" in destruct (update_term_cases a b) as [[? E]|[? E]]; rewrite E in *; clear E
  | H : context [update_term ?a ?b] |- _ =>
      let E := fresh "Eut" in destruct (update_term_cases a b) as [[? E]|[? E]]; rewrite E in *; clear E
  end.
(* boolean hypotheses to propositions *)
Ltac bprop :=
  repeat match goal with
  | H : (_ && _) = true |- _ => apply andb_prop in H as [? ?]
  | H : (_ || _) = true |- _ => apply orb_prop in H as [?|?]
  | H : (_ && _) = false |- _ => apply andb_false_iff in H as [?|?]
  | H : (_ || _) = false |- _ => apply orb_false_iff in H as [? ?]
  | H : negb _ = true |- _ => apply negb_true_iff in H
  | H : negb _ = false |- _ => apply negb_false_iff in H
  | H : (_ =? _) = true |- _ => apply Nat.eqb_eq in H
  | H : (_ =? _) = false |- _ => apply Nat.eqb_neq in H
  | H : (_ <? _) = true |- _ => apply Nat.ltb_lt in H
  | H : (_ <? _) = false |- _ => apply Nat.ltb_ge in H
  | H : (_ <=? _) = true |- _ => apply Nat.leb_le in H
  | H : (_ <=? _) = false |- _ => apply Nat.leb_gt in H
  end.

Lemma core_term_mono cfg i sv f l sv' out ltr :
  server_core cfg i sv f l = HR sv' out ltr -> s_term sv <= s_term sv'.
Proof.
  intros H. destruct l; core_cases H; cbn; rewrite ?update_term_term; lia.
Qed.

Lemma core_commit_mono cfg i sv f l sv' out ltr :
  server_core cfg i sv f l = HR sv' out ltr -> s_commit sv <= s_commit sv'.
Proof.
  intros H. destruct l; core_cases H; cbn; rewrite ?update_term_commit; lia.
Qed.

Definition is_prefix {A} (l1 l2 : list A) : Prop := exists r, l2 = l1 ++ r.

Lemma core_leader_append_only cfg i sv f l sv' out ltr :
  server_core cfg i sv f l = HR sv' out ltr ->
  s_role sv = Leader -> s_role sv' = Leader -> s_log sv = firstn (List.length (s_log sv)) (s_log sv').
Proof.
  intros H Hl Hl'. destruct l; core_cases H; cbn in *; rewrite ?update_term_log, ?update_term_role in *;
    try (rewrite firstn_all; reflexivity);
    try (rewrite firstn_app, firstn_all, Nat.sub_diag; cbn; now rewrite app_nil_r);
    try congruence.
  all: repeat destr_in Hl'; try congruence; rewrite ?Hl in *; cbn in *; try discriminate.
Qed.

(* ---------- lifted to steps and executions ---------- *)
Lemma step_srv_cases cfg s ev s' : step cfg s ev = Commit s' ->
  forall j, srv s' j = srv s j \/
    (exists l out ltr, is_server cfg j = true /\ server_core cfg j (srv s j) (check_fail cfg s j) l = HR (srv s' j) out ltr) \/
    (exists m, srv s' j = set_pc0 true (set_m (Some m) (srv s j))).
Proof.
  intros H j. destruct (step_shape_of _ _ _ _ H).
  - rewrite Hsrv. destruct (Nat.eq_dec j i) as [->|Hn].
    + rewrite upd_same. right. left. eauto.
    + rewrite upd_other by auto. auto.
  - rewrite Hsrv. destruct (Nat.eq_dec j i) as [->|Hn].
    + rewrite upd_same. right. right. eauto.
    + rewrite upd_other by auto. auto.
  - rewrite Hsrv. auto.
  - rewrite Hsrv. auto.
Qed.

Theorem term_monotone_step cfg s ev s' j :
  step cfg s ev = Commit s' -> s_term (srv s j) <= s_term (srv s' j).
Proof.
  intros H. destruct (step_srv_cases _ _ _ _ H j) as [E|[(l & out & ltr & _ & E)|(m & E)]].
  - rewrite E. lia.
  - eapply core_term_mono; eauto.
  - rewrite E. cbn. lia.
Qed.

Theorem commit_monotone_step cfg s ev s' j :
  step cfg s ev = Commit s' -> s_commit (srv s j) <= s_commit (srv s' j).
Proof.
  intros H. destruct (step_srv_cases _ _ _ _ H j) as [E|[(l & out & ltr & _ & E)|(m & E)]].
  - rewrite E. lia.
  - eapply core_commit_mono; eauto.
  - rewrite E. cbn. lia.
Qed.

(* LeaderAppendOnly == [][\A i \in ServerSet: (state[i] = Leader /\ state'[i] = Leader)
                             => log[i] = SubSeq(log'[i], 1, Len(log[i]))]_vars *)
Theorem leader_append_only_step cfg s ev s' i :
  step cfg s ev = Commit s' ->
  s_role (srv s i) = Leader -> s_role (srv s' i) = Leader ->
  s_log (srv s i) = firstn (List.length (s_log (srv s i))) (s_log (srv s' i)).
Proof.
  intros H Hl Hl'. destruct (step_srv_cases _ _ _ _ H i) as [E|[(l & out & ltr & _ & E)|(m & E)]].
  - rewrite E. now rewrite firstn_all.
  - eapply core_leader_append_only; eauto.
  - rewrite E. cbn. now rewrite firstn_all.
Qed.

(* executions continuing from a state *)
Inductive steps (cfg : config) : state -> state -> Prop :=
| steps_refl s : steps cfg s s
| steps_step s s' ev s'' : steps cfg s s' -> step cfg s' ev = Commit s'' -> steps cfg s s''.

Lemma reachable_steps cfg s s' : reachable cfg s -> steps cfg s s' -> reachable cfg s'.
Proof. intros Hr Hs. induction Hs; auto. eapply reach_step; [apply IHHs; exact Hr | eassumption]. Qed.

Lemma reachable_from_init cfg s : reachable cfg s <-> steps cfg (init cfg) s.
Proof.
  split; intros H.
  - induction H; [constructor | econstructor; eauto].
  - eapply reachable_steps; [constructor | exact H].
Qed.

Theorem term_monotone_steps cfg s s' j : steps cfg s s' -> s_term (srv s j) <= s_term (srv s' j).
Proof. induction 1; [lia|]. pose proof (term_monotone_step _ _ _ _ j H0). lia. Qed.

Theorem commit_monotone_steps cfg s s' j : steps cfg s s' -> s_commit (srv s j) <= s_commit (srv s' j).
Proof. induction 1; [lia|]. pose proof (commit_monotone_step _ _ _ _ j H0). lia. Qed.

Lemma exec_steps cfg s evs s' : exec cfg s evs = Some s' -> steps cfg s s'.
Proof.
  revert s; induction evs as [|e r IH]; cbn; intros s H.
  - injection H as <-. constructor.
  - destruct (step cfg s e) eqn:E; try discriminate.
    specialize (IH _ H). clear H. induction IH; [econstructor; [constructor|eauto] | econstructor; eauto].
Qed.
Lemma steps_exec cfg s s' : steps cfg s s' -> exists evs, exec cfg s evs = Some s'.
Proof.
  induction 1 as [|s s' ev s'' _ [evs IH] Hs]; [exists []; reflexivity|].
  exists (evs ++ [ev]). revert s IH. induction evs as [|e r IHr]; cbn; intros s IH.
  - injection IH as ->. now rewrite Hs.
  - destruct (step cfg s e); try discriminate. auto.
Qed.
Lemma exec_reachable cfg evs s : exec cfg (init cfg) evs = Some s -> reachable cfg s.
Proof. intros H. apply reachable_from_init. eapply exec_steps; eauto. Qed.
Lemma exec_app cfg s evs1 evs2 : exec cfg s (evs1 ++ evs2) =
  match exec cfg s evs1 with Some s1 => exec cfg s1 evs2 | None => None end.
Proof.
  revert s; induction evs1 as [|e r IH]; cbn; intros s; auto.
  destruct (step cfg s e); auto.
Qed.
