(* C08 — executable typed model of systems/raftkvs (raftkvs.tla MPCal source = raftkvs.go generated code).
   Model only: no proofs here. Transcribed label by label:
     AServer.serverLoop / handleMsg (rvq, rvp, apq, app, cpq|cgq), AServerRequestVote.serverRequestVoteLoop /
     requestVoteLoop, AServerAppendEntries.serverAppendEntriesLoop / appendEntriesLoop,
     AServerAdvanceCommitIndex.serverAdvanceCommitIndexLoop / applyLoop, AServerBecomeLeader.serverBecomeLeaderLoop,
     AClient.clientLoop / sndReq / rcvResp, AServerCrasher.serverCrash / fdUpdate,
   with the mapping macros ReliableFIFOLink, NetworkBufferLength, NetworkToggle, UnreliableFD, PersistentLog,
   Channel, LeaderTimeout, ClientTimeout, RequestsChannel.
   Any number of servers/clients, unbounded terms and logs. Every nondeterministic choice of the spec
   (branch of an `either`, value read from fd / netLen / leaderTimeout / timeout, which message is delivered,
   the client's request and the server it picks) is an explicit argument of the event.

   Network: per destination the list of undelivered messages in send order. cfg_fifo = false: any message may be
   read (the spec's bag). cfg_fifo = true: only a message with no earlier message of the same link, where a link is
   (sending archetype instance, destination) -- each archetype instance owns its connections in the deployment
   (bootstrap/server.go), and the kinds of message an archetype sends are disjoint, so the link is determined by
   (msource, kind class).

   Node ids are the spec's: servers 1..N, clients 6N+1..6N+NC. Nil = 0. Keys/values are numbers (the harness
   maps the strings "k3"/"v7" to 3/7); value 0 = Nil. *)
From Coq Require Export List Arith Bool NArith.
Export ListNotations.

Inductive role := Follower | Candidate | Leader.
Inductive ctype := CPut | CGet.

Record cmd := mkCmd { c_idx : nat; c_type : ctype; c_key : nat; c_val : nat }.   (* c_val = 0 for Get (no field) *)
Record entry := mkEntry { e_term : nat; e_cmd : cmd; e_client : nat }.

Inductive msg :=
| RVQ (mterm mlastLogTerm mlastLogIndex msource mdest : nat)
| RVP (mterm : nat) (mvoteGranted : bool) (msource mdest : nat)
| APQ (mterm mprevLogIndex mprevLogTerm : nat) (mentries : list entry) (mcommitIndex msource mdest : nat)
| APP (mterm : nat) (msuccess : bool) (mmatchIndex msource mdest : nat)
| CRQ (mcmd : cmd) (msource mdest : nat)                          (* cpq / cgq according to c_type *)
| CRP (mtype : ctype) (msuccess : bool) (ridx rkey rvalue : nat) (rok : bool) (mleaderHint msource mdest : nat).
   (* cpp / cgp; a failed response has no value/ok fields: rvalue = 0, rok = false *)

Definition msg_dest (m : msg) : nat :=
  match m with
  | RVQ _ _ _ _ d | RVP _ _ _ d | APQ _ _ _ _ _ _ d | APP _ _ _ _ d | CRQ _ _ d | CRP _ _ _ _ _ _ _ _ d => d
  end.
Definition msg_src (m : msg) : nat :=
  match m with
  | RVQ _ _ _ s _ | RVP _ _ s _ | APQ _ _ _ _ _ s _ | APP _ _ _ s _ | CRQ _ s _ | CRP _ _ _ _ _ _ _ s _ => s
  end.
(* which archetype of the source node sent it: 0 AServer, 1 RequestVote, 2 AppendEntries, 3 AdvanceCommitIndex, 6 client *)
Definition msg_class (m : msg) : nat :=
  match m with
  | RVQ _ _ _ _ _ => 1
  | APQ _ _ _ _ _ _ _ => 2
  | RVP _ _ _ _ | APP _ _ _ _ _ => 0
  | CRQ _ _ _ => 6
  | CRP _ succ _ _ _ _ _ _ _ => if succ then 3 else 0
  end.
Definition same_link (a b : msg) : bool :=
  Nat.eqb (msg_src a) (msg_src b) && Nat.eqb (msg_class a) (msg_class b).

Record server := mkServer {
  s_role : role;
  s_term : nat;
  s_voted : nat;
  s_log : list entry;
  s_commit : nat;
  s_next : nat -> nat;
  s_match : nat -> nat;
  s_vresp : list nat;
  s_vgrant : list nat;
  s_leader : nat;
  s_sm : list (nat * nat);
  s_smdom : list nat;
  s_plog : list entry;
  s_aech : nat;
  s_blch : nat;
  s_pc0 : bool;
  s_m : option msg;
  s_pc1 : bool;
  s_idx1 : nat;
  s_pc2 : bool;
  s_idx2 : nat;
  s_pc3 : bool;
  s_newci : nat
}.

Definition set_role (v : role) (sv : server) : server :=
  mkServer v (s_term sv) (s_voted sv) (s_log sv) (s_commit sv) (s_next sv) (s_match sv) (s_vresp sv) (s_vgrant sv) (s_leader sv) (s_sm sv) (s_smdom sv) (s_plog sv) (s_aech sv) (s_blch sv) (s_pc0 sv) (s_m sv) (s_pc1 sv) (s_idx1 sv) (s_pc2 sv) (s_idx2 sv) (s_pc3 sv) (s_newci sv).
Definition set_term (v : nat) (sv : server) : server :=
  mkServer (s_role sv) v (s_voted sv) (s_log sv) (s_commit sv) (s_next sv) (s_match sv) (s_vresp sv) (s_vgrant sv) (s_leader sv) (s_sm sv) (s_smdom sv) (s_plog sv) (s_aech sv) (s_blch sv) (s_pc0 sv) (s_m sv) (s_pc1 sv) (s_idx1 sv) (s_pc2 sv) (s_idx2 sv) (s_pc3 sv) (s_newci sv).
Definition set_voted (v : nat) (sv : server) : server :=
  mkServer (s_role sv) (s_term sv) v (s_log sv) (s_commit sv) (s_next sv) (s_match sv) (s_vresp sv) (s_vgrant sv) (s_leader sv) (s_sm sv) (s_smdom sv) (s_plog sv) (s_aech sv) (s_blch sv) (s_pc0 sv) (s_m sv) (s_pc1 sv) (s_idx1 sv) (s_pc2 sv) (s_idx2 sv) (s_pc3 sv) (s_newci sv).
Definition set_log (v : list entry) (sv : server) : server :=
  mkServer (s_role sv) (s_term sv) (s_voted sv) v (s_commit sv) (s_next sv) (s_match sv) (s_vresp sv) (s_vgrant sv) (s_leader sv) (s_sm sv) (s_smdom sv) (s_plog sv) (s_aech sv) (s_blch sv) (s_pc0 sv) (s_m sv) (s_pc1 sv) (s_idx1 sv) (s_pc2 sv) (s_idx2 sv) (s_pc3 sv) (s_newci sv).
Definition set_commit (v : nat) (sv : server) : server :=
  mkServer (s_role sv) (s_term sv) (s_voted sv) (s_log sv) v (s_next sv) (s_match sv) (s_vresp sv) (s_vgrant sv) (s_leader sv) (s_sm sv) (s_smdom sv) (s_plog sv) (s_aech sv) (s_blch sv) (s_pc0 sv) (s_m sv) (s_pc1 sv) (s_idx1 sv) (s_pc2 sv) (s_idx2 sv) (s_pc3 sv) (s_newci sv).
Definition set_next (v : nat -> nat) (sv : server) : server :=
  mkServer (s_role sv) (s_term sv) (s_voted sv) (s_log sv) (s_commit sv) v (s_match sv) (s_vresp sv) (s_vgrant sv) (s_leader sv) (s_sm sv) (s_smdom sv) (s_plog sv) (s_aech sv) (s_blch sv) (s_pc0 sv) (s_m sv) (s_pc1 sv) (s_idx1 sv) (s_pc2 sv) (s_idx2 sv) (s_pc3 sv) (s_newci sv).
Definition set_match (v : nat -> nat) (sv : server) : server :=
  mkServer (s_role sv) (s_term sv) (s_voted sv) (s_log sv) (s_commit sv) (s_next sv) v (s_vresp sv) (s_vgrant sv) (s_leader sv) (s_sm sv) (s_smdom sv) (s_plog sv) (s_aech sv) (s_blch sv) (s_pc0 sv) (s_m sv) (s_pc1 sv) (s_idx1 sv) (s_pc2 sv) (s_idx2 sv) (s_pc3 sv) (s_newci sv).
Definition set_vresp (v : list nat) (sv : server) : server :=
  mkServer (s_role sv) (s_term sv) (s_voted sv) (s_log sv) (s_commit sv) (s_next sv) (s_match sv) v (s_vgrant sv) (s_leader sv) (s_sm sv) (s_smdom sv) (s_plog sv) (s_aech sv) (s_blch sv) (s_pc0 sv) (s_m sv) (s_pc1 sv) (s_idx1 sv) (s_pc2 sv) (s_idx2 sv) (s_pc3 sv) (s_newci sv).
Definition set_vgrant (v : list nat) (sv : server) : server :=
  mkServer (s_role sv) (s_term sv) (s_voted sv) (s_log sv) (s_commit sv) (s_next sv) (s_match sv) (s_vresp sv) v (s_leader sv) (s_sm sv) (s_smdom sv) (s_plog sv) (s_aech sv) (s_blch sv) (s_pc0 sv) (s_m sv) (s_pc1 sv) (s_idx1 sv) (s_pc2 sv) (s_idx2 sv) (s_pc3 sv) (s_newci sv).
Definition set_leader (v : nat) (sv : server) : server :=
  mkServer (s_role sv) (s_term sv) (s_voted sv) (s_log sv) (s_commit sv) (s_next sv) (s_match sv) (s_vresp sv) (s_vgrant sv) v (s_sm sv) (s_smdom sv) (s_plog sv) (s_aech sv) (s_blch sv) (s_pc0 sv) (s_m sv) (s_pc1 sv) (s_idx1 sv) (s_pc2 sv) (s_idx2 sv) (s_pc3 sv) (s_newci sv).
Definition set_sm (v : list (nat * nat)) (sv : server) : server :=
  mkServer (s_role sv) (s_term sv) (s_voted sv) (s_log sv) (s_commit sv) (s_next sv) (s_match sv) (s_vresp sv) (s_vgrant sv) (s_leader sv) v (s_smdom sv) (s_plog sv) (s_aech sv) (s_blch sv) (s_pc0 sv) (s_m sv) (s_pc1 sv) (s_idx1 sv) (s_pc2 sv) (s_idx2 sv) (s_pc3 sv) (s_newci sv).
Definition set_smdom (v : list nat) (sv : server) : server :=
  mkServer (s_role sv) (s_term sv) (s_voted sv) (s_log sv) (s_commit sv) (s_next sv) (s_match sv) (s_vresp sv) (s_vgrant sv) (s_leader sv) (s_sm sv) v (s_plog sv) (s_aech sv) (s_blch sv) (s_pc0 sv) (s_m sv) (s_pc1 sv) (s_idx1 sv) (s_pc2 sv) (s_idx2 sv) (s_pc3 sv) (s_newci sv).
Definition set_plog (v : list entry) (sv : server) : server :=
  mkServer (s_role sv) (s_term sv) (s_voted sv) (s_log sv) (s_commit sv) (s_next sv) (s_match sv) (s_vresp sv) (s_vgrant sv) (s_leader sv) (s_sm sv) (s_smdom sv) v (s_aech sv) (s_blch sv) (s_pc0 sv) (s_m sv) (s_pc1 sv) (s_idx1 sv) (s_pc2 sv) (s_idx2 sv) (s_pc3 sv) (s_newci sv).
Definition set_aech (v : nat) (sv : server) : server :=
  mkServer (s_role sv) (s_term sv) (s_voted sv) (s_log sv) (s_commit sv) (s_next sv) (s_match sv) (s_vresp sv) (s_vgrant sv) (s_leader sv) (s_sm sv) (s_smdom sv) (s_plog sv) v (s_blch sv) (s_pc0 sv) (s_m sv) (s_pc1 sv) (s_idx1 sv) (s_pc2 sv) (s_idx2 sv) (s_pc3 sv) (s_newci sv).
Definition set_blch (v : nat) (sv : server) : server :=
  mkServer (s_role sv) (s_term sv) (s_voted sv) (s_log sv) (s_commit sv) (s_next sv) (s_match sv) (s_vresp sv) (s_vgrant sv) (s_leader sv) (s_sm sv) (s_smdom sv) (s_plog sv) (s_aech sv) v (s_pc0 sv) (s_m sv) (s_pc1 sv) (s_idx1 sv) (s_pc2 sv) (s_idx2 sv) (s_pc3 sv) (s_newci sv).
Definition set_pc0 (v : bool) (sv : server) : server :=
  mkServer (s_role sv) (s_term sv) (s_voted sv) (s_log sv) (s_commit sv) (s_next sv) (s_match sv) (s_vresp sv) (s_vgrant sv) (s_leader sv) (s_sm sv) (s_smdom sv) (s_plog sv) (s_aech sv) (s_blch sv) v (s_m sv) (s_pc1 sv) (s_idx1 sv) (s_pc2 sv) (s_idx2 sv) (s_pc3 sv) (s_newci sv).
Definition set_m (v : option msg) (sv : server) : server :=
  mkServer (s_role sv) (s_term sv) (s_voted sv) (s_log sv) (s_commit sv) (s_next sv) (s_match sv) (s_vresp sv) (s_vgrant sv) (s_leader sv) (s_sm sv) (s_smdom sv) (s_plog sv) (s_aech sv) (s_blch sv) (s_pc0 sv) v (s_pc1 sv) (s_idx1 sv) (s_pc2 sv) (s_idx2 sv) (s_pc3 sv) (s_newci sv).
Definition set_pc1 (v : bool) (sv : server) : server :=
  mkServer (s_role sv) (s_term sv) (s_voted sv) (s_log sv) (s_commit sv) (s_next sv) (s_match sv) (s_vresp sv) (s_vgrant sv) (s_leader sv) (s_sm sv) (s_smdom sv) (s_plog sv) (s_aech sv) (s_blch sv) (s_pc0 sv) (s_m sv) v (s_idx1 sv) (s_pc2 sv) (s_idx2 sv) (s_pc3 sv) (s_newci sv).
Definition set_idx1 (v : nat) (sv : server) : server :=
  mkServer (s_role sv) (s_term sv) (s_voted sv) (s_log sv) (s_commit sv) (s_next sv) (s_match sv) (s_vresp sv) (s_vgrant sv) (s_leader sv) (s_sm sv) (s_smdom sv) (s_plog sv) (s_aech sv) (s_blch sv) (s_pc0 sv) (s_m sv) (s_pc1 sv) v (s_pc2 sv) (s_idx2 sv) (s_pc3 sv) (s_newci sv).
Definition set_pc2 (v : bool) (sv : server) : server :=
  mkServer (s_role sv) (s_term sv) (s_voted sv) (s_log sv) (s_commit sv) (s_next sv) (s_match sv) (s_vresp sv) (s_vgrant sv) (s_leader sv) (s_sm sv) (s_smdom sv) (s_plog sv) (s_aech sv) (s_blch sv) (s_pc0 sv) (s_m sv) (s_pc1 sv) (s_idx1 sv) v (s_idx2 sv) (s_pc3 sv) (s_newci sv).
Definition set_idx2 (v : nat) (sv : server) : server :=
  mkServer (s_role sv) (s_term sv) (s_voted sv) (s_log sv) (s_commit sv) (s_next sv) (s_match sv) (s_vresp sv) (s_vgrant sv) (s_leader sv) (s_sm sv) (s_smdom sv) (s_plog sv) (s_aech sv) (s_blch sv) (s_pc0 sv) (s_m sv) (s_pc1 sv) (s_idx1 sv) (s_pc2 sv) v (s_pc3 sv) (s_newci sv).
Definition set_pc3 (v : bool) (sv : server) : server :=
  mkServer (s_role sv) (s_term sv) (s_voted sv) (s_log sv) (s_commit sv) (s_next sv) (s_match sv) (s_vresp sv) (s_vgrant sv) (s_leader sv) (s_sm sv) (s_smdom sv) (s_plog sv) (s_aech sv) (s_blch sv) (s_pc0 sv) (s_m sv) (s_pc1 sv) (s_idx1 sv) (s_pc2 sv) (s_idx2 sv) v (s_newci sv).
Definition set_newci (v : nat) (sv : server) : server :=
  mkServer (s_role sv) (s_term sv) (s_voted sv) (s_log sv) (s_commit sv) (s_next sv) (s_match sv) (s_vresp sv) (s_vgrant sv) (s_leader sv) (s_sm sv) (s_smdom sv) (s_plog sv) (s_aech sv) (s_blch sv) (s_pc0 sv) (s_m sv) (s_pc1 sv) (s_idx1 sv) (s_pc2 sv) (s_idx2 sv) (s_pc3 sv) v.

(* ---------- small library ---------- *)
Definition upd {A} (f : nat -> A) (i : nat) (v : A) : nat -> A := fun j => if Nat.eqb j i then v else f j.

(* finite sets of numbers: strictly increasing lists *)
Fixpoint ins (x : nat) (l : list nat) : list nat :=
  match l with
  | [] => [x]
  | y :: r => if x <? y then x :: l else if x =? y then l else y :: ins x r
  end.
Definition mem (x : nat) (l : list nat) : bool := existsb (Nat.eqb x) l.

(* finite maps key -> value: strictly increasing in the key;  (k :> v) @@ f *)
Fixpoint sm_put (k v : nat) (l : list (nat * nat)) : list (nat * nat) :=
  match l with
  | [] => [(k, v)]
  | (k', v') :: r => if k <? k' then (k, v) :: l else if k =? k' then (k, v) :: r else (k', v') :: sm_put k v r
  end.
Fixpoint sm_get (k : nat) (l : list (nat * nat)) : option nat :=
  match l with
  | [] => None
  | (k', v') :: r => if k =? k' then Some v' else sm_get k r
  end.

Definition ctype_eqb (a b : ctype) : bool :=
  match a, b with CPut, CPut | CGet, CGet => true | _, _ => false end.
Definition role_eqb (a b : role) : bool :=
  match a, b with Follower, Follower | Candidate, Candidate | Leader, Leader => true | _, _ => false end.

(* log[k], 1-based *)
Definition log_at (l : list entry) (k : nat) : option entry :=
  match k with 0 => None | S k' => nth_error l k' end.
Definition term_at (l : list entry) (k : nat) : option nat := option_map e_term (log_at l k).
(* LastTerm(xlog) *)
Definition last_term (l : list entry) : nat :=
  match log_at l (List.length l) with Some e => e_term e | None => 0 end.

(* ApplyLogEntry / ApplyLog(xlog, start, end, xsm, xsmDomain) *)
Definition apply_entry (e : entry) (smd : list (nat * nat) * list nat) : list (nat * nat) * list nat :=
  match c_type (e_cmd e) with
  | CPut => (sm_put (c_key (e_cmd e)) (c_val (e_cmd e)) (fst smd), ins (c_key (e_cmd e)) (snd smd))
  | CGet => smd
  end.
Definition apply_log (l : list entry) (start stop : nat) (smd : list (nat * nat) * list nat) :=
  fold_left (fun acc e => apply_entry e acc) (firstn (S stop - start) (skipn (start - 1) l)) smd.

Record config := mkConfig {
  cfg_n : nat;            (* NumServers *)
  cfg_nc : nat;           (* NumClients *)
  cfg_buf : nat;          (* BufferSize *)
  cfg_fifo : bool;        (* true: per-link FIFO delivery; false: the spec's bag *)
  cfg_explorefail : bool; (* ExploreFail *)
  cfg_ltreset : bool      (* LeaderTimeoutReset *)
}.

Definition is_quorum (cfg : config) (s : list nat) : bool := cfg_n cfg <? List.length s * 2.

(* FindMaxAgreeIndexRec(logLocal, i, matchIndex, index) *)
Definition agree_set (cfg : config) (i : nat) (mi : nat -> nat) (index : nat) : list nat :=
  ins i (filter (fun k => index <=? mi k) (seq 1 (cfg_n cfg))).
Fixpoint find_max_agree (cfg : config) (i : nat) (mi : nat -> nat) (index : nat) : nat :=
  match index with
  | 0 => 0
  | S index' => if is_quorum cfg (agree_set cfg i mi index) then index else find_max_agree cfg i mi index'
  end.

(* ---------- clients ---------- *)
Record request := mkReq { r_type : ctype; r_key : nat; r_val : nat }.
Inductive cpc := CL | SND | RCV.                       (* clientLoop, sndReq, rcvResp *)
Record client := mkClient {
  cl_pc : cpc; cl_leader : nat; cl_req : option request; cl_reqidx : nat
}.
Definition client_init : client := mkClient CL 0 None 0.

(* what the clients see: reads of reqCh (invocations) and writes of respCh (responses) *)
Inductive hevent :=
| HInv (c idx : nat) (r : request)
| HResp (c idx : nat) (t : ctype) (key value : nat) (ok : bool).

Record state := mkState {
  srv : nat -> server;
  net : nat -> list msg;           (* network[d].queue, in send order *)
  enabled : nat -> bool;           (* network[d].enabled *)
  fd : nat -> bool;
  ltimeout : bool;                 (* leaderTimeout *)
  cli : nat -> client;
  crasher : nat -> nat;            (* pc of the crasher of server i: 0 serverCrash, 1 fdUpdate, 2 Done *)
  hist : list hevent               (* newest first *)
}.

Definition server_init (cfg : config) : server :=
  mkServer Follower 1 0 [] 0 (fun _ => 1) (fun _ => 0) [] [] 0 [] [] [] 0
           (if 1 <? cfg_n cfg then 0 else 1)
           false None false 1 false 0 false 0.

Definition init (cfg : config) : state :=
  mkState (fun _ => server_init cfg) (fun _ => []) (fun _ => true) (fun _ => false) true
          (fun _ => client_init) (fun _ => 0) [].

Definition set_srv (i : nat) (sv : server) (s : state) : state :=
  mkState (upd (srv s) i sv) (net s) (enabled s) (fd s) (ltimeout s) (cli s) (crasher s) (hist s).
Definition set_net (d : nat) (q : list msg) (s : state) : state :=
  mkState (srv s) (upd (net s) d q) (enabled s) (fd s) (ltimeout s) (cli s) (crasher s) (hist s).
Definition set_enabled (d : nat) (b : bool) (s : state) : state :=
  mkState (srv s) (net s) (upd (enabled s) d b) (fd s) (ltimeout s) (cli s) (crasher s) (hist s).
Definition set_fd (d : nat) (b : bool) (s : state) : state :=
  mkState (srv s) (net s) (enabled s) (upd (fd s) d b) (ltimeout s) (cli s) (crasher s) (hist s).
Definition set_ltimeout (b : bool) (s : state) : state :=
  mkState (srv s) (net s) (enabled s) (fd s) b (cli s) (crasher s) (hist s).
Definition set_cli (c : nat) (x : client) (s : state) : state :=
  mkState (srv s) (net s) (enabled s) (fd s) (ltimeout s) (upd (cli s) c x) (crasher s) (hist s).
Definition set_crasher (i : nat) (p : nat) (s : state) : state :=
  mkState (srv s) (net s) (enabled s) (fd s) (ltimeout s) (cli s) (upd (crasher s) i p) (hist s).
Definition add_hist (h : hevent) (s : state) : state :=
  mkState (srv s) (net s) (enabled s) (fd s) (ltimeout s) (cli s) (crasher s) (h :: hist s).

Inductive outcome :=
| Commit (s : state)
| Abort            (* a false await: the attempt is rolled back, nothing changes *)
| AssertFail       (* a PlusCal assert failed *)
| TypeErr          (* a TLA+ expression is undefined (index out of range ...) *)
| BadEvent.        (* the event does not fit the state (wrong pc, choice out of its range) *)

Definition is_server (cfg : config) (i : nat) : bool := (1 <=? i) && (i <=? cfg_n cfg).
Definition is_client (cfg : config) (c : nat) : bool := (6 * cfg_n cfg + 1 <=? c) && (c <=? 6 * cfg_n cfg + cfg_nc cfg).

(* checkFail(selfId, netEnabled): true = the await FALSE is hit *)
Definition check_fail (cfg : config) (s : state) (i : nat) : bool := cfg_explorefail cfg && negb (enabled s i).

(* write of ReliableFIFOLink: await enabled; await BagCardinality < BufferSize *)
Definition net_write (cfg : config) (s : state) (d : nat) (m : msg) : option state :=
  if enabled s d && (List.length (net s d) <? cfg_buf cfg) then Some (set_net d (net s d ++ [m]) s) else None.

(* macro Send(net, dest, fd, m): either { net[dest] := m } or { await fd[dest] }; fd reads are UnreliableFD *)
Definition send (cfg : config) (s : state) (d : nat) (m : msg) (br : nat) (fdv : bool) : outcome :=
  match br with
  | 0 => match net_write cfg s d m with Some s' => Commit s' | None => Abort end
  | 1 => if fdv then Commit s else Abort
  | _ => BadEvent
  end.

(* read of ReliableFIFOLink at position k (0-based) of the queue *)
Fixpoint remove_nth {A} (k : nat) (l : list A) : list A :=
  match l, k with
  | [], _ => []
  | _ :: r, 0 => r
  | x :: r, S k' => x :: remove_nth k' r
  end.
Definition deliverable (cfg : config) (q : list msg) (k : nat) : bool :=
  match nth_error q k with
  | None => false
  | Some m => if cfg_fifo cfg then negb (existsb (same_link m) (firstn k q)) else true
  end.

(* ---------- server labels as pure functions of one server record ----------
   Every label of the five server archetypes except serverLoop reads and writes only the server's own variables, and
   sends at most one message. `hres` is what the attempt does; `finish` applies it to the global state. *)
Inductive sendmode := ViaSend | Direct.     (* macro Send (either ... or await fd[dest])  |  net[d] := m *)
Inductive hres :=
| HR (sv' : server) (out : option (sendmode * nat * msg)) (ltreset : bool)   (* ltreset: leaderTimeout := LeaderTimeoutReset *)
| HAbort | HAssert | HTypeErr | HBad.

(* macro UpdateTerm *)
Definition update_term (mt : nat) (sv : server) : server :=
  if s_term sv <? mt then set_leader 0 (set_voted 0 (set_role Follower (set_term mt sv))) else sv.

Definition back_to_loop (sv : server) : server := set_pc0 false sv.

(* handleMsg, one function per message kind; sv is the server before the step *)
Definition handle_rvq (i : nat) (sv : server) (mt llt lli j : nat) : hres :=
  let sv1 := update_term mt sv in
  let logOK := (last_term (s_log sv1) <? llt) ||
               ((llt =? last_term (s_log sv1)) && (List.length (s_log sv1) <=? lli)) in
  let grant := (mt =? s_term sv1) && logOK && ((s_voted sv1 =? 0) || (s_voted sv1 =? j)) in
  if negb (mt <=? s_term sv1) then HAssert else
  let sv2 := if grant then set_voted j sv1 else sv1 in
  HR (back_to_loop sv2) (Some (ViaSend, j, RVP (s_term sv2) grant i j)) false.

Definition handle_rvp (cfg : config) (i : nat) (sv : server) (mt : nat) (granted : bool) (j : nat) : hres :=
  let sv1 := update_term mt sv in
  if mt <? s_term sv1 then HR (back_to_loop sv1) None false else
  if negb (mt =? s_term sv1) then HAssert else
  let sv2 := set_vresp (ins j (s_vresp sv1)) sv1 in
  if granted then
    let sv3 := set_vgrant (ins j (s_vgrant sv2)) sv2 in
    let sv4 := if role_eqb (s_role sv3) Candidate && is_quorum cfg (s_vgrant sv3)
               then set_blch (S (s_blch sv3)) sv3 else sv3 in
    HR (back_to_loop sv4) None true
  else HR (back_to_loop sv2) None false.

Definition handle_apq (i : nat) (sv : server) (mt prev prevT : nat) (entries : list entry) (mcommit j : nat) : hres :=
  let sv1 := update_term mt sv in
  let logOK := (prev =? 0) ||
               ((0 <? prev) && (prev <=? List.length (s_log sv1)) &&
                match term_at (s_log sv1) prev with Some t => prevT =? t | None => false end) in
  if negb (mt <=? s_term sv1) then HAssert else
  let cur := mt =? s_term sv1 in
  let sv2 := if cur then set_leader j sv1 else sv1 in
  let sv3 := if cur && role_eqb (s_role sv2) Candidate then set_role Follower sv2 else sv2 in
  if (mt <? s_term sv3) || (cur && role_eqb (s_role sv3) Follower && negb logOK) then
    HR (back_to_loop sv3) (Some (ViaSend, j, APP (s_term sv3) false 0 i j)) cur
  else
    if negb (cur && role_eqb (s_role sv3) Follower && logOK) then HAssert else
    (* plog[i] := [cmd |-> LogPop, cnt |-> Len(log[i]) - prev]; log[i] := SubSeq(log[i], 1, prev);
       plog[i] := [cmd |-> LogConcat, entries |-> mentries]; log[i] := log[i] \o mentries *)
    let plog' := firstn (List.length (s_plog sv3) - (List.length (s_log sv3) - prev)) (s_plog sv3) ++ entries in
    let log' := firstn prev (s_log sv3) ++ entries in
    if negb (mcommit <=? List.length log') then HAssert else
    let r := apply_log log' (s_commit sv3 + 1) mcommit (s_sm sv3, s_smdom sv3) in
    let sv4 := set_commit (Nat.max (s_commit sv3) mcommit)
                 (set_smdom (snd r) (set_sm (fst r) (set_log log' (set_plog plog' sv3)))) in
    HR (back_to_loop sv4) (Some (ViaSend, j, APP (s_term sv4) true (prev + List.length entries) i j)) cur.

Definition handle_app (i : nat) (sv : server) (mt : nat) (success : bool) (mi j : nat) : hres :=
  let sv1 := update_term mt sv in
  if mt <? s_term sv1 then HR (back_to_loop sv1) None false else
  if negb (mt =? s_term sv1) then HAssert else
  if success then
    HR (back_to_loop (set_match (upd (s_match sv1) j mi) (set_next (upd (s_next sv1) j (mi + 1)) sv1))) None true
  else
    HR (back_to_loop (set_next (upd (s_next sv1) j (Nat.max (s_next sv1 j - 1) 1)) sv1)) None true.

Definition handle_crq (i : nat) (sv : server) (c : cmd) (j : nat) : hres :=
  if role_eqb (s_role sv) Leader then
    let e := mkEntry (s_term sv) c j in
    HR (back_to_loop (set_aech (S (s_aech sv)) (set_plog (s_plog sv ++ [e]) (set_log (s_log sv ++ [e]) sv)))) None false
  else
    HR (back_to_loop sv) (Some (Direct, j, CRP (c_type c) false (c_idx c) (c_key c) 0 false (s_leader sv) i j)) false.

Definition handle_msg (cfg : config) (i : nat) (sv : server) (failed : bool) : hres :=
  if negb (s_pc0 sv) then HBad else
  if failed then HAbort else
  match s_m sv with
  | None => HTypeErr
  | Some (RVQ mt llt lli j _) => handle_rvq i sv mt llt lli j
  | Some (RVP mt g j _) => handle_rvp cfg i sv mt g j
  | Some (APQ mt prev prevT es mc j _) => handle_apq i sv mt prev prevT es mc j
  | Some (APP mt succ mi j _) => handle_app i sv mt succ mi j
  | Some (CRQ c j _) => handle_crq i sv c j
  | Some (CRP _ _ _ _ _ _ _ _ _) => HR (back_to_loop sv) None false
  end.

(* AServerRequestVote.serverRequestVoteLoop: checkFail; await leaderTimeout (read lt); await netLen[srvId] = 0 (read len);
   await state in {Follower, Candidate}; become candidate of the next term *)
Definition rv_timeout (i : nat) (sv : server) (failed : bool) (lt : bool) (len : nat) : hres :=
  if s_pc1 sv then HBad else
  if failed then HAbort else
  if negb lt then HAbort else
  if negb (len =? 0) then HAbort else
  if role_eqb (s_role sv) Leader then HAbort else
  HR (set_pc1 true (set_idx1 1 (set_leader 0 (set_vgrant [i] (set_vresp [i] (set_voted i
       (set_term (s_term sv + 1) (set_role Candidate sv)))))))) None false.

(* AServerRequestVote.requestVoteLoop *)
Definition rv_send (cfg : config) (i : nat) (sv : server) (failed : bool) : hres :=
  if negb (s_pc1 sv) then HBad else
  if s_idx1 sv <=? cfg_n cfg then
    if failed then HAbort else
    let sv1 := set_idx1 (s_idx1 sv + 1) sv in
    if negb (s_idx1 sv =? i) then
      HR sv1 (Some (ViaSend, s_idx1 sv,
                    RVQ (s_term sv) (last_term (s_log sv)) (List.length (s_log sv)) i (s_idx1 sv))) false
    else HR sv1 None false
  else HR (set_pc1 false sv) None false.

(* mapping macro Channel (every value ever written is TRUE): read = either { await Len > 0; pop } or { await empty; TRUE } *)
Definition chan_read (len : nat) (chbr : nat) : option (option nat) :=   (* None = bad branch; Some None = abort *)
  match chbr with
  | 0 => Some (match len with 0 => None | S l => Some l end)
  | 1 => Some (match len with 0 => Some 0 | S _ => None end)
  | _ => None
  end.

(* AServerAppendEntries.serverAppendEntriesLoop *)
Definition ae_loop (i : nat) (sv : server) (failed : bool) (chbr : nat) : hres :=
  if s_pc2 sv then HBad else
  match chan_read (s_aech sv) chbr with
  | None => HBad
  | Some None => HAbort
  | Some (Some l) =>
      if failed then HAbort else
      if negb (role_eqb (s_role sv) Leader) then HAbort else
      HR (set_pc2 true (set_idx2 1 (set_aech l sv))) None false
  end.

(* AServerAppendEntries.appendEntriesLoop *)
Definition ae_send (cfg : config) (i : nat) (sv : server) (failed : bool) : hres :=
  if negb (s_pc2 sv) then HBad else
  if role_eqb (s_role sv) Leader && (s_idx2 sv <=? cfg_n cfg) then
    if failed then HAbort else
    let sv1 := set_idx2 (s_idx2 sv + 1) sv in
    if negb (s_idx2 sv =? i) then
      let prev := s_next sv (s_idx2 sv) - 1 in
      match (if 0 <? prev then term_at (s_log sv) prev else Some 0) with
      | None => HTypeErr
      | Some prevT =>
          HR sv1 (Some (ViaSend, s_idx2 sv,
                        APQ (s_term sv) prev prevT (skipn (s_next sv (s_idx2 sv) - 1) (s_log sv)) (s_commit sv) i (s_idx2 sv)))
             false
      end
    else HR sv1 None false
  else HR (set_pc2 false sv) None false.

(* AServerAdvanceCommitIndex.serverAdvanceCommitIndexLoop *)
Definition advance (cfg : config) (i : nat) (sv : server) (failed : bool) : hres :=
  if s_pc3 sv then HBad else
  if failed then HAbort else
  if negb (role_eqb (s_role sv) Leader) then HAbort else
  let ma := find_max_agree cfg i (s_match sv) (List.length (s_log sv)) in
  match (if ma =? 0 then Some (s_commit sv)
         else match term_at (s_log sv) ma with
              | Some t => Some (if t =? s_term sv then ma else s_commit sv)
              | None => None
              end) with
  | None => HTypeErr
  | Some nci =>
      if negb (s_commit sv <=? nci) then HAssert else
      HR (set_pc3 true (set_newci nci sv)) None false
  end.

(* AServerAdvanceCommitIndex.applyLoop *)
Definition apply_step (i : nat) (sv : server) (failed : bool) : hres :=
  if negb (s_pc3 sv) then HBad else
  if s_commit sv <? s_newci sv then
    if failed then HAbort else
    let k := s_commit sv + 1 in
    match log_at (s_log sv) k with
    | None => HTypeErr
    | Some e =>
        let c := e_cmd e in
        let smd := apply_entry e (s_sm sv, s_smdom sv) in
        let ok := mem (c_key c) (snd smd) in
        match (if ok then sm_get (c_key c) (fst smd) else Some 0) with
        | None => HTypeErr
        | Some v =>
            HR (set_smdom (snd smd) (set_sm (fst smd) (set_commit k sv)))
               (Some (Direct, e_client e, CRP (c_type c) true (c_idx c) (c_key c) v ok i i (e_client e))) false
        end
    end
  else HR (set_pc3 false sv) None false.

(* AServerBecomeLeader.serverBecomeLeaderLoop *)
Definition become_leader (cfg : config) (i : nat) (sv : server) (failed : bool) (chbr : nat) : hres :=
  match chan_read (s_blch sv) chbr with
  | None => HBad
  | Some None => HAbort
  | Some (Some l) =>
      if failed then HAbort else
      if negb (role_eqb (s_role sv) Candidate) then HAbort else
      if negb (is_quorum cfg (s_vgrant sv)) then HAbort else
      HR (set_aech (S (s_aech sv)) (set_leader i (set_match (fun _ => 0)
            (set_next (fun _ => List.length (s_log sv) + 1) (set_role Leader (set_blch l sv)))))) None false
  end.

(* the labels of a server other than serverLoop, with their oracle values *)
Inductive slabel :=
| LHandleMsg | LRVTimeout (lt : bool) (len : nat) | LRVSend | LAELoop (chbr : nat) | LAESend
| LAdvance | LApply | LBecomeLeader (chbr : nat).

Definition server_core (cfg : config) (i : nat) (sv : server) (failed : bool) (l : slabel) : hres :=
  match l with
  | LHandleMsg => handle_msg cfg i sv failed
  | LRVTimeout lt len => rv_timeout i sv failed lt len
  | LRVSend => rv_send cfg i sv failed
  | LAELoop chbr => ae_loop i sv failed chbr
  | LAESend => ae_send cfg i sv failed
  | LAdvance => advance cfg i sv failed
  | LApply => apply_step i sv failed
  | LBecomeLeader chbr => become_leader cfg i sv failed chbr
  end.

Definition finish (cfg : config) (s : state) (i : nat) (r : hres) (br : nat) (fdv : bool) : outcome :=
  match r with
  | HR sv' out ltr =>
      let s1 := set_srv i sv' (if ltr then set_ltimeout (cfg_ltreset cfg) s else s) in
      match out with
      | None => Commit s1
      | Some (ViaSend, d, m) => send cfg s1 d m br fdv
      | Some (Direct, d, m) => match net_write cfg s1 d m with Some s' => Commit s' | None => Abort end
      end
  | HAbort => Abort
  | HAssert => AssertFail
  | HTypeErr => TypeErr
  | HBad => BadEvent
  end.

Definition server_step (cfg : config) (s : state) (i : nat) (l : slabel) (br : nat) (fdv : bool) : outcome :=
  match l with
  | LRVTimeout _ len => if List.length (net s i) <? len then BadEvent
                        else finish cfg s i (server_core cfg i (srv s i) (check_fail cfg s i) l) br fdv
  | _ => finish cfg s i (server_core cfg i (srv s i) (check_fail cfg s i) l) br fdv
  end.

(* AServer.serverLoop: checkFail; m := net[self]; assert m.mdest = self; goto handleMsg *)
Definition server_loop (cfg : config) (s : state) (i k : nat) : outcome :=
  let sv := srv s i in
  if s_pc0 sv then BadEvent else
  if check_fail cfg s i then Abort else
  if negb (enabled s i) then AssertFail else                 (* read: assert $variable.enabled *)
  match nth_error (net s i) k with
  | None => match net s i with [] => Abort | _ => BadEvent end     (* await BagCardinality > 0 *)
  | Some m =>
      if negb (deliverable cfg (net s i) k) then BadEvent else
      if negb (msg_dest m =? i) then AssertFail else
      Commit (set_srv i (set_pc0 true (set_m (Some m) sv)) (set_net i (remove_nth k (net s i)) s))
  end.

(* ---------- AClient ---------- *)
Definition client_loop (cfg : config) (s : state) (c : nat) (r : request) : outcome :=
  let x := cli s c in
  match cl_pc x with
  | CL => Commit (add_hist (HInv c (cl_reqidx x + 1) r)
                   (set_cli c (mkClient SND (cl_leader x) (Some r) (cl_reqidx x + 1)) s))
  | _ => BadEvent
  end.

Definition client_snd (cfg : config) (s : state) (c srvpick : nat) (br : nat) (fdv : bool) : outcome :=
  let x := cli s c in
  match cl_pc x, cl_req x with
  | SND, Some r =>
      if (cl_leader x =? 0) && negb (is_server cfg srvpick) then
        (if cfg_n cfg =? 0 then Abort else BadEvent)
      else
      let ld := if cl_leader x =? 0 then srvpick else cl_leader x in
      let s1 := set_cli c (mkClient RCV ld (cl_req x) (cl_reqidx x)) s in
      send cfg s1 ld (CRQ (mkCmd (cl_reqidx x) (r_type r) (r_key r)
                                 (match r_type r with CPut => r_val r | CGet => 0 end)) c ld) br fdv
  | SND, None => TypeErr
  | _, _ => BadEvent
  end.

(* rcvResp, first branch of the either: resp := net[self] *)
Definition client_rcv (cfg : config) (s : state) (c k : nat) : outcome :=
  let x := cli s c in
  match cl_pc x, cl_req x with
  | RCV, Some r =>
      if negb (enabled s c) then AssertFail else
      match nth_error (net s c) k with
      | None => match net s c with [] => Abort | _ => BadEvent end
      | Some m =>
          if negb (deliverable cfg (net s c) k) then BadEvent else
          let s1 := set_net c (remove_nth k (net s c)) s in
          if negb (msg_dest m =? c) then AssertFail else
          match m with
          | CRP t succ idx key v ok hint _ _ =>
              if negb (idx =? cl_reqidx x) then Commit s1 else
              if negb (ctype_eqb t (r_type r)) then AssertFail else
              if negb succ then Commit (set_cli c (mkClient SND hint (cl_req x) (cl_reqidx x)) s1) else
              if negb (key =? r_key r) then AssertFail else
              Commit (add_hist (HResp c idx t key v ok)
                        (set_cli c (mkClient CL hint (cl_req x) (cl_reqidx x)) s1))
          | _ => TypeErr
          end
      end
  | RCV, None => TypeErr
  | _, _ => BadEvent
  end.

(* rcvResp, second branch: await (fd[leader] /\ netLen[self] = 0) \/ timeout *)
Definition client_timeout (cfg : config) (s : state) (c : nat) (fdv : bool) (len : nat) (tmo : bool) : outcome :=
  let x := cli s c in
  match cl_pc x with
  | RCV =>
      if List.length (net s c) <? len then BadEvent else
      if (fdv && (len =? 0)) || tmo
      then Commit (set_cli c (mkClient SND 0 (cl_req x) (cl_reqidx x)) s)
      else Abort
  | _ => BadEvent
  end.

(* ---------- AServerCrasher ---------- *)
Definition crash (cfg : config) (s : state) (i : nat) : outcome :=
  if crasher s i =? 0 then Commit (set_crasher i 1 (set_enabled i false s)) else BadEvent.
Definition fd_update (cfg : config) (s : state) (i : nat) : outcome :=
  if crasher s i =? 1 then Commit (set_crasher i 2 (set_fd i true s)) else BadEvent.

(* ---------- events ---------- *)
Inductive event :=
| EServerLoop (i k : nat)
| EHandleMsg (i br : nat) (fdv : bool)
| ERVTimeout (i : nat) (lt : bool) (len : nat)
| ERVSend (i br : nat) (fdv : bool)
| EAELoop (i chbr : nat)
| EAESend (i br : nat) (fdv : bool)
| EAdvance (i : nat)
| EApply (i : nat)
| EBecomeLeader (i chbr : nat)
| EClientLoop (c : nat) (r : request)
| EClientSnd (c srvpick br : nat) (fdv : bool)
| EClientRcv (c k : nat)
| EClientTimeout (c : nat) (fdv : bool) (len : nat) (tmo : bool)
| ECrash (i : nat)
| EFdUpdate (i : nat).

Definition step (cfg : config) (s : state) (ev : event) : outcome :=
  match ev with
  | EServerLoop i k => if is_server cfg i then server_loop cfg s i k else BadEvent
  | EHandleMsg i br fdv => if is_server cfg i then server_step cfg s i LHandleMsg br fdv else BadEvent
  | ERVTimeout i lt len => if is_server cfg i then server_step cfg s i (LRVTimeout lt len) 0 true else BadEvent
  | ERVSend i br fdv => if is_server cfg i then server_step cfg s i LRVSend br fdv else BadEvent
  | EAELoop i chbr => if is_server cfg i then server_step cfg s i (LAELoop chbr) 0 true else BadEvent
  | EAESend i br fdv => if is_server cfg i then server_step cfg s i LAESend br fdv else BadEvent
  | EAdvance i => if is_server cfg i then server_step cfg s i LAdvance 0 true else BadEvent
  | EApply i => if is_server cfg i then server_step cfg s i LApply 0 true else BadEvent
  | EBecomeLeader i chbr => if is_server cfg i then server_step cfg s i (LBecomeLeader chbr) 0 true else BadEvent
  | EClientLoop c r => if is_client cfg c then client_loop cfg s c r else BadEvent
  | EClientSnd c p br fdv => if is_client cfg c then client_snd cfg s c p br fdv else BadEvent
  | EClientRcv c k => if is_client cfg c then client_rcv cfg s c k else BadEvent
  | EClientTimeout c fdv len tmo => if is_client cfg c then client_timeout cfg s c fdv len tmo else BadEvent
  | ECrash i => if is_server cfg i then crash cfg s i else BadEvent
  | EFdUpdate i => if is_server cfg i then fd_update cfg s i else BadEvent
  end.

(* run a schedule; steps that do not commit leave the state unchanged (that is what the runtime does with an
   aborted attempt; an attempt that fails an assertion stops that archetype in the real system -- theorems are
   about committed steps and separately show which failures are unreachable) *)
Definition step_state (cfg : config) (s : state) (ev : event) : state :=
  match step cfg s ev with Commit s' => s' | _ => s end.
Definition run (cfg : config) (s : state) (evs : list event) : state := fold_left (step_state cfg) evs s.

(* an execution given by its list of events: every event commits *)
Fixpoint exec (cfg : config) (s : state) (evs : list event) : option state :=
  match evs with
  | [] => Some s
  | e :: r => match step cfg s e with Commit s' => exec cfg s' r | _ => None end
  end.

(* an execution: every event commits *)
Inductive reachable (cfg : config) : state -> Prop :=
| reach_init : reachable cfg (init cfg)
| reach_step : forall s ev s', reachable cfg s -> step cfg s ev = Commit s' -> reachable cfg s'.

(* ---------- observation: the complete spec state flattened to numbers (for the correspondence check) ---------- *)
Definition nn : nat -> N := N.of_nat.
Definition d_bool (b : bool) : N := if b then 1%N else 0%N.
Definition d_ctype (t : ctype) : N := match t with CPut => 0%N | CGet => 1%N end.
Definition d_role (r : role) : N := match r with Follower => 0%N | Candidate => 1%N | Leader => 2%N end.
Definition d_cmd (c : cmd) : list N := [nn (c_idx c); d_ctype (c_type c); nn (c_key c); nn (c_val c)].
Definition d_entry (e : entry) : list N := nn (e_term e) :: d_cmd (e_cmd e) ++ [nn (e_client e)].
Definition d_list {A} (f : A -> list N) (l : list A) : list N := nn (List.length l) :: flat_map f l.
Definition d_nat (x : nat) : list N := [nn x].
Definition d_msg (m : msg) : list N :=
  match m with
  | RVQ t lt li s d => [1%N; nn t; nn lt; nn li; nn s; nn d]
  | RVP t g s d => [2%N; nn t; d_bool g; nn s; nn d]
  | APQ t p pt es c s d => [3%N; nn t; nn p; nn pt] ++ d_list d_entry es ++ [nn c; nn s; nn d]
  | APP t su mi s d => [4%N; nn t; d_bool su; nn mi; nn s; nn d]
  | CRQ c s d => 5%N :: d_cmd c ++ [nn s; nn d]
  | CRP t su i k v ok h s d => [6%N; d_ctype t; d_bool su; nn i; nn k; nn v; d_bool ok; nn h; nn s; nn d]
  end.
Definition d_server (cfg : config) (sv : server) : list N :=
  [d_role (s_role sv); nn (s_term sv); nn (s_voted sv)] ++ d_list d_entry (s_log sv) ++ [nn (s_commit sv)]
  ++ map (fun j => nn (s_next sv j)) (seq 1 (cfg_n cfg)) ++ map (fun j => nn (s_match sv j)) (seq 1 (cfg_n cfg))
  ++ d_list d_nat (s_vresp sv) ++ d_list d_nat (s_vgrant sv) ++ [nn (s_leader sv)]
  ++ d_list (fun kv => [nn (fst kv); nn (snd kv)]) (s_sm sv) ++ d_list d_nat (s_smdom sv)
  ++ d_list d_entry (s_plog sv) ++ [nn (s_aech sv); nn (s_blch sv)]
  ++ [d_bool (s_pc0 sv)] ++ match s_m sv with None => [0%N] | Some m => 1%N :: d_msg m end
  ++ [d_bool (s_pc1 sv); nn (s_idx1 sv); d_bool (s_pc2 sv); nn (s_idx2 sv); d_bool (s_pc3 sv); nn (s_newci sv)].
Definition d_client (x : client) : list N :=
  [match cl_pc x with CL => 0%N | SND => 1%N | RCV => 2%N end; nn (cl_leader x)]
  ++ match cl_req x with None => [0%N] | Some r => [1%N; d_ctype (r_type r); nn (r_key r); nn (r_val r)] end
  ++ [nn (cl_reqidx x)].
Definition servers (cfg : config) : list nat := seq 1 (cfg_n cfg).
Definition clients (cfg : config) : list nat := seq (6 * cfg_n cfg + 1) (cfg_nc cfg).
Definition d_hevent (h : hevent) : list N :=
  match h with
  | HInv c i r => [0%N; nn c; nn i; d_ctype (r_type r); nn (r_key r); nn (r_val r)]
  | HResp c i t k v ok => [1%N; nn c; nn i; d_ctype t; nn k; nn v; d_bool ok]
  end.
Definition digest (cfg : config) (s : state) : list N :=
  flat_map (fun i => d_server cfg (srv s i)) (servers cfg)
  ++ flat_map (fun d => d_bool (enabled s d) :: d_list d_msg (net s d)) (servers cfg ++ clients cfg)
  ++ map (fun i => d_bool (fd s i)) (servers cfg) ++ [d_bool (ltimeout s)]
  ++ flat_map (fun c => d_client (cli s c)) (clients cfg)
  ++ map (fun i => nn (crasher s i)) (servers cfg)
  ++ [nn (List.length (hist s))].

Definition hash (l : list N) : N :=
  fold_left (fun acc x => N.land (acc * 1000003 + x + 1) 2305843009213693951%N) l 7%N.

Definition outcome_code (o : outcome) : nat :=
  match o with Commit _ => 0 | Abort => 1 | AssertFail => 2 | TypeErr => 3 | BadEvent => 4 end.

(* correspondence: run the schedule, after every event compare the outcome class and the hash of the whole
   state with what the implementation did; `full` carries complete digests at chosen steps.
   Returns the index of the first disagreeing step. *)
Fixpoint check_run (cfg : config) (s : state) (k : nat)
         (evs : list (event * nat * N * option (list N))) : option nat :=
  match evs with
  | [] => None
  | (ev, code, h, full) :: rest =>
      let o := step cfg s ev in
      let s' := match o with Commit s' => s' | _ => s end in
      if negb (outcome_code o =? code) then Some k else
      if negb (N.eqb (hash (digest cfg s')) h) then Some k else
      match full with
      | Some d => if list_eq_dec N.eq_dec (digest cfg s') d then check_run cfg s' (S k) rest else Some k
      | None => check_run cfg s' (S k) rest
      end
  end.
Definition check_case (cfg : config) (evs : list (event * nat * N * option (list N))) : option nat :=
  check_run cfg (init cfg) 0 evs.
Fixpoint mismatches_from (i : nat) (cases : list (config * list (event * nat * N * option (list N)))) : list nat :=
  match cases with
  | [] => []
  | (cfg, evs) :: rest =>
      match check_case cfg evs with None => mismatches_from (S i) rest | Some _ => i :: mismatches_from (S i) rest end
  end.

(* the spec's invariants as boolean functions of a state (implementation-side oracle uses its own Python copy;
   these are for the non-vacuity examples and refutation witnesses) *)
Definition forall_servers (cfg : config) (p : nat -> bool) : bool := forallb p (servers cfg).
Definition election_safety_b (cfg : config) (s : state) : bool :=
  forall_servers cfg (fun i => forall_servers cfg (fun j =>
    negb (negb (i =? j) && (s_term (srv s i) =? s_term (srv s j))
          && role_eqb (s_role (srv s i)) Leader && role_eqb (s_role (srv s j)) Leader))).
Definition cmd_eqb (a b : cmd) : bool :=
  (c_idx a =? c_idx b) && ctype_eqb (c_type a) (c_type b) && (c_key a =? c_key b) && (c_val a =? c_val b).
Definition entry_eqb (a b : entry) : bool :=
  (e_term a =? e_term b) && cmd_eqb (e_cmd a) (e_cmd b) && (e_client a =? e_client b).
Definition oentry_eqb (a b : option entry) : bool :=
  match a, b with Some x, Some y => entry_eqb x y | None, None => true | _, _ => false end.
(* LeaderCompleteness exactly as written in raftkvs.tla *)
Definition leader_completeness_spec_b (cfg : config) (s : state) : bool :=
  forall_servers cfg (fun i =>
    forallb (fun idx =>
      negb (idx <=? s_commit (srv s i)) ||
      forall_servers cfg (fun j =>
        negb (role_eqb (s_role (srv s j)) Leader &&
              match term_at (s_log (srv s i)) idx with Some t => t <=? s_term (srv s j) | None => false end)
        || ((idx <=? List.length (s_log (srv s j))) && oentry_eqb (log_at (s_log (srv s i)) idx) (log_at (s_log (srv s j)) idx))))
      (seq 1 (List.length (s_log (srv s i))))).
(* the property's leader completeness as a state predicate: an entry within the commit index of a server whose term is T
   is in the log of every Leader of a term >= T *)
Definition leader_completeness_b (cfg : config) (s : state) : bool :=
  forall_servers cfg (fun i =>
    forallb (fun idx =>
      forall_servers cfg (fun j =>
        negb (role_eqb (s_role (srv s j)) Leader && (s_term (srv s i) <=? s_term (srv s j)))
        || match log_at (s_log (srv s i)) idx, log_at (s_log (srv s j)) idx with
           | Some a, Some b => entry_eqb a b | _, _ => false end))
      (seq 1 (s_commit (srv s i)))).
Definition state_machine_safety_b (cfg : config) (s : state) : bool :=
  forall_servers cfg (fun i => forall_servers cfg (fun j =>
    forallb (fun k => match log_at (s_log (srv s i)) k, log_at (s_log (srv s j)) k with
                      | Some a, Some b => entry_eqb a b | _, _ => false end)
            (seq 1 (Nat.min (s_commit (srv s i)) (s_commit (srv s j)))))).
