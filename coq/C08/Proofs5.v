(* C08 — towards leader completeness, part B: what a voter has acknowledged survives elections. *)
From PGV Require Import C08.Model C08.Proofs1 C08.Proofs2 C08.Proofs3 C08.Proofs4.
From Coq Require Import Lia.

Definition own (g : ghost) (t k : nat) : Prop := term_at (tl g t) k = Some t.
Definition hasp (l : list entry) (g : ghost) (t k : nat) : Prop := firstn k l = firstn k (tl g t).
Definition bad (g : ghost) (t k t1 : nat) : Prop := t < t1 /\ gl g t1 <> 0 /\ ~ hasp (tl g t1) g t k.

Lemma ctype_eq_dec (a b : ctype) : {a = b} + {a <> b}. Proof. decide equality. Qed.
Lemma cmd_eq_dec (a b : cmd) : {a = b} + {a <> b}.
Proof. decide equality; try apply Nat.eq_dec. apply ctype_eq_dec. Qed.
Lemma entry_eq_dec (a b : entry) : {a = b} + {a <> b}.
Proof. decide equality; try apply Nat.eq_dec. apply cmd_eq_dec. Qed.
Lemma hasp_dec l g t k : {hasp l g t k} + {~ hasp l g t k}.
Proof. unfold hasp. apply (list_eq_dec entry_eq_dec). Qed.

Lemma own_len g t k : own g t k -> 1 <= k /\ k <= List.length (tl g t).
Proof. unfold own. intros H. apply term_at_nth in H as (e & A & B & _). apply nth_error_lt in B. lia. Qed.

Lemma firstn_prefix_stable {A} k (a b : list A) : is_prefix a b -> k <= List.length a -> firstn k b = firstn k a.
Proof. intros P H. symmetry. now apply is_prefix_firstn. Qed.

(* stability under growth of the leader logs *)
Section Grow.
  Variables (g g' : ghost).
  Hypothesis Gtl : forall t, is_prefix (tl g t) (tl g' t).
  Hypothesis Ggl : forall t, gl g t <> 0 -> gl g' t = gl g t.
  (* what is appended to tl t1 has term t1 *)
  Hypothesis Gnew : forall t1 p e, List.length (tl g t1) <= p -> nth_error (tl g' t1) p = Some e -> e_term e = t1.
  Hypothesis Gle : forall t e, In e (tl g t) -> e_term e <= t.

  Lemma own_keep t k : own g t k -> own g' t k.
  Proof. unfold own. apply term_at_prefix. apply Gtl. Qed.

  Lemma own_back t k : own g' t k -> k <= List.length (tl g t) -> own g t k.
  Proof.
    unfold own. intros H Hk. apply term_at_nth in H as (e & A & B & C). apply term_at_nth. exists e. repeat split; auto.
    destruct (Gtl t) as [r E]. rewrite E in B. rewrite nth_error_app1 in B by lia. exact B.
  Qed.

  Lemma hasp_keep l t k : hasp l g t k -> k <= List.length (tl g t) -> hasp l g' t k.
  Proof. unfold hasp. intros H Hk. rewrite H. symmetry. apply firstn_prefix_stable; auto. Qed.

  Lemma bad_keep t k t1 : own g t k -> bad g t k t1 -> bad g' t k t1.
  Proof.
    intros Ho (A & B & C). destruct (own_len _ _ _ Ho) as [Hk1 Hk]. repeat split; auto.
    - rewrite Ggl; auto.
    - intros Hh. apply C. unfold hasp in *.
      rewrite (firstn_prefix_stable k _ _ (Gtl t) Hk) in Hh.
      destruct (Nat.le_gt_cases k (List.length (tl g t1))) as [Hle|Hgt].
      + rewrite <- Hh. symmetry. apply firstn_prefix_stable; auto.
      + exfalso. (* position len (tl g t1) < k of tl g' t1 is new (term t1) but equals an entry of tl g t (term <= t) *)
        set (p := List.length (tl g t1)) in *.
        assert (Hlen : k <= List.length (tl g' t1)).
        { apply (firstn_eq_length k (tl g t) (tl g' t1)); auto. }
        destruct (nth_error (tl g' t1) p) as [e|] eqn:En; [|apply nth_error_None in En; lia].
        assert (E1 : nth_error (tl g t) p = Some e).
        { rewrite <- (nth_error_firstn_lt k) by lia. rewrite <- Hh. rewrite nth_error_firstn_lt by lia. exact En. }
        pose proof (Gnew t1 p e (le_n _) En). apply nth_error_In in E1. apply Gle in E1. lia.
  Qed.
End Grow.
