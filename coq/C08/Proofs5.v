(* C08 — towards leader completeness, part B: what a voter has acknowledged survives elections. *)
From PGV Require Import C08.Model C08.Proofs1 C08.Proofs2 C08.Proofs3 C08.Proofs4.
From Coq Require Import Lia.

Definition own (g : ghost) (t k : nat) : Prop := term_at (tl g t) k = Some t.
Definition hasp (l : list entry) (g : ghost) (t k : nat) : Prop := firstn k l = firstn k (tl g t).
Definition bad (g : ghost) (t k t1 : nat) : Prop := t < t1 /\ gl g t1 <> 0 /\ ~ hasp (tl g t1) g t k.

Lemma ctype_eq_dec (a b : ctype) : {a = b} + {a <> b}. Proof. decide equality. Qed.
Lemma cmd_eq_dec (a b : cmd) : {a = b} + {a <> b}.
Proof. decide equality; try apply Nat.eq_dec. apply ctype_eq_dec. Qed.
Lemma entry_eq_dec (a b : entry) : {a = b} + {a <> b}.
Proof. decide equality; try apply Nat.eq_dec. apply cmd_eq_dec. Qed.
Lemma hasp_dec l g t k : {hasp l g t k} + {~ hasp l g t k}.
Proof. unfold hasp. apply (list_eq_dec entry_eq_dec). Qed.

Lemma own_len g t k : own g t k -> 1 <= k /\ k <= List.length (tl g t).
Proof. unfold own. intros H. apply term_at_nth in H as (e & A & B & _). apply nth_error_lt in B. lia. Qed.

Lemma firstn_prefix_stable {A} k (a b : list A) : is_prefix a b -> k <= List.length a -> firstn k b = firstn k a.
Proof. intros P H. symmetry. now apply is_prefix_firstn. Qed.

(* stability under growth of the leader logs *)
Section Grow.
  Variables (g g' : ghost).
  Hypothesis Gtl : forall t, is_prefix (tl g t) (tl g' t).
  Hypothesis Ggl : forall t, gl g t <> 0 -> gl g' t = gl g t.
  (* what is appended to tl t1 has term t1 *)
  Hypothesis Gnew : forall t1 p e, gl g t1 <> 0 -> List.length (tl g t1) <= p -> nth_error (tl g' t1) p = Some e -> e_term e = t1.
  Hypothesis Gle : forall t e, In e (tl g t) -> e_term e <= t.

  Lemma own_keep t k : own g t k -> own g' t k.
  Proof. unfold own. apply term_at_prefix. apply Gtl. Qed.

  Lemma own_back t k : own g' t k -> k <= List.length (tl g t) -> own g t k.
  Proof.
    unfold own. intros H Hk. apply term_at_nth in H as (e & A & B & C). apply term_at_nth. exists e. repeat split; auto.
    destruct (Gtl t) as [r E]. rewrite E in B. rewrite nth_error_app1 in B by lia. exact B.
  Qed.

  Lemma hasp_keep l t k : hasp l g t k -> k <= List.length (tl g t) -> hasp l g' t k.
  Proof. unfold hasp. intros H Hk. rewrite H. symmetry. apply firstn_prefix_stable; auto. Qed.

  Lemma bad_keep t k t1 : own g t k -> bad g t k t1 -> bad g' t k t1.
  Proof.
    intros Ho (A & B & C). destruct (own_len _ _ _ Ho) as [Hk1 Hk]. repeat split; auto.
    - rewrite Ggl; auto.
    - intros Hh. apply C. unfold hasp in *.
      rewrite (firstn_prefix_stable k _ _ (Gtl t) Hk) in Hh.
      destruct (Nat.le_gt_cases k (List.length (tl g t1))) as [Hle|Hgt].
      + rewrite <- Hh. symmetry. apply firstn_prefix_stable; auto.
      + exfalso. (* position len (tl g t1) < k of tl g' t1 is new (term t1) but equals an entry of tl g t (term <= t) *)
        set (p := List.length (tl g t1)) in *.
        assert (Hlen : k <= List.length (tl g' t1)).
        { apply (firstn_eq_length k (tl g t) (tl g' t1)); auto. }
        destruct (nth_error (tl g' t1) p) as [e|] eqn:En; [|apply nth_error_None in En; lia].
        assert (E1 : nth_error (tl g t) p = Some e).
        { rewrite <- (nth_error_firstn_lt k) by lia. rewrite <- Hh. rewrite nth_error_firstn_lt by lia. exact En. }
        pose proof (Gnew t1 p e B (le_n _) En). apply nth_error_In in E1. apply Gle in E1. lia.
  Qed.
End Grow.

Lemma last_term_nth l : l <> [] -> exists e, nth_error l (List.length l - 1) = Some e /\ last_term l = e_term e.
Proof.
  intros Hne. unfold last_term, log_at. destruct (List.length l) as [|n] eqn:E.
  - destruct l; [congruence|discriminate].
  - cbn. rewrite Nat.sub_0_r. destruct (nth_error l n) as [e|] eqn:En.
    + exists e. auto.
    + apply nth_error_None in En. lia.
Qed.
Lemma last_term_nil : last_term [] = 0. Proof. reflexivity. Qed.

Lemma firstn_firstn_le {A} k n (l : list A) : k <= n -> firstn k (firstn n l) = firstn k l.
Proof. intros H. rewrite firstn_firstn. f_equal. lia. Qed.

(* the candidate's log X is at least as up to date as the voter's log lv, which holds the acknowledged prefix (t,k) *)
Lemma up_to_date g X lv t k :
  (forall t0, tree_ok (tl g) (tl g t0)) -> (forall t0, sorted_terms (tl g t0)) ->
  (forall t0 e, In e (tl g t0) -> e_term e <= t0) -> (forall t0, gl g t0 = 0 -> tl g t0 = []) ->
  tree_ok (tl g) X -> tree_ok (tl g) lv ->
  hasp lv g t k -> own g t k ->
  (last_term lv < last_term X \/ (last_term X = last_term lv /\ List.length lv <= List.length X)) ->
  hasp X g t k \/ bad g t k (last_term X).
Proof.
  intros T1' S1' Sb T5' TX Tv Hh Ho Hup.
  destruct (own_len _ _ _ Ho) as [Hk1 Hk].
  apply term_at_nth in Ho as (e & _ & Ne & Te).
  assert (Hlv : k <= List.length lv).
  { apply (firstn_eq_length k (tl g t) lv); auto. }
  assert (Nv : nth_error lv (k - 1) = Some e).
  { rewrite <- (nth_error_firstn_lt k) by lia. unfold hasp in Hh. rewrite Hh. rewrite nth_error_firstn_lt by lia. exact Ne. }
  assert (Hvne : lv <> []) by (destruct lv; [cbn in Hlv; lia|discriminate]).
  destruct (last_term_nth lv Hvne) as (ev & Nl & El).
  assert (Htv : t <= last_term lv).
  { rewrite El, <- Te. eapply (path_sorted (tl g) lv Tv S1' (k - 1) (List.length lv - 1)); eauto. lia. }
  destruct (Nat.eq_dec (last_term X) t) as [Ex|Nx].
  - (* same last term: X is a prefix of tl t and at least as long as lv *)
    left. assert (Hl : List.length lv <= List.length X) by lia.
    assert (HXne : X <> []) by (destruct X; [cbn in Hl; lia|discriminate]).
    destruct (last_term_nth X HXne) as (ex & Nx & Elx).
    pose proof (TX _ _ Nx) as P. replace (S (List.length X - 1)) with (List.length X) in P by (destruct X; [congruence|cbn; lia]).
    rewrite <- Elx, Ex in P. unfold hasp.
    rewrite <- (firstn_firstn_le k (List.length X) X) by lia.
    rewrite <- (firstn_firstn_le k (List.length X) (tl g t)) by lia. now rewrite P.
  - assert (Hlt : t < last_term X) by lia.
    assert (HXne : X <> []) by (intros ->; rewrite last_term_nil in Hlt; lia).
    destruct (last_term_nth X HXne) as (ex & NX & Elx).
    pose proof (TX _ _ NX) as P. replace (S (List.length X - 1)) with (List.length X) in P by (destruct X; [congruence|cbn; lia]).
    rewrite <- Elx in P.
    assert (Hgl : gl g (last_term X) <> 0).
    { intros Z. apply T5' in Z. rewrite Z in P. rewrite firstn_nil in P.
      assert (List.length (firstn (List.length X) X) = 0) by now rewrite P. rewrite firstn_all in H. destruct X; [congruence|discriminate]. }
    destruct (hasp_dec (tl g (last_term X)) g t k) as [Hy|Hn]; [|right; repeat split; auto].
    left. unfold hasp in *.
    assert (HkX : k <= List.length X).
    { destruct (Nat.le_gt_cases k (List.length X)) as [|Hgt]; auto. exfalso.
      (* the last entry of X (term last_term X) sits before position k-1 (term t) in tl (last_term X) *)
      assert (Hlen : k <= List.length (tl g (last_term X))) by (apply (firstn_eq_length k (tl g t)); auto).
      assert (A : nth_error (tl g (last_term X)) (List.length X - 1) = Some ex).
      { rewrite <- (nth_error_firstn_lt (List.length X)) by (destruct X; [congruence|cbn; lia]).
        rewrite <- P. rewrite firstn_all. exact NX. }
      assert (B : nth_error (tl g (last_term X)) (k - 1) = Some e).
      { rewrite <- (nth_error_firstn_lt k) by lia. rewrite Hy. rewrite nth_error_firstn_lt by lia. exact Ne. }
      pose proof (S1' (last_term X) (List.length X - 1) (k - 1) ex e) as Srt.
      assert (e_term ex <= e_term e) by (apply Srt; auto; lia). lia. }
    rewrite <- (firstn_firstn_le k (List.length X) X) by lia. rewrite P.
    rewrite firstn_firstn_le by lia. exact Hy.
Qed.

(* ---------- more per-label facts ---------- *)
Lemma core_vote_cases cfg i sv f l sv' out ltr :
  server_core cfg i sv f l = HR sv' out ltr -> s_voted sv' <> 0 ->
  (s_voted sv' = s_voted sv /\ s_term sv' = s_term sv) \/
  (s_voted sv' = i /\ s_term sv' = s_term sv + 1 /\ s_role sv' = Candidate /\ s_log sv' = s_log sv) \/
  (exists mt lt li j d, s_m sv = Some (RVQ mt lt li j d) /\ s_voted sv' = j /\ s_term sv' = mt /\ s_term sv <= mt /\
     s_log sv' = s_log sv /\
     (last_term (s_log sv) < lt \/ (lt = last_term (s_log sv) /\ List.length (s_log sv) <= li))).
Proof.
  intros H Hv. destruct l; core_cases H; ut_cases; cbn in *; try congruence; auto.
  all: try (right; left; repeat split; auto; fail).
  all: right; right; eexists _, _, _, _, _; split; [reflexivity|]; bprop; subst; cbn in *; repeat split; auto; try lia.
Qed.

Lemma core_cand_cases cfg i sv f l sv' out ltr :
  server_core cfg i sv f l = HR sv' out ltr -> s_role sv' = Candidate ->
  (s_role sv = Candidate /\ s_term sv' = s_term sv /\ s_log sv' = s_log sv) \/
  (s_role sv <> Leader /\ s_term sv' = s_term sv + 1 /\ s_log sv' = s_log sv /\ s_voted sv' = i).
Proof.
  intros H Hc. destruct l; core_cases H; ut_cases; cbn in *; try discriminate; auto.
  all: bprop; try discriminate; try (destruct (s_role sv); cbn in *; try discriminate; auto; fail).
  all: try (right; repeat split; auto; destruct (s_role sv); cbn in *; congruence).
Qed.

Lemma core_rvq_out cfg i sv f l sv' md d t' lt li c dst ltr :
  server_core cfg i sv f l = HR sv' (Some (md, d, RVQ t' lt li c dst)) ltr ->
  c = i /\ dst = d /\ d <> i /\ t' = s_term sv /\ lt = last_term (s_log sv) /\ li = List.length (s_log sv) /\
  s_log sv' = s_log sv /\ s_term sv' = s_term sv /\ s_role sv' = s_role sv.
Proof.
  intros H. destruct l; unfold_core H; repeat (destr_in H; try discriminate H); inversion H; subst; clear H.
  bprop. repeat split; auto.
Qed.

(* ---------- invariant, part B ---------- *)
Definition rvq_inv (cfg : config) (s : state) (g : ghost) (m : msg) : Prop :=
  match m with
  | RVQ t' lt li c d =>
      is_server cfg c = true /\ c <> d /\ t' <= s_term (srv s c) /\
      (s_role (srv s c) = Candidate -> s_term (srv s c) = t' -> gl g t' = 0 ->
         lt = last_term (s_log (srv s c)) /\ li = List.length (s_log (srv s c))) /\
      (gl g t' = c -> exists n, n <= List.length (tl g t') /\ lt = last_term (firstn n (tl g t')) /\ li = n)
  | _ => True
  end.

Record binv (cfg : config) (s : state) (g : ghost) (a : acks) : Prop := {
  Rn : forall d m, In m (net s d) -> rvq_inv cfg s g m;
  Rm : forall i m, s_m (srv s i) = Some m -> rvq_inv cfg s g m;
  VS : forall v, s_voted (srv s v) <> 0 -> gv g v (s_term (srv s v)) = s_voted (srv s v);
  V0 : forall v t' c, gv g v t' = c -> c <> 0 -> v <> c -> t' <= s_term (srv s c);
  K : forall v t k, 1 <= k -> k <= a v t -> own g t k ->
        hasp (s_log (srv s v)) g t k \/ exists t1, t1 <= s_term (srv s v) /\ bad g t k t1;
  Wa : forall v t' c, gv g v t' = c -> c <> 0 -> s_role (srv s c) = Candidate -> s_term (srv s c) = t' -> gl g t' = 0 ->
        forall t k, t < t' -> 1 <= k -> k <= a v t -> own g t k ->
          hasp (s_log (srv s c)) g t k \/ exists t1, t1 < t' /\ bad g t k t1;
  Wb : forall t', gl g t' <> 0 -> exists Q, NoDup Q /\ incl Q (seq 1 (cfg_n cfg)) /\ cfg_n cfg < List.length Q * 2 /\
        forall v, In v Q -> gv g v t' = gl g t' /\
          forall t k, t < t' -> 1 <= k -> k <= a v t -> own g t k ->
            hasp (tl g t') g t k \/ exists t1, t1 < t' /\ bad g t k t1
}.

Section BinvStep.
  Variables (cfg : config) (s : state) (g : ghost) (a : acks) (ev : event) (s' : state).
  Hypothesis IE : einv cfg s (gv g).
  Hypothesis I : linv cfg s g.
  Hypothesis IA : ainv cfg s g a.
  Hypothesis IB : binv cfg s g a.
  Hypothesis H : step cfg s ev = Commit s'.
  Hypothesis Hfifo : cfg_fifo cfg = true.
  Let g' := observe cfg g s'.
  Let a' := observe_ack cfg a s'.
  Hypothesis I' : linv cfg s' g'.
  Hypothesis IA' : ainv cfg s' g' a'.
  Hypothesis IE' : einv cfg s' (gv g').

  Lemma Gtl t : is_prefix (tl g t) (tl g' t).
  Proof. apply (tl_grows _ _ _ _ _ IE I H). Qed.
  Lemma Ggl t : gl g t <> 0 -> gl g' t = gl g t.
  Proof. apply (gl_persist _ _ _ _ _ IE I H). Qed.
  Lemma Ggl0 t : gl g' t = 0 -> gl g t = 0.
  Proof. intros Z. destruct (Nat.eq_dec (gl g t) 0); auto. rewrite Ggl in Z; auto. Qed.
  Lemma Gnew t1 p e : gl g t1 <> 0 -> List.length (tl g t1) <= p -> nth_error (tl g' t1) p = Some e -> e_term e = t1.
  Proof.
    intros Hne Hp Hn.
    destruct (tl_step_cases _ _ _ _ _ IE I H t1) as [(E & _)|[(x & E & Et & _)|(Z & _)]]; try congruence;
      fold g' in E; rewrite E in Hn.
    - apply nth_error_lt in Hn. lia.
    - rewrite nth_error_app2 in Hn by lia. destruct (p - List.length (tl g t1)) as [|y]; [|destruct y; discriminate].
      injection Hn as <-. exact Et.
  Qed.
  Lemma Gle t e : In e (tl g t) -> e_term e <= t.
  Proof. apply (S1b _ _ _ _ IA). Qed.

  Lemma own_keep' t k : own g t k -> own g' t k.
  Proof. apply own_keep. exact Gtl. Qed.
  Lemma own_back' t k : own g' t k -> k <= List.length (tl g t) -> own g t k.
  Proof. apply own_back. exact Gtl. Qed.
  Lemma hasp_keep' l t k : hasp l g t k -> own g t k -> hasp l g' t k.
  Proof. intros Hh Ho. eapply hasp_keep; eauto. exact Gtl. apply (own_len _ _ _ Ho). Qed.
  Lemma bad_keep' t k t1 : own g t k -> bad g t k t1 -> bad g' t k t1.
  Proof. apply bad_keep; [exact Gtl | exact Ggl | exact Gnew | exact Gle]. Qed.

  (* acknowledgements of a server that has moved to a later term are frozen *)
  Lemma ack_frozen v t k : 1 <= k -> k <= a' v t -> t < s_term (srv s v) -> k <= a v t.
  Proof.
    intros Hk1 Hk Ht. pose proof (term_monotone_step _ _ _ _ v H) as Hm.
    destruct (ack_cases _ _ _ _ _ _ IE I IA H I' v t k Hk1 Hk) as [|[(prev & prevT & es & mc & j & dd & _ & _ & _ & _ & _ & _ & _ & _ & Hle & _)|(_ & Tm & _)]]; auto; lia.
  Qed.
End BinvStep.
