(* C08 — towards leader completeness, part B: what a voter has acknowledged survives elections. *)
From PGV Require Import C08.Model C08.Proofs1 C08.Proofs2 C08.Proofs3 C08.Proofs4.
From Coq Require Import Lia.

Definition own (g : ghost) (t k : nat) : Prop := term_at (tl g t) k = Some t.
Definition hasp (l : list entry) (g : ghost) (t k : nat) : Prop := firstn k l = firstn k (tl g t).
Definition bad (g : ghost) (t k t1 : nat) : Prop := t < t1 /\ gl g t1 <> 0 /\ ~ hasp (tl g t1) g t k.

Lemma ctype_eq_dec (a b : ctype) : {a = b} + {a <> b}. Proof. decide equality. Qed.
Lemma cmd_eq_dec (a b : cmd) : {a = b} + {a <> b}.
Proof. decide equality; try apply Nat.eq_dec. apply ctype_eq_dec. Qed.
Lemma entry_eq_dec (a b : entry) : {a = b} + {a <> b}.
Proof. decide equality; try apply Nat.eq_dec. apply cmd_eq_dec. Qed.
Lemma hasp_dec l g t k : {hasp l g t k} + {~ hasp l g t k}.
Proof. unfold hasp. apply (list_eq_dec entry_eq_dec). Qed.

Lemma own_len g t k : own g t k -> 1 <= k /\ k <= List.length (tl g t).
Proof. unfold own. intros H. apply term_at_nth in H as (e & A & B & _). apply nth_error_lt in B. lia. Qed.

Lemma firstn_prefix_stable {A} k (a b : list A) : is_prefix a b -> k <= List.length a -> firstn k b = firstn k a.
Proof. intros P H. symmetry. now apply is_prefix_firstn. Qed.

(* stability under growth of the leader logs *)
Section Grow.
  Variables (g g' : ghost).
  Hypothesis Gtl : forall t, is_prefix (tl g t) (tl g' t).
  Hypothesis Ggl : forall t, gl g t <> 0 -> gl g' t = gl g t.
  (* what is appended to tl t1 has term t1 *)
  Hypothesis Gnew : forall t1 p e, gl g t1 <> 0 -> List.length (tl g t1) <= p -> nth_error (tl g' t1) p = Some e -> e_term e = t1.
  Hypothesis Gle : forall t e, In e (tl g t) -> e_term e <= t.

  Lemma own_keep t k : own g t k -> own g' t k.
  Proof. unfold own. apply term_at_prefix. apply Gtl. Qed.

  Lemma own_back t k : own g' t k -> k <= List.length (tl g t) -> own g t k.
  Proof.
    unfold own. intros H Hk. apply term_at_nth in H as (e & A & B & C). apply term_at_nth. exists e. repeat split; auto.
    destruct (Gtl t) as [r E]. rewrite E in B. rewrite nth_error_app1 in B by lia. exact B.
  Qed.

  Lemma hasp_keep l t k : hasp l g t k -> k <= List.length (tl g t) -> hasp l g' t k.
  Proof. unfold hasp. intros H Hk. rewrite H. symmetry. apply firstn_prefix_stable; auto. Qed.

  Lemma bad_keep t k t1 : own g t k -> bad g t k t1 -> bad g' t k t1.
  Proof.
    intros Ho (A & B & C). destruct (own_len _ _ _ Ho) as [Hk1 Hk]. repeat split; auto.
    - rewrite Ggl; auto.
    - intros Hh. apply C. unfold hasp in *.
      rewrite (firstn_prefix_stable k _ _ (Gtl t) Hk) in Hh.
      destruct (Nat.le_gt_cases k (List.length (tl g t1))) as [Hle|Hgt].
      + rewrite <- Hh. symmetry. apply firstn_prefix_stable; auto.
      + exfalso. (* position len (tl g t1) < k of tl g' t1 is new (term t1) but equals an entry of tl g t (term <= t) *)
        set (p := List.length (tl g t1)) in *.
        assert (Hlen : k <= List.length (tl g' t1)).
        { apply (firstn_eq_length k (tl g t) (tl g' t1)); auto. }
        destruct (nth_error (tl g' t1) p) as [e|] eqn:En; [|apply nth_error_None in En; lia].
        assert (E1 : nth_error (tl g t) p = Some e).
        { rewrite <- (nth_error_firstn_lt k) by lia. rewrite <- Hh. rewrite nth_error_firstn_lt by lia. exact En. }
        pose proof (Gnew t1 p e B (le_n _) En). apply nth_error_In in E1. apply Gle in E1. lia.
  Qed.
End Grow.

Lemma last_term_nth l : l <> [] -> exists e, nth_error l (List.length l - 1) = Some e /\ last_term l = e_term e.
Proof.
  intros Hne. unfold last_term, log_at. destruct (List.length l) as [|n] eqn:E.
  - destruct l; [congruence|discriminate].
  - cbn. rewrite Nat.sub_0_r. destruct (nth_error l n) as [e|] eqn:En.
    + exists e. auto.
    + apply nth_error_None in En. lia.
Qed.
Lemma last_term_nil : last_term [] = 0. Proof. reflexivity. Qed.

Lemma firstn_firstn_le {A} k n (l : list A) : k <= n -> firstn k (firstn n l) = firstn k l.
Proof. intros H. rewrite firstn_firstn. f_equal. lia. Qed.

(* the candidate's log X is at least as up to date as the voter's log lv, which holds the acknowledged prefix (t,k) *)
Lemma up_to_date g X lv t k :
  (forall t0, tree_ok (tl g) (tl g t0)) -> (forall t0, sorted_terms (tl g t0)) ->
  (forall t0 e, In e (tl g t0) -> e_term e <= t0) -> (forall t0, gl g t0 = 0 -> tl g t0 = []) ->
  tree_ok (tl g) X -> tree_ok (tl g) lv ->
  hasp lv g t k -> own g t k ->
  (last_term lv < last_term X \/ (last_term X = last_term lv /\ List.length lv <= List.length X)) ->
  hasp X g t k \/ bad g t k (last_term X).
Proof.
  intros T1' S1' Sb T5' TX Tv Hh Ho Hup.
  destruct (own_len _ _ _ Ho) as [Hk1 Hk].
  apply term_at_nth in Ho as (e & _ & Ne & Te).
  assert (Hlv : k <= List.length lv).
  { apply (firstn_eq_length k (tl g t) lv); auto. }
  assert (Nv : nth_error lv (k - 1) = Some e).
  { rewrite <- (nth_error_firstn_lt k) by lia. unfold hasp in Hh. rewrite Hh. rewrite nth_error_firstn_lt by lia. exact Ne. }
  assert (Hvne : lv <> []) by (destruct lv; [cbn in Hlv; lia|discriminate]).
  destruct (last_term_nth lv Hvne) as (ev & Nl & El).
  assert (Htv : t <= last_term lv).
  { rewrite El, <- Te. eapply (path_sorted (tl g) lv Tv S1' (k - 1) (List.length lv - 1)); eauto. lia. }
  destruct (Nat.eq_dec (last_term X) t) as [Ex|Nx].
  - (* same last term: X is a prefix of tl t and at least as long as lv *)
    left. assert (Hl : List.length lv <= List.length X) by lia.
    assert (HXne : X <> []) by (destruct X; [cbn in Hl; lia|discriminate]).
    destruct (last_term_nth X HXne) as (ex & Nx & Elx).
    pose proof (TX _ _ Nx) as P. replace (S (List.length X - 1)) with (List.length X) in P by (destruct X; [congruence|cbn; lia]).
    rewrite <- Elx, Ex in P. unfold hasp.
    rewrite <- (firstn_firstn_le k (List.length X) X) by lia.
    rewrite <- (firstn_firstn_le k (List.length X) (tl g t)) by lia. now rewrite P.
  - assert (Hlt : t < last_term X) by lia.
    assert (HXne : X <> []) by (intros ->; rewrite last_term_nil in Hlt; lia).
    destruct (last_term_nth X HXne) as (ex & NX & Elx).
    pose proof (TX _ _ NX) as P. replace (S (List.length X - 1)) with (List.length X) in P by (destruct X; [congruence|cbn; lia]).
    rewrite <- Elx in P.
    assert (Hgl : gl g (last_term X) <> 0).
    { intros Z. apply T5' in Z. rewrite Z in P. rewrite firstn_nil in P.
      assert (List.length (firstn (List.length X) X) = 0) by now rewrite P. rewrite firstn_all in H. destruct X; [congruence|discriminate]. }
    destruct (hasp_dec (tl g (last_term X)) g t k) as [Hy|Hn]; [|right; repeat split; auto].
    left. unfold hasp in *.
    assert (HkX : k <= List.length X).
    { destruct (Nat.le_gt_cases k (List.length X)) as [|Hgt]; auto. exfalso.
      (* the last entry of X (term last_term X) sits before position k-1 (term t) in tl (last_term X) *)
      assert (Hlen : k <= List.length (tl g (last_term X))) by (apply (firstn_eq_length k (tl g t)); auto).
      assert (A : nth_error (tl g (last_term X)) (List.length X - 1) = Some ex).
      { rewrite <- (nth_error_firstn_lt (List.length X)) by (destruct X; [congruence|cbn; lia]).
        rewrite <- P. rewrite firstn_all. exact NX. }
      assert (B : nth_error (tl g (last_term X)) (k - 1) = Some e).
      { rewrite <- (nth_error_firstn_lt k) by lia. rewrite Hy. rewrite nth_error_firstn_lt by lia. exact Ne. }
      pose proof (S1' (last_term X) (List.length X - 1) (k - 1) ex e) as Srt.
      assert (e_term ex <= e_term e) by (apply Srt; auto; lia). lia. }
    rewrite <- (firstn_firstn_le k (List.length X) X) by lia. rewrite P.
    rewrite firstn_firstn_le by lia. exact Hy.
Qed.

(* ---------- more per-label facts ---------- *)
Lemma core_vote_cases cfg i sv f l sv' out ltr :
  server_core cfg i sv f l = HR sv' out ltr -> s_voted sv' <> 0 ->
  (s_voted sv' = s_voted sv /\ s_term sv' = s_term sv) \/
  (s_voted sv' = i /\ s_term sv' = s_term sv + 1 /\ s_role sv' = Candidate /\ s_log sv' = s_log sv) \/
  (exists mt lt li j d, s_m sv = Some (RVQ mt lt li j d) /\ s_voted sv' = j /\ s_term sv' = mt /\ s_term sv <= mt /\
     s_log sv' = s_log sv /\
     (last_term (s_log sv) < lt \/ (lt = last_term (s_log sv) /\ List.length (s_log sv) <= li))).
Proof.
  intros H Hv. destruct l; core_cases H; ut_cases; cbn in *; try congruence; auto.
  all: try (right; left; repeat split; auto; fail).
  all: right; right; eexists _, _, _, _, _; split; [reflexivity|]; bprop; subst; cbn in *; repeat split; auto; try lia.
Qed.

Lemma core_cand_cases cfg i sv f l sv' out ltr :
  server_core cfg i sv f l = HR sv' out ltr -> s_role sv' = Candidate ->
  (s_role sv = Candidate /\ s_term sv' = s_term sv /\ s_log sv' = s_log sv) \/
  (s_role sv <> Leader /\ s_term sv' = s_term sv + 1 /\ s_log sv' = s_log sv /\ s_voted sv' = i).
Proof.
  intros H Hc. destruct l; core_cases H; ut_cases; cbn in *; try discriminate; auto.
  all: bprop; try discriminate; try (destruct (s_role sv); cbn in *; try discriminate; auto; fail).
  all: try (right; repeat split; auto; destruct (s_role sv); cbn in *; congruence).
Qed.

Lemma core_rvq_out cfg i sv f l sv' md d t' lt li c dst ltr :
  server_core cfg i sv f l = HR sv' (Some (md, d, RVQ t' lt li c dst)) ltr ->
  c = i /\ dst = d /\ d <> i /\ t' = s_term sv /\ lt = last_term (s_log sv) /\ li = List.length (s_log sv) /\
  s_log sv' = s_log sv /\ s_term sv' = s_term sv /\ s_role sv' = s_role sv.
Proof.
  intros H. destruct l; unfold_core H; repeat (destr_in H; try discriminate H); inversion H; subst; clear H.
  bprop. repeat split; auto.
Qed.

Lemma core_log_cases2 cfg i sv f l sv' out ltr :
  server_core cfg i sv f l = HR sv' out ltr ->
  s_log sv' = s_log sv \/
  (s_role sv = Leader /\ s_role sv' = Leader /\ s_term sv' = s_term sv /\
   exists c j, s_log sv' = s_log sv ++ [mkEntry (s_term sv) c j]) \/
  (exists mt prev prevT es mc j d,
     s_m sv = Some (APQ mt prev prevT es mc j d) /\ s_role sv' = Follower /\ s_term sv' = mt /\
     (prev = 0 \/ (0 < prev /\ term_at (s_log sv) prev = Some prevT)) /\
     s_log sv' = firstn prev (s_log sv) ++ es /\ s_pc0 sv = true /\ s_term sv <= mt).
Proof.
  intros H. destruct l; core_cases H; ut_cases; cbn in *; auto.
  all: try (right; left; bprop; destruct (s_role sv); try discriminate; repeat split; auto; eexists _, _; reflexivity).
  all: right; right; eexists _, _, _, _, _, _, _; split; [reflexivity|]; bprop; subst; cbn in *;
       repeat split; auto; try lia.
  all: try (destruct (s_role sv); cbn in *; try discriminate; reflexivity).
  all: try (right; split; [lia|]; destruct (term_at (s_log sv) mprevLogIndex); try discriminate; bprop; congruence).
Qed.

(* ---------- invariant, part B ---------- *)
Definition rvq_inv (cfg : config) (s : state) (g : ghost) (m : msg) : Prop :=
  match m with
  | RVQ t' lt li c d =>
      is_server cfg c = true /\ c <> d /\ t' <= s_term (srv s c) /\
      (s_role (srv s c) = Candidate -> s_term (srv s c) = t' -> gl g t' = 0 ->
         lt = last_term (s_log (srv s c)) /\ li = List.length (s_log (srv s c))) /\
      (gl g t' = c -> exists n, n <= List.length (tl g t') /\ lt = last_term (firstn n (tl g t')) /\ li = n)
  | _ => True
  end.

Record binv (cfg : config) (s : state) (g : ghost) (a : acks) : Prop := {
  Rn : forall d m, In m (net s d) -> rvq_inv cfg s g m;
  Rm : forall i m, s_m (srv s i) = Some m -> rvq_inv cfg s g m;
  VS : forall v, s_voted (srv s v) <> 0 -> gv g v (s_term (srv s v)) = s_voted (srv s v);
  V0 : forall v t' c, gv g v t' = c -> c <> 0 -> v <> c -> t' <= s_term (srv s c);
  K : forall v t k, 1 <= k -> k <= a v t -> own g t k ->
        hasp (s_log (srv s v)) g t k \/ exists t1, t1 <= s_term (srv s v) /\ bad g t k t1;
  Wa : forall v t' c, gv g v t' = c -> c <> 0 -> s_role (srv s c) = Candidate -> s_term (srv s c) = t' -> gl g t' = 0 ->
        forall t k, t < t' -> 1 <= k -> k <= a v t -> own g t k ->
          hasp (s_log (srv s c)) g t k \/ exists t1, t1 < t' /\ bad g t k t1;
  Wb : forall t', gl g t' <> 0 -> exists Q, NoDup Q /\ incl Q (seq 1 (cfg_n cfg)) /\ cfg_n cfg < List.length Q * 2 /\
        forall v, In v Q -> gv g v t' = gl g t' /\
          forall t k, t < t' -> 1 <= k -> k <= a v t -> own g t k ->
            hasp (tl g t') g t k \/ exists t1, t1 < t' /\ bad g t k t1
}.

Section BinvStep.
  Variables (cfg : config) (s : state) (g : ghost) (a : acks) (ev : event) (s' : state).
  Hypothesis IE : einv cfg s (gv g).
  Hypothesis I : linv cfg s g.
  Hypothesis IA : ainv cfg s g a.
  Hypothesis IB : binv cfg s g a.
  Hypothesis H : step cfg s ev = Commit s'.
  Hypothesis Hfifo : cfg_fifo cfg = true.
  Let g' := observe cfg g s'.
  Let a' := observe_ack cfg a s s'.
  Hypothesis I' : linv cfg s' g'.
  Hypothesis IA' : ainv cfg s' g' a'.
  Hypothesis IE' : einv cfg s' (gv g').

  Lemma Gtl t : is_prefix (tl g t) (tl g' t).
  Proof. apply (tl_grows _ _ _ _ _ IE I H). Qed.
  Lemma Ggl t : gl g t <> 0 -> gl g' t = gl g t.
  Proof. apply (gl_persist _ _ _ _ _ IE I H). Qed.
  Lemma Ggl0 t : gl g' t = 0 -> gl g t = 0.
  Proof. intros Z. destruct (Nat.eq_dec (gl g t) 0); auto. rewrite Ggl in Z; auto. Qed.
  Lemma Gnew t1 p e : gl g t1 <> 0 -> List.length (tl g t1) <= p -> nth_error (tl g' t1) p = Some e -> e_term e = t1.
  Proof.
    intros Hne Hp Hn.
    destruct (tl_step_cases _ _ _ _ _ IE I H t1) as [(E & _)|[(x & E & Et & _)|(Z & _)]]; try congruence;
      fold g' in E; rewrite E in Hn.
    - apply nth_error_lt in Hn. lia.
    - rewrite nth_error_app2 in Hn by lia. destruct (p - List.length (tl g t1)) as [|y]; [|destruct y; discriminate].
      injection Hn as <-. exact Et.
  Qed.
  Lemma Gle t e : In e (tl g t) -> e_term e <= t.
  Proof. apply (S1b _ _ _ _ IA). Qed.

  Lemma own_keep' t k : own g t k -> own g' t k.
  Proof. apply own_keep. exact Gtl. Qed.
  Lemma own_back' t k : own g' t k -> k <= List.length (tl g t) -> own g t k.
  Proof. apply own_back. exact Gtl. Qed.
  Lemma hasp_keep' l t k : hasp l g t k -> own g t k -> hasp l g' t k.
  Proof. intros Hh Ho. eapply hasp_keep; eauto. exact Gtl. apply (own_len _ _ _ Ho). Qed.
  Lemma bad_keep' t k t1 : own g t k -> bad g t k t1 -> bad g' t k t1.
  Proof. apply bad_keep; [exact Gtl | exact Ggl | exact Gnew | exact Gle]. Qed.

  (* acknowledgements of a server that has moved to a later term are frozen *)
  Lemma ack_frozen v t k : 1 <= k -> k <= a' v t -> t < s_term (srv s v) -> k <= a v t.
  Proof.
    intros Hk1 Hk Ht. pose proof (term_monotone_step _ _ _ _ v H) as Hm.
    destruct (ack_cases _ _ _ _ _ _ IA H v t k Hk1 Hk) as [|[(prev & prevT & es & mc & j & dd & _ & _ & _ & _ & _ & _ & _ & _ & Hle & _)|(_ & Tm & _)]]; auto; lia.
  Qed.

  Lemma gv_obs v t : gv g' v t = if (t =? s_term (srv s' v)) && negb (s_voted (srv s' v) =? 0) then s_voted (srv s' v) else gv g v t.
  Proof. reflexivity. Qed.

  Lemma VS_step v : s_voted (srv s' v) <> 0 -> gv g' v (s_term (srv s' v)) = s_voted (srv s' v).
  Proof. intros Hv. apply (observe_sees (gv g) s' v Hv). Qed.

  (* a vote recorded at s' is an old one, or v has just voted *)
  Lemma vote_cases v t' c : gv g' v t' = c -> c <> 0 ->
    gv g v t' = c \/
    (is_server cfg v = true /\ t' = s_term (srv s' v) /\ c = s_voted (srv s' v) /\
     ((c = v /\ s_term (srv s' v) = s_term (srv s v) + 1 /\ s_role (srv s' v) = Candidate /\ s_log (srv s' v) = s_log (srv s v)) \/
      (exists lt li d, s_m (srv s v) = Some (RVQ t' lt li c d) /\ s_term (srv s v) <= t' /\ s_log (srv s' v) = s_log (srv s v) /\
         (last_term (s_log (srv s v)) < lt \/ (lt = last_term (s_log (srv s v)) /\ List.length (s_log (srv s v)) <= li))))).
  Proof.
    intros Hg Hc. rewrite gv_obs in Hg.
    destruct ((t' =? s_term (srv s' v)) && negb (s_voted (srv s' v) =? 0)) eqn:E; auto.
    apply andb_prop in E as [E1 E2]. apply Nat.eqb_eq in E1. apply negb_true_iff, Nat.eqb_neq in E2.
    destruct (step_srv_cases _ _ _ _ H v) as [Es|[(l & out & ltr & Hv & Ec)|(m & Es)]].
    - left. rewrite E1, <- Hg, Es. apply (VS _ _ _ _ IB). now rewrite <- Es.
    - destruct (core_vote_cases _ _ _ _ _ _ _ _ Ec E2) as [(A & B)|[(A & B & C & D)|(mt & lt & li & j & d & Hm & A & B & C & D & F)]].
      + left. rewrite E1, <- Hg, A, B. apply (VS _ _ _ _ IB). now rewrite <- A.
      + right. repeat split; auto. left. repeat split; auto. congruence.
      + right. repeat split; auto. right. exists lt, li, d.
        assert (Et : t' = mt) by congruence. assert (Ej : c = j) by congruence. rewrite Et, Ej. repeat split; auto.
    - left. rewrite E1, <- Hg, Es. cbn. apply (VS _ _ _ _ IB). rewrite Es in E2. exact E2.
  Qed.

  Lemma V0_step v t' c : gv g' v t' = c -> c <> 0 -> v <> c -> t' <= s_term (srv s' c).
  Proof.
    intros Hg Hc Hne. pose proof (term_monotone_step _ _ _ _ c H) as Hm.
    destruct (vote_cases _ _ _ Hg Hc) as [Ho|(_ & _ & _ & [(A & _)|(lt & li & d & Hsm & _)])].
    - pose proof (V0 _ _ _ _ IB v t' c Ho Hc Hne). lia.
    - congruence.
    - destruct (Rm _ _ _ _ IB _ _ Hsm) as (_ & _ & Hle & _). lia.
  Qed.

  Lemma cand_cases c : s_role (srv s' c) = Candidate ->
    (s_role (srv s c) = Candidate /\ s_term (srv s' c) = s_term (srv s c) /\ s_log (srv s' c) = s_log (srv s c)) \/
    (is_server cfg c = true /\ s_role (srv s c) <> Leader /\ s_term (srv s' c) = s_term (srv s c) + 1 /\
     s_log (srv s' c) = s_log (srv s c) /\ s_voted (srv s' c) = c).
  Proof.
    intros Hr. destruct (step_srv_cases _ _ _ _ H c) as [Es|[(l & out & ltr & Hv & Ec)|(m & Es)]].
    - left. rewrite Es in *. auto.
    - destruct (core_cand_cases _ _ _ _ _ _ _ _ Ec Hr) as [?|(A & B & C & D)]; auto. right. auto.
    - left. rewrite Es in *. cbn in *. auto.
  Qed.

  Lemma rvq_inv_keep m : rvq_inv cfg s g m -> rvq_inv cfg s' g' m.
  Proof.
    destruct m; try (intros; exact Logic.I). unfold rvq_inv. intros (A & B & C & D & E).
    pose proof (term_monotone_step _ _ _ _ msource H) as Hm.
    split; [auto|]. split; [auto|]. split; [lia|]. split.
    - intros Hr Ht Hz. destruct (cand_cases _ Hr) as [(R1 & R2 & R3)|(_ & _ & R2 & _)]; [|lia].
      rewrite R3. apply D; auto; [congruence | now apply Ggl0].
    - intros Hg.
      destruct (tl_step_cases _ _ _ _ _ IE I H mterm) as [(E1 & E2)|[(e & E1 & _ & _ & E2 & _)|(Z & _ & i & Hi & Ei & Rc & Tc & E1 & _)]];
        fold g' in E1; try fold g' in E2.
      + rewrite E1. apply E. congruence.
      + destruct E as (n & Hn & El & Eli); [congruence|]. exists n. rewrite E1, app_length. split; [lia|].
        split; auto. rewrite firstn_app. replace (n - List.length (tl g mterm)) with 0 by lia. cbn. now rewrite app_nil_r.
      + fold g' in Ei. assert (Eim : i = msource) by congruence. rewrite Eim in *.
        destruct (D Rc Tc Z) as [-> ->]. exists (List.length (s_log (srv s msource))). rewrite E1.
        split; [lia|]. rewrite firstn_all. auto.
  Qed.

  Lemma Rn_step d m : In m (net s' d) -> rvq_inv cfg s' g' m.
  Proof.
    intros Hin. destruct (net_in_cases _ _ _ _ H _ _ Hin) as [Ho|[Hs|(c & cm & ->)]]; [| |exact Logic.I].
    - apply rvq_inv_keep. eapply Rn; eauto.
    - destruct Hs as (i & l & md & ltr & Hi & Hc & _). destruct m; try exact Logic.I.
      destruct (core_rvq_out _ _ _ _ _ _ _ _ _ _ _ _ _ _ Hc) as (-> & -> & Hd & -> & -> & -> & El & Et & Er).
      unfold rvq_inv. split; [auto|]. split; [auto|]. split; [lia|]. split.
      + intros _ _ _. rewrite El. auto.
      + intros Hg. assert (Hne : gl g' (s_term (srv s i)) <> 0) by (rewrite Hg; apply (is_server_pos _ _ Hi)).
        destruct (G1 _ _ _ I' _ Hne) as [_ [[_ Hl]|Hlt]]; rewrite Hg in *; [|lia].
        pose proof (T0 _ _ _ I' i Hi Hl) as Etl. fold g' in Etl. rewrite Et in Etl.
        exists (List.length (s_log (srv s i))). rewrite <- Etl, El. split; [lia|]. now rewrite firstn_all.
  Qed.

  Lemma Rm_step i m : s_m (srv s' i) = Some m -> rvq_inv cfg s' g' m.
  Proof.
    intros Hm. destruct (role_term_log_cases _ _ _ _ i H) as [(_ & _ & _ & _ & C)|[(m0 & _ & _ & _ & _ & C & Hin)|(l & out & ltr & Hi & Hc)]].
    - rewrite C in Hm. apply rvq_inv_keep. eapply Rm; eauto.
    - rewrite C in Hm. injection Hm as <-. apply rvq_inv_keep. eapply Rn; eauto.
    - rewrite (core_m_stable _ _ _ _ _ _ _ _ Hc) in Hm. apply rvq_inv_keep. eapply Rm; eauto.
  Qed.

  Lemma K_step v t k : 1 <= k -> k <= a' v t -> own g' t k ->
    hasp (s_log (srv s' v)) g' t k \/ exists t1, t1 <= s_term (srv s' v) /\ bad g' t k t1.
  Proof.
    intros Hk1 Hk Ho. pose proof (term_monotone_step _ _ _ _ v H) as Hmono.
    destruct (ack_cases _ _ _ _ _ _ IA H v t k Hk1 Hk) as [Hka|[(prev & prevT & es & mc & j & dd & Hv & Hm & Hpc & Rf & Tm & Hok & El & Hkl & _)|(Rl & Tl & Hkl)]].
    - (* an old acknowledgement *)
      assert (Hog : own g t k).
      { apply own_back'; auto. pose proof (A1 _ _ _ _ IA v t). lia. }
      destruct (own_len _ _ _ Hog) as [_ Hklen].
      destruct (K _ _ _ _ IB v t k Hk1 Hka Hog) as [Hh|(t1 & Ht1 & Hb)];
        [|right; exists t1; split; [lia|apply bad_keep'; auto]].
      assert (Hsame : s_log (srv s' v) = s_log (srv s v) -> hasp (s_log (srv s' v)) g' t k \/ exists t1, t1 <= s_term (srv s' v) /\ bad g' t k t1).
      { intros E. left. rewrite E. apply hasp_keep'; auto. }
      destruct (role_term_log_cases _ _ _ _ v H) as [(_ & _ & C & _)|[(m & _ & _ & C & _)|(l & out & ltr & Hi & Hc)]]; auto.
      destruct (core_log_cases2 _ _ _ _ _ _ _ _ Hc) as [C|[(_ & _ & _ & c & j & C)|(mt & prev & prevT & es & mc & j & d & Hm & Rf & Tm & Hok & C & Hpc & Hle)]]; auto.
      + (* the leader appends *)
        left. apply hasp_keep'; auto. unfold hasp in *. rewrite C. rewrite <- Hh.
        apply firstn_prefix_stable; [apply is_prefix_app|]. apply (firstn_eq_length k (tl g t)); auto.
      + (* v accepts AppendEntries of term mt *)
        destruct (accept_len _ _ _ I _ _ _ _ _ _ _ _ Hm Hok) as (Ll & Lle & Lp). rewrite <- C in Ll, Lp.
        assert (Htv : t <= s_term (srv s v)) by (apply (A1b _ _ _ _ IA v t); lia).
        destruct (Nat.eq_dec mt t) as [->|Hne].
        * (* same term: FIFO gives a snapshot at least as long as what was acknowledged *)
          destruct (Fp _ _ _ _ IA v t _ Hpc Hm) as [Hfp _]; [cbn; apply Nat.eqb_refl|]. cbn in Hfp.
          left. apply hasp_keep'; auto. unfold hasp. apply is_prefix_firstn; auto. lia.
        * assert (Hlt : t < mt) by lia.
          destruct (Qm _ _ _ _ IA _ _ Hm) as [(_ & _ & _ & Htail) _].
          destruct (T3m _ _ _ I _ _ Hm) as (Hgl & _).
          destruct (hasp_dec (tl g mt) g t k) as [Hy|Hn].
          -- left. apply hasp_keep'; auto. unfold hasp in *.
             assert (Hlen : k <= List.length (tl g mt)) by (apply (firstn_eq_length k (tl g t)); auto).
             assert (HkL : k <= List.length (s_log (srv s' v))).
             { destruct (Nat.le_gt_cases k (List.length (s_log (srv s' v)))) as [|Hgt]; auto. exfalso.
               set (p := List.length (s_log (srv s' v))) in *.
               destruct (nth_error (tl g mt) p) as [e|] eqn:En; [|apply nth_error_None in En; lia].
               assert (Et : e_term e = mt) by (apply (Htail p e); auto; lia).
               assert (E1 : nth_error (tl g t) p = Some e).
               { rewrite <- (nth_error_firstn_lt k) by lia. rewrite <- Hy. rewrite nth_error_firstn_lt by lia. exact En. }
               apply nth_error_In in E1. apply (S1b _ _ _ _ IA) in E1. lia. }
             rewrite (is_prefix_firstn _ _ k Lp HkL). exact Hy.
          -- right. exists mt. split; [lia|]. apply bad_keep'; auto. repeat split; auto.
    - (* v has just acknowledged: its log is the accepted snapshot *)
      destruct (accept_len _ _ _ I _ _ _ _ _ _ _ _ Hm Hok) as (Ll & Lle & Lp). rewrite <- El in Ll, Lp.
      left. unfold hasp. rewrite (is_prefix_firstn _ _ k Lp) by lia.
      symmetry. apply firstn_prefix_stable; [apply Gtl|lia].
    - (* v is the leader of t *)
      left. unfold hasp. pose proof (T0 _ _ _ I' v (Ls_step _ _ _ _ _ _ IA H v Rl) Rl) as E. fold g' in E. rewrite E, Tl. reflexivity.
  Qed.

  Lemma ack_frozen' v t k : 1 <= k -> k <= a' v t -> t < s_term (srv s' v) -> k <= a v t.
  Proof.
    intros Hk1 Hk Ht.
    destruct (ack_cases _ _ _ _ _ _ IA H v t k Hk1 Hk) as [|[(prev & prevT & es & mc & j & dd & _ & _ & _ & _ & Tm & _)|(_ & Tm & _)]]; auto; lia.
  Qed.

  Lemma last_term_le l b : (forall e, In e l -> e_term e <= b) -> last_term l <= b.
  Proof.
    intros Hb. destruct l as [|x r] eqn:E; [rewrite last_term_nil; lia|].
    destruct (last_term_nth (x :: r)) as (e & Hn & ->); [discriminate|]. apply Hb. eapply nth_error_In; eauto.
  Qed.

  Lemma Wa_step v t' c : gv g' v t' = c -> c <> 0 -> s_role (srv s' c) = Candidate -> s_term (srv s' c) = t' -> gl g' t' = 0 ->
    forall t k, t < t' -> 1 <= k -> k <= a' v t -> own g' t k ->
      hasp (s_log (srv s' c)) g' t k \/ exists t1, t1 < t' /\ bad g' t k t1.
  Proof.
    intros Hg Hc Rc Tc Hz t k Htt Hk1 Hk Ho.
    pose proof (Ggl0 _ Hz) as Hz0.
    assert (Hne : gv g' v t' <> 0) by congruence.
    destruct (E1 _ _ _ IE' v t' Hne) as [Hvt _].
    assert (Hka : k <= a v t) by (apply ack_frozen'; auto; lia).
    assert (Hog : own g t k) by (apply own_back'; auto; pose proof (A1 _ _ _ _ IA v t); lia).
    assert (Hkeep : forall X, hasp X g t k \/ (exists t1, t1 < t' /\ bad g t k t1) ->
                    hasp X g' t k \/ (exists t1, t1 < t' /\ bad g' t k t1)).
    { intros X [Hh|(t1 & A & B)]; [left; apply hasp_keep'; auto | right; exists t1; split; auto; apply bad_keep'; auto]. }
    assert (HK : hasp (s_log (srv s v)) g t k \/ exists t1, t1 <= s_term (srv s v) /\ bad g t k t1)
      by (apply (K _ _ _ _ IB); auto).
    destruct (cand_cases _ Rc) as [(R1 & R2 & R3)|(Hic & R1 & R2 & R3 & R4)]; rewrite R3; apply Hkeep.
    - (* c was already a candidate of t' *)
      assert (Tcs : s_term (srv s c) = t') by lia.
      destruct (vote_cases _ _ _ Hg Hc) as [Ho'|(Hv & _ & _ & [(A & B & _)|(lt & li & d & Hsm & Hle & El & Hup)])].
      + apply (Wa _ _ _ _ IB v t' c); auto.
      + rewrite A in *. lia.
      + (* v grants its vote to c now *)
        destruct (Rm _ _ _ _ IB _ _ Hsm) as (_ & Hcd & _ & Hcl & _).
        destruct (Hcl R1 Tcs Hz0) as [-> ->].
        destruct HK as [Hh|(t1 & A & B)].
        * assert (U : hasp (s_log (srv s c)) g t k \/ bad g t k (last_term (s_log (srv s c)))).
          { apply (up_to_date g (s_log (srv s c)) (s_log (srv s v)) t k);
              [apply (T1 _ _ _ I) | apply (S1a _ _ _ _ IA) | apply (S1b _ _ _ _ IA) | apply (T5 _ _ _ I)
              | apply (T2 _ _ _ I) | apply (T2 _ _ _ I) | exact Hh | exact Hog |].
            destruct Hup as [Hu|[Hu1 Hu2]]; [left; exact Hu | right; split; [exact Hu1 | exact Hu2]]. }
          destruct U as [Hy|Hb]; [left; exact Hy|].
          right. exists (last_term (s_log (srv s c))). split; auto.
          assert (last_term (s_log (srv s c)) <= t').
          { rewrite <- Tcs. apply last_term_le. apply (S2 _ _ _ _ IA). }
          destruct Hb as (_ & Hgl & _). destruct (Nat.eq_dec (last_term (s_log (srv s c))) t'); [congruence|lia].
        * right. exists t1. split; auto. destruct B as (_ & Hgl & _).
          destruct (Nat.eq_dec t1 t'); [congruence|lia].
    - (* c has just timed out into t' *)
      destruct (vote_cases _ _ _ Hg Hc) as [Ho'|(Hv & _ & _ & [(A & B & _)|(lt & li & d & Hsm & Hle & El & Hup)])].
      + exfalso. destruct (Nat.eq_dec v c) as [->|Hvc].
        * assert (Hn0 : gv g c t' <> 0) by congruence. destruct (E1 _ _ _ IE c t' Hn0). lia.
        * pose proof (V0 _ _ _ _ IB v t' c Ho' Hc Hvc). lia.
      + rewrite A in *. destruct HK as [Hh|(t1 & A' & B')]; auto. right. exists t1. split; auto. lia.
      + exfalso. destruct (Rm _ _ _ _ IB _ _ Hsm) as (_ & _ & Hle' & _). lia.
  Qed.

  Lemma Wb_step t' : gl g' t' <> 0 -> exists Q, NoDup Q /\ incl Q (seq 1 (cfg_n cfg)) /\ cfg_n cfg < List.length Q * 2 /\
        forall v, In v Q -> gv g' v t' = gl g' t' /\
          forall t k, t < t' -> 1 <= k -> k <= a' v t -> own g' t k ->
            hasp (tl g' t') g' t k \/ exists t1, t1 < t' /\ bad g' t k t1.
  Proof.
    intros Hne.
    assert (Hold : gl g t' <> 0 -> gl g' t' = gl g t' -> exists Q, NoDup Q /\ incl Q (seq 1 (cfg_n cfg)) /\ cfg_n cfg < List.length Q * 2 /\
        forall v, In v Q -> gv g' v t' = gl g' t' /\
          forall t k, t < t' -> 1 <= k -> k <= a' v t -> own g' t k ->
            hasp (tl g' t') g' t k \/ exists t1, t1 < t' /\ bad g' t k t1).
    { intros Hn0 Eg. destruct (Wb _ _ _ _ IB t' Hn0) as (Q & N & Inc & Hq & Hall). exists Q. repeat split; auto.
      - rewrite Eg. destruct (Hall v H0) as [Hv _]. rewrite <- Hv.
        apply (gv_extends _ _ _ _ _ IE H). congruence.
      - intros t k Htt Hk1 Hk Ho. destruct (Hall v H0) as [Hv Hw].
        assert (Hvn : gv g v t' <> 0) by congruence.
        destruct (E1 _ _ _ IE v t' Hvn) as [Hvt _]. pose proof (term_monotone_step _ _ _ _ v H) as Hm.
        assert (Hka : k <= a v t) by (apply ack_frozen'; auto; lia).
        assert (Hog : own g t k) by (apply own_back'; auto; pose proof (A1 _ _ _ _ IA v t); lia).
        destruct (Hw t k Htt Hk1 Hka Hog) as [Hh|(t1 & A & B)].
        + left. apply hasp_keep'; auto. unfold hasp in *. rewrite <- Hh.
          apply firstn_prefix_stable; [apply Gtl|]. destruct (own_len _ _ _ Hog). apply (firstn_eq_length k (tl g t)); auto.
        + right. exists t1. split; auto. apply bad_keep'; auto. }
    destruct (tl_step_cases _ _ _ _ _ IE I H t') as [(_ & E2)|[(e & _ & _ & Hn0 & E2 & _)|(Z & _ & i & Hi & Ei & Rc & Tc & E1' & _ & _ & _ & Q)]];
      fold g' in E2 || fold g' in Ei.
    - apply Hold; auto. congruence.
    - apply Hold; auto.
    - fold g' in E1'. assert (Rcf : s_role (srv s i) <> Follower) by congruence.
      exists (s_vgrant (srv s i)). repeat split.
      + apply ssorted_NoDup, (E7 _ _ _ IE).
      + intros v Hv. apply is_server_in_seq. eapply (E4 _ _ _ IE i Hi Rcf v Hv).
      + unfold is_quorum in Q. now apply Nat.ltb_lt in Q.
      + rewrite Ei. destruct (E4 _ _ _ IE i Hi Rcf v H0) as [Ea _]. rewrite Tc in Ea. rewrite <- Ea.
        apply (gv_extends _ _ _ _ _ IE H). rewrite Ea. apply (is_server_pos _ _ Hi).
      + intros t k Htt Hk1 Hk Ho.
        destruct (E4 _ _ _ IE i Hi Rcf v H0) as [Ea _]. rewrite Tc in Ea.
        assert (Hvn : gv g v t' <> 0) by (rewrite Ea; apply (is_server_pos _ _ Hi)).
        destruct (E1 _ _ _ IE v t' Hvn) as [Hvt _]. pose proof (term_monotone_step _ _ _ _ v H) as Hm.
        assert (Hka : k <= a v t) by (apply ack_frozen'; auto; lia).
        assert (Hog : own g t k) by (apply own_back'; auto; pose proof (A1 _ _ _ _ IA v t); lia).
        rewrite E1'.
        destruct (Wa _ _ _ _ IB v t' i Ea (is_server_pos _ _ Hi) Rc Tc Z t k Htt Hk1 Hka Hog) as [Hh|(t1 & A & B)].
        * left. apply hasp_keep'; auto.
        * right. exists t1. split; auto. apply bad_keep'; auto.
  Qed.

  Lemma binv_step : binv cfg s' g' a'.
  Proof.
    constructor.
    - apply Rn_step.
    - apply Rm_step.
    - apply VS_step.
    - apply V0_step.
    - apply K_step.
    - apply Wa_step.
    - apply Wb_step.
  Qed.
End BinvStep.

Lemma binv_init cfg : binv cfg (init cfg) ghost0 (fun _ _ => 0).
Proof.
  constructor; cbn; try congruence; try tauto; try discriminate; intros; try lia; try congruence.
Qed.

Lemma areach_binv cfg s g a : cfg_fifo cfg = true -> areach cfg s g a -> binv cfg s g a.
Proof.
  intros Hf. induction 1; [apply binv_init|].
  pose proof (areach_greach _ _ _ _ H) as Hg.
  assert (Hg' : greach cfg s' (observe cfg g s')) by (econstructor; eauto).
  apply (binv_step cfg s g a ev s'); auto.
  - eapply vreach_einv, greach_vreach; eauto.
  - eapply greach_linv; eauto.
  - eapply areach_ainv; eauto.
  - eapply greach_linv; eauto.
  - apply (vreach_einv _ _ _ (greach_vreach _ _ _ Hg')).
Qed.

(* ---------- an acknowledged own-term entry of a quorum is in the log of every later leader ---------- *)
Definition chosen (cfg : config) (a : acks) (t k : nat) : Prop :=
  exists Q, NoDup Q /\ incl Q (seq 1 (cfg_n cfg)) /\ cfg_n cfg < List.length Q * 2 /\ forall v, In v Q -> k <= a v t.

Lemma chosen_no_bad cfg s g a t k :
  binv cfg s g a -> chosen cfg a t k -> own g t k -> forall t1, ~ bad g t k t1.
Proof.
  intros IB (Q & N & Inc & Hq & Hall) Ho.
  destruct (own_len _ _ _ Ho) as [Hk1 _].
  intros t1. induction t1 as [t1 IH] using (well_founded_induction lt_wf).
  intros (Hlt & Hgl & Hn).
  destruct (Wb _ _ _ _ IB t1 Hgl) as (Q1 & N1 & Inc1 & Hq1 & Hall1).
  destruct (quorum_intersect (cfg_n cfg) Q Q1) as (v & V & V1); auto.
  destruct (Hall1 v V1) as [_ Hw].
  destruct (Hw t k Hlt Hk1 (Hall v V) Ho) as [Hh|(t2 & A & B)]; [contradiction|].
  exact (IH t2 A B).
Qed.
