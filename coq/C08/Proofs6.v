(* C08 — commit indices are covered by commit points; leader completeness, state machine safety, ApplyLogOK. *)
From PGV Require Import C08.Model C08.Proofs1 C08.Proofs2 C08.Proofs3 C08.Proofs4 C08.Proofs5.
From Coq Require Import Lia.

(* what a server may regard as committed: commitIndex, and inside applyLoop the target newCommitIndex *)
Definition cbound (sv : server) : nat := if s_pc3 sv then Nat.max (s_commit sv) (s_newci sv) else s_commit sv.

Lemma cbound_ge sv : s_commit sv <= cbound sv.
Proof. unfold cbound. destruct (s_pc3 sv); lia. Qed.

Lemma find_max_agree_spec cfg i mi n :
  find_max_agree cfg i mi n <> 0 ->
  is_quorum cfg (agree_set cfg i mi (find_max_agree cfg i mi n)) = true /\ find_max_agree cfg i mi n <= n.
Proof.
  induction n as [|n IH].
  - intros Hne. exfalso. apply Hne. reflexivity.
  - change (find_max_agree cfg i mi (S n)) with
      (if is_quorum cfg (agree_set cfg i mi (S n)) then S n else find_max_agree cfg i mi n).
    destruct (is_quorum cfg (agree_set cfg i mi (S n))) eqn:E; intros Hne.
    + split; auto.
    + destruct (IH Hne). split; auto.
Qed.

Lemma ssorted_seq a n : ssorted (seq a n).
Proof.
  revert a; induction n as [|n IH]; intros a; cbn; auto. split; auto.
  intros y Hy. apply in_seq in Hy. lia.
Qed.
Lemma ssorted_filter f l : ssorted l -> ssorted (filter f l).
Proof.
  induction l as [|x r IH]; cbn; auto. intros [Hx Hr]. destruct (f x); cbn; auto.
  split; auto. intros y Hy. apply filter_In in Hy as [Hy _]. auto.
Qed.

Lemma agree_set_props cfg i mi k : is_server cfg i = true ->
  NoDup (agree_set cfg i mi k) /\ incl (agree_set cfg i mi k) (seq 1 (cfg_n cfg)) /\
  forall v, In v (agree_set cfg i mi k) -> v = i \/ k <= mi v.
Proof.
  intros Hi. unfold agree_set. repeat split.
  - apply ssorted_NoDup, ins_sorted, ssorted_filter, ssorted_seq.
  - intros v Hv. apply In_ins in Hv as [->|Hv]; [now apply is_server_in_seq|]. apply filter_In in Hv as [Hv _]. exact Hv.
  - intros v Hv. apply In_ins in Hv as [->|Hv]; auto. apply filter_In in Hv as [_ Hv]. right. now apply Nat.leb_le.
Qed.

Lemma core_cbound_cases cfg i sv f l sv' out ltr :
  server_core cfg i sv f l = HR sv' out ltr ->
  (cbound sv' = cbound sv /\ s_commit sv <= s_commit sv' /\
   (s_log sv' = s_log sv \/ exists e, s_log sv' = s_log sv ++ [e])) \/
  (exists mt prev prevT es mc j d,
     s_m sv = Some (APQ mt prev prevT es mc j d) /\ s_role sv' = Follower /\ s_term sv' = mt /\
     (prev = 0 \/ (0 < prev /\ term_at (s_log sv) prev = Some prevT)) /\
     s_log sv' = firstn prev (s_log sv) ++ es /\ s_pc0 sv = true /\ s_term sv <= mt /\
     mc <= List.length (s_log sv') /\ s_commit sv' = Nat.max (s_commit sv) mc /\ cbound sv' = Nat.max (cbound sv) mc /\
     (s_sm sv', s_smdom sv') = apply_log (s_log sv') (s_commit sv + 1) mc (s_sm sv, s_smdom sv) /\
     s_pc0 sv' = false) \/
  (s_role sv = Leader /\ s_log sv' = s_log sv /\ s_term sv' = s_term sv /\ s_pc3 sv = false /\ s_commit sv' = s_commit sv /\
   s_role sv' = Leader /\
   (cbound sv' = cbound sv \/
    (cbound sv' = find_max_agree cfg i (s_match sv) (List.length (s_log sv)) /\ cbound sv' <> 0 /\
     term_at (s_log sv) (cbound sv') = Some (s_term sv)))).
Proof.
  intros H. unfold cbound. destruct l; core_cases H; ut_cases; cbn in *; auto.
  all: try (left; repeat split; auto; try lia; fail).
  all: try (left; repeat split; auto; try lia; right; eexists; reflexivity).
  all: bprop; subst; cbn in *.
  all: try (left; repeat split; auto; try lia; fail).
  all: try (right; left; eexists _, _, _, _, _, _, _; split; [reflexivity|];
            repeat match goal with |- _ /\ _ => split end; auto; try lia;
            try (destruct (s_pc3 sv); lia);
            try (destruct (s_role sv); cbn in *; try discriminate; reflexivity);
            try (right; split; [lia|]; destruct (term_at (s_log sv) mprevLogIndex); try discriminate; bprop; congruence);
            try (destruct (apply_log _ _ _ _); reflexivity); fail).
  all: try (match goal with Hp : s_pc3 ?x = true |- _ => rewrite Hp end; left; repeat split; auto; lia).
  all: right; right; apply role_eqb_eq in Heqb1; repeat split; auto.
  all: match goal with Ho : match term_at ?l ?k with _ => _ end = Some _ |- _ =>
         destruct (term_at l k) as [tt|] eqn:Et; try discriminate; injection Ho as <- end.
  all: match goal with |- context [if ?c then _ else _] => destruct c eqn:Ett end; bprop; subst.
  all: try (left; lia).
  all: right; rewrite Nat.max_r by lia; repeat split; auto.
Qed.

Lemma core_sm_cases cfg i sv f l sv' out ltr :
  server_core cfg i sv f l = HR sv' out ltr ->
  (s_sm sv' = s_sm sv /\ s_smdom sv' = s_smdom sv /\ s_commit sv' = s_commit sv /\
   (s_log sv' = s_log sv \/ exists e, s_log sv' = s_log sv ++ [e])) \/
  (exists e, s_commit sv' = s_commit sv + 1 /\ s_log sv' = s_log sv /\ log_at (s_log sv) (s_commit sv + 1) = Some e /\
             (s_sm sv', s_smdom sv') = apply_entry e (s_sm sv, s_smdom sv)) \/
  (exists mt prev prevT es mc j d,
     s_m sv = Some (APQ mt prev prevT es mc j d) /\ s_role sv' = Follower /\ s_term sv' = mt /\
     (prev = 0 \/ (0 < prev /\ term_at (s_log sv) prev = Some prevT)) /\
     s_log sv' = firstn prev (s_log sv) ++ es /\ s_pc0 sv = true /\ s_term sv <= mt /\
     mc <= List.length (s_log sv') /\ s_commit sv' = Nat.max (s_commit sv) mc /\
     (s_sm sv', s_smdom sv') = apply_log (s_log sv') (s_commit sv + 1) mc (s_sm sv, s_smdom sv)).
Proof.
  intros H. destruct l; core_cases H; ut_cases; cbn in *; auto.
  all: try (left; repeat split; auto; fail).
  all: try (left; repeat split; auto; right; eexists; reflexivity).
  all: try (right; left; eexists; repeat split; eauto; destruct (apply_entry _ _); reflexivity).
  all: bprop; subst; cbn in *.
  all: try (right; right; eexists _, _, _, _, _, _, _; split; [reflexivity|];
            repeat match goal with |- _ /\ _ => split end; auto; try lia;
            try (destruct (s_role sv); cbn in *; try discriminate; reflexivity);
            try (right; split; [lia|]; destruct (term_at (s_log sv) mprevLogIndex); try discriminate; bprop; congruence);
            try (destruct (apply_log _ _ _ _); reflexivity); fail).
Qed.

(* ---------- commit points ---------- *)
Definition cpt (cfg : config) (g : ghost) (a : acks) (t k : nat) : Prop := chosen cfg a t k /\ own g t k.

Definition covered (cfg : config) (g : ghost) (a : acks) (n : nat) (l : list entry) (tb self : nat) : Prop :=
  n = 0 \/ exists t k, cpt cfg g a t k /\ n <= k /\ t <= tb /\ firstn n l = firstn n (tl g t) /\ (t = tb -> n <= a self t).

Definition apq_commit_ok (cfg : config) (g : ghost) (a : acks) (m : msg) : Prop :=
  match m with
  | APQ t2 _ _ _ mc _ _ =>
      mc = 0 \/ exists t k, cpt cfg g a t k /\ mc <= k /\ t <= t2 /\ firstn mc (tl g t2) = firstn mc (tl g t)
  | _ => True
  end.

Definition apply_all (l : list entry) : list (nat * nat) * list nat :=
  fold_left (fun acc e => apply_entry e acc) l ([], []).

Record cinv (cfg : config) (s : state) (g : ghost) (a : acks) : Prop := {
  C1 : forall i, covered cfg g a (cbound (srv s i)) (s_log (srv s i)) (s_term (srv s i)) i;
  C2n : forall d m, In m (net s d) -> apq_commit_ok cfg g a m;
  C2m : forall i m, s_m (srv s i) = Some m -> apq_commit_ok cfg g a m;
  D1 : forall i, (s_sm (srv s i), s_smdom (srv s i)) = apply_all (firstn (s_commit (srv s i)) (s_log (srv s i)))
}.

Lemma covered_len cfg g a n l tb self : covered cfg g a n l tb self -> n <= List.length l.
Proof.
  intros [->|(t & k & [_ Ho] & Hk & _ & E & _)]; [lia|].
  destruct (own_len _ _ _ Ho) as [_ Hl]. apply (firstn_eq_length n (tl g t)); auto. lia.
Qed.

Lemma own_term_le g t k e : own g t k -> (forall x, In x (tl g t) -> e_term x <= t) -> sorted_terms (tl g t) ->
  forall p, p < k -> nth_error (tl g t) p = Some e -> e_term e <= t.
Proof. intros _ Hb _ p _ Hn. apply Hb. eapply nth_error_In; eauto. Qed.

(* a snapshot of the log of a later leader contains every commit point of an earlier term *)
Lemma snapshot_has_cpt cfg s g a t k mt L :
  linv cfg s g -> ainv cfg s g a -> binv cfg s g a ->
  cpt cfg g a t k -> t < mt -> gl g mt <> 0 -> is_prefix L (tl g mt) ->
  (forall p e, List.length L <= p -> nth_error (tl g mt) p = Some e -> e_term e = mt) ->
  k <= List.length L /\ firstn k L = firstn k (tl g t).
Proof.
  intros I IA IB [Hc Ho] Hlt Hgl P Htail.
  destruct (hasp_dec (tl g mt) g t k) as [Hy|Hn].
  2:{ exfalso. apply (chosen_no_bad _ _ _ _ _ _ IB Hc Ho mt). repeat split; auto. }
  destruct (own_len _ _ _ Ho) as [Hk1 Hk]. unfold hasp in Hy.
  assert (Hlen : k <= List.length (tl g mt)) by (apply (firstn_eq_length k (tl g t)); auto).
  assert (HkL : k <= List.length L).
  { destruct (Nat.le_gt_cases k (List.length L)) as [|Hgt]; auto. exfalso.
    set (p := List.length L) in *.
    destruct (nth_error (tl g mt) p) as [e|] eqn:En; [|apply nth_error_None in En; lia].
    assert (Et : e_term e = mt) by (apply (Htail p e); auto; lia).
    assert (E1 : nth_error (tl g t) p = Some e).
    { rewrite <- (nth_error_firstn_lt k) by lia. rewrite <- Hy. rewrite nth_error_firstn_lt by lia. exact En. }
    apply nth_error_In in E1. apply (S1b _ _ _ _ IA) in E1. lia. }
  split; auto. rewrite (is_prefix_firstn _ _ k P HkL). exact Hy.
Qed.

Lemma entry_eqb_refl e : entry_eqb e e = true.
Proof.
  destruct e as [t [i ty k v] c]. unfold entry_eqb, cmd_eqb. cbn. rewrite !Nat.eqb_refl. destruct ty; reflexivity.
Qed.
Lemma entries_eqb_refl l : entries_eqb l l = true.
Proof. induction l as [|x r IH]; cbn; auto. now rewrite entry_eqb_refl, IH. Qed.

Lemma accepted_ge sv sv' mt prev prevT es mc j d :
  s_m sv = Some (APQ mt prev prevT es mc j d) -> s_pc0 sv = true -> s_pc0 sv' = false -> s_term sv' = mt ->
  s_role sv' = Follower -> (prev = 0 \/ (0 < prev /\ term_at (s_log sv) prev = Some prevT)) ->
  s_log sv' = firstn prev (s_log sv) ++ es ->
  apq_accepted sv sv' mt = prev + List.length es.
Proof.
  intros Hm Hp Hp' Ht Hr Hok El. unfold apq_accepted. rewrite Hm, Hp, Hp', Ht, Hr, El, entries_eqb_refl, !Nat.eqb_refl. cbn.
  destruct Hok as [->|[A B]]; cbn; auto.
  rewrite B, Nat.eqb_refl. destruct (prev =? 0); cbn; auto.
  assert (E : (0 <? prev) = true) by now apply Nat.ltb_lt. now rewrite E.
Qed.

Lemma apply_all_app l1 l2 : apply_all (l1 ++ l2) = fold_left (fun acc e => apply_entry e acc) l2 (apply_all l1).
Proof. unfold apply_all. apply fold_left_app. Qed.

Lemma firstn_succ_nth (l : list entry) c e : log_at l (c + 1) = Some e -> firstn (c + 1) l = firstn c l ++ [e].
Proof.
  replace (c + 1) with (S c) by lia. cbn [log_at]. revert c. induction l as [|x r IH]; intros c Hn; destruct c; cbn in *; try discriminate.
  - injection Hn as <-. reflexivity.
  - f_equal. apply IH. exact Hn.
Qed.

Lemma firstn_add_split {A} c m (l : list A) : firstn (c + m) l = firstn c l ++ firstn m (skipn c l).
Proof.
  revert l; induction c as [|c IH]; intros l; cbn; auto. destruct l; cbn; [now destruct m|]. f_equal. apply IH.
Qed.

Section CinvStep.
  Variables (cfg : config) (s : state) (g : ghost) (a : acks) (ev : event) (s' : state).
  Hypothesis IE : einv cfg s (gv g).
  Hypothesis I : linv cfg s g.
  Hypothesis IA : ainv cfg s g a.
  Hypothesis IB : binv cfg s g a.
  Hypothesis IC : cinv cfg s g a.
  Hypothesis H : step cfg s ev = Commit s'.
  Let g' := observe cfg g s'.
  Let a' := observe_ack cfg a s s'.
  Hypothesis I' : linv cfg s' g'.
  Hypothesis IA' : ainv cfg s' g' a'.

  Lemma a_mono v t : a v t <= a' v t.
  Proof. apply observe_ack_mono. Qed.

  Lemma cpt_keep t k : cpt cfg g a t k -> cpt cfg g' a' t k.
  Proof.
    intros [(Q & N & Inc & Hq & Hall) Ho]. split.
    - exists Q. repeat split; auto. intros v Hv. pose proof (Hall v Hv). pose proof (a_mono v t). lia.
    - eapply own_keep; eauto. apply (tl_grows _ _ _ _ _ IE I H).
  Qed.

  Lemma tl_firstn_keep t k n : own g t k -> n <= k -> firstn n (tl g' t) = firstn n (tl g t).
  Proof.
    intros Ho Hn. destruct (own_len _ _ _ Ho). apply firstn_prefix_stable; [apply (tl_grows _ _ _ _ _ IE I H)|lia].
  Qed.

  Lemma covered_keep n l tb self : covered cfg g a n l tb self -> covered cfg g' a' n l tb self.
  Proof.
    intros [->|(t & k & Hc & Hk & Ht & E & Hcl)]; [now left|]. right. exists t, k.
    split; [now apply cpt_keep|]. repeat split; auto.
    - rewrite E. symmetry. apply (tl_firstn_keep t k n); auto. apply Hc.
    - intros Et. specialize (Hcl Et). pose proof (a_mono self t). lia.
  Qed.

  Lemma apq_commit_keep m : apq_commit_ok cfg g a m -> apq_commit_ok cfg g' a' m.
  Proof.
    destruct m; try (intros; exact Logic.I). unfold apq_commit_ok.
    intros [->|(t & k & Hc & Hk & Ht & E)]; [now left|]. right. exists t, k. split; [now apply cpt_keep|]. repeat split; auto.
    rewrite (tl_firstn_keep t k) by (auto; apply Hc). rewrite <- E.
    apply firstn_prefix_stable; [apply (tl_grows _ _ _ _ _ IE I H)|].
    destruct Hc as [_ Ho]. destruct (own_len _ _ _ Ho). apply (firstn_eq_length mcommitIndex (tl g t)); auto. lia.
  Qed.

  (* the new log of a follower that accepts AppendEntries still holds everything it knew to be committed *)
  Lemma accept_covers i mt prev prevT es mc j d :
    s_m (srv s i) = Some (APQ mt prev prevT es mc j d) -> s_pc0 (srv s i) = true -> s_term (srv s i) <= mt ->
    (prev = 0 \/ (0 < prev /\ term_at (s_log (srv s i)) prev = Some prevT)) ->
    let L := firstn prev (s_log (srv s i)) ++ es in
    mc <= List.length L ->
    let n := cbound (srv s i) in
    (n = 0 \/ exists t0 k0, cpt cfg g a t0 k0 /\ n <= k0 /\ t0 <= mt /\ firstn n L = firstn n (tl g t0) /\ n <= List.length L /\
                            firstn n L = firstn n (s_log (srv s i))) /\
    (mc = 0 \/ exists t1 k1, cpt cfg g a t1 k1 /\ mc <= k1 /\ t1 <= mt /\ firstn mc L = firstn mc (tl g t1)).
  Proof.
    intros Hm Hpc Hle Hok L Hmc n.
    destruct (accept_len _ _ _ I _ _ _ _ _ _ _ _ Hm Hok) as (Ll & Lle & Lp). fold L in Ll, Lp.
    destruct (Qm _ _ _ _ IA _ _ Hm) as [(_ & _ & _ & Htail) _]. rewrite <- Ll in Htail.
    destruct (T3m _ _ _ I _ _ Hm) as (Hgl & _).
    destruct (Fp _ _ _ _ IA i mt _ Hpc Hm) as [Hfp _]; [cbn; apply Nat.eqb_refl|]. cbn in Hfp. rewrite <- Ll in Hfp.
    split.
    - destruct (C1 _ _ _ _ IC i) as [E|(t0 & k0 & Hc & Hk & Ht & E & Hcl)]; [left; exact E|]. fold n in Hk, E, Hcl. right.
      exists t0, k0. split; auto. split; auto. split; [lia|].
      destruct (Nat.eq_dec t0 mt) as [->|Hne].
      + assert (Hn : n <= List.length L). { assert (s_term (srv s i) = mt) by lia. specialize (Hcl (eq_sym H0)). lia. }
        assert (E2 : firstn n L = firstn n (tl g mt)) by (apply is_prefix_firstn; auto).
        repeat split; auto. now rewrite E2, E.
      + destruct (snapshot_has_cpt _ _ _ _ t0 k0 mt L I IA IB Hc) as [HkL EL]; auto; [lia|].
        assert (E2 : firstn n L = firstn n (tl g t0)).
        { rewrite <- (firstn_firstn_le n k0 L) by lia. rewrite EL. apply firstn_firstn_le. lia. }
        repeat split; auto; [lia|]. now rewrite E2, E.
    - destruct (C2m _ _ _ _ IC _ _ Hm) as [E|(t1 & k1 & Hc & Hk & Ht & E)]; [left; exact E|]. right.
      exists t1, k1. split; [exact Hc|]. split; [exact Hk|]. split; [exact Ht|].
      rewrite <- E. apply is_prefix_firstn; auto.
  Qed.

  Lemma C1_step i : covered cfg g' a' (cbound (srv s' i)) (s_log (srv s' i)) (s_term (srv s' i)) i.
  Proof.
    pose proof (C1 _ _ _ _ IC i) as Hold. pose proof (term_monotone_step _ _ _ _ i H) as Hmono.
    destruct (step_srv_cases _ _ _ _ H i) as [E|[(l & out & ltr & Hi & Hc)|(m & E)]].
    - rewrite E. now apply covered_keep.
    - destruct (core_cbound_cases _ _ _ _ _ _ _ _ Hc) as [(Ecb & _ & Hlog)|[(mt & prev & prevT & es & mc & j & d & Hm & Rf & Tm & Hok & El & Hpc & Hle & Hmc & Hcom & Hcb & Hsm & Hpc')|(Rl & El & Et & Hp3 & Hcom & Rl' & Hcase)]].
      + (* nothing new is regarded as committed *)
        rewrite Ecb. apply covered_keep.
        destruct Hold as [->|(t & k & Hcpt & Hk & Ht & E & Hcl)]; [now left|]. right. exists t, k.
        split; [exact Hcpt|]. split; [exact Hk|]. split; [lia|]. split.
        * pose proof (covered_len _ _ _ _ _ _ _ (C1 _ _ _ _ IC i)) as Hn.
          destruct Hlog as [->|[e ->]]; auto. rewrite <- E. apply firstn_prefix_stable; [apply is_prefix_app|exact Hn].
        * intros Et. apply Hcl. lia.
      + (* AppendEntries accepted *)
        rewrite El in Hmc.
        destruct (accept_covers i mt prev prevT es mc j d Hm Hpc Hle Hok Hmc) as [Hn Hm'].
        destruct (accept_len _ _ _ I _ _ _ _ _ _ _ _ Hm Hok) as (Ll & _ & _).
        assert (Hacc : List.length (firstn prev (s_log (srv s i)) ++ es) <= a' i mt).
        { unfold a', observe_ack. rewrite (accepted_ge _ _ _ _ _ _ _ _ _ Hm Hpc Hpc' Tm Rf Hok El). lia. }
        rewrite Hcb, El, Tm.
        destruct (Nat.le_gt_cases mc (cbound (srv s i))) as [Hc1|Hc1].
        * rewrite Nat.max_l by lia. destruct Hn as [->|(t0 & k0 & Hcpt & Hk & Ht & E & HnL & _)]; [now left|].
          right. exists t0, k0. split; [now apply cpt_keep|]. split; [exact Hk|]. split; [exact Ht|]. split.
          -- rewrite E. symmetry. apply (tl_firstn_keep t0 k0); auto. apply Hcpt.
          -- intros ->. lia.
        * rewrite Nat.max_r by lia. destruct Hm' as [->|(t1 & k1 & Hcpt & Hk & Ht & E)]; [now left|].
          right. exists t1, k1. split; [now apply cpt_keep|]. split; [exact Hk|]. split; [exact Ht|]. split.
          -- rewrite E. symmetry. apply (tl_firstn_keep t1 k1); auto. apply Hcpt.
          -- intros ->. lia.
      + (* the leader computes newCommitIndex *)
        rewrite El, Et. destruct Hcase as [Ecb|(Ecb & Hnz & Hterm)].
        * rewrite Ecb. now apply covered_keep.
        * apply covered_keep. right. set (t := s_term (srv s i)) in *. set (ma := cbound (srv s' i)) in *.
          rewrite Ecb in Hnz.
          destruct (find_max_agree_spec cfg i (s_match (srv s i)) (List.length (s_log (srv s i))) Hnz) as [Hq Hma].
          rewrite <- Ecb in Hq, Hma.
          destruct (agree_set_props cfg i (s_match (srv s i)) ma Hi) as (N & Inc & Hmem).
          pose proof (T0 _ _ _ I i Hi Rl) as Etl. fold t in Etl.
          pose proof (A3 _ _ _ _ IA i Hi Rl) as Ha3. fold t in Ha3.
          exists t, ma. split; [split|].
          -- exists (agree_set cfg i (s_match (srv s i)) ma). repeat split; auto.
             ++ unfold is_quorum in Hq. now apply Nat.ltb_lt in Hq.
             ++ intros v Hv. destruct (Hmem v Hv) as [->|Hv']; [lia|].
                pose proof (Mi _ _ _ _ IA i v Hi Rl). fold t in H0. lia.
          -- unfold own. now rewrite <- Etl.
          -- repeat split; auto; try lia. now rewrite Etl.
    - rewrite E. unfold cbound. cbn. now apply covered_keep.
  Qed.

  Lemma C2n_step d m : In m (net s' d) -> apq_commit_ok cfg g' a' m.
  Proof.
    intros Hin. destruct (net_in_cases _ _ _ _ H _ _ Hin) as [Ho|[Hs|(c & cm & ->)]]; [| |exact Logic.I].
    - apply apq_commit_keep. eapply C2n; eauto.
    - apply apq_commit_keep. destruct Hs as (i & l & md & ltr & Hi & Hc & _). destruct m; try exact Logic.I.
      destruct (core_apq_out _ _ _ _ _ _ _ _ _ _ _ _ _ _ _ _ Hc) as (Rl & -> & _ & _ & _ & _ & _ & _).
      destruct (core_apq_dst _ _ _ _ _ _ _ _ _ _ _ _ _ _ _ _ Hc) as (_ & _ & -> & _).
      unfold apq_commit_ok. pose proof (cbound_ge (srv s i)) as Hcb.
      destruct (C1 _ _ _ _ IC i) as [E|(t & k & Hcpt & Hk & Ht & E & _)]; [left; lia|]. right.
      exists t, k. split; [exact Hcpt|]. split; [lia|]. split; [exact Ht|].
      rewrite <- (T0 _ _ _ I i Hi Rl).
      rewrite <- (firstn_firstn_le (s_commit (srv s i)) (cbound (srv s i)) (s_log (srv s i))) by lia.
      rewrite E. apply firstn_firstn_le. lia.
  Qed.

  Lemma C2m_step i m : s_m (srv s' i) = Some m -> apq_commit_ok cfg g' a' m.
  Proof.
    intros Hm. destruct (role_term_log_cases _ _ _ _ i H) as [(_ & _ & _ & _ & C)|[(m0 & _ & _ & _ & _ & C & Hin)|(l & out & ltr & Hi & Hc)]].
    - rewrite C in Hm. apply apq_commit_keep. eapply C2m; eauto.
    - rewrite C in Hm. injection Hm as <-. apply apq_commit_keep. eapply C2n; eauto.
    - rewrite (core_m_stable _ _ _ _ _ _ _ _ Hc) in Hm. apply apq_commit_keep. eapply C2m; eauto.
  Qed.

  Lemma D1_step i : (s_sm (srv s' i), s_smdom (srv s' i)) = apply_all (firstn (s_commit (srv s' i)) (s_log (srv s' i))).
  Proof.
    pose proof (D1 _ _ _ _ IC i) as Hold.
    pose proof (covered_len _ _ _ _ _ _ _ (C1 _ _ _ _ IC i)) as Hn. pose proof (cbound_ge (srv s i)) as Hcb.
    destruct (step_srv_cases _ _ _ _ H i) as [E|[(l & out & ltr & Hi & Hc)|(m & E)]].
    - now rewrite E.
    - destruct (core_sm_cases _ _ _ _ _ _ _ _ Hc) as [(A & B & C & Hlog)|[(e & A & B & C & D)|(mt & prev & prevT & es & mc & j & d & Hm & Rf & Tm & Hok & El & Hpc & Hle & Hmc & Hcom & Hsm)]].
      + rewrite A, B, C, Hold. f_equal. destruct Hlog as [->|[e ->]]; auto.
        symmetry. apply firstn_prefix_stable; [apply is_prefix_app|lia].
      + rewrite D, A, B, Hold. rewrite (firstn_succ_nth _ _ _ C), apply_all_app. reflexivity.
      + rewrite El in Hmc.
        destruct (accept_covers i mt prev prevT es mc j d Hm Hpc Hle Hok Hmc) as [Hcov _].
        assert (Ec : firstn (s_commit (srv s i)) (firstn prev (s_log (srv s i)) ++ es) = firstn (s_commit (srv s i)) (s_log (srv s i))).
        { destruct Hcov as [Z|(t0 & k0 & _ & _ & _ & _ & _ & E)].
          - assert (s_commit (srv s i) = 0) by lia. rewrite H0. reflexivity.
          - rewrite <- (firstn_firstn_le (s_commit (srv s i)) (cbound (srv s i))) by lia. rewrite E.
            apply firstn_firstn_le. lia. }
        rewrite Hsm, Hcom, El, Hold. unfold apply_log. rewrite <- Ec.
        replace (s_commit (srv s i) + 1 - 1) with (s_commit (srv s i)) by lia.
        destruct (Nat.le_gt_cases mc (s_commit (srv s i))) as [Hc1|Hc1].
        * rewrite Nat.max_l by lia. replace (S mc - (s_commit (srv s i) + 1)) with 0 by lia. reflexivity.
        * rewrite Nat.max_r by lia. replace (S mc - (s_commit (srv s i) + 1)) with (mc - s_commit (srv s i)) by lia.
          rewrite <- apply_all_app, <- firstn_add_split. f_equal. f_equal. lia.
    - rewrite E. cbn. exact Hold.
  Qed.

  Lemma cinv_step : cinv cfg s' g' a'.
  Proof.
    constructor; [apply C1_step | apply C2n_step | apply C2m_step | apply D1_step].
  Qed.
End CinvStep.

Lemma cinv_init cfg : cinv cfg (init cfg) ghost0 (fun _ _ => 0).
Proof.
  constructor; cbn; try tauto; try discriminate; intros; try (now left); reflexivity.
Qed.

Lemma areach_cinv cfg s g a : cfg_fifo cfg = true -> areach cfg s g a -> cinv cfg s g a.
Proof.
  intros Hf. induction 1; [apply cinv_init|].
  pose proof (areach_greach _ _ _ _ H) as Hg.
  assert (Hg' : greach cfg s' (observe cfg g s')) by (econstructor; eauto).
  apply (cinv_step cfg s g a ev s'); auto.
  - eapply vreach_einv, greach_vreach; eauto.
  - eapply greach_linv; eauto.
  - eapply areach_ainv; eauto.
  - eapply areach_binv; eauto.
Qed.

(* ---------- consequences ---------- *)
Lemma cpt_agree cfg s g a t1 k1 t2 k2 x :
  linv cfg s g -> binv cfg s g a -> cpt cfg g a t1 k1 -> cpt cfg g a t2 k2 -> x <= k1 -> x <= k2 ->
  firstn x (tl g t1) = firstn x (tl g t2).
Proof.
  intros I IB [C1' O1] [C2' O2] H1 H2.
  assert (Hgl : forall t k, own g t k -> gl g t <> 0).
  { intros t k Ho Z. apply (T5 _ _ _ I) in Z. destruct (own_len _ _ _ Ho). rewrite Z in *. cbn in *. lia. }
  destruct (Nat.lt_trichotomy t1 t2) as [Hlt|[->|Hlt]]; auto.
  - destruct (hasp_dec (tl g t2) g t1 k1) as [Hy|Hn].
    + unfold hasp in Hy. rewrite <- (firstn_firstn_le x k1 (tl g t1)) by lia. rewrite <- Hy. apply firstn_firstn_le. lia.
    + exfalso. apply (chosen_no_bad _ _ _ _ _ _ IB C1' O1 t2). repeat split; eauto.
  - destruct (hasp_dec (tl g t1) g t2 k2) as [Hy|Hn].
    + unfold hasp in Hy. rewrite <- (firstn_firstn_le x k2 (tl g t2)) by lia. rewrite <- Hy. symmetry. apply firstn_firstn_le. lia.
    + exfalso. apply (chosen_no_bad _ _ _ _ _ _ IB C2' O2 t1). repeat split; eauto.
Qed.

Lemma committed_prefix_agree cfg s g a i j c :
  linv cfg s g -> binv cfg s g a -> cinv cfg s g a ->
  c <= s_commit (srv s i) -> c <= s_commit (srv s j) ->
  firstn c (s_log (srv s i)) = firstn c (s_log (srv s j)) /\ c <= List.length (s_log (srv s i)).
Proof.
  intros I IB IC Hi Hj.
  pose proof (cbound_ge (srv s i)) as Bi. pose proof (cbound_ge (srv s j)) as Bj.
  pose proof (covered_len _ _ _ _ _ _ _ (C1 _ _ _ _ IC i)) as Li.
  split; [|lia].
  destruct (Nat.eq_dec c 0) as [->|Hc]; [reflexivity|].
  destruct (C1 _ _ _ _ IC i) as [Z|(ti & ki & Ci & Hki & _ & Ei & _)]; [lia|].
  destruct (C1 _ _ _ _ IC j) as [Z|(tj & kj & Cj & Hkj & _ & Ej & _)]; [lia|].
  rewrite <- (firstn_firstn_le c (cbound (srv s i)) (s_log (srv s i))) by lia.
  rewrite <- (firstn_firstn_le c (cbound (srv s j)) (s_log (srv s j))) by lia.
  rewrite Ei, Ej, !firstn_firstn_le by lia.
  apply (cpt_agree cfg s g a ti ki tj kj c); auto; lia.
Qed.

(* StateMachineSafety == \A i, j \in ServerSet: \A k \in 1..Min({commitIndex[i], commitIndex[j]}): log[i][k] = log[j][k] *)
Theorem state_machine_safety_lemma cfg s :
  cfg_fifo cfg = true -> reachable cfg s ->
  forall i j k, is_server cfg i = true -> is_server cfg j = true ->
    1 <= k -> k <= Nat.min (s_commit (srv s i)) (s_commit (srv s j)) ->
    log_at (s_log (srv s i)) k = log_at (s_log (srv s j)) k /\ log_at (s_log (srv s i)) k <> None.
Proof.
  intros Hf Hr i j k _ _ Hk1 Hk.
  destruct (reachable_areach _ _ Hr) as (g & a & Ha). pose proof (areach_greach _ _ _ _ Ha) as Hg.
  pose proof (greach_linv _ _ _ Hg) as I. pose proof (areach_binv _ _ _ _ Hf Ha) as IB. pose proof (areach_cinv _ _ _ _ Hf Ha) as IC.
  destruct (committed_prefix_agree cfg s g a i j k I IB IC) as [E Hl]; try lia.
  destruct k as [|k']; [lia|]. cbn [log_at]. split.
  - rewrite <- (nth_error_firstn_lt (S k') (s_log (srv s i))) by lia.
    rewrite <- (nth_error_firstn_lt (S k') (s_log (srv s j))) by lia. now rewrite E.
  - intros Z. apply nth_error_None in Z. lia.
Qed.

(* ApplyLogOK == \A i, j \in ServerSet: commitIndex[i] = commitIndex[j] => sm[i] = sm[j] /\ smDomain[i] = smDomain[j] *)
Theorem apply_log_ok_lemma cfg s :
  cfg_fifo cfg = true -> reachable cfg s ->
  forall i j, is_server cfg i = true -> is_server cfg j = true ->
    s_commit (srv s i) = s_commit (srv s j) ->
    s_sm (srv s i) = s_sm (srv s j) /\ s_smdom (srv s i) = s_smdom (srv s j).
Proof.
  intros Hf Hr i j _ _ Hc.
  destruct (reachable_areach _ _ Hr) as (g & a & Ha). pose proof (areach_greach _ _ _ _ Ha) as Hg.
  pose proof (greach_linv _ _ _ Hg) as I. pose proof (areach_binv _ _ _ _ Hf Ha) as IB. pose proof (areach_cinv _ _ _ _ Hf Ha) as IC.
  destruct (committed_prefix_agree cfg s g a i j (s_commit (srv s i)) I IB IC) as [E _]; try lia.
  pose proof (D1 _ _ _ _ IC i) as Di. pose proof (D1 _ _ _ _ IC j) as Dj.
  rewrite <- Hc in Dj. rewrite <- E in Dj. rewrite <- Di in Dj. injection Dj as -> ->. auto.
Qed.

(* ---------- leader completeness along an execution ---------- *)
Lemma areach_steps cfg s1 g1 a1 s2 :
  cfg_fifo cfg = true -> areach cfg s1 g1 a1 -> steps cfg s1 s2 ->
  exists g2 a2, areach cfg s2 g2 a2 /\ (forall t, is_prefix (tl g1 t) (tl g2 t)) /\
                (forall t k, cpt cfg g1 a1 t k -> cpt cfg g2 a2 t k).
Proof.
  intros Hf Ha Hs. induction Hs as [|s1 s2 ev s3 Hs IH Hstep].
  - exists g1, a1. split; [exact Ha|]. split; [intros t; apply is_prefix_refl | auto].
  - destruct (IH Ha) as (g2 & a2 & Ha2 & Hp & Hc).
    pose proof (areach_greach _ _ _ _ Ha2) as Hg2.
    pose proof (vreach_einv _ _ _ (greach_vreach _ _ _ Hg2)) as IE. pose proof (greach_linv _ _ _ Hg2) as I.
    exists (observe cfg g2 s3), (observe_ack cfg a2 s2 s3). split; [|split].
    + econstructor; eauto.
    + intros t. eapply is_prefix_trans; [apply Hp|]. apply (tl_grows _ _ _ _ _ IE I Hstep).
    + intros t k Hcp. apply (cpt_keep cfg s2 g2 a2 ev s3 IE I Hstep). now apply Hc.
Qed.

(* An entry within the commit index of server i at a time when i's term is T is, at every later time, in the log of every
   Leader whose term is >= T (at the same index). *)
Theorem leader_completeness_lemma cfg s1 s2 :
  cfg_fifo cfg = true -> reachable cfg s1 -> steps cfg s1 s2 ->
  forall i j idx, is_server cfg i = true -> is_server cfg j = true ->
    1 <= idx -> idx <= s_commit (srv s1 i) ->
    s_role (srv s2 j) = Leader -> s_term (srv s1 i) <= s_term (srv s2 j) ->
    log_at (s_log (srv s2 j)) idx = log_at (s_log (srv s1 i)) idx /\ log_at (s_log (srv s1 i)) idx <> None.
Proof.
  intros Hf Hr Hs i j idx _ Hj Hk1 Hk Hl Ht.
  destruct (reachable_areach _ _ Hr) as (g1 & a1 & Ha1).
  pose proof (areach_cinv _ _ _ _ Hf Ha1) as IC1.
  destruct (areach_steps _ _ _ _ _ Hf Ha1 Hs) as (g2 & a2 & Ha2 & Hp & Hc).
  pose proof (areach_greach _ _ _ _ Ha2) as Hg2. pose proof (greach_linv _ _ _ Hg2) as I2.
  pose proof (areach_binv _ _ _ _ Hf Ha2) as IB2.
  pose proof (cbound_ge (srv s1 i)) as Bi.
  destruct (C1 _ _ _ _ IC1 i) as [Z|(t & k & Ci & Hki & Hti & Ei & _)]; [lia|].
  pose proof (Hc _ _ Ci) as [Ch2 Ow2]. destruct Ci as [_ Ow1]. destruct (own_len _ _ _ Ow1) as [_ Hlen1].
  set (n := cbound (srv s1 i)) in *. set (t2 := s_term (srv s2 j)) in *.
  (* the leader's log at s2 agrees with tl g1 t on the first n entries *)
  assert (E2 : firstn n (s_log (srv s2 j)) = firstn n (tl g1 t)).
  { rewrite (T0 _ _ _ I2 j Hj Hl). fold t2.
    assert (Eg : firstn n (tl g2 t) = firstn n (tl g1 t)) by (apply firstn_prefix_stable; [apply Hp|lia]).
    destruct (Nat.eq_dec t2 t) as [->|Hne]; [exact Eg|]. rewrite <- Eg.
    destruct (hasp_dec (tl g2 t2) g2 t k) as [Hy|Hn].
    - unfold hasp in Hy. rewrite <- (firstn_firstn_le n k (tl g2 t2)) by lia. rewrite Hy. apply firstn_firstn_le. lia.
    - exfalso. apply (chosen_no_bad _ _ _ _ _ _ IB2 Ch2 Ow2 t2). repeat split; auto; [lia|].
      pose proof (G2 _ _ _ I2 j Hj Hl) as Eg2. fold t2 in Eg2. rewrite Eg2. apply (is_server_pos _ _ Hj). }
  pose proof (covered_len _ _ _ _ _ _ _ (C1 _ _ _ _ IC1 i)) as Li. fold n in Li.
  destruct idx as [|idx']; [lia|]. cbn [log_at]. split.
  - rewrite <- (nth_error_firstn_lt n (s_log (srv s2 j))) by lia.
    rewrite <- (nth_error_firstn_lt n (s_log (srv s1 i))) by lia. now rewrite E2, Ei.
  - intros Z. apply nth_error_None in Z. lia.
Qed.

(* plogOK == \A i \in ServerSet: log[i] = plog[i]  (the persistent log mirrors the log; no assumption on the network) *)
Lemma core_plog cfg i sv f l sv' out ltr :
  server_core cfg i sv f l = HR sv' out ltr -> s_plog sv = s_log sv -> s_plog sv' = s_log sv'.
Proof.
  intros H E. destruct l; core_cases H; ut_cases; cbn in *; auto; try (now rewrite E).
  all: bprop; subst; cbn in *; rewrite E; try reflexivity.
  all: try (replace (List.length (s_log sv) - (List.length (s_log sv) - 0)) with 0 by lia; reflexivity).
  all: f_equal; f_equal; try lia.
  all: match goal with Ht : match term_at ?l ?k with _ => _ end = true |- _ =>
         destruct (term_at l k) eqn:Et; try discriminate; apply term_at_nth in Et as (e & _ & Hn & _); apply nth_error_lt in Hn; lia end.
Qed.

Theorem plog_eq_log_lemma cfg s : reachable cfg s -> forall i, s_plog (srv s i) = s_log (srv s i).
Proof.
  induction 1 as [|s ev s' Hr IH Hs]; intros i; [reflexivity|].
  destruct (step_srv_cases _ _ _ _ Hs i) as [E|[(l & out & ltr & _ & Hc)|(m & E)]].
  - rewrite E. apply IH.
  - eapply core_plog; eauto.
  - rewrite E. cbn. apply IH.
Qed.

(* committed prefixes never change *)
Lemma committed_firstn_stable cfg s1 s2 :
  cfg_fifo cfg = true -> reachable cfg s1 -> steps cfg s1 s2 ->
  forall i j idx, idx <= s_commit (srv s1 i) -> idx <= s_commit (srv s2 j) ->
    firstn idx (s_log (srv s2 j)) = firstn idx (s_log (srv s1 i)) /\ idx <= List.length (s_log (srv s1 i)).
Proof.
  intros Hf Hr Hs i j idx Hki Hkj.
  destruct (reachable_areach _ _ Hr) as (g1 & a1 & Ha1).
  pose proof (areach_cinv _ _ _ _ Hf Ha1) as IC1.
  pose proof (covered_len _ _ _ _ _ _ _ (C1 _ _ _ _ IC1 i)) as Li. pose proof (cbound_ge (srv s1 i)) as Bi.
  split; [|lia].
  destruct (Nat.eq_dec idx 0) as [->|Hnz]; [reflexivity|].
  destruct (areach_steps _ _ _ _ _ Hf Ha1 Hs) as (g2 & a2 & Ha2 & Hp & Hc).
  pose proof (areach_greach _ _ _ _ Ha2) as Hg2. pose proof (greach_linv _ _ _ Hg2) as I2.
  pose proof (areach_binv _ _ _ _ Hf Ha2) as IB2. pose proof (areach_cinv _ _ _ _ Hf Ha2) as IC2.
  pose proof (cbound_ge (srv s2 j)) as Bj.
  destruct (C1 _ _ _ _ IC1 i) as [Z|(t & k & Ci & Hk & _ & Ei & _)]; [lia|].
  destruct (C1 _ _ _ _ IC2 j) as [Z|(t' & k' & Cj & Hk' & _ & Ej & _)]; [lia|].
  pose proof (Hc _ _ Ci) as Ci2. destruct Ci as [_ Ow1]. destruct (own_len _ _ _ Ow1) as [_ Hlen1].
  rewrite <- (firstn_firstn_le idx (cbound (srv s2 j)) (s_log (srv s2 j))) by lia.
  rewrite <- (firstn_firstn_le idx (cbound (srv s1 i)) (s_log (srv s1 i))) by lia.
  rewrite Ei, Ej, !firstn_firstn_le by lia.
  rewrite (cpt_agree cfg s2 g2 a2 t' k' t k idx I2 IB2 Cj Ci2) by lia.
  apply firstn_prefix_stable; [apply Hp|lia].
Qed.

(* committed entries never change: what is within some commit index now is what every server will ever hold there once it
   commits that index *)
Theorem committed_stable_lemma cfg s1 s2 :
  cfg_fifo cfg = true -> reachable cfg s1 -> steps cfg s1 s2 ->
  forall i j idx, 1 <= idx -> idx <= s_commit (srv s1 i) -> idx <= s_commit (srv s2 j) ->
    log_at (s_log (srv s2 j)) idx = log_at (s_log (srv s1 i)) idx /\ log_at (s_log (srv s1 i)) idx <> None.
Proof.
  intros Hf Hr Hs i j idx Hk1 Hki Hkj.
  destruct (reachable_areach _ _ Hr) as (g1 & a1 & Ha1).
  pose proof (areach_cinv _ _ _ _ Hf Ha1) as IC1.
  destruct (areach_steps _ _ _ _ _ Hf Ha1 Hs) as (g2 & a2 & Ha2 & Hp & Hc).
  pose proof (areach_greach _ _ _ _ Ha2) as Hg2. pose proof (greach_linv _ _ _ Hg2) as I2.
  pose proof (areach_binv _ _ _ _ Hf Ha2) as IB2. pose proof (areach_cinv _ _ _ _ Hf Ha2) as IC2.
  pose proof (cbound_ge (srv s1 i)) as Bi. pose proof (cbound_ge (srv s2 j)) as Bj.
  destruct (C1 _ _ _ _ IC1 i) as [Z|(t & k & Ci & Hk & _ & Ei & _)]; [lia|].
  destruct (C1 _ _ _ _ IC2 j) as [Z|(t' & k' & Cj & Hk' & _ & Ej & _)]; [lia|].
  pose proof (Hc _ _ Ci) as Ci2. destruct Ci as [_ Ow1]. destruct (own_len _ _ _ Ow1) as [_ Hlen1].
  pose proof (covered_len _ _ _ _ _ _ _ (C1 _ _ _ _ IC1 i)) as Li.
  pose proof (covered_len _ _ _ _ _ _ _ (C1 _ _ _ _ IC2 j)) as Lj.
  assert (E : firstn idx (s_log (srv s2 j)) = firstn idx (s_log (srv s1 i))).
  { rewrite <- (firstn_firstn_le idx (cbound (srv s2 j)) (s_log (srv s2 j))) by lia.
    rewrite <- (firstn_firstn_le idx (cbound (srv s1 i)) (s_log (srv s1 i))) by lia.
    rewrite Ei, Ej, !firstn_firstn_le by lia.
    rewrite (cpt_agree cfg s2 g2 a2 t' k' t k idx I2 IB2 Cj Ci2) by lia.
    apply firstn_prefix_stable; [apply Hp|lia]. }
  destruct idx as [|idx']; [lia|]. cbn [log_at]. split.
  - rewrite <- (nth_error_firstn_lt (S idx') (s_log (srv s2 j))) by lia.
    rewrite <- (nth_error_firstn_lt (S idx') (s_log (srv s1 i))) by lia. now rewrite E.
  - intros Z. apply nth_error_None in Z. lia.
Qed.
