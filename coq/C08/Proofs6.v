(* C08 — commit indices are covered by commit points; leader completeness, state machine safety, ApplyLogOK. *)
From PGV Require Import C08.Model C08.Proofs1 C08.Proofs2 C08.Proofs3 C08.Proofs4 C08.Proofs5.
From Coq Require Import Lia.

(* what a server may regard as committed: commitIndex, and inside applyLoop the target newCommitIndex *)
Definition cbound (sv : server) : nat := if s_pc3 sv then Nat.max (s_commit sv) (s_newci sv) else s_commit sv.

Lemma cbound_ge sv : s_commit sv <= cbound sv.
Proof. unfold cbound. destruct (s_pc3 sv); lia. Qed.

Lemma find_max_agree_spec cfg i mi n :
  find_max_agree cfg i mi n <> 0 ->
  is_quorum cfg (agree_set cfg i mi (find_max_agree cfg i mi n)) = true /\ find_max_agree cfg i mi n <= n.
Proof.
  induction n as [|n IH].
  - intros Hne. exfalso. apply Hne. reflexivity.
  - change (find_max_agree cfg i mi (S n)) with
      (if is_quorum cfg (agree_set cfg i mi (S n)) then S n else find_max_agree cfg i mi n).
    destruct (is_quorum cfg (agree_set cfg i mi (S n))) eqn:E; intros Hne.
    + split; auto.
    + destruct (IH Hne). split; auto.
Qed.

Lemma ssorted_seq a n : ssorted (seq a n).
Proof.
  revert a; induction n as [|n IH]; intros a; cbn; auto. split; auto.
  intros y Hy. apply in_seq in Hy. lia.
Qed.
Lemma ssorted_filter f l : ssorted l -> ssorted (filter f l).
Proof.
  induction l as [|x r IH]; cbn; auto. intros [Hx Hr]. destruct (f x); cbn; auto.
  split; auto. intros y Hy. apply filter_In in Hy as [Hy _]. auto.
Qed.

Lemma agree_set_props cfg i mi k : is_server cfg i = true ->
  NoDup (agree_set cfg i mi k) /\ incl (agree_set cfg i mi k) (seq 1 (cfg_n cfg)) /\
  forall v, In v (agree_set cfg i mi k) -> v = i \/ k <= mi v.
Proof.
  intros Hi. unfold agree_set. repeat split.
  - apply ssorted_NoDup, ins_sorted, ssorted_filter, ssorted_seq.
  - intros v Hv. apply In_ins in Hv as [->|Hv]; [now apply is_server_in_seq|]. apply filter_In in Hv as [Hv _]. exact Hv.
  - intros v Hv. apply In_ins in Hv as [->|Hv]; auto. apply filter_In in Hv as [_ Hv]. right. now apply Nat.leb_le.
Qed.

Lemma core_cbound_cases cfg i sv f l sv' out ltr :
  server_core cfg i sv f l = HR sv' out ltr ->
  (cbound sv' = cbound sv /\ s_commit sv <= s_commit sv' /\
   (s_log sv' = s_log sv \/ exists e, s_log sv' = s_log sv ++ [e])) \/
  (exists mt prev prevT es mc j d,
     s_m sv = Some (APQ mt prev prevT es mc j d) /\ s_role sv' = Follower /\ s_term sv' = mt /\
     (prev = 0 \/ (0 < prev /\ term_at (s_log sv) prev = Some prevT)) /\
     s_log sv' = firstn prev (s_log sv) ++ es /\ s_pc0 sv = true /\ s_term sv <= mt /\
     mc <= List.length (s_log sv') /\ s_commit sv' = Nat.max (s_commit sv) mc /\ cbound sv' = Nat.max (cbound sv) mc /\
     (s_sm sv', s_smdom sv') = apply_log (s_log sv') (s_commit sv + 1) mc (s_sm sv, s_smdom sv)) \/
  (s_role sv = Leader /\ s_log sv' = s_log sv /\ s_term sv' = s_term sv /\ s_pc3 sv = false /\ s_commit sv' = s_commit sv /\
   s_role sv' = Leader /\
   (cbound sv' = cbound sv \/
    (cbound sv' = find_max_agree cfg i (s_match sv) (List.length (s_log sv)) /\ cbound sv' <> 0 /\
     term_at (s_log sv) (cbound sv') = Some (s_term sv)))).
Proof.
  intros H. unfold cbound. destruct l; core_cases H; ut_cases; cbn in *; auto.
  all: try (left; repeat split; auto; try lia; fail).
  all: try (left; repeat split; auto; try lia; right; eexists; reflexivity).
  all: bprop; subst; cbn in *.
  all: try (left; repeat split; auto; try lia; fail).
  all: try (right; left; eexists _, _, _, _, _, _, _; split; [reflexivity|];
            repeat match goal with |- _ /\ _ => split end; auto; try lia;
            try (destruct (s_pc3 sv); lia);
            try (destruct (s_role sv); cbn in *; try discriminate; reflexivity);
            try (right; split; [lia|]; destruct (term_at (s_log sv) mprevLogIndex); try discriminate; bprop; congruence);
            try (destruct (apply_log _ _ _ _); reflexivity); fail).
  all: try (match goal with Hp : s_pc3 sv = true |- _ => rewrite Hp end; left; repeat split; auto; lia).
  all: right; right; apply role_eqb_eq in Heqb1; repeat split; auto.
  all: destruct (term_at (s_log sv) (find_max_agree cfg i (s_match sv) (List.length (s_log sv)))) as [tt|] eqn:Et; try discriminate.
  all: injection Heqo as <-; destruct (tt =? s_term sv) eqn:Ett; bprop; subst.
  all: try (left; lia).
  all: right; rewrite Nat.max_r by lia; repeat split; auto.
Qed.
