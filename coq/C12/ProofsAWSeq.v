(* C12 — AWORSet on histories without concurrent updates of the same element.
   Hypothesis (aw_sequential): whenever a replica updates element e, every update of e performed so
   far (by any replica) has been delivered to it. Then the updates of e form a chain whose clocks
   strictly increase, every replica holds for e the entry written by the dominating update among
   those delivered to it, and so: replicas with the same delivered updates read the same set, and e
   is read iff the dominating delivered update of e is an add. *)
From PGV Require Import C12.Model C12.ProofsAL C12.ProofsGC C12.ProofsSys C12.ProofsSysX C12.ProofsAW.
From Coq Require Import Lia ZifyBool.
Open Scope Z_scope.

Notation aw_ev := (ev (Z * Z)).
Notation aw_log := (Z -> list (Z * Z * aw)).
Notation aw_xrun := (xrun aw (Z * Z) aw_init aw_write aw_merge aw_hop).
Notation aw_delivered := (delivered aw (Z * Z) aw_init aw_write aw_merge aw_hop).

Definition elem_of (x : aw_ev) : Z := snd (ev_arg x).
Definition cmd_of (x : aw_ev) : Z := fst (ev_arg x).

Definition logged (log : aw_log) (x : aw_ev) : Prop :=
  exists s, nth_error (log (ev_rep x)) (ev_seq x) = Some (ev_arg x, s).

(* the writer's state right after update x, the entry x wrote, its clock *)
Definition post (log : aw_log) (x : aw_ev) : aw :=
  match nth_error (log (ev_rep x)) (ev_seq x) with Some (_, s) => s | None => aw_init end.
Definition entry_of (log : aw_log) (x : aw_ev) : option entry := ent (elem_of x) (post log x).
Definition clk (log : aw_log) (x : aw_ev) : vclock := clock_of (entry_of log x).

(* precondition of an update in a sequential history *)
Definition seqpre (log : aw_log) (D : list aw_ev) (r : Z) (a : Z * Z) (s : aw) : Prop :=
  aw_wpre r a s /\ (fst a = addOp \/ fst a = remOp) /\
  forall y, logged log y -> elem_of y = snd a -> In y D.

Definition aw_sequential : list aw_op -> Prop := validx aw (Z * Z) aw_init aw_write aw_merge aw_hop seqpre.

(* x is delivered in D, updates e, and its clock dominates every other delivered update of e *)
Definition dominates (log : aw_log) (D : list aw_ev) (e : Z) (x : aw_ev) : Prop :=
  In x D /\ elem_of x = e /\ forall y, In y D -> elem_of y = e -> y = x \/ vc_lt (clk log y) (clk log x).

Definition seqL (log : aw_log) : Prop :=
  (forall x, logged log x ->
     (cmd_of x = addOp /\ exists c, entry_of log x = Some (EAdd c) /\ gc_wf c) \/
     (cmd_of x = remOp /\ exists c, entry_of log x = Some (ERem c) /\ gc_wf c)) /\
  (forall x y, logged log x -> logged log y -> elem_of x = elem_of y ->
     x = y \/ vc_lt (clk log x) (clk log y) \/ vc_lt (clk log y) (clk log x)).

Definition seqR (log : aw_log) (D : list aw_ev) (s : aw) : Prop :=
  aw_wf s /\
  forall e, ((forall x, In x D -> elem_of x <> e) /\ ent e s = None) \/
            (exists x, dominates log D e x /\ ent_eqv (ent e s) (entry_of log x)).

(* ---------------------------------------------------------------- small facts *)
Lemma post_extends : forall log log' x, extends aw (Z * Z) log log' -> logged log x ->
  post log' x = post log x /\ logged log' x.
Proof.
  intros log log' x Hex [s Hs]. destruct (Hex (ev_rep x)) as [l Hl]. unfold post, logged.
  rewrite Hl. rewrite nth_error_app1 by (apply nth_error_Some; congruence). rewrite Hs. split; [reflexivity|eauto].
Qed.

Lemma entry_extends : forall log log' x, extends aw (Z * Z) log log' -> logged log x -> entry_of log' x = entry_of log x.
Proof. intros log log' x Hex Hl. unfold entry_of. now rewrite (proj1 (post_extends log log' x Hex Hl)). Qed.

Lemma clk_extends : forall log log' x, extends aw (Z * Z) log log' -> logged log x -> clk log' x = clk log x.
Proof. intros log log' x Hex Hl. unfold clk. now rewrite (entry_extends log log' x Hex Hl). Qed.

Lemma genuine_logged : forall log D x, genuine aw (Z * Z) log D -> In x D -> logged log x.
Proof. intros log D x Hg Hx. exact (Hg x Hx). Qed.

Lemma logged_seq : forall log x, logged log x -> (ev_seq x < List.length (log (ev_rep x)))%nat.
Proof. intros log x [s Hs]. apply nth_error_Some. congruence. Qed.

Lemma clock_of_eqv : forall a b, ent_eqv a b -> gc_eqv (clock_of a) (clock_of b).
Proof. intros [[a|a]|] [[b|b]|] E; cbn in *; try contradiction; auto using gc_eqv_refl. Qed.

Lemma vc_lt_irrefl2 : forall a b, vc_lt a b -> vc_lt b a -> False.
Proof. intros a b [H1 [k Hk]] [H2 _]. specialize (H2 k). lia. Qed.

Lemma seqL_entry_wf : forall log x, seqL log -> logged log x -> ewf (entry_of log x) /\ entry_of log x <> None.
Proof.
  intros log x [H1 _] Hl. destruct (H1 x Hl) as [(_ & c & -> & Hc)|(_ & c & -> & Hc)]; (split; [exact Hc|discriminate]).
Qed.

(* the entry of a dominated update is below the entry of the dominating one *)
Lemma dominated_le : forall log x y, seqL log -> logged log x -> logged log y ->
  vc_lt (clk log x) (clk log y) -> ent_le (entry_of log x) (entry_of log y).
Proof.
  intros log x y HL Hx Hy Hlt. right. right. exists (clk log x), (clk log y).
  destruct (seqL_entry_wf log x HL Hx) as [_ Nx]. destruct (seqL_entry_wf log y HL Hy) as [_ Ny].
  repeat split; auto; apply Hlt.
Qed.

(* ---------------------------------------------------------------- the invariants *)
Lemma seqL_init : seqL (fun _ => []).
Proof.
  split.
  - intros x [s Hs]. destruct (ev_seq x); discriminate.
  - intros x y [s Hs] _ _. destruct (ev_seq x); discriminate.
Qed.

Lemma seqR_init : seqR (fun _ => []) [] aw_init.
Proof. split; [apply aw_wf_init|]. intros e. left. split; [intros x []|reflexivity]. Qed.

Lemma seqR_mono : forall log log' D s, extends aw (Z * Z) log log' -> genuine aw (Z * Z) log D ->
  seqL log -> seqL log' -> seqR log D s -> seqR log' D s.
Proof.
  intros log log' D s Hex Hg _ _ [Hw H]. split; [exact Hw|]. intros e. destruct (H e) as [Hn|(x & (Hx & He & Hd) & Hent)]; [now left|right].
  exists x. split.
  - split; [exact Hx|]. split; [exact He|]. intros y Hy Hye.
    rewrite (clk_extends log log' y Hex (Hg y Hy)), (clk_extends log log' x Hex (Hg x Hx)). now apply Hd.
  - now rewrite (entry_extends log log' x Hex (Hg x Hx)).
Qed.

(* facts about the new update z of a write, used by both L_write and R_write *)
Section Write.
  Variables (log : aw_log) (D : list aw_ev) (s : aw) (r : Z) (cmd elem : Z).
  Hypothesis HL : seqL log.
  Hypothesis HR : seqR log D s.
  Hypothesis Hg : genuine aw (Z * Z) log D.
  Hypothesis Hpre : seqpre log D r (cmd, elem) s.

  Let s' := aw_write r (cmd, elem) s.
  Let log' := fupd log r (log r ++ [(cmd, elem, s')]).
  Let z := mkEv r (List.length (log r)) (cmd, elem).
  Let cs := clock_of (ent elem s).

  Lemma w_ext : extends aw (Z * Z) log log'.
  Proof. apply extends_write. Qed.

  Lemma w_post : post log' z = s'.
  Proof. unfold post, z, log'. cbn. rewrite fupd_same, nth_error_app2 by lia. now rewrite Nat.sub_diag. Qed.

  Lemma w_logged_z : logged log' z.
  Proof. exists s'. unfold z, log'. cbn. rewrite fupd_same, nth_error_app2 by lia. now rewrite Nat.sub_diag. Qed.

  Lemma w_logged_old : forall y, logged log' y -> y = z \/ logged log y.
  Proof.
    intros y [sy Hy]. unfold log' in Hy. destruct (Z.eq_dec (ev_rep y) r) as [Er|Ner].
    - rewrite Er, fupd_same in Hy.
      destruct (Nat.lt_ge_cases (ev_seq y) (List.length (log r))) as [Hlt|Hge].
      + right. exists sy. rewrite Er. now rewrite nth_error_app1 in Hy.
      + left. rewrite nth_error_app2 in Hy by assumption.
        destruct (ev_seq y - List.length (log r))%nat as [|n] eqn:En; [|destruct n; discriminate].
        cbn in Hy. inversion Hy. destruct y as [ry ky ay]. cbn in *. unfold z. f_equal; [assumption|lia|congruence].
    - right. rewrite fupd_other in Hy by assumption. now exists sy.
  Qed.

  Lemma w_z_new : forall y, logged log y -> y <> z.
  Proof.
    intros y Hy ->. pose proof (logged_seq log z Hy) as H. unfold z in H. cbn in H. lia.
  Qed.

  Lemma w_wf : aw_wf s.
  Proof. apply HR. Qed.

  Lemma w_cs_wf : gc_wf cs.
  Proof. apply clock_of_wf. apply ent_wf. exact w_wf. Qed.

  Lemma w_nov : gc_getd r cs + 1 < 2147483648.
  Proof. destruct Hpre as [H _]. exact H. Qed.

  Lemma w_entry_z : (cmd = addOp /\ entry_of log' z = Some (EAdd (vc_inc r cs))) \/
                    (cmd = remOp /\ entry_of log' z = Some (ERem (vc_inc r cs))).
  Proof.
    unfold entry_of. rewrite w_post. unfold elem_of, z. cbn [ev_arg snd]. unfold s'.
    rewrite (ent_write r cmd elem s elem w_wf). rewrite Z.eqb_refl.
    destruct Hpre as (_ & [Hc|Hc] & _); cbn [fst] in Hc; subst cmd.
    - left. split; reflexivity.
    - right. split; [reflexivity|]. unfold addOp, remOp. cbn. reflexivity.
  Qed.

  Lemma w_clk_z : clk log' z = vc_inc r cs.
  Proof. unfold clk. destruct w_entry_z as [[_ ->]|[_ ->]]; reflexivity. Qed.

  (* every earlier update of the element is strictly below the new one *)
  Lemma w_old_below : forall y, logged log y -> elem_of y = elem -> vc_lt (clk log' y) (clk log' z).
  Proof.
    intros y Hy He. rewrite (clk_extends log log' y w_ext Hy), w_clk_z.
    destruct Hpre as (_ & _ & Hall). assert (HyD : In y D) by (apply Hall; assumption).
    destruct HR as [_ H]. destruct (H elem) as [[Hn _]|(x & (Hx & Hxe & Hd) & Hent)]; [exfalso; now apply (Hn y HyD)|].
    pose proof (clock_of_eqv _ _ Hent) as Ec. fold cs in Ec. fold (clk log x) in Ec.
    assert (Hxz : vc_lt (clk log x) (vc_inc r cs)).
    { split.
      - intros k. rewrite vc_inc_getd by (try apply w_cs_wf; apply w_nov). rewrite <- (Ec k). destruct (k =? r) eqn:E; [assert (k = r) by lia; subst; lia|lia].
      - exists r. rewrite vc_inc_getd by (try apply w_cs_wf; apply w_nov). rewrite Z.eqb_refl, <- (Ec r). lia. }
    destruct (Hd y HyD He) as [->|Hlt]; [exact Hxz|]. eapply vc_lt_trans; eauto.
  Qed.

  Lemma seqL_write : seqL log'.
  Proof.
    destruct HL as [L1 L2]. split.
    - intros y Hy. destruct (w_logged_old y Hy) as [->|Hy'].
      + destruct w_entry_z as [[Hc ->]|[Hc ->]]; [left|right]; (split; [unfold cmd_of, z; cbn; exact Hc|]);
          eexists; (split; [reflexivity|]); apply vc_inc_wf; auto using w_cs_wf, w_nov.
      + rewrite (entry_extends log log' y w_ext Hy'). now apply L1.
    - intros x y Hx Hy Hxy. destruct (w_logged_old x Hx) as [->|Hx']; destruct (w_logged_old y Hy) as [->|Hy'].
      + now left.
      + right. right. apply w_old_below; [exact Hy'|]. rewrite <- Hxy. reflexivity.
      + right. left. apply w_old_below; [exact Hx'|]. rewrite Hxy. reflexivity.
      + rewrite !(clk_extends log log' _ w_ext) by assumption. now apply L2.
  Qed.

  Lemma seqR_write : seqR log' (z :: D) s'.
  Proof.
    destruct HR as [Hw H]. split.
    - apply aw_write_wf; [exact Hw|]. apply Hpre.
    - intros e. destruct (Z.eq_dec e elem) as [->|Hne].
      + right. exists z. split.
        * split; [now left|]. split; [reflexivity|]. intros y [<-|Hy] Hye; [now left|right].
          apply w_old_below; [now apply Hg|exact Hye].
        * unfold entry_of. rewrite w_post. apply ent_eqv_refl.
      + assert (Hent : ent e s' = ent e s).
        { unfold s'. rewrite (ent_write r cmd elem s e Hw). destruct (e =? elem) eqn:E; [lia|reflexivity]. }
        rewrite Hent. destruct (H e) as [[Hn Hnone]|(x & (Hx & Hxe & Hd) & Hex)].
        * left. split; [|exact Hnone]. intros y [<-|Hy]; [unfold elem_of, z; cbn; congruence|now apply Hn].
        * right. exists x. split.
          -- split; [now right|]. split; [exact Hxe|]. intros y [<-|Hy] Hye; [unfold elem_of, z in Hye; cbn in Hye; congruence|].
             rewrite !(clk_extends log log' _ w_ext) by (now apply Hg). now apply Hd.
          -- rewrite (entry_extends log log' x w_ext (Hg x Hx)). exact Hex.
  Qed.
End Write.

Lemma seqR_merge : forall log D1 s1 D2 s2, seqL log -> seqR log D1 s1 -> seqR log D2 s2 ->
  genuine aw (Z * Z) log D1 -> genuine aw (Z * Z) log D2 -> seqR log (D1 ++ D2) (aw_merge s1 s2).
Proof.
  intros log D1 s1 D2 s2 HL [W1 H1] [W2 H2] G1 G2. split; [now apply aw_merge_wf|].
  intros e. rewrite ent_merge by assumption.
  pose proof (ent_wf s1 e W1) as E1. pose proof (ent_wf s2 e W2) as E2.
  destruct (H1 e) as [[N1 Z1]|(x1 & (Hx1 & He1 & Hd1) & Hent1)]; destruct (H2 e) as [[N2 Z2]|(x2 & (Hx2 & He2 & Hd2) & Hent2)].
  - left. rewrite Z1, Z2. split; [|reflexivity]. intros x Hx. apply in_app_or in Hx as [Hx|Hx]; auto.
  - right. exists x2. rewrite Z1. cbn [ment]. split; [|exact Hent2].
    split; [apply in_or_app; now right|]. split; [exact He2|]. intros y Hy Hye.
    apply in_app_or in Hy as [Hy|Hy]; [exfalso; now apply (N1 y Hy)|now apply Hd2].
  - right. exists x1. rewrite Z2. replace (ment (ent e s1) None) with (ent e s1) by (destruct (ent e s1) as [[?|?]|]; reflexivity).
    split; [|exact Hent1]. split; [apply in_or_app; now left|]. split; [exact He1|]. intros y Hy Hye.
    apply in_app_or in Hy as [Hy|Hy]; [now apply Hd1|exfalso; now apply (N2 y Hy)].
  - pose proof (G1 x1 Hx1) as L1. pose proof (G2 x2 Hx2) as L2.
    destruct (seqL_entry_wf log x1 HL L1) as [Wx1 _]. destruct (seqL_entry_wf log x2 HL L2) as [Wx2 _].
    pose proof HL as [_ HL2]. destruct (HL2 x1 x2 L1 L2 ltac:(congruence)) as [Heq|[Hlt|Hlt]].
    + (* the same update dominates both *)
      subst x2. right. exists x1. split.
      * split; [apply in_or_app; now left|]. split; [exact He1|]. intros y Hy Hye.
        apply in_app_or in Hy as [Hy|Hy]; auto.
      * eapply ent_eqv_trans; [apply (ment_eqv _ (entry_of log x1) _ (entry_of log x1)); auto|now apply ment_idem].
    + right. exists x2. split.
      * split; [apply in_or_app; now right|]. split; [exact He2|]. intros y Hy Hye.
        apply in_app_or in Hy as [Hy|Hy]; [|now apply Hd2].
        right. destruct (Hd1 y Hy Hye) as [->|Hy1]; [exact Hlt|eapply vc_lt_trans; eauto].
      * eapply ent_eqv_trans; [apply (ment_eqv _ (entry_of log x1) _ (entry_of log x2)); auto|].
        apply (ment_le (entry_of log x1) (entry_of log x2)); auto.
        apply dominated_le; auto.
    + right. exists x1. split.
      * split; [apply in_or_app; now left|]. split; [exact He1|]. intros y Hy Hye.
        apply in_app_or in Hy as [Hy|Hy]; [now apply Hd1|].
        right. destruct (Hd2 y Hy Hye) as [->|Hy2]; [exact Hlt|eapply vc_lt_trans; eauto].
      * eapply ent_eqv_trans; [apply (ment_eqv _ (entry_of log x1) _ (entry_of log x2)); auto|].
        apply (ment_le (entry_of log x2) (entry_of log x1)); auto.
        apply dominated_le; auto.
Qed.

Lemma seqR_hop : forall log D s, seqL log -> seqR log D s -> seqR log D (aw_hop s).
Proof.
  intros log D s _ [Hw H]. split; [now apply aw_hop_wf|]. intros e.
  pose proof (aw_hop_eqv s Hw e) as Eh.
  destruct (H e) as [[Hn Hnone]|(x & Hd & Hent)].
  - left. split; [exact Hn|]. rewrite Hnone in Eh. destruct (ent e (aw_hop s)) as [[?|?]|]; cbn in Eh; tauto.
  - right. exists x. split; [exact Hd|]. eapply ent_eqv_trans; eauto.
Qed.

Theorem aw_seq_inv : forall ops, aw_sequential ops ->
  let st := fst (aw_xrun ops) in let g := snd (aw_xrun ops) in
  seqL (g_log g) /\ forall r, seqR (g_log g) (g_dl g r) (reps st r).
Proof.
  intros ops Hv.
  destruct (liftx aw (Z * Z) aw_init aw_write aw_merge aw_hop seqpre seqR seqL) with (ops := ops) as (HL & HR & _); auto.
  - exact seqL_init.
  - intros log D s r [cmd elem] HL HR Hg _ _ Hpre. now apply (seqL_write log D s r cmd elem).
  - exact seqR_init.
  - exact seqR_mono.
  - intros log D s r [cmd elem] HL HR Hg _ _ Hpre. now apply (seqR_write log D s r cmd elem).
  - exact seqR_merge.
  - exact seqR_hop.
Qed.

(* ---------------------------------------------------------------- consequences *)
Theorem aw_seq_convergence : forall ops r1 r2, aw_sequential ops ->
  same_updates (aw_delivered ops r1) (aw_delivered ops r2) ->
  aw_eqv (reps (aw_run ops) r1) (reps (aw_run ops) r2) /\
  forall e, In e (aw_read (reps (aw_run ops) r1)) <-> In e (aw_read (reps (aw_run ops) r2)).
Proof.
  intros ops r1 r2 Hv Hs. destruct (aw_seq_inv ops Hv) as [HL H]. cbn zeta in HL, H.
  pose proof (ghost_inv aw (Z * Z) aw_init aw_write aw_merge aw_hop ops) as [Gr _].
  unfold aw_run. rewrite <- (xrun_fst aw (Z * Z) aw_init aw_write aw_merge aw_hop). unfold Model.delivered in Hs.
  destruct (H r1) as [W1 H1]. destruct (H r2) as [W2 H2].
  destruct (Gr r1) as (G1 & _). destruct (Gr r2) as (G2 & _).
  assert (E : aw_eqv (reps (fst (aw_xrun ops)) r1) (reps (fst (aw_xrun ops)) r2)).
  { intros e. destruct (H1 e) as [[N1 Z1]|(x1 & (Hx1 & He1 & Hd1) & Hent1)]; destruct (H2 e) as [[N2 Z2]|(x2 & (Hx2 & He2 & Hd2) & Hent2)].
    - rewrite Z1, Z2. exact I.
    - exfalso. apply (N1 x2); [now apply Hs|exact He2].
    - exfalso. apply (N2 x1); [now apply Hs|exact He1].
    - assert (x1 = x2) as ->.
      { destruct (Hd1 x2 (proj2 (Hs x2) Hx2) He2) as [->|Hlt1]; [reflexivity|].
        destruct (Hd2 x1 (proj1 (Hs x1) Hx1) He1) as [->|Hlt2]; [reflexivity|].
        exfalso. eapply vc_lt_irrefl2; eauto. }
      eapply ent_eqv_trans; [exact Hent1|apply ent_eqv_sym, Hent2]. }
  split; [exact E|]. now apply aw_read_eqv.
Qed.

(* read semantics: e is read iff the delivered update of e that dominates all others is an add *)
Theorem aw_seq_read : forall ops r e, aw_sequential ops ->
  let log := g_log (snd (aw_xrun ops)) in
  In e (aw_read (reps (aw_run ops) r)) <->
  exists x, dominates log (aw_delivered ops r) e x /\ cmd_of x = addOp.
Proof.
  intros ops r e Hv. cbn zeta. destruct (aw_seq_inv ops Hv) as [HL H]. cbn zeta in HL, H.
  pose proof (ghost_inv aw (Z * Z) aw_init aw_write aw_merge aw_hop ops) as [Gr _].
  unfold aw_run. rewrite <- (xrun_fst aw (Z * Z) aw_init aw_write aw_merge aw_hop). unfold Model.delivered.
  destruct (H r) as [W Hr]. destruct (Gr r) as (G & _). rewrite aw_read_in by assumption.
  destruct HL as [HL1 HL2].
  destruct (Hr e) as [[N Z0]|(x & Hd & Hent)].
  - rewrite Z0. split; [intros [c Hc]; discriminate|]. intros (x & (Hx & He & _) & _). exfalso. now apply (N x Hx).
  - pose proof Hd as (Hx & He & Hdom). pose proof (G x Hx) as Lx. split.
    + intros [c Hc]. exists x. split; [exact Hd|]. rewrite Hc in Hent.
      destruct (HL1 x Lx) as [(Hc1 & _)|(Hc2 & c2 & Ec2 & _)]; [exact Hc1|]. rewrite Ec2 in Hent. cbn in Hent. contradiction.
    + intros (x' & (Hx' & He' & Hdom') & Hadd).
      assert (x' = x) as ->.
      { destruct (Hdom x' Hx' He') as [->|Hlt1]; [reflexivity|].
        destruct (Hdom' x Hx He) as [->|Hlt2]; [reflexivity|]. exfalso. eapply vc_lt_irrefl2; eauto. }
      destruct (HL1 x Lx) as [(_ & c & Ec & _)|(Hc2 & _)]; [|unfold addOp, remOp in *; congruence].
      rewrite Ec in Hent. destruct (ent e (reps (fst (aw_xrun ops)) r)) as [[c'|c']|]; cbn in Hent; try contradiction. eauto.
Qed.
