(* C12 — executable model of the CRDT data types of distsys/resources:
     gcounter.go (GCounter), aworset.go (vclock = GCounter, compare, mergeKeys, AWORSet), lww.go (LWWSet).
   Model only: no proofs here, so it still evaluates when a proof breaks.

   Maps (`immutable.Map[tla.Value, _]`) are association lists.  The iteration order of the Go
   maps depends on hashes and is unknown; the model iterates in list order and every theorem of
   C12/Proofs*.v is stated up to a state equivalence that ignores order (and the morphism lemmas
   say that every operation respects it), so the model's answer does not depend on the order chosen.
   Element and replica identifiers (tla.Value in Go, compared with Equal/Hash — that is C05's
   subject) are `Z`.

   int32 arithmetic is modelled with `wrap32`; the history-level theorems carry the hypothesis
   that no counter overflows.
   `time.Now()` (LWWSet.Write) is an oracle argument `ts` of `lww_write` (nanoseconds).
   gob: the encoders write the entries in iteration order as a token stream and the decoders
   rebuild the maps with builder.Set; the primitive codec of encoding/gob is the identity on
   tokens (hypothesis named in the trusted base). *)
From Coq Require Export List ZArith Bool.
Export ListNotations.
Open Scope Z_scope.

Definition wrap32 (z : Z) : Z := (z + 2147483648) mod 4294967296 - 2147483648.

(* ---------------------------------------------------------------- association lists *)
Section AL.
  Context {V : Type}.
  Fixpoint get (k : Z) (m : list (Z * V)) : option V :=
    match m with
    | [] => None
    | (k', v) :: r => if k =? k' then Some v else get k r
    end.
  (* immutable.Map.Set / MapBuilder.Set: replace the entry of an Equal key, else add one *)
  Fixpoint set (k : Z) (v : V) (m : list (Z * V)) : list (Z * V) :=
    match m with
    | [] => [(k, v)]
    | (k', v') :: r => if k =? k' then (k, v) :: r else (k', v') :: set k v r
    end.
  Fixpoint del (k : Z) (m : list (Z * V)) : list (Z * V) :=
    match m with
    | [] => []
    | (k', v') :: r => if k =? k' then del k r else (k', v') :: del k r
    end.
  Definition keys (m : list (Z * V)) : list Z := map fst m.
  (* MapBuilder filled from a sequence of Set calls *)
  Definition build (l : list (Z * V)) : list (Z * V) :=
    fold_left (fun b kv => set (fst kv) (snd kv) b) l [].
End AL.

(* ---------------------------------------------------------------- GCounter (gcounter.go) *)
Definition gc := list (Z * Z).

Definition gc_init : gc := [].

Definition gc_getd (k : Z) (c : gc) : Z :=
  match get k c with Some v => v | None => 0 end.

(* Read: `value += v` over the iterator, int32 *)
Definition gc_read (c : gc) : Z :=
  fold_left (fun acc kv => wrap32 (acc + snd kv)) c 0.

(* Write(id, value): newValue := oldValue + value (int32); Set(id, newValue) *)
Definition gc_write (id v : Z) (c : gc) : gc :=
  set id (wrap32 (gc_getd id c + v)) c.

(* Merge: for every (id, val) of other: if v, ok := c.Get(id); !ok || v < val { c = c.Set(id, val) } *)
Definition gc_merge_step (c : gc) (kv : Z * Z) : gc :=
  match get (fst kv) c with
  | Some v => if v <? snd kv then set (fst kv) (snd kv) c else c
  | None => set (fst kv) (snd kv) c
  end.
Definition gc_merge (c other : gc) : gc := fold_left gc_merge_step other c.

(* GobEncode: one GCounterKeyVal per entry in iteration order; GobDecode: builder.Set until EOF *)
Definition gc_encode (c : gc) : list (Z * Z) := c.
Definition gc_decode (l : list (Z * Z)) : gc := build l.
Definition gc_hop (c : gc) : gc := gc_decode (gc_encode c).

(* ---------------------------------------------------------------- vector clocks (aworset.go) *)
Definition vclock := gc.

Inductive cmpres := LT | EQ | GT | CC.

Definition is_LT (r : cmpres) : bool := match r with LT => true | _ => false end.

(* the body of the second loop of vclock.compare *)
Definition cmp_step (res : cmpres) (v1 v2 : Z) : cmpres :=
  match res with
  | EQ => if v2 <? v1 then GT else if v1 <? v2 then LT else EQ
  | LT => if v2 <? v1 then CC else LT
  | GT => if v1 <? v2 then CC else GT
  | CC => CC
  end.

(* compare: the first loop collects the keys of both clocks into a builder (when one iterator is
   exhausted its Next() yields the zero tla.Value, for which both getOrDefault return 0: no effect);
   the second loop folds cmp_step over them. Visiting a key twice changes nothing (cmp_step is
   idempotent for a fixed pair), so the duplicates the concatenation may contain are harmless. *)
Definition vc_compare (a b : vclock) : cmpres :=
  fold_left (fun res k => cmp_step res (gc_getd k a) (gc_getd k b)) (keys a ++ keys b) EQ.

Definition vc_inc (id : Z) (vc : vclock) : vclock := gc_write id 1 vc.

(* ---------------------------------------------------------------- AWORSet (aworset.go) *)
Record aw := mkAw { aw_add : list (Z * vclock); aw_rem : list (Z * vclock) }.

Definition aw_init : aw := mkAw [] [].

Definition aw_in (rem : list (Z * vclock)) (kv : Z * vclock) : bool :=
  match get (fst kv) rem with
  | None => true
  | Some r => negb (is_LT (vc_compare (snd kv) r))
  end.

(* Read: elements of addMap whose clock is not LT the clock in remMap *)
Definition aw_read (s : aw) : list Z := keys (filter (aw_in (aw_rem s)) (aw_add s)).

Definition addOp : Z := 1.
Definition remOp : Z := 2.

Definition aw_write (id : Z) (a : Z * Z) (s : aw) : aw :=
  let '(cmd, elem) := a in
  if cmd =? addOp then
    match get elem (aw_add s) with
    | Some av => mkAw (set elem (vc_inc id av) (aw_add s)) (del elem (aw_rem s))
    | None =>
        match get elem (aw_rem s) with
        | Some rv => mkAw (set elem (vc_inc id rv) (aw_add s)) (del elem (aw_rem s))
        | None => mkAw (set elem (vc_inc id gc_init) (aw_add s)) (aw_rem s)
        end
    end
  else if cmd =? remOp then
    match get elem (aw_add s) with
    | Some av => mkAw (del elem (aw_add s)) (set elem (vc_inc id av) (aw_rem s))
    | None =>
        match get elem (aw_rem s) with
        | Some rv => mkAw (del elem (aw_add s)) (set elem (vc_inc id rv) (aw_rem s))
        | None => mkAw (aw_add s) (set elem (vc_inc id gc_init) (aw_rem s))
        end
    end
  else s.

Definition merge_keys_step (acc : list (Z * vclock)) (kv : Z * vclock) : list (Z * vclock) :=
  match get (fst kv) acc with
  | Some av => set (fst kv) (gc_merge av (snd kv)) acc
  | None => set (fst kv) (snd kv) acc
  end.
Definition merge_keys (a b : list (Z * vclock)) : list (Z * vclock) := fold_left merge_keys_step b a.

(* the two builder loops of Merge; the keys of addK / remK are distinct, so builder.Set appends *)
Definition aw_keep_rem (addK : list (Z * vclock)) (kv : Z * vclock) : bool :=
  match get (fst kv) addK with
  | None => true
  | Some a => is_LT (vc_compare a (snd kv))
  end.

Definition aw_merge (s o : aw) : aw :=
  let addK := merge_keys (aw_add s) (aw_add o) in
  let remK := merge_keys (aw_rem s) (aw_rem o) in
  mkAw (filter (aw_in remK) addK) (filter (aw_keep_rem addK) remK).

(* gob: AddRemMaps{AddMap, RemMap []AWORSetKeyVal}; each clock travels through GCounter's codec *)
Definition aw_hop (s : aw) : aw :=
  mkAw (build (map (fun kv => (fst kv, gc_hop (snd kv))) (aw_add s)))
       (build (map (fun kv => (fst kv, gc_hop (snd kv))) (aw_rem s))).

(* ---------------------------------------------------------------- LWWSet (lww.go, after the two repairs) *)
Record lww := mkLww { lw_add : list (Z * Z); lw_rem : list (Z * Z) }.

Definition lww_init : lww := mkLww [] [].

(* isIn: in addSet, and not (addTimeStamp.Before(remTimeStamp)) *)
Definition lww_isin (s : lww) (e : Z) : bool :=
  match get e (lw_add s) with
  | None => false
  | Some ta => match get e (lw_rem s) with
               | None => true
               | Some tr => negb (ta <? tr)
               end
  end.

Definition lww_read (s : lww) : list Z := filter (lww_isin s) (keys (lw_add s)).

(* Write: now := time.Now(); if old, ok := set.Get(elem); !ok || now.After(old) { set = set.Set(elem, now) } *)
Definition lww_stamp (e ts : Z) (m : list (Z * Z)) : list (Z * Z) :=
  match get e m with
  | Some old => if old <? ts then set e ts m else m
  | None => set e ts m
  end.

Definition lww_write (id : Z) (a : Z * Z * Z) (s : lww) : lww :=
  let '(cmd, elem, ts) := a in
  if cmd =? addOp then mkLww (lww_stamp elem ts (lw_add s)) (lw_rem s)
  else if cmd =? remOp then mkLww (lw_add s) (lww_stamp elem ts (lw_rem s))
  else s.

(* Merge: per entry of other: absent -> Set; present and otherTimeStamp.After(selfTimeStamp) -> Set *)
Definition lww_merge1 (self other : list (Z * Z)) : list (Z * Z) :=
  fold_left (fun s kv => lww_stamp (fst kv) (snd kv) s) other self.

Definition lww_merge (s o : lww) : lww :=
  mkLww (lww_merge1 (lw_add s) (lw_add o)) (lww_merge1 (lw_rem s) (lw_rem o)).

(* gob stream of LWWSet: Len, (elem, time)*, Len, (elem, time)* *)
Inductive tok := TInt (n : nat) | TKey (k : Z) | TTime (t : Z).

Definition lww_enc_pairs (m : list (Z * Z)) : list tok :=
  TInt (List.length m) :: flat_map (fun kv => [TKey (fst kv); TTime (snd kv)]) m.

Definition lww_encode (s : lww) : list tok := lww_enc_pairs (lw_add s) ++ lww_enc_pairs (lw_rem s).

Fixpoint lww_dec_pairs (n : nat) (b : list (Z * Z)) (l : list tok) : option (list (Z * Z) * list tok) :=
  match n with
  | O => Some (b, l)
  | S n' => match l with
            | TKey k :: TTime t :: l' => lww_dec_pairs n' (set k t b) l'
            | _ => None
            end
  end.

Definition lww_decode (l : list tok) : option lww :=
  match l with
  | TInt n :: l1 =>
      match lww_dec_pairs n [] l1 with
      | Some (a, TInt m :: l2) =>
          match lww_dec_pairs m [] l2 with
          | Some (r, []) => Some (mkLww a r)
          | _ => None
          end
      | _ => None
      end
  | _ => None
  end.

(* a decoding error would surface as an RPC error; the theorem gob_preserves shows it cannot happen *)
Definition lww_hop (s : lww) : lww :=
  match lww_decode (lww_encode s) with Some s' => s' | None => lww_init end.

(* ---------------------------------------------------------------- histories *)
(* A history is a list of operations over any number of replicas (every Z is a replica id, all
   start at Init) and a pool of messages (state snapshots in flight):
     OWrite r a      replica r performs the local update a on its own state (writer id = r)
     OSnap r g       a snapshot of r's state is put in the pool (g: it went through gob)
     ODeliver d m    replica d merges message m of the pool (any message, any number of times, any order) *)
Definition fupd {T} (f : Z -> T) (r : Z) (x : T) : Z -> T := fun r' => if r' =? r then x else f r'.

Section Sys.
  Variables (S A : Type).
  Variable init : S.
  Variable write : Z -> A -> S -> S.
  Variable merge : S -> S -> S.
  Variable hop : S -> S.

  Inductive op := OWrite (r : Z) (a : A) | OSnap (r : Z) (g : bool) | ODeliver (dst : Z) (m : nat).

  Record sys := mkSys { reps : Z -> S; pool : list S }.

  Definition sys_init : sys := mkSys (fun _ => init) [].

  Definition step (st : sys) (o : op) : sys :=
    match o with
    | OWrite r a => mkSys (fupd (reps st) r (write r a (reps st r))) (pool st)
    | OSnap r g => mkSys (reps st) (pool st ++ [if g then hop (reps st r) else reps st r])
    | ODeliver d m =>
        match nth_error (pool st) m with
        | Some s => mkSys (fupd (reps st) d (merge (reps st d) s)) (pool st)
        | None => st
        end
    end.

  Definition run_from (st : sys) (ops : list op) : sys := fold_left step ops st.
  Definition run (ops : list op) : sys := run_from sys_init ops.

  (* what the correspondence harness records: after each op the state of the replica it changed *)
  Definition affected (o : op) : option Z :=
    match o with OWrite r _ => Some r | OSnap _ _ => None | ODeliver d _ => Some d end.

  Fixpoint trace_from (st : sys) (ops : list op) : list (option S) :=
    match ops with
    | [] => []
    | o :: rest =>
        let st' := step st o in
        (match affected o with Some r => Some (reps st' r) | None => None end) :: trace_from st' rest
    end.

  (* Bookkeeping that defines "the updates delivered to a replica" (no influence on the states):
     an update is identified by its writer and its sequence number among that writer's updates;
     a write delivers the new update to its writer, a snapshot carries what its source had been
     delivered, a merge delivers everything the message carries. The log also remembers, per writer,
     the argument of every update and the writer's state right after it. *)
  Record ev := mkEv { ev_rep : Z; ev_seq : nat; ev_arg : A }.

  Record ghost := mkGhost { g_dl : Z -> list ev; g_pool : list (list ev); g_log : Z -> list (A * S) }.

  Definition ghost_init : ghost := mkGhost (fun _ => []) [] (fun _ => []).

  Definition gstep (st : sys) (g : ghost) (o : op) : ghost :=
    match o with
    | OWrite r a =>
        mkGhost (fupd (g_dl g) r (mkEv r (List.length (g_log g r)) a :: g_dl g r)) (g_pool g)
                (fupd (g_log g) r (g_log g r ++ [(a, write r a (reps st r))]))
    | OSnap r _ => mkGhost (g_dl g) (g_pool g ++ [g_dl g r]) (g_log g)
    | ODeliver d m =>
        match nth_error (g_pool g) m with
        | Some D => mkGhost (fupd (g_dl g) d (g_dl g d ++ D)) (g_pool g) (g_log g)
        | None => g
        end
    end.

  Definition xstep (x : sys * ghost) (o : op) : sys * ghost := (step (fst x) o, gstep (fst x) (snd x) o).
  Definition xrun (ops : list op) : sys * ghost := fold_left xstep ops (sys_init, ghost_init).

  (* the updates delivered to replica r by the history ops *)
  Definition delivered (ops : list op) (r : Z) : list ev := g_dl (snd (xrun ops)) r.

  Definition same_updates (D1 D2 : list ev) : Prop := forall e, In e D1 <-> In e D2.
End Sys.

Arguments OWrite {A}.
Arguments OSnap {A}.
Arguments ODeliver {A}.
Arguments reps {S}.
Arguments pool {S}.
Arguments mkEv {A}.
Arguments ev_rep {A}.
Arguments ev_seq {A}.
Arguments ev_arg {A}.
Arguments g_dl {S A}.
Arguments g_pool {S A}.
Arguments g_log {S A}.
Arguments same_updates {A}.

Definition gc_op := op Z.
Definition aw_op := op (Z * Z).
Definition lww_op := op (Z * Z * Z).

Definition gc_run := run gc Z gc_init gc_write gc_merge gc_hop.
Definition aw_run := run aw (Z * Z) aw_init aw_write aw_merge aw_hop.
Definition lww_run := run lww (Z * Z * Z) lww_init lww_write lww_merge lww_hop.

(* ---------------------------------------------------------------- correspondence evaluation *)
Fixpoint zinsert (x : Z) (l : list Z) : list Z :=
  match l with
  | [] => [x]
  | y :: r => if x <=? y then x :: l else y :: zinsert x r
  end.
Definition zsort (l : list Z) : list Z := fold_right zinsert [] l.

(* observation per op: None = not compared (ops the harness performs differently, see props/c12.py),
   Some None = no read expected (snapshot), Some (Some v) = the read observed on the Go side *)
Definition olist_eqb {T} (eqb : T -> T -> bool) :=
  fix go (a : list (option T)) (b : list (option (option T))) : bool :=
    match a, b with
    | [], [] => true
    | _ :: a', None :: b' => go a' b'
    | None :: a', Some None :: b' => go a' b'
    | Some x :: a', Some (Some y) :: b' => eqb x y && go a' b'
    | _, _ => false
    end.

Fixpoint zlist_eqb (a b : list Z) : bool :=
  match a, b with
  | [], [] => true
  | x :: a', y :: b' => (x =? y) && zlist_eqb a' b'
  | _, _ => false
  end.

(* observed reads after each op (None for snapshots) and final reads of the listed replicas *)
Definition gc_check (ops : list gc_op) (obs : list (option (option Z))) (fin : list (Z * Z)) : bool :=
  olist_eqb Z.eqb (map (option_map gc_read) (trace_from gc Z gc_write gc_merge gc_hop (sys_init gc gc_init) ops)) obs
  && forallb (fun rv => gc_read (reps (gc_run ops) (fst rv)) =? snd rv) fin.

Definition aw_check (ops : list aw_op) (obs : list (option (option (list Z)))) (fin : list (Z * list Z)) : bool :=
  olist_eqb zlist_eqb (map (option_map (fun s => zsort (aw_read s)))
                          (trace_from aw (Z * Z) aw_write aw_merge aw_hop (sys_init aw aw_init) ops)) obs
  && forallb (fun rv => zlist_eqb (zsort (aw_read (reps (aw_run ops) (fst rv)))) (snd rv)) fin.

Definition lww_check (ops : list lww_op) (obs : list (option (option (list Z)))) (fin : list (Z * list Z)) : bool :=
  olist_eqb zlist_eqb (map (option_map (fun s => zsort (lww_read s)))
                          (trace_from lww (Z * Z * Z) lww_write lww_merge lww_hop (sys_init lww lww_init) ops)) obs
  && forallb (fun rv => zlist_eqb (zsort (lww_read (reps (lww_run ops) (fst rv)))) (snd rv)) fin.

Fixpoint mismatches_from (i : nat) (results : list bool) : list nat :=
  match results with
  | [] => []
  | b :: rest => if b then mismatches_from (S i) rest else i :: mismatches_from (S i) rest
  end.
