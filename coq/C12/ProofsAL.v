(* C12 — lemmas about association lists (get / set / del / build) and wrap32. *)
From PGV Require Import C12.Model.
From Coq Require Import Lia ZifyBool.
Open Scope Z_scope.

Lemma wrap32_id : forall z, -2147483648 <= z < 2147483648 -> wrap32 z = z.
Proof.
  intros z Hz. unfold wrap32.
  rewrite Z.mod_small by lia. lia.
Qed.

Section AL.
  Context {V : Type}.
  Implicit Types (m : list (Z * V)) (k : Z) (v : V).

  Lemma get_set_same : forall m k v, get k (set k v m) = Some v.
  Proof.
    induction m as [|[k' v'] r IH]; intros k v; cbn.
    - now rewrite Z.eqb_refl.
    - destruct (k =? k') eqn:E; cbn; rewrite ?Z.eqb_refl, ?E; auto.
  Qed.

  Lemma get_set_other : forall m k k' v, k <> k' -> get k (set k' v m) = get k m.
  Proof.
    induction m as [|[k0 v0] r IH]; intros k k' v Hne; cbn.
    - destruct (k =? k') eqn:E; [lia|reflexivity].
    - destruct (k' =? k0) eqn:E0; cbn.
      + destruct (k =? k') eqn:E1; [lia|]. destruct (k =? k0) eqn:E2; [lia|reflexivity].
      + destruct (k =? k0); auto.
  Qed.

  Lemma get_set : forall m k k' v, get k (set k' v m) = if k =? k' then Some v else get k m.
  Proof.
    intros m k k' v. destruct (k =? k') eqn:E.
    - apply Z.eqb_eq in E. subst. apply get_set_same.
    - apply get_set_other. lia.
  Qed.

  Lemma get_del : forall m k k', get k (del k' m) = if k =? k' then None else get k m.
  Proof.
    induction m as [|[k0 v0] r IH]; intros k k'; cbn.
    - now destruct (k =? k').
    - destruct (k' =? k0) eqn:E0; cbn.
      + rewrite IH. destruct (k =? k') eqn:E1; auto. destruct (k =? k0) eqn:E2; [lia|reflexivity].
      + rewrite IH. destruct (k =? k') eqn:E1; destruct (k =? k0) eqn:E2; auto; lia.
  Qed.

  Lemma get_In : forall m k v, get k m = Some v -> In (k, v) m.
  Proof.
    induction m as [|[k0 v0] r IH]; intros k v; cbn; [discriminate|].
    destruct (k =? k0) eqn:E; intros H.
    - inversion H; subst. apply Z.eqb_eq in E. subst. now left.
    - right. auto.
  Qed.

  Lemma get_None_notin : forall m k, get k m = None <-> ~ In k (keys m).
  Proof.
    induction m as [|[k0 v0] r IH]; intros k; cbn.
    - tauto.
    - destruct (k =? k0) eqn:E.
      + split; [discriminate|]. intros H. exfalso. apply H. left. lia.
      + rewrite IH. split; intros H; [intros [H1|H1]; [lia|tauto]|tauto].
  Qed.

  Lemma get_Some_in : forall m k v, get k m = Some v -> In k (keys m).
  Proof.
    intros m k v H. destruct (in_dec Z.eq_dec k (keys m)) as [Hi|Hn]; auto.
    apply get_None_notin in Hn. congruence.
  Qed.

  Lemma In_get : forall m k v, NoDup (keys m) -> In (k, v) m -> get k m = Some v.
  Proof.
    induction m as [|[k0 v0] r IH]; intros k v Hnd Hin; cbn in *; [tauto|].
    inversion Hnd as [|? ? Hnotin Hnd']; subst.
    destruct Hin as [Heq|Hin].
    - inversion Heq; subst. now rewrite Z.eqb_refl.
    - destruct (k =? k0) eqn:E.
      + apply Z.eqb_eq in E. subst. exfalso. apply Hnotin.
        change k0 with (fst (k0, v)). now apply in_map.
      + auto.
  Qed.

  Lemma keys_set_in : forall m k v, In k (keys m) -> keys (set k v m) = keys m.
  Proof.
    induction m as [|[k0 v0] r IH]; intros k v Hin; cbn in *; [tauto|].
    destruct (k =? k0) eqn:E; cbn.
    - f_equal. lia.
    - f_equal. apply IH. destruct Hin; [lia|assumption].
  Qed.

  Lemma keys_set_notin : forall m k v, ~ In k (keys m) -> keys (set k v m) = keys m ++ [k].
  Proof.
    induction m as [|[k0 v0] r IH]; intros k v Hn; cbn in *; [reflexivity|].
    destruct (k =? k0) eqn:E; cbn.
    - exfalso. apply Hn. left. lia.
    - f_equal. apply IH. tauto.
  Qed.

  Lemma in_keys_set : forall m k k' v, In k (keys (set k' v m)) <-> k = k' \/ In k (keys m).
  Proof.
    intros m k k' v. destruct (in_dec Z.eq_dec k' (keys m)) as [Hi|Hn].
    - rewrite keys_set_in by assumption. split; [tauto|]. intros [->|H]; assumption.
    - rewrite keys_set_notin by assumption. rewrite in_app_iff. cbn. intuition.
  Qed.

  Lemma nodup_set : forall m k v, NoDup (keys m) -> NoDup (keys (set k v m)).
  Proof.
    intros m k v Hnd. destruct (in_dec Z.eq_dec k (keys m)) as [Hi|Hn].
    - now rewrite keys_set_in.
    - rewrite keys_set_notin by assumption.
      apply NoDup_app_remove_l with (l := []) || idtac.
      clear - Hnd Hn. induction (keys m) as [|a l IH]; cbn.
      + constructor; [intros []|constructor].
      + inversion Hnd; subst. constructor.
        * rewrite in_app_iff. cbn in *. intuition.
        * apply IH; cbn in *; tauto.
  Qed.

  Lemma in_keys_del : forall m k k', In k (keys (del k' m)) <-> k <> k' /\ In k (keys m).
  Proof.
    unfold keys. induction m as [|[k0 v0] r IH]; intros k k'; cbn [del map fst].
    - cbn. tauto.
    - destruct (k' =? k0) eqn:E; cbn [map fst In]; rewrite IH; intuition lia.
  Qed.

  Lemma nodup_del : forall m k, NoDup (keys m) -> NoDup (keys (del k m)).
  Proof.
    induction m as [|[k0 v0] r IH]; intros k Hnd; cbn; [constructor|].
    inversion Hnd; subst. destruct (k =? k0) eqn:E; cbn.
    - apply IH; assumption.
    - constructor; [|apply IH; assumption]. change (~ In k0 (keys (del k r))). rewrite in_keys_del. tauto.
  Qed.

  Lemma nodup_filter_keys : forall (f : Z * V -> bool) m, NoDup (keys m) -> NoDup (keys (filter f m)).
  Proof.
    induction m as [|[k0 v0] r IH]; intros Hnd; cbn; [constructor|].
    inversion Hnd; subst. destruct (f (k0, v0)); cbn; auto.
    constructor; auto. intros Hin. apply H1.
    unfold keys in *. apply in_map_iff in Hin as ([k1 v1] & Hk & Hin). apply filter_In in Hin as [Hin _].
    cbn in Hk. subst. change k0 with (fst (k0, v1)). now apply in_map.
  Qed.

  Lemma get_filter : forall (f : Z * V -> bool) m k, NoDup (keys m) ->
    get k (filter f m) = match get k m with Some v => if f (k, v) then Some v else None | None => None end.
  Proof.
    induction m as [|[k0 v0] r IH]; intros k Hnd; cbn; [reflexivity|].
    inversion Hnd as [|? ? Hnotin Hnd']; subst.
    destruct (k =? k0) eqn:E.
    - apply Z.eqb_eq in E. subst k0.
      destruct (f (k, v0)) eqn:F; cbn.
      + now rewrite Z.eqb_refl.
      + rewrite IH by assumption.
        assert (get k r = None) as -> by (apply get_None_notin; assumption). reflexivity.
    - destruct (f (k0, v0)); cbn; rewrite ?E; auto.
  Qed.

  (* build = fold of set from the empty map *)
  Lemma build_fold_get : forall (l : list (Z * V)) b k,
    get k (fold_left (fun b kv => set (fst kv) (snd kv) b) l b) =
    match get k (rev l) with Some v => Some v | None => get k b end.
  Proof.
    induction l as [|[k0 v0] r IH]; intros b k; cbn; [reflexivity|].
    rewrite IH. clear IH.
    assert (Hrev : forall (l1 : list (Z * V)) x, get k (l1 ++ [x]) = match get k l1 with Some v => Some v | None => if k =? fst x then Some (snd x) else None end).
    { induction l1 as [|[k1 v1] l1 IH1]; intros [kx vx]; cbn.
      - reflexivity.
      - destruct (k =? k1); [reflexivity|]. apply IH1. }
    rewrite Hrev. cbn. destruct (get k (rev r)); auto.
    rewrite get_set. destruct (k =? k0); reflexivity.
  Qed.

  Lemma nodup_build_fold : forall (l : list (Z * V)) b, NoDup (keys b) ->
    NoDup (keys (fold_left (fun b kv => set (fst kv) (snd kv) b) l b)).
  Proof.
    induction l as [|[k0 v0] r IH]; intros b Hb; cbn; [assumption|].
    apply IH. apply nodup_set. assumption.
  Qed.

  Lemma get_rev_nodup : forall m k, NoDup (keys m) -> get k (rev m) = get k m.
  Proof.
    intros m k Hnd. destruct (get k m) as [v|] eqn:G.
    - apply In_get.
      + unfold keys. rewrite map_rev. apply NoDup_rev. exact Hnd.
      + apply in_rev. rewrite rev_involutive. now apply get_In.
    - apply get_None_notin. apply get_None_notin in G. unfold keys in *. rewrite map_rev. rewrite <- in_rev. exact G.
  Qed.

  Lemma get_build : forall m k, NoDup (keys m) -> get k (build m) = get k m.
  Proof.
    intros m k Hnd. unfold build. rewrite build_fold_get. rewrite get_rev_nodup by assumption.
    destruct (get k m); reflexivity.
  Qed.

  Lemma nodup_build : forall (l : list (Z * V)), NoDup (keys (build l)).
  Proof. intros l. apply nodup_build_fold. constructor. Qed.
End AL.
