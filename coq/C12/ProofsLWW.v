(* C12 — LWWSet (lww.go after the two repairs): semilattice laws on all well-formed states up to
   an order-insensitive equivalence, inflation of writes for any timestamp oracle, gob, and over
   all histories: per element the latest add / remove timestamps among the delivered updates are
   stored, so the read is "latest event wins, add wins ties" and replicas with the same delivered
   updates read the same set. *)
From PGV Require Import C12.Model C12.ProofsAL C12.ProofsSys.
From Coq Require Import Lia ZifyBool.
Open Scope Z_scope.

(* ---------------------------------------------------------------- option timestamps *)
Definition omax (o : option Z) (t : Z) : option Z :=
  match o with None => Some t | Some old => Some (Z.max old t) end.

Definition omerge (a b : option Z) : option Z :=
  match a, b with
  | None, x => x
  | x, None => x
  | Some p, Some q => Some (Z.max p q)
  end.

Lemma omerge_comm : forall a b, omerge a b = omerge b a.
Proof. intros [a|] [b|]; cbn; try reflexivity. f_equal. lia. Qed.
Lemma omerge_assoc : forall a b c, omerge (omerge a b) c = omerge a (omerge b c).
Proof. intros [a|] [b|] [c|]; cbn; try reflexivity. f_equal. lia. Qed.
Lemma omerge_idem : forall a, omerge a a = a.
Proof. intros [a|]; cbn; try reflexivity. f_equal. lia. Qed.
Lemma omerge_omax : forall a t, omerge a (Some t) = omax a t.
Proof. intros [a|] t; reflexivity. Qed.
Lemma omerge_absorb : forall a t, omerge a (omax a t) = omax a t.
Proof. intros [a|] t; cbn; f_equal; lia. Qed.

(* ---------------------------------------------------------------- one timestamp map *)
Definition tm := list (Z * Z).

Lemma stamp_get : forall (m : tm) e ts k,
  get k (lww_stamp e ts m) = if k =? e then omax (get e m) ts else get k m.
Proof.
  intros m e ts k. unfold lww_stamp. destruct (get e m) as [old|] eqn:G.
  - destruct (old <? ts) eqn:L.
    + rewrite get_set. destruct (k =? e); [cbn; f_equal; lia|reflexivity].
    + destruct (k =? e) eqn:E; [|reflexivity]. assert (k = e) by lia. subst. rewrite G. cbn. f_equal. lia.
  - rewrite get_set. destruct (k =? e); reflexivity.
Qed.

Lemma stamp_nodup : forall (m : tm) e ts, NoDup (keys m) -> NoDup (keys (lww_stamp e ts m)).
Proof.
  intros m e ts H. unfold lww_stamp. destruct (get e m); [destruct (_ <? _)|]; auto using nodup_set.
Qed.

Lemma merge1_nodup : forall (b a : tm), NoDup (keys a) -> NoDup (keys (lww_merge1 a b)).
Proof.
  induction b as [|[k t] b IH]; intros a Ha; cbn; [assumption|]. apply IH. now apply stamp_nodup.
Qed.

Lemma merge1_get : forall (b a : tm) k, NoDup (keys b) ->
  get k (lww_merge1 a b) = omerge (get k a) (get k b).
Proof.
  induction b as [|[k0 t0] b IH]; intros a k Hnd.
  - cbn. destruct (get k a); reflexivity.
  - inversion Hnd as [|? ? Hni Hnd']; subst. unfold lww_merge1. cbn [fold_left fst snd].
    fold (lww_merge1 (lww_stamp k0 t0 a) b). rewrite IH by assumption. rewrite stamp_get. cbn [get].
    destruct (k =? k0) eqn:E.
    + assert (k = k0) by lia. subst. apply get_None_notin in Hni. rewrite Hni.
      rewrite <- omerge_omax. destruct (omerge (get k0 a) (Some t0)); reflexivity.
    + reflexivity.
Qed.

(* ---------------------------------------------------------------- states *)
Definition lww_wf (s : lww) : Prop := NoDup (keys (lw_add s)) /\ NoDup (keys (lw_rem s)).
Definition lww_eqv (a b : lww) : Prop :=
  forall e, get e (lw_add a) = get e (lw_add b) /\ get e (lw_rem a) = get e (lw_rem b).
(* reads are compared as sets (the Go Read builds a TLA+ set) *)
Definition same_set (a b : list Z) : Prop := forall e, In e a <-> In e b.

Lemma lww_eqv_refl : forall a, lww_eqv a a.
Proof. intros a e. split; reflexivity. Qed.
Lemma lww_eqv_sym : forall a b, lww_eqv a b -> lww_eqv b a.
Proof. intros a b H e. destruct (H e). split; congruence. Qed.
Lemma lww_eqv_trans : forall a b c, lww_eqv a b -> lww_eqv b c -> lww_eqv a c.
Proof. intros a b c H1 H2 e. destruct (H1 e), (H2 e). split; congruence. Qed.

Lemma lww_wf_init : lww_wf lww_init.
Proof. split; constructor. Qed.

Lemma lww_merge_wf : forall a b, lww_wf a -> lww_wf b -> lww_wf (lww_merge a b).
Proof. intros a b [A1 A2] _. split; cbn; now apply merge1_nodup. Qed.

Lemma lww_merge_get : forall a b e, lww_wf b ->
  get e (lw_add (lww_merge a b)) = omerge (get e (lw_add a)) (get e (lw_add b)) /\
  get e (lw_rem (lww_merge a b)) = omerge (get e (lw_rem a)) (get e (lw_rem b)).
Proof. intros a b e [B1 B2]. cbn. split; now apply merge1_get. Qed.

Lemma lww_merge_comm : forall a b, lww_wf a -> lww_wf b -> lww_eqv (lww_merge a b) (lww_merge b a).
Proof.
  intros a b Ha Hb e. destruct (lww_merge_get a b e Hb) as [-> ->]. destruct (lww_merge_get b a e Ha) as [-> ->].
  split; apply omerge_comm.
Qed.

Lemma lww_merge_assoc : forall a b c, lww_wf a -> lww_wf b -> lww_wf c ->
  lww_eqv (lww_merge (lww_merge a b) c) (lww_merge a (lww_merge b c)).
Proof.
  intros a b c Ha Hb Hc e. pose proof (lww_merge_wf b c Hb Hc) as Hbc.
  destruct (lww_merge_get (lww_merge a b) c e Hc) as [-> ->].
  destruct (lww_merge_get a (lww_merge b c) e Hbc) as [-> ->].
  destruct (lww_merge_get a b e Hb) as [-> ->]. destruct (lww_merge_get b c e Hc) as [-> ->].
  split; apply omerge_assoc.
Qed.

Lemma lww_merge_idem : forall a, lww_wf a -> lww_eqv (lww_merge a a) a.
Proof. intros a Ha e. destruct (lww_merge_get a a e Ha) as [-> ->]. split; apply omerge_idem. Qed.

Lemma lww_merge_eqv : forall a a' b b', lww_wf b -> lww_wf b' ->
  lww_eqv a a' -> lww_eqv b b' -> lww_eqv (lww_merge a b) (lww_merge a' b').
Proof.
  intros a a' b b' Hb Hb' E1 E2 e.
  destruct (lww_merge_get a b e Hb) as [-> ->]. destruct (lww_merge_get a' b' e Hb') as [-> ->].
  destruct (E1 e) as [-> ->]. destruct (E2 e) as [-> ->]. split; reflexivity.
Qed.

(* ---- write, for any timestamp the clock returns *)
Lemma lww_write_wf : forall id a s, lww_wf s -> lww_wf (lww_write id a s).
Proof.
  intros id [[cmd elem] ts] s [H1 H2]. unfold lww_write.
  destruct (cmd =? addOp); [split; cbn; [now apply stamp_nodup|assumption]|].
  destruct (cmd =? remOp); [split; cbn; [assumption|now apply stamp_nodup]|]. now split.
Qed.

Lemma lww_write_get : forall id cmd elem ts s e,
  get e (lw_add (lww_write id (cmd, elem, ts) s)) =
    (if (cmd =? addOp) && (e =? elem) then omax (get elem (lw_add s)) ts else get e (lw_add s)) /\
  get e (lw_rem (lww_write id (cmd, elem, ts) s)) =
    (if (cmd =? remOp) && (e =? elem) then omax (get elem (lw_rem s)) ts else get e (lw_rem s)).
Proof.
  intros id cmd elem ts s e. unfold lww_write, addOp, remOp.
  destruct (cmd =? 1) eqn:E1; [|destruct (cmd =? 2) eqn:E2]; cbn [lw_add lw_rem andb]; rewrite ?stamp_get.
  - assert (cmd =? 2 = false) as -> by lia. cbn. split; [destruct (e =? elem)|]; reflexivity.
  - split; [|destruct (e =? elem)]; reflexivity.
  - split; reflexivity.
Qed.

Lemma lww_write_inflationary : forall id a s, lww_wf s ->
  lww_eqv (lww_merge s (lww_write id a s)) (lww_write id a s).
Proof.
  intros id [[cmd elem] ts] s Hs e. pose proof (lww_write_wf id (cmd, elem, ts) s Hs) as Hw.
  destruct (lww_merge_get s (lww_write id (cmd, elem, ts) s) e Hw) as [-> ->].
  destruct (lww_write_get id cmd elem ts s e) as [-> ->].
  split.
  - destruct ((cmd =? addOp) && (e =? elem)) eqn:E; [|apply omerge_idem].
    assert (e = elem) by lia. subst. apply omerge_absorb.
  - destruct ((cmd =? remOp) && (e =? elem)) eqn:E; [|apply omerge_idem].
    assert (e = elem) by lia. subst. apply omerge_absorb.
Qed.

Lemma lww_write_eqv : forall id a s s', lww_eqv s s' -> lww_eqv (lww_write id a s) (lww_write id a s').
Proof.
  intros id [[cmd elem] ts] s s' E e.
  destruct (lww_write_get id cmd elem ts s e) as [-> ->]. destruct (lww_write_get id cmd elem ts s' e) as [-> ->].
  destruct (E e) as [-> ->]. destruct (E elem) as [-> ->]. split; reflexivity.
Qed.

(* ---- read *)
Lemma lww_read_in : forall s e, In e (lww_read s) <-> lww_isin s e = true.
Proof.
  intros s e. unfold lww_read. rewrite filter_In. split; [tauto|]. intros H. split; [|exact H].
  unfold lww_isin in H. destruct (get e (lw_add s)) eqn:G; [|discriminate]. eapply get_Some_in. exact G.
Qed.

Lemma lww_isin_eqv : forall a b e, lww_eqv a b -> lww_isin a e = lww_isin b e.
Proof. intros a b e E. unfold lww_isin. destruct (E e) as [-> ->]. reflexivity. Qed.

Lemma lww_read_eqv : forall a b, lww_eqv a b -> same_set (lww_read a) (lww_read b).
Proof. intros a b E e. rewrite !lww_read_in. now rewrite (lww_isin_eqv a b e E). Qed.

(* ---- gob *)
Lemma dec_pairs_enc : forall (m : tm) b rest,
  lww_dec_pairs (List.length m) b (flat_map (fun kv => [TKey (fst kv); TTime (snd kv)]) m ++ rest)
  = Some (fold_left (fun b kv => set (fst kv) (snd kv) b) m b, rest).
Proof.
  induction m as [|[k t] m IH]; intros b rest; cbn; [reflexivity|]. apply IH.
Qed.

Lemma lww_decode_encode : forall s, lww_decode (lww_encode s) = Some (mkLww (build (lw_add s)) (build (lw_rem s))).
Proof.
  intros s. unfold lww_encode, lww_enc_pairs, lww_decode. cbn [app].
  rewrite dec_pairs_enc.
  rewrite <- (app_nil_r (flat_map _ (lw_rem s))). rewrite dec_pairs_enc. reflexivity.
Qed.

Lemma lww_hop_eqv : forall s, lww_wf s -> lww_eqv (lww_hop s) s.
Proof.
  intros s [H1 H2] e. unfold lww_hop. rewrite lww_decode_encode. cbn. split; now apply get_build.
Qed.

Lemma lww_hop_wf : forall s, lww_wf (lww_hop s).
Proof. intros s. unfold lww_hop. rewrite lww_decode_encode. split; cbn; apply nodup_build. Qed.

(* ---------------------------------------------------------------- histories *)
Notation lww_ev := (ev (Z * Z * Z)).
Notation lww_xrun := (xrun lww (Z * Z * Z) lww_init lww_write lww_merge lww_hop).
Notation lww_delivered := (delivered lww (Z * Z * Z) lww_init lww_write lww_merge lww_hop).
Definition lww_wpre (r : Z) (a : Z * Z * Z) (s : lww) : Prop := True.
Notation lww_valid := (valid lww (Z * Z * Z) lww_init lww_write lww_merge lww_hop lww_wpre).

Definition ev_cmd (x : lww_ev) : Z := fst (fst (ev_arg x)).
Definition ev_elem (x : lww_ev) : Z := snd (fst (ev_arg x)).
Definition ev_ts (x : lww_ev) : Z := snd (ev_arg x).
Definition ev_is (c e : Z) (x : lww_ev) : bool := (ev_cmd x =? c) && (ev_elem x =? e).

(* latest timestamp among the delivered updates of kind c (add / remove) on element e *)
Definition maxts (c e : Z) (D : list lww_ev) : option Z :=
  fold_right (fun x acc => if ev_is c e x then omax acc (ev_ts x) else acc) None D.

Lemma maxts_cons : forall c e x D, maxts c e (x :: D) = if ev_is c e x then omax (maxts c e D) (ev_ts x) else maxts c e D.
Proof. reflexivity. Qed.

Lemma maxts_app : forall c e D1 D2, maxts c e (D1 ++ D2) = omerge (maxts c e D1) (maxts c e D2).
Proof.
  induction D1 as [|x D1 IH]; intros D2; [reflexivity|].
  rewrite <- app_comm_cons, !maxts_cons, IH. destruct (ev_is c e x); [|reflexivity].
  destruct (maxts c e D1), (maxts c e D2); cbn; f_equal; lia.
Qed.

Lemma maxts_none : forall c e D, maxts c e D = None <-> forall x, In x D -> ev_is c e x = false.
Proof.
  induction D as [|x D IH]; [cbn; tauto|]. rewrite maxts_cons. destruct (ev_is c e x) eqn:E.
  - split; [destruct (maxts c e D); discriminate|]. intros H. specialize (H x (or_introl eq_refl)). congruence.
  - rewrite IH. split; [intros H y [<-|Hy]; auto|intros H y Hy; apply H; now right].
Qed.

Lemma maxts_some : forall c e D t, maxts c e D = Some t <->
  (exists x, In x D /\ ev_is c e x = true /\ ev_ts x = t) /\ (forall x, In x D -> ev_is c e x = true -> ev_ts x <= t).
Proof.
  induction D as [|x D IH]; intros t.
  - cbn. split; [discriminate|]. intros [(y & [] & _) _].
  - rewrite maxts_cons. destruct (ev_is c e x) eqn:E.
    + destruct (maxts c e D) as [t0|] eqn:M; cbn [omax].
      * specialize (IH t0). destruct IH as [IH1 _]. destruct (IH1 eq_refl) as [(y & Hy & Ey & Ty) Hle]. split.
        -- intros H. inversion H; subst. split.
           ++ destruct (Z.max_spec (ev_ts y) (ev_ts x)) as [[Hlt ->]|[Hge ->]].
              ** exists x. repeat split; auto. now left.
              ** exists y. repeat split; auto. now right.
           ++ intros z [<-|Hz] Ez; [lia|]. specialize (Hle z Hz Ez). lia.
        -- intros [(z & Hz & Ez & Tz) Hle']. f_equal.
           assert (t0 <= t) by (subst t0; apply Hle'; [now right|assumption]).
           assert (ev_ts x <= t) by (apply Hle'; [now left|assumption]).
           destruct Hz as [<-|Hz]; [lia|]. specialize (Hle z Hz Ez). lia.
      * pose proof (proj1 (maxts_none c e D) M) as Hn. split.
        -- intros H. inversion H; subst. split.
           ++ exists x. repeat split; auto. now left.
           ++ intros z [<-|Hz] Ez; [lia|]. rewrite (Hn z Hz) in Ez. discriminate.
        -- intros [(z & [<-|Hz] & Ez & Tz) _]; [now subst|]. rewrite (Hn z Hz) in Ez. discriminate.
    + rewrite IH. split.
      * intros [(y & Hy & Ey & Ty) Hle]. split; [exists y; repeat split; auto; now right|].
        intros z [<-|Hz] Ez; [congruence|auto].
      * intros [(y & [<-|Hy] & Ey & Ty) Hle]; [congruence|]. split; [exists y; auto|].
        intros z Hz Ez. apply Hle; [now right|assumption].
Qed.

Lemma maxts_same : forall c e D1 D2, same_updates D1 D2 -> maxts c e D1 = maxts c e D2.
Proof.
  intros c e D1 D2 H. destruct (maxts c e D1) as [t|] eqn:M1.
  - symmetry. apply maxts_some. apply maxts_some in M1 as [(x & Hx & Ex & Tx) Hle]. split.
    + exists x. repeat split; auto. now apply H.
    + intros y Hy. apply Hle. now apply H.
  - symmetry. apply maxts_none. intros x Hx. apply (proj1 (maxts_none c e D1) M1). now apply H.
Qed.

Definition lwwR (log : Z -> list (Z * Z * Z * lww)) (D : list lww_ev) (s : lww) : Prop :=
  lww_wf s /\ forall e, get e (lw_add s) = maxts addOp e D /\ get e (lw_rem s) = maxts remOp e D.

Theorem lww_history_inv : forall ops,
  let st := fst (lww_xrun ops) in let g := snd (lww_xrun ops) in
  (forall r, lwwR (g_log g) (g_dl g r) (reps st r)) /\ Forall2 (lwwR (g_log g)) (g_pool g) (pool st).
Proof.
  intros ops. apply (lift lww (Z * Z * Z) lww_init lww_write lww_merge lww_hop lww_wpre lwwR).
  - intros log. split; [apply lww_wf_init|]. intros e. split; reflexivity.
  - intros log log' D s _ _ H. exact H.
  - intros log D s r [[cmd elem] ts] [Hwf H] _ _ _ _. split; [now apply lww_write_wf|].
    intros e. destruct (lww_write_get r cmd elem ts s e) as [-> ->]. rewrite !maxts_cons.
    unfold ev_is, ev_cmd, ev_elem, ev_ts. cbn [ev_arg fst snd].
    destruct (H e) as [Ha Hr]. destruct (H elem) as [Ha' Hr']. rewrite (Z.eqb_sym elem e).
    split.
    + destruct ((cmd =? addOp) && (e =? elem)) eqn:E; [|exact Ha].
      assert (e = elem) by lia. subst. now rewrite Ha'.
    + destruct ((cmd =? remOp) && (e =? elem)) eqn:E; [|exact Hr].
      assert (e = elem) by lia. subst. now rewrite Hr'.
  - intros log D1 s1 D2 s2 [W1 H1] [W2 H2] _ _. split; [now apply lww_merge_wf|].
    intros e. destruct (lww_merge_get s1 s2 e W2) as [-> ->]. rewrite !maxts_app.
    destruct (H1 e) as [-> ->]. destruct (H2 e) as [-> ->]. split; reflexivity.
  - intros log D s [W H]. split; [apply lww_hop_wf|]. intros e.
    destruct (lww_hop_eqv s W e) as [-> ->]. apply H.
  - intros ops1 r a ops2 _. exact I.
Qed.

Theorem lww_reachable_wf : forall ops,
  (forall r, lww_wf (reps (lww_run ops) r)) /\ Forall lww_wf (pool (lww_run ops)).
Proof.
  intros ops. destruct (lww_history_inv ops) as [H Hp]. cbn zeta in H, Hp.
  unfold lww_run. rewrite <- (xrun_fst lww (Z * Z * Z) lww_init lww_write lww_merge lww_hop). split.
  - intros r. apply H.
  - induction Hp as [|D s Ds ss HDs Hp IH]; constructor; [apply HDs|exact IH].
Qed.

Theorem lww_convergence : forall ops r1 r2,
  same_updates (lww_delivered ops r1) (lww_delivered ops r2) ->
  lww_eqv (reps (lww_run ops) r1) (reps (lww_run ops) r2) /\
  same_set (lww_read (reps (lww_run ops) r1)) (lww_read (reps (lww_run ops) r2)).
Proof.
  intros ops r1 r2 Hs. destruct (lww_history_inv ops) as [H _]. cbn zeta in H.
  unfold lww_run. rewrite <- (xrun_fst lww (Z * Z * Z) lww_init lww_write lww_merge lww_hop).
  assert (E : lww_eqv (reps (fst (lww_xrun ops)) r1) (reps (fst (lww_xrun ops)) r2)).
  { intros e. destruct (H r1) as [_ H1]. destruct (H r2) as [_ H2].
    destruct (H1 e) as [-> ->]. destruct (H2 e) as [-> ->]. unfold Model.delivered in Hs.
    split; now apply maxts_same. }
  split; [exact E|now apply lww_read_eqv].
Qed.

(* read semantics: e is in the set iff some delivered add of e is at least as late as every
   delivered remove of e (the latest event wins; an add wins a tie) *)
Theorem lww_read_spec : forall ops r e,
  In e (lww_read (reps (lww_run ops) r)) <->
  exists x, In x (lww_delivered ops r) /\ ev_is addOp e x = true /\
            forall y, In y (lww_delivered ops r) -> ev_is remOp e y = true -> ev_ts y <= ev_ts x.
Proof.
  intros ops r e. destruct (lww_history_inv ops) as [H _]. cbn zeta in H.
  unfold lww_run. rewrite <- (xrun_fst lww (Z * Z * Z) lww_init lww_write lww_merge lww_hop). unfold Model.delivered.
  destruct (H r) as [_ Hr]. destruct (Hr e) as [Ha Hm]. rewrite lww_read_in. unfold lww_isin. rewrite Ha, Hm.
  set (D := g_dl (snd (lww_xrun ops)) r).
  destruct (maxts addOp e D) as [ta|] eqn:MA.
  - apply maxts_some in MA as [(x & Hx & Ex & Tx) Hle].
    destruct (maxts remOp e D) as [tr|] eqn:MR.
    + apply maxts_some in MR as [(y & Hy & Ey & Ty) Hle']. split.
      * intros Hlt. exists x. repeat split; auto. intros z Hz Ez. specialize (Hle' z Hz Ez). lia.
      * intros (x' & Hx' & Ex' & Hall). specialize (Hall y Hy Ey). specialize (Hle x' Hx' Ex'). lia.
    + split; [|reflexivity]. intros _. exists x. repeat split; auto.
      intros z Hz Ez. rewrite (proj1 (maxts_none remOp e D) MR z Hz) in Ez. discriminate.
  - split; [discriminate|]. intros (x & Hx & Ex & _).
    rewrite (proj1 (maxts_none addOp e D) MA x Hx) in Ex. discriminate.
Qed.
