(* C12 — generic facts about histories (Model.v, Section Sys), for any state type:
     * ghost_inv: the delivered-update bookkeeping is coherent in every history
       (every delivered update is a real one, delivered sets are per-writer prefixes, a writer has
       been delivered all its own updates);
     * lift: an invariant R relating "updates delivered" to "state", preserved by write / merge /
       gob, holds for every replica and every message of every history;
     * semilattice_convergence: if merge is commutative, associative, idempotent (up to an
       equivalence it respects) and writes are inflationary, then two replicas that were delivered
       the same set of updates have equivalent states. *)
From PGV Require Import C12.Model.
From Coq Require Import Lia.

Lemma Forall2_nth_error_l : forall {X Y} (P : X -> Y -> Prop) l1 l2 m a,
  Forall2 P l1 l2 -> nth_error l1 m = Some a -> exists b, nth_error l2 m = Some b /\ P a b.
Proof.
  intros X Y P l1 l2 m a H. revert m. induction H as [|x y l1 l2 Hxy H IH]; intros m Hn.
  - destruct m; discriminate.
  - destruct m as [|m]; cbn in *.
    + inversion Hn; subst. eauto.
    + auto.
Qed.

Lemma Forall2_nth_error_None : forall {X Y} (P : X -> Y -> Prop) l1 l2 m,
  Forall2 P l1 l2 -> nth_error l1 m = None -> nth_error l2 m = None.
Proof.
  intros X Y P l1 l2 m H. revert m. induction H as [|x y l1 l2 Hxy H IH]; intros m Hn.
  - destruct m; reflexivity.
  - destruct m as [|m]; cbn in *; [discriminate|auto].
Qed.

Lemma fupd_same : forall {T} (f : Z -> T) r x, fupd f r x r = x.
Proof. intros. unfold fupd. now rewrite Z.eqb_refl. Qed.

Lemma fupd_other : forall {T} (f : Z -> T) r x r', r' <> r -> fupd f r x r' = f r'.
Proof. intros. unfold fupd. destruct (r' =? r)%Z eqn:E; [lia|reflexivity]. Qed.

Section SysProofs.
  Variables (S A : Type).
  Variable init : S.
  Variable write : Z -> A -> S -> S.
  Variable merge : S -> S -> S.
  Variable hop : S -> S.

  Notation op := (op A).
  Notation sys := (sys S).
  Notation ev := (ev A).
  Notation ghost := (ghost S A).
  Notation step := (step S A write merge hop).
  Notation gstep := (gstep S A write).
  Notation xstep := (xstep S A write merge hop).
  Notation xrun := (xrun S A init write merge hop).
  Notation run := (run S A init write merge hop).
  Notation delivered := (delivered S A init write merge hop).

  Lemma xrun_snoc : forall ops o, xrun (ops ++ [o]) = xstep (xrun ops) o.
  Proof. intros. unfold Model.xrun. now rewrite fold_left_app. Qed.

  Lemma run_snoc : forall ops o, run (ops ++ [o]) = step (run ops) o.
  Proof. intros. unfold Model.run, run_from. now rewrite fold_left_app. Qed.

  Lemma xrun_fst : forall ops, fst (xrun ops) = run ops.
  Proof.
    induction ops as [|o ops IH] using rev_ind; [reflexivity|].
    rewrite xrun_snoc, run_snoc. cbn. now rewrite IH.
  Qed.

  (* ------------------------------------------------------------ coherence of the bookkeeping *)
  Definition genuine (log : Z -> list (A * S)) (D : list ev) : Prop :=
    forall e, In e D -> exists s, nth_error (log (ev_rep e)) (ev_seq e) = Some (ev_arg e, s).
  Definition closed (D : list ev) : Prop :=
    forall e, In e D -> forall k, (k < ev_seq e)%nat -> exists a, In (mkEv (ev_rep e) k a) D.
  Definition own (log : Z -> list (A * S)) (r : Z) (D : list ev) : Prop :=
    forall k, (k < List.length (log r))%nat -> exists a, In (mkEv r k a) D.
  Definition extends (log log' : Z -> list (A * S)) : Prop := forall r, exists l, log' r = log r ++ l.

  Definition ghost_ok (g : ghost) : Prop :=
    (forall r, genuine (g_log g) (g_dl g r) /\ closed (g_dl g r) /\ own (g_log g) r (g_dl g r)) /\
    Forall (fun D => genuine (g_log g) D /\ closed D) (g_pool g).

  Lemma genuine_extends : forall log log' D, extends log log' -> genuine log D -> genuine log' D.
  Proof.
    intros log log' D Hex Hg e He. destruct (Hg e He) as [s Hs]. destruct (Hex (ev_rep e)) as [l Hl].
    exists s. rewrite Hl. rewrite nth_error_app1; [exact Hs|]. apply nth_error_Some. congruence.
  Qed.

  Lemma genuine_app : forall log D1 D2, genuine log D1 -> genuine log D2 -> genuine log (D1 ++ D2).
  Proof. intros log D1 D2 H1 H2 e He. apply in_app_or in He as [He|He]; auto. Qed.

  Lemma closed_app : forall D1 D2, closed D1 -> closed D2 -> closed (D1 ++ D2).
  Proof.
    intros D1 D2 H1 H2 e He k Hk. apply in_app_or in He as [He|He].
    - destruct (H1 e He k Hk) as [a Ha]. exists a. apply in_or_app. now left.
    - destruct (H2 e He k Hk) as [a Ha]. exists a. apply in_or_app. now right.
  Qed.

  Lemma extends_write : forall (log : Z -> list (A * S)) r x, extends log (fupd log r (log r ++ [x])).
  Proof.
    intros log r x r'. destruct (Z.eq_dec r' r) as [->|Hne].
    - rewrite fupd_same. eauto.
    - rewrite fupd_other by assumption. exists []. now rewrite app_nil_r.
  Qed.

  Lemma genuine_seq_lt : forall log D e, genuine log D -> In e D -> (ev_seq e < List.length (log (ev_rep e)))%nat.
  Proof. intros log D e Hg He. destruct (Hg e He) as [s Hs]. apply nth_error_Some. congruence. Qed.

  Theorem ghost_inv : forall ops, ghost_ok (snd (xrun ops)).
  Proof.
    induction ops as [|o ops IH] using rev_ind.
    - cbn. split; [|constructor]. intros r. repeat split.
      + intros e [].
      + intros e [].
      + intros k Hk. cbn in Hk. lia.
    - rewrite xrun_snoc. destruct (xrun ops) as [st g]. cbn [snd fst] in *. unfold Model.xstep. cbn [snd fst].
      destruct IH as [Hr Hp]. destruct o as [r a|r gb|d m]; cbn [Model.gstep].
      + (* write *)
        set (log' := fupd (g_log g) r (g_log g r ++ [(a, write r a (reps st r))])).
        assert (Hex : extends (g_log g) log') by apply extends_write.
        split; cbn [g_dl g_log g_pool].
        * intros r'. destruct (Z.eq_dec r' r) as [->|Hne].
          -- rewrite fupd_same. destruct (Hr r) as (Hg & Hc & Ho). repeat split.
             ++ intros e [<-|He].
                ** cbn. exists (write r a (reps st r)). unfold log'. rewrite fupd_same.
                   rewrite nth_error_app2 by lia. now rewrite Nat.sub_diag.
                ** apply (genuine_extends _ _ _ Hex Hg). exact He.
             ++ intros e [<-|He] k Hk.
                ** cbn in *. destruct (Ho k Hk) as [a' Ha']. exists a'. now right.
                ** destruct (Hc e He k Hk) as [a' Ha']. exists a'. now right.
             ++ intros k Hk. unfold log' in Hk. rewrite fupd_same, app_length in Hk. cbn in Hk.
                destruct (Nat.eq_dec k (List.length (g_log g r))) as [->|Hne].
                ** exists a. now left.
                ** destruct (Ho k ltac:(lia)) as [a' Ha']. exists a'. now right.
          -- rewrite fupd_other by assumption. destruct (Hr r') as (Hg & Hc & Ho). repeat split.
             ++ apply (genuine_extends _ _ _ Hex Hg).
             ++ exact Hc.
             ++ intros k Hk. unfold log' in Hk. rewrite fupd_other in Hk by assumption. auto.
        * eapply Forall_impl; [|exact Hp]. intros D [Hg Hc]. split; [|exact Hc].
          apply (genuine_extends _ _ _ Hex Hg).
      + (* snapshot *)
        split; cbn [g_dl g_log g_pool]; [exact Hr|].
        apply Forall_app. split; [exact Hp|]. constructor; [|constructor].
        destruct (Hr r) as (Hg & Hc & _). now split.
      + (* deliver *)
        destruct (nth_error (g_pool g) m) as [D|] eqn:Hn; [|now split].
        assert (HD : genuine (g_log g) D /\ closed D).
        { rewrite Forall_forall in Hp. apply Hp. eapply nth_error_In. exact Hn. }
        destruct HD as [HDg HDc].
        split; cbn [g_dl g_log g_pool]; [|exact Hp].
        intros r'. destruct (Z.eq_dec r' d) as [->|Hne].
        * rewrite fupd_same. destruct (Hr d) as (Hg & Hc & Ho). repeat split.
          -- now apply genuine_app.
          -- now apply closed_app.
          -- intros k Hk. destruct (Ho k Hk) as [a' Ha']. exists a'. apply in_or_app. now left.
        * rewrite fupd_other by assumption. apply Hr.
  Qed.

  (* ------------------------------------------------------------ validity of a history *)
  Variable wpre : Z -> A -> S -> Prop.

  (* every local update is performed in a state where its precondition holds *)
  Definition valid (ops : list op) : Prop :=
    forall ops1 r a ops2, ops = ops1 ++ OWrite r a :: ops2 -> wpre r a (reps (run ops1) r).

  Lemma valid_snoc : forall ops o, valid (ops ++ [o]) -> valid ops.
  Proof.
    intros ops o H ops1 r a ops2 E. apply (H ops1 r a (ops2 ++ [o])).
    rewrite E. rewrite <- app_assoc. reflexivity.
  Qed.

  Lemma valid_snoc_intro : forall ops o, valid ops ->
    (forall r a, o = OWrite r a -> wpre r a (reps (run ops) r)) -> valid (ops ++ [o]).
  Proof.
    intros ops o Hv Ho ops1 r a ops2 E.
    destruct (exists_last (l := OWrite r a :: ops2) ltac:(discriminate)) as (l' & o' & El).
    rewrite El in E. rewrite app_assoc in E. apply app_inj_tail in E as [E1 E2]. subst o'.
    destruct ops2 as [|x ops2].
    - destruct l' as [|y l']; cbn in El.
      + rewrite app_nil_r in E1. subst ops1. inversion El; subst. now apply Ho.
      + inversion El as [[Hy Hl]]. destruct l'; discriminate.
    - apply (Hv ops1 r a (removelast (x :: ops2))). rewrite E1. f_equal.
      assert (Hrl : removelast (OWrite r a :: x :: ops2) = l').
      { rewrite El. apply removelast_last. }
      rewrite <- Hrl. reflexivity.
  Qed.

  Lemma valid_last_write : forall ops r a, valid (ops ++ [OWrite r a]) -> wpre r a (reps (run ops) r).
  Proof. intros ops r a H. apply (H ops r a []). reflexivity. Qed.

  (* the same, as a conjunction along the run (convenient for concrete histories) *)
  Fixpoint valid_from (st : sys) (ops : list op) : Prop :=
    match ops with
    | [] => True
    | o :: rest =>
        (match o with OWrite r a => wpre r a (reps st r) | _ => True end) /\ valid_from (step st o) rest
    end.

  Lemma valid_from_decomp : forall ops st, valid_from st ops ->
    forall ops1 r a ops2, ops = ops1 ++ OWrite r a :: ops2 ->
    wpre r a (reps (run_from S A write merge hop st ops1) r).
  Proof.
    induction ops as [|o ops IH]; intros st Hv ops1 r a ops2 E.
    - destruct ops1; discriminate.
    - destruct Hv as [Ho Hv]. destruct ops1 as [|o1 ops1]; cbn in E; inversion E; subst.
      + exact Ho.
      + cbn. eapply IH; eauto.
  Qed.

  Lemma valid_from_valid : forall ops, valid_from (sys_init S init) ops -> valid ops.
  Proof. intros ops Hv ops1 r a ops2 E. exact (valid_from_decomp ops _ Hv ops1 r a ops2 E). Qed.

  (* ------------------------------------------------------------ lifting an invariant to all histories *)
  Section Lift.
    Variable R : (Z -> list (A * S)) -> list ev -> S -> Prop.
    Hypothesis R_init : forall log, R log [] init.
    Hypothesis R_mono : forall log log' D s, extends log log' -> genuine log D -> R log D s -> R log' D s.
    Hypothesis R_write : forall log D s r a,
      R log D s -> genuine log D -> closed D -> own log r D -> wpre r a s ->
      R (fupd log r (log r ++ [(a, write r a s)])) (mkEv r (List.length (log r)) a :: D) (write r a s).
    Hypothesis R_merge : forall log D1 s1 D2 s2,
      R log D1 s1 -> R log D2 s2 -> genuine log D1 -> genuine log D2 -> R log (D1 ++ D2) (merge s1 s2).
    Hypothesis R_hop : forall log D s, R log D s -> R log D (hop s).

    Theorem lift : forall ops, valid ops ->
      let st := fst (xrun ops) in let g := snd (xrun ops) in
      (forall r, R (g_log g) (g_dl g r) (reps st r)) /\ Forall2 (R (g_log g)) (g_pool g) (pool st).
    Proof.
      induction ops as [|o ops IH] using rev_ind; intros Hv.
      - cbn. split; [intros r; apply R_init|constructor].
      - assert (Hv' := valid_snoc _ _ Hv). specialize (IH Hv').
        assert (HG := ghost_inv ops).
        assert (Hpre : forall r a, o = OWrite r a -> wpre r a (reps (fst (xrun ops)) r)).
        { intros r a ->. rewrite xrun_fst. now apply valid_last_write. }
        rewrite xrun_snoc. destruct (xrun ops) as [st g]. cbn [snd fst] in *.
        destruct IH as [Hr Hp]. destruct HG as [Gr Gp].
        unfold Model.xstep. cbn [fst snd]. destruct o as [r a|r gb|d m]; cbn [Model.step Model.gstep].
        + set (log' := fupd (g_log g) r (g_log g r ++ [(a, write r a (reps st r))])).
          assert (Hex : extends (g_log g) log') by apply extends_write.
          cbn [g_dl g_log g_pool reps pool]. split.
          * intros r'. destruct (Z.eq_dec r' r) as [->|Hne].
            -- rewrite !fupd_same. destruct (Gr r) as (Hg & Hc & Ho).
               apply R_write; auto.
            -- rewrite !fupd_other by assumption. destruct (Gr r') as (Hg & _).
               eapply R_mono; eauto.
          * clear - Hp Gp Hex R_mono. induction Hp as [|D s Ds ss HDs Hp IHp]; constructor.
            -- inversion Gp; subst. destruct H1 as [Hg _]. eapply R_mono; eauto.
            -- inversion Gp; subst. auto.
        + cbn [g_dl g_log g_pool reps pool]. split; [exact Hr|].
          apply Forall2_app; [exact Hp|]. constructor; [|constructor].
          destruct gb; [apply R_hop|]; apply Hr.
        + destruct (nth_error (g_pool g) m) as [D|] eqn:Hn.
          * destruct (Forall2_nth_error_l _ _ _ _ _ Hp Hn) as (s & Hs & HR). rewrite Hs.
            cbn [g_dl g_log g_pool reps pool]. split; [|exact Hp].
            intros r'. destruct (Z.eq_dec r' d) as [->|Hne].
            -- rewrite !fupd_same. destruct (Gr d) as (Hg & _).
               apply R_merge; auto.
               rewrite Forall_forall in Gp. apply Gp. eapply nth_error_In. exact Hn.
            -- rewrite !fupd_other by assumption. apply Hr.
          * rewrite (Forall2_nth_error_None _ _ _ _ Hp Hn). split; assumption.
    Qed.
  End Lift.
End SysProofs.
