(* C12 — a variant of ProofsSys.lift for history classes: the precondition of a write may also
   mention the bookkeeping (which updates exist, which were delivered to the writer), and the
   per-replica invariant R may rely on an invariant L of the log alone. *)
From PGV Require Import C12.Model C12.ProofsSys.
From Coq Require Import Lia.

Section SysX.
  Variables (S A : Type).
  Variable init : S.
  Variable write : Z -> A -> S -> S.
  Variable merge : S -> S -> S.
  Variable hop : S -> S.

  Notation op := (op A).
  Notation ev := (ev A).
  Notation xrun := (xrun S A init write merge hop).
  Notation genuine := (genuine S A).
  Notation closed := (closed A).
  Notation own := (own S A).
  Notation extends := (extends S A).

  (* xpre log D r a s: replica r, whose delivered updates are D and state is s, may perform a *)
  Variable xpre : (Z -> list (A * S)) -> list ev -> Z -> A -> S -> Prop.

  Definition validx (ops : list op) : Prop :=
    forall ops1 r a ops2, ops = ops1 ++ OWrite r a :: ops2 ->
    xpre (g_log (snd (xrun ops1))) (g_dl (snd (xrun ops1)) r) r a (reps (fst (xrun ops1)) r).

  Lemma validx_snoc : forall ops o, validx (ops ++ [o]) -> validx ops.
  Proof.
    intros ops o H ops1 r a ops2 E. apply (H ops1 r a (ops2 ++ [o])).
    rewrite E. rewrite <- app_assoc. reflexivity.
  Qed.

  Lemma validx_last : forall ops r a, validx (ops ++ [OWrite r a]) ->
    xpre (g_log (snd (xrun ops))) (g_dl (snd (xrun ops)) r) r a (reps (fst (xrun ops)) r).
  Proof. intros ops r a H. apply (H ops r a []). reflexivity. Qed.

  Lemma validx_nil : validx [].
  Proof. intros ops1 r a ops2 E. destruct ops1; discriminate. Qed.

  Lemma validx_snoc_intro : forall ops o, validx ops ->
    (forall r a, o = OWrite r a ->
       xpre (g_log (snd (xrun ops))) (g_dl (snd (xrun ops)) r) r a (reps (fst (xrun ops)) r)) ->
    validx (ops ++ [o]).
  Proof.
    intros ops o Hv Ho ops1 r a ops2 E.
    destruct (exists_last (l := OWrite r a :: ops2) ltac:(discriminate)) as (l' & o' & El).
    rewrite El in E. rewrite app_assoc in E. apply app_inj_tail in E as [E1 E2]. subst o'.
    destruct ops2 as [|x ops2].
    - destruct l' as [|y l']; cbn in El.
      + rewrite app_nil_r in E1. subst ops1. inversion El; subst. now apply Ho.
      + inversion El as [[Hy Hl]]. destruct l'; discriminate.
    - apply (Hv ops1 r a (removelast (x :: ops2))). rewrite E1. f_equal.
      assert (Hrl : removelast (OWrite r a :: x :: ops2) = l').
      { rewrite El. apply removelast_last. }
      rewrite <- Hrl. reflexivity.
  Qed.

  Variable R : (Z -> list (A * S)) -> list ev -> S -> Prop.
  Variable L : (Z -> list (A * S)) -> Prop.
  Hypothesis L_init : L (fun _ => []).
  Hypothesis L_write : forall log D s r a,
    L log -> R log D s -> genuine log D -> closed D -> own log r D -> xpre log D r a s ->
    L (fupd log r (log r ++ [(a, write r a s)])).
  Hypothesis R_init : R (fun _ => []) [] init.
  Hypothesis R_mono : forall log log' D s, extends log log' -> genuine log D -> L log -> L log' -> R log D s -> R log' D s.
  Hypothesis R_write : forall log D s r a,
    L log -> R log D s -> genuine log D -> closed D -> own log r D -> xpre log D r a s ->
    R (fupd log r (log r ++ [(a, write r a s)])) (mkEv r (List.length (log r)) a :: D) (write r a s).
  Hypothesis R_merge : forall log D1 s1 D2 s2,
    L log -> R log D1 s1 -> R log D2 s2 -> genuine log D1 -> genuine log D2 -> R log (D1 ++ D2) (merge s1 s2).
  Hypothesis R_hop : forall log D s, L log -> R log D s -> R log D (hop s).

  Theorem liftx : forall ops, validx ops ->
    let st := fst (xrun ops) in let g := snd (xrun ops) in
    L (g_log g) /\ (forall r, R (g_log g) (g_dl g r) (reps st r)) /\ Forall2 (R (g_log g)) (g_pool g) (pool st).
  Proof.
    induction ops as [|o ops IH] using rev_ind; intros Hv.
    - cbn. split; [exact L_init|]. split; [intros r; exact R_init|constructor].
    - assert (Hv' := validx_snoc _ _ Hv). specialize (IH Hv').
      assert (HG := ghost_inv S A init write merge hop ops).
      assert (Hpre : forall r a, o = OWrite r a ->
                xpre (g_log (snd (xrun ops))) (g_dl (snd (xrun ops)) r) r a (reps (fst (xrun ops)) r)).
      { intros r a ->. now apply validx_last. }
      rewrite (xrun_snoc S A init write merge hop). destruct (xrun ops) as [st g]. cbn [snd fst] in *.
      destruct IH as (HL & Hr & Hp). destruct HG as [Gr Gp].
      unfold Model.xstep. cbn [fst snd]. destruct o as [r a|r gb|d m]; cbn [Model.step Model.gstep].
      + set (log' := fupd (g_log g) r (g_log g r ++ [(a, write r a (reps st r))])).
        assert (Hex : extends (g_log g) log') by apply extends_write.
        destruct (Gr r) as (Hg & Hc & Ho).
        assert (HL' : L log') by (unfold log'; eapply L_write; eauto).
        cbn [g_dl g_log g_pool reps pool]. split; [exact HL'|]. split.
        * intros r'. destruct (Z.eq_dec r' r) as [->|Hne].
          -- rewrite !fupd_same. apply R_write; auto.
          -- rewrite !fupd_other by assumption. destruct (Gr r') as (Hg' & _).
             eapply R_mono; eauto.
        * clear - Hp Gp Hex R_mono HL HL'. induction Hp as [|D s Ds ss HDs Hp IHp]; constructor.
          -- inversion Gp; subst. destruct H1 as [Hg _]. eapply R_mono; eauto.
          -- inversion Gp; subst. auto.
      + cbn [g_dl g_log g_pool reps pool]. split; [exact HL|]. split; [exact Hr|].
        apply Forall2_app; [exact Hp|]. constructor; [|constructor].
        destruct gb; [apply R_hop; [exact HL|]|]; apply Hr.
      + destruct (nth_error (g_pool g) m) as [D|] eqn:Hn.
        * destruct (Forall2_nth_error_l _ _ _ _ _ Hp Hn) as (s & Hs & HR). rewrite Hs.
          cbn [g_dl g_log g_pool reps pool]. split; [exact HL|]. split; [|exact Hp].
          intros r'. destruct (Z.eq_dec r' d) as [->|Hne].
          -- rewrite !fupd_same. destruct (Gr d) as (Hg & _).
             apply R_merge; auto.
             rewrite Forall_forall in Gp. apply Gp. eapply nth_error_In. exact Hn.
          -- rewrite !fupd_other by assumption. apply Hr.
        * rewrite (Forall2_nth_error_None _ _ _ _ Hp Hn). split; [exact HL|]. split; assumption.
  Qed.
End SysX.
