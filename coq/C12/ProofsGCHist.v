(* C12 — GCounter over all histories: every entry is the sum of the delivered increments of that
   writer, the read is the sum of all delivered increments, hence strong convergence. *)
From PGV Require Import C12.Model C12.ProofsAL C12.ProofsGC C12.ProofsSys.
From Coq Require Import Lia ZifyBool Permutation.
Open Scope Z_scope.

Notation gc_ev := (ev Z).
Notation gc_xrun := (xrun gc Z gc_init gc_write gc_merge gc_hop).
Notation gc_delivered := (delivered gc Z gc_init gc_write gc_merge gc_hop).
Notation gc_valid := (valid gc Z gc_init gc_write gc_merge gc_hop gc_wpre).

Definition zsum (l : list Z) : Z := fold_right Z.add 0 l.

(* number of updates of writer i delivered: one more than the largest sequence number *)
Definition cnt (i : Z) (D : list gc_ev) : nat :=
  fold_right (fun e acc => if ev_rep e =? i then Nat.max (S (ev_seq e)) acc else acc) 0%nat D.

Definition incs (log : Z -> list (Z * gc)) (i : Z) : list Z := map fst (log i).

Lemma zsum_app : forall a b, zsum (a ++ b) = zsum a + zsum b.
Proof. unfold zsum. induction a; intros; cbn; [reflexivity|]. rewrite IHa. lia. Qed.

Lemma cnt_cons : forall i e D,
  cnt i (e :: D) = if ev_rep e =? i then Nat.max (S (ev_seq e)) (cnt i D) else cnt i D.
Proof. reflexivity. Qed.

Lemma cnt_app : forall i D1 D2, cnt i (D1 ++ D2) = Nat.max (cnt i D1) (cnt i D2).
Proof.
  induction D1 as [|e D1 IH]; intros D2; [reflexivity|].
  rewrite <- app_comm_cons, !cnt_cons, IH. destruct (ev_rep e =? i); lia.
Qed.

Lemma cnt_le_in : forall i D e, In e D -> ev_rep e = i -> (S (ev_seq e) <= cnt i D)%nat.
Proof.
  induction D as [|e0 D IH]; intros e Hin Hi; [destruct Hin|]. rewrite cnt_cons. destruct Hin as [->|He].
  - subst. rewrite Z.eqb_refl. lia.
  - specialize (IH e He Hi). destruct (ev_rep e0 =? i); lia.
Qed.

Lemma cnt_witness : forall i D, (0 < cnt i D)%nat -> exists e, In e D /\ ev_rep e = i /\ S (ev_seq e) = cnt i D.
Proof.
  induction D as [|e0 D IH]; [cbn; lia|]. rewrite cnt_cons. intros H.
  destruct (ev_rep e0 =? i) eqn:E.
  - destruct (Nat.max_spec (S (ev_seq e0)) (cnt i D)) as [[Hlt Hm]|[Hle Hm]].
    + destruct IH as (e & He & Hr & Hs); [lia|]. exists e. repeat split; [now right|auto|lia].
    + exists e0. repeat split; [now left|lia|lia].
  - destruct (IH H) as (e & He & Hr & Hs). exists e. repeat split; [now right|auto|auto].
Qed.

Lemma cnt_mono : forall i D1 D2, (forall e, In e D1 -> In e D2) -> (cnt i D1 <= cnt i D2)%nat.
Proof.
  intros i D1 D2 H. destruct (Nat.eq_dec (cnt i D1) 0) as [->|Hne]; [lia|].
  destruct (cnt_witness i D1) as (e & He & Hr & Hs); [lia|].
  pose proof (cnt_le_in i D2 e (H e He) Hr). lia.
Qed.

Lemma cnt_same : forall i D1 D2, same_updates D1 D2 -> cnt i D1 = cnt i D2.
Proof.
  intros i D1 D2 H. apply Nat.le_antisymm; apply cnt_mono; intros e He; apply H; exact He.
Qed.

Lemma cnt_le_log : forall log D i, genuine gc Z log D -> (cnt i D <= List.length (log i))%nat.
Proof.
  intros log D i Hg. destruct (Nat.eq_dec (cnt i D) 0) as [->|Hne]; [lia|].
  destruct (cnt_witness i D) as (e & He & Hr & Hs); [lia|].
  pose proof (genuine_seq_lt _ _ _ _ _ Hg He). subst i. lia.
Qed.

Lemma cnt_own : forall log D r, genuine gc Z log D -> own gc Z log r D -> cnt r D = List.length (log r).
Proof.
  intros log D r Hg Ho. pose proof (cnt_le_log log D r Hg).
  destruct (Nat.eq_dec (List.length (log r)) 0) as [E|Hne]; [lia|].
  destruct (Ho (List.length (log r) - 1)%nat ltac:(lia)) as [a Ha].
  pose proof (cnt_le_in r D _ Ha eq_refl). cbn in *. lia.
Qed.

(* the delivered updates of writer i are exactly its first cnt i D updates *)
Lemma delivered_prefix : forall log D i k, genuine gc Z log D -> closed Z D ->
  (k < cnt i D)%nat -> exists a s, In (mkEv i k a) D /\ nth_error (log i) k = Some (a, s).
Proof.
  intros log D i k Hg Hc Hk.
  destruct (cnt_witness i D) as (e & He & Hr & Hs); [lia|].
  assert (exists a, In (mkEv i k a) D) as [a Ha].
  { destruct (Nat.eq_dec k (ev_seq e)) as [->|Hne].
    - exists (ev_arg e). destruct e; cbn in *. subst. exact He.
    - subst i. apply (Hc e He k). lia. }
  destruct (Hg _ Ha) as [s Hs']. cbn in Hs'. eauto.
Qed.

(* ---------------------------------------------------------------- the invariant *)
Definition gcR (log : Z -> list (Z * gc)) (D : list gc_ev) (s : gc) : Prop :=
  gc_wf s /\
  forall i, gc_getd i s = zsum (firstn (cnt i D) (incs log i)) /\
            Forall (fun v => 0 <= v) (firstn (cnt i D) (incs log i)).

Lemma firstn_extends : forall (log log' : Z -> list (Z * gc)) i n,
  extends gc Z log log' -> (n <= List.length (log i))%nat -> firstn n (incs log' i) = firstn n (incs log i).
Proof.
  intros log log' i n Hex Hn. destruct (Hex i) as [l Hl]. unfold incs. rewrite Hl, map_app.
  rewrite firstn_app. rewrite map_length.
  replace (n - List.length (log i))%nat with 0%nat by lia. cbn. now rewrite app_nil_r.
Qed.

Lemma zsum_nonneg : forall l, Forall (fun v => 0 <= v) l -> 0 <= zsum l.
Proof. unfold zsum. induction 1; cbn; lia. Qed.

Lemma zsum_firstn_mono : forall l n m, (n <= m)%nat -> Forall (fun v => 0 <= v) (firstn m l) ->
  zsum (firstn n l) <= zsum (firstn m l) /\ Forall (fun v => 0 <= v) (firstn n l).
Proof.
  induction l as [|x l IH]; intros n m Hnm Hf.
  - rewrite !firstn_nil. split; [lia|constructor].
  - destruct n as [|n].
    + rewrite firstn_O. split; [|constructor]. change (zsum []) with 0. now apply zsum_nonneg.
    + destruct m as [|m]; [lia|]. rewrite !firstn_cons in *.
      inversion Hf; subst. destruct (IH n m ltac:(lia) H2) as [H3 H4].
      split; [|now constructor]. change (x + zsum (firstn n l) <= x + zsum (firstn m l)). lia.
Qed.

Lemma gcR_init : forall log, gcR log [] gc_init.
Proof. intros log. split; [apply gc_wf_init|]. intros i. cbn. split; [reflexivity|constructor]. Qed.

Lemma gcR_mono : forall log log' D s, extends gc Z log log' -> genuine gc Z log D -> gcR log D s -> gcR log' D s.
Proof.
  intros log log' D s Hex Hg [Hwf H]. split; [exact Hwf|]. intros i.
  rewrite (firstn_extends log log' i _ Hex (cnt_le_log log D i Hg)). apply H.
Qed.

Lemma gcR_write : forall log D s r a,
  gcR log D s -> genuine gc Z log D -> closed Z D -> own gc Z log r D -> gc_wpre r a s ->
  gcR (fupd log r (log r ++ [(a, gc_write r a s)])) (mkEv r (List.length (log r)) a :: D) (gc_write r a s).
Proof.
  intros log D s r a [Hwf H] Hg Hc Ho Hpre. split; [apply gc_write_wf; assumption|].
  intros i. rewrite gc_write_getd_pre by (try apply Hwf; assumption).
  pose proof (cnt_own log D r Hg Ho) as Hown.
  rewrite cnt_cons. cbn [ev_rep ev_seq].
  destruct (r =? i) eqn:E.
  - assert (r = i) by lia. subst i. rewrite Z.eqb_refl. rewrite Hown.
    clear E.
    replace (Nat.max (S (List.length (log r))) (List.length (log r))) with (S (List.length (log r))) by lia.
    unfold incs. rewrite fupd_same, map_app. cbn [map fst].
    replace (S (List.length (log r))) with (List.length (map fst (log r) ++ [a])) by (rewrite app_length, map_length; cbn; lia).
    rewrite firstn_all. rewrite zsum_app. cbn.
    destruct (H r) as [H1 H2]. rewrite Hown in H1, H2. unfold incs in H1, H2.
    rewrite <- (map_length fst (log r)) in H1, H2. rewrite firstn_all in H1, H2.
    split; [lia|]. apply Forall_app. split; [exact H2|]. constructor; [apply Hpre|constructor].
  - destruct (i =? r) eqn:E'; [lia|].
    unfold incs. rewrite fupd_other by lia. apply H.
Qed.

Lemma gcR_merge : forall log D1 s1 D2 s2,
  gcR log D1 s1 -> gcR log D2 s2 -> genuine gc Z log D1 -> genuine gc Z log D2 -> gcR log (D1 ++ D2) (gc_merge s1 s2).
Proof.
  intros log D1 s1 D2 s2 [W1 H1] [W2 H2] _ _. split; [apply gc_merge_wf; assumption|].
  intros i. rewrite gc_merge_getd by (try apply W1; assumption). rewrite cnt_app.
  destruct (H1 i) as [E1 F1]. destruct (H2 i) as [E2 F2]. rewrite E1, E2.
  destruct (Nat.max_spec (cnt i D1) (cnt i D2)) as [[Hlt ->]|[Hle ->]].
  - destruct (zsum_firstn_mono (incs log i) (cnt i D1) (cnt i D2) ltac:(lia) F2). split; [lia|assumption].
  - destruct (zsum_firstn_mono (incs log i) (cnt i D2) (cnt i D1) ltac:(lia) F1). split; [lia|assumption].
Qed.

Lemma gcR_hop : forall log D s, gcR log D s -> gcR log D (gc_hop s).
Proof.
  intros log D s [Hwf H]. split; [apply gc_hop_wf; assumption|]. intros i.
  rewrite gc_hop_eqv by assumption. apply H.
Qed.

Theorem gc_history_inv : forall ops, gc_valid ops ->
  let st := fst (gc_xrun ops) in let g := snd (gc_xrun ops) in
  (forall r, gcR (g_log g) (g_dl g r) (reps st r)) /\ Forall2 (gcR (g_log g)) (g_pool g) (pool st).
Proof.
  intros ops Hv. apply (lift gc Z gc_init gc_write gc_merge gc_hop gc_wpre gcR); auto.
  - exact gcR_init.
  - exact gcR_mono.
  - exact gcR_write.
  - exact gcR_merge.
  - exact gcR_hop.
Qed.

(* ---------------------------------------------------------------- strong convergence *)
Theorem gc_convergence : forall ops r1 r2, gc_valid ops ->
  same_updates (gc_delivered ops r1) (gc_delivered ops r2) ->
  gc_eqv (reps (gc_run ops) r1) (reps (gc_run ops) r2) /\ gc_read (reps (gc_run ops) r1) = gc_read (reps (gc_run ops) r2).
Proof.
  intros ops r1 r2 Hv Hs. destruct (gc_history_inv ops Hv) as [H _]. cbn zeta in H.
  unfold gc_run. rewrite <- (xrun_fst gc Z gc_init gc_write gc_merge gc_hop).
  destruct (H r1) as [W1 H1]. destruct (H r2) as [W2 H2].
  assert (E : gc_eqv (reps (fst (gc_xrun ops)) r1) (reps (fst (gc_xrun ops)) r2)).
  { intros i. destruct (H1 i) as [-> _]. destruct (H2 i) as [-> _].
    unfold Model.delivered in Hs. now rewrite (cnt_same i _ _ Hs). }
  split; [exact E|]. apply gc_read_eqv; assumption.
Qed.

(* ---------------------------------------------------------------- bounded histories are valid *)
Fixpoint op_incs (ops : list gc_op) : list Z :=
  match ops with
  | [] => []
  | OWrite _ v :: rest => v :: op_incs rest
  | _ :: rest => op_incs rest
  end.

(* hypothesis of the history theorems: increments are non-negative and their total fits int32 *)
Definition gc_bounded (ops : list gc_op) : Prop :=
  Forall (fun v => 0 <= v) (op_incs ops) /\ zsum (op_incs ops) < 2147483648.

Lemma op_incs_app : forall a b, op_incs (a ++ b) = op_incs a ++ op_incs b.
Proof. induction a as [|[r v|r g|d m] a IH]; intros b; cbn; rewrite ?IH; reflexivity. Qed.

Definition wsum (W : list Z) (f : Z -> Z) : Z := zsum (map f W).

Lemma wsum_ext : forall W f g, (forall i, In i W -> f i = g i) -> wsum W f = wsum W g.
Proof.
  unfold wsum, zsum. induction W as [|i W IH]; intros f g H; cbn; [reflexivity|].
  rewrite (H i) by now left. rewrite (IH f g); [reflexivity|]. intros j Hj. apply H. now right.
Qed.

Lemma wsum_point : forall W f g r x, NoDup W -> (forall i, i <> r -> g i = f i) -> g r = f r + x ->
  wsum W g = wsum W f + (if in_dec Z.eq_dec r W then x else 0).
Proof.
  unfold wsum, zsum. induction W as [|i W IH]; intros f g r x Hnd Ho Hr; cbn [map fold_right].
  - destruct (in_dec Z.eq_dec r []) as [[]|_]. lia.
  - inversion Hnd as [|? ? Hni Hnd']; subst. specialize (IH f g r x Hnd' Ho Hr).
    destruct (Z.eq_dec i r) as [->|Hne].
    + destruct (in_dec Z.eq_dec r (r :: W)) as [_|Hn]; [|exfalso; apply Hn; now left].
      destruct (in_dec Z.eq_dec r W) as [Hi|_]; [contradiction|]. lia.
    + rewrite (Ho i Hne).
      destruct (in_dec Z.eq_dec r (i :: W)) as [[Hi|Hi]|Hn]; destruct (in_dec Z.eq_dec r W) as [Hj|Hj]; try lia; try contradiction.
      exfalso. apply Hn. now right.
Qed.

Lemma wsum_log_le : forall ops W, NoDup W -> Forall (fun v => 0 <= v) (op_incs ops) ->
  wsum W (fun i => zsum (incs (g_log (snd (gc_xrun ops))) i)) <= zsum (op_incs ops).
Proof.
  induction ops as [|o ops IH] using rev_ind; intros W Hnd Hnn.
  - cbn. unfold wsum. induction W; cbn; [lia|]. inversion Hnd; subst. cbn in *. unfold zsum in *. cbn. auto.
  - rewrite op_incs_app in Hnn. apply Forall_app in Hnn as [Hnn1 Hnn2]. specialize (IH W Hnd Hnn1).
    rewrite xrun_snoc, op_incs_app, zsum_app. destruct (gc_xrun ops) as [st g]. cbn [fst snd] in *.
    unfold Model.xstep. cbn [fst snd]. destruct o as [r v|r gb|d m]; cbn [Model.gstep op_incs].
    + cbn [g_log].
      rewrite (wsum_point W (fun i => zsum (incs (g_log g) i)) _ r v Hnd).
      * inversion Hnn2; subst. change (zsum [v]) with (v + 0).
        destruct (in_dec Z.eq_dec r W); lia.
      * intros i Hi. unfold incs. now rewrite fupd_other.
      * unfold incs. rewrite fupd_same, map_app, zsum_app. cbn. lia.
    + cbn [g_log]. change (zsum []) with 0. lia.
    + destruct (nth_error (g_pool g) m); cbn [g_log]; change (zsum []) with 0; lia.
Qed.

Lemma log_incs_nonneg : forall ops i, Forall (fun v => 0 <= v) (op_incs ops) ->
  Forall (fun v => 0 <= v) (incs (g_log (snd (gc_xrun ops))) i).
Proof.
  induction ops as [|o ops IH] using rev_ind; intros i Hnn.
  - cbn. constructor.
  - rewrite op_incs_app in Hnn. apply Forall_app in Hnn as [Hnn1 Hnn2]. specialize (IH i Hnn1).
    rewrite xrun_snoc. destruct (gc_xrun ops) as [st g]. cbn [fst snd] in *.
    unfold Model.xstep. cbn [fst snd]. destruct o as [r v|r gb|d m]; cbn [Model.gstep op_incs] in *.
    + cbn [g_log]. unfold incs. destruct (Z.eq_dec i r) as [->|Hne].
      * rewrite fupd_same, map_app. apply Forall_app. split; [exact IH|]. cbn. exact Hnn2.
      * rewrite fupd_other by assumption. exact IH.
    + exact IH.
    + destruct (nth_error (g_pool g) m); exact IH.
Qed.

Lemma log_sum_le : forall ops r, Forall (fun v => 0 <= v) (op_incs ops) ->
  zsum (incs (g_log (snd (gc_xrun ops))) r) <= zsum (op_incs ops).
Proof.
  intros ops r H. pose proof (wsum_log_le ops [r] ltac:(constructor; [intros []|constructor]) H) as Hw.
  unfold wsum in Hw. cbn in Hw. lia.
Qed.

Theorem gc_bounded_valid : forall ops, gc_bounded ops -> gc_valid ops.
Proof.
  induction ops as [|o ops IH] using rev_ind; intros [Hnn Hlt].
  - intros ops1 r a ops2 E. destruct ops1; discriminate.
  - rewrite op_incs_app in Hnn, Hlt. rewrite zsum_app in Hlt. apply Forall_app in Hnn as [Hnn1 Hnn2].
    assert (Hz : 0 <= zsum (op_incs [o])) by now apply zsum_nonneg.
    assert (Hv : gc_valid ops) by (apply IH; split; [assumption|lia]).
    apply valid_snoc_intro; [exact Hv|]. intros r v ->. cbn in Hnn2, Hlt, Hz.
    inversion Hnn2; subst.
    destruct (gc_history_inv ops Hv) as [H _]. cbn zeta in H.
    pose proof (ghost_inv gc Z gc_init gc_write gc_merge gc_hop ops) as [Gr _].
    rewrite <- (xrun_fst gc Z gc_init gc_write gc_merge gc_hop).
    destruct (H r) as [Hwf Hi]. destruct (Hi r) as [Hg _].
    destruct (Gr r) as (Gg & _ & Go). rewrite (cnt_own _ _ _ Gg Go) in Hg.
    unfold incs in Hg. rewrite <- (map_length fst) in Hg. rewrite firstn_all in Hg.
    pose proof (log_sum_le ops r Hnn1) as Hle. unfold incs in Hle.
    split; [assumption|]. rewrite Hg. lia.
Qed.

(* ---------------------------------------------------------------- read = sum of the delivered increments *)
Definition gc_ev_dec : forall a b : gc_ev, {a = b} + {a <> b}.
Proof. decide equality; [apply Z.eq_dec|apply Nat.eq_dec|apply Z.eq_dec]. Defined.

(* the increments delivered to a replica, each update counted once *)
Definition delivered_incs (D : list gc_ev) : list Z := map ev_arg (nodup gc_ev_dec D).

Lemma zsum_perm : forall l1 l2, Permutation l1 l2 -> zsum l1 = zsum l2.
Proof. unfold zsum. induction 1; cbn; lia. Qed.

Lemma NoDup_app_intro : forall {X} (l1 l2 : list X), NoDup l1 -> NoDup l2 ->
  (forall x, In x l1 -> ~ In x l2) -> NoDup (l1 ++ l2).
Proof.
  induction l1 as [|a l1 IH]; intros l2 H1 H2 Hd; cbn; [assumption|].
  inversion H1; subst. constructor.
  - rewrite in_app_iff. intros [Hi|Hi]; [contradiction|]. apply (Hd a); [now left|assumption].
  - apply IH; auto. intros x Hx. apply Hd. now right.
Qed.

Lemma NoDup_flat_map : forall {X Y} (f : X -> list Y) (W : list X), NoDup W ->
  (forall i, In i W -> NoDup (f i)) ->
  (forall i j y, In i W -> In j W -> i <> j -> In y (f i) -> ~ In y (f j)) -> NoDup (flat_map f W).
Proof.
  induction W as [|i W IH]; intros Hnd Hf Hd; cbn; [constructor|].
  inversion Hnd; subst. apply NoDup_app_intro.
  - apply Hf. now left.
  - apply IH; auto.
    + intros j Hj. apply Hf. now right.
    + intros a b y Ha Hb. apply Hd; now right.
  - intros y Hy Hin. apply in_flat_map in Hin as (j & Hj & Hyj).
    apply (Hd i j y); auto; [now left|now right|]. intros ->. contradiction.
Qed.

Definition evs_of (log : Z -> list (Z * gc)) (D : list gc_ev) (i : Z) : list gc_ev :=
  map (fun k => mkEv i k (nth k (incs log i) 0)) (seq 0 (cnt i D)).

Lemma map_nth_seq : forall (l : list Z) n, (n <= List.length l)%nat ->
  map (fun k => nth k l 0) (seq 0 n) = firstn n l.
Proof.
  intros l n. revert l. induction n as [|n IH]; intros l Hn; [reflexivity|].
  destruct l as [|x l]; cbn in Hn; [lia|]. cbn [seq map nth firstn]. f_equal.
  rewrite <- seq_shift, map_map. cbn [nth]. apply IH. lia.
Qed.

Lemma evs_of_sum : forall log D i, genuine gc Z log D ->
  zsum (map ev_arg (evs_of log D i)) = zsum (firstn (cnt i D) (incs log i)).
Proof.
  intros log D i Hg. unfold evs_of. rewrite map_map. cbn [ev_arg].
  rewrite map_nth_seq; [reflexivity|]. unfold incs. rewrite map_length. now apply cnt_le_log.
Qed.

Lemma delivered_partition : forall log D, genuine gc Z log D -> closed Z D ->
  Permutation (nodup gc_ev_dec D) (flat_map (evs_of log D) (nodup Z.eq_dec (map ev_rep D))).
Proof.
  intros log D Hg Hc. apply NoDup_Permutation.
  - apply NoDup_nodup.
  - apply NoDup_flat_map.
    + apply NoDup_nodup.
    + intros i _. unfold evs_of. apply FinFun.Injective_map_NoDup; [|apply seq_NoDup].
      intros a b E. now inversion E.
    + intros i j y _ _ Hij Hi Hj. unfold evs_of in *.
      apply in_map_iff in Hi as (a & <- & _). apply in_map_iff in Hj as (b & E & _). inversion E. congruence.
  - intros e. rewrite nodup_In. rewrite in_flat_map. split.
    + intros He. exists (ev_rep e). split.
      * apply nodup_In. now apply in_map.
      * unfold evs_of. apply in_map_iff. exists (ev_seq e). split.
        -- destruct (Hg e He) as [s Hs]. destruct e as [i k a]. cbn in *. f_equal.
           unfold incs. erewrite nth_error_nth; [|rewrite nth_error_map, Hs; reflexivity]. reflexivity.
        -- apply in_seq. pose proof (cnt_le_in (ev_rep e) D e He eq_refl). lia.
    + intros (i & _ & Hi). unfold evs_of in Hi. apply in_map_iff in Hi as (k & <- & Hk).
      apply in_seq in Hk. destruct (delivered_prefix log D i k Hg Hc ltac:(lia)) as (a & s & Ha & Hn).
      replace (nth k (incs log i) 0) with a; [exact Ha|].
      unfold incs. erewrite nth_error_nth; [|rewrite nth_error_map, Hn; reflexivity]. reflexivity.
Qed.

Lemma gc_total_wsum : forall W s, NoDup W -> NoDup (keys s) -> (forall i, ~ In i W -> gc_getd i s = 0) ->
  gc_total s = wsum W (fun i => gc_getd i s).
Proof.
  unfold wsum. induction W as [|i W IH]; intros s Hnd Hs Hz.
  - cbn. rewrite (gc_total_eqv s []); [reflexivity|assumption|constructor|].
    intros k. rewrite Hz by (intros []). reflexivity.
  - inversion Hnd; subst. cbn [map]. change (zsum (gc_getd i s :: map (fun i0 => gc_getd i0 s) W))
      with (gc_getd i s + zsum (map (fun i0 => gc_getd i0 s) W)).
    rewrite (gc_total_del s i Hs). f_equal.
    rewrite (IH (del i s)); [|assumption|now apply nodup_del|].
    + f_equal. apply map_ext_in. intros j Hj. rewrite gc_getd_del.
      destruct (j =? i) eqn:E; [|reflexivity]. assert (j = i) by lia. subst. contradiction.
    + intros j Hj. rewrite gc_getd_del. destruct (j =? i) eqn:E; [reflexivity|].
      apply Hz. intros [->|Hin]; [lia|contradiction].
Qed.

Lemma zsum_flat_map : forall {X} (f : X -> list Z) W, zsum (flat_map f W) = zsum (map (fun i => zsum (f i)) W).
Proof.
  intros X f W. induction W as [|i W IH]; [reflexivity|]. cbn [flat_map map]. rewrite zsum_app, IH. reflexivity.
Qed.

Lemma cnt_notin : forall i D, ~ In i (map ev_rep D) -> cnt i D = 0%nat.
Proof.
  induction D as [|e D IH]; intros H; [reflexivity|]. rewrite cnt_cons. cbn in H.
  destruct (ev_rep e =? i) eqn:E; [exfalso; apply H; left; lia|]. apply IH. tauto.
Qed.

Theorem gc_read_spec : forall ops r, gc_bounded ops ->
  gc_read (reps (gc_run ops) r) = zsum (delivered_incs (gc_delivered ops r)).
Proof.
  intros ops r Hb. pose proof (gc_bounded_valid ops Hb) as Hv.
  destruct (gc_history_inv ops Hv) as [H _]. cbn zeta in H.
  pose proof (ghost_inv gc Z gc_init gc_write gc_merge gc_hop ops) as [Gr _].
  unfold gc_run. rewrite <- (xrun_fst gc Z gc_init gc_write gc_merge gc_hop). unfold Model.delivered.
  destruct (H r) as [[Hnd Hnn] Hi]. destruct (Gr r) as (Gg & Gc & _).
  set (s := reps (fst (gc_xrun ops)) r) in *. set (D := g_dl (snd (gc_xrun ops)) r) in *.
  set (log := g_log (snd (gc_xrun ops))) in *.
  set (W := nodup Z.eq_dec (map ev_rep D)).
  assert (Etot : gc_total s = zsum (delivered_incs D)).
  { rewrite (gc_total_wsum W s); [|apply NoDup_nodup|assumption|].
    - unfold delivered_incs. rewrite (zsum_perm _ _ (Permutation_map ev_arg (delivered_partition log D Gg Gc))).
      fold W. unfold wsum.
      assert (Hfm : forall W', map ev_arg (flat_map (evs_of log D) W') = flat_map (fun i => map ev_arg (evs_of log D i)) W').
      { induction W' as [|i W' IH]; [reflexivity|]. cbn. now rewrite map_app, IH. }
      rewrite Hfm, zsum_flat_map. f_equal. apply map_ext. intros i.
      rewrite evs_of_sum by assumption. apply Hi.
    - intros i Hn. destruct (Hi i) as [-> _]. rewrite cnt_notin; [reflexivity|].
      intros Hin. apply Hn. apply nodup_In. exact Hin. }
  rewrite gc_read_total, Etot. apply wrap32_id.
  (* the delivered increments are some of the history's increments *)
  rewrite <- Etot. rewrite (gc_total_wsum W s); [|apply NoDup_nodup|assumption|].
  - destruct Hb as [Hb1 Hb2].
    pose proof (wsum_log_le ops W (NoDup_nodup _ _) Hb1) as Hle. fold log in Hle.
    assert (Hmono : forall W', 0 <= wsum W' (fun i => gc_getd i s) <= wsum W' (fun i => zsum (incs log i))).
    { unfold wsum. induction W' as [|i W' IH]; cbn [map].
      - change (zsum []) with 0. lia.
      - change (zsum (?a :: ?l)) with (a + zsum l).
        destruct (Hi i) as [E F].
        assert (Hc : (cnt i D <= List.length (incs log i))%nat) by (unfold incs; rewrite map_length; now apply cnt_le_log).
        pose proof (log_incs_nonneg ops i Hb1) as Hall. fold log in Hall.
        pose proof (zsum_firstn_mono (incs log i) (cnt i D) (List.length (incs log i)) Hc) as Hm.
        rewrite firstn_all in Hm. destruct (Hm Hall) as [Hm1 _].
        specialize (Hnn i). lia. }
    specialize (Hmono W). lia.
  - intros i Hn. destruct (Hi i) as [-> _]. rewrite cnt_notin; [reflexivity|].
    intros Hin. apply Hn. apply nodup_In. exact Hin.
Qed.

(* every state of a bounded history (replicas and messages in flight) is well-formed, so the
   semilattice laws of ProofsGC apply to all reachable states *)
Theorem gc_reachable_wf : forall ops, gc_bounded ops ->
  (forall r, gc_wf (reps (gc_run ops) r)) /\ Forall gc_wf (pool (gc_run ops)).
Proof.
  intros ops Hb. pose proof (gc_bounded_valid ops Hb) as Hv.
  destruct (gc_history_inv ops Hv) as [H Hp]. cbn zeta in H, Hp.
  unfold gc_run. rewrite <- (xrun_fst gc Z gc_init gc_write gc_merge gc_hop). split.
  - intros r. apply H.
  - induction Hp as [|D s Ds ss HDs Hp IH]; constructor; [apply HDs|exact IH].
Qed.

Theorem gc_convergence_bounded : forall ops r1 r2, gc_bounded ops ->
  same_updates (gc_delivered ops r1) (gc_delivered ops r2) ->
  gc_read (reps (gc_run ops) r1) = gc_read (reps (gc_run ops) r2).
Proof. intros ops r1 r2 Hb Hs. apply gc_convergence; [now apply gc_bounded_valid|exact Hs]. Qed.
