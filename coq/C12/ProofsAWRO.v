(* C12 — AWORSet on histories in which removes are never concurrent with another update of the
   same element; ADDS of one element MAY be concurrent with each other.
   Hypothesis (aw_removes_ordered): whenever a replica updates element e, every remove of e performed so far
   (by any replica) has been delivered to it, and if the update is itself a remove, every update of e
   performed so far has been delivered to it. (aw_sequential is the special case where this is also
   required of adds.) Then replicas with the same delivered updates read the same set, and e is read iff
   some delivered add of e is above every delivered remove of e. *)
From PGV Require Import C12.Model C12.ProofsAL C12.ProofsGC C12.ProofsSys C12.ProofsSysX C12.ProofsAW C12.ProofsAWSeq.
From Coq Require Import Lia ZifyBool.
Open Scope Z_scope.

Definition ropre (log : aw_log) (D : list aw_ev) (r : Z) (a : Z * Z) (s : aw) : Prop :=
  aw_wpre r a s /\ (fst a = addOp \/ fst a = remOp) /\
  (forall y, logged log y -> elem_of y = snd a -> cmd_of y = remOp -> In y D) /\
  (fst a = remOp -> forall y, logged log y -> elem_of y = snd a -> In y D).

Definition aw_removes_ordered : list aw_op -> Prop := validx aw (Z * Z) aw_init aw_write aw_merge aw_hop ropre.

Definition vc_le (a b : vclock) : Prop := forall k, gc_getd k a <= gc_getd k b.

Lemma vc_lt_le : forall a b, vc_lt a b -> vc_le a b.
Proof. intros a b [H _]. exact H. Qed.
Lemma vc_le_lt_trans : forall a b c, vc_le a b -> vc_lt b c -> vc_lt a c.
Proof.
  intros a b c H1 [H2 [k Hk]]. split; [intros j; specialize (H1 j); specialize (H2 j); lia|].
  exists k. specialize (H1 k). lia.
Qed.
Lemma vc_lt_le_trans : forall a b c, vc_lt a b -> vc_le b c -> vc_lt a c.
Proof.
  intros a b c [H1 [k Hk]] H2. split; [intros j; specialize (H1 j); specialize (H2 j); lia|].
  exists k. specialize (H2 k). lia.
Qed.
Lemma vc_lt_irrefl : forall a, ~ vc_lt a a.
Proof. intros a [_ [k Hk]]. lia. Qed.
Lemma vc_le_eqv : forall a a' b b', gc_eqv a a' -> gc_eqv b b' -> vc_le a b -> vc_le a' b'.
Proof. intros a a' b b' Ea Eb H k. rewrite <- (Ea k), <- (Eb k). apply H. Qed.

(* ---------------------------------------------------------------- descriptions of an element's entry *)
Section Desc.
  Variable log : aw_log.

  Definition noev (D : list aw_ev) (e : Z) : Prop := forall x, In x D -> elem_of x <> e.

  (* a delivered remove whose clock dominates every other delivered update of e *)
  Definition topRem (D : list aw_ev) (e : Z) (y : aw_ev) : Prop :=
    In y D /\ elem_of y = e /\ cmd_of y = remOp /\
    forall x, In x D -> elem_of x = e -> x = y \/ vc_lt (clk log x) (clk log y).

  (* the delivered adds of e that are above every delivered remove of e *)
  Definition inA (D : list aw_ev) (e : Z) (a : aw_ev) : Prop :=
    In a D /\ elem_of a = e /\ cmd_of a = addOp /\
    forall y, In y D -> elem_of y = e -> cmd_of y = remOp -> vc_lt (clk log y) (clk log a).

  (* c is the join of the clocks of those adds, and every other delivered update of e is below one of them *)
  Definition topAdd (D : list aw_ev) (e : Z) (c : vclock) : Prop :=
    (forall a, inA D e a -> vc_le (clk log a) c) /\
    (forall k, exists a, inA D e a /\ gc_getd k c = gc_getd k (clk log a)) /\
    (forall x, In x D -> elem_of x = e -> inA D e x \/ exists a, inA D e a /\ vc_lt (clk log x) (clk log a)).

  Definition desc (D : list aw_ev) (e : Z) (x : option entry) : Prop :=
    (noev D e /\ x = None) \/
    (exists y, topRem D e y /\ ent_eqv x (Some (ERem (clk log y)))) \/
    (exists c, x = Some (EAdd c) /\ topAdd D e c).

  Lemma topAdd_eqv : forall D e c c', gc_eqv c c' -> topAdd D e c -> topAdd D e c'.
  Proof.
    intros D e c c' E (H1 & H2 & H3). split; [|split; [|exact H3]].
    - intros a Ha k. rewrite <- (E k). now apply H1.
    - intros k. destruct (H2 k) as (a & Ha & Hk). exists a. split; [exact Ha|]. now rewrite <- (E k).
  Qed.

  Lemma desc_eqv : forall D e x x', desc D e x -> ent_eqv x x' -> desc D e x'.
  Proof.
    intros D e x x' [[Hn ->]|[(y & Hy & Hx)|(c & -> & Hc)]] E.
    - left. split; [exact Hn|]. destruct x' as [[?|?]|]; cbn in E; tauto.
    - right. left. exists y. split; [exact Hy|]. eapply ent_eqv_trans; [apply ent_eqv_sym, E|exact Hx].
    - right. right. destruct x' as [[c'|c']|]; cbn in E; try contradiction. exists c'. split; [reflexivity|].
      now apply (topAdd_eqv D e c c').
  Qed.

  Lemma topAdd_nonempty : forall D e c, topAdd D e c -> exists a, inA D e a.
  Proof. intros D e c (_ & H2 & _). destruct (H2 0) as (a & Ha & _). eauto. Qed.
End Desc.

(* ---------------------------------------------------------------- invariants *)
(* L: entries match the commands; a remove is clock-comparable with every other update of its element,
   and its own component strictly exceeds that of every update below it *)
Definition roL (log : aw_log) : Prop :=
  (forall x, logged log x ->
     (cmd_of x = addOp /\ exists c, entry_of log x = Some (EAdd c) /\ gc_wf c) \/
     (cmd_of x = remOp /\ exists c, entry_of log x = Some (ERem c) /\ gc_wf c)) /\
  (forall x y, logged log x -> logged log y -> elem_of x = elem_of y -> cmd_of y = remOp ->
     x = y \/ vc_lt (clk log x) (clk log y) \/ vc_lt (clk log y) (clk log x)) /\
  (forall x y, logged log x -> logged log y -> elem_of x = elem_of y -> cmd_of y = remOp ->
     vc_lt (clk log x) (clk log y) -> gc_getd (ev_rep y) (clk log x) < gc_getd (ev_rep y) (clk log y)).

Definition roR (log : aw_log) (D : list aw_ev) (s : aw) : Prop :=
  aw_wf s /\ forall e, desc log D e (ent e s).

Lemma roL_clk_wf : forall log x, roL log -> logged log x -> gc_wf (clk log x) /\ ewf (entry_of log x).
Proof.
  intros log x (H1 & _) Hl. unfold clk. destruct (H1 x Hl) as [(_ & c & -> & Hc)|(_ & c & -> & Hc)]; cbn; auto.
Qed.

Lemma roL_cmd : forall log x, roL log -> logged log x -> cmd_of x = addOp \/ cmd_of x = remOp.
Proof. intros log x (H1 & _) Hl. destruct (H1 x Hl) as [(H & _)|(H & _)]; auto. Qed.

Lemma roL_entry : forall log x, roL log -> logged log x ->
  entry_of log x = Some (if cmd_of x =? addOp then EAdd (clk log x) else ERem (clk log x)).
Proof.
  intros log x (H1 & _) Hl. unfold clk. destruct (H1 x Hl) as [(Hc & c & E & _)|(Hc & c & E & _)]; rewrite E, Hc; reflexivity.
Qed.

Lemma roR_init : roR (fun _ => []) [] aw_init.
Proof. split; [apply aw_wf_init|]. intros e. left. split; [intros x []|reflexivity]. Qed.

Lemma roL_init : roL (fun _ => []).
Proof.
  split; [|split].
  - intros x [s Hs]. destruct (ev_seq x); discriminate.
  - intros x y [s Hs] _ _ _. destruct (ev_seq x); discriminate.
  - intros x y [s Hs] _ _ _ _. destruct (ev_seq x); discriminate.
Qed.

(* descriptions only mention delivered (hence logged) updates: stable under log extension *)
Lemma desc_extends : forall log log' D e x, extends aw (Z * Z) log log' -> genuine aw (Z * Z) log D ->
  desc log D e x -> desc log' D e x.
Proof.
  intros log log' D e x Hex Hg Hd.
  assert (Ec : forall y, In y D -> clk log' y = clk log y) by (intros y Hy; apply clk_extends; [exact Hex|now apply Hg]).
  assert (HinA : forall a, inA log D e a <-> inA log' D e a).
  { intros a. unfold inA. split; intros (H1 & H2 & H3 & H4); (split; [exact H1|split; [exact H2|split; [exact H3|]]]); intros y Hy Hye Hyc.
    - rewrite (Ec y Hy), (Ec a H1). now apply H4.
    - rewrite <- (Ec y Hy), <- (Ec a H1). now apply H4. }
  destruct Hd as [Hn|[(y & (Hy & Hye & Hyc & Hdom) & Hx)|(c & -> & (H1 & H2 & H3))]].
  - now left.
  - right. left. exists y. split.
    + split; [exact Hy|split; [exact Hye|split; [exact Hyc|]]]. intros z Hz Hze. rewrite (Ec z Hz), (Ec y Hy). now apply Hdom.
    + now rewrite (Ec y Hy).
  - right. right. exists c. split; [reflexivity|]. split; [|split].
    + intros a Ha. apply HinA in Ha. pose proof Ha as (Ha' & _). rewrite (Ec a Ha'). now apply H1.
    + intros k. destruct (H2 k) as (a & Ha & Hk). exists a. split; [now apply HinA|]. destruct Ha as (Ha & _). now rewrite (Ec a Ha).
    + intros z Hz Hze. destruct (H3 z Hz Hze) as [Ha|(a & Ha & Hlt)]; [left; now apply HinA|right].
      exists a. split; [now apply HinA|]. destruct Ha as (Ha & _). now rewrite (Ec z Hz), (Ec a Ha).
Qed.

Lemma roR_mono : forall log log' D s, extends aw (Z * Z) log log' -> genuine aw (Z * Z) log D ->
  roL log -> roL log' -> roR log D s -> roR log' D s.
Proof. intros log log' D s Hex Hg _ _ [Hw H]. split; [exact Hw|]. intros e. eapply desc_extends; eauto. Qed.

Lemma roR_hop : forall log D s, roL log -> roR log D s -> roR log D (aw_hop s).
Proof.
  intros log D s _ [Hw H]. split; [now apply aw_hop_wf|]. intros e.
  eapply desc_eqv; [apply H|]. apply ent_eqv_sym. apply (aw_hop_eqv s Hw e).
Qed.

(* ---------------------------------------------------------------- decidability helpers *)
Lemma vc_lt_iff : forall a b, vc_lt a b <-> is_LT (vc_compare a b) = true.
Proof.
  intros a b. split; [intros H; apply (vc_lt_LT a b H)|].
  intros H. apply is_LT_spec in H as [H1 H2]. split; [|exact H1].
  intros k. destruct (Z_le_gt_dec (gc_getd k a) (gc_getd k b)) as [Hle|Hgt]; [exact Hle|].
  exfalso. apply H2. exists k. lia.
Qed.

Lemma vc_lt_dec : forall a b, {vc_lt a b} + {~ vc_lt a b}.
Proof.
  intros a b. destruct (is_LT (vc_compare a b)) eqn:E; [left; now apply vc_lt_iff|right].
  intros H. apply vc_lt_iff in H. congruence.
Qed.

Lemma list_all_or_ex : forall {X} (P : X -> Prop) (l : list X), (forall x, {P x} + {~ P x}) ->
  (forall x, In x l -> P x) \/ (exists x, In x l /\ ~ P x).
Proof.
  intros X P l Hd. induction l as [|x l IH]; [left; intros y []|].
  destruct (Hd x) as [Hx|Hx]; [|right; exists x; split; [now left|exact Hx]].
  destruct IH as [IH|(y & Hy & Hny)]; [left|right; exists y; split; [now right|exact Hny]].
  intros y [<-|Hy]; auto.
Qed.

Section Merge.
  Variable log : aw_log.
  Hypothesis HL : roL log.

  Lemma desc_ext : forall D D' e x, (forall z, elem_of z = e -> (In z D <-> In z D')) -> desc log D e x -> desc log D' e x.
  Proof.
    intros D D' e x Hio Hd.
    assert (HinA : forall a, inA log D e a -> inA log D' e a).
    { intros a (H1 & H2 & H3 & H4). split; [now apply Hio|]. split; [exact H2|]. split; [exact H3|].
      intros y Hy Hye Hyc. apply H4; auto. now apply Hio. }
    assert (HinA' : forall a, inA log D' e a -> inA log D e a).
    { intros a (H1 & H2 & H3 & H4). split; [now apply Hio|]. split; [exact H2|]. split; [exact H3|].
      intros y Hy Hye Hyc. apply H4; auto. now apply Hio. }
    destruct Hd as [[Hn ->]|[(y & (Hy & Hye & Hyc & Hdom) & Hx)|(c & -> & (H1 & H2 & H3))]].
    - left. split; [|reflexivity]. intros z Hz Hze. apply (Hn z); [now apply Hio|exact Hze].
    - right. left. exists y. split; [|exact Hx]. split; [now apply Hio|]. split; [exact Hye|]. split; [exact Hyc|].
      intros z Hz Hze. apply Hdom; [now apply Hio|exact Hze].
    - right. right. exists c. split; [reflexivity|]. split; [|split].
      + intros a Ha. apply H1. now apply HinA'.
      + intros k. destruct (H2 k) as (a & Ha & Hk). exists a. split; [now apply HinA|exact Hk].
      + intros z Hz Hze. destruct (H3 z (proj2 (Hio z Hze) Hz) Hze) as [Ha|(a & Ha & Hlt)]; [left; now apply HinA|right].
        exists a. split; [now apply HinA|exact Hlt].
  Qed.

  Lemma in_app_e : forall (D1 D2 : list aw_ev) z, In z (D1 ++ D2) <-> In z D1 \/ In z D2.
  Proof. intros. apply in_app_iff. Qed.

  Variables (D1 D2 : list aw_ev) (e : Z).
  Hypothesis G1 : genuine aw (Z * Z) log D1.
  Hypothesis G2 : genuine aw (Z * Z) log D2.

  (* a remove against an add description *)
  Lemma merge_rem_add : forall y1 c2, topRem log D1 e y1 -> gc_wf c2 -> topAdd log D2 e c2 ->
    desc log (D1 ++ D2) e (ment (Some (ERem (clk log y1))) (Some (EAdd c2))).
  Proof.
    intros y1 c2 (Hy1 & Hy1e & Hy1c & Hdom1) Wc2 (T1 & T2 & T3).
    pose proof (G1 y1 Hy1) as Ly1. pose proof HL as (L1 & L2 & L5).
    assert (Hcomp : forall a, inA log D2 e a -> vc_lt (clk log a) (clk log y1) \/ vc_lt (clk log y1) (clk log a)).
    { intros a (Ha & Hae & Hac & _). destruct (L2 a y1 (G2 a Ha) Ly1 ltac:(congruence) Hy1c) as [->|H]; [|exact H].
      unfold addOp, remOp in *. congruence. }
    cbn [ment]. destruct (is_LT (vc_compare c2 (clk log y1))) eqn:ELT.
    - (* the remove dominates every add above the removes of D2 *)
      apply vc_lt_iff in ELT. right. left. exists y1. split; [|apply ent_eqv_refl].
      split; [apply in_app_e; now left|]. split; [exact Hy1e|]. split; [exact Hy1c|].
      intros x Hx Hxe. apply in_app_e in Hx as [Hx|Hx]; [now apply Hdom1|right].
      destruct (T3 x Hx Hxe) as [Ha|(a & Ha & Hlt)].
      + eapply vc_le_lt_trans; [now apply T1|exact ELT].
      + eapply vc_lt_trans; [exact Hlt|]. eapply vc_le_lt_trans; [now apply T1|exact ELT].
    - (* some add of D2 is above the remove *)
      assert (Hw : exists a0, inA log D2 e a0 /\ vc_lt (clk log y1) (clk log a0)).
      { destruct (existsb (fun k => gc_getd k (clk log y1) <? gc_getd k c2) (keys (clk log y1) ++ keys c2)) eqn:EX.
        - apply existsb_some_lt in EX as [k Hk]. destruct (T2 k) as (a & Ha & Hak). exists a. split; [exact Ha|].
          destruct (Hcomp a Ha) as [Hlt|Hgt]; [|exact Hgt]. destruct Hlt as [Hle _]. specialize (Hle k). lia.
        - assert (Hle : vc_le c2 (clk log y1)).
          { intros k. destruct (Z_le_gt_dec (gc_getd k c2) (gc_getd k (clk log y1))) as [H|H]; [exact H|].
            assert (vc_some_lt (clk log y1) c2) as Hs by (exists k; lia). apply existsb_some_lt in Hs. congruence. }
          destruct (T2 (ev_rep y1)) as (a & Ha & Hak). exists a. split; [exact Ha|].
          destruct (Hcomp a Ha) as [Hlt|Hgt]; [|exact Hgt]. exfalso.
          pose proof Ha as (HaD & Hae & _).
          pose proof (L5 a y1 (G2 a HaD) Ly1 ltac:(congruence) Hy1c Hlt) as Hst.
          assert (vc_lt c2 (clk log y1)) as Hc by (split; [exact Hle|exists (ev_rep y1); lia]).
          apply vc_lt_iff in Hc. congruence. }
      destruct Hw as (a0 & Ha0 & Hlt0).
      assert (HAu : forall a, inA log D2 e a -> vc_lt (clk log y1) (clk log a) -> inA log (D1 ++ D2) e a).
      { intros a (Ha & Hae & Hac & Hab) Hlt. split; [apply in_app_e; now right|]. split; [exact Hae|]. split; [exact Hac|].
        intros y Hy Hye Hyc. apply in_app_e in Hy as [Hy|Hy]; [|now apply Hab].
        destruct (Hdom1 y Hy Hye) as [->|Hyl]; [exact Hlt|eapply vc_lt_trans; eauto]. }
      assert (HAu' : forall a, inA log (D1 ++ D2) e a -> inA log D2 e a).
      { intros a (Ha & Hae & Hac & Hab). apply in_app_e in Ha as [Ha|Ha].
        - exfalso. destruct (Hdom1 a Ha Hae) as [->|Hlt]; [unfold addOp, remOp in *; congruence|].
          apply (vc_lt_irrefl (clk log a)). eapply vc_lt_trans; [exact Hlt|]. apply Hab; auto. apply in_app_e. now left.
        - split; [exact Ha|]. split; [exact Hae|]. split; [exact Hac|]. intros y Hy. apply Hab. apply in_app_e. now right. }
      assert (Hbelow : forall a, inA log D2 e a -> inA log (D1 ++ D2) e a \/ vc_lt (clk log a) (clk log a0)).
      { intros a Ha. destruct (Hcomp a Ha) as [Hlt|Hgt]; [right; eapply vc_lt_trans; eauto|left; now apply HAu]. }
      right. right. exists c2. split; [reflexivity|]. split; [|split].
      + intros a Ha. apply T1. now apply HAu'.
      + intros k. destruct (T2 k) as (a & Ha & Hak). destruct (Hbelow a Ha) as [Hin|Hlt]; [exists a; now split|].
        exists a0. split; [now apply HAu|]. destruct Hlt as [Hle _]. specialize (Hle k). pose proof (T1 a0 Ha0 k). lia.
      + intros x Hx Hxe. apply in_app_e in Hx as [Hx|Hx].
        * right. exists a0. split; [now apply HAu|]. destruct (Hdom1 x Hx Hxe) as [->|Hl]; [exact Hlt0|eapply vc_lt_trans; eauto].
        * destruct (T3 x Hx Hxe) as [Ha|(a & Ha & Hl)].
          -- destruct (Hbelow x Ha) as [Hin|Hl]; [now left|right]. exists a0. split; [now apply HAu|exact Hl].
          -- right. destruct (Hbelow a Ha) as [Hin|Hl2]; [exists a; now split|].
             exists a0. split; [now apply HAu|eapply vc_lt_trans; eauto].
  Qed.

  Lemma merge_rem_rem : forall y1 y2, topRem log D1 e y1 -> topRem log D2 e y2 ->
    desc log (D1 ++ D2) e (ment (Some (ERem (clk log y1))) (Some (ERem (clk log y2)))).
  Proof.
    intros y1 y2 (Hy1 & Hy1e & Hy1c & Hdom1) (Hy2 & Hy2e & Hy2c & Hdom2).
    pose proof (G1 y1 Hy1) as Ly1. pose proof (G2 y2 Hy2) as Ly2. pose proof HL as (L1 & L2 & L5).
    destruct (roL_clk_wf log y1 HL Ly1) as [W1 _]. destruct (roL_clk_wf log y2 HL Ly2) as [W2 _].
    assert (Hcase : forall ya yb Da Db, In ya Da -> elem_of ya = e -> cmd_of ya = remOp ->
              (forall x, In x Da -> elem_of x = e -> x = ya \/ vc_lt (clk log x) (clk log ya)) ->
              In yb Db -> elem_of yb = e -> cmd_of yb = remOp ->
              (forall x, In x Db -> elem_of x = e -> x = yb \/ vc_lt (clk log x) (clk log yb)) ->
              (ya = yb \/ vc_lt (clk log ya) (clk log yb)) ->
              forall x, In x Da \/ In x Db -> elem_of x = e -> x = yb \/ vc_lt (clk log x) (clk log yb)).
    { intros ya yb Da Db Ha Hae Hac Hda Hb Hbe Hbc Hdb Hab x [Hx|Hx] Hxe; [|now apply Hdb].
      destruct (Hda x Hx Hxe) as [->|Hl]; [exact Hab|right].
      destruct Hab as [->|Hl2]; [exact Hl|eapply vc_lt_trans; eauto]. }
    destruct (L2 y1 y2 Ly1 Ly2 ltac:(congruence) Hy2c) as [Heq|[Hlt|Hgt]].
    - subst y2. right. left. exists y1. split.
      + split; [apply in_app_e; now left|]. split; [exact Hy1e|]. split; [exact Hy1c|].
        intros x Hx. apply in_app_e in Hx. apply (Hcase y1 y1 D1 D2); auto.
      + cbn. now apply gc_merge_idem.
    - right. left. exists y2. split.
      + split; [apply in_app_e; now right|]. split; [exact Hy2e|]. split; [exact Hy2c|].
        intros x Hx. apply in_app_e in Hx. apply (Hcase y1 y2 D1 D2); auto.
      + cbn. apply (vc_lt_merge _ _ W1 W2 Hlt).
    - right. left. exists y1. split.
      + split; [apply in_app_e; now left|]. split; [exact Hy1e|]. split; [exact Hy1c|].
        intros x Hx. apply in_app_e in Hx. apply (Hcase y2 y1 D2 D1); auto. tauto.
      + cbn. apply (vc_lt_merge _ _ W2 W1 Hgt).
  Qed.

  Lemma merge_add_add : forall c1 c2, gc_wf c1 -> gc_wf c2 -> topAdd log D1 e c1 -> topAdd log D2 e c2 ->
    desc log (D1 ++ D2) e (ment (Some (EAdd c1)) (Some (EAdd c2))).
  Proof.
    intros c1 c2 W1 W2 (T1 & T2 & T3) (U1 & U2 & U3). pose proof HL as (L1 & L2 & L5).
    destruct (topAdd_nonempty log D1 e c1 (conj T1 (conj T2 T3))) as [b1 Hb1].
    destruct (topAdd_nonempty log D2 e c2 (conj U1 (conj U2 U3))) as [b2 Hb2].
    (* a member of one side's top adds is a top add of the union, or strictly below one *)
    assert (Hside : forall Da Db, genuine aw (Z * Z) log Da -> genuine aw (Z * Z) log Db ->
              (exists b, inA log Db e b) -> forall m, inA log Da e m ->
              (forall z, In z (D1 ++ D2) <-> In z Da \/ In z Db) ->
              inA log (D1 ++ D2) e m \/ exists a, inA log (D1 ++ D2) e a /\ vc_lt (clk log m) (clk log a)).
    { intros Da Db Ga Gb [b Hb] m (Hm & Hme & Hmc & Hmab) Hio.
      destruct (list_all_or_ex (fun y => elem_of y = e -> cmd_of y = remOp -> vc_lt (clk log y) (clk log m)) Db) as [Hall|(y & Hy & Hny)].
      { intros y. destruct (Z.eq_dec (elem_of y) e) as [E1|E1]; [|left; tauto].
        destruct (Z.eq_dec (cmd_of y) remOp) as [E2|E2]; [|left; tauto].
        destruct (vc_lt_dec (clk log y) (clk log m)) as [H|H]; [left; auto|right; auto]. }
      - left. split; [apply Hio; now left|]. split; [exact Hme|]. split; [exact Hmc|].
        intros y Hy Hye Hyc. apply Hio in Hy as [Hy|Hy]; [now apply Hmab|now apply Hall].
      - right. assert (Hye : elem_of y = e) by (destruct (Z.eq_dec (elem_of y) e); [assumption|exfalso; apply Hny; tauto]).
        assert (Hyc : cmd_of y = remOp) by (destruct (Z.eq_dec (cmd_of y) remOp); [assumption|exfalso; apply Hny; tauto]).
        assert (Hmy : vc_lt (clk log m) (clk log y)).
        { destruct (L2 m y (Ga m Hm) (Gb y Hy) ltac:(congruence) Hyc) as [->|[H|H]]; [unfold addOp, remOp in *; congruence|exact H|].
          exfalso. apply Hny. intros _ _. exact H. }
        pose proof Hb as (HbD & Hbe & Hbc & Hbab).
        assert (Hyb : vc_lt (clk log y) (clk log b)) by now apply Hbab.
        exists b. split; [|eapply vc_lt_trans; eauto].
        split; [apply Hio; now right|]. split; [exact Hbe|]. split; [exact Hbc|].
        intros z Hz Hze Hzc. apply Hio in Hz as [Hz|Hz]; [|now apply Hbab].
        eapply vc_lt_trans; [now apply Hmab|]. eapply vc_lt_trans; eauto. }
    assert (Hs1 : forall m, inA log D1 e m -> inA log (D1 ++ D2) e m \/ exists a, inA log (D1 ++ D2) e a /\ vc_lt (clk log m) (clk log a)).
    { intros m Hm. apply (Hside D1 D2 G1 G2 (ex_intro _ b2 Hb2) m Hm). intros z. apply in_app_e. }
    assert (Hs2 : forall m, inA log D2 e m -> inA log (D1 ++ D2) e m \/ exists a, inA log (D1 ++ D2) e a /\ vc_lt (clk log m) (clk log a)).
    { intros m Hm. apply (Hside D2 D1 G2 G1 (ex_intro _ b1 Hb1) m Hm). intros z. rewrite in_app_e. tauto. }
    assert (Hup : forall a, inA log (D1 ++ D2) e a -> vc_le (clk log a) (gc_merge c1 c2)).
    { intros a (Ha & Hae & Hac & Hab) k. rewrite gc_merge_getd by (try apply W1; assumption).
      apply in_app_e in Ha as [Ha|Ha].
      - assert (inA log D1 e a) as HA by (split; [exact Ha|split; [exact Hae|split; [exact Hac|intros y Hy; apply Hab; apply in_app_e; now left]]]).
        pose proof (T1 a HA k). lia.
      - assert (inA log D2 e a) as HA by (split; [exact Ha|split; [exact Hae|split; [exact Hac|intros y Hy; apply Hab; apply in_app_e; now right]]]).
        pose proof (U1 a HA k). lia. }
    cbn [ment]. right. right. exists (gc_merge c1 c2). split; [reflexivity|]. split; [exact Hup|split].
    - intros k. rewrite gc_merge_getd by (try apply W1; assumption).
      assert (Hatt : forall m (Hs : inA log (D1 ++ D2) e m \/ exists a, inA log (D1 ++ D2) e a /\ vc_lt (clk log m) (clk log a)),
                gc_getd k (clk log m) = Z.max (gc_getd k c1) (gc_getd k c2) ->
                exists a, inA log (D1 ++ D2) e a /\ Z.max (gc_getd k c1) (gc_getd k c2) = gc_getd k (clk log a)).
      { intros m [Hin|(a & Ha & Hlt)] Hk; [exists m; split; [exact Hin|now symmetry]|].
        exists a. split; [exact Ha|]. destruct Hlt as [Hle _]. specialize (Hle k). pose proof (Hup a Ha k) as Hu.
        rewrite gc_merge_getd in Hu by (try apply W1; assumption). lia. }
      destruct (Z.max_spec (gc_getd k c1) (gc_getd k c2)) as [[Hlt Hm]|[Hge Hm]].
      + destruct (U2 k) as (m & Hmm & Hmk). apply (Hatt m (Hs2 m Hmm)). lia.
      + destruct (T2 k) as (m & Hmm & Hmk). apply (Hatt m (Hs1 m Hmm)). lia.
    - intros x Hx Hxe. apply in_app_e in Hx as [Hx|Hx].
      + destruct (T3 x Hx Hxe) as [Ha|(m & Hm & Hl)]; [now apply Hs1|].
        right. destruct (Hs1 m Hm) as [Hin|(a & Ha & Hl2)]; [exists m; now split|exists a; split; [exact Ha|eapply vc_lt_trans; eauto]].
      + destruct (U3 x Hx Hxe) as [Ha|(m & Hm & Hl)]; [now apply Hs2|].
        right. destruct (Hs2 m Hm) as [Hin|(a & Ha & Hl2)]; [exists m; now split|exists a; split; [exact Ha|eapply vc_lt_trans; eauto]].
  Qed.
End Merge.

Lemma desc_wf_entry : forall log D e x, roL log -> genuine aw (Z * Z) log D -> ewf x -> desc log D e x -> True.
Proof. trivial. Qed.

Lemma desc_merge : forall log D1 D2 e x1 x2, roL log -> genuine aw (Z * Z) log D1 -> genuine aw (Z * Z) log D2 ->
  ewf x1 -> ewf x2 -> desc log D1 e x1 -> desc log D2 e x2 -> desc log (D1 ++ D2) e (ment x1 x2).
Proof.
  intros log D1 D2 e x1 x2 HL G1 G2 W1 W2 H1 H2.
  assert (Hrw : forall D y, genuine aw (Z * Z) log D -> topRem log D e y -> ewf (Some (ERem (clk log y)))).
  { intros D y G (Hy & _). cbn. apply (roL_clk_wf log y HL (G y Hy)). }
  destruct H1 as [[N1 ->]|[(y1 & Hy1 & E1)|(c1 & -> & T1)]].
  - (* nothing on the left *)
    cbn [ment]. apply (desc_ext log D2); [|exact H2]. intros z Hz. rewrite in_app_iff. split; [tauto|].
    intros [Hin|Hin]; [exfalso; now apply (N1 z Hin)|exact Hin].
  - destruct H2 as [[N2 ->]|[(y2 & Hy2 & E2)|(c2 & -> & T2)]].
    + replace (ment x1 None) with x1 by (destruct x1 as [[?|?]|]; reflexivity).
      apply (desc_ext log D1); [|right; left; eauto]. intros z Hz. rewrite in_app_iff. split; [tauto|].
      intros [Hin|Hin]; [exact Hin|exfalso; now apply (N2 z Hin)].
    + eapply desc_eqv; [apply (merge_rem_rem log HL D1 D2 e G1 G2 y1 y2 Hy1 Hy2)|].
      apply ent_eqv_sym. apply ment_eqv; eauto.
    + eapply desc_eqv; [apply (merge_rem_add log HL D1 D2 e G1 G2 y1 c2 Hy1 W2 T2)|].
      apply ent_eqv_sym. apply ment_eqv; eauto using ent_eqv_refl.
  - destruct H2 as [[N2 ->]|[(y2 & Hy2 & E2)|(c2 & -> & T2)]].
    + cbn [ment]. apply (desc_ext log D1); [|right; right; eauto]. intros z Hz. rewrite in_app_iff. split; [tauto|].
      intros [Hin|Hin]; [exact Hin|exfalso; now apply (N2 z Hin)].
    + (* add against remove: the symmetric case *)
      apply (desc_ext log (D2 ++ D1)); [intros z Hz; rewrite !in_app_iff; tauto|].
      eapply desc_eqv; [apply (merge_rem_add log HL D2 D1 e G2 G1 y2 c1 Hy2 W1 T1)|].
      eapply ent_eqv_trans; [|apply ment_comm; assumption].
      apply ent_eqv_sym. apply ment_eqv; eauto using ent_eqv_refl.
    + apply (merge_add_add log HL D1 D2 e G1 G2 c1 c2 W1 W2 T1 T2).
Qed.

Lemma roR_merge : forall log D1 s1 D2 s2, roL log -> roR log D1 s1 -> roR log D2 s2 ->
  genuine aw (Z * Z) log D1 -> genuine aw (Z * Z) log D2 -> roR log (D1 ++ D2) (aw_merge s1 s2).
Proof.
  intros log D1 s1 D2 s2 HL [W1 H1] [W2 H2] G1 G2. split; [now apply aw_merge_wf|].
  intros e. rewrite ent_merge by assumption. apply desc_merge; auto using ent_wf.
Qed.

(* ---------------------------------------------------------------- a write *)
Section ROWrite.
  Variables (log : aw_log) (D : list aw_ev) (s : aw) (r : Z) (cmd elem : Z).
  Hypothesis HL : roL log.
  Hypothesis HR : roR log D s.
  Hypothesis Hg : genuine aw (Z * Z) log D.
  Hypothesis Hpre : ropre log D r (cmd, elem) s.

  Let s' := aw_write r (cmd, elem) s.
  Let log' := fupd log r (log r ++ [(cmd, elem, s')]).
  Let z := mkEv r (List.length (log r)) (cmd, elem).
  Let cs := clock_of (ent elem s).

  Lemma rw_ext : extends aw (Z * Z) log log'.
  Proof. apply extends_write. Qed.

  Lemma rw_wf : aw_wf s.
  Proof. apply HR. Qed.

  Lemma rw_cs_wf : gc_wf cs.
  Proof. apply clock_of_wf. apply ent_wf. exact rw_wf. Qed.

  Lemma rw_nov : gc_getd r cs + 1 < 2147483648.
  Proof. destruct Hpre as [H _]. exact H. Qed.

  Lemma rw_post : post log' z = s'.
  Proof. unfold post, z, log'. cbn. rewrite fupd_same, nth_error_app2 by lia. now rewrite Nat.sub_diag. Qed.

  Lemma rw_logged_old : forall y, logged log' y -> y = z \/ logged log y.
  Proof.
    intros y [sy Hy]. unfold log' in Hy. destruct (Z.eq_dec (ev_rep y) r) as [Er|Ner].
    - rewrite Er, fupd_same in Hy.
      destruct (Nat.lt_ge_cases (ev_seq y) (List.length (log r))) as [Hlt|Hge].
      + right. exists sy. rewrite Er. now rewrite nth_error_app1 in Hy.
      + left. rewrite nth_error_app2 in Hy by assumption.
        destruct (ev_seq y - List.length (log r))%nat as [|n] eqn:En; [|destruct n; discriminate].
        cbn in Hy. inversion Hy. destruct y as [ry ky ay]. cbn in *. unfold z. f_equal; [assumption|lia|congruence].
    - right. rewrite fupd_other in Hy by assumption. now exists sy.
  Qed.

  Lemma rw_z_new : forall y, logged log y -> y <> z.
  Proof. intros y Hy ->. pose proof (logged_seq log z Hy) as H. unfold z in H. cbn in H. lia. Qed.

  Lemma rw_entry_z : entry_of log' z = Some (if cmd =? addOp then EAdd (vc_inc r cs) else ERem (vc_inc r cs)).
  Proof.
    unfold entry_of. rewrite rw_post. unfold elem_of, z. cbn [ev_arg snd]. unfold s'.
    rewrite (ent_write r cmd elem s elem rw_wf). rewrite Z.eqb_refl.
    destruct Hpre as (_ & [Hc|Hc] & _); cbn [fst] in Hc; subst cmd; reflexivity.
  Qed.

  Lemma rw_clk_z : clk log' z = vc_inc r cs.
  Proof. unfold clk. rewrite rw_entry_z. destruct (cmd =? addOp); reflexivity. Qed.

  Lemma rw_cs_lt_z : vc_lt cs (clk log' z) /\ gc_getd r cs < gc_getd r (clk log' z).
  Proof.
    rewrite rw_clk_z. split; [split|].
    - intros k. rewrite vc_inc_getd by (try apply rw_cs_wf; apply rw_nov). destruct (k =? r) eqn:E; [assert (k = r) by lia; subst; lia|lia].
    - exists r. rewrite vc_inc_getd by (try apply rw_cs_wf; apply rw_nov). rewrite Z.eqb_refl. lia.
    - rewrite vc_inc_getd by (try apply rw_cs_wf; apply rw_nov). rewrite Z.eqb_refl. lia.
  Qed.

  (* every delivered update of the element is (clock-wise) below or equal to the state's clock *)
  Lemma rw_state_above : forall x, In x D -> elem_of x = elem -> vc_le (clk log x) cs.
  Proof.
    intros x Hx Hxe. destruct HR as [_ H]. unfold cs.
    destruct (H elem) as [[Hn _]|[(y & (Hy & Hye & Hyc & Hdom) & E)|(c & E & (T1 & T2 & T3))]].
    - exfalso. now apply (Hn x Hx).
    - pose proof (clock_of_eqv _ _ E) as Ec. cbn [clock_of] in Ec.
      destruct (Hdom x Hx Hxe) as [->|Hlt].
      + intros k. rewrite (Ec k). lia.
      + intros k. rewrite (Ec k). apply Hlt.
    - rewrite E. cbn [clock_of]. destruct (T3 x Hx Hxe) as [Ha|(a & Ha & Hlt)]; [now apply T1|].
      intros k. pose proof (T1 a Ha k). destruct Hlt as [Hle _]. specialize (Hle k). lia.
  Qed.

  Lemma rw_below_z : forall x, In x D -> elem_of x = elem ->
    vc_lt (clk log' x) (clk log' z) /\ gc_getd r (clk log' x) < gc_getd r (clk log' z).
  Proof.
    intros x Hx Hxe. rewrite (clk_extends log log' x rw_ext (Hg x Hx)).
    pose proof (rw_state_above x Hx Hxe) as Hle. destruct rw_cs_lt_z as [Hlt Hr]. split.
    - eapply vc_le_lt_trans; eauto.
    - specialize (Hle r). lia.
  Qed.

  Lemma roL_write : roL log'.
  Proof.
    pose proof HL as (L1 & L2 & L5). destruct Hpre as (_ & Hcmd & Hrem & Hall).
    cbn [fst snd] in *.
    assert (Hzc : cmd_of z = cmd) by reflexivity. assert (Hze : elem_of z = elem) by reflexivity.
    (* which logged updates of the element are below the new one *)
    assert (Hbz : forall y, logged log y -> elem_of y = elem -> (cmd = remOp \/ cmd_of y = remOp) ->
                vc_lt (clk log' y) (clk log' z) /\ gc_getd r (clk log' y) < gc_getd r (clk log' z)).
    { intros y Hy Hye [Hc|Hc]; apply rw_below_z; auto. }
    split; [|split].
    - intros y Hy. destruct (rw_logged_old y Hy) as [->|Hy'].
      + rewrite rw_entry_z, Hzc. pose proof (vc_inc_wf r cs rw_cs_wf rw_nov) as Hiw.
        destruct Hcmd as [Hc|Hc]; rewrite Hc; [left|right]; (split; [reflexivity|]); cbn;
          eexists; (split; [reflexivity|]); exact Hiw.
      + rewrite (entry_extends log log' y rw_ext Hy'). now apply L1.
    - intros x y Hx Hy Hxy Hyc. destruct (rw_logged_old x Hx) as [->|Hx']; destruct (rw_logged_old y Hy) as [->|Hy'].
      + now left.
      + right. right. assert (Hye : elem_of y = elem) by (rewrite <- Hxy; reflexivity).
        destruct (Hbz y Hy' Hye (or_intror Hyc)) as [H _]. exact H.
      + right. left. assert (Hxe : elem_of x = elem) by (rewrite Hxy; reflexivity).
        assert (Hcr : cmd = remOp) by (rewrite <- Hzc; exact Hyc).
        destruct (Hbz x Hx' Hxe (or_introl Hcr)) as [H _]. exact H.
      + rewrite !(clk_extends log log' _ rw_ext) by assumption. now apply L2.
    - intros x y Hx Hy Hxy Hyc Hlt. destruct (rw_logged_old x Hx) as [->|Hx']; destruct (rw_logged_old y Hy) as [->|Hy'].
      + exfalso. now apply (vc_lt_irrefl (clk log' z)).
      + (* the new update is below no earlier remove *)
        exfalso. assert (Hye : elem_of y = elem) by (rewrite <- Hxy; reflexivity).
        destruct (Hbz y Hy' Hye (or_intror Hyc)) as [Hyz _].
        apply (vc_lt_irrefl (clk log' z)). eapply vc_lt_trans; eauto.
      + assert (Hxe : elem_of x = elem) by (rewrite Hxy; reflexivity).
        assert (Hcr : cmd = remOp) by (rewrite <- Hzc; exact Hyc).
        destruct (Hbz x Hx' Hxe (or_introl Hcr)) as [_ H]. exact H.
      + rewrite !(clk_extends log log' _ rw_ext) in * by assumption. now apply L5.
  Qed.

  Lemma roR_write : roR log' (z :: D) s'.
  Proof.
    destruct HR as [Hw H]. destruct Hpre as (Hov & Hcmd & Hrem & Hall). cbn [fst snd] in *. split.
    - apply aw_write_wf; [exact Hw|exact Hov].
    - intros e. destruct (Z.eq_dec e elem) as [->|Hne].
      + assert (Hent : ent elem s' = entry_of log' z) by (unfold entry_of; now rewrite rw_post).
        rewrite Hent, rw_entry_z. destruct Hcmd as [Hc|Hc]; rewrite Hc; cbn.
        * (* an add: it is above every delivered update of the element, so it is the only top add *)
          right. right. exists (vc_inc r cs). split; [reflexivity|].
          assert (HzA : inA log' (z :: D) elem z).
          { split; [now left|]. split; [reflexivity|]. split; [exact Hc|].
            intros y [<-|Hy] Hye Hyc; [unfold cmd_of, z in Hyc; cbn in Hyc; unfold addOp, remOp in *; congruence|].
            now apply rw_below_z. }
          assert (Hbel : forall x, In x D -> elem_of x = elem -> vc_lt (clk log' x) (clk log' z)) by (intros; now apply rw_below_z).
          rewrite <- rw_clk_z. split; [|split].
          -- intros a (Ha & Hae & _). destruct Ha as [<-|Ha]; [intros k; lia|]. apply vc_lt_le. now apply Hbel.
          -- intros k. exists z. split; [exact HzA|reflexivity].
          -- intros x [<-|Hx] Hxe; [now left|right]. exists z. split; [exact HzA|now apply Hbel].
        * (* a remove: every update of the element was delivered, it dominates them all *)
          right. left. exists z. split; [|rewrite rw_clk_z; apply ent_eqv_refl].
          split; [now left|]. split; [reflexivity|]. split; [exact Hc|].
          intros x [<-|Hx] Hxe; [now left|right]. now apply rw_below_z.
      + assert (Hent : ent e s' = ent e s).
        { unfold s'. rewrite (ent_write r cmd elem s e Hw). destruct (e =? elem) eqn:E; [lia|reflexivity]. }
        rewrite Hent. apply (desc_ext log' D); [intros x Hx; split; [now right|intros [<-|Hin]; [unfold elem_of, z in Hx; cbn in Hx; congruence|exact Hin]]|].
        apply (desc_extends log log' D e _ rw_ext Hg). apply H.
  Qed.
End ROWrite.

Theorem aw_ro_inv : forall ops, aw_removes_ordered ops ->
  let st := fst (aw_xrun ops) in let g := snd (aw_xrun ops) in
  roL (g_log g) /\ forall r, roR (g_log g) (g_dl g r) (reps st r).
Proof.
  intros ops Hv.
  destruct (liftx aw (Z * Z) aw_init aw_write aw_merge aw_hop ropre roR roL) with (ops := ops) as (HL & HR & _); auto.
  - exact roL_init.
  - intros log D s r [cmd elem] HL HR Hg _ _ Hpre. now apply (roL_write log D s r cmd elem).
  - exact roR_init.
  - exact roR_mono.
  - intros log D s r [cmd elem] HL HR Hg _ _ Hpre. now apply (roR_write log D s r cmd elem).
  - exact roR_merge.
  - exact roR_hop.
Qed.

(* ---------------------------------------------------------------- consequences *)
Lemma desc_unique : forall log D e x1 x2, roL log -> genuine aw (Z * Z) log D ->
  desc log D e x1 -> desc log D e x2 -> ent_eqv x1 x2.
Proof.
  intros log D e x1 x2 HL G H1 H2.
  assert (Hra : forall y c, topRem log D e y -> topAdd log D e c -> False).
  { intros y c (Hy & Hye & Hyc & Hdom) T. destruct (topAdd_nonempty log D e c T) as (a & Ha & Hae & Hac & Hab).
    pose proof (Hab y Hy Hye Hyc) as Hlt. destruct (Hdom a Ha Hae) as [->|Hlt2].
    - unfold addOp, remOp in *. congruence.
    - apply (vc_lt_irrefl (clk log a)). eapply vc_lt_trans; eauto. }
  destruct H1 as [[N1 ->]|[(y1 & Hy1 & E1)|(c1 & -> & T1)]]; destruct H2 as [[N2 ->]|[(y2 & Hy2 & E2)|(c2 & -> & T2)]].
  - exact I.
  - exfalso. destruct Hy2 as (Hy & Hye & _). now apply (N1 y2 Hy).
  - exfalso. destruct (topAdd_nonempty log D e c2 T2) as (a & Ha & Hae & _). now apply (N1 a Ha).
  - exfalso. destruct Hy1 as (Hy & Hye & _). now apply (N2 y1 Hy).
  - assert (y1 = y2) as ->.
    { destruct Hy1 as (Hy1 & Hy1e & _ & Hd1). destruct Hy2 as (Hy2 & Hy2e & _ & Hd2).
      destruct (Hd1 y2 Hy2 Hy2e) as [->|Hl1]; [reflexivity|]. destruct (Hd2 y1 Hy1 Hy1e) as [->|Hl2]; [reflexivity|].
      exfalso. apply (vc_lt_irrefl (clk log y1)). eapply vc_lt_trans; eauto. }
    eapply ent_eqv_trans; [exact E1|apply ent_eqv_sym, E2].
  - exfalso. eapply Hra; eauto.
  - exfalso. destruct (topAdd_nonempty log D e c1 T1) as (a & Ha & Hae & _). now apply (N2 a Ha).
  - exfalso. eapply Hra; eauto.
  - cbn. destruct T1 as (A1 & A2 & _). destruct T2 as (B1 & B2 & _). intros k.
    destruct (A2 k) as (a & Ha & Hak). destruct (B2 k) as (b & Hb & Hbk).
    pose proof (B1 a Ha k). pose proof (A1 b Hb k). lia.
Qed.

Theorem aw_ro_convergence : forall ops r1 r2, aw_removes_ordered ops ->
  same_updates (aw_delivered ops r1) (aw_delivered ops r2) ->
  aw_eqv (reps (aw_run ops) r1) (reps (aw_run ops) r2) /\
  forall e, In e (aw_read (reps (aw_run ops) r1)) <-> In e (aw_read (reps (aw_run ops) r2)).
Proof.
  intros ops r1 r2 Hv Hs. destruct (aw_ro_inv ops Hv) as [HL H]. cbn zeta in HL, H.
  pose proof (ghost_inv aw (Z * Z) aw_init aw_write aw_merge aw_hop ops) as [Gr _].
  unfold aw_run. rewrite <- (xrun_fst aw (Z * Z) aw_init aw_write aw_merge aw_hop). unfold Model.delivered in Hs.
  destruct (H r1) as [W1 H1]. destruct (H r2) as [W2 H2]. destruct (Gr r1) as (G1 & _). destruct (Gr r2) as (G2 & _).
  assert (E : aw_eqv (reps (fst (aw_xrun ops)) r1) (reps (fst (aw_xrun ops)) r2)).
  { intros e. apply (desc_unique (g_log (snd (aw_xrun ops))) (g_dl (snd (aw_xrun ops)) r1) e); auto.
    eapply desc_ext; [|apply H2]. intros z _. split; apply Hs. }
  split; [exact E|]. now apply aw_read_eqv.
Qed.

(* read semantics: e is read iff some delivered add of e is above every delivered remove of e
   (the add was not observed by any delivered remove) *)
Theorem aw_ro_read : forall ops r e, aw_removes_ordered ops ->
  let log := g_log (snd (aw_xrun ops)) in
  In e (aw_read (reps (aw_run ops) r)) <-> exists a, inA log (aw_delivered ops r) e a.
Proof.
  intros ops r e Hv. cbn zeta. destruct (aw_ro_inv ops Hv) as [HL H]. cbn zeta in HL, H.
  pose proof (ghost_inv aw (Z * Z) aw_init aw_write aw_merge aw_hop ops) as [Gr _].
  unfold aw_run. rewrite <- (xrun_fst aw (Z * Z) aw_init aw_write aw_merge aw_hop). unfold Model.delivered.
  destruct (H r) as [W Hr]. destruct (Gr r) as (G & _). rewrite aw_read_in by assumption.
  destruct (Hr e) as [[N E]|[(y & Hy & E)|(c & E & T)]].
  - rewrite E. split; [intros [c Hc]; discriminate|]. intros (a & Ha & Hae & _). exfalso. now apply (N a Ha).
  - split.
    + intros [c Hc]. rewrite Hc in E. cbn in E. contradiction.
    + intros (a & Ha & Hae & Hac & Hab). exfalso. destruct Hy as (Hy & Hye & Hyc & Hdom).
      pose proof (Hab y Hy Hye Hyc) as Hlt. destruct (Hdom a Ha Hae) as [->|Hlt2]; [unfold addOp, remOp in *; congruence|].
      apply (vc_lt_irrefl (clk (g_log (snd (aw_xrun ops))) a)). eapply vc_lt_trans; eauto.
  - split; [intros _; now apply (topAdd_nonempty _ _ _ c)|intros _; eauto].
Qed.

(* the class contains the sequential histories of ProofsAWSeq *)
Lemma validx_impl : forall (p q : aw_log -> list aw_ev -> Z -> Z * Z -> aw -> Prop) ops,
  (forall log D r a s, p log D r a s -> q log D r a s) ->
  validx aw (Z * Z) aw_init aw_write aw_merge aw_hop p ops -> validx aw (Z * Z) aw_init aw_write aw_merge aw_hop q ops.
Proof. intros p q ops Hpq H ops1 r a ops2 E. apply Hpq. now apply (H ops1 r a ops2). Qed.

Theorem aw_sequential_removes_ordered : forall ops, aw_sequential ops -> aw_removes_ordered ops.
Proof.
  intros ops. apply validx_impl. intros log D r a s (H1 & H2 & H3). split; [exact H1|]. split; [exact H2|]. split.
  - intros y Hy Hye _. now apply H3.
  - intros _ y Hy Hye. now apply H3.
Qed.
