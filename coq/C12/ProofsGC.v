(* C12 — GCounter: semilattice laws on all well-formed states, up to the order-insensitive
   equivalence gc_eqv; every operation respects gc_eqv (so the iteration order of the Go map
   does not matter); read = sum of the entries; gob preserves the state. *)
From PGV Require Import C12.Model C12.ProofsAL.
From Coq Require Import Lia ZifyBool.
Open Scope Z_scope.

Definition gc_nn (c : gc) : Prop := forall k, 0 <= gc_getd k c.
Definition gc_wf (c : gc) : Prop := NoDup (keys c) /\ gc_nn c.
Definition gc_eqv (a b : gc) : Prop := forall k, gc_getd k a = gc_getd k b.

Lemma gc_eqv_refl : forall a, gc_eqv a a.
Proof. intros a k. reflexivity. Qed.
Lemma gc_eqv_sym : forall a b, gc_eqv a b -> gc_eqv b a.
Proof. intros a b H k. symmetry. apply H. Qed.
Lemma gc_eqv_trans : forall a b c, gc_eqv a b -> gc_eqv b c -> gc_eqv a c.
Proof. intros a b c H1 H2 k. rewrite H1. apply H2. Qed.

Lemma gc_wf_init : gc_wf gc_init.
Proof. split; [constructor|]. intros k. cbn. lia. Qed.

Lemma gc_getd_set : forall c k k' v, gc_getd k (set k' v c) = if k =? k' then v else gc_getd k c.
Proof. intros. unfold gc_getd. rewrite get_set. destruct (k =? k'); reflexivity. Qed.

Lemma gc_getd_notin : forall c k, ~ In k (keys c) -> gc_getd k c = 0.
Proof. intros c k H. unfold gc_getd. apply get_None_notin in H. now rewrite H. Qed.

Lemma gc_getd_cons : forall k k0 v0 (r : gc), gc_getd k ((k0, v0) :: r) = if k =? k0 then v0 else gc_getd k r.
Proof. intros. unfold gc_getd. cbn. destruct (k =? k0); reflexivity. Qed.

(* ---- merge is the pointwise maximum *)
Lemma gc_merge_step_getd : forall c k0 v0 k, gc_nn c -> 0 <= v0 ->
  gc_getd k (gc_merge_step c (k0, v0)) = if k =? k0 then Z.max (gc_getd k0 c) v0 else gc_getd k c.
Proof.
  intros c k0 v0 k Hc Hv. unfold gc_merge_step. cbn [fst snd].
  specialize (Hc k0). unfold gc_getd in Hc |- * at 2.
  destruct (get k0 c) as [v|] eqn:G.
  - destruct (v <? v0) eqn:L.
    + rewrite gc_getd_set. destruct (k =? k0); [lia|reflexivity].
    + destruct (k =? k0) eqn:E; [|reflexivity].
      assert (k = k0) by lia. subst. unfold gc_getd. rewrite G. lia.
  - rewrite gc_getd_set. destruct (k =? k0); [lia|reflexivity].
Qed.

Lemma gc_merge_step_nn : forall c kv, gc_nn c -> 0 <= snd kv -> gc_nn (gc_merge_step c kv).
Proof.
  intros c [k0 v0] Hc Hv k. cbn in Hv. rewrite gc_merge_step_getd by assumption.
  destruct (k =? k0); [specialize (Hc k0); lia|apply Hc].
Qed.

Lemma gc_merge_step_nodup : forall c kv, NoDup (keys c) -> NoDup (keys (gc_merge_step c kv)).
Proof.
  intros c [k0 v0] H. unfold gc_merge_step. cbn [fst snd].
  destruct (get k0 c); [destruct (_ <? _)|]; auto using nodup_set.
Qed.

Lemma gc_nn_tail : forall k0 v0 (r : gc), NoDup (keys ((k0, v0) :: r)) -> gc_nn ((k0, v0) :: r) -> 0 <= v0 /\ gc_nn r.
Proof.
  intros k0 v0 r Hnd Hnn. inversion Hnd as [|? ? Hnotin Hnd']; subst. split.
  - specialize (Hnn k0). rewrite gc_getd_cons, Z.eqb_refl in Hnn. exact Hnn.
  - intros k. specialize (Hnn k). rewrite gc_getd_cons in Hnn.
    destruct (k =? k0) eqn:E; [|exact Hnn].
    assert (k = k0) by lia. subst. rewrite gc_getd_notin by assumption. lia.
Qed.

Lemma gc_merge_getd : forall b a k, gc_nn a -> gc_wf b ->
  gc_getd k (gc_merge a b) = Z.max (gc_getd k a) (gc_getd k b).
Proof.
  induction b as [|[k0 v0] r IH]; intros a k Ha [Hnd Hnn].
  - cbn. specialize (Ha k). lia.
  - destruct (gc_nn_tail _ _ _ Hnd Hnn) as [Hv Hr].
    inversion Hnd as [|? ? Hnotin Hnd']; subst.
    unfold gc_merge. cbn [fold_left]. fold (gc_merge (gc_merge_step a (k0, v0)) r).
    rewrite IH; [|apply gc_merge_step_nn; assumption|split; assumption].
    rewrite gc_merge_step_getd by assumption. rewrite gc_getd_cons.
    destruct (k =? k0) eqn:E; [|reflexivity].
    assert (k = k0) by lia. subst. rewrite (gc_getd_notin r) by assumption.
    specialize (Ha k0). lia.
Qed.

Lemma gc_merge_nn : forall b a, gc_nn a -> gc_wf b -> gc_nn (gc_merge a b).
Proof.
  intros b a Ha Hb k. rewrite gc_merge_getd by assumption. specialize (Ha k). lia.
Qed.

Lemma gc_merge_nodup : forall b a, NoDup (keys a) -> NoDup (keys (gc_merge a b)).
Proof.
  induction b as [|kv r IH]; intros a Ha; cbn; [assumption|].
  apply IH. apply gc_merge_step_nodup. assumption.
Qed.

Lemma gc_merge_wf : forall a b, gc_wf a -> gc_wf b -> gc_wf (gc_merge a b).
Proof.
  intros a b [Ha1 Ha2] Hb. split; [apply gc_merge_nodup; assumption|apply gc_merge_nn; assumption].
Qed.

(* ---- the semilattice laws *)
Lemma gc_merge_comm : forall a b, gc_wf a -> gc_wf b -> gc_eqv (gc_merge a b) (gc_merge b a).
Proof.
  intros a b Ha Hb k. rewrite !gc_merge_getd by (try apply Ha; try apply Hb; assumption). lia.
Qed.

Lemma gc_merge_assoc : forall a b c, gc_wf a -> gc_wf b -> gc_wf c ->
  gc_eqv (gc_merge (gc_merge a b) c) (gc_merge a (gc_merge b c)).
Proof.
  intros a b c Ha Hb Hc k.
  assert (Hab := gc_merge_wf a b Ha Hb). assert (Hbc := gc_merge_wf b c Hb Hc).
  rewrite (gc_merge_getd c) by (try apply Hab; assumption).
  rewrite (gc_merge_getd (gc_merge b c)) by (try apply Ha; assumption).
  rewrite !gc_merge_getd by (try apply Ha; try apply Hb; assumption). lia.
Qed.

Lemma gc_merge_idem : forall a, gc_wf a -> gc_eqv (gc_merge a a) a.
Proof. intros a Ha k. rewrite gc_merge_getd by (try apply Ha; assumption). lia. Qed.

Lemma gc_merge_eqv : forall a a' b b', gc_wf a -> gc_wf a' -> gc_wf b -> gc_wf b' ->
  gc_eqv a a' -> gc_eqv b b' -> gc_eqv (gc_merge a b) (gc_merge a' b').
Proof.
  intros a a' b b' Ha Ha' Hb Hb' E1 E2 k.
  rewrite !gc_merge_getd by (try apply Ha; try apply Ha'; assumption). rewrite E1, E2. reflexivity.
Qed.

(* ---- write *)
Lemma gc_write_getd : forall id v c k,
  gc_getd k (gc_write id v c) = if k =? id then wrap32 (gc_getd id c + v) else gc_getd k c.
Proof. intros. unfold gc_write. apply gc_getd_set. Qed.

(* precondition of an increment: non-negative and no int32 overflow *)
Definition gc_wpre (id v : Z) (c : gc) : Prop := 0 <= v /\ gc_getd id c + v < 2147483648.

Lemma gc_write_getd_pre : forall id v c k, gc_nn c -> gc_wpre id v c ->
  gc_getd k (gc_write id v c) = if k =? id then gc_getd id c + v else gc_getd k c.
Proof.
  intros id v c k Hc [Hv Hov]. rewrite gc_write_getd. destruct (k =? id); [|reflexivity].
  apply wrap32_id. specialize (Hc id). lia.
Qed.

Lemma gc_write_wf : forall id v c, gc_wf c -> gc_wpre id v c -> gc_wf (gc_write id v c).
Proof.
  intros id v c [Hnd Hnn] Hpre. split.
  - apply nodup_set. assumption.
  - intros k. rewrite gc_write_getd_pre by assumption. destruct Hpre as [Hv _].
    destruct (k =? id); [specialize (Hnn id); lia|apply Hnn].
Qed.

Lemma gc_write_inflationary : forall id v c, gc_wf c -> gc_wpre id v c ->
  gc_eqv (gc_merge c (gc_write id v c)) (gc_write id v c).
Proof.
  intros id v c Hc Hpre k. assert (Hw := gc_write_wf id v c Hc Hpre).
  rewrite gc_merge_getd by (try apply Hc; assumption).
  rewrite gc_write_getd_pre by (try apply Hc; assumption). destruct Hpre as [Hv _].
  destruct (k =? id) eqn:E; [|lia]. assert (k = id) by lia. subst. lia.
Qed.

Lemma gc_write_eqv : forall id v a b, gc_eqv a b -> gc_eqv (gc_write id v a) (gc_write id v b).
Proof. intros id v a b E k. rewrite !gc_write_getd. rewrite (E id), (E k). reflexivity. Qed.

(* ---- read *)
Definition gc_total (c : gc) : Z := fold_right (fun kv acc => snd kv + acc) 0 c.

Lemma wrap32_wrap32_add : forall a b, wrap32 (wrap32 a + b) = wrap32 (a + b).
Proof.
  intros a b. unfold wrap32. f_equal.
  replace ((a + 2147483648) mod 4294967296 - 2147483648 + b + 2147483648)
    with ((a + 2147483648) mod 4294967296 + b) by lia.
  rewrite Zplus_mod_idemp_l. f_equal. lia.
Qed.

Lemma gc_read_fold : forall c acc,
  fold_left (fun acc kv => wrap32 (acc + snd kv)) c (wrap32 acc) = wrap32 (acc + gc_total c).
Proof.
  induction c as [|[k v] r IH]; intros acc.
  - cbn. f_equal. lia.
  - change (gc_total ((k, v) :: r)) with (v + gc_total r). cbn [fold_left snd].
    rewrite wrap32_wrap32_add. rewrite IH. f_equal. lia.
Qed.

Lemma gc_read_total : forall c, gc_read c = wrap32 (gc_total c).
Proof.
  intros c. unfold gc_read. change 0 with (wrap32 0) at 1. rewrite gc_read_fold. reflexivity.
Qed.

Lemma gc_total_del : forall c k, NoDup (keys c) -> gc_total c = gc_getd k c + gc_total (del k c).
Proof.
  induction c as [|[k0 v0] r IH]; intros k Hnd.
  - cbn. reflexivity.
  - inversion Hnd as [|? ? Hnotin Hnd']; subst. rewrite gc_getd_cons. cbn [del gc_total fold_right snd].
    destruct (k =? k0) eqn:E.
    + assert (k = k0) by lia. subst. fold (gc_total r). fold (gc_total (del k0 r)).
      rewrite (IH k0 Hnd'). rewrite gc_getd_notin by assumption. lia.
    + cbn [gc_total fold_right snd]. fold (gc_total r). fold (gc_total (del k r)). rewrite (IH k Hnd'). lia.
Qed.

Lemma gc_getd_del : forall c k k', gc_getd k (del k' c) = if k =? k' then 0 else gc_getd k c.
Proof. intros. unfold gc_getd. rewrite get_del. destruct (k =? k'); reflexivity. Qed.

Lemma gc_total_eqv : forall a b, NoDup (keys a) -> NoDup (keys b) -> gc_eqv a b -> gc_total a = gc_total b.
Proof.
  induction a as [|[k0 v0] r IH]; intros b Ha Hb E.
  - (* b has only zero entries *)
    clear Ha. induction b as [|[k1 v1] b IHb]; [reflexivity|].
    inversion Hb as [|? ? Hnotin Hb']; subst. cbn [gc_total fold_right snd]. fold (gc_total b).
    assert (v1 = 0) as ->.
    { specialize (E k1). rewrite gc_getd_cons, Z.eqb_refl in E. cbn in E. lia. }
    rewrite <- IHb; [reflexivity|assumption|].
    intros k. specialize (E k). rewrite gc_getd_cons in E. cbn in E |- *.
    destruct (k =? k1) eqn:E1; [|exact E]. assert (k = k1) by lia. subst.
    rewrite gc_getd_notin by assumption. reflexivity.
  - inversion Ha as [|? ? Hnotin Ha']; subst.
    rewrite (gc_total_del b k0 Hb). cbn [gc_total fold_right snd]. fold (gc_total r).
    rewrite <- (E k0). rewrite gc_getd_cons, Z.eqb_refl. f_equal.
    apply IH; [assumption|apply nodup_del; assumption|].
    intros k. rewrite gc_getd_del. specialize (E k). rewrite gc_getd_cons in E.
    destruct (k =? k0) eqn:E1; [|exact E]. assert (k = k0) by lia. subst.
    apply gc_getd_notin. assumption.
Qed.

Lemma gc_read_eqv : forall a b, gc_wf a -> gc_wf b -> gc_eqv a b -> gc_read a = gc_read b.
Proof.
  intros a b [Ha _] [Hb _] E. rewrite !gc_read_total. f_equal. apply gc_total_eqv; assumption.
Qed.

(* ---- gob *)
Lemma gc_hop_get : forall c k, NoDup (keys c) -> get k (gc_hop c) = get k c.
Proof. intros c k H. unfold gc_hop, gc_decode, gc_encode. apply get_build. assumption. Qed.

Lemma gc_hop_eqv : forall c, gc_wf c -> gc_eqv (gc_hop c) c.
Proof. intros c [H _] k. unfold gc_getd. rewrite gc_hop_get by assumption. reflexivity. Qed.

Lemma gc_hop_wf : forall c, gc_wf c -> gc_wf (gc_hop c).
Proof.
  intros c Hc. split.
  - apply nodup_build.
  - intros k. rewrite gc_hop_eqv by assumption. apply Hc.
Qed.
