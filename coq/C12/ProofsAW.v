(* C12 — AWORSet (aworset.go): what holds and what does not.
   Holds on all well-formed states (every reachable state is): compare is the vector-clock order
   whatever the iteration order; Merge is commutative and idempotent; a local update is inflationary;
   Read lists the elements of the add map; gob preserves the state.
   Does not hold: associativity and strong convergence (refuted by concrete reachable witnesses,
   replayed on the Go code: corpus/C12/aworset_witness.json). *)
From PGV Require Import C12.Model C12.ProofsAL C12.ProofsGC C12.ProofsSys.
From Coq Require Import Lia ZifyBool.
Open Scope Z_scope.

(* ---------------------------------------------------------------- compare *)
Definition cls (lt gt : bool) : cmpres :=
  match lt, gt with
  | false, false => EQ
  | true, false => LT
  | false, true => GT
  | true, true => CC
  end.

Lemma cmp_step_cls : forall lt gt v1 v2,
  cmp_step (cls lt gt) v1 v2 = cls (lt || (v1 <? v2)) (gt || (v2 <? v1)).
Proof.
  intros [|] [|] v1 v2; cbn; destruct (v2 <? v1) eqn:E1; destruct (v1 <? v2) eqn:E2; cbn; try reflexivity; lia.
Qed.

Lemma cmp_fold_cls : forall (f g : Z -> Z) K lt gt,
  fold_left (fun res k => cmp_step res (f k) (g k)) K (cls lt gt) =
  cls (lt || existsb (fun k => f k <? g k) K) (gt || existsb (fun k => g k <? f k) K).
Proof.
  induction K as [|k K IH]; intros lt gt; cbn [fold_left existsb].
  - now rewrite !orb_false_r.
  - rewrite cmp_step_cls, IH. now rewrite !orb_assoc.
Qed.

Definition vc_some_lt (a b : vclock) : Prop := exists k, gc_getd k a < gc_getd k b.

Lemma existsb_some_lt : forall a b,
  existsb (fun k => gc_getd k a <? gc_getd k b) (keys a ++ keys b) = true <-> vc_some_lt a b.
Proof.
  intros a b. rewrite existsb_exists. split.
  - intros (k & _ & Hk). exists k. lia.
  - intros (k & Hk). exists k. split; [|lia]. apply in_or_app.
    destruct (in_dec Z.eq_dec k (keys a)) as [Ha|Ha]; [now left|].
    destruct (in_dec Z.eq_dec k (keys b)) as [Hb|Hb]; [now right|].
    rewrite (gc_getd_notin a k Ha), (gc_getd_notin b k Hb) in Hk. lia.
Qed.

Lemma vc_compare_cls : forall a b,
  vc_compare a b = cls (existsb (fun k => gc_getd k a <? gc_getd k b) (keys a ++ keys b))
                       (existsb (fun k => gc_getd k b <? gc_getd k a) (keys a ++ keys b)).
Proof. intros a b. unfold vc_compare. change EQ with (cls false false). now rewrite cmp_fold_cls. Qed.

(* compare a b = LT iff a <= b pointwise and a <> b: the vector-clock order, independent of the
   iteration order of both maps and of the key builder *)
Lemma is_LT_spec : forall a b, is_LT (vc_compare a b) = true <-> vc_some_lt a b /\ ~ vc_some_lt b a.
Proof.
  intros a b. rewrite vc_compare_cls.
  assert (Hsw : existsb (fun k => gc_getd k b <? gc_getd k a) (keys a ++ keys b) = true <-> vc_some_lt b a).
  { rewrite <- existsb_some_lt. rewrite !existsb_exists. split; intros (k & Hk & Hl); exists k; (split; [|exact Hl]);
      apply in_app_or in Hk; apply in_or_app; tauto. }
  pose proof (existsb_some_lt a b) as Hlt.
  set (x := existsb (fun k => gc_getd k a <? gc_getd k b) (keys a ++ keys b)) in *.
  set (y := existsb (fun k => gc_getd k b <? gc_getd k a) (keys a ++ keys b)) in *.
  destruct x; destruct y; cbn; intuition congruence.
Qed.

Lemma some_lt_eqv : forall a a' b b', gc_eqv a a' -> gc_eqv b b' -> vc_some_lt a b <-> vc_some_lt a' b'.
Proof. intros a a' b b' Ea Eb. unfold vc_some_lt. split; intros [k Hk]; exists k; rewrite ?(Ea k), ?(Eb k) in *; lia. Qed.

Lemma is_LT_eqv : forall a a' b b', gc_eqv a a' -> gc_eqv b b' ->
  is_LT (vc_compare a b) = is_LT (vc_compare a' b').
Proof.
  intros a a' b b' Ea Eb.
  pose proof (is_LT_spec a b) as H1. pose proof (is_LT_spec a' b') as H2.
  pose proof (some_lt_eqv a a' b b' Ea Eb) as H3. pose proof (some_lt_eqv b b' a a' Eb Ea) as H4.
  destruct (is_LT (vc_compare a b)); destruct (is_LT (vc_compare a' b')); try reflexivity; exfalso; intuition congruence.
Qed.

(* ---------------------------------------------------------------- entries *)
Inductive entry := EAdd (c : vclock) | ERem (c : vclock).

Definition ent (e : Z) (s : aw) : option entry :=
  match get e (aw_add s) with
  | Some a => Some (EAdd a)
  | None => match get e (aw_rem s) with Some r => Some (ERem r) | None => None end
  end.

Definition aw_wf (s : aw) : Prop :=
  NoDup (keys (aw_add s)) /\ NoDup (keys (aw_rem s)) /\
  (forall e, get e (aw_add s) = None \/ get e (aw_rem s) = None) /\
  (forall e c, get e (aw_add s) = Some c \/ get e (aw_rem s) = Some c -> gc_wf c).

Definition ent_eqv (x y : option entry) : Prop :=
  match x, y with
  | None, None => True
  | Some (EAdd a), Some (EAdd b) => gc_eqv a b
  | Some (ERem a), Some (ERem b) => gc_eqv a b
  | _, _ => False
  end.

(* state equivalence: every element has the same polarity and an equivalent clock *)
Definition aw_eqv (a b : aw) : Prop := forall e, ent_eqv (ent e a) (ent e b).

Lemma ent_eqv_refl : forall x, ent_eqv x x.
Proof. intros [[c|c]|]; cbn; auto using gc_eqv_refl. Qed.
Lemma ent_eqv_sym : forall x y, ent_eqv x y -> ent_eqv y x.
Proof. intros [[a|a]|] [[b|b]|]; cbn; auto using gc_eqv_sym. Qed.
Lemma ent_eqv_trans : forall x y z, ent_eqv x y -> ent_eqv y z -> ent_eqv x z.
Proof. intros [[a|a]|] [[b|b]|] [[c|c]|]; cbn; try tauto; eauto using gc_eqv_trans. Qed.

Lemma aw_eqv_refl : forall a, aw_eqv a a.
Proof. intros a e. apply ent_eqv_refl. Qed.
Lemma aw_eqv_sym : forall a b, aw_eqv a b -> aw_eqv b a.
Proof. intros a b H e. apply ent_eqv_sym, H. Qed.
Lemma aw_eqv_trans : forall a b c, aw_eqv a b -> aw_eqv b c -> aw_eqv a c.
Proof. intros a b c H1 H2 e. eapply ent_eqv_trans; [apply H1|apply H2]. Qed.

Definition ewf (x : option entry) : Prop :=
  match x with Some (EAdd c) | Some (ERem c) => gc_wf c | None => True end.

Lemma ent_wf : forall s e, aw_wf s -> ewf (ent e s).
Proof.
  intros s e (_ & _ & _ & Hc). unfold ent.
  destruct (get e (aw_add s)) eqn:G1; cbn; [apply (Hc e); now left|].
  destruct (get e (aw_rem s)) eqn:G2; cbn; [apply (Hc e); now right|exact I].
Qed.

(* the per-element merge function the code implements *)
Definition ment (x y : option entry) : option entry :=
  match x, y with
  | None, y => y
  | x, None => x
  | Some (EAdd a), Some (EAdd b) => Some (EAdd (gc_merge a b))
  | Some (ERem a), Some (ERem b) => Some (ERem (gc_merge a b))
  | Some (EAdd a), Some (ERem r) => if is_LT (vc_compare a r) then Some (ERem r) else Some (EAdd a)
  | Some (ERem r), Some (EAdd a) => if is_LT (vc_compare a r) then Some (ERem r) else Some (EAdd a)
  end.

Lemma merge_keys_nodup : forall b a, NoDup (keys a) -> NoDup (keys (merge_keys a b)).
Proof.
  induction b as [|[k v] b IH]; intros a Ha; cbn; [assumption|]. apply IH.
  unfold merge_keys_step. cbn [fst snd]. destruct (get k a); now apply nodup_set.
Qed.

Lemma merge_keys_get : forall b a e, NoDup (keys b) ->
  get e (merge_keys a b) =
  match get e a, get e b with
  | Some x, Some y => Some (gc_merge x y)
  | Some x, None => Some x
  | None, y => y
  end.
Proof.
  induction b as [|[k v] b IH]; intros a e Hnd.
  - cbn. destruct (get e a); reflexivity.
  - inversion Hnd as [|? ? Hni Hnd']; subst. unfold merge_keys. cbn [fold_left].
    fold (merge_keys (merge_keys_step a (k, v)) b). rewrite IH by assumption.
    unfold merge_keys_step. cbn [fst snd get].
    destruct (e =? k) eqn:E.
    + assert (e = k) by lia. subst. apply get_None_notin in Hni. rewrite Hni.
      destruct (get k a) as [x|]; rewrite get_set_same; reflexivity.
    + destruct (get k a) as [x|]; rewrite get_set_other by lia; reflexivity.
Qed.

Lemma aw_merge_get : forall s o e, aw_wf s -> aw_wf o ->
  let addK := merge_keys (aw_add s) (aw_add o) in
  let remK := merge_keys (aw_rem s) (aw_rem o) in
  get e (aw_add (aw_merge s o)) =
    match get e addK with
    | Some a => match get e remK with
                | Some r => if is_LT (vc_compare a r) then None else Some a
                | None => Some a
                end
    | None => None
    end /\
  get e (aw_rem (aw_merge s o)) =
    match get e remK with
    | Some r => match get e addK with
                | Some a => if is_LT (vc_compare a r) then Some r else None
                | None => Some r
                end
    | None => None
    end.
Proof.
  intros s o e (S1 & S2 & _) (O1 & O2 & _) addK remK. unfold aw_merge. fold addK remK. cbn [aw_add aw_rem].
  rewrite !get_filter by (apply merge_keys_nodup; assumption).
  unfold aw_in, aw_keep_rem. cbn [fst snd]. split.
  - destruct (get e addK); [|reflexivity]. destruct (get e remK); [|reflexivity].
    destruct (is_LT _); reflexivity.
  - destruct (get e remK); [|reflexivity]. destruct (get e addK); [|reflexivity].
    destruct (is_LT _); reflexivity.
Qed.

Lemma ent_merge : forall s o e, aw_wf s -> aw_wf o -> ent e (aw_merge s o) = ment (ent e s) (ent e o).
Proof.
  intros s o e Hs Ho. destruct (aw_merge_get s o e Hs Ho) as [Ha Hr]. cbn zeta in Ha, Hr.
  unfold ent at 1. rewrite Ha, Hr. clear Ha Hr.
  destruct Hs as (S1 & S2 & Sd & _). destruct Ho as (O1 & O2 & Od & _).
  rewrite !merge_keys_get by assumption. unfold ent.
  destruct (Sd e) as [Hs|Hs]; destruct (Od e) as [Ho|Ho]; rewrite ?Hs, ?Ho;
    destruct (get e (aw_add s)) as [sa|]; destruct (get e (aw_rem s)) as [sr|];
    destruct (get e (aw_add o)) as [oa|]; destruct (get e (aw_rem o)) as [or|];
    try discriminate; cbn; try reflexivity;
    try (destruct (is_LT _); reflexivity).
Qed.

Lemma ment_wf : forall x y, ewf x -> ewf y -> ewf (ment x y).
Proof.
  intros [[a|a]|] [[b|b]|] Hx Hy; cbn in *; auto using gc_merge_wf; destruct (is_LT _); cbn; assumption.
Qed.

Lemma aw_merge_wf : forall s o, aw_wf s -> aw_wf o -> aw_wf (aw_merge s o).
Proof.
  intros s o Hs Ho. pose proof Hs as (S1 & S2 & _). pose proof Ho as (O1 & O2 & _).
  split; [|split; [|split]].
  - unfold aw_merge. cbn. apply nodup_filter_keys. now apply merge_keys_nodup.
  - unfold aw_merge. cbn. apply nodup_filter_keys. now apply merge_keys_nodup.
  - intros e. destruct (aw_merge_get s o e Hs Ho) as [-> ->].
    destruct (get e (merge_keys (aw_add s) (aw_add o))); [|now left].
    destruct (get e (merge_keys (aw_rem s) (aw_rem o))); [|now right].
    destruct (is_LT _); [now left|now right].
  - intros e c Hc. pose proof (ent_merge s o e Hs Ho) as He.
    pose proof (ment_wf _ _ (ent_wf s e Hs) (ent_wf o e Ho)) as Hw. rewrite <- He in Hw.
    unfold ent in Hw. destruct Hc as [Hc|Hc].
    + rewrite Hc in Hw. exact Hw.
    + destruct (aw_merge_get s o e Hs Ho) as [Ha _].
      destruct (get e (aw_add (aw_merge s o))) eqn:G.
      * (* impossible: both maps hold e *)
        exfalso. destruct (aw_merge_get s o e Hs Ho) as [Ha' Hr']. rewrite G in Ha'. rewrite Hc in Hr'.
        destruct (get e (merge_keys (aw_add s) (aw_add o))); [|discriminate].
        destruct (get e (merge_keys (aw_rem s) (aw_rem o))); [|discriminate].
        destruct (is_LT _); discriminate.
      * rewrite Hc in Hw. exact Hw.
Qed.

(* ---- commutativity and idempotence, entry-wise *)
Lemma ment_comm : forall x y, ewf x -> ewf y -> ent_eqv (ment x y) (ment y x).
Proof.
  intros [[a|a]|] [[b|b]|] Hx Hy; cbn in *; auto using gc_merge_comm, gc_eqv_refl;
    try (destruct (is_LT _); cbn; apply gc_eqv_refl).
Qed.

Lemma ment_idem : forall x, ewf x -> ent_eqv (ment x x) x.
Proof. intros [[a|a]|] Hx; cbn in *; auto using gc_merge_idem. Qed.

Theorem aw_merge_comm : forall a b, aw_wf a -> aw_wf b -> aw_eqv (aw_merge a b) (aw_merge b a).
Proof.
  intros a b Ha Hb e. rewrite !ent_merge by assumption. apply ment_comm; now apply ent_wf.
Qed.

Theorem aw_merge_idem : forall a, aw_wf a -> aw_eqv (aw_merge a a) a.
Proof. intros a Ha e. rewrite ent_merge by assumption. apply ment_idem. now apply ent_wf. Qed.

Lemma ment_eqv : forall x x' y y', ewf x -> ewf x' -> ewf y -> ewf y' ->
  ent_eqv x x' -> ent_eqv y y' -> ent_eqv (ment x y) (ment x' y').
Proof.
  intros [[a|a]|] [[a'|a']|] [[b|b]|] [[b'|b']|] Hx Hx' Hy Hy' E1 E2; cbn in *; try tauto;
    try (apply gc_merge_eqv; assumption);
    try (rewrite (is_LT_eqv _ _ _ _ E1 E2); destruct (is_LT _); cbn; assumption);
    try (rewrite (is_LT_eqv _ _ _ _ E2 E1); destruct (is_LT _); cbn; assumption).
Qed.

Theorem aw_merge_eqv : forall a a' b b', aw_wf a -> aw_wf a' -> aw_wf b -> aw_wf b' ->
  aw_eqv a a' -> aw_eqv b b' -> aw_eqv (aw_merge a b) (aw_merge a' b').
Proof.
  intros a a' b b' Ha Ha' Hb Hb' E1 E2 e. rewrite !ent_merge by assumption.
  apply ment_eqv; try (now apply ent_wf); [apply E1|apply E2].
Qed.

(* ---- read *)
Lemma aw_read_in : forall s e, aw_wf s -> (In e (aw_read s) <-> exists c, ent e s = Some (EAdd c)).
Proof.
  intros s e (S1 & S2 & Sd & _). unfold aw_read. split.
  - intros H. unfold keys in H. apply in_map_iff in H as ([k c] & Hk & Hin). cbn in Hk. subst k.
    apply filter_In in Hin as [Hin _]. apply In_get in Hin; [|assumption]. exists c. unfold ent. now rewrite Hin.
  - intros [c Hc]. unfold ent in Hc. destruct (get e (aw_add s)) as [a|] eqn:G.
    + inversion Hc; subst. unfold keys. apply in_map_iff. exists (e, c). split; [reflexivity|].
      apply filter_In. split; [now apply get_In|]. unfold aw_in. cbn [fst snd].
      destruct (Sd e) as [H|H]; [congruence|]. now rewrite H.
    + destruct (get e (aw_rem s)); discriminate.
Qed.

Theorem aw_read_eqv : forall a b, aw_wf a -> aw_wf b -> aw_eqv a b -> forall e, In e (aw_read a) <-> In e (aw_read b).
Proof.
  intros a b Ha Hb E e. rewrite !aw_read_in by assumption. specialize (E e).
  split; intros [c Hc]; rewrite Hc in E; cbn in E.
  - destruct (ent e b) as [[c'|c']|]; cbn in E; try tauto. eauto.
  - destruct (ent e a) as [[c'|c']|]; cbn in E; try tauto. eauto.
Qed.

(* ---------------------------------------------------------------- write *)
Definition clock_of (x : option entry) : vclock :=
  match x with Some (EAdd c) | Some (ERem c) => c | None => gc_init end.

(* precondition of a local update: the incremented clock entry does not overflow int32 *)
Definition aw_wpre (id : Z) (a : Z * Z) (s : aw) : Prop :=
  gc_getd id (clock_of (ent (snd a) s)) + 1 < 2147483648.

Lemma ent_write : forall id cmd elem s e, aw_wf s ->
  ent e (aw_write id (cmd, elem) s) =
  if e =? elem then
    if cmd =? addOp then Some (EAdd (vc_inc id (clock_of (ent elem s))))
    else if cmd =? remOp then Some (ERem (vc_inc id (clock_of (ent elem s))))
    else ent e s
  else ent e s.
Proof.
  intros id cmd elem s e (S1 & S2 & Sd & _). unfold aw_write, ent.
  destruct (cmd =? addOp) eqn:Ca; [|destruct (cmd =? remOp) eqn:Cr].
  - destruct (get elem (aw_add s)) as [av|] eqn:Ga; [|destruct (get elem (aw_rem s)) as [rv|] eqn:Gr];
      cbn [aw_add aw_rem clock_of]; rewrite ?get_set, ?get_del; destruct (e =? elem) eqn:E; try reflexivity.
  - destruct (get elem (aw_add s)) as [av|] eqn:Ga; [|destruct (get elem (aw_rem s)) as [rv|] eqn:Gr];
      cbn [aw_add aw_rem clock_of]; rewrite ?get_set, ?get_del; destruct (e =? elem) eqn:E; try reflexivity.
    + assert (e = elem) by lia. subst. now rewrite Ga.
  - destruct (e =? elem); reflexivity.
Qed.

Lemma vc_inc_wf : forall id c, gc_wf c -> gc_getd id c + 1 < 2147483648 -> gc_wf (vc_inc id c).
Proof. intros id c Hc Hov. apply gc_write_wf; [assumption|]. split; lia. Qed.

Lemma vc_inc_getd : forall id c k, gc_wf c -> gc_getd id c + 1 < 2147483648 ->
  gc_getd k (vc_inc id c) = if k =? id then gc_getd id c + 1 else gc_getd k c.
Proof. intros id c k Hc Hov. apply gc_write_getd_pre; [apply Hc|]. split; lia. Qed.

Lemma clock_of_wf : forall x, ewf x -> gc_wf (clock_of x).
Proof. intros [[c|c]|] H; cbn in *; auto using gc_wf_init. Qed.

Lemma aw_write_wf : forall id a s, aw_wf s -> aw_wpre id a s -> aw_wf (aw_write id a s).
Proof.
  intros id [cmd elem] s Hs Hpre. unfold aw_wpre in Hpre. cbn [snd] in Hpre.
  pose proof (clock_of_wf _ (ent_wf s elem Hs)) as Hcw.
  pose proof (vc_inc_wf id _ Hcw Hpre) as Hiw.
  pose proof Hs as (S1 & S2 & Sd & Sc).
  assert (Hent := fun e => ent_write id cmd elem s e Hs).
  unfold aw_write. unfold ent in Hcw, Hiw, Hpre.
  destruct (cmd =? addOp) eqn:Ca; [|destruct (cmd =? remOp) eqn:Cr]; [| |exact Hs].
  - destruct (get elem (aw_add s)) as [av|] eqn:Ga; [|destruct (get elem (aw_rem s)) as [rv|] eqn:Gr];
      cbn [clock_of] in *; (split; [|split; [|split]]); cbn [aw_add aw_rem];
      auto using nodup_set, nodup_del.
    + intros e. rewrite get_set, get_del. destruct (e =? elem); [now right|apply Sd].
    + intros e c. rewrite get_set, get_del. destruct (e =? elem).
      * intros [H|H]; [inversion H; subst; assumption|discriminate].
      * apply Sc.
    + intros e. rewrite get_set, get_del. destruct (e =? elem); [now right|apply Sd].
    + intros e c. rewrite get_set, get_del. destruct (e =? elem).
      * intros [H|H]; [inversion H; subst; assumption|discriminate].
      * apply Sc.
    + intros e. rewrite get_set. destruct (e =? elem) eqn:E; [right; assert (e = elem) by lia; now subst|apply Sd].
    + intros e c. rewrite get_set. destruct (e =? elem) eqn:E.
      * assert (e = elem) by lia. subst. intros [H|H]; [inversion H; subst; assumption|congruence].
      * apply Sc.
  - destruct (get elem (aw_add s)) as [av|] eqn:Ga; [|destruct (get elem (aw_rem s)) as [rv|] eqn:Gr];
      cbn [clock_of] in *; (split; [|split; [|split]]); cbn [aw_add aw_rem];
      auto using nodup_set, nodup_del.
    + intros e. rewrite get_set, get_del. destruct (e =? elem); [now left|apply Sd].
    + intros e c. rewrite get_set, get_del. destruct (e =? elem).
      * intros [H|H]; [discriminate|inversion H; subst; assumption].
      * apply Sc.
    + intros e. rewrite get_set, get_del. destruct (e =? elem); [now left|apply Sd].
    + intros e c. rewrite get_set, get_del. destruct (e =? elem).
      * intros [H|H]; [discriminate|inversion H; subst; assumption].
      * apply Sc.
    + intros e. rewrite get_set. destruct (e =? elem) eqn:E; [left; assert (e = elem) by lia; now subst|apply Sd].
    + intros e c. rewrite get_set. destruct (e =? elem) eqn:E.
      * assert (e = elem) by lia. subst. intros [H|H]; [congruence|inversion H; subst; assumption].
      * apply Sc.
Qed.

Lemma inc_gt : forall id c, gc_wf c -> gc_getd id c + 1 < 2147483648 ->
  is_LT (vc_compare c (vc_inc id c)) = true /\ is_LT (vc_compare (vc_inc id c) c) = false.
Proof.
  intros id c Hc Hov. split.
  - apply is_LT_spec. split.
    + exists id. rewrite vc_inc_getd by assumption. rewrite Z.eqb_refl. lia.
    + intros [k Hk]. rewrite vc_inc_getd in Hk by assumption. destruct (k =? id) eqn:E; [|lia].
      assert (k = id) by lia. subst. lia.
  - destruct (is_LT (vc_compare (vc_inc id c) c)) eqn:E; [|reflexivity].
    apply is_LT_spec in E as [[k Hk] _]. rewrite vc_inc_getd in Hk by assumption.
    destruct (k =? id) eqn:E'; [|lia]. assert (k = id) by lia. subst. lia.
Qed.

(* a local update never moves the state down the merge order: s ⊔ write(s) = write(s) *)
Theorem aw_write_inflationary : forall id a s, aw_wf s -> aw_wpre id a s ->
  aw_eqv (aw_merge s (aw_write id a s)) (aw_write id a s).
Proof.
  intros id [cmd elem] s Hs Hpre e. pose proof (aw_write_wf id (cmd, elem) s Hs Hpre) as Hw.
  rewrite ent_merge by assumption. rewrite ent_write by assumption.
  unfold aw_wpre in Hpre. cbn [snd] in Hpre.
  pose proof (ent_wf s e Hs) as He.
  destruct (e =? elem) eqn:E; [|apply ment_idem; assumption].
  assert (e = elem) by lia. subst e. clear E.
  set (c := clock_of (ent elem s)) in *.
  assert (Hcw : gc_wf c) by (apply clock_of_wf; assumption).
  destruct (inc_gt id c Hcw Hpre) as [Hlt Hnlt].
  assert (Hinf : gc_eqv (gc_merge c (vc_inc id c)) (vc_inc id c)).
  { apply gc_write_inflationary; [assumption|split; lia]. }
  destruct (cmd =? addOp) eqn:Ca; [|destruct (cmd =? remOp) eqn:Cr]; [| |apply ment_idem; assumption].
  - unfold c in *. destruct (ent elem s) as [[c0|c0]|]; cbn [ment clock_of ent_eqv] in *.
    + exact Hinf.
    + rewrite Hnlt. cbn. apply gc_eqv_refl.
    + apply gc_eqv_refl.
  - unfold c in *. destruct (ent elem s) as [[c0|c0]|]; cbn [ment clock_of ent_eqv] in *.
    + rewrite Hlt. cbn. apply gc_eqv_refl.
    + exact Hinf.
    + apply gc_eqv_refl.
Qed.

(* ---------------------------------------------------------------- gob *)
Lemma get_build_map : forall (m : list (Z * vclock)) e, NoDup (keys m) ->
  get e (build (map (fun kv => (fst kv, gc_hop (snd kv))) m)) = option_map gc_hop (get e m).
Proof.
  intros m e Hnd. rewrite get_build.
  - induction m as [|[k v] m IH]; cbn; [reflexivity|]. inversion Hnd; subst.
    destruct (e =? k); [reflexivity|auto].
  - unfold keys. rewrite map_map. cbn. exact Hnd.
Qed.

Lemma ent_hop : forall s e, aw_wf s ->
  ent e (aw_hop s) = match ent e s with Some (EAdd c) => Some (EAdd (gc_hop c)) | Some (ERem c) => Some (ERem (gc_hop c)) | None => None end.
Proof.
  intros s e (S1 & S2 & _). unfold ent, aw_hop. cbn [aw_add aw_rem]. rewrite !get_build_map by assumption.
  destruct (get e (aw_add s)); cbn; [reflexivity|]. destruct (get e (aw_rem s)); reflexivity.
Qed.

Theorem aw_hop_eqv : forall s, aw_wf s -> aw_eqv (aw_hop s) s.
Proof.
  intros s Hs e. rewrite ent_hop by assumption. pose proof (ent_wf s e Hs) as He.
  destruct (ent e s) as [[c|c]|]; cbn in *; auto using gc_hop_eqv.
Qed.

Theorem aw_hop_wf : forall s, aw_wf s -> aw_wf (aw_hop s).
Proof.
  intros s Hs. pose proof Hs as (S1 & S2 & Sd & Sc). split; [|split; [|split]].
  - cbn. apply nodup_build.
  - cbn. apply nodup_build.
  - intros e. unfold aw_hop. cbn [aw_add aw_rem]. rewrite !get_build_map by assumption.
    destruct (Sd e) as [-> | ->]; cbn; auto.
  - intros e c. unfold aw_hop. cbn [aw_add aw_rem]. rewrite !get_build_map by assumption.
    intros [H|H].
    + destruct (get e (aw_add s)) eqn:G; cbn in H; [|discriminate]. inversion H; subst.
      apply gc_hop_wf. apply (Sc e). now left.
    + destruct (get e (aw_rem s)) eqn:G; cbn in H; [|discriminate]. inversion H; subst.
      apply gc_hop_wf. apply (Sc e). now right.
Qed.

(* ---------------------------------------------------------------- histories *)
Notation aw_ev := (ev (Z * Z)).
Notation aw_xrun := (xrun aw (Z * Z) aw_init aw_write aw_merge aw_hop).
Notation aw_delivered := (delivered aw (Z * Z) aw_init aw_write aw_merge aw_hop).
Notation aw_valid := (valid aw (Z * Z) aw_init aw_write aw_merge aw_hop aw_wpre).

Lemma aw_wf_init : aw_wf aw_init.
Proof. split; [constructor|split; [constructor|split]]; [intros e; now left|intros e c [H|H]; discriminate]. Qed.

Theorem aw_reachable_wf : forall ops, aw_valid ops ->
  (forall r, aw_wf (reps (aw_run ops) r)) /\ Forall aw_wf (pool (aw_run ops)).
Proof.
  intros ops Hv.
  pose proof (lift aw (Z * Z) aw_init aw_write aw_merge aw_hop aw_wpre (fun _ _ s => aw_wf s)) as L.
  destruct (L (fun _ => aw_wf_init)) with (ops := ops) as [H Hp]; auto using aw_write_wf, aw_merge_wf, aw_hop_wf.
  cbn zeta in H, Hp. unfold aw_run. rewrite <- (xrun_fst aw (Z * Z) aw_init aw_write aw_merge aw_hop). split; [exact H|].
  induction Hp; constructor; auto.
Qed.

(* ---------------------------------------------------------------- refutations *)
(* a adds e; b merges that and removes e; c adds e concurrently. Replica 3 merges the three
   messages as (a ⊔ b) ⊔ c, replica 4 as (b ⊔ c) ⊔ a: both read {e} but replica 3 has add clock
   {c:1} and replica 4 {a:1, c:1}.  Replica 5 (which merged everything like 3) removes e; after
   merging that remove, 3 reads {} and 4 still reads {e} although both were delivered the same
   five updates. *)
Definition aw_witness : list aw_op :=
  [OWrite 0 (1, 7); OSnap 0 false; ODeliver 1 0%nat; OWrite 1 (2, 7); OSnap 1 false; OWrite 2 (1, 7); OSnap 2 false;
   ODeliver 3 0%nat; ODeliver 3 1%nat; ODeliver 3 2%nat;
   ODeliver 4 1%nat; ODeliver 4 2%nat; ODeliver 4 0%nat;
   ODeliver 5 0%nat; ODeliver 5 1%nat; ODeliver 5 2%nat; OWrite 5 (2, 7); OSnap 5 false;
   ODeliver 3 3%nat; ODeliver 4 3%nat].

Lemma aw_witness_valid : aw_valid aw_witness.
Proof.
  apply valid_from_valid. unfold aw_witness. cbn [valid_from]. repeat split; vm_compute; reflexivity.
Qed.

Theorem aw_convergence_refuted : exists ops r1 r2,
  aw_valid ops /\ same_updates (aw_delivered ops r1) (aw_delivered ops r2) /\
  ~ In 7 (aw_read (reps (aw_run ops) r1)) /\ In 7 (aw_read (reps (aw_run ops) r2)).
Proof.
  exists aw_witness, 3, 4. split; [exact aw_witness_valid|]. split; [|split].
  - intros e. vm_compute. tauto.
  - vm_compute. tauto.
  - vm_compute. tauto.
Qed.

Theorem aw_merge_assoc_refuted : exists ops a b c,
  aw_valid ops /\ nth_error (pool (aw_run ops)) 0 = Some a /\ nth_error (pool (aw_run ops)) 1 = Some b /\
  nth_error (pool (aw_run ops)) 2 = Some c /\
  ~ aw_eqv (aw_merge (aw_merge a b) c) (aw_merge a (aw_merge b c)).
Proof.
  exists aw_witness. eexists. eexists. eexists. split; [exact aw_witness_valid|].
  split; [vm_compute; reflexivity|]. split; [vm_compute; reflexivity|]. split; [vm_compute; reflexivity|].
  intros E. specialize (E 7). vm_compute in E. specialize (E 0). discriminate.
Qed.

(* ---------------------------------------------------------------- short histories are valid *)
(* every clock entry for replica k is at most the number of updates k has performed *)
Definition awB (log : Z -> list (Z * Z * aw)) (D : list aw_ev) (s : aw) : Prop :=
  aw_wf s /\ forall e k, gc_getd k (clock_of (ent e s)) <= Z.of_nat (List.length (log k)).

Lemma awB_lift : forall ops, aw_valid ops ->
  forall r, awB (g_log (snd (aw_xrun ops))) (g_dl (snd (aw_xrun ops)) r) (reps (fst (aw_xrun ops)) r).
Proof.
  intros ops Hv.
  apply (lift aw (Z * Z) aw_init aw_write aw_merge aw_hop aw_wpre awB); auto.
  - intros log. split; [apply aw_wf_init|]. intros e k. cbn. lia.
  - intros log log' D s Hex _ [Hw H]. split; [exact Hw|]. intros e k. specialize (H e k).
    destruct (Hex k) as [l ->]. rewrite app_length. lia.
  - intros log D s r [cmd elem] [Hw H] _ _ _ Hpre. split; [now apply aw_write_wf|].
    intros e k. rewrite ent_write by assumption. unfold aw_wpre in Hpre. cbn [snd] in Hpre.
    pose proof (clock_of_wf _ (ent_wf s elem Hw)) as Hcw.
    assert (Hlen : forall k', Z.of_nat (List.length (log k')) <=
                   Z.of_nat (List.length (fupd log r (log r ++ [(cmd, elem, aw_write r (cmd, elem) s)]) k'))).
    { intros k'. destruct (Z.eq_dec k' r) as [->|Hne]; [rewrite fupd_same, app_length; lia|rewrite fupd_other by assumption; lia]. }
    assert (Hinc : gc_getd k (vc_inc r (clock_of (ent elem s))) <=
                   Z.of_nat (List.length (fupd log r (log r ++ [(cmd, elem, aw_write r (cmd, elem) s)]) k))).
    { rewrite vc_inc_getd by assumption. destruct (k =? r) eqn:E.
      - assert (k = r) by lia. subst. rewrite fupd_same, app_length. cbn. specialize (H elem r). lia.
      - specialize (H elem k). specialize (Hlen k). lia. }
    destruct (e =? elem); [destruct (cmd =? addOp); [|destruct (cmd =? remOp)]|]; cbn [clock_of]; try exact Hinc;
      specialize (H e k); specialize (Hlen k); lia.
  - intros log D1 s1 D2 s2 [W1 H1] [W2 H2] _ _. split; [now apply aw_merge_wf|].
    intros e k. rewrite ent_merge by assumption. specialize (H1 e k). specialize (H2 e k).
    pose proof (ent_wf s1 e W1) as E1. pose proof (ent_wf s2 e W2) as E2.
    destruct (ent e s1) as [[a|a]|]; destruct (ent e s2) as [[b|b]|]; cbn [ment clock_of] in *; try lia;
      try (rewrite gc_merge_getd by (try apply E1; assumption); lia);
      try (destruct (is_LT _); cbn [clock_of]; lia).
  - intros log D s [Hw H]. split; [now apply aw_hop_wf|]. intros e k. rewrite ent_hop by assumption.
    specialize (H e k). pose proof (ent_wf s e Hw) as E.
    destruct (ent e s) as [[c|c]|]; cbn [clock_of] in *; rewrite ?gc_hop_eqv by assumption; lia.
Qed.

Lemma log_len_le : forall ops r, (List.length (g_log (snd (aw_xrun ops)) r) <= List.length ops)%nat.
Proof.
  induction ops as [|o ops IH] using rev_ind; intros r; [cbn; lia|].
  rewrite xrun_snoc, app_length. cbn [List.length]. specialize (IH r).
  destruct (aw_xrun ops) as [st g]. cbn [fst snd] in *. unfold Model.xstep. cbn [fst snd].
  destruct o as [r' a|r' gb|d m]; cbn [Model.gstep g_log].
  - destruct (Z.eq_dec r r') as [->|Hne]; [rewrite fupd_same, app_length; cbn; lia|rewrite fupd_other by assumption; lia].
  - lia.
  - destruct (nth_error (g_pool g) m); cbn [g_log]; lia.
Qed.

(* histories with fewer than 2^31 - 1 operations never overflow a clock entry *)
Theorem aw_short_valid : forall ops, Z.of_nat (List.length ops) < 2147483647 -> aw_valid ops.
Proof.
  induction ops as [|o ops IH] using rev_ind; intros Hlen.
  - intros ops1 r a ops2 E. destruct ops1; discriminate.
  - rewrite app_length in Hlen. cbn in Hlen.
    assert (Hv : aw_valid ops) by (apply IH; lia).
    apply valid_snoc_intro; [exact Hv|]. intros r [cmd elem] ->.
    destruct (awB_lift ops Hv r) as [_ H]. rewrite (xrun_fst aw (Z * Z) aw_init aw_write aw_merge aw_hop) in H.
    unfold aw_wpre. cbn [snd]. specialize (H elem r). pose proof (log_len_le ops r). lia.
Qed.

(* ---------------------------------------------------------------- where associativity does hold *)
(* x is dominated by y: absent, or the same entry up to equivalence, or a strictly smaller clock
   (whatever the polarities). Entries produced by updates of one element that are ordered by
   happens-before are related this way; concurrent updates give incomparable clocks. *)
Definition vc_lt (a b : vclock) : Prop := (forall k, gc_getd k a <= gc_getd k b) /\ vc_some_lt a b.

Definition ent_le (x y : option entry) : Prop :=
  ent_eqv x y \/ x = None \/ (exists cx cy, clock_of x = cx /\ clock_of y = cy /\ x <> None /\ y <> None /\ vc_lt cx cy).

Lemma vc_lt_LT : forall a b, vc_lt a b -> is_LT (vc_compare a b) = true /\ is_LT (vc_compare b a) = false.
Proof.
  intros a b [Hle Hlt]. split.
  - apply is_LT_spec. split; [exact Hlt|]. intros [k Hk]. specialize (Hle k). lia.
  - destruct (is_LT (vc_compare b a)) eqn:E; [|reflexivity]. apply is_LT_spec in E as [[k Hk] _].
    specialize (Hle k). lia.
Qed.

Lemma vc_lt_merge : forall a b, gc_wf a -> gc_wf b -> vc_lt a b -> gc_eqv (gc_merge a b) b /\ gc_eqv (gc_merge b a) b.
Proof.
  intros a b Ha Hb [Hle _]. split; intros k; rewrite gc_merge_getd by (try apply Ha; try apply Hb; assumption);
    specialize (Hle k); lia.
Qed.

Lemma ment_le : forall x y, ewf x -> ewf y -> ent_le x y -> ent_eqv (ment x y) y /\ ent_eqv (ment y x) y.
Proof.
  intros x y Hx Hy [He|[->|(cx & cy & <- & <- & Hnx & Hny & Hlt)]].
  - split.
    + eapply ent_eqv_trans; [apply (ment_eqv x y y y); auto using ent_eqv_refl|now apply ment_idem].
    + eapply ent_eqv_trans; [apply (ment_eqv y y x y); auto using ent_eqv_refl|now apply ment_idem].
  - split; destruct y as [[c|c]|]; cbn; auto using gc_eqv_refl.
  - destruct x as [[a|a]|]; [| |congruence]; destruct y as [[b|b]|]; try congruence; cbn [clock_of ewf] in *;
      destruct (vc_lt_LT _ _ Hlt) as [L1 L2]; destruct (vc_lt_merge _ _ Hx Hy Hlt) as [M1 M2]; cbn [ment];
      rewrite ?L1, ?L2; cbn [ent_eqv]; auto using gc_eqv_refl.
Qed.

Lemma vc_lt_eqv : forall a a' b b', gc_eqv a a' -> gc_eqv b b' -> vc_lt a b -> vc_lt a' b'.
Proof.
  intros a a' b b' Ea Eb [Hle Hlt]. split.
  - intros k. rewrite <- (Ea k), <- (Eb k). apply Hle.
  - now apply (some_lt_eqv a a' b b' Ea Eb).
Qed.

Lemma vc_lt_trans : forall a b c, vc_lt a b -> vc_lt b c -> vc_lt a c.
Proof.
  intros a b c [H1 [k Hk]] [H2 _]. split.
  - intros j. specialize (H1 j). specialize (H2 j). lia.
  - exists k. specialize (H2 k). lia.
Qed.

Lemma ent_eqv_clock : forall y y', ent_eqv y y' -> y <> None -> y' <> None /\ gc_eqv (clock_of y) (clock_of y').
Proof.
  intros [[b|b]|] [[b'|b']|] E Hn; cbn in *; try contradiction; try congruence; split; auto; discriminate.
Qed.

Lemma ent_le_eqv_r : forall x y y', ent_le x y -> ent_eqv y y' -> ent_le x y'.
Proof.
  intros x y y' [He|[->|(cx & cy & <- & <- & Hnx & Hny & Hlt)]] E.
  - left. eapply ent_eqv_trans; eauto.
  - right. now left.
  - right. right. destruct (ent_eqv_clock y y' E Hny) as [Hny' Ec].
    exists (clock_of x), (clock_of y'). repeat split; auto.
    + destruct Hlt as [Hle _]. intros k. rewrite <- (Ec k). apply Hle.
    + destruct Hlt as [_ Hs]. now apply (some_lt_eqv (clock_of x) (clock_of x) (clock_of y) (clock_of y') (gc_eqv_refl _) Ec).
Qed.

Lemma ent_le_eqv_l : forall x x' y, ent_le x y -> ent_eqv x x' -> ent_le x' y.
Proof.
  intros x x' y [He|[->|(cx & cy & <- & <- & Hnx & Hny & Hlt)]] E.
  - left. eapply ent_eqv_trans; [apply ent_eqv_sym, E|exact He].
  - destruct x' as [[a|a]|]; cbn in E; try contradiction. right. now left.
  - right. right. destruct (ent_eqv_clock x x' E Hnx) as [Hnx' Ec].
    exists (clock_of x'), (clock_of y). split; [reflexivity|]. split; [reflexivity|]. split; [exact Hnx'|]. split; [exact Hny|].
    apply (vc_lt_eqv (clock_of x) (clock_of x') (clock_of y) (clock_of y)); auto using gc_eqv_refl.
Qed.

Lemma ent_le_trans : forall x y z, ent_le x y -> ent_le y z -> ent_le x z.
Proof.
  intros x y z Hxy Hyz.
  destruct Hxy as [He|[->|(cx & cy & <- & <- & Hnx & Hny & Hlt)]]; [|right; now left|].
  - (* x ~ y *) apply (ent_le_eqv_l y x z Hyz). now apply ent_eqv_sym.
  - (* x < y *)
    destruct Hyz as [He'|[->|(cy & cz & <- & <- & Hny' & Hnz & Hlt')]]; [|congruence|].
    + apply (ent_le_eqv_r x y z); [|exact He']. right. right. exists (clock_of x), (clock_of y).
      split; [reflexivity|]. split; [reflexivity|]. split; [exact Hnx|]. split; [exact Hny|exact Hlt].
    + right. right. exists (clock_of x), (clock_of z).
      split; [reflexivity|]. split; [reflexivity|]. split; [exact Hnx|]. split; [exact Hnz|].
      eapply vc_lt_trans; eauto.
Qed.

Definition comparable (x y : option entry) : Prop := ent_le x y \/ ent_le y x.

Lemma ment_assoc_chain : forall x y z, ewf x -> ewf y -> ewf z ->
  comparable x y -> comparable y z -> comparable x z ->
  ent_eqv (ment (ment x y) z) (ment x (ment y z)).
Proof.
  intros x y z Hx Hy Hz Cxy Cyz Cxz.
  assert (Hxy := ment_wf x y Hx Hy). assert (Hyz := ment_wf y z Hy Hz).
  (* the merge of two comparable entries is (equivalent to) the larger one *)
  assert (R : forall a b c, ewf a -> ewf b -> ewf c -> ent_le a b ->
              (ent_le b c -> ent_eqv (ment (ment a b) c) c /\ ent_eqv (ment (ment b a) c) c /\
                             ent_eqv (ment a (ment b c)) c /\ ent_eqv (ment a (ment c b)) c) /\
              (ent_le c b -> ent_eqv (ment (ment a b) c) b /\ ent_eqv (ment (ment b a) c) b /\
                             ent_eqv (ment c (ment a b)) b /\ ent_eqv (ment c (ment b a)) b)).
  { intros a b c Ha Hb Hc Hab. destruct (ment_le a b Ha Hb Hab) as [E1 E2].
    pose proof (ment_wf a b Ha Hb) as Wab. pose proof (ment_wf b a Hb Ha) as Wba. split.
    - intros Hbc. destruct (ment_le b c Hb Hc Hbc) as [F1 F2].
      pose proof (ent_le_trans a b c Hab Hbc) as Hac. destruct (ment_le a c Ha Hc Hac) as [G1 G2].
      pose proof (ment_wf b c Hb Hc) as Wbc. pose proof (ment_wf c b Hc Hb) as Wcb.
      repeat split.
      + eapply ent_eqv_trans; [apply (ment_eqv (ment a b) b c c); auto using ent_eqv_refl|exact F1].
      + eapply ent_eqv_trans; [apply (ment_eqv (ment b a) b c c); auto using ent_eqv_refl|exact F1].
      + eapply ent_eqv_trans; [apply (ment_eqv a a (ment b c) c); auto using ent_eqv_refl|exact G1].
      + eapply ent_eqv_trans; [apply (ment_eqv a a (ment c b) c); auto using ent_eqv_refl|exact G1].
    - intros Hcb. destruct (ment_le c b Hc Hb Hcb) as [F1 F2]. repeat split.
      + eapply ent_eqv_trans; [apply (ment_eqv (ment a b) b c c); auto using ent_eqv_refl|exact F2].
      + eapply ent_eqv_trans; [apply (ment_eqv (ment b a) b c c); auto using ent_eqv_refl|exact F2].
      + eapply ent_eqv_trans; [apply (ment_eqv c c (ment a b) b); auto using ent_eqv_refl|exact F1].
      + eapply ent_eqv_trans; [apply (ment_eqv c c (ment b a) b); auto using ent_eqv_refl|exact F1]. }
  destruct Cxy as [Lxy|Lyx]; destruct Cyz as [Lyz|Lzy].
  - (* x <= y <= z *)
    destruct (R x y z Hx Hy Hz Lxy) as [R1 _]. destruct (R1 Lyz) as (A1 & _ & A3 & _).
    eapply ent_eqv_trans; [exact A1|apply ent_eqv_sym, A3].
  - (* x <= y, z <= y *)
    destruct (R x y z Hx Hy Hz Lxy) as [_ R2]. destruct (R2 Lzy) as (A1 & _).
    eapply ent_eqv_trans; [exact A1|]. apply ent_eqv_sym.
    destruct (ment_le z y Hz Hy Lzy) as [_ F2]. destruct (ment_le x y Hx Hy Lxy) as [E1 _].
    eapply ent_eqv_trans; [apply (ment_eqv x x (ment y z) y); auto using ent_eqv_refl|exact E1].
  - (* y <= x, y <= z: x and z comparable *)
    destruct (ment_le y x Hy Hx Lyx) as [_ E2]. destruct (ment_le y z Hy Hz Lyz) as [F1 _].
    eapply ent_eqv_trans; [apply (ment_eqv (ment x y) x z z); auto using ent_eqv_refl|].
    apply ent_eqv_sym. apply (ment_eqv x x (ment y z) z); auto using ent_eqv_refl.
  - (* z <= y <= x *)
    destruct (R z y x Hz Hy Hx Lzy) as [R1 _]. destruct (R1 Lyx) as (_ & _ & _ & A4).
    destruct (ment_le y x Hy Hx Lyx) as [_ E2].
    pose proof (ent_le_trans z y x Lzy Lyx) as Lzx. destruct (ment_le z x Hz Hx Lzx) as [_ G2].
    eapply ent_eqv_trans; [apply (ment_eqv (ment x y) x z z); auto using ent_eqv_refl|].
    eapply ent_eqv_trans; [exact G2|]. apply ent_eqv_sym.
    destruct (ment_le z y Hz Hy Lzy) as [_ F2].
    eapply ent_eqv_trans; [apply (ment_eqv x x (ment y z) y); auto using ent_eqv_refl|exact E2].
Qed.

(* Merge IS associative on states whose entries are, element by element, pairwise comparable *)
Theorem aw_merge_assoc_partial : forall a b c, aw_wf a -> aw_wf b -> aw_wf c ->
  (forall e, comparable (ent e a) (ent e b) /\ comparable (ent e b) (ent e c) /\ comparable (ent e a) (ent e c)) ->
  aw_eqv (aw_merge (aw_merge a b) c) (aw_merge a (aw_merge b c)).
Proof.
  intros a b c Ha Hb Hc Hcmp e.
  rewrite (ent_merge (aw_merge a b) c) by auto using aw_merge_wf.
  rewrite (ent_merge a (aw_merge b c)) by auto using aw_merge_wf.
  rewrite (ent_merge a b), (ent_merge b c) by assumption.
  destruct (Hcmp e) as (C1 & C2 & C3). apply ment_assoc_chain; auto using ent_wf.
Qed.
