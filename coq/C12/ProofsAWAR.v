(* C12 — AWORSet on every history in which no add of an element is concurrent with a remove of it.
   Hypothesis (aw_addrem_ordered): whenever a replica adds (removes) element e, every remove (add) of e
   performed so far by any replica has been delivered to it. Adds may be concurrent with adds and removes with
   removes. This is exactly the complement of the known-finding class "an add and a remove of the same
   element are concurrent" (a new update can only be ordered AFTER an existing one, and it is iff the
   existing one was delivered to its writer). Then replicas with the same delivered updates read the same
   set, and e is read iff some delivered add of e is above every delivered remove of e. *)
From PGV Require Import C12.Model C12.ProofsAL C12.ProofsGC C12.ProofsSys C12.ProofsSysX C12.ProofsAW C12.ProofsAWSeq C12.ProofsAWRO.
From Coq Require Import Lia ZifyBool.
Open Scope Z_scope.

Definition opp (c : Z) : Z := if c =? addOp then remOp else addOp.
Definition mkE (p : Z) (c : vclock) : entry := if p =? addOp then EAdd c else ERem c.
Definition isPol (p : Z) : Prop := p = addOp \/ p = remOp.

Lemma opp_opp : forall p, isPol p -> opp (opp p) = p.
Proof. intros p [-> | ->]; reflexivity. Qed.
Lemma opp_pol : forall p, isPol p -> isPol (opp p).
Proof. intros p [-> | ->]; [right|left]; reflexivity. Qed.
Lemma opp_neq : forall p, isPol p -> opp p <> p.
Proof. intros p [-> | ->]; unfold opp, addOp, remOp; cbn; lia. Qed.

Definition arpre (log : aw_log) (D : list aw_ev) (r : Z) (a : Z * Z) (s : aw) : Prop :=
  aw_wpre r a s /\ isPol (fst a) /\
  forall y, logged log y -> elem_of y = snd a -> cmd_of y = opp (fst a) -> In y D.

Definition aw_addrem_ordered : list aw_op -> Prop := validx aw (Z * Z) aw_init aw_write aw_merge aw_hop arpre.

(* ---------------------------------------------------------------- descriptions *)
Section Desc2.
  Variable log : aw_log.

  (* the delivered updates of e of polarity p that are above every delivered update of e of the other polarity *)
  Definition inTop (D : list aw_ev) (e p : Z) (a : aw_ev) : Prop :=
    In a D /\ elem_of a = e /\ cmd_of a = p /\
    forall y, In y D -> elem_of y = e -> cmd_of y = opp p -> vc_lt (clk log y) (clk log a).

  Definition topSet (D : list aw_ev) (e p : Z) (c : vclock) : Prop :=
    (forall a, inTop D e p a -> vc_le (clk log a) c) /\
    (forall k, exists a, inTop D e p a /\ gc_getd k c = gc_getd k (clk log a)) /\
    (forall x, In x D -> elem_of x = e -> inTop D e p x \/ exists a, inTop D e p a /\ vc_lt (clk log x) (clk log a)).

  Definition desc2 (D : list aw_ev) (e : Z) (x : option entry) : Prop :=
    (noev D e /\ x = None) \/
    (exists p c, isPol p /\ x = Some (mkE p c) /\ topSet D e p c).

  Lemma topSet_eqv : forall D e p c c', gc_eqv c c' -> topSet D e p c -> topSet D e p c'.
  Proof.
    intros D e p c c' E (H1 & H2 & H3). split; [|split; [|exact H3]].
    - intros a Ha k. rewrite <- (E k). now apply H1.
    - intros k. destruct (H2 k) as (a & Ha & Hk). exists a. split; [exact Ha|]. now rewrite <- (E k).
  Qed.

  Lemma mkE_eqv : forall p c x', isPol p -> ent_eqv (Some (mkE p c)) x' -> exists c', x' = Some (mkE p c') /\ gc_eqv c c'.
  Proof.
    intros p c x' [-> | ->] E; cbn in *; destruct x' as [[c'|c']|]; try contradiction; exists c'; split; auto.
  Qed.

  Lemma desc2_eqv : forall D e x x', desc2 D e x -> ent_eqv x x' -> desc2 D e x'.
  Proof.
    intros D e x x' [[Hn ->]|(p & c & Hp & -> & Hc)] E.
    - left. split; [exact Hn|]. destruct x' as [[?|?]|]; cbn in E; tauto.
    - right. destruct (mkE_eqv p c x' Hp E) as (c' & -> & Ec). exists p, c'. split; [exact Hp|]. split; [reflexivity|].
      now apply (topSet_eqv D e p c c').
  Qed.

  Lemma topSet_nonempty : forall D e p c, topSet D e p c -> exists a, inTop D e p a.
  Proof. intros D e p c (_ & H2 & _). destruct (H2 0) as (a & Ha & _). eauto. Qed.

  Lemma topSet_above : forall D e p c x, topSet D e p c -> In x D -> elem_of x = e -> vc_le (clk log x) c.
  Proof.
    intros D e p c x (T1 & _ & T3) Hx Hxe. destruct (T3 x Hx Hxe) as [Ha|(a & Ha & Hlt)]; [now apply T1|].
    intros k. pose proof (T1 a Ha k). destruct Hlt as [Hle _]. specialize (Hle k). lia.
  Qed.

  Lemma inTop_ext : forall D D' e p a, (forall z, elem_of z = e -> (In z D <-> In z D')) -> inTop D e p a -> inTop D' e p a.
  Proof.
    intros D D' e p a Hio (H1 & H2 & H3 & H4). split; [now apply Hio|]. split; [exact H2|]. split; [exact H3|].
    intros y Hy Hye Hyc. apply H4; auto. now apply Hio.
  Qed.

  Lemma desc2_ext : forall D D' e x, (forall z, elem_of z = e -> (In z D <-> In z D')) -> desc2 D e x -> desc2 D' e x.
  Proof.
    intros D D' e x Hio Hd.
    assert (Hio' : forall z, elem_of z = e -> (In z D' <-> In z D)) by (intros z Hz; symmetry; now apply Hio).
    destruct Hd as [[Hn ->]|(p & c & Hp & -> & (H1 & H2 & H3))].
    - left. split; [|reflexivity]. intros z Hz Hze. apply (Hn z); [now apply Hio|exact Hze].
    - right. exists p, c. split; [exact Hp|]. split; [reflexivity|]. split; [|split].
      + intros a Ha. apply H1. now apply (inTop_ext D' D).
      + intros k. destruct (H2 k) as (a & Ha & Hk). exists a. split; [now apply (inTop_ext D D')|exact Hk].
      + intros z Hz Hze. destruct (H3 z (proj2 (Hio z Hze) Hz) Hze) as [Ha|(a & Ha & Hlt)]; [left; now apply (inTop_ext D D')|right].
        exists a. split; [now apply (inTop_ext D D')|exact Hlt].
  Qed.
End Desc2.

(* ---------------------------------------------------------------- invariants *)
Definition arL (log : aw_log) : Prop :=
  (forall x, logged log x -> isPol (cmd_of x) /\ exists c, entry_of log x = Some (mkE (cmd_of x) c) /\ gc_wf c) /\
  (forall x y, logged log x -> logged log y -> elem_of x = elem_of y -> cmd_of x = opp (cmd_of y) ->
     vc_lt (clk log x) (clk log y) \/ vc_lt (clk log y) (clk log x)) /\
  (forall x y, logged log x -> logged log y -> elem_of x = elem_of y -> cmd_of x = opp (cmd_of y) ->
     vc_lt (clk log x) (clk log y) -> gc_getd (ev_rep y) (clk log x) < gc_getd (ev_rep y) (clk log y)).

Definition arR (log : aw_log) (D : list aw_ev) (s : aw) : Prop :=
  aw_wf s /\ forall e, desc2 log D e (ent e s).

Lemma arL_clk_wf : forall log x, arL log -> logged log x -> gc_wf (clk log x).
Proof.
  intros log x (H1 & _) Hl. unfold clk. destruct (H1 x Hl) as ([Hp|Hp] & c & -> & Hc); rewrite Hp; cbn; exact Hc.
Qed.

Lemma arL_init : arL (fun _ => []).
Proof.
  split; [|split].
  - intros x [s Hs]. destruct (ev_seq x); discriminate.
  - intros x y [s Hs] _ _ _. destruct (ev_seq x); discriminate.
  - intros x y [s Hs] _ _ _ _. destruct (ev_seq x); discriminate.
Qed.

Lemma arR_init : arR (fun _ => []) [] aw_init.
Proof. split; [apply aw_wf_init|]. intros e. left. split; [intros x []|reflexivity]. Qed.

Lemma desc2_extends : forall log log' D e x, extends aw (Z * Z) log log' -> genuine aw (Z * Z) log D ->
  desc2 log D e x -> desc2 log' D e x.
Proof.
  intros log log' D e x Hex Hg Hd.
  assert (Ec : forall y, In y D -> clk log' y = clk log y) by (intros y Hy; apply clk_extends; [exact Hex|now apply Hg]).
  assert (HinA : forall p a, inTop log D e p a <-> inTop log' D e p a).
  { intros p a. unfold inTop. split; intros (H1 & H2 & H3 & H4); (split; [exact H1|split; [exact H2|split; [exact H3|]]]); intros y Hy Hye Hyc.
    - rewrite (Ec y Hy), (Ec a H1). now apply H4.
    - rewrite <- (Ec y Hy), <- (Ec a H1). now apply H4. }
  destruct Hd as [Hn|(p & c & Hp & -> & (H1 & H2 & H3))]; [now left|right].
  exists p, c. split; [exact Hp|]. split; [reflexivity|]. split; [|split].
  - intros a Ha. apply HinA in Ha. pose proof Ha as (Ha' & _). rewrite (Ec a Ha'). now apply H1.
  - intros k. destruct (H2 k) as (a & Ha & Hk). exists a. split; [now apply HinA|]. destruct Ha as (Ha & _). now rewrite (Ec a Ha).
  - intros z Hz Hze. destruct (H3 z Hz Hze) as [Ha|(a & Ha & Hlt)]; [left; now apply HinA|right].
    exists a. split; [now apply HinA|]. destruct Ha as (Ha & _). now rewrite (Ec z Hz), (Ec a Ha).
Qed.

Lemma arR_mono : forall log log' D s, extends aw (Z * Z) log log' -> genuine aw (Z * Z) log D ->
  arL log -> arL log' -> arR log D s -> arR log' D s.
Proof. intros log log' D s Hex Hg _ _ [Hw H]. split; [exact Hw|]. intros e. eapply desc2_extends; eauto. Qed.

Lemma arR_hop : forall log D s, arL log -> arR log D s -> arR log D (aw_hop s).
Proof.
  intros log D s _ [Hw H]. split; [now apply aw_hop_wf|]. intros e.
  eapply desc2_eqv; [apply H|]. apply ent_eqv_sym. apply (aw_hop_eqv s Hw e).
Qed.

(* ---------------------------------------------------------------- a finite measure for chains of clocks *)
Definition ksum (K : list Z) (c : vclock) : Z := fold_right (fun k acc => gc_getd k c + acc) 0 K.

Lemma ksum_le : forall K a b, (forall k, gc_getd k a <= gc_getd k b) -> ksum K a <= ksum K b.
Proof. unfold ksum. induction K as [|k K IH]; intros a b H; cbn; [lia|]. specialize (IH a b H). specialize (H k). lia. Qed.

Lemma ksum_lt : forall K a b k0, (forall k, gc_getd k a <= gc_getd k b) -> In k0 K -> gc_getd k0 a < gc_getd k0 b ->
  ksum K a < ksum K b.
Proof.
  induction K as [|k K IH]; intros a b k0 H Hin Hlt; [destruct Hin|].
  change (ksum (k :: K) a) with (gc_getd k a + ksum K a). change (ksum (k :: K) b) with (gc_getd k b + ksum K b).
  destruct Hin as [->|Hin].
  - pose proof (ksum_le K a b H). lia.
  - specialize (IH a b k0 H Hin Hlt). specialize (H k). lia.
Qed.

(* below c and strictly ordered: the measure over the keys of c strictly grows *)
Lemma ksum_chain : forall c x y, gc_nn x -> vc_le y c -> vc_lt x y -> ksum (keys c) x < ksum (keys c) y.
Proof.
  intros c x y Hx Hyc [Hle [k0 Hk0]]. apply (ksum_lt (keys c) x y k0 Hle); [|exact Hk0].
  destruct (in_dec Z.eq_dec k0 (keys c)) as [Hin|Hn]; [exact Hin|].
  exfalso. pose proof (Hyc k0) as H1. rewrite (gc_getd_notin c k0 Hn) in H1. specialize (Hx k0). lia.
Qed.

Section Merge2.
  Variable log : aw_log.
  Hypothesis HL : arL log.

  Lemma arL_comp : forall x y, logged log x -> logged log y -> elem_of x = elem_of y -> isPol (cmd_of y) ->
    cmd_of x = opp (cmd_of y) -> vc_lt (clk log x) (clk log y) \/ vc_lt (clk log y) (clk log x).
  Proof. intros x y Hx Hy He _ Hc. destruct HL as (_ & L2 & _). now apply L2. Qed.

  (* the winning side of a cross merge: W is a top update of polarity q on side Dq that is above every top update
     of the other polarity on side Dp; then the union is described by side Dq's join *)
  Lemma cross_win : forall p Dp Dq Dx e cp cq W, isPol p ->
    genuine aw (Z * Z) log Dp -> genuine aw (Z * Z) log Dq ->
    (forall z, In z Dx <-> In z Dp \/ In z Dq) ->
    topSet log Dp e p cp -> topSet log Dq e (opp p) cq ->
    inTop log Dq e (opp p) W -> (forall a, inTop log Dp e p a -> vc_lt (clk log a) (clk log W)) ->
    topSet log Dx e (opp p) cq.
  Proof.
    intros p Dp Dq Dx e cp cq W Hp Gp Gq Hio (P1 & P2 & P3) (Q1 & Q2 & Q3) HW Habove.
    pose proof (opp_pol p Hp) as Hq. pose proof (opp_opp p Hp) as Hoo.
    pose proof HW as (HWd & HWe & HWc & HWab).
    assert (HbelowW : forall z, In z Dp -> elem_of z = e -> vc_lt (clk log z) (clk log W)).
    { intros z Hz Hze. destruct (P3 z Hz Hze) as [Ha|(a & Ha & Hl)]; [now apply Habove|].
      eapply vc_lt_trans; [exact Hl|now apply Habove]. }
    assert (HWx : inTop log Dx e (opp p) W).
    { split; [apply Hio; now right|]. split; [exact HWe|]. split; [exact HWc|].
      intros z Hz Hze Hzc. apply Hio in Hz as [Hz|Hz]; [now apply HbelowW|now apply HWab]. }
    assert (Hrestr : forall b, inTop log Dx e (opp p) b -> inTop log Dq e (opp p) b).
    { intros b (Hb & Hbe & Hbc & Hbab). apply Hio in Hb as [Hb|Hb].
      - exfalso. destruct (P3 b Hb Hbe) as [(_ & _ & Hc & _)|(a & Ha & Hl)].
        + rewrite Hbc in Hc. now apply (opp_neq p Hp).
        + pose proof Ha as (Had & Hae & Hac & _).
          assert (vc_lt (clk log a) (clk log b)) as Hl2 by (apply Hbab; [apply Hio; now left|exact Hae|now rewrite Hoo]).
          apply (vc_lt_irrefl (clk log a)). eapply vc_lt_trans; eauto.
      - split; [exact Hb|]. split; [exact Hbe|]. split; [exact Hbc|]. intros y Hy. apply Hbab. apply Hio. now right. }
    assert (Hside : forall m, inTop log Dq e (opp p) m -> inTop log Dx e (opp p) m \/ vc_lt (clk log m) (clk log W)).
    { intros m (Hm & Hme & Hmc & Hmab).
      destruct (list_all_or_ex (fun z => elem_of z = e -> cmd_of z = p -> vc_lt (clk log z) (clk log m)) Dp) as [Hall|(z & Hz & Hnz)].
      { intros z. destruct (Z.eq_dec (elem_of z) e) as [E1|E1]; [|left; tauto].
        destruct (Z.eq_dec (cmd_of z) p) as [E2|E2]; [|left; tauto].
        destruct (vc_lt_dec (clk log z) (clk log m)) as [H|H]; [left; auto|right; auto]. }
      - left. split; [apply Hio; now right|]. split; [exact Hme|]. split; [exact Hmc|].
        intros y Hy Hye Hyc. rewrite Hoo in Hyc. apply Hio in Hy as [Hy|Hy]; [now apply Hall|apply Hmab; auto; now rewrite Hoo].
      - right. assert (Hze : elem_of z = e) by (destruct (Z.eq_dec (elem_of z) e); [assumption|exfalso; apply Hnz; tauto]).
        assert (Hzc : cmd_of z = p) by (destruct (Z.eq_dec (cmd_of z) p); [assumption|exfalso; apply Hnz; tauto]).
        assert (Hmz : vc_lt (clk log m) (clk log z)).
        { destruct (arL_comp z m (Gp z Hz) (Gq m Hm) ltac:(congruence) ltac:(rewrite Hmc; exact Hq) ltac:(rewrite Hmc, Hoo; exact Hzc)) as [H|H]; [|exact H].
          exfalso. apply Hnz. intros _ _. exact H. }
        eapply vc_lt_trans; [exact Hmz|now apply HbelowW]. }
    split; [|split].
    - intros b Hb. apply Q1. now apply Hrestr.
    - intros k. destruct (Q2 k) as (m & Hm & Hmk). destruct (Hside m Hm) as [Hin|Hlt]; [exists m; now split|].
      exists W. split; [exact HWx|]. destruct Hlt as [Hle _]. specialize (Hle k). pose proof (Q1 W HW k). lia.
    - intros x Hx Hxe. apply Hio in Hx as [Hx|Hx].
      + right. exists W. split; [exact HWx|now apply HbelowW].
      + destruct (Q3 x Hx Hxe) as [Ha|(m & Hm & Hl)].
        * destruct (Hside x Ha) as [Hin|Hl]; [now left|right; exists W; now split].
        * right. destruct (Hside m Hm) as [Hin|Hl2]; [exists m; now split|exists W; split; [exact HWx|eapply vc_lt_trans; eauto]].
  Qed.

  (* the joins of a top add set and a top remove set cannot coincide *)
  Lemma no_equal_joins : forall D1 D2 e c1 c2, genuine aw (Z * Z) log D1 -> genuine aw (Z * Z) log D2 ->
    gc_wf c1 -> topSet log D1 e addOp c1 -> topSet log D2 e remOp c2 -> gc_eqv c1 c2 -> False.
  Proof.
    intros D1 D2 e c1 c2 G1 G2 W1 (A1 & A2 & _) (B1 & B2 & _) Eq. destruct HL as (L1 & L2 & L5).
    assert (SA : forall a, inTop log D1 e addOp a -> exists b, inTop log D2 e remOp b /\ vc_lt (clk log a) (clk log b)).
    { intros a Ha. pose proof Ha as (Had & Hae & Hac & _). destruct (B2 (ev_rep a)) as (b & Hb & Hbk). exists b. split; [exact Hb|].
      pose proof Hb as (Hbd & Hbe & Hbc & _).
      destruct (L2 b a (G2 b Hbd) (G1 a Had) ltac:(congruence) ltac:(rewrite Hbc, Hac; reflexivity)) as [Hlt|Hgt]; [|exact Hgt].
      exfalso. pose proof (L5 b a (G2 b Hbd) (G1 a Had) ltac:(congruence) ltac:(rewrite Hbc, Hac; reflexivity) Hlt) as Hst.
      pose proof (A1 a Ha (ev_rep a)) as H1. rewrite (Eq (ev_rep a)) in H1. lia. }
    assert (SB : forall b, inTop log D2 e remOp b -> exists a, inTop log D1 e addOp a /\ vc_lt (clk log b) (clk log a)).
    { intros b Hb. pose proof Hb as (Hbd & Hbe & Hbc & _). destruct (A2 (ev_rep b)) as (a & Ha & Hak). exists a. split; [exact Ha|].
      pose proof Ha as (Had & Hae & Hac & _).
      destruct (L2 a b (G1 a Had) (G2 b Hbd) ltac:(congruence) ltac:(rewrite Hbc, Hac; reflexivity)) as [Hlt|Hgt]; [|exact Hgt].
      exfalso. pose proof (L5 a b (G1 a Had) (G2 b Hbd) ltac:(congruence) ltac:(rewrite Hbc, Hac; reflexivity) Hlt) as Hst.
      pose proof (B1 b Hb (ev_rep b)) as H1. rewrite <- (Eq (ev_rep b)) in H1. lia. }
    (* an endless strictly increasing chain below c1 *)
    assert (Hchain : forall n a, inTop log D1 e addOp a -> ksum (keys c1) c1 - ksum (keys c1) (clk log a) <= Z.of_nat n -> False).
    { induction n as [|n IH]; intros a Ha Hm.
      - destruct (SA a Ha) as (b & Hb & Hab). pose proof Ha as (Had & _).
        assert (Hbc1 : vc_le (clk log b) c1) by (intros k; rewrite (Eq k); now apply B1).
        pose proof (ksum_chain c1 (clk log a) (clk log b) (proj2 (arL_clk_wf log a HL (G1 a Had))) Hbc1 Hab).
        pose proof (ksum_le (keys c1) (clk log b) c1 Hbc1). lia.
      - destruct (SA a Ha) as (b & Hb & Hab). destruct (SB b Hb) as (a' & Ha' & Hba). pose proof Ha as (Had & _). pose proof Hb as (Hbd & _).
        assert (Hbc1 : vc_le (clk log b) c1) by (intros k; rewrite (Eq k); now apply B1).
        pose proof (ksum_chain c1 (clk log a) (clk log b) (proj2 (arL_clk_wf log a HL (G1 a Had))) Hbc1 Hab).
        pose proof (ksum_chain c1 (clk log b) (clk log a') (proj2 (arL_clk_wf log b HL (G2 b Hbd))) (A1 a' Ha') Hba).
        apply (IH a' Ha'). lia. }
    destruct (A2 0) as (a & Ha & _).
    apply (Hchain (Z.to_nat (ksum (keys c1) c1 - ksum (keys c1) (clk log a))) a Ha). lia.
  Qed.
End Merge2.

Section Merge3.
  Variable log : aw_log.
  Hypothesis HL : arL log.
  Variables (D1 D2 : list aw_ev) (e : Z).
  Hypothesis G1 : genuine aw (Z * Z) log D1.
  Hypothesis G2 : genuine aw (Z * Z) log D2.

  Lemma mkE_ment_same : forall p c1 c2, isPol p -> ment (Some (mkE p c1)) (Some (mkE p c2)) = Some (mkE p (gc_merge c1 c2)).
  Proof. intros p c1 c2 [-> | ->]; reflexivity. Qed.

  (* two sides whose top updates have the same polarity: the join of the clocks *)
  Lemma merge_same : forall p c1 c2, isPol p -> gc_wf c1 -> gc_wf c2 -> topSet log D1 e p c1 -> topSet log D2 e p c2 ->
    topSet log (D1 ++ D2) e p (gc_merge c1 c2).
  Proof.
    intros p c1 c2 Hp W1 W2 (T1 & T2 & T3) (U1 & U2 & U3). pose proof (opp_pol p Hp) as Hq. pose proof (opp_opp p Hp) as Hoo.
    destruct (topSet_nonempty log D1 e p c1 (conj T1 (conj T2 T3))) as [b1 Hb1].
    destruct (topSet_nonempty log D2 e p c2 (conj U1 (conj U2 U3))) as [b2 Hb2].
    assert (Hside : forall Da Db, genuine aw (Z * Z) log Da -> genuine aw (Z * Z) log Db ->
              (exists b, inTop log Db e p b) -> forall m, inTop log Da e p m ->
              (forall z, In z (D1 ++ D2) <-> In z Da \/ In z Db) ->
              inTop log (D1 ++ D2) e p m \/ exists a, inTop log (D1 ++ D2) e p a /\ vc_lt (clk log m) (clk log a)).
    { intros Da Db Ga Gb [b Hb] m (Hm & Hme & Hmc & Hmab) Hio.
      destruct (list_all_or_ex (fun y => elem_of y = e -> cmd_of y = opp p -> vc_lt (clk log y) (clk log m)) Db) as [Hall|(y & Hy & Hny)].
      { intros y. destruct (Z.eq_dec (elem_of y) e) as [E1|E1]; [|left; tauto].
        destruct (Z.eq_dec (cmd_of y) (opp p)) as [E2|E2]; [|left; tauto].
        destruct (vc_lt_dec (clk log y) (clk log m)) as [H|H]; [left; auto|right; auto]. }
      - left. split; [apply Hio; now left|]. split; [exact Hme|]. split; [exact Hmc|].
        intros y Hy Hye Hyc. apply Hio in Hy as [Hy|Hy]; [now apply Hmab|now apply Hall].
      - right. assert (Hye : elem_of y = e) by (destruct (Z.eq_dec (elem_of y) e); [assumption|exfalso; apply Hny; tauto]).
        assert (Hyc : cmd_of y = opp p) by (destruct (Z.eq_dec (cmd_of y) (opp p)); [assumption|exfalso; apply Hny; tauto]).
        assert (Hmy : vc_lt (clk log m) (clk log y)).
        { destruct (arL_comp log HL m y (Ga m Hm) (Gb y Hy) ltac:(congruence) ltac:(rewrite Hyc; exact Hq) ltac:(rewrite Hyc, Hoo; exact Hmc)) as [H|H]; [exact H|].
          exfalso. apply Hny. intros _ _. exact H. }
        pose proof Hb as (HbD & Hbe & Hbc & Hbab).
        assert (Hyb : vc_lt (clk log y) (clk log b)) by now apply Hbab.
        exists b. split; [|eapply vc_lt_trans; eauto].
        split; [apply Hio; now right|]. split; [exact Hbe|]. split; [exact Hbc|].
        intros z Hz Hze Hzc. apply Hio in Hz as [Hz|Hz]; [|now apply Hbab].
        eapply vc_lt_trans; [now apply Hmab|]. eapply vc_lt_trans; eauto. }
    assert (Hs1 : forall m, inTop log D1 e p m -> inTop log (D1 ++ D2) e p m \/ exists a, inTop log (D1 ++ D2) e p a /\ vc_lt (clk log m) (clk log a)).
    { intros m Hm. apply (Hside D1 D2 G1 G2 (ex_intro _ b2 Hb2) m Hm). intros z. apply in_app_iff. }
    assert (Hs2 : forall m, inTop log D2 e p m -> inTop log (D1 ++ D2) e p m \/ exists a, inTop log (D1 ++ D2) e p a /\ vc_lt (clk log m) (clk log a)).
    { intros m Hm. apply (Hside D2 D1 G2 G1 (ex_intro _ b1 Hb1) m Hm). intros z. rewrite in_app_iff. tauto. }
    assert (Hup : forall a, inTop log (D1 ++ D2) e p a -> vc_le (clk log a) (gc_merge c1 c2)).
    { intros a (Ha & Hae & Hac & Hab) k. rewrite gc_merge_getd by (try apply W1; assumption).
      apply in_app_iff in Ha as [Ha|Ha].
      - assert (inTop log D1 e p a) as HA by (split; [exact Ha|split; [exact Hae|split; [exact Hac|intros y Hy; apply Hab; apply in_app_iff; now left]]]).
        pose proof (T1 a HA k). lia.
      - assert (inTop log D2 e p a) as HA by (split; [exact Ha|split; [exact Hae|split; [exact Hac|intros y Hy; apply Hab; apply in_app_iff; now right]]]).
        pose proof (U1 a HA k). lia. }
    split; [exact Hup|split].
    - intros k. rewrite gc_merge_getd by (try apply W1; assumption).
      assert (Hatt : forall m (Hs : inTop log (D1 ++ D2) e p m \/ exists a, inTop log (D1 ++ D2) e p a /\ vc_lt (clk log m) (clk log a)),
                gc_getd k (clk log m) = Z.max (gc_getd k c1) (gc_getd k c2) ->
                exists a, inTop log (D1 ++ D2) e p a /\ Z.max (gc_getd k c1) (gc_getd k c2) = gc_getd k (clk log a)).
      { intros m [Hin|(a & Ha & Hlt)] Hk; [exists m; split; [exact Hin|now symmetry]|].
        exists a. split; [exact Ha|]. destruct Hlt as [Hle _]. specialize (Hle k). pose proof (Hup a Ha k) as Hu.
        rewrite gc_merge_getd in Hu by (try apply W1; assumption). lia. }
      destruct (Z.max_spec (gc_getd k c1) (gc_getd k c2)) as [[Hlt Hm]|[Hge Hm]].
      + destruct (U2 k) as (m & Hmm & Hmk). apply (Hatt m (Hs2 m Hmm)). lia.
      + destruct (T2 k) as (m & Hmm & Hmk). apply (Hatt m (Hs1 m Hmm)). lia.
    - intros x Hx Hxe. apply in_app_iff in Hx as [Hx|Hx].
      + destruct (T3 x Hx Hxe) as [Ha|(m & Hm & Hl)]; [now apply Hs1|].
        right. destruct (Hs1 m Hm) as [Hin|(a & Ha & Hl2)]; [exists m; now split|exists a; split; [exact Ha|eapply vc_lt_trans; eauto]].
      + destruct (U3 x Hx Hxe) as [Ha|(m & Hm & Hl)]; [now apply Hs2|].
        right. destruct (Hs2 m Hm) as [Hin|(a & Ha & Hl2)]; [exists m; now split|exists a; split; [exact Ha|eapply vc_lt_trans; eauto]].
  Qed.

  (* a top add set against a top remove set: decided by compare, as the code does *)
  Lemma merge_cross : forall c1 c2, gc_wf c1 -> gc_wf c2 -> topSet log D1 e addOp c1 -> topSet log D2 e remOp c2 ->
    desc2 log (D1 ++ D2) e (ment (Some (EAdd c1)) (Some (ERem c2))).
  Proof.
    intros c1 c2 W1 W2 TA TB. pose proof TA as (A1 & A2 & A3). pose proof TB as (B1 & B2 & B3).
    pose proof HL as (L1 & L2 & L5).
    assert (Hcomp : forall a b, inTop log D1 e addOp a -> inTop log D2 e remOp b ->
              vc_lt (clk log a) (clk log b) \/ vc_lt (clk log b) (clk log a)).
    { intros a b (Ha & Hae & Hac & _) (Hb & Hbe & Hbc & _).
      apply (L2 a b (G1 a Ha) (G2 b Hb)); [congruence|rewrite Hac, Hbc; reflexivity]. }
    assert (Hio : forall z, In z (D1 ++ D2) <-> In z D1 \/ In z D2) by (intros z; apply in_app_iff).
    assert (Hio' : forall z, In z (D1 ++ D2) <-> In z D2 \/ In z D1) by (intros z; rewrite in_app_iff; tauto).
    cbn [ment]. destruct (is_LT (vc_compare c1 c2)) eqn:ELT.
    - (* c1 < c2: the removes win *)
      apply vc_lt_iff in ELT. destruct ELT as [Hle [k0 Hk0]].
      destruct (B2 k0) as (b0 & Hb0 & Hb0k).
      right. exists remOp, c2. split; [now right|]. split; [reflexivity|].
      apply (cross_win log HL addOp D1 D2 (D1 ++ D2) e c1 c2 b0 (or_introl eq_refl) G1 G2 Hio TA TB Hb0).
      intros a Ha. destruct (Hcomp a b0 Ha Hb0) as [H|H]; [exact H|].
      exfalso. destruct H as [H _]. specialize (H k0). pose proof (A1 a Ha k0). lia.
    - destruct (existsb (fun k => gc_getd k c2 <? gc_getd k c1) (keys c2 ++ keys c1)) eqn:EX.
      + (* some component of c1 exceeds c2: the adds win *)
        apply existsb_some_lt in EX as [k0 Hk0]. destruct (A2 k0) as (a0 & Ha0 & Ha0k).
        right. exists addOp, c1. split; [now left|]. split; [reflexivity|].
        apply (cross_win log HL remOp D2 D1 (D1 ++ D2) e c2 c1 a0 (or_intror eq_refl) G2 G1 Hio' TB TA Ha0).
        intros b Hb. destruct (Hcomp a0 b Ha0 Hb) as [H|H]; [|exact H].
        exfalso. destruct H as [H _]. specialize (H k0). pose proof (B1 b Hb k0). lia.
      + (* c1 <= c2 pointwise and not strictly below: the joins coincide, impossible *)
        exfalso. assert (Hle : vc_le c1 c2).
        { intros k. destruct (Z_le_gt_dec (gc_getd k c1) (gc_getd k c2)) as [H|H]; [exact H|].
          assert (vc_some_lt c2 c1) as Hs by (exists k; lia). apply existsb_some_lt in Hs. congruence. }
        assert (Heq : gc_eqv c1 c2).
        { intros k. destruct (Z.eq_dec (gc_getd k c1) (gc_getd k c2)) as [E|E]; [exact E|].
          exfalso. assert (vc_lt c1 c2) as Hlt by (split; [exact Hle|exists k; specialize (Hle k); lia]).
          apply vc_lt_iff in Hlt. congruence. }
        exact (no_equal_joins log HL D1 D2 e c1 c2 G1 G2 W1 TA TB Heq).
  Qed.
End Merge3.

Lemma mkE_wf : forall p c, isPol p -> ewf (Some (mkE p c)) -> gc_wf c.
Proof. intros p c [-> | ->] H; exact H. Qed.

Lemma desc2_merge : forall log D1 D2 e x1 x2, arL log -> genuine aw (Z * Z) log D1 -> genuine aw (Z * Z) log D2 ->
  ewf x1 -> ewf x2 -> desc2 log D1 e x1 -> desc2 log D2 e x2 -> desc2 log (D1 ++ D2) e (ment x1 x2).
Proof.
  intros log D1 D2 e x1 x2 HL G1 G2 W1 W2 H1 H2.
  destruct H1 as [[N1 ->]|(p1 & c1 & P1 & -> & T1)].
  - cbn [ment]. apply (desc2_ext log D2); [|exact H2]. intros z Hz. rewrite in_app_iff. split; [tauto|].
    intros [Hin|Hin]; [exfalso; now apply (N1 z Hin)|exact Hin].
  - destruct H2 as [[N2 ->]|(p2 & c2 & P2 & -> & T2)].
    + replace (ment (Some (mkE p1 c1)) None) with (Some (mkE p1 c1)) by (destruct P1 as [-> | ->]; reflexivity).
      apply (desc2_ext log D1); [|right; exists p1, c1; auto]. intros z Hz. rewrite in_app_iff. split; [tauto|].
      intros [Hin|Hin]; [exact Hin|exfalso; now apply (N2 z Hin)].
    + pose proof (mkE_wf p1 c1 P1 W1) as Wc1. pose proof (mkE_wf p2 c2 P2 W2) as Wc2.
      destruct P1 as [-> | ->]; destruct P2 as [-> | ->].
      * right. exists addOp, (gc_merge c1 c2). split; [now left|]. split; [reflexivity|].
        apply (merge_same log HL D1 D2 e G1 G2 addOp); auto. now left.
      * apply (merge_cross log HL D1 D2 e G1 G2 c1 c2 Wc1 Wc2 T1 T2).
      * apply (desc2_ext log (D2 ++ D1)); [intros z Hz; rewrite !in_app_iff; tauto|].
        eapply desc2_eqv; [apply (merge_cross log HL D2 D1 e G2 G1 c2 c1 Wc2 Wc1 T2 T1)|].
        apply ment_comm; assumption.
      * right. exists remOp, (gc_merge c1 c2). split; [now right|]. split; [reflexivity|].
        apply (merge_same log HL D1 D2 e G1 G2 remOp); auto. now right.
Qed.

Lemma arR_merge : forall log D1 s1 D2 s2, arL log -> arR log D1 s1 -> arR log D2 s2 ->
  genuine aw (Z * Z) log D1 -> genuine aw (Z * Z) log D2 -> arR log (D1 ++ D2) (aw_merge s1 s2).
Proof.
  intros log D1 s1 D2 s2 HL [W1 H1] [W2 H2] G1 G2. split; [now apply aw_merge_wf|].
  intros e. rewrite ent_merge by assumption. apply desc2_merge; auto using ent_wf.
Qed.

(* ---------------------------------------------------------------- a write *)
Section ARWrite.
  Variables (log : aw_log) (D : list aw_ev) (s : aw) (r : Z) (cmd elem : Z).
  Hypothesis HL : arL log.
  Hypothesis HR : arR log D s.
  Hypothesis Hg : genuine aw (Z * Z) log D.
  Hypothesis Hpre : arpre log D r (cmd, elem) s.

  Let s' := aw_write r (cmd, elem) s.
  Let log' := fupd log r (log r ++ [(cmd, elem, s')]).
  Let z := mkEv r (List.length (log r)) (cmd, elem).
  Let cs := clock_of (ent elem s).

  Lemma aw_ext : extends aw (Z * Z) log log'.
  Proof. apply extends_write. Qed.

  Lemma aw_swf : aw_wf s.
  Proof. apply HR. Qed.

  Lemma aw_cs_wf : gc_wf cs.
  Proof. apply clock_of_wf. apply ent_wf. exact aw_swf. Qed.

  Lemma aw_nov : gc_getd r cs + 1 < 2147483648.
  Proof. destruct Hpre as [H _]. exact H. Qed.

  Lemma aw_pol : isPol cmd.
  Proof. destruct Hpre as (_ & H & _). exact H. Qed.

  Lemma aw_post : post log' z = s'.
  Proof. unfold post, z, log'. cbn. rewrite fupd_same, nth_error_app2 by lia. now rewrite Nat.sub_diag. Qed.

  Lemma aw_logged_old : forall y, logged log' y -> y = z \/ logged log y.
  Proof.
    intros y [sy Hy]. unfold log' in Hy. destruct (Z.eq_dec (ev_rep y) r) as [Er|Ner].
    - rewrite Er, fupd_same in Hy.
      destruct (Nat.lt_ge_cases (ev_seq y) (List.length (log r))) as [Hlt|Hge].
      + right. exists sy. rewrite Er. now rewrite nth_error_app1 in Hy.
      + left. rewrite nth_error_app2 in Hy by assumption.
        destruct (ev_seq y - List.length (log r))%nat as [|n] eqn:En; [|destruct n; discriminate].
        cbn in Hy. inversion Hy. destruct y as [ry ky ay]. cbn in *. unfold z. f_equal; [assumption|lia|congruence].
    - right. rewrite fupd_other in Hy by assumption. now exists sy.
  Qed.

  Lemma aw_entry_z : entry_of log' z = Some (mkE cmd (vc_inc r cs)).
  Proof.
    unfold entry_of. rewrite aw_post. unfold elem_of, z. cbn [ev_arg snd]. unfold s'.
    rewrite (ent_write r cmd elem s elem aw_swf). rewrite Z.eqb_refl. unfold mkE.
    destruct aw_pol as [Hc|Hc]; rewrite Hc; reflexivity.
  Qed.

  Lemma aw_clk_z : clk log' z = vc_inc r cs.
  Proof. unfold clk. rewrite aw_entry_z. unfold mkE. destruct (cmd =? addOp); reflexivity. Qed.

  Lemma aw_cs_lt_z : vc_lt cs (clk log' z) /\ gc_getd r cs < gc_getd r (clk log' z).
  Proof.
    rewrite aw_clk_z. split; [split|].
    - intros k. rewrite vc_inc_getd by (try apply aw_cs_wf; apply aw_nov). destruct (k =? r) eqn:E; [assert (k = r) by lia; subst; lia|lia].
    - exists r. rewrite vc_inc_getd by (try apply aw_cs_wf; apply aw_nov). rewrite Z.eqb_refl. lia.
    - rewrite vc_inc_getd by (try apply aw_cs_wf; apply aw_nov). rewrite Z.eqb_refl. lia.
  Qed.

  (* every delivered update of the element is below or equal to the state's clock *)
  Lemma aw_state_above : forall x, In x D -> elem_of x = elem -> vc_le (clk log x) cs.
  Proof.
    intros x Hx Hxe. destruct HR as [_ H]. unfold cs.
    destruct (H elem) as [[Hn _]|(p & c & Hp & E & T)].
    - exfalso. now apply (Hn x Hx).
    - rewrite E. replace (clock_of (Some (mkE p c))) with c by (destruct Hp as [-> | ->]; reflexivity).
      now apply (topSet_above log D elem p c x T).
  Qed.

  Lemma aw_below_z : forall x, In x D -> elem_of x = elem ->
    vc_lt (clk log' x) (clk log' z) /\ gc_getd r (clk log' x) < gc_getd r (clk log' z).
  Proof.
    intros x Hx Hxe. rewrite (clk_extends log log' x aw_ext (Hg x Hx)).
    pose proof (aw_state_above x Hx Hxe) as Hle. destruct aw_cs_lt_z as [Hlt Hr]. split.
    - eapply vc_le_lt_trans; eauto.
    - specialize (Hle r). lia.
  Qed.

  Lemma arL_write : arL log'.
  Proof.
    pose proof HL as (L1 & L2 & L5). destruct Hpre as (_ & Hcmd & Hopp). cbn [fst snd] in *.
    assert (Hzc : cmd_of z = cmd) by reflexivity.
    assert (Hbz : forall y, logged log y -> elem_of y = elem -> cmd_of y = opp cmd ->
                vc_lt (clk log' y) (clk log' z) /\ gc_getd r (clk log' y) < gc_getd r (clk log' z)).
    { intros y Hy Hye Hc. apply aw_below_z; auto. }
    split; [|split].
    - intros y Hy. destruct (aw_logged_old y Hy) as [->|Hy'].
      + rewrite Hzc. split; [exact Hcmd|]. exists (vc_inc r cs). split; [exact aw_entry_z|].
        apply vc_inc_wf; [exact aw_cs_wf|exact aw_nov].
      + rewrite (entry_extends log log' y aw_ext Hy'). now apply L1.
    - intros x y Hx Hy Hxy Hc. destruct (aw_logged_old x Hx) as [->|Hx']; destruct (aw_logged_old y Hy) as [->|Hy'].
      + exfalso. rewrite Hzc in Hc. symmetry in Hc. now apply (opp_neq cmd Hcmd).
      + right. assert (Hye : elem_of y = elem) by (rewrite <- Hxy; reflexivity).
        assert (Hyc : cmd_of y = opp cmd).
        { rewrite Hzc in Hc. destruct (L1 y Hy') as (Hyp & _). rewrite Hc. symmetry. now apply opp_opp. }
        destruct (Hbz y Hy' Hye Hyc) as [H _]. exact H.
      + left. assert (Hxe : elem_of x = elem) by (rewrite Hxy; reflexivity).
        assert (Hxc : cmd_of x = opp cmd) by (rewrite Hc, Hzc; reflexivity).
        destruct (Hbz x Hx' Hxe Hxc) as [H _]. exact H.
      + rewrite !(clk_extends log log' _ aw_ext) by assumption. now apply L2.
    - intros x y Hx Hy Hxy Hc Hlt. destruct (aw_logged_old x Hx) as [->|Hx']; destruct (aw_logged_old y Hy) as [->|Hy'].
      + exfalso. now apply (vc_lt_irrefl (clk log' z)).
      + exfalso. assert (Hye : elem_of y = elem) by (rewrite <- Hxy; reflexivity).
        assert (Hyc : cmd_of y = opp cmd).
        { rewrite Hzc in Hc. destruct (L1 y Hy') as (Hyp & _). rewrite Hc. symmetry. now apply opp_opp. }
        destruct (Hbz y Hy' Hye Hyc) as [Hyz _]. apply (vc_lt_irrefl (clk log' z)). eapply vc_lt_trans; eauto.
      + assert (Hxe : elem_of x = elem) by (rewrite Hxy; reflexivity).
        assert (Hxc : cmd_of x = opp cmd) by (rewrite Hc, Hzc; reflexivity).
        destruct (Hbz x Hx' Hxe Hxc) as [_ H]. exact H.
      + rewrite !(clk_extends log log' _ aw_ext) in * by assumption. now apply L5.
  Qed.

  Lemma arR_write : arR log' (z :: D) s'.
  Proof.
    destruct HR as [Hw H]. destruct Hpre as (Hov & Hcmd & Hopp). cbn [fst snd] in *. split.
    - apply aw_write_wf; [exact Hw|exact Hov].
    - intros e. destruct (Z.eq_dec e elem) as [->|Hne].
      + (* the new update is above everything delivered: it is the only top update of its polarity *)
        assert (Hent : ent elem s' = entry_of log' z) by (unfold entry_of; now rewrite aw_post).
        rewrite Hent, aw_entry_z. right. exists cmd, (vc_inc r cs). split; [exact Hcmd|]. split; [reflexivity|].
        assert (Hbel : forall x, In x D -> elem_of x = elem -> vc_lt (clk log' x) (clk log' z)) by (intros; now apply aw_below_z).
        assert (HzA : inTop log' (z :: D) elem cmd z).
        { split; [now left|]. split; [reflexivity|]. split; [reflexivity|].
          intros y [<-|Hy] Hye Hyc; [exfalso; unfold cmd_of, z in Hyc; cbn in Hyc; symmetry in Hyc; now apply (opp_neq cmd Hcmd)|].
          now apply Hbel. }
        rewrite <- aw_clk_z. split; [|split].
        * intros a (Ha & Hae & _). destruct Ha as [<-|Ha]; [intros k; lia|]. apply vc_lt_le. now apply Hbel.
        * intros k. exists z. split; [exact HzA|reflexivity].
        * intros x [<-|Hx] Hxe; [now left|right]. exists z. split; [exact HzA|now apply Hbel].
      + assert (Hent : ent e s' = ent e s).
        { unfold s'. rewrite (ent_write r cmd elem s e Hw). destruct (e =? elem) eqn:E; [lia|reflexivity]. }
        rewrite Hent. apply (desc2_ext log' D); [intros x Hx; split; [now right|intros [<-|Hin]; [unfold elem_of, z in Hx; cbn in Hx; congruence|exact Hin]]|].
        apply (desc2_extends log log' D e _ aw_ext Hg). apply H.
  Qed.
End ARWrite.

Theorem aw_ar_inv : forall ops, aw_addrem_ordered ops ->
  let st := fst (aw_xrun ops) in let g := snd (aw_xrun ops) in
  arL (g_log g) /\ forall r, arR (g_log g) (g_dl g r) (reps st r).
Proof.
  intros ops Hv.
  destruct (liftx aw (Z * Z) aw_init aw_write aw_merge aw_hop arpre arR arL) with (ops := ops) as (HL & HR & _); auto.
  - exact arL_init.
  - intros log D s r [cmd elem] HL HR Hg _ _ Hpre. now apply (arL_write log D s r cmd elem).
  - exact arR_init.
  - exact arR_mono.
  - intros log D s r [cmd elem] HL HR Hg _ _ Hpre. now apply (arR_write log D s r cmd elem).
  - exact arR_merge.
  - exact arR_hop.
Qed.

(* ---------------------------------------------------------------- consequences *)
Lemma desc2_unique : forall log D e x1 x2, desc2 log D e x1 -> desc2 log D e x2 -> ent_eqv x1 x2.
Proof.
  intros log D e x1 x2 H1 H2.
  destruct H1 as [[N1 ->]|(p1 & c1 & P1 & -> & T1)]; destruct H2 as [[N2 ->]|(p2 & c2 & P2 & -> & T2)].
  - exact I.
  - exfalso. destruct (topSet_nonempty log D e p2 c2 T2) as (a & Ha & Hae & _). now apply (N1 a Ha).
  - exfalso. destruct (topSet_nonempty log D e p1 c1 T1) as (a & Ha & Hae & _). now apply (N2 a Ha).
  - assert (p1 = p2) as ->.
    { destruct (Z.eq_dec p1 p2) as [E|E]; [exact E|exfalso].
      assert (Hopp : p2 = opp p1) by (destruct P1 as [-> | ->]; destruct P2 as [-> | ->]; try reflexivity; congruence).
      destruct (topSet_nonempty log D e p1 c1 T1) as (a & Ha & Hae & Hac & Hab).
      destruct (topSet_nonempty log D e p2 c2 T2) as (b & Hb & Hbe & Hbc & Hbb).
      assert (vc_lt (clk log b) (clk log a)) by (apply Hab; auto; congruence).
      assert (vc_lt (clk log a) (clk log b)) by (apply Hbb; auto; rewrite Hopp, (opp_opp p1 P1); exact Hac).
      apply (vc_lt_irrefl (clk log a)). eapply vc_lt_trans; eauto. }
    assert (Ec : gc_eqv c1 c2).
    { destruct T1 as (A1 & A2 & _). destruct T2 as (B1 & B2 & _). intros k.
      destruct (A2 k) as (a & Ha & Hak). destruct (B2 k) as (b & Hb & Hbk).
      pose proof (B1 a Ha k). pose proof (A1 b Hb k). lia. }
    destruct P2 as [-> | ->]; exact Ec.
Qed.

Theorem aw_ar_convergence : forall ops r1 r2, aw_addrem_ordered ops ->
  same_updates (aw_delivered ops r1) (aw_delivered ops r2) ->
  aw_eqv (reps (aw_run ops) r1) (reps (aw_run ops) r2) /\
  forall e, In e (aw_read (reps (aw_run ops) r1)) <-> In e (aw_read (reps (aw_run ops) r2)).
Proof.
  intros ops r1 r2 Hv Hs. destruct (aw_ar_inv ops Hv) as [HL H]. cbn zeta in HL, H.
  unfold aw_run. rewrite <- (xrun_fst aw (Z * Z) aw_init aw_write aw_merge aw_hop). unfold Model.delivered in Hs.
  destruct (H r1) as [W1 H1]. destruct (H r2) as [W2 H2].
  assert (E : aw_eqv (reps (fst (aw_xrun ops)) r1) (reps (fst (aw_xrun ops)) r2)).
  { intros e. apply (desc2_unique (g_log (snd (aw_xrun ops))) (g_dl (snd (aw_xrun ops)) r1) e); auto.
    eapply desc2_ext; [|apply H2]. intros z _. split; apply Hs. }
  split; [exact E|]. now apply aw_read_eqv.
Qed.

(* e is read iff some delivered add of e is above every delivered remove of e *)
Theorem aw_ar_read : forall ops r e, aw_addrem_ordered ops ->
  let log := g_log (snd (aw_xrun ops)) in
  In e (aw_read (reps (aw_run ops) r)) <-> exists a, inTop log (aw_delivered ops r) e addOp a.
Proof.
  intros ops r e Hv. cbn zeta. destruct (aw_ar_inv ops Hv) as [HL H]. cbn zeta in HL, H.
  unfold aw_run. rewrite <- (xrun_fst aw (Z * Z) aw_init aw_write aw_merge aw_hop). unfold Model.delivered.
  destruct (H r) as [W Hr]. rewrite aw_read_in by assumption.
  destruct (Hr e) as [[N E]|(p & c & [-> | ->] & E & T)].
  - rewrite E. split; [intros [c Hc]; discriminate|]. intros (a & Ha & Hae & _). exfalso. now apply (N a Ha).
  - split; [intros _; now apply (topSet_nonempty _ _ _ _ c)|intros _; rewrite E; cbn; eauto].
  - rewrite E. split; [intros [c' Hc]; discriminate|].
    intros (a & Ha & Hae & Hac & Hab). exfalso.
    destruct (topSet_nonempty _ _ _ _ _ T) as (b & Hb & Hbe & Hbc & Hbb).
    assert (vc_lt (clk (g_log (snd (aw_xrun ops))) b) (clk (g_log (snd (aw_xrun ops))) a)) by (apply Hab; auto).
    assert (vc_lt (clk (g_log (snd (aw_xrun ops))) a) (clk (g_log (snd (aw_xrun ops))) b)) by (apply Hbb; auto).
    apply (vc_lt_irrefl (clk (g_log (snd (aw_xrun ops))) a)). eapply vc_lt_trans; eauto.
Qed.

(* the class contains the removes-ordered histories (hence the sequential ones) *)
Theorem aw_removes_ordered_addrem_ordered : forall ops, aw_removes_ordered ops -> aw_addrem_ordered ops.
Proof.
  intros ops. apply validx_impl. intros log D r [cmd elem] s (H1 & H2 & H3 & H4). cbn [fst snd] in *.
  split; [exact H1|]. split; [exact H2|]. intros y Hy Hye Hyc. cbn [fst snd] in *.
  destruct H2 as [-> | ->].
  - apply H3; auto.
  - apply H4; auto.
Qed.
