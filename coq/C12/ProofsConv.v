(* C12 — "hence": the classical state-based CRDT theorem, once, for any state type.
   If merge is commutative, associative and idempotent up to an equivalence it respects, init is
   its unit, writes are inflationary and gob preserves the state, then in every history the state of
   a replica is equivalent to the join of the post-states of the updates delivered to it; so two
   replicas that were delivered the same set of updates have equivalent states, whatever the order
   and duplication of the deliveries. Instantiated with GCounter and LWWSet at the end. *)
From PGV Require Import C12.Model C12.ProofsAL C12.ProofsGC C12.ProofsSys C12.ProofsGCHist C12.ProofsLWW.
From Coq Require Import Lia.

Section Conv.
  Variables (S A : Type).
  Variable init : S.
  Variable write : Z -> A -> S -> S.
  Variable merge : S -> S -> S.
  Variable hop : S -> S.
  Variable wf : S -> Prop.
  Variable eqv : S -> S -> Prop.
  Variable wpre : Z -> A -> S -> Prop.

  Hypothesis eqv_refl : forall a, eqv a a.
  Hypothesis eqv_sym : forall a b, eqv a b -> eqv b a.
  Hypothesis eqv_trans : forall a b c, eqv a b -> eqv b c -> eqv a c.
  Hypothesis wf_init : wf init.
  Hypothesis wf_merge : forall a b, wf a -> wf b -> wf (merge a b).
  Hypothesis wf_write : forall r a s, wf s -> wpre r a s -> wf (write r a s).
  Hypothesis wf_hop : forall s, wf s -> wf (hop s).
  Hypothesis merge_eqv : forall a a' b b', wf a -> wf a' -> wf b -> wf b' ->
    eqv a a' -> eqv b b' -> eqv (merge a b) (merge a' b').
  Hypothesis merge_comm : forall a b, wf a -> wf b -> eqv (merge a b) (merge b a).
  Hypothesis merge_assoc : forall a b c, wf a -> wf b -> wf c -> eqv (merge (merge a b) c) (merge a (merge b c)).
  Hypothesis merge_idem : forall a, wf a -> eqv (merge a a) a.
  Hypothesis merge_init : forall a, wf a -> eqv (merge init a) a.
  Hypothesis write_infl : forall r a s, wf s -> wpre r a s -> eqv (merge s (write r a s)) (write r a s).
  Hypothesis hop_eqv : forall s, wf s -> eqv (hop s) s.

  Notation ev := (ev A).

  (* the writer's state right after the update e *)
  Definition sigma (log : Z -> list (A * S)) (e : ev) : S :=
    match nth_error (log (ev_rep e)) (ev_seq e) with Some (_, s) => s | None => init end.

  Definition joinD (log : Z -> list (A * S)) (D : list ev) : S :=
    fold_right (fun e acc => merge (sigma log e) acc) init D.

  Definition allwf (log : Z -> list (A * S)) (D : list ev) : Prop := forall e, In e D -> wf (sigma log e).

  Lemma joinD_wf : forall log D, allwf log D -> wf (joinD log D).
  Proof.
    induction D as [|e D IH]; intros H; cbn; [exact wf_init|].
    apply wf_merge; [apply H; now left|apply IH; intros x Hx; apply H; now right].
  Qed.

  Lemma allwf_tail : forall log e D, allwf log (e :: D) -> wf (sigma log e) /\ allwf log D.
  Proof. intros log e D H. split; [apply H; now left|intros x Hx; apply H; now right]. Qed.

  (* x ⊔ (y ⊔ z) = y ⊔ (x ⊔ z) *)
  Lemma merge_swap : forall x y z, wf x -> wf y -> wf z -> eqv (merge x (merge y z)) (merge y (merge x z)).
  Proof.
    intros x y z Hx Hy Hz.
    eapply eqv_trans; [apply eqv_sym, merge_assoc; assumption|].
    eapply eqv_trans; [|apply merge_assoc; assumption].
    apply merge_eqv; auto.
  Qed.

  Lemma absorb : forall log D e, allwf log D -> In e D -> eqv (merge (sigma log e) (joinD log D)) (joinD log D).
  Proof.
    induction D as [|h D IH]; intros e Hw Hin; [destruct Hin|].
    destruct (allwf_tail _ _ _ Hw) as [Hh HD]. pose proof (joinD_wf log D HD) as HJ. cbn [joinD fold_right].
    fold (joinD log D). destruct Hin as [->|Hin].
    - eapply eqv_trans; [apply eqv_sym, merge_assoc; assumption|].
      apply merge_eqv; auto.
    - assert (He : wf (sigma log e)) by (apply HD; exact Hin).
      eapply eqv_trans; [apply merge_swap; assumption|].
      apply merge_eqv; auto.
  Qed.

  Lemma join_incl : forall log D1 D2, allwf log D1 -> allwf log D2 -> (forall e, In e D1 -> In e D2) ->
    eqv (merge (joinD log D1) (joinD log D2)) (joinD log D2).
  Proof.
    induction D1 as [|h D1 IH]; intros D2 H1 H2 Hin.
    - cbn. apply merge_init. now apply joinD_wf.
    - destruct (allwf_tail _ _ _ H1) as [Hh HD]. pose proof (joinD_wf log D1 HD) as HJ1. pose proof (joinD_wf log D2 H2) as HJ2.
      cbn [joinD fold_right]. fold (joinD log D1).
      eapply eqv_trans; [apply merge_assoc; assumption|].
      apply eqv_trans with (merge (sigma log h) (joinD log D2)).
      + apply merge_eqv; [assumption|assumption|now apply wf_merge|exact HJ2|apply eqv_refl|].
        apply IH; auto. intros e He. apply Hin. now right.
      + apply absorb; auto. apply Hin. now left.
  Qed.

  Lemma join_same : forall log D1 D2, allwf log D1 -> allwf log D2 -> same_updates D1 D2 ->
    eqv (joinD log D1) (joinD log D2).
  Proof.
    intros log D1 D2 H1 H2 Hs. pose proof (joinD_wf log D1 H1) as HJ1. pose proof (joinD_wf log D2 H2) as HJ2.
    eapply eqv_trans; [apply eqv_sym; apply (join_incl log D2 D1 H2 H1); intros e He; now apply Hs|].
    eapply eqv_trans; [apply merge_comm; assumption|].
    apply (join_incl log D1 D2 H1 H2). intros e He. now apply Hs.
  Qed.

  Lemma joinD_app : forall log D1 D2, allwf log D1 -> allwf log D2 ->
    eqv (joinD log (D1 ++ D2)) (merge (joinD log D1) (joinD log D2)).
  Proof.
    induction D1 as [|h D1 IH]; intros D2 H1 H2.
    - cbn. apply eqv_sym, merge_init. now apply joinD_wf.
    - destruct (allwf_tail _ _ _ H1) as [Hh HD]. pose proof (joinD_wf log D1 HD) as HJ1. pose proof (joinD_wf log D2 H2) as HJ2.
      cbn [app joinD fold_right]. fold (joinD log (D1 ++ D2)). fold (joinD log D1).
      assert (H12 : allwf log (D1 ++ D2)) by (intros e He; apply in_app_or in He as [He|He]; auto).
      apply eqv_trans with (merge (sigma log h) (merge (joinD log D1) (joinD log D2))).
      + apply merge_eqv; [assumption|assumption|now apply joinD_wf|now apply wf_merge|apply eqv_refl|now apply IH].
      + apply eqv_sym, merge_assoc; assumption.
  Qed.

  Lemma sigma_extends : forall log log' D e, extends S A log log' -> genuine S A log D -> In e D -> sigma log' e = sigma log e.
  Proof.
    intros log log' D e Hex Hg He. unfold sigma. destruct (Hg e He) as [s Hs]. destruct (Hex (ev_rep e)) as [l Hl].
    rewrite Hl, nth_error_app1 by (apply nth_error_Some; congruence). reflexivity.
  Qed.

  Lemma joinD_extends : forall log log' D, extends S A log log' -> genuine S A log D -> joinD log' D = joinD log D.
  Proof.
    induction D as [|e D IH]; intros Hex Hg; [reflexivity|]. cbn [joinD fold_right].
    rewrite (sigma_extends log log' (e :: D) e Hex Hg) by now left.
    f_equal. apply IH; [exact Hex|]. intros x Hx. apply Hg. now right.
  Qed.

  Definition convR (log : Z -> list (A * S)) (D : list ev) (s : S) : Prop :=
    wf s /\ allwf log D /\ eqv s (joinD log D).

  Theorem state_is_join : forall ops, valid S A init write merge hop wpre ops ->
    let st := fst (xrun S A init write merge hop ops) in let g := snd (xrun S A init write merge hop ops) in
    forall r, convR (g_log g) (g_dl g r) (reps st r).
  Proof.
    intros ops Hv. apply (lift S A init write merge hop wpre convR); auto.
    - intros log. split; [exact wf_init|]. split; [intros e []|apply eqv_refl].
    - intros log log' D s Hex Hg (Hw & Ha & He). split; [exact Hw|]. split.
      + intros e Hin. rewrite (sigma_extends log log' D e Hex Hg Hin). now apply Ha.
      + now rewrite (joinD_extends log log' D Hex Hg).
    - intros log D s r a (Hw & Ha & He) Hg _ _ Hpre.
      set (log' := fupd log r (log r ++ [(a, write r a s)])).
      set (e := mkEv r (List.length (log r)) a).
      assert (Hex : extends S A log log') by apply extends_write.
      assert (Hse : sigma log' e = write r a s).
      { unfold sigma, e, log'. cbn. rewrite fupd_same, nth_error_app2 by lia. now rewrite Nat.sub_diag. }
      assert (Hw' : wf (write r a s)) by now apply wf_write.
      assert (Ha' : allwf log' D).
      { intros x Hx. rewrite (sigma_extends log log' D x Hex Hg Hx). now apply Ha. }
      split; [exact Hw'|]. split.
      + intros x [<-|Hx]; [now rewrite Hse|now apply Ha'].
      + cbn [joinD fold_right]. fold (joinD log' D). rewrite Hse, (joinD_extends log log' D Hex Hg).
        pose proof (joinD_wf log D Ha) as HJ.
        apply eqv_sym. apply eqv_trans with (merge (write r a s) s).
        * apply merge_eqv; [exact Hw'|exact Hw'|exact HJ|exact Hw|apply eqv_refl|apply eqv_sym, He].
        * eapply eqv_trans; [apply merge_comm; assumption|]. now apply write_infl.
    - intros log D1 s1 D2 s2 (W1 & A1 & E1) (W2 & A2 & E2) _ _. split; [now apply wf_merge|]. split.
      + intros e He. apply in_app_or in He as [He|He]; auto.
      + eapply eqv_trans; [|apply eqv_sym, joinD_app; assumption].
        apply merge_eqv; auto using joinD_wf.
    - intros log D s (Hw & Ha & He). split; [now apply wf_hop|]. split; [exact Ha|].
      eapply eqv_trans; [now apply hop_eqv|exact He].
  Qed.

  (* strong convergence from the semilattice laws *)
  Theorem semilattice_convergence : forall ops r1 r2, valid S A init write merge hop wpre ops ->
    same_updates (delivered S A init write merge hop ops r1) (delivered S A init write merge hop ops r2) ->
    eqv (reps (run S A init write merge hop ops) r1) (reps (run S A init write merge hop ops) r2).
  Proof.
    intros ops r1 r2 Hv Hs. pose proof (state_is_join ops Hv) as H. cbn zeta in H.
    rewrite <- (xrun_fst S A init write merge hop).
    destruct (H r1) as (_ & A1 & E1). destruct (H r2) as (_ & A2 & E2).
    eapply eqv_trans; [exact E1|]. eapply eqv_trans; [|apply eqv_sym, E2].
    apply join_same; assumption.
  Qed.
End Conv.

(* ---------------------------------------------------------------- instances *)
Lemma gc_merge_init : forall a, gc_wf a -> gc_eqv (gc_merge gc_init a) a.
Proof.
  intros a Ha k. rewrite gc_merge_getd; [|intros j; cbn; lia|exact Ha].
  destruct Ha as [_ Hnn]. specialize (Hnn k). cbn. lia.
Qed.

Theorem gc_convergence_from_laws : forall ops r1 r2, gc_valid ops ->
  same_updates (gc_delivered ops r1) (gc_delivered ops r2) -> gc_eqv (reps (gc_run ops) r1) (reps (gc_run ops) r2).
Proof.
  apply (semilattice_convergence gc Z gc_init gc_write gc_merge gc_hop gc_wf gc_eqv gc_wpre);
    auto using gc_eqv_refl, gc_eqv_sym, gc_wf_init, gc_merge_wf, gc_write_wf, gc_hop_wf, gc_merge_eqv, gc_merge_comm,
               gc_merge_assoc, gc_merge_idem, gc_merge_init, gc_write_inflationary, gc_hop_eqv.
  exact gc_eqv_trans.
Qed.

Lemma lww_merge_init : forall a, lww_wf a -> lww_eqv (lww_merge lww_init a) a.
Proof. intros a Ha e. destruct (lww_merge_get lww_init a e Ha) as [-> ->]. cbn. split; reflexivity. Qed.

Theorem lww_convergence_from_laws : forall ops r1 r2,
  same_updates (lww_delivered ops r1) (lww_delivered ops r2) -> lww_eqv (reps (lww_run ops) r1) (reps (lww_run ops) r2).
Proof.
  intros ops r1 r2.
  apply (semilattice_convergence lww (Z * Z * Z) lww_init lww_write lww_merge lww_hop lww_wf lww_eqv lww_wpre);
    auto using lww_eqv_refl, lww_eqv_sym, lww_wf_init, lww_merge_wf, lww_hop_wf, lww_merge_comm,
               lww_merge_assoc, lww_merge_idem, lww_merge_init, lww_hop_eqv.
  - exact lww_eqv_trans.
  - intros. now apply lww_write_wf.
  - intros. now apply lww_merge_eqv.
  - intros. now apply lww_write_inflationary.
  - intros ops1 r a ops2 _. exact I.
Qed.
